/-
  C16 — property theorems: Miller index conversions, plane normals, centering tables, reduction,
  enumeration, parsing, family identification.  The centering tables are the *generated* ones
  (`Atomman/Generated/MillerTables.lean`, regenerated from miller.py on every run).
-/
import Atomman.C16
import Proofs.C16_String
import Proofs.C16_Object
import Proofs.C16_Memory
import Proofs.C16_Source
import Mathlib.Tactic.Ring
import Mathlib.Tactic.Linarith
import Mathlib.Tactic.LinearCombination
import Mathlib.Tactic.FieldSimp
import Mathlib.Tactic.NormNum
import Mathlib.Tactic.Positivity
import Mathlib.Algebra.Order.Field.Basic
import Mathlib.Algebra.Order.Ring.Abs
import Mathlib.Algebra.Group.Int.Units
import Mathlib.Data.Int.GCD

namespace Atomman.C16
open Atomman.Gen
set_option linter.unusedSectionVars false
set_option linter.unusedSimpArgs false
set_option linter.unusedVariables false

/-! ## integer facts: in-plane vectors, reduction, enumeration -/

macro "pip" : tactic => `(tactic| (simp only [planeInPlane, ne_eq, *, not_true_eq_false, not_false_eq_true, if_true, if_false, ite_true, ite_false] <;> rfl))

/-- `s·(a ×ᵢ b)` is a positive rational multiple `num/den` of `(h,k,l)`, in every branch. -/
theorem idx_cross_parallel (h k l : ℤ) (hne : ¬(h = 0 ∧ k = 0 ∧ l = 0)) :
    ∃ a b s, planeInPlane h k l = .ok (a, b, s) ∧
      ∃ num den : ℤ, 0 < num ∧ 0 < den ∧
        V3.smul den (V3.smul s (V3.cross a b)) = V3.smul num ⟨h, k, l⟩ := by
  by_cases hh : h = 0 <;> by_cases hk : k = 0 <;> by_cases hl : l = 0
  · exact absurd ⟨hh, hk, hl⟩ hne
  · -- 00l
    subst hh hk
    refine ⟨_, _, _, by pip, 1, l.natAbs, by norm_num, by omega, ?_⟩
    simp only [V3.smul, V3.cross, V3.mk.injEq]
    have := Int.sign_mul_natAbs l
    refine ⟨by ring, by ring, ?_⟩
    linear_combination this
  · -- 0k0
    subst hh hl
    refine ⟨_, _, _, by pip, 1, k.natAbs, by norm_num, by omega, ?_⟩
    simp only [V3.smul, V3.cross, V3.mk.injEq]
    have := Int.sign_mul_natAbs k
    refine ⟨by ring, ?_, by ring⟩
    linear_combination this
  · -- 0kl
    subst hh
    have hm : (0 : ℤ) < (Int.lcm k l : ℕ) := by exact_mod_cast Int.lcm_pos hk hl
    have h1 := Int.mul_tdiv_cancel_of_dvd (Int.dvd_lcm_left k l)
    have h2 := Int.mul_tdiv_cancel_of_dvd (Int.dvd_lcm_right k l)
    have hs := Int.sign_mul_natAbs (k * l)
    refine ⟨_, _, _, by pip, (Int.lcm k l : ℕ), (k * l).natAbs, hm,
      by have := mul_ne_zero hk hl; omega, ?_⟩
    simp only [V3.smul, V3.cross, V3.mk.injEq, Int.neg_tdiv]
    generalize ((Int.lcm k l : ℕ) : ℤ) = m at *
    generalize m.tdiv k = q at *
    generalize m.tdiv l = r at *
    generalize ((k * l).natAbs : ℤ) = n at *
    generalize (k * l).sign = s at *
    refine ⟨by ring, ?_, ?_⟩
    · linear_combination r * hs + k * h2
    · linear_combination q * hs + l * h1
  · -- h00
    subst hk hl
    refine ⟨_, _, _, by pip, 1, h.natAbs, by norm_num, by omega, ?_⟩
    simp only [V3.smul, V3.cross, V3.mk.injEq]
    have := Int.sign_mul_natAbs h
    refine ⟨?_, by ring, by ring⟩
    linear_combination this
  · -- h0l
    subst hk
    have hm : (0 : ℤ) < (Int.lcm h l : ℕ) := by exact_mod_cast Int.lcm_pos hh hl
    have h1 := Int.mul_tdiv_cancel_of_dvd (Int.dvd_lcm_left h l)
    have h2 := Int.mul_tdiv_cancel_of_dvd (Int.dvd_lcm_right h l)
    have hs := Int.sign_mul_natAbs (h * l)
    refine ⟨_, _, _, by pip, (Int.lcm h l : ℕ), (h * l).natAbs, hm,
      by have := mul_ne_zero hh hl; omega, ?_⟩
    simp only [V3.smul, V3.cross, V3.mk.injEq, Int.neg_tdiv]
    generalize ((Int.lcm h l : ℕ) : ℤ) = m at *
    generalize m.tdiv h = p at *
    generalize m.tdiv l = r at *
    generalize ((h * l).natAbs : ℤ) = n at *
    generalize (h * l).sign = s at *
    refine ⟨?_, by ring, ?_⟩
    · linear_combination r * hs + h * h2
    · linear_combination p * hs + l * h1
  · -- hk0
    subst hl
    have hm : (0 : ℤ) < (Int.lcm h k : ℕ) := by exact_mod_cast Int.lcm_pos hh hk
    have h1 := Int.mul_tdiv_cancel_of_dvd (Int.dvd_lcm_left h k)
    have h2 := Int.mul_tdiv_cancel_of_dvd (Int.dvd_lcm_right h k)
    have hs := Int.sign_mul_natAbs (h * k)
    refine ⟨_, _, _, by pip, (Int.lcm h k : ℕ), (h * k).natAbs, hm,
      by have := mul_ne_zero hh hk; omega, ?_⟩
    simp only [V3.smul, V3.cross, V3.mk.injEq, Int.neg_tdiv]
    generalize ((Int.lcm h k : ℕ) : ℤ) = m at *
    generalize m.tdiv h = p at *
    generalize m.tdiv k = q at *
    generalize ((h * k).natAbs : ℤ) = n at *
    generalize (h * k).sign = s at *
    refine ⟨?_, ?_, by ring⟩
    · linear_combination q * hs + h * h2
    · linear_combination p * hs + k * h1
  · -- hkl
    have hhk : ((Int.lcm h k : ℕ) : ℤ) ≠ 0 := by exact_mod_cast Int.lcm_ne_zero hh hk
    have hm : (0 : ℤ) < (Int.lcm ((Int.lcm h k : ℕ) : ℤ) l : ℕ) := by exact_mod_cast Int.lcm_pos hhk hl
    have h1 := Int.mul_tdiv_cancel_of_dvd
      (dvd_trans (Int.dvd_lcm_left h k) (Int.dvd_lcm_left ((Int.lcm h k : ℕ) : ℤ) l))
    have h2 := Int.mul_tdiv_cancel_of_dvd
      (dvd_trans (Int.dvd_lcm_right h k) (Int.dvd_lcm_left ((Int.lcm h k : ℕ) : ℤ) l))
    have h3 := Int.mul_tdiv_cancel_of_dvd (Int.dvd_lcm_right ((Int.lcm h k : ℕ) : ℤ) l)
    have hs := Int.sign_mul_natAbs (h * k * l)
    refine ⟨_, _, _, by pip, (Int.lcm ((Int.lcm h k : ℕ) : ℤ) l : ℕ) * (Int.lcm ((Int.lcm h k : ℕ) : ℤ) l : ℕ),
      (h * k * l).natAbs, by positivity,
      by have := mul_ne_zero (mul_ne_zero hh hk) hl; omega, ?_⟩
    simp only [V3.smul, V3.cross, V3.mk.injEq, Int.neg_tdiv]
    generalize ((Int.lcm ((Int.lcm h k : ℕ) : ℤ) l : ℕ) : ℤ) = m at *
    generalize m.tdiv h = p at *
    generalize m.tdiv k = q at *
    generalize m.tdiv l = r at *
    generalize ((h * k * l).natAbs : ℤ) = n at *
    generalize (h * k * l).sign = s at *
    refine ⟨?_, ?_, ?_⟩
    · linear_combination q * r * hs + h * l * r * h2 + h * m * h3
    · linear_combination p * r * hs + k * l * r * h1 + k * m * h3
    · linear_combination p * q * hs + l * k * q * h1 + l * m * h2


def gstep (g : ℕ) (x : ℤ) : ℕ := Int.gcd (g : ℤ) x

theorem gcdList_eq (l : List ℤ) : gcdList l = l.foldl gstep 0 := rfl

theorem foldl_gstep_dvd (l : List ℤ) : ∀ acc : ℕ,
    ((l.foldl gstep acc : ℕ) : ℤ) ∣ (acc : ℤ) ∧ ∀ x ∈ l, ((l.foldl gstep acc : ℕ) : ℤ) ∣ x := by
  induction l with
  | nil => intro acc; simp
  | cons y ys ih =>
    intro acc
    obtain ⟨h1, h2⟩ := ih (gstep acc y)
    simp only [List.foldl_cons, List.mem_cons, forall_eq_or_imp]
    refine ⟨dvd_trans h1 (Int.gcd_dvd_left _ _), dvd_trans h1 (Int.gcd_dvd_right _ _), h2⟩

theorem foldl_gstep_greatest (d : ℤ) (l : List ℤ) : ∀ acc : ℕ, d ∣ (acc : ℤ) → (∀ x ∈ l, d ∣ x) →
    d ∣ ((l.foldl gstep acc : ℕ) : ℤ) := by
  induction l with
  | nil => intro acc h _; simpa using h
  | cons y ys ih =>
    intro acc h hl
    simp only [List.foldl_cons]
    exact ih _ (Int.dvd_coe_gcd h (hl y (by simp))) (fun x hx => hl x (by simp [hx]))

theorem foldl_gstep_mul (c : ℕ) (l : List ℤ) : ∀ acc : ℕ,
    (l.map (fun x => (c : ℤ) * x)).foldl gstep (c * acc) = c * l.foldl gstep acc := by
  induction l with
  | nil => intro acc; simp
  | cons y ys ih =>
    intro acc
    simp only [List.map_cons, List.foldl_cons]
    have : gstep (c * acc) ((c : ℤ) * y) = c * gstep acc y := by
      simp only [gstep, Nat.cast_mul, Int.gcd_mul_left, Int.natAbs_natCast]
    rw [this, ih]

/-- `gcdList` is the greatest common divisor: the common divisors of the entries are the divisors of it. -/
theorem gcdList_spec (l : List ℤ) (d : ℤ) : (∀ x ∈ l, d ∣ x) ↔ d ∣ (gcdList l : ℤ) := by
  constructor
  · intro h; exact foldl_gstep_greatest d l 0 (by simp) h
  · intro h x hx; exact dvd_trans h ((foldl_gstep_dvd l 0).2 x hx)

theorem gcdList_pos (l : List ℤ) (hnz : ∃ x ∈ l, x ≠ 0) : 0 < gcdList l := by
  obtain ⟨x, hx, hx0⟩ := hnz
  rcases Nat.eq_zero_or_pos (gcdList l) with h | h
  · have := (foldl_gstep_dvd l 0).2 x hx
    rw [← gcdList_eq, h] at this
    simp at this
    exact absurd this hx0
  · exact h

theorem reduceIndices_eq (l : List ℤ) (hlen : l.length = 3 ∨ l.length = 4) :
    reduceIndices l = .ok (l.map (fun x => Int.fdiv x ((gcdList l : ℕ) : ℤ))) := by
  simp only [reduceIndices, hlen, if_true]

theorem map_fdiv_mul (l : List ℤ) :
    l = (l.map (fun x => Int.fdiv x ((gcdList l : ℕ) : ℤ))).map (fun x => ((gcdList l : ℕ) : ℤ) * x) := by
  rw [List.map_map]
  conv_lhs => rw [← List.map_id l]
  apply List.map_congr_left
  intro x hx
  have hd : ((gcdList l : ℕ) : ℤ) ∣ x := (foldl_gstep_dvd l 0).2 x hx
  simp only [Function.comp, id, Int.fdiv_eq_ediv_of_dvd hd]
  exact (Int.mul_ediv_cancel' hd).symm

/-- the input is a positive integer multiple (the gcd) of the reduced indices: same direction. -/
theorem reduce_same_direction (l : List ℤ) (hlen : l.length = 3 ∨ l.length = 4) (hnz : ∃ x ∈ l, x ≠ 0) :
    ∃ (r : List ℤ) (g : ℕ), reduceIndices l = .ok r ∧ 0 < g ∧ l = r.map (fun x => (g : ℤ) * x) :=
  ⟨_, gcdList l, reduceIndices_eq l hlen, gcdList_pos l hnz, map_fdiv_mul l⟩

/-- the reduced indices are coprime: their gcd is 1, i.e. the only common divisors are ±1. -/
theorem reduce_coprime (l : List ℤ) (hlen : l.length = 3 ∨ l.length = 4) (hnz : ∃ x ∈ l, x ≠ 0) :
    ∃ r : List ℤ, reduceIndices l = .ok r ∧ gcdList r = 1 ∧
      ∀ d : ℤ, (∀ x ∈ r, d ∣ x) → d = 1 ∨ d = -1 := by
  have hg := gcdList_pos l hnz
  have h1 : gcdList (l.map (fun x => Int.fdiv x ((gcdList l : ℕ) : ℤ))) = 1 := by
    have := foldl_gstep_mul (gcdList l) (l.map (fun x => Int.fdiv x ((gcdList l : ℕ) : ℤ))) 0
    rw [Nat.mul_zero, ← map_fdiv_mul l, ← gcdList_eq, ← gcdList_eq] at this
    exact Nat.eq_of_mul_eq_mul_left hg (by omega)
  refine ⟨_, reduceIndices_eq l hlen, h1, ?_⟩
  intro d hd
  have := (gcdList_spec _ d).mp hd
  rw [h1] at this
  exact Int.isUnit_iff.mp (isUnit_of_dvd_one this)

/-- excluded case made explicit: the zero vector is returned unchanged (gcd 0, floor division by 0). -/
theorem reduce_zero : reduceIndices [0, 0, 0] = .ok [0, 0, 0] ∧ reduceIndices [0, 0, 0, 0] = .ok [0, 0, 0, 0] := by
  constructor <;> decide


theorem mem_intRange (lo hi x : ℤ) : x ∈ intRange lo hi ↔ lo ≤ x ∧ x < hi := by
  simp only [intRange, List.mem_map, List.mem_range, Int.ofNat_eq_natCast]
  constructor
  · rintro ⟨k, hk, rfl⟩; omega
  · intro h; exact ⟨(x - lo).toNat, by omega, by omega⟩

theorem mem_indexRange (m x : ℤ) : x ∈ indexRange m ↔ -m ≤ x ∧ x ≤ m := by
  rw [indexRange, mem_intRange]; omega

theorem mem_insertUniq (x a : List ℤ) (l : List (List ℤ)) : a ∈ insertUniq x l ↔ a = x ∨ a ∈ l := by
  induction l with
  | nil => simp [insertUniq]
  | cons y ys ih =>
    simp only [insertUniq]
    split_ifs with h1 h2
    · simp
    · subst h2; simp
    · simp only [List.mem_cons, ih]; tauto

theorem mem_sortUniq_aux (l : List (List ℤ)) : ∀ (acc : List (List ℤ)) (a : List ℤ),
    a ∈ l.foldl (fun acc x => insertUniq x acc) acc ↔ a ∈ acc ∨ a ∈ l := by
  induction l with
  | nil => simp
  | cons y ys ih =>
    intro acc a
    simp only [List.foldl_cons, ih, mem_insertUniq, List.mem_cons]; tauto

theorem mem_sortUniq (l : List (List ℤ)) (a : List ℤ) : a ∈ sortUniq l ↔ a ∈ l := by
  simp [sortUniq, mem_sortUniq_aux]

/-- `all_indices(m)` lists exactly the non-zero integer triples with every entry in `[-m, m]`. -/
theorem allIndices_complete (m u v w : ℤ) :
    [u, v, w] ∈ allIndices m false ↔
      (-m ≤ u ∧ u ≤ m) ∧ (-m ≤ v ∧ v ≤ m) ∧ (-m ≤ w ∧ w ≤ m) ∧ ¬(u = 0 ∧ v = 0 ∧ w = 0) := by
  simp only [allIndices, Bool.false_eq_true, if_false, List.mem_filter, List.mem_flatMap, List.mem_map,
    mem_indexRange]
  constructor
  · rintro ⟨⟨v', hv, u', hu, w', hw, he⟩, hz⟩
    simp only [List.cons.injEq, and_true] at he
    obtain ⟨rfl, rfl, rfl⟩ := he
    refine ⟨hu, hv, hw, ?_⟩
    rintro ⟨rfl, rfl, rfl⟩
    simp at hz
  · rintro ⟨hu, hv, hw, hz⟩
    refine ⟨⟨v, hv, u, hu, w, hw, rfl⟩, ?_⟩
    simp only [List.foldl_cons, List.foldl_nil, ne_eq]
    apply decide_eq_true
    omega

/-- every member of `all_indices(m)` is such a triple (nothing else is listed). -/
theorem allIndices_sound (m : ℤ) (t : List ℤ) (ht : t ∈ allIndices m false) :
    ∃ u v w, t = [u, v, w] := by
  simp only [allIndices, Bool.false_eq_true, if_false, List.mem_filter, List.mem_flatMap, List.mem_map] at ht
  obtain ⟨⟨v, _, u, _, w, _, rfl⟩, _⟩ := ht
  exact ⟨u, v, w, rfl⟩

/-- with `reduce=True` the list consists exactly of the reductions of those triples. -/
theorem allIndices_reduce_complete (m : ℤ) (t : List ℤ) :
    t ∈ allIndices m true ↔ ∃ t' ∈ allIndices m false, reduceIndices t' = .ok t := by
  simp only [allIndices, if_true, mem_sortUniq, List.mem_map, Bool.false_eq_true, if_false]
  constructor
  · rintro ⟨t', ht', rfl⟩
    refine ⟨t', ht', ?_⟩
    obtain ⟨u, v, w, rfl⟩ := allIndices_sound m t' (by simpa only [allIndices, Bool.false_eq_true, if_false] using ht')
    rw [reduceIndices_eq _ (by simp)]
  · rintro ⟨t', ht', hr⟩
    exact ⟨t', ht', by rw [hr]⟩


/-! ## field facts -/
section field
variable {K : Type} [Field K]

theorem v3_add (a b : V3 K) : a + b = ⟨a.x + b.x, a.y + b.y, a.z + b.z⟩ := rfl
theorem v3_sub (a b : V3 K) : a - b = ⟨a.x - b.x, a.y - b.y, a.z - b.z⟩ := rfl
theorem v3_neg (a : V3 K) : -a = ⟨-a.x, -a.y, -a.z⟩ := rfl

/-- rows `r1×r2, r2×r0, r0×r1` (the cofactor matrix; `= det V · reciprocal vectors`). -/
def cof (V : M3 K) : M3 K := ⟨V3.cross V.r1 V.r2, V3.cross V.r2 V.r0, V3.cross V.r0 V.r1⟩

theorem cross_of_lattice_vectors (V : M3 K) (p q : V3 K) :
    V3.cross (M3.vecMul p V) (M3.vecMul q V) = M3.vecMul (V3.cross p q) (cof V)
    ∧ (M3.det V ≠ 0 → V3.cross (M3.vecMul p V) (M3.vecMul q V)
        = V3.smul (M3.det V) (M3.vecMul (V3.cross p q) (M3.inv V).transpose)) := by
  constructor
  · simp only [V3.cross, M3.vecMul, cof, V3.mk.injEq]
    refine ⟨by ring, by ring, by ring⟩
  · intro hd
    simp only [V3.cross, M3.vecMul, V3.smul, M3.inv, M3.transpose, V3.mk.injEq]
    refine ⟨?_, ?_, ?_⟩ <;> field_simp <;> ring

theorem normalOf_eq (V : M3 K) (a b : V3 ℤ) (s num den h k l : ℤ) (hden : (den : K) ≠ 0) (hdet : M3.det V ≠ 0)
    (he : V3.smul den (V3.smul s (V3.cross a b)) = V3.smul num ⟨h, k, l⟩) :
    normalOf V a b s = V3.smul ((num : K) / den * M3.det V) (recipVector V h k l) := by
  simp only [V3.smul, V3.cross, V3.mk.injEq] at he
  obtain ⟨e1, e2, e3⟩ := he
  have e1' := congrArg (Int.cast (R := K)) e1
  have e2' := congrArg (Int.cast (R := K)) e2
  have e3' := congrArg (Int.cast (R := K)) e3
  push_cast at e1' e2' e3'
  simp only [normalOf, recipVector, castV, V3.smul, V3.cross, M3.vecMul, M3.inv, M3.transpose, V3.mk.injEq]
  refine ⟨?_, ?_, ?_⟩
  · field_simp
    linear_combination (V.r1.y * V.r2.z - V.r1.z * V.r2.y) * e1' + (V.r2.y * V.r0.z - V.r2.z * V.r0.y) * e2'
      + (V.r0.y * V.r1.z - V.r0.z * V.r1.y) * e3'
  · field_simp
    linear_combination (V.r1.z * V.r2.x - V.r1.x * V.r2.z) * e1' + (V.r2.z * V.r0.x - V.r2.x * V.r0.z) * e2'
      + (V.r0.z * V.r1.x - V.r0.x * V.r1.z) * e3'
  · field_simp
    linear_combination (V.r1.x * V.r2.y - V.r1.y * V.r2.x) * e1' + (V.r2.x * V.r0.y - V.r2.y * V.r0.x) * e2'
      + (V.r0.x * V.r1.y - V.r0.y * V.r1.x) * e3'



end field

section centering
variable {K : Type} [Field K] [CharZero K]
def settings : List String := ["p", "a", "b", "c", "i", "f", "t1", "t2"]
/-- number of lattice points of the conventional cell per primitive cell. -/
def centeringMultiplicity : String → Nat
  | "p" => 1 | "a" => 2 | "b" => 2 | "c" => 2 | "i" => 2 | "f" => 4 | "t1" => 3 | "t2" => 3 | _ => 0

theorem centering_inverse : ∀ s ∈ settings, ∃ P C : M3 K,
    primToConv? s = some P ∧ convToPrim? s = some C ∧ M3.mul P C = M3.one ∧ M3.mul C P = M3.one := by
  intro s hs
  simp only [settings, List.mem_cons, List.not_mem_nil, or_false] at hs
  rcases hs with rfl | rfl | rfl | rfl | rfl | rfl | rfl | rfl
  all_goals
    refine ⟨_, _, by simp [primToConv?]; rfl, by simp [convToPrim?]; rfl, ?_, ?_⟩
  all_goals
    simp only [M3.mul, M3.vecMul, M3.one, p2c_p, c2p_p, p2c_a, c2p_a, p2c_b, c2p_b, p2c_c, c2p_c, p2c_i, c2p_i,
      p2c_f, c2p_f, p2c_t1, c2p_t1, p2c_t2, c2p_t2, M3.mk.injEq, V3.mk.injEq]
    norm_num

theorem centering_det : ∀ s ∈ settings, ∃ P C : M3 K,
    primToConv? s = some P ∧ convToPrim? s = some C ∧
      M3.det P = 1 / (centeringMultiplicity s : K) ∧ M3.det C = (centeringMultiplicity s : K) := by
  intro s hs
  simp only [settings, List.mem_cons, List.not_mem_nil, or_false] at hs
  rcases hs with rfl | rfl | rfl | rfl | rfl | rfl | rfl | rfl
  all_goals
    refine ⟨_, _, by simp [primToConv?]; rfl, by simp [convToPrim?]; rfl, ?_, ?_⟩
  all_goals
    simp only [M3.det, V3.dot, V3.cross, centeringMultiplicity, p2c_p, c2p_p, p2c_a, c2p_a, p2c_b, c2p_b, p2c_c, c2p_c, p2c_i, c2p_i,
      p2c_f, c2p_f, p2c_t1, c2p_t1, p2c_t2, c2p_t2]
    norm_num

end centering

section ordered
variable {K : Type} [Field K] [LinearOrder K] [IsStrictOrderedRing K]

theorem absK_eq_abs (x : K) : absK x = |x| := by
  unfold absK
  split_ifs with h
  · exact (abs_of_neg h).symm
  · exact (abs_of_nonneg (not_lt.mp h)).symm

theorem sumIsZero_iff (atol s : K) : sumIsZero atol s = true ↔ |s| ≤ atol := by
  simp only [sumIsZero, absK_eq_abs, decide_eq_true_eq]

/-- integer sums: with `0 ≤ atol < 1` the numerical guard is the exact guard. -/
theorem sumIsZero_int (atol : K) (h0 : 0 ≤ atol) (h1 : atol < 1) (n : ℤ) :
    sumIsZero atol (n : K) = true ↔ n = 0 := by
  rw [sumIsZero_iff]
  constructor
  · intro h
    by_contra hn
    have : (1 : K) ≤ |(n : K)| := by
      rw [← Int.cast_abs]
      have : (1 : ℤ) ≤ |n| := Int.one_le_abs hn
      exact_mod_cast this
    linarith
  · rintro rfl; simpa using h0

/-- the array guard accepts iff every row's own sum is within `atol` (sums do not cancel across rows). -/
theorem guardAll_iff (atol : K) (rows : List (V4 K)) :
    guardAll atol rows = true ↔ ∀ q ∈ rows, |q.a + q.b + q.c| ≤ atol := by
  simp only [guardAll, List.all_eq_true, sumIsZero_iff]

/-- `plane4to3` on an array is `plane4to3` on every row, and one offending row rejects the array. -/
theorem plane4to3Arr_eq_mapM (atol : K) (rows : List (V4 K)) :
    plane4to3Arr atol rows = rows.mapM (plane4to3 atol) := by
  induction rows with
  | nil => simp [plane4to3Arr, guardAll]; rfl
  | cons q rows ih =>
    rw [List.mapM_cons, ← ih]
    unfold plane4to3Arr plane4to3 guardAll
    simp only [List.all_cons]
    by_cases h1 : sumIsZero atol (q.a + q.b + q.c) = true <;>
      by_cases h2 : (rows.all fun q => sumIsZero atol (q.a + q.b + q.c)) = true <;>
      simp only [h1, h2, Bool.and_self, Bool.and_true, Bool.and_false, Bool.true_and, Bool.false_and, if_true, if_false,
        bind, Except.bind, pure, Except.pure, List.map_cons, Bool.false_eq_true, Bool.not_eq_true]

theorem vector4to3Arr_eq_mapM (atol : K) (rows : List (V4 K)) :
    vector4to3Arr atol rows = rows.mapM (vector4to3 atol) := by
  induction rows with
  | nil => simp [vector4to3Arr, guardAll]; rfl
  | cons q rows ih =>
    rw [List.mapM_cons, ← ih]
    unfold vector4to3Arr vector4to3 guardAll
    simp only [List.all_cons]
    by_cases h1 : sumIsZero atol (q.a + q.b + q.c) = true <;>
      by_cases h2 : (rows.all fun q => sumIsZero atol (q.a + q.b + q.c)) = true <;>
      simp only [h1, h2, Bool.and_self, Bool.and_true, Bool.and_false, Bool.true_and, Bool.false_and, if_true, if_false,
        bind, Except.bind, pure, Except.pure, List.map_cons, Bool.false_eq_true, Bool.not_eq_true]

/-- integer arrays, `0 ≤ atol < 1`: accepted iff `h + k + i = 0` in EVERY row; then no row loses anything
    (`plane3to4` of the result row is the row). -/
theorem plane4to3Arr_int (atol : K) (h0 : 0 ≤ atol) (h1 : atol < 1) (rows : List (ℤ × ℤ × ℤ × ℤ)) :
    let rowsK : List (V4 K) := rows.map fun r => ⟨(r.1 : K), (r.2.1 : K), (r.2.2.1 : K), (r.2.2.2 : K)⟩
    ((∃ out, plane4to3Arr atol rowsK = .ok out) ↔ ∀ r ∈ rows, r.1 + r.2.1 + r.2.2.1 = 0) ∧
    (∀ out, plane4to3Arr atol rowsK = .ok out → out.map plane3to4 = rowsK) := by
  intro rowsK
  have hg : guardAll atol rowsK = true ↔ ∀ r ∈ rows, r.1 + r.2.1 + r.2.2.1 = 0 := by
    simp only [guardAll, List.all_eq_true, rowsK, List.mem_map, forall_exists_index, and_imp,
      forall_apply_eq_imp_iff₂]
    constructor
    · intro h r hr
      have := h r hr
      rw [show ((r.1 : K) + (r.2.1 : K) + (r.2.2.1 : K)) = ((r.1 + r.2.1 + r.2.2.1 : ℤ) : K) by push_cast; ring] at this
      exact (sumIsZero_int atol h0 h1 _).1 this
    · intro h r hr
      rw [show ((r.1 : K) + (r.2.1 : K) + (r.2.2.1 : K)) = ((r.1 + r.2.1 + r.2.2.1 : ℤ) : K) by push_cast; ring]
      exact (sumIsZero_int atol h0 h1 _).2 (h r hr)
  constructor
  · unfold plane4to3Arr
    constructor
    · rintro ⟨out, ho⟩
      by_cases hga : guardAll atol rowsK = true
      · exact hg.1 hga
      · simp [hga] at ho
    · intro h
      exact ⟨_, by rw [if_pos (hg.2 h)]⟩
  · intro out ho
    unfold plane4to3Arr at ho
    by_cases hga : guardAll atol rowsK = true
    · rw [if_pos hga] at ho
      injection ho with ho
      subst ho
      have hz := hg.1 hga
      simp only [rowsK, List.map_map]
      apply List.map_congr_left
      intro r hr
      have := hz r hr
      simp only [Function.comp, plane3to4, V4.mk.injEq, true_and, and_true]
      have h3 : (r.2.2.1 : K) = -((r.1 : K) + (r.2.1 : K)) := by
        have : r.2.2.1 = -(r.1 + r.2.1) := by omega
        rw [this]; push_cast; ring
      exact h3.symm
    · simp [hga] at ho

theorem plane34_roundtrip (atol : K) (hat : 0 ≤ atol) :
    (∀ p : V3 K, plane4to3 atol (plane3to4 p) = .ok p) ∧
    (∀ (q : V4 K) (p : V3 K), plane4to3 atol q = .ok p → q.a + q.b + q.c = 0 → plane3to4 p = q) := by
  constructor
  · intro p
    have h : sumIsZero atol (p.x + p.y + -(p.x + p.y)) = true := by
      rw [sumIsZero_iff]; simpa using hat
    simp only [plane4to3, plane3to4, h, if_true]
  · intro q p h hs
    simp only [plane4to3] at h
    split_ifs at h
    cases h
    simp only [plane3to4]
    ext <;> simp only []
    linear_combination -hs


theorem vector34_roundtrip (atol : K) (hat : 0 ≤ atol) :
    (∀ p : V3 K, vector4to3 atol (vector3to4 p) = .ok p) ∧
    (∀ (q : V4 K) (p : V3 K), vector4to3 atol q = .ok p → q.a + q.b + q.c = 0 → vector3to4 p = q) := by
  constructor
  · intro p
    have h : ∀ u v : K, sumIsZero atol (u + v + -(u + v)) = true := by
      intro u v; rw [sumIsZero_iff]; simpa using hat
    simp only [vector4to3, vector3to4, h, if_true, Except.ok.injEq]
    ext <;> simp only [Nat.cast_ofNat] <;> ring
  · intro q p h hs
    simp only [vector4to3] at h
    split_ifs at h
    cases h
    simp only [vector3to4, Nat.cast_ofNat]
    ext <;> simp only []
    · linear_combination (0 : K) * hs
    · linear_combination (0 : K) * hs
    · linear_combination (-1 : K) * hs

/-- a four-index vector `[u v t w]` (with `u+v+t = 0`) denotes `u a₁ + v a₂ + t a₃ + w c` where
    `a₃ = -a₁ - a₂`; the code's three-index vector dotted with the cell gives the same Cartesian vector. -/
theorem vector4_same_direction (atol : K) (V : M3 K) (q : V4 K) (p : V3 K)
    (h : vector4to3 atol q = .ok p) (hs : q.a + q.b + q.c = 0) :
    M3.vecMul p V =
      V3.smul q.a V.r0 + V3.smul q.b V.r1 + V3.smul q.c (-V.r0 - V.r1) + V3.smul q.d V.r2
    ∧ vectorCrystalToCartesian atol true V [q.a, q.b, q.c, q.d] = .ok (M3.vecMul p V) := by
  constructor
  · simp only [vector4to3] at h
    split_ifs at h
    cases h
    have hc : q.c = -(q.a + q.b) := by linear_combination hs
    simp only [M3.vecMul, V3.smul, v3_add, v3_sub, v3_neg, Nat.cast_ofNat, V3.mk.injEq, hc]
    refine ⟨?_, ?_, ?_⟩ <;> ring
  · simp only [vectorCrystalToCartesian, if_true, h]


/-- the (unnormalised) normal computed by the code is `c · det V · (h a* + k b* + l c*)` with `c > 0`. -/
theorem normal_is_reciprocal (V : M3 K) (hdet : M3.det V ≠ 0) (h k l : ℤ) (hne : ¬(h = 0 ∧ k = 0 ∧ l = 0)) :
    ∃ n, planeNormalUnnorm V h k l = .ok n ∧
      ∃ c : K, 0 < c ∧ n = V3.smul (c * M3.det V) (recipVector V h k l) := by
  obtain ⟨a, b, s, hp, num, den, hnum, hden, he⟩ := idx_cross_parallel h k l hne
  have hdenK : (0 : K) < (den : K) := by exact_mod_cast hden
  have hnumK : (0 : K) < (num : K) := by exact_mod_cast hnum
  refine ⟨normalOf V a b s, by simp only [planeNormalUnnorm, hp], (num : K) / den, by positivity, ?_⟩
  exact normalOf_eq V a b s num den h k l hdenK.ne' hdet he


/-- `isclose` is numpy's formula `|x - y| ≤ atol + rtol·|y|`. -/
theorem isclose_iff (rtol atol x y : K) : isclose rtol atol x y = true ↔ |x - y| ≤ atol + rtol * |y| := by
  simp only [isclose, absK_eq_abs, decide_eq_true_eq]

theorem isclose_self (rtol atol x : K) (hr : 0 ≤ rtol) (ha : 0 ≤ atol) : isclose rtol atol x x = true := by
  rw [isclose_iff, sub_self, abs_zero]; positivity

/-- tolerances are small against the 30° between 90° and 120°: no angle is close to both. -/
theorem not_close_90_120 (rtol atol g : K) (htol : 2 * atol + 210 * rtol < 30)
    (h120 : isclose rtol atol g deg120 = true) : isclose rtol atol g deg90 = false := by
  rw [Bool.eq_false_iff]
  intro h90
  rw [isclose_iff] at h120 h90
  simp only [deg90, deg120, Nat.cast_ofNat, Nat.abs_ofNat] at h120 h90
  have := abs_le.mp h120
  have := abs_le.mp h90
  linarith

section
variable (rtol atol : K) (p : CellParams K)

theorem identify_cubic_of_pred (h : isCubic rtol atol p = true) : identifyFamily rtol atol p = some .cubic := by
  simp only [identifyFamily, h, if_true]

theorem identify_hexagonal_of_pred (htol : 2 * atol + 210 * rtol < 30) (h : isHexagonal rtol atol p = true) :
    identifyFamily rtol atol p = some .hexagonal := by
  have hg : isclose rtol atol p.gamma deg120 = true := by
    simp only [isHexagonal, Bool.and_eq_true] at h; exact h.2
  have hc : isCubic rtol atol p = false := by
    simp only [isCubic, not_close_90_120 rtol atol p.gamma htol hg, Bool.and_false]
  simp only [identifyFamily, hc, h, if_true, Bool.false_eq_true, if_false]

theorem identify_tetragonal_of_pred (htol : 2 * atol + 210 * rtol < 30) (h : isTetragonal rtol atol p = true) :
    identifyFamily rtol atol p = some .tetragonal := by
  simp only [isTetragonal, Bool.and_eq_true, Bool.not_eq_true'] at h
  obtain ⟨⟨⟨⟨hab, hac⟩, hal⟩, hbe⟩, hga⟩ := h
  have hc : isCubic rtol atol p = false := by simp only [isCubic, hac, Bool.and_false, Bool.false_and]
  have hh : isHexagonal rtol atol p = false := by
    have : isclose rtol atol p.gamma deg120 = false := by
      by_contra hcon
      rw [Bool.not_eq_false] at hcon
      rw [not_close_90_120 rtol atol p.gamma htol hcon] at hga
      exact Bool.false_ne_true hga
    simp only [isHexagonal, this, Bool.and_false]
  simp only [identifyFamily, hc, hh, isTetragonal, hab, hac, hal, hbe, hga, Bool.false_eq_true, if_false,
    Bool.not_false, Bool.and_self, if_true]

theorem identify_rhombohedral_of_pred (h : isRhombohedral rtol atol p = true) :
    identifyFamily rtol atol p = some .rhombohedral := by
  have h' := h
  simp only [isRhombohedral, Bool.and_eq_true, Bool.not_eq_true'] at h'
  obtain ⟨_, hal⟩ := h'
  have hc : isCubic rtol atol p = false := by simp only [isCubic, hal, Bool.and_false, Bool.false_and]
  have hh : isHexagonal rtol atol p = false := by simp only [isHexagonal, hal, Bool.and_false, Bool.false_and]
  have ht : isTetragonal rtol atol p = false := by simp only [isTetragonal, hal, Bool.and_false, Bool.false_and]
  simp only [identifyFamily, hc, hh, ht, h, Bool.false_eq_true, if_false, if_true]

theorem first_four_need_ab (hab : isclose rtol atol p.a p.b = false) :
    isCubic rtol atol p = false ∧ isHexagonal rtol atol p = false ∧ isTetragonal rtol atol p = false
      ∧ isRhombohedral rtol atol p = false := by
  simp only [isCubic, isHexagonal, isTetragonal, isRhombohedral, hab, Bool.false_and, and_self]

theorem identify_orthorhombic_of_pred (h : isOrthorhombic rtol atol p = true) :
    identifyFamily rtol atol p = some .orthorhombic := by
  have h' := h
  simp only [isOrthorhombic, Bool.and_eq_true, Bool.not_eq_true'] at h'
  obtain ⟨⟨⟨⟨hab, _⟩, _⟩, _⟩, _⟩ := h'
  obtain ⟨hc, hh, ht, hr⟩ := first_four_need_ab rtol atol p hab
  simp only [identifyFamily, hc, hh, ht, hr, h, Bool.false_eq_true, if_false, if_true]

theorem identify_monoclinic_of_pred (h : isMonoclinic rtol atol p = true) :
    identifyFamily rtol atol p = some .monoclinic := by
  have h' := h
  simp only [isMonoclinic, Bool.and_eq_true, Bool.not_eq_true'] at h'
  obtain ⟨⟨⟨⟨hab, _⟩, _⟩, hbe⟩, _⟩ := h'
  obtain ⟨hc, hh, ht, hr⟩ := first_four_need_ab rtol atol p hab
  have ho : isOrthorhombic rtol atol p = false := by simp only [isOrthorhombic, hbe, Bool.and_false, Bool.false_and]
  simp only [identifyFamily, hc, hh, ht, hr, ho, h, Bool.false_eq_true, if_false, if_true]

/-- triclinic: besides the predicate, `α` and `γ` must not both be (numerically) 90°
    (otherwise the earlier orthorhombic/monoclinic tests fire first). -/
theorem identify_triclinic_of_pred (h : isTriclinic rtol atol p = true)
    (hgen : ¬(isclose rtol atol p.alpha deg90 = true ∧ isclose rtol atol p.gamma deg90 = true)) :
    identifyFamily rtol atol p = some .triclinic := by
  have h' := h
  simp only [isTriclinic, Bool.and_eq_true, Bool.not_eq_true'] at h'
  obtain ⟨⟨⟨hab, _⟩, _⟩, _⟩ := h'
  obtain ⟨hc, hh, ht, hr⟩ := first_four_need_ab rtol atol p hab
  have ho : isOrthorhombic rtol atol p = false := by
    rw [Bool.eq_false_iff]; intro ho
    simp only [isOrthorhombic, Bool.and_eq_true] at ho
    exact hgen ⟨ho.1.1.2, ho.2⟩
  have hm : isMonoclinic rtol atol p = false := by
    rw [Bool.eq_false_iff]; intro hm
    simp only [isMonoclinic, Bool.and_eq_true] at hm
    exact hgen ⟨hm.1.1.2, hm.2⟩
  simp only [identifyFamily, hc, hh, ht, hr, ho, hm, h, Bool.false_eq_true, if_false, if_true]
end


end ordered

section ordered
variable {K : Type} [Field K] [LinearOrder K] [IsStrictOrderedRing K]

/-- zero index vector: the code raises ValueError. -/
theorem planeInPlane_zero : planeInPlane 0 0 0 = .error .value := by decide

/-- `(h a* + k b* + l c*) · (u a + v b + w c) = hu + kv + lw`. -/
theorem recip_dot_lattice (V : M3 K) (hdet : M3.det V ≠ 0) (h k l : ℤ) (p : V3 K) :
    V3.dot (recipVector V h k l) (M3.vecMul p V) = h * p.x + k * p.y + l * p.z := by
  simp only [recipVector, castV, M3.vecMul, M3.inv, M3.transpose]
  generalize hd : M3.det V = d at hdet ⊢
  simp only [V3.dot, V3.cross]
  field_simp
  rw [← hd]
  simp only [M3.det, V3.dot, V3.cross]
  ring

/-- zone law: the normal returned for `(hkl)` is perpendicular to the lattice vector `[uvw]`
    (any real multiples `u v w`, in particular integers) exactly when `hu + kv + lw = 0`. -/
theorem normal_perp_iff_zone (V : M3 K) (hdet : M3.det V ≠ 0) (h k l : ℤ) (hne : ¬(h = 0 ∧ k = 0 ∧ l = 0))
    (nrm : K) (hn : 0 < nrm) (p : V3 K) :
    ∃ n, planeNormalUnnorm V h k l = .ok n ∧
      (V3.dot (normalise n nrm) (M3.vecMul p V) = 0 ↔ (h : K) * p.x + k * p.y + l * p.z = 0) := by
  obtain ⟨n, hn1, c, hc, he⟩ := normal_is_reciprocal V hdet h k l hne
  refine ⟨n, hn1, ?_⟩
  have hz := recip_dot_lattice V hdet h k l p
  have key : V3.dot (normalise n nrm) (M3.vecMul p V)
      = (c * M3.det V / nrm) * ((h : K) * p.x + k * p.y + l * p.z) := by
    rw [← hz, he]
    simp only [normalise, V3.smul, V3.dot]
    field_simp
  rw [key]
  have : c * M3.det V / nrm ≠ 0 := div_ne_zero (mul_ne_zero hc.ne' hdet) hn.ne'
  constructor
  · intro h0; exact (mul_eq_zero.mp h0).resolve_left this
  · intro h0; rw [h0, mul_zero]

/-- for a right-handed cell the returned normal (after the division by its norm `nrm`) is the
    *unit* vector that is a *positive* multiple of `h a* + k b* + l c*`. -/
theorem normal_unit_along_reciprocal (V : M3 K) (hdet : 0 < M3.det V) (h k l : ℤ)
    (hne : ¬(h = 0 ∧ k = 0 ∧ l = 0)) :
    ∃ n, planeNormalUnnorm V h k l = .ok n ∧
      ∀ nrm : K, 0 < nrm → nrm * nrm = V3.normSq n →
        V3.dot (normalise n nrm) (normalise n nrm) = 1 ∧
        ∃ c : K, 0 < c ∧ normalise n nrm = V3.smul c (recipVector V h k l) := by
  obtain ⟨n, hn1, c, hc, he⟩ := normal_is_reciprocal V hdet.ne' h k l hne
  refine ⟨n, hn1, ?_⟩
  intro nrm hn hsq
  constructor
  · simp only [V3.normSq, V3.dot] at hsq
    simp only [normalise, V3.dot]
    field_simp
    linear_combination -hsq
  · refine ⟨c * M3.det V / nrm, by positivity, ?_⟩
    rw [he]
    simp only [normalise, V3.smul, V3.mk.injEq]
    refine ⟨?_, ?_, ?_⟩ <;> field_simp

/-- left-handed cells: the same formula gives the *negative* direction (why the property is stated
    for right-handed cells). -/
theorem normal_left_handed (V : M3 K) (hdet : M3.det V < 0) (h k l : ℤ)
    (hne : ¬(h = 0 ∧ k = 0 ∧ l = 0)) :
    ∃ n, planeNormalUnnorm V h k l = .ok n ∧ ∃ c : K, c < 0 ∧ n = V3.smul c (recipVector V h k l) := by
  obtain ⟨n, hn1, c, hc, he⟩ := normal_is_reciprocal V hdet.ne h k l hne
  exact ⟨n, hn1, c * M3.det V, mul_neg_of_pos_of_neg hc hdet, he⟩

/-- the four-index plane API: with integer indices and `0 ≤ atol < 1` it accepts exactly `h+k+i = 0`
    and returns the normal of `(hkl)`. -/
theorem plane4_api (atol : K) (h0 : 0 ≤ atol) (h1 : atol < 1) (V : M3 K) (h k i l : ℤ) :
    planeCrystalToCartesianUnnorm atol true V [h, k, i, l]
      = if h + k + i = 0 then planeNormalUnnorm V h k l else .error .value := by
  simp only [planeCrystalToCartesianUnnorm, if_true]
  by_cases hs : h + k + i = 0
  · rw [if_pos ((sumIsZero_int atol h0 h1 _).mpr hs), if_pos hs]
  · rw [if_neg (fun hc => hs ((sumIsZero_int atol h0 h1 _).mp hc)), if_neg hs]

/-- integer quadruples: 4 → 3 → 4 is lossless whenever the code accepts the quadruple. -/
theorem plane43_int_roundtrip (atol : K) (h0 : 0 ≤ atol) (h1 : atol < 1) (h k i l : ℤ) (p : V3 K)
    (hp : plane4to3 atol ⟨(h : K), (k : K), (i : K), (l : K)⟩ = .ok p) :
    plane3to4 p = ⟨(h : K), (k : K), (i : K), (l : K)⟩ := by
  have hs : h + k + i = 0 := by
    simp only [plane4to3] at hp
    split_ifs at hp with hg
    have : sumIsZero atol (((h + k + i : ℤ)) : K) = true := by push_cast; exact hg
    exact (sumIsZero_int atol h0 h1 _).mp this
  refine (plane34_roundtrip atol h0).2 _ p hp ?_
  have : (((h + k + i : ℤ)) : K) = 0 := by rw [hs]; simp
  push_cast at this; exact this

/-! ### constructor-level identification: `Box.cubic(a)`, `Box.hexagonal(a,c)`, … have the six
    parameters written here; "generic" = the named differences are beyond `isclose`. -/
section ctor
variable (rtol atol : K) (hr : 0 ≤ rtol) (ha : 0 ≤ atol)
include hr ha

theorem identify_cubic (a : K) :
    identifyFamily rtol atol ⟨a, a, a, deg90, deg90, deg90⟩ = some .cubic := by
  apply identify_cubic_of_pred
  simp only [isCubic, isclose_self rtol atol _ hr ha, Bool.and_self]

theorem identify_hexagonal (htol : 2 * atol + 210 * rtol < 30) (a c : K) :
    identifyFamily rtol atol ⟨a, a, c, deg90, deg90, deg120⟩ = some .hexagonal := by
  apply identify_hexagonal_of_pred _ _ _ htol
  simp only [isHexagonal, isclose_self rtol atol _ hr ha, Bool.and_self]

theorem identify_tetragonal (htol : 2 * atol + 210 * rtol < 30) (a c : K)
    (hac : isclose rtol atol a c = false) :
    identifyFamily rtol atol ⟨a, a, c, deg90, deg90, deg90⟩ = some .tetragonal := by
  apply identify_tetragonal_of_pred _ _ _ htol
  simp only [isTetragonal, isclose_self rtol atol _ hr ha, hac, Bool.not_false, Bool.and_self]

theorem identify_rhombohedral (a al : K) (hal : isclose rtol atol al deg90 = false) :
    identifyFamily rtol atol ⟨a, a, a, al, al, al⟩ = some .rhombohedral := by
  apply identify_rhombohedral_of_pred
  simp only [isRhombohedral, isclose_self rtol atol _ hr ha, hal, Bool.not_false, Bool.and_self]

theorem identify_orthorhombic (a b c : K) (hab : isclose rtol atol a b = false)
    (hac : isclose rtol atol a c = false) :
    identifyFamily rtol atol ⟨a, b, c, deg90, deg90, deg90⟩ = some .orthorhombic := by
  apply identify_orthorhombic_of_pred
  simp only [isOrthorhombic, isclose_self rtol atol _ hr ha, hab, hac, Bool.not_false, Bool.and_self]

theorem identify_monoclinic (a b c be : K) (hab : isclose rtol atol a b = false)
    (hac : isclose rtol atol a c = false) (hbe : isclose rtol atol be deg90 = false) :
    identifyFamily rtol atol ⟨a, b, c, deg90, be, deg90⟩ = some .monoclinic := by
  apply identify_monoclinic_of_pred
  simp only [isMonoclinic, isclose_self rtol atol _ hr ha, hab, hac, hbe, Bool.not_false, Bool.and_self]

omit hr ha in
theorem identify_triclinic (a b c al be ga : K) (hab : isclose rtol atol a b = false)
    (hac : isclose rtol atol a c = false) (h1 : isclose rtol atol al be = false)
    (h2 : isclose rtol atol al ga = false)
    (hgen : isclose rtol atol al deg90 = false ∨ isclose rtol atol ga deg90 = false) :
    identifyFamily rtol atol ⟨a, b, c, al, be, ga⟩ = some .triclinic := by
  apply identify_triclinic_of_pred
  · simp only [isTriclinic, hab, hac, h1, h2, Bool.not_false, Bool.and_self]
  · rintro ⟨h3, h4⟩
    rcases hgen with h | h
    · rw [h] at h3; exact Bool.false_ne_true h3
    · rw [h] at h4; exact Bool.false_ne_true h4

end ctor

/-- the seven predicates exclude one another (for tolerances small against 30°, and outside the
    narrow window where `α, γ ≈ 90°` without `α ≈ γ`): the order of the `if/elif` chain is immaterial. -/
theorem identify_iff_pred (rtol atol : K) (htol : 2 * atol + 210 * rtol < 30) (p : CellParams K)
    (hwin : isTriclinic rtol atol p = true →
      ¬(isclose rtol atol p.alpha deg90 = true ∧ isclose rtol atol p.gamma deg90 = true)) :
    (identifyFamily rtol atol p = some .cubic ↔ isCubic rtol atol p = true) ∧
    (identifyFamily rtol atol p = some .hexagonal ↔ isHexagonal rtol atol p = true) ∧
    (identifyFamily rtol atol p = some .tetragonal ↔ isTetragonal rtol atol p = true) ∧
    (identifyFamily rtol atol p = some .rhombohedral ↔ isRhombohedral rtol atol p = true) ∧
    (identifyFamily rtol atol p = some .orthorhombic ↔ isOrthorhombic rtol atol p = true) ∧
    (identifyFamily rtol atol p = some .monoclinic ↔ isMonoclinic rtol atol p = true) ∧
    (identifyFamily rtol atol p = some .triclinic ↔ isTriclinic rtol atol p = true) := by
  have back : ∀ f, identifyFamily rtol atol p = some f →
      (match f with
        | .cubic => isCubic rtol atol p | .hexagonal => isHexagonal rtol atol p
        | .tetragonal => isTetragonal rtol atol p | .rhombohedral => isRhombohedral rtol atol p
        | .orthorhombic => isOrthorhombic rtol atol p | .monoclinic => isMonoclinic rtol atol p
        | .triclinic => isTriclinic rtol atol p) = true := by
    intro f hf
    simp only [identifyFamily] at hf
    split_ifs at hf <;> cases hf <;> assumption
  refine ⟨⟨back .cubic, identify_cubic_of_pred _ _ _⟩, ⟨back .hexagonal, identify_hexagonal_of_pred _ _ _ htol⟩,
    ⟨back .tetragonal, identify_tetragonal_of_pred _ _ _ htol⟩,
    ⟨back .rhombohedral, identify_rhombohedral_of_pred _ _ _⟩,
    ⟨back .orthorhombic, identify_orthorhombic_of_pred _ _ _⟩,
    ⟨back .monoclinic, identify_monoclinic_of_pred _ _ _⟩,
    ⟨back .triclinic, fun h => identify_triclinic_of_pred _ _ _ h (hwin h)⟩⟩

/-! ### cells in arbitrary orientation (`Box(vects = V·R)`): `normal_is_reciprocal` above holds for EVERY `V` with
    `det V ≠ 0`, LAMMPS-oriented or not; spelled out for rigidly rotated cells -/

theorem det_mul (A B : M3 K) : M3.det (M3.mul A B) = M3.det A * M3.det B := by
  simp only [M3.det, M3.mul, M3.vecMul, V3.dot, V3.cross]; ring

/-- a right-handed cell rotated by any proper rotation is right-handed, and the normal the code returns for it is
    the unit vector along the reciprocal-lattice vector of the ROTATED cell. -/
theorem normal_unit_along_reciprocal_rotated (V R : M3 K) (hdet : 0 < M3.det V) (hd : M3.det R = 1) (h k l : ℤ)
    (hne : ¬(h = 0 ∧ k = 0 ∧ l = 0)) :
    0 < M3.det (M3.mul V R) ∧
    ∃ n, planeNormalUnnorm (M3.mul V R) h k l = .ok n ∧
      ∀ nrm : K, 0 < nrm → nrm * nrm = V3.normSq n →
        V3.dot (normalise n nrm) (normalise n nrm) = 1 ∧
        ∃ c : K, 0 < c ∧ normalise n nrm = V3.smul c (recipVector (M3.mul V R) h k l) := by
  have hpos : 0 < M3.det (M3.mul V R) := by rw [det_mul, hd, mul_one]; exact hdet
  exact ⟨hpos, normal_unit_along_reciprocal _ hpos h k l hne⟩

/-- a CUBIC cell in any orientation, `vects = a·R` with `R` a proper rotation: the (unnormalised) normal is a
    positive multiple of `(h,k,l)·R` — the rotated index vector, not the index vector itself. -/
theorem normal_cubic_rotated (a : K) (ha : 0 < a) (R : M3 K) (ho : RowsOrthonormal R) (hd : M3.det R = 1)
    (h k l : ℤ) (hne : ¬(h = 0 ∧ k = 0 ∧ l = 0)) :
    ∃ n c, planeNormalUnnorm (M3.mul ⟨⟨a, 0, 0⟩, ⟨0, a, 0⟩, ⟨0, 0, a⟩⟩ R) h k l = .ok n ∧ 0 < c ∧
      n = V3.smul c (M3.vecMul ⟨(h : K), (k : K), (l : K)⟩ R) := by
  have hdetA : M3.det (K := K) ⟨⟨a, 0, 0⟩, ⟨0, a, 0⟩, ⟨0, 0, a⟩⟩ = a * a * a := by
    simp only [M3.det, V3.dot, V3.cross]; ring
  have hne0 : M3.det (K := K) ⟨⟨a, 0, 0⟩, ⟨0, a, 0⟩, ⟨0, 0, a⟩⟩ ≠ 0 := by rw [hdetA]; positivity
  obtain ⟨n, hn, c, hc, he⟩ := normal_is_reciprocal _ hne0 h k l hne
  refine ⟨M3.vecMul n R, c * a * a, ?_, by positivity, ?_⟩
  · rw [normal_rotation_covariant _ R ho hd, hn]; rfl
  · rw [he, hdetA]
    simp only [recipVector, castV, M3.vecMul, M3.inv, M3.transpose, V3.smul, V3.cross, M3.det, V3.dot, V3.mk.injEq]
    have : a ≠ 0 := ha.ne'
    refine ⟨?_, ?_, ?_⟩ <;> field_simp <;> ring

end ordered

/-! ## counts and thresholds: long arrays in blocks, exact in-plane vectors, unsigned index arrays -/

/-- the two in-plane vectors the routine picks LIE in the plane: each satisfies the zone law `h u + k v + l w = 0`
    exactly — the integer divisions `m / h` lose nothing (an implementation that computes them as `m * (1/h)` in floating
    point and truncates does: `49 * (1/49) < 1`). -/
theorem inplane_zone (h k l : ℤ) (a b : V3 ℤ) (s : ℤ) (hp : planeInPlane h k l = .ok (a, b, s)) :
    h * a.x + k * a.y + l * a.z = 0 ∧ h * b.x + k * b.y + l * b.z = 0 := by
  have hne : ¬(h = 0 ∧ k = 0 ∧ l = 0) := by
    rintro ⟨rfl, rfl, rfl⟩
    simp [planeInPlane] at hp
  obtain ⟨a', b', s', heq, num, den, hn, hd, hvec⟩ := idx_cross_parallel h k l hne
  rw [hp] at heq
  injection heq with heq
  simp only [Prod.mk.injEq] at heq
  obtain ⟨rfl, rfl, rfl⟩ := heq
  simp only [V3.smul, V3.cross, V3.mk.injEq] at hvec
  obtain ⟨hx, hy, hz⟩ := hvec
  have ha : num * (h * a.x + k * a.y + l * a.z) = 0 := by
    linear_combination (-a.x) * hx + (-a.y) * hy + (-a.z) * hz
  have hb : num * (h * b.x + k * b.y + l * b.z) = 0 := by
    linear_combination (-b.x) * hx + (-b.y) * hy + (-b.z) * hz
  have hn' : num ≠ 0 := by omega
  exact ⟨(mul_eq_zero.mp ha).resolve_left hn', (mul_eq_zero.mp hb).resolve_left hn'⟩

/-- non-vacuity, at the indices where `k * (1/k) ≠ 1` in double arithmetic. -/
example : planeInPlane 49 7 14 = .ok (⟨-2, 14, 0⟩, ⟨-2, 0, 7⟩, 1) := by decide
example : planeInPlane 49 1 1 = .ok (⟨-1, 49, 0⟩, ⟨-1, 0, 49⟩, 1) := by decide
example : planeInPlane 98 1 3 = .ok (⟨-3, 294, 0⟩, ⟨-3, 0, 98⟩, 1) := by decide
example : planeInPlane (-103) 0 2 = .ok (⟨-2, 0, -103⟩, ⟨0, 1, 0⟩, -1) := by decide

/-- MANY planes in one call: evaluating an array in two blocks and joining the results is evaluating it whole — the
    result for a row depends neither on how many rows come with it nor on where the array is cut (so on no block size);
    a block that is refused refuses the whole. -/
theorem planeArr_append (rtol atol gatol : Rat) (isHex : Bool) (V : M3 Rat) (xs ys : List (List Rat)) :
    planeArr rtol atol gatol isHex V (xs ++ ys) =
      match planeArr rtol atol gatol isHex V xs, planeArr rtol atol gatol isHex V ys with
      | .ok o1, .ok o2 => .ok (o1 ++ o2)
      | _, _ => .error .value := by
  unfold planeArr
  rw [List.all_append, List.filterMap_append]
  by_cases h1 : (xs.all fun r => (planeRow rtol atol gatol isHex V r).toBool) = true <;>
    by_cases h2 : (ys.all fun r => (planeRow rtol atol gatol isHex V r).toBool) = true <;>
    simp [h1, h2]

section blocks
variable {K : Type} [Zero K] [Add K] [Neg K] [LT K] [DecidableLT K] [LE K] [DecidableLE K]

/-- the sum guard of a long array is the guard of its blocks. -/
theorem guardAll_append (atol : K) (xs ys : List (V4 K)) :
    guardAll atol (xs ++ ys) = (guardAll atol xs && guardAll atol ys) := by
  unfold guardAll
  exact List.all_append

theorem plane4to3Arr_append (atol : K) (xs ys : List (V4 K)) :
    plane4to3Arr atol (xs ++ ys) =
      match plane4to3Arr atol xs, plane4to3Arr atol ys with
      | .ok o1, .ok o2 => .ok (o1 ++ o2)
      | _, _ => .error .value := by
  unfold plane4to3Arr
  rw [guardAll_append, List.map_append]
  cases guardAll atol xs <;> cases guardAll atol ys <;> simp

theorem vector4to3Arr_append [Mul K] [NatCast K] (atol : K) (xs ys : List (V4 K)) :
    vector4to3Arr atol (xs ++ ys) =
      match vector4to3Arr atol xs, vector4to3Arr atol ys with
      | .ok o1, .ok o2 => .ok (o1 ++ o2)
      | _, _ => .error .value := by
  unfold vector4to3Arr
  rw [guardAll_append, List.map_append]
  cases guardAll atol xs <;> cases guardAll atol ys <;> simp

end blocks

/-- indices held in an UNSIGNED array: the four-index form of a plane with `h, k ≥ 0`, `h + k > 0` has a negative third
    index (and sums to zero), so it does not fit the dtype the three-index form came in: `plane3to4` has to leave it. -/
theorem plane3to4_third_negative (h k l : ℤ) (hh : 0 ≤ h) (hk : 0 ≤ k) (hpos : 0 < h + k) :
    (plane3to4 (⟨h, k, l⟩ : V3 ℤ)).c < 0 ∧
      (plane3to4 (⟨h, k, l⟩ : V3 ℤ)).a + (plane3to4 (⟨h, k, l⟩ : V3 ℤ)).b + (plane3to4 (⟨h, k, l⟩ : V3 ℤ)).c = 0 := by
  simp only [plane3to4]
  constructor <;> omega


/-! ## non-vacuity: concrete instances of the hypotheses -/
example : RowsOrthonormal (K := ℚ) ⟨⟨2/3, -1/3, 2/3⟩, ⟨2/3, 2/3, -1/3⟩, ⟨-1/3, 2/3, 2/3⟩⟩
    ∧ M3.det (K := ℚ) ⟨⟨2/3, -1/3, 2/3⟩, ⟨2/3, 2/3, -1/3⟩, ⟨-1/3, 2/3, 2/3⟩⟩ = 1 := by
  refine ⟨⟨?_, ?_, ?_, ?_, ?_, ?_⟩, ?_⟩ <;> norm_num [M3.det, V3.dot, V3.cross]
example : RowsOrthonormal (K := ℚ) ⟨⟨0, 1, 0⟩, ⟨1, 0, 0⟩, ⟨0, 0, 1⟩⟩
    ∧ M3.det (K := ℚ) ⟨⟨0, 1, 0⟩, ⟨1, 0, 0⟩, ⟨0, 0, 1⟩⟩ = -1 := by
  refine ⟨⟨?_, ?_, ?_, ?_, ?_, ?_⟩, ?_⟩ <;> norm_num [M3.det, V3.dot, V3.cross]
example : planeInPlane 2 (-3) 4 = .ok (⟨-6, -4, 0⟩, ⟨-6, 0, 3⟩, -1) := by decide
example : planeInPlane 0 (-3) 4 = .ok (⟨0, 4, 3⟩, ⟨1, 0, 0⟩, -1) := by decide
example : planeNormalUnnorm (K := ℚ) ⟨⟨1, 0, 0⟩, ⟨0, 1, 0⟩, ⟨0, 0, 1⟩⟩ 2 (-3) 4 = .ok ⟨12, -18, 24⟩ := by
  decide +kernel
example : M3.det (K := ℚ) ⟨⟨2, 0, 0⟩, ⟨1, 3, 0⟩, ⟨1, 1, 4⟩⟩ ≠ 0 := by norm_num [M3.det, V3.dot, V3.cross]
example : (0 : ℚ) ≤ 1 / 100000000 ∧ (1 / 100000000 : ℚ) < 1 := by norm_num
example : (2 : ℚ) * (1 / 100000000) + 210 * (1 / 100000) < 30 := by norm_num
example : vector4to3 (1 / 100000000 : ℚ) ⟨2 / 3, -1 / 3, -1 / 3, 0⟩ = .ok ⟨1, 0, 0⟩ := by decide +kernel
example : reduceIndices [4, -6, 8] = .ok [2, -3, 4] := by decide
example : isclose (1 / 100000 : ℚ) (1 / 100000000) 3 5 = false := by decide +kernel
example : isclose (1 / 100000 : ℚ) (1 / 100000000) 100 deg90 = false := by decide +kernel
example : identifyFamily (1 / 100000 : ℚ) (1 / 100000000) ⟨3, 4, 5, 80, 100, 110⟩ = some .triclinic := by
  decide +kernel
example : identifyFamily (1 / 100000 : ℚ) (1 / 100000000) ⟨3, 3, 3, 60, 60, 60⟩ = some .rhombohedral := by
  decide +kernel
example : [1, -2, 0] ∈ allIndices 2 false := by decide


/-! ## round 5: order of the rows, bounds past the small primes, wide intermediates -/

/-- ORDER of the rows (round 5): the FIRST row of an array gets its own result and decides nothing about the others: the
    array is the first row's result followed by the result of the rest; a refused first row (or rest) refuses the whole. -/
theorem planeArr_cons (rtol atol gatol : Rat) (isHex : Bool) (V : M3 Rat) (x : List Rat) (xs : List (List Rat)) :
    planeArr rtol atol gatol isHex V (x :: xs) =
      match planeRow rtol atol gatol isHex V x, planeArr rtol atol gatol isHex V xs with
      | .ok n, .ok o => .ok (n :: o)
      | _, _ => .error .value := by
  have h1 : planeArr rtol atol gatol isHex V [x] =
      match planeRow rtol atol gatol isHex V x with
      | .ok n => .ok [n]
      | .error _ => .error .value := by
    unfold planeArr
    simp only [List.all_cons, List.all_nil, Bool.and_true, List.filterMap_cons, List.filterMap_nil]
    rcases h : planeRow rtol atol gatol isHex V x with e | n <;> simp [Except.toBool]
  rw [show x :: xs = [x] ++ xs from rfl, planeArr_append, h1]
  cases planeRow rtol atol gatol isHex V x <;> cases planeArr rtol atol gatol isHex V xs <;> simp

/-- the same planes handed over in reverse order give the reversed results (and are refused alike). -/
theorem planeArr_reverse (rtol atol gatol : Rat) (isHex : Bool) (V : M3 Rat) (xs : List (List Rat)) :
    planeArr rtol atol gatol isHex V xs.reverse =
      match planeArr rtol atol gatol isHex V xs with
      | .ok o => .ok o.reverse
      | .error e => .error e := by
  unfold planeArr
  rw [List.all_reverse, List.filterMap_reverse]
  by_cases h : (xs.all fun r => (planeRow rtol atol gatol isHex V r).toBool) = true <;> simp [h]

/-- the same planes in ANY order: accepted alike, and the results are the same normals in the permuted order — what comes
    first (a basal plane (0 0 l), a plane with three non-zero indices) has no bearing on the rows that follow. -/
theorem planeArr_perm (rtol atol gatol : Rat) (isHex : Bool) (V : M3 Rat) (xs ys : List (List Rat)) (hp : xs.Perm ys) :
    match planeArr rtol atol gatol isHex V xs, planeArr rtol atol gatol isHex V ys with
    | .ok o1, .ok o2 => o1.Perm o2
    | .error _, .error _ => True
    | _, _ => False := by
  unfold planeArr
  rw [hp.all_eq]
  by_cases h : (ys.all fun r => (planeRow rtol atol gatol isHex V r).toBool) = true
  · simp only [h, if_true]
    exact hp.filterMap _
  · simp [h]

/-- `all_indices(m, reduce=True)` for EVERY bound `m` (37, 41, 43, ... included: no table of primes runs out): each row
    listed is a coprime index set — its gcd is 1, the only common divisors are ±1. -/
theorem allIndices_reduce_coprime (m : ℤ) (t : List ℤ) (ht : t ∈ allIndices m true) :
    gcdList t = 1 ∧ ∀ d : ℤ, (∀ x ∈ t, d ∣ x) → d = 1 ∨ d = -1 := by
  obtain ⟨t', ht', hr⟩ := (allIndices_reduce_complete m t).mp ht
  obtain ⟨u, v, w, rfl⟩ := allIndices_sound m t' ht'
  have hnz := ((allIndices_complete m u v w).mp ht').2.2.2
  have hex : ∃ x ∈ [u, v, w], x ≠ 0 := by
    by_contra hcon
    have hall : ∀ x ∈ [u, v, w], x = 0 := fun x hx => by
      by_contra hne
      exact hcon ⟨x, hx, hne⟩
    exact hnz ⟨hall u (by simp), hall v (by simp), hall w (by simp)⟩
  obtain ⟨r, hr', hg, hd⟩ := reduce_coprime [u, v, w] (by simp) hex
  rw [hr] at hr'
  injection hr' with hr'
  subst hr'
  exact ⟨hg, hd⟩

/-- non-vacuity / the rows a fixed prime table lets through. -/
example : [37, 0, 0] ∉ allIndices 37 true := by
  intro h
  have := (allIndices_reduce_coprime 37 _ h).1
  revert this
  decide

/-- index sets an `int32` array holds whose product / in-plane quotients it does not hold: the model works in ℤ. -/
example : planeInPlane 2048 2048 1024 = .ok (⟨-1, 1, 0⟩, ⟨-1, 0, 2⟩, 1) := by decide
example : planeInPlane 65537 65539 65543 = .ok (⟨-(65539 * 65543), 65537 * 65543, 0⟩, ⟨-(65539 * 65543), 0, 65537 * 65539⟩, 1) := by decide
example : (2 : ℤ) ^ 31 ≤ 65539 * 65543 ∧ (2048 * 2048 * 1024 : ℤ) = 2 ^ 32 := by decide

/-! ## end to end over the GENERATED definitions (`Atomman/Generated/MillerSource.lean`: regenerated from miller.py /
    Box.py / crystalsystem.py on every run and proved equal to the model in `Proofs/C16_Source.lean`) -/
section endtoend
variable {K : Type} [Field K] [LinearOrder K] [IsStrictOrderedRing K]

/-- the un-normalised normal is never the zero vector (so the final division is by a positive number). -/
theorem normal_nonzero (V : M3 K) (hdet : M3.det V ≠ 0) (h k l : ℤ) (hne : ¬(h = 0 ∧ k = 0 ∧ l = 0)) :
    ∃ n, planeNormalUnnorm V h k l = .ok n ∧ 0 < V3.normSq n := by
  obtain ⟨n, hn1, c, hc, he⟩ := normal_is_reciprocal V hdet h k l hne
  refine ⟨n, hn1, ?_⟩
  by_contra hpos
  have hnn : 0 ≤ V3.normSq n := by
    simp only [V3.normSq, V3.dot]; nlinarith [mul_self_nonneg n.x, mul_self_nonneg n.y, mul_self_nonneg n.z]
  have h0 : n.x * n.x + n.y * n.y + n.z * n.z = 0 := by
    have := le_antisymm (not_lt.mp hpos) hnn
    simpa only [V3.normSq, V3.dot] using this
  have hx : n.x = 0 := by nlinarith [mul_self_nonneg n.x, mul_self_nonneg n.y, mul_self_nonneg n.z]
  have hy : n.y = 0 := by nlinarith [mul_self_nonneg n.x, mul_self_nonneg n.y, mul_self_nonneg n.z]
  have hz : n.z = 0 := by nlinarith [mul_self_nonneg n.x, mul_self_nonneg n.y, mul_self_nonneg n.z]
  have key : ∀ p : V3 K, (h : K) * p.x + k * p.y + l * p.z = 0 := by
    intro p
    obtain ⟨n', hn', hiff⟩ := normal_perp_iff_zone V hdet h k l hne 1 one_pos p
    rw [hn1] at hn'
    have hnn' : n = n' := by injection hn'
    subst hnn'
    apply hiff.mp
    simp only [normalise, V3.dot, hx, hy, hz]
    simp
  have e1 := key ⟨1, 0, 0⟩
  have e2 := key ⟨0, 1, 0⟩
  have e3 := key ⟨0, 0, 1⟩
  simp only [mul_one, mul_zero, add_zero, zero_add] at e1 e2 e3
  exact hne ⟨by exact_mod_cast e1, by exact_mod_cast e2, by exact_mod_cast e3⟩

/-- what `np.linalg.norm` is assumed to give for the vector `v`: the non-negative root of the sum of squares (asked only of
    the vectors the code divides by, so the hypothesis is satisfiable in ℚ whenever that root is rational). -/
def IsNormAt (norm : V3 K → K) (v : V3 K) : Prop := 0 ≤ norm v ∧ norm v * norm v = V3.normSq v

theorem IsNormAt.pos {norm : V3 K → K} {v : V3 K} (hn : IsNormAt norm v) (hv : 0 < V3.normSq v) : 0 < norm v := by
  obtain ⟨h0, hsq⟩ := hn
  rcases h0.lt_or_eq with hlt | heq
  · exact hlt
  · rw [← heq] at hsq; simp at hsq; rw [← hsq] at hv; exact absurd hv (lt_irrefl _)

/-- END TO END, zone law, over the generated code: for every cell with `det V ≠ 0`, every plane `(hkl) ≠ 0` and every `[uvw]`
    (any field elements), the vector RETURNED by `plane_cryst_2_cart` (generated branch tree, generated cross product,
    generated final division by `np.linalg.norm`) is perpendicular to the vector RETURNED by `vector_crystal_to_cartesian`
    (generated `indices.dot(box.vects)`) exactly when `hu + kv + lw = 0`. -/
theorem gen_normal_perp_iff_zone (V : M3 K) (hdet : M3.det V ≠ 0) (h k l : ℤ) (hne : ¬(h = 0 ∧ k = 0 ∧ l = 0))
    (norm : V3 K → K) (p : V3 K) :
    ∃ n, Src.planeNormalUnnorm V h k l = .ok n ∧ (IsNormAt norm n →
      (V3.dot (Src.planeResult norm n) (Src.vectorResult p V) = 0 ↔ (h : K) * p.x + k * p.y + l * p.z = 0)) := by
  obtain ⟨n, hn1, hpos⟩ := normal_nonzero V hdet h k l hne
  refine ⟨n, by rw [gen_planeNormalUnnorm_eq_model]; exact hn1, fun hnorm => ?_⟩
  obtain ⟨n', hn', hiff⟩ := normal_perp_iff_zone V hdet h k l hne (norm n) (hnorm.pos hpos) p
  rw [hn1] at hn'
  have hnn' : n = n' := by injection hn'
  subst hnn'
  rw [gen_planeResult_eq_model]; exact hiff

/-- END TO END, unit reciprocal direction, over the generated code: for a right-handed cell the returned vector has length 1
    and is a POSITIVE multiple of `h a* + k b* + l c*`. -/
theorem gen_normal_unit_along_reciprocal (V : M3 K) (hdet : 0 < M3.det V) (h k l : ℤ) (hne : ¬(h = 0 ∧ k = 0 ∧ l = 0))
    (norm : V3 K → K) :
    ∃ n, Src.planeNormalUnnorm V h k l = .ok n ∧ (IsNormAt norm n →
      V3.dot (Src.planeResult norm n) (Src.planeResult norm n) = 1 ∧
      ∃ c : K, 0 < c ∧ Src.planeResult norm n = V3.smul c (recipVector V h k l)) := by
  obtain ⟨n, hn1, hpos⟩ := normal_nonzero V hdet.ne' h k l hne
  obtain ⟨n', hn', hall⟩ := normal_unit_along_reciprocal V hdet h k l hne
  rw [hn1] at hn'
  have hnn' : n = n' := by injection hn'
  subst hnn'
  refine ⟨n, by rw [gen_planeNormalUnnorm_eq_model]; exact hn1, fun hnorm => ?_⟩
  have := hall (norm n) (hnorm.pos hpos) hnorm.2
  rw [gen_planeResult_eq_model]; exact this

/-- all lengths of the cell multiplied by `t`. -/
def scaleM (t : K) (V : M3 K) : M3 K := ⟨V3.smul t V.r0, V3.smul t V.r1, V3.smul t V.r2⟩

/-- the un-normalised normal of the cell scaled by `t` is `t²` times that of the cell, in every branch. -/
theorem normal_scale (t : K) (V : M3 K) (h k l : ℤ) :
    planeNormalUnnorm (scaleM t V) h k l = (planeNormalUnnorm V h k l).map (V3.smul (t * t)) := by
  simp only [planeNormalUnnorm]
  rcases planeInPlane h k l with e | ⟨a, b, s⟩
  · rfl
  · simp only [Except.map, normalOf, M3.vecMul, V3.cross, V3.smul, scaleM, castV, Except.ok.injEq, V3.mk.injEq]
    refine ⟨?_, ?_, ?_⟩ <;> ring

theorem IsNormAt.smul {norm : V3 K → K} (c : K) (hc : 0 ≤ c) {v : V3 K} (hv : IsNormAt norm v)
    (hcv : IsNormAt norm (V3.smul c v)) : norm (V3.smul c v) = c * norm v := by
  obtain ⟨h0, hsq⟩ := hcv
  obtain ⟨h1, hsq1⟩ := hv
  have e : norm (V3.smul c v) * norm (V3.smul c v) = (c * norm v) * (c * norm v) := by
    rw [hsq, mul_mul_mul_comm, hsq1]; simp only [V3.normSq, V3.dot, V3.smul]; ring
  rcases mul_self_eq_mul_self_iff.mp e with h | h
  · exact h
  · have hcn : 0 ≤ c * norm v := mul_nonneg hc h1
    have : norm (V3.smul c v) = 0 := le_antisymm (by rw [h]; linarith) h0
    have : c * norm v = 0 := by rw [this] at h; linarith
    linarith

/-- SCALE INVARIANCE, end to end over the generated code: the vector returned for `(hkl)` does not depend on the unit the
    lengths of the cell are written in: for every `t > 0`, every cell and index triple, the scaled cell is refused exactly when
    the cell is, and otherwise its un-normalised normal is `t²` times the cell's and the returned vectors are EQUAL. -/
theorem gen_normal_scale_invariant (t : K) (ht : 0 < t) (V : M3 K) (h k l : ℤ) (norm : V3 K → K) :
    Src.planeNormalUnnorm (scaleM t V) h k l = (Src.planeNormalUnnorm V h k l).map (V3.smul (t * t)) ∧
    ∀ n, Src.planeNormalUnnorm V h k l = .ok n → IsNormAt norm n → IsNormAt norm (V3.smul (t * t) n) →
      Src.planeResult norm (V3.smul (t * t) n) = Src.planeResult norm n := by
  refine ⟨by rw [gen_planeNormalUnnorm_eq_model, gen_planeNormalUnnorm_eq_model, normal_scale], ?_⟩
  intro n _ hn hsn
  have htt : t * t ≠ 0 := (mul_pos ht ht).ne'
  simp only [gen_planeResult_eq_model]
  rw [IsNormAt.smul (t * t) (mul_pos ht ht).le hn hsn]
  simp only [normalise, V3.smul, V3.mk.injEq]
  exact ⟨mul_div_mul_left _ _ htt, mul_div_mul_left _ _ htt, mul_div_mul_left _ _ htt⟩

/-- Cartesian vectors scale along: `[uvw]` in the cell scaled by `t` is `t` times `[uvw]` in the cell. -/
theorem gen_vector_scale (t : K) (V : M3 K) (p : V3 K) :
    Src.vectorResult p (scaleM t V) = V3.smul t (Src.vectorResult p V) := by
  simp only [Src.vectorResult, M3.vecMul, V3.smul, scaleM, V3.mk.injEq]
  refine ⟨?_, ?_, ?_⟩ <;> ring

/-- the 3 ↔ 4 round trips over the generated column formulas and guards. -/
theorem gen_plane34_roundtrip (atol : K) (hat : 0 ≤ atol) :
    (∀ p : V3 K, Src.plane4to3 atol (Src.plane3to4 p) = .ok p) ∧
    (∀ (q : V4 K) (p : V3 K), Src.plane4to3 atol q = .ok p → q.a + q.b + q.c = 0 → Src.plane3to4 p = q) :=
  plane34_roundtrip atol hat

theorem gen_vector34_roundtrip (atol : K) (hat : 0 ≤ atol) :
    (∀ p : V3 K, Src.vector4to3 atol (Src.vector3to4 p) = .ok p) ∧
    (∀ (q : V4 K) (p : V3 K), Src.vector4to3 atol q = .ok p → q.a + q.b + q.c = 0 → Src.vector3to4 p = q) :=
  vector34_roundtrip atol hat

/-- the Box methods and the stand-alone functions of crystalsystem.py are the same functions of `(a, b, c, α, β, γ)` and
    the tolerances: all seven predicates and `identifyfamily`. -/
theorem gen_box_cs_agree (rtol atol : K) (p : CellParams K) :
    Src.box_identifyFamily rtol atol p = Src.cs_identifyFamily rtol atol p ∧
    Src.box_isCubic rtol atol p = Src.cs_isCubic rtol atol p ∧ Src.box_isHexagonal rtol atol p = Src.cs_isHexagonal rtol atol p ∧
    Src.box_isTetragonal rtol atol p = Src.cs_isTetragonal rtol atol p ∧
    Src.box_isRhombohedral rtol atol p = Src.cs_isRhombohedral rtol atol p ∧
    Src.box_isOrthorhombic rtol atol p = Src.cs_isOrthorhombic rtol atol p ∧
    Src.box_isMonoclinic rtol atol p = Src.cs_isMonoclinic rtol atol p ∧ Src.box_isTriclinic rtol atol p = Src.cs_isTriclinic rtol atol p :=
  ⟨rfl, rfl, rfl, rfl, rfl, rfl, rfl, rfl⟩

/-- over the generated predicates and chain of BOTH implementations: `identifyfamily` answers `f` exactly when `f`'s own
    predicate holds (the chain's order is immaterial), for tolerances small against 30 degrees and outside the narrow window
    of `identify_iff_pred`. -/
theorem gen_identify_iff_pred (rtol atol : K) (htol : 2 * atol + 210 * rtol < 30) (p : CellParams K)
    (hwin : Src.box_isTriclinic rtol atol p = true →
      ¬(isclose rtol atol p.alpha deg90 = true ∧ isclose rtol atol p.gamma deg90 = true)) :
    (Src.box_identifyFamily rtol atol p = some .cubic ↔ Src.cs_isCubic rtol atol p = true) ∧
    (Src.cs_identifyFamily rtol atol p = some .hexagonal ↔ Src.box_isHexagonal rtol atol p = true) ∧
    (Src.box_identifyFamily rtol atol p = some .tetragonal ↔ Src.cs_isTetragonal rtol atol p = true) ∧
    (Src.cs_identifyFamily rtol atol p = some .rhombohedral ↔ Src.box_isRhombohedral rtol atol p = true) ∧
    (Src.box_identifyFamily rtol atol p = some .orthorhombic ↔ Src.cs_isOrthorhombic rtol atol p = true) ∧
    (Src.cs_identifyFamily rtol atol p = some .monoclinic ↔ Src.box_isMonoclinic rtol atol p = true) ∧
    (Src.box_identifyFamily rtol atol p = some .triclinic ↔ Src.cs_isTriclinic rtol atol p = true) :=
  identify_iff_pred rtol atol htol p hwin

end endtoend

/-! non-vacuity on concrete states: a cell that is not orthogonal, a plane with three non-zero indices; a plane whose normal has
    a rational length (so that the norm hypothesis is met in ℚ); the same cell written in a unit 1000 times larger -/
example : Src.planeNormalUnnorm (K := ℚ) ⟨⟨2, 0, 0⟩, ⟨1, 3, 0⟩, ⟨1, 1, 4⟩⟩ 2 (-3) 4 = .ok ⟨144, -192, 156⟩ := by decide +kernel
example : Src.planeNormalUnnorm (K := ℚ) ⟨⟨1, 0, 0⟩, ⟨0, 1, 0⟩, ⟨0, 0, 1⟩⟩ 3 4 0 = .ok ⟨3, 4, 0⟩ := by decide +kernel
example : IsNormAt (K := ℚ) (fun v => if v = ⟨3, 4, 0⟩ then 5 else 0) ⟨3, 4, 0⟩ := by
  unfold IsNormAt; simp [V3.normSq, V3.dot]; norm_num
example : V3.dot (Src.planeResult (K := ℚ) (fun v => if v = ⟨3, 4, 0⟩ then 5 else 0) ⟨3, 4, 0⟩)
    (Src.vectorResult ⟨4, -3, 7⟩ ⟨⟨1, 0, 0⟩, ⟨0, 1, 0⟩, ⟨0, 0, 1⟩⟩) = 0 := by decide +kernel
example : Src.planeNormalUnnorm (K := ℚ) (scaleM (1 / 1000) ⟨⟨2, 0, 0⟩, ⟨1, 3, 0⟩, ⟨1, 1, 4⟩⟩) 2 (-3) 4
    = .ok (V3.smul ((1 / 1000) * (1 / 1000)) ⟨144, -192, 156⟩) := by decide +kernel
example : (2 : ℚ) * (1 / 100000000) + 210 * (1 / 100000) < 30 := by norm_num

/-! ## `np.unique(axis=0)` as modelled: strictly increasing lexicographic order (sorted, nothing twice) -/

theorem lexLt_irrefl : ∀ a : List ℤ, lexLt a a = false
  | [] => rfl
  | x :: xs => by simp [lexLt, lexLt_irrefl xs]

theorem lexLt_cons (x y : ℤ) (xs ys : List ℤ) :
    lexLt (x :: xs) (y :: ys) = true ↔ x < y ∨ (x = y ∧ lexLt xs ys = true) := by
  simp only [lexLt]
  split_ifs with h1 h2
  · simp [h1]
  · constructor
    · intro h; cases h
    · rintro (h | ⟨h, _⟩) <;> omega
  · have : x = y := by omega
    simp [this]

theorem lexLt_trans : ∀ a b c : List ℤ, lexLt a b = true → lexLt b c = true → lexLt a c = true
  | [], [], _, h, _ => by simp [lexLt] at h
  | [], _ :: _, [], _, h => by simp [lexLt] at h
  | [], _ :: _, _ :: _, _, _ => by simp [lexLt]
  | _ :: _, [], _, h, _ => by simp [lexLt] at h
  | _ :: _, _ :: _, [], _, h => by simp [lexLt] at h
  | x :: xs, y :: ys, z :: zs, h1, h2 => by
    rw [lexLt_cons] at h1 h2 ⊢
    rcases h1 with h1 | ⟨e1, h1⟩ <;> rcases h2 with h2 | ⟨e2, h2⟩
    · left; omega
    · left; omega
    · left; omega
    · right; exact ⟨by omega, lexLt_trans xs ys zs h1 h2⟩

theorem lexLt_total : ∀ a b : List ℤ, lexLt a b = false → a ≠ b → lexLt b a = true
  | [], [], _, h => absurd rfl h
  | [], _ :: _, h, _ => by simp [lexLt] at h
  | _ :: _, [], _, _ => by simp [lexLt]
  | x :: xs, y :: ys, h, hne => by
    rw [lexLt_cons]
    have h' : ¬ (x < y ∨ (x = y ∧ lexLt xs ys = true)) := by rw [← lexLt_cons]; simp [h]
    simp only [not_or, not_and] at h'
    by_cases hxy : x = y
    · right
      refine ⟨hxy.symm, lexLt_total xs ys ?_ ?_⟩
      · have := h'.2 hxy; simpa using this
      · intro e; exact hne (by rw [hxy, e])
    · left; have := h'.1; omega

/-- every element of `insertUniq x l` is `x` or an element of `l` (restated for the order proofs). -/
theorem insertUniq_sorted (x : List ℤ) : ∀ l : List (List ℤ), l.Pairwise (fun a b => lexLt a b = true) →
    (insertUniq x l).Pairwise (fun a b => lexLt a b = true)
  | [], _ => by simp [insertUniq]
  | y :: ys, h => by
    rw [List.pairwise_cons] at h
    simp only [insertUniq]
    split_ifs with h1 h2
    · rw [List.pairwise_cons]
      refine ⟨?_, List.pairwise_cons.mpr h⟩
      intro a ha
      rcases List.mem_cons.mp ha with rfl | ha
      · exact h1
      · exact lexLt_trans _ _ _ h1 (h.1 a ha)
    · exact List.pairwise_cons.mpr h
    · rw [List.pairwise_cons]
      refine ⟨?_, insertUniq_sorted x ys h.2⟩
      intro a ha
      rcases (mem_insertUniq x a ys).mp ha with rfl | ha
      · exact lexLt_total _ _ (by simpa using h1) h2
      · exact h.1 a ha

/-- `np.unique(axis=0)` as modelled returns its rows in STRICTLY increasing lexicographic order: sorted, and nothing twice. -/
theorem sortUniq_sorted (l : List (List ℤ)) : (sortUniq l).Pairwise (fun a b => lexLt a b = true) := by
  unfold sortUniq
  suffices h : ∀ (l acc : List (List ℤ)), acc.Pairwise (fun a b => lexLt a b = true) →
      (l.foldl (fun acc x => insertUniq x acc) acc).Pairwise (fun a b => lexLt a b = true) from h l [] List.Pairwise.nil
  intro l
  induction l with
  | nil => intro acc h; exact h
  | cons x xs ih => intro acc h; exact ih _ (insertUniq_sorted x acc h)

theorem sortUniq_nodup (l : List (List ℤ)) : (sortUniq l).Nodup := by
  have := sortUniq_sorted l
  refine this.imp ?_
  intro a b hab e
  rw [e, lexLt_irrefl] at hab
  cases hab

/-- `all_indices(m, reduce=True)`: the rows come in strictly increasing lexicographic order, each direction once. -/
theorem allIndices_reduce_sorted (m : ℤ) :
    (allIndices m true).Pairwise (fun a b => lexLt a b = true) ∧ (allIndices m true).Nodup := by
  simp only [allIndices, if_true]
  exact ⟨sortUniq_sorted _, sortUniq_nodup _⟩

example : allIndices 1 true = [[-1, -1, -1], [-1, -1, 0], [-1, -1, 1], [-1, 0, -1], [-1, 0, 0], [-1, 0, 1], [-1, 1, -1], [-1, 1, 0],
    [-1, 1, 1], [0, -1, -1], [0, -1, 0], [0, -1, 1], [0, 0, -1], [0, 0, 1], [0, 1, -1], [0, 1, 0], [0, 1, 1], [1, -1, -1], [1, -1, 0],
    [1, -1, 1], [1, 0, -1], [1, 0, 0], [1, 0, 1], [1, 1, -1], [1, 1, 0], [1, 1, 1]] := by decide


/-! ## the family clause and the length unit -/
section famscale
variable {K : Type} [Field K] [LinearOrder K] [IsStrictOrderedRing K]

/-- with NO absolute part the closeness test of two lengths does not see the unit they are written in. -/
theorem isclose_scale_atol0 (rtol t x y : K) (ht : 0 < t) :
    isclose rtol 0 (t * x) (t * y) = isclose rtol 0 x y := by
  have e : ∀ a b : K, (isclose rtol 0 a b = true ↔ |a - b| ≤ 0 + rtol * |b|) := fun a b => isclose_iff rtol 0 a b
  have h1 : |t * x - t * y| = t * |x - y| := by rw [← mul_sub, abs_mul, abs_of_pos ht]
  have h2 : |t * y| = t * |y| := by rw [abs_mul, abs_of_pos ht]
  have : (isclose rtol 0 (t * x) (t * y) = true) ↔ (isclose rtol 0 x y = true) := by
    rw [e, e, h1, h2, zero_add, zero_add]
    constructor
    · intro h; have : t * |x - y| ≤ t * (rtol * |y|) := by linarith [h, mul_left_comm rtol t |y|]
      exact le_of_mul_le_mul_left this ht
    · intro h; have := mul_le_mul_of_nonneg_left h ht.le; linarith [this, mul_left_comm rtol t |y|]
  cases h : isclose rtol 0 x y
  · cases h' : isclose rtol 0 (t * x) (t * y)
    · rfl
    · rw [this.mp h'] at h; cases h
  · exact this.mpr h

/-- SCALES, family clause: asked with `atol = 0` (any `rtol`), `identifyfamily` and all seven predicates of the cell written in
    another length unit (`a, b, c` times `t > 0`, angles as they are) answer as for the cell.  With the default `atol = 1e-8` this
    fails for small-number units (candidate `family:absolute-atol-small-units`): see the examples below. -/
theorem identify_scale_atol0 (rtol t : K) (ht : 0 < t) (p : CellParams K) :
    identifyFamily rtol 0 ⟨t * p.a, t * p.b, t * p.c, p.alpha, p.beta, p.gamma⟩ = identifyFamily rtol 0 p := by
  have hs : ∀ x y : K, isclose rtol 0 (t * x) (t * y) = isclose rtol 0 x y := fun x y => isclose_scale_atol0 rtol t x y ht
  unfold identifyFamily isCubic isHexagonal isTetragonal isRhombohedral isOrthorhombic isMonoclinic isTriclinic
  rw [hs p.a p.b, hs p.a p.c]

/-- the candidate, exactly: an orthorhombic cell 3 x 4 x 5 is orthorhombic at the default tolerances, the same cell written in
    metres (lengths times 1e-10) is called cubic; with `atol = 0` it is orthorhombic in both units. -/
example : identifyFamily (1 / 100000 : ℚ) (1 / 100000000) ⟨3, 4, 5, 90, 90, 90⟩ = some .orthorhombic := by decide +kernel
example : identifyFamily (1 / 100000 : ℚ) (1 / 100000000) ⟨3 / 10000000000, 4 / 10000000000, 5 / 10000000000, 90, 90, 90⟩
    = some .cubic := by decide +kernel
example : identifyFamily (1 / 100000 : ℚ) 0 ⟨3 / 10000000000, 4 / 10000000000, 5 / 10000000000, 90, 90, 90⟩
    = some .orthorhombic := by decide +kernel
end famscale

/-! # statement audit -/
section audit

/-- the hand-written list `settings` that `centering_inverse` / `centering_det` quantify over is the WHOLE key set of the
    regenerated tables: every other string is refused by both lookups (a ninth centering added to miller.py breaks this). -/
theorem centering_settings_exhaustive {K : Type} [NatCast K] [Div K] [Neg K] (s : String) (hs : s ∉ settings) :
    (primToConv? s : Option (M3 K)) = none ∧ (convToPrim? s : Option (M3 K)) = none := by
  simp only [settings, List.mem_cons, List.not_mem_nil, or_false, not_or] at hs
  obtain ⟨h1, h2, h3, h4, h5, h6, h7, h8⟩ := hs
  constructor <;> simp [primToConv?, convToPrim?, h1, h2, h3, h4, h5, h6, h7, h8]

variable {K : Type} [Field K] [LinearOrder K] [IsStrictOrderedRing K]

/-- **identification, exactly, without the window hypothesis**: the first six families are identified iff their predicate
    holds; `triclinic` iff its predicate holds and not both `α ≈ 90°` and `γ ≈ 90°` (inside that window the orthorhombic
    or the monoclinic branch comes first). `identify_iff_pred` is the special case outside the window. -/
theorem identify_iff_pred_exact (rtol atol : K) (htol : 2 * atol + 210 * rtol < 30) (p : CellParams K) :
    (identifyFamily rtol atol p = some .cubic ↔ isCubic rtol atol p = true) ∧
    (identifyFamily rtol atol p = some .hexagonal ↔ isHexagonal rtol atol p = true) ∧
    (identifyFamily rtol atol p = some .tetragonal ↔ isTetragonal rtol atol p = true) ∧
    (identifyFamily rtol atol p = some .rhombohedral ↔ isRhombohedral rtol atol p = true) ∧
    (identifyFamily rtol atol p = some .orthorhombic ↔ isOrthorhombic rtol atol p = true) ∧
    (identifyFamily rtol atol p = some .monoclinic ↔ isMonoclinic rtol atol p = true) ∧
    (identifyFamily rtol atol p = some .triclinic ↔ (isTriclinic rtol atol p = true ∧
      ¬(isclose rtol atol p.alpha deg90 = true ∧ isclose rtol atol p.gamma deg90 = true))) := by
  have back : ∀ f, identifyFamily rtol atol p = some f →
      (match f with
        | .cubic => isCubic rtol atol p | .hexagonal => isHexagonal rtol atol p
        | .tetragonal => isTetragonal rtol atol p | .rhombohedral => isRhombohedral rtol atol p
        | .orthorhombic => isOrthorhombic rtol atol p | .monoclinic => isMonoclinic rtol atol p
        | .triclinic => isTriclinic rtol atol p) = true := by
    intro f hf
    simp only [identifyFamily] at hf
    split_ifs at hf <;> cases hf <;> assumption
  refine ⟨⟨back .cubic, identify_cubic_of_pred _ _ _⟩, ⟨back .hexagonal, identify_hexagonal_of_pred _ _ _ htol⟩,
    ⟨back .tetragonal, identify_tetragonal_of_pred _ _ _ htol⟩,
    ⟨back .rhombohedral, identify_rhombohedral_of_pred _ _ _⟩,
    ⟨back .orthorhombic, identify_orthorhombic_of_pred _ _ _⟩,
    ⟨back .monoclinic, identify_monoclinic_of_pred _ _ _⟩,
    ⟨fun h => ⟨back .triclinic h, ?_⟩, fun h => identify_triclinic_of_pred _ _ _ h.1 h.2⟩⟩
  rintro ⟨h90a, h90g⟩
  have ht := back .triclinic h
  simp only [isTriclinic, Bool.and_eq_true, Bool.not_eq_true'] at ht
  obtain ⟨⟨⟨hab, hac⟩, _⟩, _⟩ := ht
  by_cases hb : isclose rtol atol p.beta deg90 = true
  · have ho : isOrthorhombic rtol atol p = true := by simp [isOrthorhombic, hab, hac, h90a, hb, h90g]
    rw [identify_orthorhombic_of_pred _ _ _ ho] at h; cases h
  · have hb' : isclose rtol atol p.beta deg90 = false := by simpa using hb
    have hm : isMonoclinic rtol atol p = true := by simp [isMonoclinic, hab, hac, h90a, hb', h90g]
    rw [identify_monoclinic_of_pred _ _ _ hm] at h; cases h

end audit

/-! ## direct instantiations (every hypothesis discharged; K = ℚ) -/
section auditex
def exV : M3 ℚ := ⟨⟨2, 0, 0⟩, ⟨1, 3, 0⟩, ⟨1, 1, 4⟩⟩
def exI : M3 ℚ := ⟨⟨1, 0, 0⟩, ⟨0, 1, 0⟩, ⟨0, 0, 1⟩⟩
def exNorm : V3 ℚ → ℚ := fun v => if v = ⟨3, 4, 0⟩ then 5 else if v = ⟨12, 16, 0⟩ then 20 else 0
theorem exV_det : M3.det exV = 24 := by norm_num [exV, M3.det, V3.dot, V3.cross]
theorem exI_det : M3.det exI = 1 := by norm_num [exI, M3.det, V3.dot, V3.cross]
theorem exNorm_at : IsNormAt exNorm ⟨3, 4, 0⟩ := by
  unfold IsNormAt exNorm; simp [V3.normSq, V3.dot]; norm_num
theorem exNorm_at4 : IsNormAt exNorm (V3.smul (2 * 2) ⟨3, 4, 0⟩) := by
  unfold IsNormAt exNorm; simp [V3.normSq, V3.dot, V3.smul]; norm_num

example := normal_nonzero exV (by rw [exV_det]; norm_num) 2 (-3) 4 (by decide)
example := IsNormAt.pos exNorm_at (by norm_num [V3.normSq, V3.dot])
example : exNorm (V3.smul (2 * 2) ⟨3, 4, 0⟩) = (2 * 2) * exNorm ⟨3, 4, 0⟩ :=
  IsNormAt.smul (2 * 2) (by norm_num) exNorm_at exNorm_at4
-- the plane (3 4 0) of the unit cube: the normal is perpendicular to [4 -3 7] (zone law) and to nothing off the zone
example := gen_normal_perp_iff_zone exI (by rw [exI_det]; norm_num) 3 4 0 (by decide) exNorm ⟨4, -3, 7⟩
example := gen_normal_unit_along_reciprocal exI (by rw [exI_det]; norm_num) 3 4 0 (by decide) exNorm
example := (gen_normal_scale_invariant (2 : ℚ) (by norm_num) exI 3 4 0 exNorm).2 ⟨3, 4, 0⟩ (by decide +kernel) exNorm_at exNorm_at4
example := normal_is_reciprocal exV (by rw [exV_det]; norm_num) 2 (-3) 4 (by decide)
example := normal_perp_iff_zone exV (by rw [exV_det]; norm_num) 2 (-3) 4 (by decide) (7 / 2) (by norm_num) ⟨3, 2, 0⟩
example := normal_unit_along_reciprocal exV (by rw [exV_det]; norm_num) 2 (-3) 4 (by decide)
example := normal_left_handed (⟨⟨1, 3, 0⟩, ⟨2, 0, 0⟩, ⟨1, 1, 4⟩⟩ : M3 ℚ) (by norm_num [M3.det, V3.dot, V3.cross]) 2 (-3) 4 (by decide)
example := gen_plane34_roundtrip (1 / 100000000 : ℚ) (by norm_num)
example := (gen_plane34_roundtrip (1 / 100000000 : ℚ) (by norm_num)).2 ⟨2, -3, 1, 4⟩ ⟨2, -3, 4⟩ (by decide +kernel) (by norm_num)
example := (gen_vector34_roundtrip (1 / 100000000 : ℚ) (by norm_num)).2 ⟨2 / 3, -1 / 3, -1 / 3, 0⟩ ⟨1, 0, 0⟩ (by decide +kernel) (by norm_num)
example := vector4_same_direction (1 / 100000000 : ℚ) exV ⟨2 / 3, -1 / 3, -1 / 3, 0⟩ ⟨1, 0, 0⟩ (by decide +kernel) (by norm_num)
example := plane43_int_roundtrip (1 / 100000000 : ℚ) (by norm_num) (by norm_num) 2 (-3) 1 4 ⟨2, -3, 4⟩ (by decide +kernel)
example := sumIsZero_int (1 / 100000000 : ℚ) (by norm_num) (by norm_num) 3
-- family identification: a triclinic cell outside the window, all tolerances the defaults
theorem exTri : isTriclinic (1 / 100000 : ℚ) (1 / 100000000) ⟨3, 4, 5, 80, 100, 110⟩ = true := by decide +kernel
example := identify_iff_pred (1 / 100000 : ℚ) (1 / 100000000) (by norm_num) ⟨3, 4, 5, 80, 100, 110⟩
  (fun _ h => by have : isclose (1 / 100000 : ℚ) (1 / 100000000) 80 deg90 = false := by decide +kernel
                 rw [this] at h; exact Bool.false_ne_true h.1)
example := gen_identify_iff_pred (1 / 100000 : ℚ) (1 / 100000000) (by norm_num) ⟨3, 4, 5, 80, 100, 110⟩
  (fun _ h => by have : isclose (1 / 100000 : ℚ) (1 / 100000000) 80 deg90 = false := by decide +kernel
                 rw [this] at h; exact Bool.false_ne_true h.1)
-- inside the window (α, γ ≈ 90° but α ≉ γ, α ≉ β): the triclinic predicate holds but the monoclinic branch answers —
-- the hypothesis `hwin` of `identify_iff_pred` is needed, and `identify_iff_pred_exact` says what happens without it
example : isTriclinic (1 / 100000 : ℚ) (1 / 100000000) ⟨3, 4, 5, 90 - 8 / 10000, 100, 90 + 8 / 10000⟩ = true
    ∧ identifyFamily (1 / 100000 : ℚ) (1 / 100000000) ⟨3, 4, 5, 90 - 8 / 10000, 100, 90 + 8 / 10000⟩ = some .monoclinic := by
  decide +kernel
example := identify_tetragonal (1 / 100000 : ℚ) (1 / 100000000) (by norm_num) (by norm_num) (by norm_num) 3 5 (by decide +kernel)
example := identify_rhombohedral (1 / 100000 : ℚ) (1 / 100000000) (by norm_num) (by norm_num) 3 60 (by decide +kernel)
example := identify_orthorhombic (1 / 100000 : ℚ) (1 / 100000000) (by norm_num) (by norm_num) 3 4 5 (by decide +kernel) (by decide +kernel)
example := identify_monoclinic (1 / 100000 : ℚ) (1 / 100000000) (by norm_num) (by norm_num) 3 4 5 100 (by decide +kernel) (by decide +kernel) (by decide +kernel)
example := identify_triclinic (1 / 100000 : ℚ) (1 / 100000000) 3 4 5 80 100 110 (by decide +kernel) (by decide +kernel) (by decide +kernel) (by decide +kernel) (Or.inl (by decide +kernel))
example := identify_hexagonal (1 / 100000 : ℚ) (1 / 100000000) (by norm_num) (by norm_num) (by norm_num) 3 5
example := isclose_scale_atol0 (1 / 100000 : ℚ) (1 / 10000000000) 3 5 (by norm_num)
example := identify_scale_atol0 (1 / 100000 : ℚ) (1 / 10000000000) (by norm_num) ⟨3, 4, 5, 90, 90, 90⟩
-- reduce / all_indices / ordering
example := reduce_same_direction [4, -6, 8] (Or.inl rfl) ⟨4, by decide, by decide⟩
example := reduce_coprime [4, -6, 8, 0] (Or.inr rfl) ⟨4, by decide, by decide⟩
example := allIndices_reduce_coprime 2 [1, -2, 0] (by decide)
example := allIndices_sound 2 [1, -2, 0] (by decide)
example := lexLt_trans [1, -2, 0] [1, -1, 5] [1, 0, -7] (by decide) (by decide)
example := lexLt_total [1, -1, 5] [1, -2, 0] (by decide) (by decide)
example := insertUniq_sorted [0, 1, 0] [[-1, 0, 0], [0, 0, 1], [1, 0, 0]] (by decide)
example := inplane_zone 2 (-3) 4 ⟨-6, -4, 0⟩ ⟨-6, 0, 3⟩ (-1) (by decide)
example := plane3to4_third_negative 2 3 (-7) (by decide) (by decide) (by decide)
example := normal_unit_along_reciprocal_rotated exV ⟨⟨2/3, -1/3, 2/3⟩, ⟨2/3, 2/3, -1/3⟩, ⟨-1/3, 2/3, 2/3⟩⟩
  (by rw [exV_det]; norm_num) (by norm_num [M3.det, V3.dot, V3.cross]) 2 (-3) 4 (by decide)
end auditex
end Atomman.C16
