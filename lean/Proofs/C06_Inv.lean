/-
  C06 — the history invariant: definitions (`BufOK`, `ArrValid`, `AtypeOK`, `InvK`, `Le`, `Ext`) and its
  preservation by every function of the model (`Atomman/C06.lean`).

  `InvK κ s`: every buffer is rectangular and homogeneously typed; every property of every object
  exposes exactly `natoms` existing rows of its buffer; keys are distinct; `atype` cells are ≥ 1.
  The ghost `κ` maps a buffer to the property key under which it is (or will be) referenced: it
  records that numpy arrays are never shared between different property names, which is what keeps a
  write to one property from changing `atype`.
-/
import Proofs.C06_Monad

namespace Atomman.C06
set_option linter.unusedSimpArgs false
set_option linter.unusedVariables false

/-! ### definitions -/

structure BufOK (b : Buf) : Prop where
  width : ∀ r ∈ b.rows, r.length = prod b.trail
  typed : ∀ r ∈ b.rows, ∀ c ∈ r, c.hasType b.dt = true

/-- the array points into the heap: its buffer exists and every exposed row exists. -/
def ArrValid (s : State) (a : Arr) : Prop :=
  a.buf < s.heap.length ∧ ∀ i ∈ a.idx, i < (s.buf a.buf).rows.length

/-- every cell the array exposes is numeric and at least 1. -/
def AtypeOK (s : State) (a : Arr) : Prop :=
  ∀ i ∈ a.idx, ∀ c ∈ (s.buf a.buf).rows[i]?.getD [], CellGE1 c

structure PropOK (κ : Nat → String) (s : State) (n : Nat) (p : PropRef) : Prop where
  valid : ArrValid s p.arr
  len : p.arr.idx.length = n
  key : κ p.arr.buf = p.key
  atype : p.key = "atype" → AtypeOK s p.arr
  nodup : p.arr.idx.Nodup

structure InvK (κ : Nat → String) (s : State) : Prop where
  heap : ∀ b ∈ s.heap, BufOK b
  props : ∀ o ∈ s.objs, ∀ p ∈ o.props, PropOK κ s o.natoms p
  nodup : ∀ o ∈ s.objs, (o.props.map (·.key)).Nodup
  syss : ∀ y ∈ s.syss, y.atoms < s.objs.length ∧ y.pbc.length = 3

/-- what every function of the model guarantees between the state it starts from and the state it
    leaves (also when it raises): buffers keep dtype, trailing shape and number of rows; objects keep
    `natoms` and the array bound to each existing key; nothing is removed. -/
structure Le (s s' : State) : Prop where
  heapLen : s.heap.length ≤ s'.heap.length
  buf : ∀ b, b < s.heap.length → (s'.buf b).dt = (s.buf b).dt ∧ (s'.buf b).trail = (s.buf b).trail ∧
    (s'.buf b).rows.length = (s.buf b).rows.length
  objsLen : s.objs.length ≤ s'.objs.length
  obj : ∀ o, o < s.objs.length → (s'.obj o).natoms = (s.obj o).natoms ∧
    ∀ k a, (s.obj o).find k = some a → (s'.obj o).find k = some a
  syssLen : s.syss.length ≤ s'.syss.length
  sys : ∀ i, i < s.syss.length → (s'.sys i).atoms = (s.sys i).atoms ∧ (s'.sys i).box = (s.sys i).box

theorem Le.refl (s : State) : Le s s :=
  ⟨Nat.le_refl _, fun _ _ => ⟨rfl, rfl, rfl⟩, Nat.le_refl _, fun _ _ => ⟨rfl, fun _ _ h => h⟩, Nat.le_refl _,
    fun _ _ => ⟨rfl, rfl⟩⟩

theorem Le.trans {s s1 s2 : State} (h1 : Le s s1) (h2 : Le s1 s2) : Le s s2 := by
  refine ⟨Nat.le_trans h1.heapLen h2.heapLen, ?_, Nat.le_trans h1.objsLen h2.objsLen, ?_,
    Nat.le_trans h1.syssLen h2.syssLen, ?_⟩
  · intro b hb
    obtain ⟨a1, a2, a3⟩ := h1.buf b hb
    obtain ⟨b1, b2, b3⟩ := h2.buf b (Nat.lt_of_lt_of_le hb h1.heapLen)
    exact ⟨b1.trans a1, b2.trans a2, b3.trans a3⟩
  · intro o ho
    obtain ⟨a1, a2⟩ := h1.obj o ho
    obtain ⟨b1, b2⟩ := h2.obj o (Nat.lt_of_lt_of_le ho h1.objsLen)
    exact ⟨b1.trans a1, fun k a h => b2 k a (a2 k a h)⟩
  · intro i hi
    obtain ⟨a1, a2⟩ := h1.sys i hi
    obtain ⟨b1, b2⟩ := h2.sys i (Nat.lt_of_lt_of_le hi h1.syssLen)
    exact ⟨b1.trans a1, b2.trans a2⟩

/-- extension of (ghost, state): `Le` and the ghost agrees on the buffers that already existed. -/
structure Ext (κ : Nat → String) (s : State) (κ' : Nat → String) (s' : State) : Prop where
  le : Le s s'
  agree : ∀ b, b < s.heap.length → κ' b = κ b

theorem Ext.refl (κ : Nat → String) (s : State) : Ext κ s κ s := ⟨Le.refl s, fun _ _ => rfl⟩

theorem Ext.trans {κ κ1 κ2 : Nat → String} {s s1 s2 : State} (h1 : Ext κ s κ1 s1) (h2 : Ext κ1 s1 κ2 s2) :
    Ext κ s κ2 s2 :=
  ⟨h1.le.trans h2.le, fun b hb => (h2.agree b (Nat.lt_of_lt_of_le hb h1.le.heapLen)).trans (h1.agree b hb)⟩

theorem ArrValid.mono {s s' : State} {a : Arr} (h : ArrValid s a) (hle : Le s s') : ArrValid s' a := by
  refine ⟨Nat.lt_of_lt_of_le h.1 hle.heapLen, ?_⟩
  intro i hi
  rw [(hle.buf a.buf h.1).2.2]
  exact h.2 i hi

/-! ### state lookups -/

theorem buf_lt (s : State) (b : Nat) (h : b < s.heap.length) : s.buf b = s.heap[b] := by
  simp [State.buf, List.getElem?_eq_getElem h]

theorem buf_mem (s : State) (b : Nat) (h : b < s.heap.length) : s.buf b ∈ s.heap := by
  rw [buf_lt s b h]; exact List.getElem_mem h

theorem obj_lt (s : State) (o : Nat) (h : o < s.objs.length) : s.obj o = s.objs[o] := by
  simp [State.obj, List.getElem?_eq_getElem h]

theorem obj_mem (s : State) (o : Nat) (h : o < s.objs.length) : s.obj o ∈ s.objs := by
  rw [obj_lt s o h]; exact List.getElem_mem h

theorem obj_ge (s : State) (o : Nat) (h : s.objs.length ≤ o) : s.obj o = emptyObj := by
  simp [State.obj, List.getElem?_eq_none h]

theorem sys_mem (s : State) (i : Nat) (h : i < s.syss.length) : s.sys i ∈ s.syss := by
  simp [State.sys, List.getElem?_eq_getElem h]

/-- the props of `s.obj o` are well-formed for every `o` (a dangling id reads as the empty object). -/
theorem InvK.obj_props {κ : Nat → String} {s : State} (h : InvK κ s) (o : Nat) :
    ∀ p ∈ (s.obj o).props, PropOK κ s (s.obj o).natoms p := by
  by_cases ho : o < s.objs.length
  · exact h.props _ (obj_mem s o ho)
  · rw [obj_ge s o (Nat.le_of_not_lt ho)]
    intro p hp; simp [emptyObj] at hp

theorem find_mem (o : AtomsObj) (key : String) (a : Arr) (h : o.find key = some a) :
    ∃ p ∈ o.props, p.key = key ∧ p.arr = a := by
  unfold AtomsObj.find at h
  cases hf : o.props.find? (fun p => p.key == key) with
  | none => simp [hf] at h
  | some p =>
    simp [hf] at h
    refine ⟨p, List.mem_of_find?_eq_some hf, ?_, h⟩
    have := List.find?_some hf
    simpa using this

theorem InvK.find_ok {κ : Nat → String} {s : State} (h : InvK κ s) (o : Nat) (key : String) (a : Arr)
    (hf : (s.obj o).find key = some a) : PropOK κ s (s.obj o).natoms ⟨key, a⟩ := by
  obtain ⟨p, hp, hk, ha⟩ := find_mem _ _ _ hf
  have := h.obj_props o p hp
  cases p; simp at hk ha; subst hk; subst ha; exact this

/-! ### heap updates -/

def upd (κ : Nat → String) (b : Nat) (k : String) : Nat → String := fun x => if x = b then k else κ x

theorem buf_append_lt (s : State) (x : Buf) (b : Nat) (h : b < s.heap.length) :
    ({ s with heap := s.heap ++ [x] } : State).buf b = s.buf b := by
  simp [State.buf, List.getElem?_append_left h]

theorem buf_append_eq (s : State) (x : Buf) :
    ({ s with heap := s.heap ++ [x] } : State).buf s.heap.length = x := by
  simp [State.buf]

theorem buf_set (s : State) (b c : Nat) (x : Buf) :
    ({ s with heap := s.heap.set b x } : State).buf c = if c = b ∧ b < s.heap.length then x else s.buf c := by
  simp only [State.buf, List.getElem?_set]
  by_cases h : b = c
  · subst h
    by_cases h2 : b < s.heap.length
    · simp [h2]
    · simp [h2]
  · have : ¬ c = b := fun h' => h h'.symm
    simp [h, this]

/-- transport of `PropOK` to a later state: only the `atype` clause depends on buffer contents. -/
theorem PropOK.transport {κ κ' : Nat → String} {s s' : State} {n : Nat} {p : PropRef} (h : PropOK κ s n p)
    (hext : Ext κ s κ' s') (hat : p.key = "atype" → AtypeOK s' p.arr) : PropOK κ' s' n p :=
  ⟨h.valid.mono hext.le, h.len, (hext.agree _ h.valid.1).trans h.key, hat, h.nodup⟩

/-- the buffers below `s.heap.length` are literally the same in `s'`. -/
def SameBufs (s s' : State) : Prop := ∀ b, b < s.heap.length → s'.buf b = s.buf b

theorem AtypeOK.same {s s' : State} {a : Arr} (h : AtypeOK s a) (hb : s'.buf a.buf = s.buf a.buf) : AtypeOK s' a := by
  intro i hi; rw [hb]; exact h i hi

/-! ### `alloc` -/

theorem alloc_eq (dt : DType) (trail : List Nat) (rows : List Row) (s : State) :
    alloc dt trail rows s =
      (.ok ⟨s.heap.length, List.range rows.length⟩, { s with heap := s.heap ++ [⟨dt, trail, rows⟩] }) := rfl

theorem le_alloc (s : State) (x : Buf) : Le s { s with heap := s.heap ++ [x] } := by
  refine ⟨by simp, ?_, Nat.le_refl _, fun _ _ => ⟨rfl, fun _ _ h => h⟩, Nat.le_refl _, fun _ _ => ⟨rfl, rfl⟩⟩
  intro b hb
  rw [buf_append_lt s x b hb]
  exact ⟨rfl, rfl, rfl⟩

/-- allocating a well-formed buffer keeps the invariant; the ghost records the key `k` it is meant for. -/
theorem inv_alloc {κ : Nat → String} {s : State} (h : InvK κ s) (x : Buf) (hx : BufOK x) (k : String) :
    InvK (upd κ s.heap.length k) { s with heap := s.heap ++ [x] } ∧
    Ext κ s (upd κ s.heap.length k) { s with heap := s.heap ++ [x] } := by
  have hext : Ext κ s (upd κ s.heap.length k) { s with heap := s.heap ++ [x] } := by
    refine ⟨le_alloc s x, ?_⟩
    intro b hb
    simp [upd, Nat.ne_of_lt hb]
  refine ⟨⟨?_, ?_, h.nodup, h.syss⟩, hext⟩
  · intro b hb
    simp only [List.mem_append, List.mem_singleton] at hb
    rcases hb with hb | rfl
    · exact h.heap b hb
    · exact hx
  · intro o ho p hp
    have hp0 := h.props o ho p hp
    exact hp0.transport hext (fun hk => (hp0.atype hk).same (buf_append_lt s x _ hp0.valid.1))

/-! ### `assign` -/

/-- an integer (axis-dropping) selection names exactly one row. -/
def SelOK (sel : Sel) : Prop := sel.scalar = true → sel.count = 1

/-- the buffer after `arr[sel] = value` went through. -/
def assignedBuf (s : State) (a : Arr) (sel : Sel) (cells : List Cell) : Buf :=
  ⟨(s.buf a.buf).dt, (s.buf a.buf).trail, writeRows (s.buf a.buf).rows
      ((sel.pos.map (fun p => a.idx[p]?.getD 0)).zip (rowsOf sel.count (prod (s.buf a.buf).trail) cells))⟩

def assignShape (s : State) (a : Arr) (sel : Sel) : List Nat :=
  if sel.scalar then (s.buf a.buf).trail else sel.count :: (s.buf a.buf).trail

/-- `assign` either raises and leaves the state alone, or writes the cast broadcast value through. -/
theorem assign_cases (a : Arr) (sel : Sel) (v : Val) (s : State) :
    (∃ e, assign a sel v s = (.error e, s)) ∨
    (∃ flat cells, bcast v (assignShape s a sel) = some flat ∧ flat.mapM (castCell (s.buf a.buf).dt) = some cells ∧
      sel.oob = false ∧
      assign a sel v s = (.ok (), { s with heap := s.heap.set a.buf (assignedBuf s a sel cells) })) := by
  unfold assign
  simp only []
  split
  · left; exact ⟨_, rfl⟩
  · split
    · left; exact ⟨_, rfl⟩
    · split
      · left; exact ⟨_, rfl⟩
      · rename_i flat hflat
        split
        · left; exact ⟨_, rfl⟩
        · rename_i hoob
          split
          · left; exact ⟨_, rfl⟩
          · rename_i cells hcells
            right
            exact ⟨flat, cells, hflat, hcells, by simpa using hoob, rfl⟩

theorem le_heap_set (s : State) (b : Nat) (x : Buf) (h1 : x.dt = (s.buf b).dt) (h2 : x.trail = (s.buf b).trail)
    (h3 : x.rows.length = (s.buf b).rows.length) : Le s { s with heap := s.heap.set b x } := by
  refine ⟨by simp, ?_, Nat.le_refl _, fun _ _ => ⟨rfl, fun _ _ h => h⟩, Nat.le_refl _, fun _ _ => ⟨rfl, rfl⟩⟩
  intro c hc
  rw [buf_set]
  split
  · rename_i hcb; rw [hcb.1]; exact ⟨h1, h2, h3⟩
  · exact ⟨rfl, rfl, rfl⟩

theorem bufOK_empty : BufOK emptyBuf := ⟨by intro r hr; simp [emptyBuf] at hr, by intro r hr; simp [emptyBuf] at hr⟩

theorem InvK.buf_ok {κ : Nat → String} {s : State} (h : InvK κ s) (b : Nat) : BufOK (s.buf b) := by
  by_cases hb : b < s.heap.length
  · exact h.heap _ (buf_mem s b hb)
  · have : s.buf b = emptyBuf := by simp [State.buf, List.getElem?_eq_none (Nat.le_of_not_lt hb)]
    rw [this]; exact bufOK_empty

/-- the rows written by an assignment: right width, right type, and cells cast from the value. -/
theorem assigned_rows {s : State} {a : Arr} {sel : Sel} {v : Val} {flat cells : List Cell} (hsel : SelOK sel)
    (hflat : bcast v (assignShape s a sel) = some flat)
    (hcells : flat.mapM (castCell (s.buf a.buf).dt) = some cells) :
    ∀ r ∈ rowsOf sel.count (prod (s.buf a.buf).trail) cells,
      r.length = prod (s.buf a.buf).trail ∧ ∀ c' ∈ r, c'.hasType (s.buf a.buf).dt = true ∧
        ∃ c ∈ v.data, castCell (s.buf a.buf).dt c = some c' := by
  intro r hr
  obtain ⟨hlen, hmem⟩ := mapM_option _ _ _ hcells
  have hfl := bcast_length _ _ _ hflat
  have hcl : cells.length = sel.count * prod (s.buf a.buf).trail := by
    rw [hlen, hfl]
    unfold assignShape
    by_cases hs : sel.scalar = true
    · simp [hs, hsel hs]
    · simp [hs, prod]
  refine ⟨rowsOf_width _ _ _ r hr, ?_⟩
  intro c' hc'
  have hc'' := rowsOf_mem _ _ _ hcl r hr c' hc'
  obtain ⟨c, hc, hcast⟩ := hmem c' hc''
  exact ⟨castCell_typed _ _ _ hcast, c, bcast_mem _ _ _ hflat c hc, hcast⟩

theorem inv_assign {κ : Nat → String} {s : State} (h : InvK κ s) (a : Arr) (sel : Sel) (v : Val) (hsel : SelOK sel)
    (hat : κ a.buf = "atype" → sel.count = 0 ∨ ∀ c ∈ v.data, CellGE1 c) :
    Post (assign a sel v) s (fun _ s' => InvK κ s' ∧ Ext κ s κ s' ∧ s'.objs = s.objs ∧ s'.syss = s.syss) := by
  rcases assign_cases a sel v s with ⟨e, he⟩ | ⟨flat, cells, hflat, hcells, _, hok⟩
  · exact Post.of_eq _ _ he ⟨h, Ext.refl κ s, rfl, rfl⟩
  · apply Post.of_eq _ _ hok
    have hrows := assigned_rows hsel hflat hcells
    have hb := h.buf_ok a.buf
    have hle : Le s { s with heap := s.heap.set a.buf (assignedBuf s a sel cells) } :=
      le_heap_set s a.buf _ rfl rfl (by simp [assignedBuf, writeRows_length])
    have hext : Ext κ s κ { s with heap := s.heap.set a.buf (assignedBuf s a sel cells) } := ⟨hle, fun _ _ => rfl⟩
    have hnew : BufOK (assignedBuf s a sel cells) := by
      constructor
      · intro r hr
        rcases writeRows_mem _ _ r hr with h1 | ⟨u, hu, rfl⟩
        · exact hb.width r h1
        · exact (hrows u.2 (List.of_mem_zip hu).2).1
      · intro r hr c hc
        rcases writeRows_mem _ _ r hr with h1 | ⟨u, hu, rfl⟩
        · exact hb.typed r h1 c hc
        · exact ((hrows u.2 (List.of_mem_zip hu).2).2 c hc).1
    refine ⟨⟨?_, ?_, h.nodup, h.syss⟩, hext, rfl, rfl⟩
    · intro b0 hb0
      rcases List.mem_or_eq_of_mem_set hb0 with h1 | h1
      · exact h.heap b0 h1
      · rw [h1]; exact hnew
    · intro o ho p hp
      have hp0 := h.props o ho p hp
      apply hp0.transport hext
      intro hk
      have hold := hp0.atype hk
      by_cases hpb : p.arr.buf = a.buf
      · -- the written buffer is an `atype` buffer: the written cells are ≥ 1
        have hκ : κ a.buf = "atype" := by rw [← hpb, hp0.key, hk]
        intro i hi c hc
        have hbuf : ({ s with heap := s.heap.set a.buf (assignedBuf s a sel cells) } : State).buf p.arr.buf =
            assignedBuf s a sel cells := by
          rw [buf_set, if_pos]; exact ⟨hpb, hpb ▸ hp0.valid.1⟩
        rw [hbuf] at hc
        simp only [assignedBuf] at hc
        rcases writeRows_get (s.buf a.buf).rows
          ((sel.pos.map (fun p => a.idx[p]?.getD 0)).zip (rowsOf sel.count (prod (s.buf a.buf).trail) cells)) i
          with h1 | ⟨u, hu, _, h2⟩
        · rw [h1] at hc
          have := hold i hi c
          rw [hpb] at this
          exact this hc
        · rw [h2] at hc
          simp only [Option.getD_some] at hc
          have hu2 := (List.of_mem_zip hu).2
          rcases hat hκ with h0 | hge
          · rw [h0] at hu2; simp [rowsOf] at hu2
          · obtain ⟨_, c0, hc0, hcast⟩ := (hrows u.2 hu2).2 c hc
            exact castCell_ge1 _ _ _ hcast (hge c0 hc0)
      · apply hold.same
        rw [buf_set]; simp [hpb]

end Atomman.C06
