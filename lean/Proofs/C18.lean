/-
  C18 — property theorems about the model `Atomman/C18.lean` of `atomman.defect.GammaSurface`,
  `SDVPN`, `pn_arctan_*`.  `K` is any linearly ordered field (ℚ, ℝ, …); `Int.floor` needs `FloorRing K`.
  External routines are parameters: the interpolant `f` (scipy Rbf), `lg` (log), `pi`, norms, and the
  optimiser output `res` — every theorem holds for ALL of their values unless a hypothesis says otherwise.
-/
import Proofs.C18_Lemmas
import Proofs.C18_Gen
import Mathlib.Data.Rat.Floor
import Mathlib.Analysis.SpecialFunctions.Log.Basic

namespace Atomman.C18
open Atomman
set_option linter.unusedSectionVars false
set_option linter.unusedSimpArgs false
set_option linter.unusedVariables false

variable {K : Type} [Field K] [LinearOrder K] [IsStrictOrderedRing K]

/-! ## gamma surface -/

section gamma
variable [FloorRing K]

/-- whatever the two `while` loops of `E_gsf` return — a value `r` that differs from the query by an
    integer and lies in `[-c, 1-c)` — is the model's `wrap`. -/
theorem wrap_loop_spec (c a r : K) (n : Int) (h : r = a - n) (h1 : -c ≤ r) (h2 : r < 1 - c) :
    r = wrap Int.floor c a := wrap_unique c a r n h h1 h2

/-- **periodic in both shift vectors**, for every interpolant `f`, every cushion, every integer period. -/
theorem E_periodic (f : K → K → K) (c1 c2 a1 a2 : K) (n m : Int) :
    E Int.floor f c1 c2 (a1 + n) (a2 + m) = E Int.floor f c1 c2 a1 a2 := by
  unfold E
  rw [wrap_add_int, wrap_add_int]


/-- **reproduces the input at the sampled shifts**: if the interpolant reproduces the tiled data at the
    tiled nodes of the fit (`hf`; what scipy's Rbf with `smooth = 0` does), and the blend strip `[-c, c)`
    holds no sampled coordinate other than 0 (`hgrid`; true for a uniform grid with the coded cushion, see
    `hgrid_of_uniform`), then `E` at a sampled shift is the datum: in the strip the four blended values
    are equal and the weights sum to 1. -/
theorem E_interpolates (D N : List (Node K)) (f : K → K → K) (c1 c2 : K)
    (hN : fitNodes? D = some N) (hf : ∀ n ∈ N, f n.a1 n.a2 = n.e)
    (hc1 : 0 ≤ c1) (hc2 : 0 ≤ c2)
    (hgrid : ∀ s ∈ shortData D, ((s.a1 = 0 ∨ c1 ≤ s.a1) ∧ s.a1 < 1 - c1) ∧ ((s.a2 = 0 ∨ c2 ≤ s.a2) ∧ s.a2 < 1 - c2))
    (s : Node K) (hs : s ∈ shortData D) :
    E Int.floor f c1 c2 s.a1 s.a2 = s.e := by
  obtain ⟨⟨g1, g1'⟩, ⟨g2, g2'⟩⟩ := hgrid s hs
  have p1 : 0 ≤ s.a1 := by rcases g1 with h | h <;> linarith
  have p2 : 0 ≤ s.a2 := by rcases g2 with h | h <;> linarith
  unfold E
  rw [wrap_of_mem c1 s.a1 (by linarith) g1', wrap_of_mem c2 s.a2 (by linarith) g2']
  have key : ∀ (i j : Int), (i = 0 ∨ (i = 1 ∧ s.a1 = 0)) → (j = 0 ∨ (j = 1 ∧ s.a2 = 0)) →
      f (s.a1 + (i : K)) (s.a2 + (j : K)) = s.e := by
    intro i j hi hj
    have hm := node_mem D N hN s hs (i, j)
      (tileOffsets_mem i j (by rcases hi with h | h; exact Or.inl h; exact Or.inr h.1)
        (by rcases hj with h | h; exact Or.inl h; exact Or.inr h.1))
      (by rcases hi with h | ⟨h, h0⟩ <;> simp [h] <;> linarith)
      (by rcases hi with h | ⟨h, h0⟩ <;> simp [h] <;> linarith)
      (by rcases hj with h | ⟨h, h0⟩ <;> simp [h] <;> linarith)
      (by rcases hj with h | ⟨h, h0⟩ <;> simp [h] <;> linarith)
    exact hf _ hm
  have k00 := key 0 0 (Or.inl rfl) (Or.inl rfl)
  simp only [Int.cast_zero, add_zero] at k00
  unfold evalE
  simp only
  rcases wgt_sample c1 s.a1 hc1 g1 with hx | ⟨hx0, hcp1⟩ <;>
  rcases wgt_sample c2 s.a2 hc2 g2 with hy | ⟨hy0, hcp2⟩
  · rw [hx, hy, k00]; ring
  · have k01 := key 0 1 (Or.inl rfl) (Or.inr ⟨rfl, hy0⟩)
    simp only [Int.cast_zero, add_zero, Int.cast_one] at k01
    rw [hx, k00, k01]; ring
  · have k10 := key 1 0 (Or.inr ⟨rfl, hx0⟩) (Or.inl rfl)
    simp only [Int.cast_zero, add_zero, Int.cast_one] at k10
    rw [hy, k00, k10]; ring
  · have k01 := key 0 1 (Or.inl rfl) (Or.inr ⟨rfl, hy0⟩)
    have k10 := key 1 0 (Or.inr ⟨rfl, hx0⟩) (Or.inl rfl)
    have k11 := key 1 1 (Or.inr ⟨rfl, hx0⟩) (Or.inr ⟨rfl, hy0⟩)
    simp only [Int.cast_zero, add_zero, Int.cast_one] at k01 k10 k11
    rw [k00, k01, k10, k11]; ring


/-- the duplicated edge `a1 = 1` (dropped from the fit) is reproduced through periodicity. -/
theorem E_interpolates_edge (D N : List (Node K)) (f : K → K → K) (c1 c2 : K)
    (hN : fitNodes? D = some N) (hf : ∀ n ∈ N, f n.a1 n.a2 = n.e)
    (hc1 : 0 ≤ c1) (hc2 : 0 ≤ c2)
    (hgrid : ∀ s ∈ shortData D, ((s.a1 = 0 ∨ c1 ≤ s.a1) ∧ s.a1 < 1 - c1) ∧ ((s.a2 = 0 ∨ c2 ≤ s.a2) ∧ s.a2 < 1 - c2))
    (s : Node K) (hs : s ∈ shortData D) (n m : Int) :
    E Int.floor f c1 c2 (s.a1 + n) (s.a2 + m) = s.e := by
  rw [E_periodic]; exact E_interpolates D N f c1 c2 hN hf hc1 hc2 hgrid s hs

/-- a uniform grid `k/n` with the coded cushion `(1 - (n-1)/n)/2 = 1/(2n)` satisfies `hgrid`. -/
theorem hgrid_of_uniform (n k : Nat) (hn : 0 < n) (hk : k < n) :
    ((((k : K) / n = 0) ∨ (1 : K) / (2 * n) ≤ (k : K) / n) ∧ (k : K) / n < 1 - 1 / (2 * n))
    ∧ cushion? ((List.range n).map (fun i => ((i : Nat) : K) / n)) ≠ none := by
  have hn' : (0 : K) < n := by exact_mod_cast hn
  refine ⟨⟨?_, ?_⟩, ?_⟩
  · rcases Nat.eq_zero_or_pos k with h | h
    · left; simp [h]
    · right
      have hk1 : (1 : K) ≤ k := by exact_mod_cast h
      rw [div_le_div_iff₀ (by positivity) hn']
      nlinarith
  · have hk1 : (k : K) + 1 ≤ n := by exact_mod_cast hk
    rw [div_lt_iff₀ hn']
    have : (1 - 1 / (2 * (n : K))) * n = n - 1 / 2 := by field_simp
    rw [this]; linarith
  · unfold cushion?
    obtain ⟨m, hm⟩ := maxOf_isSome_of_mem ((List.range n).map (fun i => ((i : Nat) : K) / n)) ((0 : Nat) / (n : K))
      (List.mem_map.mpr ⟨0, List.mem_range.mpr hn, rfl⟩)
    simp [hm]

/-! `delta` (no blending): wrap into `[0, 1]`, then the interpolant -/

theorem wrapN_of_mem (a : K) (h0 : 0 ≤ a) (h1 : a ≤ 1) : wrapN Int.floor Int.ceil a = a := by
  unfold wrapN
  rw [if_neg (not_lt.mpr h1), if_neg (not_lt.mpr h0)]

/-- off the lattice lines the wrap of `delta` is the fractional part … -/
theorem wrapN_eq_fract (a : K) (h : ∀ z : Int, a ≠ z) : wrapN Int.floor Int.ceil a = a - Int.floor a := by
  have hfl : (Int.floor a : K) < a := lt_of_le_of_ne (Int.floor_le a) (fun e => h _ e.symm)
  have hc : Int.ceil a = Int.floor a + 1 := by
    rw [Int.ceil_eq_iff]; push_cast
    exact ⟨by linarith, le_of_lt (Int.lt_floor_add_one a)⟩
  unfold wrapN
  split_ifs with h1 h0
  · rw [hc]; push_cast; ring
  · rfl
  · have : Int.floor a = 0 := by
      rw [Int.floor_eq_iff]; push_cast
      refine ⟨by linarith, ?_⟩
      rcases lt_or_eq_of_le (not_lt.mp h1) with hlt | heq
      · linarith
      · exact absurd (by simpa using heq) (h 1)
    simp [this]

/-- … hence `delta` is periodic at every query that is not on a lattice line (on the lines `a = n` the
    code evaluates the interpolant at 0 or at 1 depending on the side the query came from, which agree only
    as far as the interpolant is periodic there: not a theorem, see docs/C18.md). -/
theorem delta_periodic_offlattice (f : K → K → K) (a1 a2 : K) (n m : Int)
    (h1 : ∀ z : Int, a1 ≠ z) (h2 : ∀ z : Int, a2 ≠ z) :
    deltaEval Int.floor Int.ceil f (a1 + n) (a2 + m) = deltaEval Int.floor Int.ceil f a1 a2 := by
  have h1' : ∀ z : Int, a1 + n ≠ z := fun z e => h1 (z - n) (by push_cast; linarith)
  have h2' : ∀ z : Int, a2 + m ≠ z := fun z e => h2 (z - m) (by push_cast; linarith)
  unfold deltaEval
  rw [wrapN_eq_fract _ h1', wrapN_eq_fract _ h2', wrapN_eq_fract _ h1, wrapN_eq_fract _ h2,
    Int.floor_add_intCast, Int.floor_add_intCast]
  push_cast
  congr 1 <;> ring

/-- `delta` reproduces its input at the sampled shifts (coordinates in `[0, 1)`). -/
theorem delta_interpolates (D N : List (Node K)) (f : K → K → K)
    (hN : fitNodes? D = some N) (hf : ∀ n ∈ N, f n.a1 n.a2 = n.e)
    (s : Node K) (hs : s ∈ shortData D) (h1 : 0 ≤ s.a1 ∧ s.a1 ≤ 1) (h2 : 0 ≤ s.a2 ∧ s.a2 ≤ 1) :
    deltaEval Int.floor Int.ceil f s.a1 s.a2 = s.e := by
  unfold deltaEval
  rw [wrapN_of_mem _ h1.1 h1.2, wrapN_of_mem _ h2.1 h2.2]
  have hm := node_mem D N hN s hs (0, 0) (tileOffsets_mem 0 0 (Or.inl rfl) (Or.inl rfl))
    (by simpa using h1.1) (by simpa using h1.2) (by simpa using h2.1) (by simpa using h2.2)
  have := hf _ hm
  simpa [shiftNode] using this

end gamma

/-! ## coordinate conversions (oblique vectors, any non-degenerate basis, one or many points) -/

/-- fractional ↔ Cartesian: mutual inverses whenever `A1 × A2 ≠ 0`; the out-of-plane assertion of
    `pos_to_a12` passes on every position produced by `a12_to_pos`. -/
theorem a12_pos_inverse (A1 A2 : V3 K) (h : V3.cross A1 A2 ≠ v3zero) :
    (∀ a : K × K, posToA12? A1 A2 (a12ToPos A1 A2 a) = some a) ∧
    (∀ pos : V3 K, V3.dot pos (V3.cross A1 A2) = 0 → a12ToPos A1 A2 (posToA12 A1 A2 pos) = pos) := by
  refine ⟨fun a => ?_, fun pos hp => a12ToPos_posToA12 A1 A2 h pos hp⟩
  unfold posToA12?
  simp only [posToA123_a12ToPos A1 A2 h a]
  rw [if_pos (inPlaneOk_of_z_zero A1 A2 _ rfl)]

/-- … for arrays of positions. -/
theorem a12_pos_inverse_many (A1 A2 : V3 K) (h : V3.cross A1 A2 ≠ v3zero) :
    (∀ l : List (K × K), (l.map (a12ToPos A1 A2)).mapM (posToA12? A1 A2) = some l) ∧
    (∀ ps : List (V3 K), (∀ p ∈ ps, V3.dot p (V3.cross A1 A2) = 0) →
      (ps.map (posToA12 A1 A2)).map (a12ToPos A1 A2) = ps) := by
  constructor
  · intro l
    induction l with
    | nil => rfl
    | cons a l ih =>
      simp only [List.map_cons, List.mapM_cons, (a12_pos_inverse A1 A2 h).1 a, ih]
      rfl
  · intro ps hps
    rw [List.map_map]
    conv_rhs => rw [← List.map_id ps]
    apply List.map_congr_left
    intro p hp
    exact (a12_pos_inverse A1 A2 h).2 p (hps p hp)

/-- Cartesian ↔ plotting coordinates: mutual inverses for every in-plane x axis `X ≠ 0`, every
    non-zero plane normal and every non-zero value of the three row normalisations. -/
theorem pos_xy_inverse (X Nh : V3 K) (nx ny nz : K) (hx : nx ≠ 0) (hy : ny ≠ 0) (hz : nz ≠ 0)
    (hperp : V3.dot X Nh = 0) (hX : X ≠ v3zero) (hN : Nh ≠ v3zero) :
    (∀ q : K × K, posToXY (xyTransform X Nh nx ny nz) (xyToPos (xyTransform X Nh nx ny nz) q) = q) ∧
    (∀ pos : V3 K, V3.dot Nh pos = 0 →
      xyToPos (xyTransform X Nh nx ny nz) (posToXY (xyTransform X Nh nx ny nz) pos) = pos) := by
  have hdet := det_xyTransform_ne X Nh nx ny nz hx hy hz hperp hX hN
  refine ⟨fun q => posToXY_xyToPos _ hdet q, fun pos hp => xyToPos_posToXY _ hdet pos ?_⟩
  simp only [xyTransform, V3.map, V3.dot] at hp ⊢
  field_simp
  linear_combination hp

theorem pos_xy_inverse_many (X Nh : V3 K) (nx ny nz : K) (hx : nx ≠ 0) (hy : ny ≠ 0) (hz : nz ≠ 0)
    (hperp : V3.dot X Nh = 0) (hX : X ≠ v3zero) (hN : Nh ≠ v3zero) :
    (∀ l : List (K × K), (l.map (xyToPos (xyTransform X Nh nx ny nz))).map (posToXY (xyTransform X Nh nx ny nz)) = l) ∧
    (∀ ps : List (V3 K), (∀ p ∈ ps, V3.dot Nh p = 0) →
      (ps.map (posToXY (xyTransform X Nh nx ny nz))).map (xyToPos (xyTransform X Nh nx ny nz)) = ps) := by
  obtain ⟨h1, h2⟩ := pos_xy_inverse X Nh nx ny nz hx hy hz hperp hX hN
  constructor
  · intro l
    rw [List.map_map]
    conv_rhs => rw [← List.map_id l]
    exact List.map_congr_left (fun q _ => h1 q)
  · intro ps hps
    rw [List.map_map]
    conv_rhs => rw [← List.map_id ps]
    exact List.map_congr_left (fun p hp => h2 p (hps p hp))

/-- the plane normal of the model is perpendicular to the default x axis `A1` (so the guard of
    `pos_to_xy` passes) and non-zero for a non-degenerate basis. -/
theorem planeNormal_perp (A1 A2 : V3 K) (nn : K) (hnn : nn ≠ 0) (h : V3.cross A1 A2 ≠ v3zero) :
    V3.dot A1 (planeNormal A1 A2 nn) = 0 ∧ V3.dot A2 (planeNormal A1 A2 nn) = 0 ∧ planeNormal A1 A2 nn ≠ v3zero := by
  refine ⟨?_, ?_, ?_⟩
  · simp only [planeNormal, V3.map, V3.dot, V3.cross]; field_simp; ring
  · simp only [planeNormal, V3.map, V3.dot, V3.cross]; field_simp; ring
  · intro e
    apply h
    simp only [planeNormal, V3.map, v3zero, V3.mk.injEq, div_eq_zero_iff, hnn, or_false] at e
    ext <;> simp [v3zero, e.1, e.2.1, e.2.2]

/-! ### the default plotting axis and the three interchangeable kinds of query -/

theorem isclose_zero_zero : isclose (0 : K) 0 = true := by
  rw [isclose_iff]; simp only [sub_zero, abs_zero, mul_zero, add_zero]; exact le_of_lt tolA_pos

theorem a12ToPos_inplane (A1 A2 : V3 K) (nn : K) (hnn : nn ≠ 0) (a : K × K) :
    V3.dot (planeNormal A1 A2 nn) (a12ToPos A1 A2 a) = 0 := by
  simp only [planeNormal, a12ToPos, V3.map, V3.dot, V3.cross, V3.smul, add_x, add_y, add_z]
  field_simp
  ring

/-- with the DEFAULT x axis (`xvect=None`, the Cartesian `a1vect`) the in-plane guard passes in both directions
    and `pos_to_xy` / `xy_to_pos` are mutual inverses — in any cell (`A1`, `A2` are arbitrary non-parallel
    Cartesian vectors: hexagonal, monoclinic, triclinic, rotated), for any non-zero normalisations. -/
theorem xy_default_inverse (A1 A2 : V3 K) (nn nx ny nz : K) (hnn : nn ≠ 0) (hx : nx ≠ 0) (hy : ny ≠ 0) (hz : nz ≠ 0)
    (h : V3.cross A1 A2 ≠ v3zero) :
    (∀ q : K × K, ∃ p, xyToPosApi A1 A2 nn nx ny nz none q = some p ∧ posToXYApi A1 A2 nn nx ny nz none p = some q) ∧
    (∀ a : K × K, ∃ q, posToXYApi A1 A2 nn nx ny nz none (a12ToPos A1 A2 a) = some q ∧
      xyToPosApi A1 A2 nn nx ny nz none q = some (a12ToPos A1 A2 a)) := by
  obtain ⟨p1, _, p3⟩ := planeNormal_perp A1 A2 nn hnn h
  have hA1 : A1 ≠ v3zero := by
    intro e; apply h; rw [e]; simp [V3.cross, v3zero]
  have hok : xvectOk (xyDefaultX A1 none) (planeNormal A1 A2 nn) = true := by
    simp only [xyDefaultX, Option.getD_none]; exact xvectOk_of_perp A1 _ p1 hA1
  obtain ⟨i1, i2⟩ := pos_xy_inverse A1 (planeNormal A1 A2 nn) nx ny nz hx hy hz p1 hA1 p3
  constructor
  · intro q
    refine ⟨xyToPos (xyTransform A1 (planeNormal A1 A2 nn) nx ny nz) q, ?_, ?_⟩
    · simp only [xyToPosApi, hok, if_true]; rfl
    · simp only [posToXYApi, hok, if_true]
      exact congrArg some (i1 q)
  · intro a
    refine ⟨posToXY (xyTransform A1 (planeNormal A1 A2 nn) nx ny nz) (a12ToPos A1 A2 a), ?_, ?_⟩
    · simp only [posToXYApi, hok, if_true]; rfl
    · simp only [xyToPosApi, hok, if_true]
      exact congrArg some (i2 _ (a12ToPos_inplane A1 A2 nn hnn a))

/-- **a position given in fractional, Cartesian or plotting coordinates is accepted interchangeably**: the same
    physical point `a1 A1 + a2 A2` asked for as `pos=` or as `x=, y=` (default axis, or any in-plane axis `X`)
    yields the value at `(a1, a2)` — for every function `gam` of the fractional coordinates (`E_gsf`, `delta`). -/
theorem E_interchangeable (gam : K → K → K) (A1 A2 : V3 K) (nn nx ny nz : K) (hnn : nn ≠ 0) (hx : nx ≠ 0)
    (hy : ny ≠ 0) (hz : nz ≠ 0) (h : V3.cross A1 A2 ≠ v3zero) (a : K × K) :
    EofQuery gam A1 A2 nn nx ny nz (.a12 a) = some (gam a.1 a.2) ∧
    EofQuery gam A1 A2 nn nx ny nz (.pos (a12ToPos A1 A2 a)) = some (gam a.1 a.2) ∧
    (∀ xv : Option (V3 K), (∀ X, xv = some X → V3.dot X (planeNormal A1 A2 nn) = 0 ∧ X ≠ v3zero) →
      ∃ q, posToXYApi A1 A2 nn nx ny nz xv (a12ToPos A1 A2 a) = some q ∧
        EofQuery gam A1 A2 nn nx ny nz (.xy q xv) = some (gam a.1 a.2)) := by
  have hp := (a12_pos_inverse A1 A2 h).1 a
  refine ⟨rfl, ?_, ?_⟩
  · simp only [EofQuery, Query.toA12?, hp, Option.map_some]
  · intro xv hxv
    obtain ⟨p1, _, p3⟩ := planeNormal_perp A1 A2 nn hnn h
    have hA1 : A1 ≠ v3zero := by
      intro e; apply h; rw [e]; simp [V3.cross, v3zero]
    have hX : V3.dot (xyDefaultX A1 xv) (planeNormal A1 A2 nn) = 0 ∧ xyDefaultX A1 xv ≠ v3zero := by
      cases xv with
      | none => exact ⟨p1, hA1⟩
      | some X => exact hxv X rfl
    have hok : xvectOk (xyDefaultX A1 xv) (planeNormal A1 A2 nn) = true := xvectOk_of_perp _ _ hX.1 hX.2
    obtain ⟨_, i2⟩ := pos_xy_inverse (xyDefaultX A1 xv) (planeNormal A1 A2 nn) nx ny nz hx hy hz hX.1 hX.2 p3
    refine ⟨posToXY (xyTransform (xyDefaultX A1 xv) (planeNormal A1 A2 nn) nx ny nz) (a12ToPos A1 A2 a), ?_, ?_⟩
    · simp only [posToXYApi, hok, if_true]
    · simp only [EofQuery, Query.toA12?, xyToPosApi, hok, if_true, Option.bind_some,
        i2 _ (a12ToPos_inplane A1 A2 nn hnn a), hp, Option.map_some]

/-- fractional coordinates relative to another basis of the same plane (`a1vect=`, `a2vect=` keywords):
    with `B1 = m11 A1 + m12 A2`, `B2 = m21 A1 + m22 A2` the query `(a1, a2)` is the surface's own
    `(a1 m11 + a2 m21, a1 m12 + a2 m22)` and is never refused. -/
theorem E_other_basis (A1 A2 : V3 K) (h : V3.cross A1 A2 ≠ v3zero) (m11 m12 m21 m22 : K) (a : K × K) :
    otherBasisToA12? A1 A2 (V3.smul m11 A1 + V3.smul m12 A2) (V3.smul m21 A1 + V3.smul m22 A2) a
      = some (a.1 * m11 + a.2 * m21, a.1 * m12 + a.2 * m22) := by
  have e : a12ToPos (V3.smul m11 A1 + V3.smul m12 A2) (V3.smul m21 A1 + V3.smul m22 A2) a
      = a12ToPos A1 A2 (a.1 * m11 + a.2 * m21, a.1 * m12 + a.2 * m22) := by
    simp only [a12ToPos, V3.smul]
    ext <;> simp only [add_x, add_y, add_z] <;> ring
  unfold otherBasisToA12?
  rw [e]
  exact (a12_pos_inverse A1 A2 h).1 _

/-- with the `a1vect=` / `a2vect=` keywords the three kinds of query stay interchangeable: the Cartesian position of
    the fractional point `(a1, a2)` of the OTHER basis, queried by `pos=` with the same keywords, is reduced to the same
    own coordinates as the fractional query — `(a1 m11 + a2 m21, a1 m12 + a2 m22)` for a basis of the same plane. -/
theorem E_interchangeable_other (A1 A2 : V3 K) (h : V3.cross A1 A2 ≠ v3zero) (m11 m12 m21 m22 nn nx ny nz : K) (a : K × K) :
    let B1 := V3.smul m11 A1 + V3.smul m12 A2
    let B2 := V3.smul m21 A1 + V3.smul m22 A2
    (Query.pos (a12ToPos B1 B2 a)).toA12Other? A1 A2 B1 B2 nn nx ny nz = (Query.a12 a).toA12Other? A1 A2 B1 B2 nn nx ny nz ∧
    (Query.a12 a).toA12Other? A1 A2 B1 B2 nn nx ny nz = some (a.1 * m11 + a.2 * m21, a.1 * m12 + a.2 * m22) :=
  ⟨rfl, E_other_basis A1 A2 h m11 m12 m21 m22 a⟩

/-- data-model round trip: writing the record with unit factors and reading it back is the identity. -/
theorem model_roundtrip (ue ul : K) (hue : ue ≠ 0) (hul : ul ≠ 0) (g : GsfRecord K) :
    ofModel ue ul (toModel ue ul g) = g := by
  obtain ⟨box, v1, v2, a1, a2, e, delta⟩ := g
  simp only [ofModel, toModel, List.map_map, GsfRecord.mk.injEq, true_and]
  constructor
  · conv_rhs => rw [← List.map_id e]
    apply List.map_congr_left; intro v _; simp [div_mul_cancel₀, hue]
  · cases delta with
    | none => rfl
    | some dl =>
      simp only [Option.map_some, List.map_map, Option.some.injEq]
      conv_rhs => rw [← List.map_id dl]
      apply List.map_congr_left; intro v _; simp [div_mul_cancel₀, hul]


/-! ## the GammaSurface object under reloads: `set()` / `model(model=…)` into an EXISTING object -/

/-- **last load wins, nothing is remembered**: after ANY history of loads, `set(r)` — or reading back the model that
    `⟨r⟩.model(units)` wrote, with any non-zero unit factors — leaves the object in exactly the state of a fresh
    `GammaSurface` built from `r`.  Hence every query (conversions, fit nodes, cushions, `E_gsf`, `delta`) of the
    reloaded object is the query of a fresh object (a memoised basis / fit / cushion violates this in the
    implementation; the tie runs query → reload → query sequences on ONE real object against `GObj.run`). -/
theorem gamma_reload_state (o : GObj K) (ops : List (GOp K)) (r : GsfRecord K) (ue ul : K) (hue : ue ≠ 0) (hul : ul ≠ 0) :
    o.run (ops ++ [.set r]) = ⟨r⟩ ∧
    o.run (ops ++ [.loadModel ue ul (GObj.model ue ul ⟨r⟩)]) = ⟨r⟩ := by
  simp only [GObj.run, List.foldl_append, List.foldl_cons, List.foldl_nil, GObj.apply, GObj.model,
    model_roundtrip ue ul hue hul, and_self]

/-- … so on the reloaded object fractional ↔ Cartesian are mutual inverses with respect to the NEW shift vectors
    and box (one or many positions), whatever was loaded and queried before. -/
theorem gamma_reload_conversions (o : GObj K) (ops : List (GOp K)) (r : GsfRecord K)
    (h : V3.cross (cartOf r.a1vect r.box) (cartOf r.a2vect r.box) ≠ v3zero) :
    let o' := o.run (ops ++ [.set r])
    (∀ a : K × K, o'.posToA12? (o'.a12ToPos a) = some a) ∧
    (∀ l : List (K × K), (l.map o'.a12ToPos).mapM o'.posToA12? = some l) ∧
    (∀ a : K × K, o'.a12ToPos a = a12ToPos (cartOf r.a1vect r.box) (cartOf r.a2vect r.box) a) := by
  have e : o.run (ops ++ [.set r]) = ⟨r⟩ := by
    simp only [GObj.run, List.foldl_append, List.foldl_cons, List.foldl_nil, GObj.apply]
  simp only [e]
  refine ⟨fun a => ?_, fun l => ?_, fun a => rfl⟩
  · exact (a12_pos_inverse _ _ h).1 a
  · exact (a12_pos_inverse_many _ _ h).1 l

/-- 4-index (Miller-Bravais) shift vectors `[u v t w]` with `u + v + t = 0` are accepted by `set()` and stand for
    `u a₁ + v a₂ + t a₃ + w c` with `a₃ = -(a₁ + a₂)`, for ANY cell rows `a₁, a₂, c`. -/
theorem vec4to3_spec (u v t w : K) (B : M3 K) (h : u + v + t = 0) :
    ∃ r, vec4to3? u v t w = some r ∧
      cartOf r B = V3.smul u B.r0 + V3.smul v B.r1 + V3.smul t (-(B.r0 + B.r1)) + V3.smul w B.r2 := by
  have ht : t = -(u + v) := by linear_combination h
  refine ⟨⟨two * u + v, two * v + u, w⟩, ?_, ?_⟩
  · unfold vec4to3?
    have : absK (u + v + t) ≤ tolA := by
      rw [h, absK_eq, abs_zero]; unfold tolA; positivity
    rw [if_pos this]
  · subst ht
    simp only [cartOf, M3.vecMul, V3.smul, two]
    ext <;> simp only [add_x, add_y, add_z, neg_x, neg_y, neg_z] <;> push_cast <;> ring

/-! ## SDVPN energies -/

/-- the elastic term is a **symmetric quadratic form of the dislocation density**: `Q ρ = B ρ ρ` with `B`
    symmetric (for a symmetric energy-coefficient tensor) and linear in its first (hence each) argument —
    for every `log`, `π`, `Δx`. -/
theorem elastic_symmetric_quadratic (lg : K → K) (pi dx : K) (Kt : M3 K) (hK : Kt.transpose = Kt) (n : Nat) :
    (∀ ρ : List (V3 K), elasticOfDensity lg pi dx Kt ρ
        = elasticB lg pi dx Kt ρ.length (fun i => ρ.getD i v3zero) (fun i => ρ.getD i v3zero)) ∧
    (∀ ρ σ : Nat → V3 K, elasticB lg pi dx Kt n ρ σ = elasticB lg pi dx Kt n σ ρ) ∧
    (∀ ρ ρ' σ : Nat → V3 K, elasticB lg pi dx Kt n (fun i => ρ i + ρ' i) σ
        = elasticB lg pi dx Kt n ρ σ + elasticB lg pi dx Kt n ρ' σ) ∧
    (∀ (c : K) (ρ σ : Nat → V3 K), elasticB lg pi dx Kt n (fun i => V3.smul c (ρ i)) σ
        = c * elasticB lg pi dx Kt n ρ σ) :=
  ⟨fun _ => rfl, elasticB_symm lg pi dx Kt hK n, elasticB_add_left lg pi dx Kt n, elasticB_smul_left lg pi dx Kt n⟩

/-- polarisation: `Q(ρ + σ) = Q ρ + Q σ + 2 B(ρ, σ)`. -/
theorem elastic_polarization (lg : K → K) (pi dx : K) (Kt : M3 K) (hK : Kt.transpose = Kt) (n : Nat) (ρ σ : Nat → V3 K) :
    elasticB lg pi dx Kt n (fun i => ρ i + σ i) (fun i => ρ i + σ i)
      = elasticB lg pi dx Kt n ρ ρ + elasticB lg pi dx Kt n σ σ + 2 * elasticB lg pi dx Kt n ρ σ := by
  rw [elasticB_add_left, elasticB_symm lg pi dx Kt hK n ρ, elasticB_symm lg pi dx Kt hK n σ,
    elasticB_add_left, elasticB_add_left, elasticB_symm lg pi dx Kt hK n σ ρ]
  ring

/-- scaling the density by `c` scales the elastic energy by `c²` (list level, as computed by the code). -/
theorem elastic_scaling (lg : K → K) (pi dx : K) (Kt : M3 K) (hK : Kt.transpose = Kt) (c : K) (ρ : List (V3 K)) :
    elasticOfDensity lg pi dx Kt (ρ.map (V3.smul c)) = c * c * elasticOfDensity lg pi dx Kt ρ := by
  unfold elasticOfDensity
  have hz : (v3zero : V3 K) = V3.smul c v3zero := by simp [v3zero, V3.smul]
  have hg : ∀ i, (ρ.map (V3.smul c)).getD i v3zero = V3.smul c (ρ.getD i v3zero) := by
    intro i
    conv_lhs => rw [hz]
    simp only [List.getD_eq_getElem?_getD, List.getElem?_map]
    cases ρ[i]? <;> simp
  simp only [hg, List.length_map]
  rw [elasticB_smul_left, elasticB_symm lg pi dx Kt hK, elasticB_smul_left]
  ring

/-- the dislocation density is a difference quotient of the disregistry, so a rigid shift of the
    disregistry leaves the elastic term unchanged (either finite-difference option). -/
theorem density_shift_invariant (cdiff : Bool) (x : List K) (d : List (V3 K)) (c : V3 K) :
    disldensity cdiff x (d.map (· + c)) = disldensity cdiff x d := by
  unfold disldensity
  simp only [← List.map_drop, List.zipWith_map]
  congr 2
  funext a b
  ext <;> simp only [sub_x, sub_y, sub_z, add_x, add_y, add_z] <;> ring

theorem elastic_shift_invariant (lg : K → K) (pi : K) (Kt : M3 K) (cdiff : Bool) (x : List K) (d : List (V3 K))
    (c : V3 K) : elasticEnergy lg pi Kt cdiff x (d.map (· + c)) = elasticEnergy lg pi Kt cdiff x d := by
  unfold elasticEnergy
  rw [density_shift_invariant]

/-- the energy-coefficient tensor stays symmetric in the `[m, n, ξ]` frame (for ANY `M`), so the hypothesis of
    `elastic_symmetric_quadratic` is met by the object's tensor whenever the Volterra solution's is symmetric;
    and the long-range quadratic form is frame independent for an orthogonal `M` (`Mᵀ M = 1`). -/
theorem frameK_symmetric (M Kv : M3 K) (hK : Kv.transpose = Kv) :
    (frameK M Kv).transpose = frameK M Kv ∧
    (M3.mul M.transpose M = ⟨⟨1, 0, 0⟩, ⟨0, 1, 0⟩, ⟨0, 0, 1⟩⟩ → ∀ b : V3 K, kform (frameK M Kv) (frameB M b) (frameB M b) = kform Kv b b) := by
  obtain ⟨⟨k00, k01, k02⟩, ⟨k10, k11, k12⟩, ⟨k20, k21, k22⟩⟩ := Kv
  obtain ⟨⟨m00, m01, m02⟩, ⟨m10, m11, m12⟩, ⟨m20, m21, m22⟩⟩ := M
  simp only [M3.transpose, M3.mk.injEq, V3.mk.injEq] at hK
  obtain ⟨⟨-, h10, h20⟩, ⟨-, -, h21⟩, -⟩ := hK
  have e10 : k01 = k10 := h10.symm
  have e20 : k02 = k20 := h20.symm
  have e21 : k12 = k21 := h21.symm
  subst e10 e20 e21
  constructor
  · apply M3.ext <;> apply V3.ext <;> simp only [frameK, M3.mul, M3.transpose, M3.vecMul] <;> ring
  · intro hM b
    obtain ⟨b0, b1, b2⟩ := b
    simp only [M3.mul, M3.transpose, M3.vecMul, M3.mk.injEq, V3.mk.injEq] at hM
    obtain ⟨⟨e00, e01, e02⟩, ⟨e10, e11, e12⟩, ⟨e20, e21, e22⟩⟩ := hM
    simp only [kform, frameK, frameB, M3.mul, M3.transpose, M3.vecMul, M3.mulVec, V3.dot]
    -- (M b)·(M K Mᵀ)·(M b) = (Mᵀ M b)·K·(Mᵀ M b)
    have c0 : m00 * (m00 * b0 + m01 * b1 + m02 * b2) + m10 * (m10 * b0 + m11 * b1 + m12 * b2)
        + m20 * (m20 * b0 + m21 * b1 + m22 * b2) = b0 := by linear_combination b0 * e00 + b1 * e01 + b2 * e02
    have c1 : m01 * (m00 * b0 + m01 * b1 + m02 * b2) + m11 * (m10 * b0 + m11 * b1 + m12 * b2)
        + m21 * (m20 * b0 + m21 * b1 + m22 * b2) = b1 := by linear_combination b0 * e10 + b1 * e11 + b2 * e12
    have c2 : m02 * (m00 * b0 + m01 * b1 + m02 * b2) + m12 * (m10 * b0 + m11 * b1 + m12 * b2)
        + m22 * (m20 * b0 + m21 * b1 + m22 * b2) = b2 := by linear_combination b0 * e20 + b1 * e21 + b2 * e22
    set u0 := m00 * b0 + m01 * b1 + m02 * b2
    set u1 := m10 * b0 + m11 * b1 + m12 * b2
    set u2 := m20 * b0 + m21 * b1 + m22 * b2
    have key : ∀ x0 x1 x2 : K, x0 = b0 → x1 = b1 → x2 = b2 →
        (x0 * k00 + x1 * k01 + x2 * k02) * x0 + (x0 * k01 + x1 * k11 + x2 * k12) * x1
          + (x0 * k02 + x1 * k12 + x2 * k22) * x2
        = (b0 * k00 + b1 * k01 + b2 * k02) * b0 + (b0 * k01 + b1 * k11 + b2 * k12) * b1
          + (b0 * k02 + b1 * k12 + b2 * k22) * b2 := by
      intro x0 x1 x2 h0 h1 h2; rw [h0, h1, h2]
    rw [← key _ _ _ c0 c1 c2]
    ring

/-- `total_energy` is the sum of the six documented terms. -/
theorem total_is_sum (lg : K → K) (gam : V3 K → K) (s : Settings K) (x : List K) (d : List (V3 K)) :
    totalEnergy lg gam s x d =
      misfitEnergy gam s.T x d + elasticEnergy lg s.pi s.Kt s.cdiffelastic x d
        + longrangeEnergy s.pi s.logL s.Kt s.burgers + stressEnergy s.fullstress s.cdiffstress s.τ1 x d
        + nonlocalEnergy s.αs x d + surfaceEnergy s.cdiffsurface s.β x d := rfl

/-- … and the total is the sum of the list of the six terms of the object. -/
theorem total_is_sum_of_terms (lg : K → K) (gam : V3 K → K) (s : Settings K) (x : List K) (d : List (V3 K)) :
    totalEnergy lg gam s x d = lsum (termsOf lg gam s x d) := by
  simp only [totalEnergy, termsOf, lsum]; ring

/-! ## the object under edits: the energies read the CURRENT state, nothing else -/

/-- the six terms of an object are a function of its current settings: two objects with the same settings give
    the same terms whatever their histories (a memoised term violates this in the implementation; the tie runs
    edit sequences on one real object against `Obj.run`). -/
theorem energy_state_only (lg : K → K) (gam : V3 K → K) (o₁ o₂ : Obj K) (h : o₁.s = o₂.s) (x : List K) (d : List (V3 K)) :
    o₁.terms lg gam x d = o₂.terms lg gam x d ∧ o₁.total lg gam x d = o₂.total lg gam x d := by
  simp only [Obj.terms, Obj.total, h, and_self]

/-- last write wins: after any history, setting the cut-off (setter, or `solve(cutofflongrange=…)`) makes the
    long-range term `(b·K·b) ln(L_new) / (2π)` with the object's `K`, `b`, `π`, which the edit does not touch. -/
theorem longrange_after_edit (o : Obj K) (ops : List (Op K)) (l : K) (kw : SolveKw K) (res : List K) :
    let o' := o.run ops
    (longrangeEnergy (o'.apply (.setLogL l)).s.pi (o'.apply (.setLogL l)).s.logL (o'.apply (.setLogL l)).s.Kt
        (o'.apply (.setLogL l)).s.burgers = longrangeEnergy o'.s.pi l o'.s.Kt o'.s.burgers) ∧
    (longrangeEnergy (o'.apply (.solve { kw with logL := some l } res)).s.pi
        (o'.apply (.solve { kw with logL := some l } res)).s.logL (o'.apply (.solve { kw with logL := some l } res)).s.Kt
        (o'.apply (.solve { kw with logL := some l } res)).s.burgers = longrangeEnergy o'.s.pi l o'.s.Kt o'.s.burgers) :=
  ⟨rfl, rfl⟩

/-- frame: each setter changes its own field only; `load` replaces the whole state. -/
theorem setters_frame (o o' : Obj K) (t : V3 K) (a : List K) (b : M3 K) (l : K) (f : Bool) :
    (o.apply (.setTau t)).s = { o.s with τ1 := t } ∧ (o.apply (.setAlpha a)).s = { o.s with αs := a } ∧
    (o.apply (.setBeta b)).s = { o.s with β := b } ∧ (o.apply (.setLogL l)).s = { o.s with logL := l } ∧
    (o.apply (.setFull f)).s = { o.s with fullstress := f } ∧ (o.apply (.setCdE f)).s = { o.s with cdiffelastic := f } ∧
    (o.apply (.setCdS f)).s = { o.s with cdiffsurface := f } ∧ (o.apply (.setCdT f)).s = { o.s with cdiffstress := f } ∧
    (o.apply (.setTau t)).x = o.x ∧ (o.apply (.setTau t)).d = o.d ∧ o.apply (.load o') = o' :=
  ⟨rfl, rfl, rfl, rfl, rfl, rfl, rfl, rfl, rfl, rfl, rfl⟩

/-- **optional arguments**: each of the seven methods `misfit/elastic/longrange/stress/nonlocal/surface/total_energy(x=None,
    disregistry=None)` evaluates its formula on the given argument where one is given and on the stored value where
    not — EACH ARGUMENT ON ITS OWN (a one-sided override is not discarded). -/
theorem term_optional_args (lg : K → K) (gam : V3 K → K) (o : Obj K) (t : Term) (x : List K) (d : List (V3 K)) :
    o.call lg gam t none none = termValue lg gam o.s t o.x o.d ∧
    o.call lg gam t (some x) none = termValue lg gam o.s t x o.d ∧
    o.call lg gam t none (some d) = termValue lg gam o.s t o.x d ∧
    o.call lg gam t (some x) (some d) = termValue lg gam o.s t x d := ⟨rfl, rfl, rfl, rfl⟩

/-- … and for every subset of the optional arguments the total is the sum of the six term calls with the SAME arguments. -/
theorem total_call_is_sum (lg : K → K) (gam : V3 K → K) (o : Obj K) (xo : Option (List K)) (dO : Option (List (V3 K))) :
    o.call lg gam .total xo dO =
      o.call lg gam .misfit xo dO + o.call lg gam .elastic xo dO + o.call lg gam .longrange xo dO
        + o.call lg gam .stress xo dO + o.call lg gam .nonlocal xo dO + o.call lg gam .surface xo dO := rfl

/-- `disldensity(x=None, disregistry=None, cdiff)`: the same fallback; the returned coordinates are `x[1:]`
    (neighbour difference) or `x[1:-1]` (central difference) of the EFFECTIVE grid, one per density row when the grid
    and the profile have the same length. -/
theorem density_optional_args (o : Obj K) (x : List K) (d : List (V3 K)) (cdiff : Bool) :
    o.density none none cdiff = (densityX cdiff o.x, disldensity cdiff o.x o.d) ∧
    o.density (some x) none cdiff = (densityX cdiff x, disldensity cdiff x o.d) ∧
    o.density none (some d) cdiff = (densityX cdiff o.x, disldensity cdiff o.x d) ∧
    o.density (some x) (some d) cdiff = (densityX cdiff x, disldensity cdiff x d) ∧
    (x.length = d.length → (densityX cdiff x).length = (disldensity cdiff x d).length) := by
  refine ⟨rfl, rfl, rfl, rfl, fun hl => ?_⟩
  cases cdiff <;>
    simp only [densityX, disldensity, List.length_zipWith, List.length_drop, List.length_dropLast, hl,
      Bool.false_eq_true, if_false, if_true] <;> omega

/-- the profile setters `obj.x = …`, `obj.disregistry = …` change the stored profile only. -/
theorem profile_setters_frame (o : Obj K) (x : List K) (d : List (V3 K)) :
    (o.apply (.setX x)).s = o.s ∧ (o.apply (.setX x)).x = x ∧ (o.apply (.setX x)).d = o.d ∧
    (o.apply (.setD d)).s = o.s ∧ (o.apply (.setD d)).x = o.x ∧ (o.apply (.setD d)).d = d :=
  ⟨rfl, rfl, rfl, rfl, rfl, rfl⟩

/-! ## solve -/

/-- **solve leaves the two end disregistries fixed — for every output of the optimiser** (any list `res`,
    any length): the stored profile starts with the first row and ends with the last row of the guess. -/
theorem solve_ends_fixed (res : List K) (d : List (V3 K)) (hd : d ≠ []) :
    (solveResult res d).head? = d.head? ∧ (solveResult res d).getLast? = d.getLast? := by
  unfold solveResult
  rw [recompose_head, recompose_last]
  cases d with
  | nil => exact absurd rfl hd
  | cons a l =>
    refine ⟨by simp, ?_⟩
    rw [List.getLastD_eq_getLast?, ]
    cases h : (a :: l).getLast? with
    | none => simp at h
    | some v => simp

/-- … the interior rows get the two halves of the optimiser output as x and z, with y = 0. -/
theorem solve_interior (res : List K) (d : List (V3 K)) :
    (solveResult res d).length = res.length / 2 + 2 ∧
    ∀ v ∈ ((solveResult res d).drop 1).dropLast, v.y = 0 :=
  ⟨recompose_length _ _ _, recompose_interior_y _ _ _⟩

/-- `recompose ∘ decompose` is the identity on profiles with zero interior y (so the optimiser starts
    exactly from the guess, and only interior x and z components are free). -/
theorem recompose_decompose (first last : V3 K) (inner : List (V3 K)) (hy : ∀ v ∈ inner, v.y = 0) :
    recompose (decompose (first :: inner ++ [last])) first last = first :: inner ++ [last] := by
  have hin : ((first :: inner ++ [last]).drop 1).dropLast = inner := by
    simp [List.dropLast_concat]
  unfold decompose
  simp only [hin]
  unfold recompose
  have hl : (inner.map (·.x) ++ inner.map (·.z)).length / 2 = inner.length := by
    simp only [List.length_append, List.length_map]; omega
  simp only [hl]
  have ht : (inner.map (·.x) ++ inner.map (·.z)).take inner.length = inner.map (·.x) := by
    rw [List.take_left' (by simp)]
  have hdp : (inner.map (·.x) ++ inner.map (·.z)).drop inner.length = inner.map (·.z) := by
    rw [List.drop_left' (by simp)]
  rw [ht, hdp, List.zipWith_map, List.zipWith_self]
  have : inner.map (fun a => (⟨a.x, 0, a.z⟩ : V3 K)) = inner := by
    conv_rhs => rw [← List.map_id inner]
    apply List.map_congr_left
    intro v hv
    have := hy v hv
    ext <;> simp [this]
  rw [this]


/-- `solve(**kwargs)` = the given keywords applied as setters (absent ones keep the current value), then the
    optimiser output embedded between the end rows of the (possibly new) guess; the stress term afterwards reads
    `fullstress`, `cdiffstress`, `tau` of the NEW state and none of the other finite-difference flags. -/
theorem solve_kwargs (o : Obj K) (kw : SolveKw K) (res : List K) :
    (o.apply (.solve kw res)).s = (o.applyKw kw).s ∧
    (o.apply (.solve kw res)).x = kw.x.getD o.x ∧
    (o.apply (.solve kw res)).d = solveResult res (kw.d.getD o.d) ∧
    (kw.d.getD o.d ≠ [] → (o.apply (.solve kw res)).d.head? = (kw.d.getD o.d).head? ∧
        (o.apply (.solve kw res)).d.getLast? = (kw.d.getD o.d).getLast?) ∧
    (o.applyKw { cdiffstress := kw.cdiffstress }).s.cdiffelastic = o.s.cdiffelastic ∧
    (o.applyKw { cdiffelastic := kw.cdiffelastic }).s.cdiffstress = o.s.cdiffstress := by
  refine ⟨rfl, rfl, rfl, fun hd => ?_, rfl, rfl⟩
  exact solve_ends_fixed res (kw.d.getD o.d) hd

/-! ## counts: one call with many points; the stress array -/

theorem EMany_length (fl : K → Int) (f : K → K → K) (c1 c2 : K) (qs : List (K × K)) :
    (EMany fl f c1 c2 qs).length = qs.length := by
  simp [EMany]

/-- one call with n points is, point by point, the n single-point calls -- for EVERY n (1, 2049, 65537 …). -/
theorem EMany_pointwise (fl : K → Int) (f : K → K → K) (c1 c2 : K) (qs : List (K × K)) (i : Nat) :
    (EMany fl f c1 c2 qs)[i]? = (qs[i]?).map (fun q => E fl f c1 c2 q.1 q.2) := by
  simp [EMany]

/-- evaluating the points in consecutive blocks (of any sizes) and joining the answers is the one call, provided the blocks
    cover the query: nothing may be left over after the last full block. -/
theorem EMany_blocks (fl : K → Int) (f : K → K → K) (c1 c2 : K) (blocks : List (List (K × K))) :
    EMany fl f c1 c2 blocks.flatten = (blocks.map (EMany fl f c1 c2)).flatten := by
  unfold EMany
  rw [List.map_flatten]

theorem EMany_single (fl : K → Int) (f : K → K → K) (c1 c2 a1 a2 : K) :
    EMany fl f c1 c2 [(a1, a2)] = [E fl f c1 c2 a1 a2] := rfl

/-- only the second row of the stress array enters the stress term, for both expressions and both difference quotients. -/
theorem stress_second_row_only (full cdiff : Bool) (τ τ' : M3 K) (h : τ.r1 = τ'.r1) (x : List K) (d : List (V3 K)) :
    stressEnergyT full cdiff τ x d = stressEnergyT full cdiff τ' x d := by
  simp only [stressEnergyT, h]

/-- for a SYMMETRIC stress array row and column agree -- which is why only non-symmetric arrays tell the second row from the
    second column. -/
theorem stress_symmetric_row_eq_col (full cdiff : Bool) (τ : M3 K) (h : τ.transpose = τ) (x : List K) (d : List (V3 K)) :
    stressEnergyT full cdiff τ.transpose x d = stressEnergyT full cdiff τ x d := by
  rw [h]


/-! ## the clauses stated about the SOURCE's own definitions

`Gen.gen_*` (`Atomman/Generated/PNEnergy.lean`) is regenerated with `ast` from `SDVPN.py` / `GammaSurface.py` on every run;
`Proofs/C18_Gen.lean` proves each equal to the hand model.  The theorems below restate the property's clauses directly about the
generated definitions, so they are re-checked against what the source says now. -/

/-- *The total energy is the sum of its documented terms, each equal to its formula*: `total_energy` of the source is the sum
    of the six term methods of the source (in the source's order), and each of those is the model's formula — misfit sum,
    elastic double sum with the χ/ψ kernel, long-range logarithm, both stress expressions reading the second row of `tau`,
    the nonlocal sum over any number of `α_m`, the surface contraction — for every profile, grid, setting and flag. -/
theorem source_total_is_sum_of_formulas (lg : K → K) (gam : V3 K → K) (s : Settings K) (τ : M3 K) (x : List K) (d : List (V3 K)) :
    Gen.gen_total_energy lg gam s τ x d
      = Gen.gen_misfit_energy gam s.T x d + Gen.gen_elastic_energy lg s.pi s.Kt s.cdiffelastic x d
        + Gen.gen_longrange_energy s.pi s.logL s.Kt s.burgers + Gen.gen_stress_energy s.fullstress s.cdiffstress τ x d
        + Gen.gen_nonlocal_energy s.αs x d + Gen.gen_surface_energy s.cdiffsurface s.β x d ∧
    Gen.gen_misfit_energy gam s.T x d = misfitEnergy gam s.T x d ∧
    Gen.gen_elastic_energy lg s.pi s.Kt s.cdiffelastic x d = elasticEnergy lg s.pi s.Kt s.cdiffelastic x d ∧
    Gen.gen_longrange_energy s.pi s.logL s.Kt s.burgers = longrangeEnergy s.pi s.logL s.Kt s.burgers ∧
    Gen.gen_stress_energy s.fullstress s.cdiffstress τ x d = stressEnergy s.fullstress s.cdiffstress τ.r1 x d ∧
    Gen.gen_nonlocal_energy s.αs x d = nonlocalEnergy s.αs x d ∧
    Gen.gen_surface_energy s.cdiffsurface s.β x d = surfaceEnergy s.cdiffsurface s.β x d :=
  ⟨rfl, gen_misfit_eq_model .., gen_elastic_eq_model .., gen_longrange_eq_model .., gen_stress_eq_model .., gen_nonlocal_eq_model ..,
    gen_surface_eq_model ..⟩

/-- *… the elastic term being a symmetric quadratic form of the dislocation density*: the source's elastic term IS the
    symmetric bilinear form `elasticB` on the diagonal, evaluated at the source's own density. -/
theorem source_elastic_quadratic (lg : K → K) (pi : K) (Kt : M3 K) (hK : Kt.transpose = Kt) (cd : Bool) (x : List K) (d : List (V3 K)) :
    let ρ := (Gen.gen_disldensity cd x d).2
    Gen.gen_elastic_energy lg pi Kt cd x d
        = elasticB lg pi (gridStep x) Kt ρ.length (fun i => ρ.getD i v3zero) (fun i => ρ.getD i v3zero) ∧
      ∀ n (ρ σ : Nat → V3 K), elasticB lg pi (gridStep x) Kt n ρ σ = elasticB lg pi (gridStep x) Kt n σ ρ := by
  refine ⟨?_, fun n => elasticB_symm lg pi (gridStep x) Kt hK n⟩
  rw [gen_elastic_eq_model, gen_disldensity_eq_model]
  rfl

/-- *… unchanged by a rigid shift of the disregistry*: for the source's density and the source's elastic term. -/
theorem source_shift_invariant (lg : K → K) (pi : K) (Kt : M3 K) (cd : Bool) (x : List K) (d : List (V3 K)) (c : V3 K) :
    Gen.gen_disldensity cd x (d.map (· + c)) = Gen.gen_disldensity cd x d ∧
    Gen.gen_elastic_energy lg pi Kt cd x (d.map (· + c)) = Gen.gen_elastic_energy lg pi Kt cd x d := by
  simp only [gen_disldensity_eq_model, gen_elastic_eq_model, density_shift_invariant, elastic_shift_invariant, and_self]

/-- each of the seven methods with the arguments resolved by the SOURCE's default block (`gen_args`), term by term from the source:
    the value of the model's `Obj.call` for every subset of `(x, disregistry)` (stress row `tau[1, :]`). -/
theorem source_call (lg : K → K) (gam : V3 K → K) (o : Obj K) (τ : M3 K) (hτ : o.s.τ1 = τ.r1) (xo : Option (List K))
    (dO : Option (List (V3 K))) :
    let a := Gen.gen_args o.x o.d xo dO
    Gen.gen_total_energy lg gam o.s τ a.1 a.2 = o.call lg gam .total xo dO ∧
    Gen.gen_misfit_energy gam o.s.T a.1 a.2 = o.call lg gam .misfit xo dO ∧
    Gen.gen_elastic_energy lg o.s.pi o.s.Kt o.s.cdiffelastic a.1 a.2 = o.call lg gam .elastic xo dO ∧
    Gen.gen_stress_energy o.s.fullstress o.s.cdiffstress τ a.1 a.2 = o.call lg gam .stress xo dO ∧
    Gen.gen_nonlocal_energy o.s.αs a.1 a.2 = o.call lg gam .nonlocal xo dO ∧
    Gen.gen_surface_energy o.s.cdiffsurface o.s.β a.1 a.2 = o.call lg gam .surface xo dO ∧
    Gen.gen_disldensity o.s.cdiffelastic a.1 a.2 = o.density xo dO o.s.cdiffelastic := by
  simp only [gen_args_eq_model, gen_total_eq_model lg gam o.s τ hτ, gen_misfit_eq_model, gen_elastic_eq_model, gen_stress_eq_model,
    gen_nonlocal_eq_model, gen_surface_eq_model, gen_disldensity_eq_model, stressEnergyT, ← hτ]
  exact ⟨rfl, rfl, rfl, rfl, rfl, rfl, rfl⟩

/-- *solving leaves the two end disregistries fixed*, from the source's `decompose`: the `first` / `last` rows it hands to
    `recompose` are the end rows of the guess, and they are the end rows of what `solve` stores, for every optimiser output. -/
theorem source_solve_ends (res : List K) (d : List (V3 K)) (hd : d ≠ []) :
    (solveResult res d) = recompose res (Gen.gen_decompose d).2.1 (Gen.gen_decompose d).2.2 ∧
    (Gen.gen_decompose d).1 = decompose d ∧
    (solveResult res d).head? = d.head? ∧ (solveResult res d).getLast? = d.getLast? := by
  rw [gen_decompose_eq_model]
  exact ⟨rfl, rfl, solve_ends_fixed res d hd⟩

section
variable [FloorRing K]
/-- *periodic in both shift vectors*, with the wrap the SOURCE performs (`wrap_cushion`, one element): the blended value at the
    source's wrapped coordinates is unchanged by integer periods, for every interpolant and cushion. -/
theorem source_wrap_periodic (f : K → K → K) (c1 c2 a1 a2 : K) (n1 n2 : Int) :
    evalE f c1 c2 (Gen.gen_wrap_cushion Int.floor (a1 + n1) c1) (Gen.gen_wrap_cushion Int.floor (a2 + n2) c2)
      = evalE f c1 c2 (Gen.gen_wrap_cushion Int.floor a1 c1) (Gen.gen_wrap_cushion Int.floor a2 c2) := by
  simp only [gen_wrap_cushion_eq_model, wrap_add_int]
end

/-- *those conversions are mutual inverses*, with the source's `a12_to_pos`: `pos_to_a12` of the model undoes it and the
    out-of-plane assertion passes, for any box and any crystal vectors whose Cartesian images are not parallel. -/
theorem source_a12_pos_inverse (B : M3 K) (v1 v2 : V3 K) (h : V3.cross (cartOf v1 B) (cartOf v2 B) ≠ v3zero) (a1 a2 : K) :
    posToA12? (cartOf v1 B) (cartOf v2 B) (Gen.gen_a12_to_pos B v1 v2 a1 a2) = some (a1, a2) := by
  rw [gen_a12_to_pos_eq_model]
  exact (a12_pos_inverse (cartOf v1 B) (cartOf v2 B) h).1 (a1, a2)

/-- … with BOTH directions as the source writes them: the source's `pos_to_a12` (solve in the basis `[A1, A2, c/|c|^½]`, tolerance
    `1e-6 max(1, |a1|, |a2|)`) applied to the source's `a12_to_pos` returns the fractional coordinates and never raises, in any
    box, for any non-parallel shift vectors; `rn` is any positive number with `rn⁴ = |A1 × A2|²` (what `norm ** 0.5` computes). -/
theorem source_conversions_inverse (rn : K) (B : M3 K) (v1 v2 : V3 K) (hrn : 0 < rn)
    (h4 : (rn * rn) * (rn * rn) = V3.dot (V3.cross (cartOf v1 B) (cartOf v2 B)) (V3.cross (cartOf v1 B) (cartOf v2 B)))
    (h : V3.cross (cartOf v1 B) (cartOf v2 B) ≠ v3zero) (a1 a2 : K) :
    Gen.gen_pos_to_a12 rn B v1 v2 (Gen.gen_a12_to_pos B v1 v2 a1 a2) = some (a1, a2) := by
  rw [gen_pos_to_a12_eq_model rn B v1 v2 _ hrn h4 h]
  exact source_a12_pos_inverse B v1 v2 h a1 a2


section
variable [FloorRing K]
/-- the value `E_gsf` / `delta` compute at the source's own wrapped coordinates IS the model's `E` / `deltaEval`: every theorem about
    `E` (periodicity, interpolation, scaling, many points) is a theorem about the source's wrap followed by the blend. -/
theorem source_E_eq_model (f : K → K → K) (c1 c2 a1 a2 : K) :
    evalE f c1 c2 (Gen.gen_wrap_cushion Int.floor a1 c1) (Gen.gen_wrap_cushion Int.floor a2 c2) = E Int.floor f c1 c2 a1 a2 ∧
    f (Gen.gen_wrap_unit Int.floor Int.ceil a1) (Gen.gen_wrap_unit Int.floor Int.ceil a2) = deltaEval Int.floor Int.ceil f a1 a2 := by
  simp only [gen_wrap_cushion_eq_model, gen_wrap_unit_eq_model, E, deltaEval, and_self]
end

/-! ## refusals: which profiles the setters and `solve` refuse, and what is stored then -/

section refusalThms

/-- the uniform grid `x0, x0 + h, …` with `n` points. -/
def uniformGrid (x0 h : K) (n : Nat) : List K := (List.range n).map (fun (i : Nat) => x0 + (i : K) * h)

theorem xDiffs_uniform (x0 h : K) (n : Nat) : xDiffs (uniformGrid x0 h (n + 1)) = List.replicate n h := by
  unfold xDiffs uniformGrid
  apply List.ext_getElem
  · simp
  · intro i h1 h2
    simp only [List.getElem_zipWith, List.getElem_drop, List.getElem_map, List.getElem_range, List.getElem_replicate]
    push_cast; ring

/-- **never a spurious refusal**: every exactly uniform increasing grid with at least two points is accepted by the `x` setter,
    whatever the origin, the spacing (`h > 0`: SI metres or 2^200) and the number of points. -/
theorem xSetter_accepts_uniform (x0 h : K) (hh : 0 < h) (n : Nat) : xSetter? (uniformGrid x0 h (n + 2)) = none := by
  unfold xSetter?
  rw [xDiffs_uniform, List.replicate_succ]
  simp only [List.all_cons, List.all_replicate, sub_self, absK_eq, abs_zero]
  have : (0 : K) ≤ tolR * |h| := mul_nonneg (le_of_lt tolR_pos) (abs_nonneg h)
  simp [this, hh]

/-- what acceptance means, exactly: at least two points, first step positive, every step within `1e-5` (relative) of the first. -/
theorem xSetter_accepts_iff (x : List K) :
    xSetter? x = none ↔ ∃ d0 ds, xDiffs x = d0 :: ds ∧ 0 < d0 ∧ ∀ t ∈ d0 :: ds, |t - d0| ≤ tolR * d0 := by
  unfold xSetter?
  cases hx : xDiffs x with
  | nil => simp
  | cons d0 ds =>
    simp only []
    constructor
    · intro h
      by_cases hc : ((d0 :: ds).all (fun t => decide (absK (t - d0) ≤ tolR * absK d0)) && decide (0 < d0)) = true
      · simp only [Bool.and_eq_true, List.all_eq_true, decide_eq_true_eq, absK_eq] at hc
        exact ⟨d0, ds, rfl, hc.2, fun t ht => by have := hc.1 t ht; rwa [abs_of_pos hc.2] at this⟩
      · rw [if_neg hc] at h; cases h
    · rintro ⟨e0, es, heq, hpos, hall⟩
      cases heq
      have hc : ((d0 :: ds).all (fun t => decide (absK (t - d0) ≤ tolR * absK d0)) && decide (0 < d0)) = true := by
        simp only [Bool.and_eq_true, List.all_eq_true, decide_eq_true_eq, absK_eq]
        refine ⟨fun t ht => ?_, hpos⟩
        rw [abs_of_pos hpos]; exact hall t ht
      rw [if_pos hc]

/-- fewer than two points: `diff[0]` raises `IndexError` (not an assertion). -/
theorem xSetter_short (x : List K) (h : x.length < 2) : xSetter? x = some .xIndex := by
  unfold xSetter? xDiffs
  match x, h with
  | [], _ => rfl
  | [a], _ => rfl

/-- a grid whose first step is not positive (decreasing, or two equal points) is refused. -/
theorem xSetter_refuses_nonincreasing (a b : K) (l : List K) (h : b ≤ a) : xSetter? (a :: b :: l) ≠ none := by
  intro hacc
  obtain ⟨d0, ds, hd, hpos, _⟩ := (xSetter_accepts_iff _).mp hacc
  simp only [xDiffs, List.drop_succ_cons, List.drop_zero, List.zipWith_cons_cons, List.cons.injEq] at hd
  linarith [hd.1]

theorem xDiffs_map_mul (s : K) (x : List K) : xDiffs (x.map (s * ·)) = (xDiffs x).map (s * ·) := by
  unfold xDiffs
  rw [← List.map_drop, List.zipWith_map, List.map_zipWith]
  congr 1; funext a b; ring

theorem xDiffs_map_add (c : K) (x : List K) : xDiffs (x.map (· + c)) = xDiffs x := by
  unfold xDiffs
  rw [← List.map_drop, List.zipWith_map]
  congr 1; funext a b; ring

/-- the `x` setter is free of the unit of length and of the origin: scaling the grid by any `s > 0` (Å → m, 2^±200) or
    translating it changes nothing about what is accepted or how it is refused. -/
theorem xSetter_scale_shift (s c : K) (hs : 0 < s) (x : List K) :
    xSetter? (x.map (s * ·)) = xSetter? x ∧ xSetter? (x.map (· + c)) = xSetter? x := by
  refine ⟨?_, by unfold xSetter?; rw [xDiffs_map_add]⟩
  unfold xSetter?
  rw [xDiffs_map_mul]
  cases xDiffs x with
  | nil => rfl
  | cons d0 ds =>
    simp only [List.map_cons, List.all_cons, List.all_map, absK_eq]
    have e : ∀ t : K, (|s * t - s * d0| ≤ tolR * |s * d0|) ↔ (|t - d0| ≤ tolR * |d0|) := by
      intro t
      rw [← mul_sub, abs_mul, abs_mul, abs_of_pos hs, mul_left_comm]
      exact mul_le_mul_iff_right₀ hs
    have e0 : (0 < s * d0) ↔ 0 < d0 := by
      constructor
      · intro h; by_contra hn; have hn := not_lt.mp hn; nlinarith
      · intro h; positivity
    have ea : ds.all ((fun t => decide (|t - s * d0| ≤ tolR * |s * d0|)) ∘ fun x => s * x)
        = ds.all (fun t => decide (|t - d0| ≤ tolR * |d0|)) := by
      congr 1; funext t; simp only [Function.comp, e]
    simp only [e, e0, ea]

theorem maxAbs3_nonneg (v : V3 K) : 0 ≤ maxAbs3 v := by
  unfold maxAbs3 maxK
  rw [absK_eq, absK_eq, absK_eq]
  split_ifs <;> exact abs_nonneg _

/-- **never a spurious refusal**: a non-empty disregistry with no out-of-plane component is accepted, at every scale. -/
theorem dSetter_accepts_planar (d : List (V3 K)) (hd : d ≠ []) (hy : ∀ v ∈ d, v.y = 0) : dSetter? d = none := by
  unfold dSetter?
  cases hm : maxOf (d.map maxAbs3) with
  | none =>
    cases d with
    | nil => exact absurd rfl hd
    | cons a l =>
      obtain ⟨m, hm'⟩ := maxOf_isSome_of_mem ((a :: l).map maxAbs3) (maxAbs3 a) (by simp)
      rw [hm] at hm'; cases hm'
  | some m =>
    have hm0 : 0 ≤ m := by
      obtain ⟨hmem, _⟩ := maxOf_spec _ _ hm
      obtain ⟨v, _, rfl⟩ := List.mem_map.mp hmem
      exact maxAbs3_nonneg v
    have : d.all (fun v => decide (absK v.y ≤ tolA * m)) = true := by
      simp only [List.all_eq_true, decide_eq_true_eq]
      intro v hv
      rw [hy v hv, absK_eq, abs_zero]
      exact mul_nonneg (le_of_lt tolA_pos) hm0
    simp [this]

/-- an empty array: `.max()` raises `ValueError`. -/
theorem dSetter_empty : dSetter? ([] : List (V3 K)) = some .dValue := rfl

/-- what `solve` stores always passes the `disregistry` setter when the end rows of the guess lie in the plane (interior `y` is
    exactly 0): the final `self.disregistry = recompose(…)` cannot raise then, for ANY optimiser output. -/
theorem solve_result_accepted (res : List K) (d : List (V3 K)) (h0 : (d.headD v3zero).y = 0) (h1 : (d.getLastD v3zero).y = 0) :
    dSetter? (solveResult res d) = none := by
  apply dSetter_accepts_planar
  · simp [solveResult, recompose]
  · intro v hv
    simp only [solveResult, recompose, List.cons_append, List.mem_cons, List.mem_append, List.mem_singleton] at hv
    rcases hv with rfl | hv | hv
    · exact h0
    · obtain ⟨i, hi, rfl⟩ := List.mem_iff_getElem.mp hv
      simp
    · rcases hv with rfl | hv
      · exact h1
      · cases hv

/-- `solve(**kwargs)` with its refusals, stage by stage: (1) accepted ⇒ exactly the unguarded model `Obj.apply (.solve kw res)`;
    (2) `x` refused ⇒ nothing changed; (3) `disregistry` refused ⇒ ONLY the new `x` is stored; (4) lengths differ ⇒ every keyword
    is stored, the profile is not touched by the minimiser. -/
theorem solve_refusal_stages (o : Obj K) (kw : SolveKw K) (res : List K) :
    ((o.solve? kw res).2 = none → (o.solve? kw res).1 = o.apply (.solve kw res)) ∧
    (∀ r, kw.x.bind xSetter? = some r → o.solve? kw res = (o, some r)) ∧
    (∀ r, kw.x.bind xSetter? = none → kw.d.bind dSetter? = some r →
        o.solve? kw res = ({ o with x := kw.x.getD o.x }, some r)) ∧
    (kw.x.bind xSetter? = none → kw.d.bind dSetter? = none → (o.applyKw kw).x.length ≠ (o.applyKw kw).d.length →
        o.solve? kw res = (o.applyKw kw, some .lengths)) := by
  refine ⟨?_, ?_, ?_, ?_⟩
  · unfold Obj.solve?
    cases hx : kw.x.bind xSetter? with
    | some r => simp
    | none =>
      cases hd : kw.d.bind dSetter? with
      | some r => simp
      | none =>
        simp only
        split_ifs with hl
        · simp
        · cases hf : dSetter? (solveResult res (o.applyKw kw).d) with
          | some r => simp
          | none => intro _; rfl
  · intro r hx; unfold Obj.solve?; rw [hx]
  · intro r hx hd; unfold Obj.solve?; rw [hx]; simp only; rw [hd]
  · intro hx hd hl; unfold Obj.solve?; rw [hx]; simp only; rw [hd]; simp only; rw [if_pos hl]

/-- **the model refuses exactly when …**: `solve` runs through iff the `x` keyword (if given) passes its setter, the `disregistry`
    keyword (if given) passes its setter, the effective grid and guess have the same length and the embedded result passes the
    setter; for a guess whose end rows lie in the plane the last condition always holds. -/
theorem solve_accepts_iff (o : Obj K) (kw : SolveKw K) (res : List K) :
    (o.solve? kw res).2 = none ↔
      kw.x.bind xSetter? = none ∧ kw.d.bind dSetter? = none ∧ (o.applyKw kw).x.length = (o.applyKw kw).d.length ∧
        dSetter? (solveResult res (o.applyKw kw).d) = none := by
  unfold Obj.solve?
  cases hx : kw.x.bind xSetter? with
  | some r => simp
  | none =>
    cases hd : kw.d.bind dSetter? with
    | some r => simp
    | none =>
      simp only
      split_ifs with hl
      · simp [hl]
      · cases hf : dSetter? (solveResult res (o.applyKw kw).d) with
        | some r => simp
        | none => simp [not_not.mp hl]

/-- the profile setters: accepted ⇒ the unguarded model's setter; refused ⇒ the object is unchanged. -/
theorem setters_refusal (o : Obj K) (x : List K) (d : List (V3 K)) :
    ((o.setX? x).2 = none → (o.setX? x).1 = o.apply (.setX x)) ∧ ((o.setX? x).2 ≠ none → (o.setX? x).1 = o) ∧
    ((o.setD? d).2 = none → (o.setD? d).1 = o.apply (.setD d)) ∧ ((o.setD? d).2 ≠ none → (o.setD? d).1 = o) := by
  unfold Obj.setX? Obj.setD?
  cases xSetter? x <;> cases dSetter? d <;> simp [Obj.apply]

/-- the normalised arctangent profile (`normalize=True, shift=True`) starts EXACTLY at zero disregistry, on every grid, for every
    Burgers vector, centre and half-width and whatever `arctan` returns: the end disregistry the half-width clause holds fixed. -/
theorem arctan_normalized_starts_at_zero (atan : K → K) (pi : K) (x : List K) (hx : x ≠ []) (b : V3 K) (center hw normB normLast : K) :
    (pnArctanDisregistry atan pi x b center hw true true normB normLast).headD v3zero = v3zero := by
  cases x with
  | nil => exact absurd rfl hx
  | cons a l =>
    simp only [pnArctanDisregistry, if_true, List.map_cons, List.headD_cons]
    ext <;> simp [V3.map, v3zero, sub_x, sub_y, sub_z]

/-- … and ends at a vector of length `|burgers|`: if `normLast` is the length of the raw end-to-end difference (`normLast² = |δ[-1] − δ[0]|²`,
    non-zero), the last row of the normalised profile has squared length `normB²`. -/
theorem arctan_normalized_end_length (atan : K → K) (pi : K) (x : List K) (b : V3 K) (center hw normB normLast : K) (hn : normLast ≠ 0)
    (raw : List (V3 K)) (hraw : raw = x.map (fun xi => V3.smul (atan ((xi - center) / hw)) (b.map (· / pi)) + b.map (· / two)))
    (hx : raw ≠ [])
    (hlen : V3.normSq (raw.getLastD v3zero - raw.headD v3zero) = normLast * normLast) :
    V3.normSq ((pnArctanDisregistry atan pi x b center hw true true normB normLast).getLastD v3zero) = normB * normB := by
  simp only [pnArctanDisregistry, if_true, ← hraw]
  have hne : (raw.map (· - raw.headD v3zero)).map (fun v => v.map (fun t => t * normB / normLast)) ≠ [] := by simpa using hx
  rw [List.getLastD_eq_getLast?, List.getLast?_eq_some_getLast hne, Option.getD_some, List.getLast_map, List.getLast_map]
  have h2 : raw.getLastD v3zero = raw.getLast hx := by
    rw [List.getLastD_eq_getLast?, List.getLast?_eq_some_getLast hx, Option.getD_some]
  rw [h2] at hlen
  set w := raw.getLast hx - raw.headD v3zero with hw'
  have : V3.normSq (w.map (fun t => t * normB / normLast)) = V3.normSq w * (normB * normB) / (normLast * normLast) := by
    simp only [V3.normSq, V3.dot, V3.map]; field_simp
  rw [this, hlen]; field_simp

end refusalThms

/-! ## non-vacuity: the hypotheses of `E_interpolates` are satisfiable with non-constant data -/

section nonvacuity

def exD : List (Node ℚ) := [⟨0, 0, 1⟩, ⟨0, 1/2, 2⟩, ⟨1/2, 0, 3⟩, ⟨1/2, 1/2, 4⟩, ⟨1, 0, 1⟩, ⟨1, 1/2, 2⟩]

/-- a function that reproduces the tiled data (period 1 in both arguments on the half-integer lattice). -/
def exF (a b : ℚ) : ℚ :=
  1 + (if (2 * a).num % 2 = 0 then 0 else 2) + (if (2 * b).num % 2 = 0 then 0 else 1)

example : ∃ N, fitNodes? exD = some N ∧ N.length = 25 ∧ (∀ n ∈ N, exF n.a1 n.a2 = n.e) := by
  have h : (fitNodes? exD).isSome = true := by decide +kernel
  obtain ⟨N, hN⟩ := Option.isSome_iff_exists.mp h
  refine ⟨N, hN, ?_, ?_⟩
  · have : ((fitNodes? exD).map List.length) = some 25 := by decide +kernel
    rw [hN] at this; simpa using this
  · have : ((fitNodes? exD).map (fun N => N.all (fun n => decide (exF n.a1 n.a2 = n.e)))) = some true := by
      decide +kernel
    rw [hN] at this
    simpa using this

example : ∀ s ∈ shortData exD,
    ((s.a1 = 0 ∨ (1/4 : ℚ) ≤ s.a1) ∧ s.a1 < 1 - 1/4) ∧ ((s.a2 = 0 ∨ (1/4 : ℚ) ≤ s.a2) ∧ s.a2 < 1 - 1/4) := by
  decide +kernel

/-- and the conclusion is then a computation: `E` at the sampled shift (½, 0) is the datum 3, also one
    period away. -/
example : E Int.floor exF (1/4) (1/4) (1/2 + 1) (0 - 2) = 3 := by
  have h : (fitNodes? exD).isSome = true := by decide +kernel
  obtain ⟨N, hN⟩ := Option.isSome_iff_exists.mp h
  have hf : ∀ n ∈ N, exF n.a1 n.a2 = n.e := by
    have : ((fitNodes? exD).map (fun N => N.all (fun n => decide (exF n.a1 n.a2 = n.e)))) = some true := by
      decide +kernel
    rw [hN] at this
    simpa using this
  have h := E_interpolates_edge exD N exF (1/4) (1/4) hN hf (by norm_num) (by norm_num)
    (by decide +kernel) ⟨1/2, 0, 3⟩
    (List.mem_filter.mpr ⟨by simp [exD], by decide +kernel⟩) 1 (-2)
  simpa using h

example : (⟨⟨2, 1, 1⟩, ⟨1, 3, 2⟩, ⟨1, 2, 4⟩⟩ : M3 ℚ).transpose = ⟨⟨2, 1, 1⟩, ⟨1, 3, 2⟩, ⟨1, 2, 4⟩⟩ := by decide +kernel
example : V3.cross (⟨1, 0, 0⟩ : V3 ℚ) ⟨1/2, 1, 0⟩ ≠ v3zero := by decide +kernel

/-! hexagonal cell (vects not symmetric), default axis: both directions pass the guard and invert each other; an
    alternative in-plane axis satisfies the hypothesis of `E_interchangeable`; an out-of-plane axis is refused. -/
example : xyToPosApi (K := ℚ) ⟨3, 0, 0⟩ ⟨-3/2, 13/5, 0⟩ (39/5) 3 3 1 none (1, 2) = some ⟨1, 2, 0⟩ := by decide +kernel
example : posToXYApi (K := ℚ) ⟨3, 0, 0⟩ ⟨-3/2, 13/5, 0⟩ (39/5) 3 3 1 none ⟨1, 2, 0⟩ = some (1, 2) := by decide +kernel
example : V3.dot (⟨-3/2, 13/5, 0⟩ : V3 ℚ) (planeNormal ⟨3, 0, 0⟩ ⟨-3/2, 13/5, 0⟩ (39/5)) = 0
    ∧ (⟨-3/2, 13/5, 0⟩ : V3 ℚ) ≠ v3zero := by decide +kernel
example : posToXYApi (K := ℚ) ⟨3, 0, 0⟩ ⟨-3/2, 13/5, 0⟩ (39/5) 3 3 1 (some ⟨3, 0, 1⟩) ⟨1, 2, 0⟩ = none := by decide +kernel
example : EofQuery (K := ℚ) (fun a b => a + 10 * b) ⟨3, 0, 0⟩ ⟨-3/2, 13/5, 0⟩ (39/5) 3 3 1
    (.xy (3 * (1/2) + (-3/2) * (1/4), (13/5) * (1/4)) none) = some (1/2 + 10 * (1/4)) := by decide +kernel

/-- an edit history on one object: the long-range term follows the last cut-off written. -/
example : let o : Obj ℚ := ⟨⟨⟨⟨2, 0, 0⟩, ⟨0, 3, 0⟩, ⟨0, 0, 1⟩⟩, ⟨1, 0, 2⟩, ⟨⟨1, 0, 0⟩, ⟨0, 1, 0⟩, ⟨0, 0, 1⟩⟩, ⟨0, 0, 0⟩, [0],
      ⟨⟨0, 0, 0⟩, ⟨0, 0, 0⟩, ⟨0, 0, 0⟩⟩, 7, 3, true, false, true, false⟩, [], []⟩
    let o' := o.run [.setLogL 5, .solve { logL := some 2 } [], .setCdT true]
    longrangeEnergy o'.s.pi o'.s.logL o'.s.Kt o'.s.burgers = (2 * 1 + 1 * 4) * 2 / (2 * 3) ∧ o'.s.cdiffstress = true
      ∧ o'.s.cdiffelastic = false := by decide +kernel

/-- a one-sided call on an object with a stored profile: `stress_energy(disregistry=d2)` is evaluated on the stored
    grid with `d2` — different from the stored profile's value. -/
example : let o : Obj ℚ := ⟨⟨⟨⟨2, 0, 0⟩, ⟨0, 3, 0⟩, ⟨0, 0, 1⟩⟩, ⟨1, 0, 2⟩, ⟨⟨1, 0, 0⟩, ⟨0, 1, 0⟩, ⟨0, 0, 1⟩⟩, ⟨1, 0, 0⟩, [0],
      ⟨⟨0, 0, 0⟩, ⟨0, 0, 0⟩, ⟨0, 0, 0⟩⟩, 7, 3, false, false, true, false⟩, [0, 1, 2], [⟨0, 0, 0⟩, ⟨1, 0, 0⟩, ⟨2, 0, 0⟩]⟩
    o.call (fun _ => 0) (fun _ => 0) .stress none (some [⟨0, 0, 0⟩, ⟨3, 0, 0⟩, ⟨4, 0, 0⟩]) = 5 ∧
    o.call (fun _ => 0) (fun _ => 0) .stress none none = 2 ∧
    o.call (fun _ => 0) (fun _ => 0) .stress (some [0, 2, 4]) none = 4 := by decide +kernel

/-- reload of a used object: hexagonal basal data first, then monoclinic data through a model in other units. -/
example : let r1 : GsfRecord ℚ := ⟨⟨⟨3, 0, 0⟩, ⟨-3/2, 13/5, 0⟩, ⟨0, 0, 5⟩⟩, ⟨1, 0, 0⟩, ⟨0, 1, 0⟩, [0, 1/2], [0, 0], [1, 2], none⟩
    let r2 : GsfRecord ℚ := ⟨⟨⟨3, 0, 0⟩, ⟨0, 4, 0⟩, ⟨-5/4, 0, 5⟩⟩, ⟨1, 0, 0⟩, ⟨0, 0, 1⟩, [0, 1/2], [0, 0], [1, 2], some [3, 4]⟩
    let o := (GObj.mk r1).run [.set r1, .loadModel (1/16) 10 (GObj.model (1/16) 10 ⟨r2⟩)]
    o.posToA12? (o.a12ToPos (1/4, 3)) = some (1/4, 3) ∧ o.A2 = ⟨-5/4, 0, 5⟩ ∧ o.r.delta = some [3, 4] := by decide +kernel
example : vec4to3? (2/3 : ℚ) (-1/3) (-1/3) 0 = some ⟨1, 0, 0⟩ ∧ vec4to3? (1 : ℚ) 1 1 0 = none := by decide +kernel

end nonvacuity


/-! ## round 4 (cross-cutting audit): scale-free guards, change of working units, energy scale, solve given descent,
    continuum half-width -/

theorem cross_smul (s : K) (A1 A2 : V3 K) :
    V3.cross (V3.smul s A1) (V3.smul s A2) = V3.smul (s * s) (V3.cross A1 A2) := by
  simp only [V3.cross, V3.smul]; ext <;> simp only <;> ring

theorem posToA123_scale (s : K) (hs : s ≠ 0) (A1 A2 p : V3 K) (h : V3.cross A1 A2 ≠ v3zero) :
    posToA123 (V3.smul s A1) (V3.smul s A2) (V3.smul s p)
      = ⟨(posToA123 A1 A2 p).x, (posToA123 A1 A2 p).y, (posToA123 A1 A2 p).z / s⟩ := by
  have hd := det_basis_ne A1 A2 h
  have hc : V3.cross (V3.smul s A1) (V3.smul s A2) ≠ v3zero := by
    rw [cross_smul]
    intro e
    apply h
    have hss : s * s ≠ 0 := mul_ne_zero hs hs
    generalize V3.cross A1 A2 = cv at e ⊢
    obtain ⟨x, y, z⟩ := cv
    simp only [V3.smul, v3zero, V3.mk.injEq] at e ⊢
    exact ⟨(mul_eq_zero.mp e.1).resolve_left hss, (mul_eq_zero.mp e.2.1).resolve_left hss, (mul_eq_zero.mp e.2.2).resolve_left hss⟩
  have hd' := det_basis_ne _ _ hc
  have hp := vecMul_inv_cancel' p ⟨A1, A2, V3.cross A1 A2⟩ hd
  set a := posToA123 A1 A2 p with ha
  have e : V3.smul s p = M3.vecMul ⟨a.x, a.y, a.z / s⟩ ⟨V3.smul s A1, V3.smul s A2, V3.cross (V3.smul s A1) (V3.smul s A2)⟩ := by
    rw [cross_smul, ← hp]
    simp only [posToA123] at ha
    rw [← ha]
    simp only [M3.vecMul, V3.smul]
    ext <;> simp only <;> field_simp
  rw [posToA123, e, vecMul_inv_cancel _ _ hd']

theorem inPlaneOk_scale (s : K) (hs : s ≠ 0) (A1 A2 a : V3 K) :
    inPlaneOk (V3.smul s A1) (V3.smul s A2) ⟨a.x, a.y, a.z / s⟩ = inPlaneOk A1 A2 a := by
  have e : ((a.z / s * (a.z / s)) * (a.z / s * (a.z / s))) * V3.dot (V3.smul (s * s) (V3.cross A1 A2)) (V3.smul (s * s) (V3.cross A1 A2))
      = ((a.z * a.z) * (a.z * a.z)) * V3.dot (V3.cross A1 A2) (V3.cross A1 A2) := by
    simp only [V3.dot, V3.smul]; field_simp
  simp only [inPlaneOk, cross_smul, e]

theorem xvectOk_scale (s : K) (hs : s ≠ 0) (X Nh : V3 K) : xvectOk (V3.smul s X) Nh = xvectOk X Nh := by
  have hss : 0 < s * s := mul_self_pos.mpr hs
  have e1 : V3.dot (V3.smul s X) Nh * V3.dot (V3.smul s X) Nh = (s * s) * (V3.dot X Nh * V3.dot X Nh) := by
    simp only [V3.dot, V3.smul]; ring
  have e2 : V3.dot (V3.smul s X) (V3.smul s X) = (s * s) * V3.dot X X := by
    simp only [V3.dot, V3.smul]; ring
  rw [Bool.eq_iff_iff]
  simp only [xvectOk, Bool.and_eq_true, decide_eq_true_eq, e1, e2]
  constructor
  · rintro ⟨h1, h2⟩
    refine ⟨?_, ?_⟩
    · by_contra hc; rw [not_le] at hc; nlinarith
    · by_contra hc; rw [not_lt] at hc; nlinarith
  · rintro ⟨h1, h2⟩
    refine ⟨?_, by positivity⟩
    nlinarith

/-- **the guards and the conversions do not depend on the unit of length**: scaling the whole geometry (shift vectors,
    positions, plotting axis) by any `s ≠ 0` changes neither what `pos_to_a12` accepts nor the fractional coordinates it
    returns, nor what the x-axis guard accepts, nor the plane normal. -/
theorem guards_scale_free (s : K) (hs : s ≠ 0) (A1 A2 : V3 K) (h : V3.cross A1 A2 ≠ v3zero) :
    (∀ p, posToA12? (V3.smul s A1) (V3.smul s A2) (V3.smul s p) = posToA12? A1 A2 p) ∧
    (∀ X Nh, xvectOk (V3.smul s X) Nh = xvectOk X Nh) ∧
    (∀ nn, planeNormal (V3.smul s A1) (V3.smul s A2) (s * s * nn) = planeNormal A1 A2 nn) := by
  refine ⟨fun p => ?_, fun X Nh => xvectOk_scale s hs X Nh, fun nn => ?_⟩
  · simp only [posToA12?, posToA123_scale s hs A1 A2 p h, inPlaneOk_scale s hs]
  · have hss : s * s ≠ 0 := mul_ne_zero hs hs
    rw [planeNormal, cross_smul]
    simp only [planeNormal, V3.smul, V3.map]
    ext <;> simp only <;> rw [mul_div_mul_left _ _ hss]

example : posToA12? (V3.smul (1/1024 : Rat) ⟨3, 0, 0⟩) (V3.smul (1/1024) ⟨1, 2, 0⟩) (V3.smul (1/1024) ⟨5, 4, 0⟩) = some (1, 2) ∧
    posToA12? (⟨3, 0, 0⟩ : V3 Rat) ⟨1, 2, 0⟩ ⟨5, 4, 1/2⟩ = none ∧
    posToA12? (V3.smul (1/1024 : Rat) ⟨3, 0, 0⟩) (V3.smul (1/1024) ⟨1, 2, 0⟩) (V3.smul (1/1024) ⟨5, 4, 1/2⟩) = none ∧
    xvectOk (V3.smul (1/1024 : Rat) ⟨1, 0, 1/2⟩) ⟨0, 0, 1⟩ = false ∧ xvectOk (⟨0, 0, 0⟩ : V3 Rat) ⟨0, 0, 1⟩ = false := by decide +kernel

theorem toModel_ofModel (ue ul : K) (hue : ue ≠ 0) (hul : ul ≠ 0) (r : GsfRecord K) :
    toModel ue ul (ofModel ue ul r) = r := by
  obtain ⟨box, v1, v2, a1, a2, e, delta⟩ := r
  simp only [ofModel, toModel, List.map_map, GsfRecord.mk.injEq, true_and]
  constructor
  · conv_rhs => rw [← List.map_id e]
    apply List.map_congr_left; intro v _; simp [hue]
  · cases delta with
    | none => rfl
    | some dl =>
      simp only [Option.map_some, List.map_map, Option.some.injEq]
      conv_rhs => rw [← List.map_id dl]
      apply List.map_congr_left; intro v _; simp [hul]

/-- **the working units change between `model()` and `model(model=)`**: a record written while the named units were worth
    `(ue₁, ul₁)` working units and read while they are worth `(ue₂, ul₂)` holds every energy times `ue₂/ue₁` and every
    plane separation times `ul₂/ul₁` -- i.e. expressed in the record's NAMED units it is what was written; fractions,
    shift vectors and box (stored without unit) are unchanged.  Nothing of the first conversion may survive. -/
theorem model_units_switch (ue1 ul1 ue2 ul2 : K) (h1 : ue1 ≠ 0) (h2 : ul1 ≠ 0) (h3 : ue2 ≠ 0) (h4 : ul2 ≠ 0) (g : GsfRecord K) :
    toModel ue2 ul2 (ofModel ue2 ul2 (toModel ue1 ul1 g)) = toModel ue1 ul1 g ∧
    (ofModel ue2 ul2 (toModel ue1 ul1 g)).e = g.e.map (· * (ue2 / ue1)) ∧
    (ofModel ue2 ul2 (toModel ue1 ul1 g)).delta = g.delta.map (fun d => d.map (· * (ul2 / ul1))) ∧
    (ofModel ue2 ul2 (toModel ue1 ul1 g)).a1 = g.a1 ∧ (ofModel ue2 ul2 (toModel ue1 ul1 g)).a2 = g.a2 ∧
    (ofModel ue2 ul2 (toModel ue1 ul1 g)).box = g.box ∧ (ofModel ue2 ul2 (toModel ue1 ul1 g)).a1vect = g.a1vect ∧
    (ofModel ue2 ul2 (toModel ue1 ul1 g)).a2vect = g.a2vect := by
  refine ⟨toModel_ofModel ue2 ul2 h3 h4 _, ?_, ?_, rfl, rfl, rfl, rfl, rfl⟩
  · simp only [ofModel, toModel, List.map_map]
    apply List.map_congr_left; intro v _; simp only [Function.comp]; field_simp
  · simp only [ofModel, toModel, Option.map_map]
    congr 1; funext d; simp only [Function.comp, List.map_map]
    apply List.map_congr_left; intro v _; simp only [Function.comp]; field_simp

/-- the blend is linear in the data: energies multiplied by any factor `s` (another unit of energy, 2^±200) give `s` times
    the value; wrap, cushion and weights do not see the energy scale. -/
theorem E_scale [FloorRing K] (s : K) (f : K → K → K) (c1 c2 a1 a2 : K) :
    E Int.floor (fun a b => s * f a b) c1 c2 a1 a2 = s * E Int.floor f c1 c2 a1 a2 := by
  simp only [E, evalE]; ring

/-- **solve never raises the total energy, GIVEN that the minimiser does not end above its start**: for ANY energy
    functional `Etot`, the function handed to the minimiser evaluates, at the start vector, the energy of the guess
    itself (interior y = 0) and, at the returned vector, the energy of the profile that `solve` stores. -/
theorem solve_not_raises_of_descent (Etot : List (V3 K) → K) (first last : V3 K) (inner : List (V3 K))
    (hy : ∀ v ∈ inner, v.y = 0) (res : List K)
    (hdesc : Etot (recompose res first last) ≤ Etot (recompose (decompose (first :: inner ++ [last])) first last)) :
    Etot (solveResult res (first :: inner ++ [last])) ≤ Etot (first :: inner ++ [last]) := by
  rw [recompose_decompose first last inner hy] at hdesc
  have e : solveResult res (first :: inner ++ [last]) = recompose res first last := by
    unfold solveResult
    congr 1
    · rw [List.getLastD_eq_getLast?]
      have : (first :: (inner ++ [last])).getLast? = some last := by
        rw [← List.cons_append, List.getLast?_append]; simp
      simp [this]
  rw [e]; exact hdesc

/-- **classical half-width, continuum functional**: for a sinusoidal misfit law the energy of an arctangent profile of
    half-width `w` is `π g₀ w - (K b²/4π) ln w + const` (misfit integral `g₀ π w`, elastic term `-(K b²/4π) ln w`); for ANY
    function `lg` with `lg (x y) = lg x + lg y` and `lg t ≤ t - 1` on the positive numbers it is lowest at
    `ζ = K b² / (4 π² g₀)`.  (The identification of the discrete sums with this functional is numerical: see PARTIAL.) -/
theorem halfwidth_continuum_partial (lg : K → K) (hmul : ∀ x y : K, 0 < x → 0 < y → lg (x * y) = lg x + lg y)
    (hle : ∀ t : K, 0 < t → lg t ≤ t - 1) (pi g0 Kb2 c : K) (hpi : 0 < pi) (hg : 0 < g0) (hK : 0 < Kb2)
    (w : K) (hw : 0 < w) :
    pi * g0 * (Kb2 / (4 * pi * pi * g0)) - Kb2 / (4 * pi) * lg (Kb2 / (4 * pi * pi * g0)) + c
      ≤ pi * g0 * w - Kb2 / (4 * pi) * lg w + c := by
  set z := Kb2 / (4 * pi * pi * g0) with hz
  have hzp : 0 < z := by positivity
  have hwz : w = z * (w / z) := by field_simp
  have h1 := hmul z (w / z) hzp (by positivity)
  have h2 := hle (w / z) (by positivity)
  rw [← hwz] at h1
  have hB : Kb2 / (4 * pi) = pi * g0 * z := by rw [hz]; field_simp
  have hBp : 0 < pi * g0 * z := by positivity
  rw [h1, hB]
  have : pi * g0 * z * lg (w / z) ≤ pi * g0 * z * (w / z - 1) := mul_le_mul_of_nonneg_left h2 hBp.le
  have e2 : pi * g0 * z * (w / z - 1) = pi * g0 * (w - z) := by field_simp
  nlinarith


/-- … with the real logarithm (`Real.log_mul`, `Real.log_le_sub_one_of_pos`): no hypothesis left on `lg`. -/
theorem halfwidth_continuum_real (pi g0 Kb2 c : ℝ) (hpi : 0 < pi) (hg : 0 < g0) (hK : 0 < Kb2) (w : ℝ) (hw : 0 < w) :
    pi * g0 * (Kb2 / (4 * pi * pi * g0)) - Kb2 / (4 * pi) * Real.log (Kb2 / (4 * pi * pi * g0)) + c
      ≤ pi * g0 * w - Kb2 / (4 * pi) * Real.log w + c :=
  halfwidth_continuum_partial Real.log (fun x y hx hy => Real.log_mul hx.ne' hy.ne') (fun t ht => Real.log_le_sub_one_of_pos ht)
    pi g0 Kb2 c hpi hg hK w hw

/-- non-vacuity: a non-symmetric stress array whose transpose gives another stress energy (Shen-Cheng form, two points). -/
example : stressEnergyT (K := ℚ) false false ⟨⟨0, 1, 0⟩, ⟨0, 0, 0⟩, ⟨0, 0, 0⟩⟩ [0, 1] [⟨1, 0, 0⟩, ⟨1, 0, 0⟩]
    ≠ stressEnergyT (K := ℚ) false false (M3.transpose ⟨⟨0, 1, 0⟩, ⟨0, 0, 0⟩, ⟨0, 0, 0⟩⟩) [0, 1] [⟨1, 0, 0⟩, ⟨1, 0, 0⟩] := by
  decide +kernel

/-- refusals, decided on concrete profiles: a uniform grid accepted, one point moved by 1e-4 of the step refused, a decreasing grid
    refused, one point `IndexError`; `solve(x=bad)` leaves the object alone, `solve(x=good, disregistry=bad)` stores the new grid
    only. -/
example : xSetter? ([0, 1/4, 1/2, 3/4] : List ℚ) = none ∧ xSetter? ([0, 1/4, 1/2 + 1/40000, 3/4] : List ℚ) = some .xAssert ∧
    xSetter? ([3/4, 1/2, 1/4] : List ℚ) = some .xAssert ∧ xSetter? ([1] : List ℚ) = some .xIndex ∧
    dSetter? ([⟨0, 0, 0⟩, ⟨1, 1/1000000000, 0⟩, ⟨2, 0, 0⟩] : List (V3 ℚ)) = none ∧
    dSetter? ([⟨0, 0, 0⟩, ⟨1, 1/1000000, 0⟩, ⟨2, 0, 0⟩] : List (V3 ℚ)) = some .dAssert := by decide +kernel

/-! ## statement audit: non-vacuity, the theorems instantiated with every hypothesis discharged at `K := ℚ` -/
section audit

/-- a non-constant energy functional for the descent example. -/
private def exEtot (d : List (V3 ℚ)) : ℚ := (d.map (fun v => v.z * v.z)).sum

private theorem half_ne_int (z : Int) : (1/2 : ℚ) ≠ z := by
  intro h
  have h2 : (2 : ℚ) * (1/2) = 2 * (z : ℚ) := by rw [h]
  have h3 : ((1 : Int) : ℚ) = ((2 * z : Int) : ℚ) := by push_cast; linarith
  have := Int.cast_injective (α := ℚ) h3
  omega

-- `wrap_loop_spec`: the loop result -1/4 for a = 7/4, cushion 1/4
example : (-1/4 : ℚ) = wrap Int.floor (1/4) (7/4) :=
  wrap_loop_spec (1/4) (7/4) (-1/4) 2 (by norm_num) (by norm_num) (by norm_num)
-- `hgrid_of_uniform`: 0 < n, k < n
example : (0 : Nat) < 4 ∧ (3 : Nat) < 4 := by decide
-- `delta_periodic_offlattice`: off-lattice point (1/2, 1/2), non-constant f, periods (3, -2)
example : deltaEval Int.floor Int.ceil (fun a b : ℚ => a + 10 * b) (1/2 + (3 : Int)) (1/2 + (-2 : Int))
    = deltaEval Int.floor Int.ceil (fun a b : ℚ => a + 10 * b) (1/2) (1/2) :=
  delta_periodic_offlattice _ (1/2) (1/2) 3 (-2) half_ne_int half_ne_int
-- `delta_interpolates`: the sampled shift (1/2, 0) of `exD`
example : deltaEval Int.floor Int.ceil exF (1/2) 0 = 3 := by
  have h : (fitNodes? exD).isSome = true := by decide +kernel
  obtain ⟨N, hN⟩ := Option.isSome_iff_exists.mp h
  have hf : ∀ n ∈ N, exF n.a1 n.a2 = n.e := by
    have : ((fitNodes? exD).map (fun N => N.all (fun n => decide (exF n.a1 n.a2 = n.e)))) = some true := by
      decide +kernel
    rw [hN] at this
    simpa using this
  exact delta_interpolates exD N exF hN hf ⟨1/2, 0, 3⟩
    (List.mem_filter.mpr ⟨by simp [exD], by decide +kernel⟩) (by norm_num) (by norm_num)
-- `pos_xy_inverse(_many)`: oblique plot axis X = (3, 4, 0) in the plane normal to (0, 0, 2), norms 5, 10/… given
example : posToXY (xyTransform (⟨3, 4, 0⟩ : V3 ℚ) ⟨0, 0, 2⟩ 5 5 2) (xyToPos (xyTransform ⟨3, 4, 0⟩ ⟨0, 0, 2⟩ 5 5 2) (7, -3)) = (7, -3) :=
  (pos_xy_inverse (⟨3, 4, 0⟩ : V3 ℚ) ⟨0, 0, 2⟩ 5 5 2 (by norm_num) (by norm_num) (by norm_num) (by decide +kernel)
    (by decide +kernel) (by decide +kernel)).1 (7, -3)
-- `planeNormal_perp`, `a12_pos_inverse`, `xy_default_inverse`, `E_interchangeable`, `E_other_basis`: the hexagonal pair
example : V3.cross (⟨3, 0, 0⟩ : V3 ℚ) ⟨-3/2, 13/5, 0⟩ ≠ v3zero ∧ (39/5 : ℚ) ≠ 0 := by decide +kernel
-- `frameK_symmetric`: symmetric non-diagonal K, rotation by the 3-4-5 angle about z
example : kform (frameK (⟨⟨3/5, 4/5, 0⟩, ⟨-4/5, 3/5, 0⟩, ⟨0, 0, 1⟩⟩ : M3 ℚ) ⟨⟨2, 1, 1⟩, ⟨1, 3, 2⟩, ⟨1, 2, 4⟩⟩)
      (frameB ⟨⟨3/5, 4/5, 0⟩, ⟨-4/5, 3/5, 0⟩, ⟨0, 0, 1⟩⟩ ⟨1, 2, 3⟩) (frameB ⟨⟨3/5, 4/5, 0⟩, ⟨-4/5, 3/5, 0⟩, ⟨0, 0, 1⟩⟩ ⟨1, 2, 3⟩)
    = kform (⟨⟨2, 1, 1⟩, ⟨1, 3, 2⟩, ⟨1, 2, 4⟩⟩ : M3 ℚ) ⟨1, 2, 3⟩ ⟨1, 2, 3⟩ :=
  (frameK_symmetric (⟨⟨3/5, 4/5, 0⟩, ⟨-4/5, 3/5, 0⟩, ⟨0, 0, 1⟩⟩ : M3 ℚ) ⟨⟨2, 1, 1⟩, ⟨1, 3, 2⟩, ⟨1, 2, 4⟩⟩
    (by decide +kernel)).2 (by decide +kernel) ⟨1, 2, 3⟩
-- `elastic_polarization` / `elastic_scaling` / `elastic_symmetric_quadratic` / `source_elastic_quadratic`: the same symmetric K
example : elasticOfDensity (fun t : ℚ => t - 1) 3 (1/2) ⟨⟨2, 1, 1⟩, ⟨1, 3, 2⟩, ⟨1, 2, 4⟩⟩ ([⟨1, 0, 2⟩, ⟨0, 1, 1⟩].map (V3.smul 3))
    = 3 * 3 * elasticOfDensity (fun t : ℚ => t - 1) 3 (1/2) ⟨⟨2, 1, 1⟩, ⟨1, 3, 2⟩, ⟨1, 2, 4⟩⟩ [⟨1, 0, 2⟩, ⟨0, 1, 1⟩] :=
  elastic_scaling _ 3 (1/2) _ (by decide +kernel) 3 _
-- `stress_second_row_only`: two different stress tensors with the same second row
example : stressEnergyT (K := ℚ) true false ⟨⟨1, 2, 3⟩, ⟨4, 5, 6⟩, ⟨7, 8, 9⟩⟩ [0, 1, 2] [⟨0, 0, 0⟩, ⟨1, 0, 1⟩, ⟨2, 0, 0⟩]
    = stressEnergyT true false ⟨⟨0, 0, 0⟩, ⟨4, 5, 6⟩, ⟨-1, 0, 0⟩⟩ [0, 1, 2] [⟨0, 0, 0⟩, ⟨1, 0, 1⟩, ⟨2, 0, 0⟩] :=
  stress_second_row_only true false _ _ rfl _ _
-- `recompose_decompose` / `solve_not_raises_of_descent`: a 4-point guess with planar interior; a minimiser that descends
example : recompose (decompose ([⟨0, 1, 0⟩, ⟨1, 0, 5⟩, ⟨2, 0, 6⟩, ⟨3, 1, 0⟩] : List (V3 ℚ))) ⟨0, 1, 0⟩ ⟨3, 1, 0⟩
    = [⟨0, 1, 0⟩, ⟨1, 0, 5⟩, ⟨2, 0, 6⟩, ⟨3, 1, 0⟩] :=
  recompose_decompose (⟨0, 1, 0⟩ : V3 ℚ) ⟨3, 1, 0⟩ [⟨1, 0, 5⟩, ⟨2, 0, 6⟩] (by decide +kernel)
example : exEtot (solveResult [1, 2, 1, 1] (⟨0, 1, 0⟩ :: [⟨1, 0, 5⟩, ⟨2, 0, 6⟩] ++ [⟨3, 1, 0⟩]))
    ≤ exEtot (⟨0, 1, 0⟩ :: [⟨1, 0, 5⟩, ⟨2, 0, 6⟩] ++ [⟨3, 1, 0⟩]) :=
  solve_not_raises_of_descent exEtot ⟨0, 1, 0⟩ ⟨3, 1, 0⟩
    [⟨1, 0, 5⟩, ⟨2, 0, 6⟩] (by decide +kernel) [1, 2, 1, 1] (by decide +kernel)
-- `dSetter_accepts_planar` / `solve_result_accepted`
example : dSetter? ([⟨0, 0, 0⟩, ⟨1, 0, 5⟩, ⟨3, 0, 0⟩] : List (V3 ℚ)) = none :=
  dSetter_accepts_planar _ (by decide) (by decide +kernel)
example : dSetter? (solveResult [1, 2, 1, 1] ([⟨0, 0, 0⟩, ⟨1, 7, 5⟩, ⟨3, 0, 0⟩] : List (V3 ℚ))) = none :=
  solve_result_accepted _ _ (by decide +kernel) (by decide +kernel)
-- `gen_pos_to_a12_eq_model` / `source_conversions_inverse`: an oblique basis in a non-identity box (|A1 x A2| = 4 = rn^2)
example : Gen.gen_pos_to_a12 (K := ℚ) 2 ⟨⟨2, 0, 0⟩, ⟨1, 2, 0⟩, ⟨0, 0, 3⟩⟩ ⟨1, 0, 0⟩ ⟨0, 1, 0⟩
      (Gen.gen_a12_to_pos ⟨⟨2, 0, 0⟩, ⟨1, 2, 0⟩, ⟨0, 0, 3⟩⟩ ⟨1, 0, 0⟩ ⟨0, 1, 0⟩ (1/4) (-3)) = some (1/4, -3) :=
  source_conversions_inverse 2 _ _ _ (by norm_num) (by decide +kernel) (by decide +kernel) _ _
-- `gamma_reload_conversions`: its hypothesis on the monoclinic record of the reload example
example : V3.cross (cartOf (⟨1, 0, 0⟩ : V3 ℚ) ⟨⟨3, 0, 0⟩, ⟨0, 4, 0⟩, ⟨-5/4, 0, 5⟩⟩) (cartOf ⟨0, 0, 1⟩ ⟨⟨3, 0, 0⟩, ⟨0, 4, 0⟩, ⟨-5/4, 0, 5⟩⟩)
    ≠ v3zero := by decide +kernel
-- `arctan_normalized_end_length`: `atan` is a parameter (here the identity), x = [0, 1, 2], b = (9, 12, 0), pi = 3:
-- the raw end-to-end vector is (6, 8, 0), of length 10
example : V3.normSq ((pnArctanDisregistry (fun t : ℚ => t) 3 [0, 1, 2] ⟨9, 12, 0⟩ 0 1 true true 15 10).getLastD v3zero) = 15 * 15 :=
  arctan_normalized_end_length (fun t : ℚ => t) 3 [0, 1, 2] ⟨9, 12, 0⟩ 0 1 15 10 (by norm_num) _ rfl (by decide +kernel)
    (by decide +kernel)
-- `energy_state_only`: two objects with equal settings and different stored profiles
example : let s : Settings ℚ := ⟨⟨⟨2, 0, 0⟩, ⟨0, 3, 0⟩, ⟨0, 0, 1⟩⟩, ⟨1, 0, 2⟩, ⟨⟨1, 0, 0⟩, ⟨0, 1, 0⟩, ⟨0, 0, 1⟩⟩, ⟨1, 0, 0⟩, [0],
      ⟨⟨0, 0, 0⟩, ⟨0, 0, 0⟩, ⟨0, 0, 0⟩⟩, 7, 3, false, false, true, false⟩
    (Obj.mk s [0, 1] [⟨0, 0, 0⟩, ⟨1, 0, 0⟩]).total (fun _ => 0) (fun _ => 0) [0, 2] [⟨0, 0, 0⟩, ⟨3, 0, 0⟩]
      = (Obj.mk s [5] []).total (fun _ => 0) (fun _ => 0) [0, 2] [⟨0, 0, 0⟩, ⟨3, 0, 0⟩] :=
  (energy_state_only _ _ _ _ rfl _ _).2

end audit

end Atomman.C18
