/-
  C04 — property theorems: supercells and re-oriented cells contain the same infinite crystal.
  Model: Atomman/C04.lean.  `K` is any linearly ordered field.
-/
import Proofs.C04_Lemmas
import Proofs.C04_Reps
import Proofs.C04_Index
import Proofs.C04_Count
import Proofs.C04_Identity
import Proofs.C04_Accept
import Proofs.C04_Hist
import Proofs.C04_Family
import Proofs.C04_Orient
import Proofs.C04_Source
import Proofs.C04_Ladder
import Mathlib.Tactic.Ring
import Mathlib.Tactic.Linarith
import Mathlib.Tactic.Positivity
import Mathlib.Tactic.NormNum
import Mathlib.Algebra.Order.Field.Basic
import Mathlib.Data.Int.Cast.Lemmas
import Mathlib.Algebra.Order.Ring.Cast
import Mathlib.Data.Rat.Floor

namespace Atomman.C04
open Atomman
set_option linter.unusedSectionVars false

variable {K : Type} [Field K] [LinearOrder K] [IsStrictOrderedRing K]

/-! ### index bookkeeping of `supersize` -/

/-- new index of replica `(r0,r1,r2)` of original atom `i` (`N` atoms, multipliers `m0 m1 _`). -/
def encode (N m0 m1 : Nat) (i r0 r1 r2 : Nat) : Nat := ((r2 * m1 + r1) * m0 + r0) * N + i

def decode (N m0 m1 : Nat) (k : Nat) : Nat × Nat × Nat × Nat :=
  (k % N, (k / N) % m0, (k / N / m0) % m1, k / N / m0 / m1)

theorem decode_encode (N m0 m1 i r0 r1 r2 : Nat) (hi : i < N) (h0 : r0 < m0) (h1 : r1 < m1) :
    decode N m0 m1 (encode N m0 m1 i r0 r1 r2) = (i, r0, r1, r2) := by
  have hN : 0 < N := by omega
  have hm0 : 0 < m0 := by omega
  have hm1 : 0 < m1 := by omega
  have e1 : (((r2 * m1 + r1) * m0 + r0) * N + i) / N = (r2 * m1 + r1) * m0 + r0 := by
    rw [Nat.add_comm, Nat.add_mul_div_right _ _ hN, Nat.div_eq_of_lt hi, Nat.zero_add]
  have e0 : (((r2 * m1 + r1) * m0 + r0) * N + i) % N = i := by
    rw [Nat.add_comm, Nat.add_mul_mod_self_right, Nat.mod_eq_of_lt hi]
  have e2 : ((r2 * m1 + r1) * m0 + r0) / m0 = r2 * m1 + r1 := by
    rw [Nat.add_comm, Nat.add_mul_div_right _ _ hm0, Nat.div_eq_of_lt h0, Nat.zero_add]
  have e3 : ((r2 * m1 + r1) * m0 + r0) % m0 = r0 := by
    rw [Nat.add_comm, Nat.add_mul_mod_self_right, Nat.mod_eq_of_lt h0]
  have e4 : (r2 * m1 + r1) / m1 = r2 := by
    rw [Nat.add_comm, Nat.add_mul_div_right _ _ hm1, Nat.div_eq_of_lt h1, Nat.zero_add]
  have e5 : (r2 * m1 + r1) % m1 = r1 := by
    rw [Nat.add_comm, Nat.add_mul_mod_self_right, Nat.mod_eq_of_lt h1]
  simp only [decode, encode, e0, e1, e2, e3, e4, e5]

theorem encode_decode (N m0 m1 k : Nat) :
    let d := decode N m0 m1 k
    encode N m0 m1 d.1 d.2.1 d.2.2.1 d.2.2.2 = k := by
  simp only [decode, encode]
  have a := Nat.div_add_mod k N
  have b := Nat.div_add_mod (k / N) m0
  have c := Nat.div_add_mod (k / N / m0) m1
  calc ((k / N / m0 / m1 * m1 + k / N / m0 % m1) * m0 + k / N % m0) * N + k % N
      = ((m1 * (k / N / m0 / m1) + k / N / m0 % m1) * m0 + k / N % m0) * N + k % N := by ring
    _ = ((k / N / m0) * m0 + k / N % m0) * N + k % N := by rw [c]
    _ = (m0 * (k / N / m0) + k / N % m0) * N + k % N := by ring
    _ = (k / N) * N + k % N := by rw [b]
    _ = N * (k / N) + k % N := by ring
    _ = k := a

/-! ### supersize -/

omit [LinearOrder K] [IsStrictOrderedRing K] in
theorem supersize_length (b : Box K) (sa sb sc : Size) (atoms : List (Atom K)) :
    (supersizeAtoms b sa sb sc atoms).length
      = sc.mult.toNat * (sb.mult.toNat * (sa.mult.toNat * atoms.length)) := by
  unfold supersizeAtoms
  apply length_flatMap_range_const; intro r2
  apply length_flatMap_range_const; intro r1
  apply length_flatMap_range_const; intro r0
  simp

omit [LinearOrder K] [IsStrictOrderedRing K] in
/-- the atom at new index `encode i r0 r1 r2` is original atom `i` with every per-atom value copied
    and the position of replica `(r0,r1,r2)`. -/
theorem supersize_get (b : Box K) (sa sb sc : Size) (atoms : List (Atom K)) (i r0 r1 r2 : Nat)
    (hi : i < atoms.length) (h0 : r0 < sa.mult.toNat) (h1 : r1 < sb.mult.toNat) (h2 : r2 < sc.mult.toNat) :
    (supersizeAtoms b sa sb sc atoms)[encode atoms.length sa.mult.toNat sb.mult.toNat i r0 r1 r2]?
      = some { atoms[i] with pos := replicaPos b sa sb sc atoms[i].pos r0 r1 r2 } := by
  set N := atoms.length
  set m0 := sa.mult.toNat
  set m1 := sb.mult.toNat
  have hidx : encode N m0 m1 i r0 r1 r2 = r2 * (m1 * (m0 * N)) + (r1 * (m0 * N) + (r0 * N + i)) := by
    simp only [encode]; ring
  have hb0 : r0 * N + i < m0 * N := by
    calc r0 * N + i < r0 * N + N := by omega
      _ = (r0 + 1) * N := by ring
      _ ≤ m0 * N := Nat.mul_le_mul_right N h0
  have hb1 : r1 * (m0 * N) + (r0 * N + i) < m1 * (m0 * N) := by
    calc r1 * (m0 * N) + (r0 * N + i) < r1 * (m0 * N) + m0 * N := by omega
      _ = (r1 + 1) * (m0 * N) := by ring
      _ ≤ m1 * (m0 * N) := Nat.mul_le_mul_right _ h1
  rw [hidx]
  unfold supersizeAtoms
  rw [getElem?_flatMap_range_const _ (m1 * (m0 * N)) _ _ r2 _ h2 hb1]
  · rw [getElem?_flatMap_range_const _ (m0 * N) _ _ r1 _ h1 hb0]
    · rw [getElem?_flatMap_range_const _ N _ _ r0 _ h0 hi]
      · simp [List.getElem?_map, List.getElem?_eq_getElem hi]
      · intro j; simp [N]
    · intro j; apply length_flatMap_range_const; intro j'; simp [N]
  · intro j; apply length_flatMap_range_const; intro j'
    apply length_flatMap_range_const; intro j''; simp [N]

omit [LinearOrder K] [IsStrictOrderedRing K] in
/-- type and every further per-atom value are copied to each replica (only `pos` changes). -/
theorem supersize_copies_payload (b : Box K) (sa sb sc : Size) (atoms : List (Atom K)) (a' : Atom K)
    (h : a' ∈ supersizeAtoms b sa sb sc atoms) :
    ∃ a ∈ atoms, a'.atype = a.atype ∧ a'.extra = a.extra := by
  simp only [supersizeAtoms, List.mem_flatMap, List.mem_map, List.mem_range] at h
  obtain ⟨r2, _, r1, _, r0, _, a, ha, rfl⟩ := h
  exact ⟨a, ha, rfl, rfl⟩

omit [LinearOrder K] [IsStrictOrderedRing K] in
/-- Cartesian position of a replica: the original position plus the integer lattice vector
    `(r0+lo_a) a + (r1+lo_b) b + (r2+lo_c) c`  (for a non-degenerate cell and non-zero multipliers). -/
theorem replicaPos_eq (b : Box K) (sa sb sc : Size) (p : V3 K) (r0 r1 r2 : Nat)
    (hdet : M3.det b.vects ≠ 0)
    (ha : ((sa.mult : Int) : K) ≠ 0) (hb : ((sb.mult : Int) : K) ≠ 0) (hc : ((sc.mult : Int) : K) ≠ 0) :
    replicaPos b sa sb sc p r0 r1 r2
      = p + M3.vecMul ⟨(((r0 : Int) + sa.lo : Int) : K), (((r1 : Int) + sb.lo : Int) : K),
                        (((r2 : Int) + sc.lo : Int) : K)⟩ b.vects :=
  replicaPos_eq_aux b sa sb sc p r0 r1 r2 hdet ha hb hc

omit [LinearOrder K] [IsStrictOrderedRing K] in
/-- the volume (signed) scales by the replication count. -/
theorem superBox_volume (b : Box K) (sa sb sc : Size) :
    M3.det (superBox b sa sb sc).vects
      = ((sa.mult : Int) : K) * ((sb.mult : Int) : K) * ((sc.mult : Int) : K) * M3.det b.vects := by
  simp only [superBox, M3.det, V3.dot, V3.cross, V3.smul]; ring

/-- two replicas of the same original atom coincide only if they are the same replica; more generally
    equal replica positions of two atoms force the originals to differ by an integer lattice vector
    (so originals that are distinct modulo the lattice never produce coinciding atoms). -/
theorem replica_injective (b : Box K) (sa sb sc : Size) (p q : V3 K) (r0 r1 r2 t0 t1 t2 : Nat)
    (hdet : M3.det b.vects ≠ 0)
    (ha : ((sa.mult : Int) : K) ≠ 0) (hb : ((sb.mult : Int) : K) ≠ 0) (hc : ((sc.mult : Int) : K) ≠ 0)
    (h : replicaPos b sa sb sc p r0 r1 r2 = replicaPos b sa sb sc q t0 t1 t2) :
    (p = q + M3.vecMul ⟨(((t0 : Int) - r0 : Int) : K), (((t1 : Int) - r1 : Int) : K), (((t2 : Int) - r2 : Int) : K)⟩ b.vects)
    ∧ (p = q → r0 = t0 ∧ r1 = t1 ∧ r2 = t2) := by
  rw [replicaPos_eq b sa sb sc p r0 r1 r2 hdet ha hb hc, replicaPos_eq b sa sb sc q t0 t1 t2 hdet ha hb hc] at h
  have h1 : p = q + M3.vecMul ⟨(((t0 : Int) - r0 : Int) : K), (((t1 : Int) - r1 : Int) : K),
      (((t2 : Int) - r2 : Int) : K)⟩ b.vects := by
    have hx := congrArg V3.x h; have hy := congrArg V3.y h; have hz := congrArg V3.z h
    simp only [V3.add_def, M3.vecMul, Int.cast_add, Int.cast_natCast] at hx hy hz
    ext <;> simp only [V3.add_def, M3.vecMul, Int.cast_sub, Int.cast_natCast]
    · linear_combination hx
    · linear_combination hy
    · linear_combination hz
  refine ⟨h1, ?_⟩
  intro hpq
  subst hpq
  have hz : M3.vecMul (⟨(((t0 : Int) - r0 : Int) : K), (((t1 : Int) - r1 : Int) : K),
      (((t2 : Int) - r2 : Int) : K)⟩ : V3 K) b.vects = ⟨0, 0, 0⟩ := by
    have hx := congrArg V3.x h1; have hy := congrArg V3.y h1; have hzz := congrArg V3.z h1
    simp only [V3.add_def] at hx hy hzz
    ext
    · simp only []; linear_combination -hx
    · simp only []; linear_combination -hy
    · simp only []; linear_combination -hzz
  have h0 := vecMul_eq_zero b.vects hdet _ hz
  simp only [V3.mk.injEq] at h0
  obtain ⟨e0, e1, e2⟩ := h0
  have f0 : ((t0 : Int) - r0 : Int) = 0 := by exact_mod_cast e0
  have f1 : ((t1 : Int) - r1 : Int) = 0 := by exact_mod_cast e1
  have f2 : ((t2 : Int) - r2 : Int) = 0 := by exact_mod_cast e2
  omega

/-! ### rotate -/

omit [LinearOrder K] [IsStrictOrderedRing K] in
/-- new cell volume (signed) = `det U` × old volume. -/
theorem newVects_det (U : M3 Int) (V : M3 K) :
    M3.det (newVects U V) = ((M3.det U : Int) : K) * M3.det V := by
  obtain ⟨⟨a, b, c⟩, ⟨d, e, f⟩, ⟨g, h, i⟩⟩ := U
  simp only [newVects, M3.det, M3.mul, M3.vecMul, V3.dot, V3.cross, V3.map]
  push_cast
  ring

/-- parallel / planar vectors are refused. -/
theorem rotate_refuses_singular (fl : K → Int) (b : Box K) (U : M3 Int) (atoms : List (Atom K))
    (h : M3.det U = 0) :
    rotateRaw fl b U atoms = none := by
  simp [rotateRaw, h]

/-- every atom kept by `rotate` is an original atom — same type, same per-atom values — displaced by
    an integer combination of the original cell vectors (whatever the floor function does). -/
theorem rotate_members (fl : K → Int) (b : Box K) (U : M3 Int) (atoms : List (Atom K)) (nb : Box K)
    (kept : List (Atom K))
    (hdet : M3.det b.vects ≠ 0) (h : rotateRaw fl b U atoms = some (nb, kept)) (a' : Atom K) (ha' : a' ∈ kept) :
    ∃ a ∈ atoms, ∃ n : V3 Int, a'.atype = a.atype ∧ a'.extra = a.extra ∧
      a'.pos = a.pos + M3.vecMul ⟨(n.x : K), (n.y : K), (n.z : K)⟩ b.vects := by
  unfold rotateRaw at h
  split at h
  · exact absurd h (by simp)
  · simp only [Option.some.injEq, Prod.mk.injEq] at h
    obtain ⟨_, rfl⟩ := h
    rw [List.mem_filter] at ha'
    obtain ⟨hmem, _⟩ := ha'
    simp only [supersizeAtoms, List.mem_map, List.mem_flatMap, List.mem_range] at hmem
    obtain ⟨a0, ⟨r2, h2, r1, h1, r0, h0, a, ha, rfl⟩, rfl⟩ := hmem
    set f0 := rintK fl (0 - (b.cartToRel ⟨0, 0, 0⟩).x)
    set f1 := rintK fl (0 - (b.cartToRel ⟨0, 0, 0⟩).y)
    set f2 := rintK fl (0 - (b.cartToRel ⟨0, 0, 0⟩).z)
    refine ⟨a, ha, ⟨(r0 : Int) + (rotateSizes U).1.lo - f0, (r1 : Int) + (rotateSizes U).2.1.lo - f1,
      (r2 : Int) + (rotateSizes U).2.2.lo - f2⟩, rfl, rfl, ?_⟩
    have pos_of_lt : ∀ (s : Size) (r : Nat), r < s.mult.toNat → ((s.mult : Int) : K) ≠ 0 := by
      intro s r hr
      have : 0 < s.mult := by omega
      exact_mod_cast (ne_of_gt this)
    show replicaPos b _ _ _ a.pos r0 r1 r2 - _ = _
    rw [replicaPos_eq b _ _ _ a.pos r0 r1 r2 hdet (pos_of_lt _ r0 h0) (pos_of_lt _ r1 h1) (pos_of_lt _ r2 h2)]
    ext <;> simp only [V3.add_def, V3.sub_def, M3.vecMul, Int.cast_add, Int.cast_sub, Int.cast_natCast] <;> ring

/-- every kept atom lies in the half-open new cell `0 ≤ s < 1` (new vectors `U·vects` at the
    Cartesian origin). -/
theorem rotate_inside (fl : K → Int) (b : Box K) (U : M3 Int) (atoms : List (Atom K)) (nb : Box K)
    (kept : List (Atom K))
    (h : rotateRaw fl b U atoms = some (nb, kept)) (a' : Atom K) (ha' : a' ∈ kept) :
    nb = ⟨newVects U b.vects, ⟨0, 0, 0⟩⟩ ∧
    let s := nb.cartToRel a'.pos
    0 ≤ s.x ∧ s.x < 1 ∧ 0 ≤ s.y ∧ s.y < 1 ∧ 0 ≤ s.z ∧ s.z < 1 := by
  unfold rotateRaw at h
  split at h
  · exact absurd h (by simp)
  · simp only [Option.some.injEq, Prod.mk.injEq] at h
    obtain ⟨rfl, rfl⟩ := h
    rw [List.mem_filter] at ha'
    obtain ⟨_, hin⟩ := ha'
    simp only [inHalfOpen, Bool.and_eq_true, decide_eq_true_eq] at hin
    exact ⟨rfl, by tauto⟩

/-- no two atoms in one half-open cell differ by a non-zero vector of that cell's lattice:
    the kept atoms are pairwise distinct modulo the new lattice. -/
theorem rotate_distinct (nb : Box K) (hdet : M3.det nb.vects ≠ 0) (p q : V3 K) (n : V3 Int)
    (hp : let s := nb.cartToRel p; 0 ≤ s.x ∧ s.x < 1 ∧ 0 ≤ s.y ∧ s.y < 1 ∧ 0 ≤ s.z ∧ s.z < 1)
    (hq : let s := nb.cartToRel q; 0 ≤ s.x ∧ s.x < 1 ∧ 0 ≤ s.y ∧ s.y < 1 ∧ 0 ≤ s.z ∧ s.z < 1)
    (hpq : p = q + M3.vecMul ⟨(n.x : K), (n.y : K), (n.z : K)⟩ nb.vects) :
    n = ⟨0, 0, 0⟩ ∧ p = q := by
  have key : nb.cartToRel p = nb.cartToRel q + ⟨(n.x : K), (n.y : K), (n.z : K)⟩ := by
    rw [cartToRel_eq, cartToRel_eq, hpq]
    have : q + M3.vecMul ⟨(n.x : K), (n.y : K), (n.z : K)⟩ nb.vects - nb.origin
        = (q - nb.origin) + M3.vecMul ⟨(n.x : K), (n.y : K), (n.z : K)⟩ nb.vects := by
      ext <;> simp only [V3.add_def, V3.sub_def] <;> ring
    rw [this]
    have lin : ∀ u v : V3 K, M3.vecMul (u + v) (M3.inv nb.vects)
        = M3.vecMul u (M3.inv nb.vects) + M3.vecMul v (M3.inv nb.vects) := by
      intro u v; ext <;> simp only [M3.vecMul, V3.add_def] <;> ring
    rw [lin, vecMul_inv_cancel nb.vects hdet]
  simp only at hp hq
  have kx := congrArg V3.x key; have ky := congrArg V3.y key; have kz := congrArg V3.z key
  simp only [V3.add_def] at kx ky kz
  have bx : -1 < (n.x : K) ∧ (n.x : K) < 1 := by constructor <;> linarith [hp.1, hp.2.1, hq.1, hq.2.1]
  have by' : -1 < (n.y : K) ∧ (n.y : K) < 1 := by
    constructor <;> linarith [hp.2.2.1, hp.2.2.2.1, hq.2.2.1, hq.2.2.2.1]
  have bz : -1 < (n.z : K) ∧ (n.z : K) < 1 := by
    constructor <;> linarith [hp.2.2.2.2.1, hp.2.2.2.2.2, hq.2.2.2.2.1, hq.2.2.2.2.2]
  have zx : n.x = 0 := by
    have h1 : (-1 : Int) < n.x := by exact_mod_cast bx.1
    have h2 : n.x < (1 : Int) := by exact_mod_cast bx.2
    omega
  have zy : n.y = 0 := by
    have h1 : (-1 : Int) < n.y := by exact_mod_cast by'.1
    have h2 : n.y < (1 : Int) := by exact_mod_cast by'.2
    omega
  have zz : n.z = 0 := by
    have h1 : (-1 : Int) < n.z := by exact_mod_cast bz.1
    have h2 : n.z < (1 : Int) := by exact_mod_cast bz.2
    omega
  refine ⟨by ext <;> simp [zx, zy, zz], ?_⟩
  rw [hpq, zx, zy, zz]
  ext <;> simp [M3.vecMul]


/-! ### rotate: each original atom is represented exactly `|det U|` times -/

section count
variable [FloorRing K]

/-- **Index of the sublattice.**  For an integer matrix `U` with `det U ≠ 0` and any offset `s`, exactly
    `|det U|` integer shifts `n` put the point `s + n` (old-cell units) into the half-open cell of the new
    lattice `ℤ³·U`: the half-open cell is a complete irredundant system of representatives of `ℤ³/ℤ³·U`,
    whose order is `|det U|` (Mathlib `Submodule.natAbs_det_equiv`). -/
theorem rotate_lattice_index (U : M3 Int) (hU : M3.det U ≠ 0) (s : V3 K) :
    Nat.card {n : V3 Int // Rep U s n} = (M3.det U).natAbs :=
  rep_card U hU s

/-- **Each original atom is represented exactly `|det U|` times in the re-oriented cell.**
    For a non-degenerate box, an integer `U` with `det U ≠ 0`, `fl` the floor function and every atom inside
    the box (`0 ≤ s < 1`), the atoms kept by `rotate` are — up to order — the concatenation over the original
    atoms `a` of `imagesOf a` (what `rotate` returns for the one-atom system `[a]`), where `imagesOf a`
    * has exactly `|det U|` members,
    * at pairwise different positions,
    * each with `a`'s type and per-atom values at `a.pos` + an integer combination of the old cell vectors,
      inside the new half-open cell,
    * and contains *every* periodic image `a.pos + n·V`, `n ∈ ℤ³`, that lies in the new half-open cell
      (the bounding supercell `corners ∓ 1` misses none). -/
theorem rotate_count (fl : K → Int) (hfl : ∀ x, fl x = ⌊x⌋) (b : Box K) (hV : M3.det b.vects ≠ 0) (U : M3 Int)
    (atoms : List (Atom K)) (hin : ∀ a ∈ atoms, InBox (b.cartToRel a.pos)) (nb : Box K) (kept : List (Atom K))
    (h : rotateRaw fl b U atoms = some (nb, kept)) :
    kept.Perm (atoms.flatMap (imagesOf fl b U)) ∧
    ∀ a ∈ atoms,
      rotateRaw fl b U [a] = some (nb, imagesOf fl b U a) ∧
      (imagesOf fl b U a).length = (M3.det U).natAbs ∧
      ((imagesOf fl b U a).map (·.pos)).Nodup ∧
      (∀ a' ∈ imagesOf fl b U a, a'.atype = a.atype ∧ a'.extra = a.extra ∧ InCell (nb.cartToRel a'.pos) ∧
        ∃ n : V3 Int, a'.pos = a.pos + M3.vecMul (castV n) b.vects) ∧
      (∀ n : V3 Int, InCell (nb.cartToRel (a.pos + M3.vecMul (castV n) b.vects)) →
        ∃ a' ∈ imagesOf fl b U a, a'.pos = a.pos + M3.vecMul (castV n) b.vects) := by
  have hU : M3.det U ≠ 0 := by
    intro h0; simp [rotateRaw, h0] at h
  have hnb : nb = ⟨newVects U b.vects, ⟨0, 0, 0⟩⟩ := by
    rw [rotateRaw_eq fl b U atoms hU] at h
    simp only [Option.some.injEq, Prod.mk.injEq] at h
    exact h.1.symm
  refine ⟨rotateRaw_perm fl b U atoms nb kept h, fun a ha => ?_⟩
  have hs := rotateRaw_singleton fl b U a hU
  rw [← hnb] at hs
  refine ⟨hs, imagesOf_length fl hfl b hV U hU a (hin a ha), imagesOf_nodup fl hfl b hV U a, ?_, ?_⟩
  · intro a' ha'
    obtain ⟨a0, ha0, n, e1, e2, e3⟩ := rotate_members fl b U [a] nb _ hV hs a' ha'
    rw [List.mem_singleton] at ha0
    subst ha0
    exact ⟨e1, e2, (rotate_inside fl b U [a0] nb _ hs a' ha').2, n, e3⟩
  · intro n hq
    rw [hnb] at hq
    obtain ⟨a', m, e, _⟩ := imagesOf_complete fl hfl b hV U hU a (hin a ha) n hq
    exact ⟨a', m, e⟩

/-- **Atom count** `natoms · |det U|` — the code's own expected-count test
    (`newnatoms = round(newvolume / volume) · natoms`) always passes. -/
theorem rotate_total (fl : K → Int) (hfl : ∀ x, fl x = ⌊x⌋) (b : Box K) (hV : M3.det b.vects ≠ 0) (U : M3 Int)
    (atoms : List (Atom K)) (hin : ∀ a ∈ atoms, InBox (b.cartToRel a.pos)) (nb : Box K) (kept : List (Atom K))
    (h : rotateRaw fl b U atoms = some (nb, kept)) :
    kept.length = (M3.det U).natAbs * atoms.length :=
  rotateRaw_length fl hfl b hV U atoms hin nb kept h

/-- with the expected-count test in the model: `rotate` never raises "Filtering failed" for atoms inside a
    non-degenerate box, and returns what `rotateRaw` returns; the only refusal is `det U = 0`. -/
theorem rotate_check_passes (fl : K → Int) (hfl : ∀ x, fl x = ⌊x⌋) (b : Box K) (hV : M3.det b.vects ≠ 0) (U : M3 Int)
    (hU : M3.det U ≠ 0) (atoms : List (Atom K)) (hin : ∀ a ∈ atoms, InBox (b.cartToRel a.pos)) :
    ∃ kept, rotateRaw fl b U atoms = some (⟨newVects U b.vects, ⟨0, 0, 0⟩⟩, kept) ∧
      rotateChecked fl b U atoms = .ok (⟨newVects U b.vects, ⟨0, 0, 0⟩⟩, kept) ∧
      kept.length = (M3.det U).natAbs * atoms.length := by
  have h := rotateRaw_eq fl b U atoms hU
  refine ⟨_, h, ?_, rotateRaw_length fl hfl b hV U atoms hin _ _ h⟩
  unfold rotateChecked
  rw [h]
  simp only
  rw [if_pos (rotateRaw_length fl hfl b hV U atoms hin _ _ h)]

/-- **The identity shortcut is the general path.**  `rotate` with `uvws = identity` returns the system itself
    (cell re-expressed at the Cartesian origin, every atom moved by whole cell vectors into it); for atoms inside
    the box this is, up to the order of the atoms, what the bounding-supercell path returns. -/
theorem rotate_identity_shortcut (fl : K → Int) (hfl : ∀ x, fl x = ⌊x⌋) (b : Box K) (hV : M3.det b.vects ≠ 0)
    (atoms : List (Atom K)) (hin : ∀ a ∈ atoms, InBox (b.cartToRel a.pos)) :
    rotate fl b M3.one atoms = .ok (rotateIdentity fl b atoms) ∧
    ∃ kept, rotateChecked fl b M3.one atoms = .ok ((rotateIdentity fl b atoms).1, kept) ∧
      kept.Perm (rotateIdentity fl b atoms).2 := by
  refine ⟨by simp [rotate], ?_⟩
  obtain ⟨kept, h, hp⟩ := rotateRaw_one fl hfl b hV atoms hin
  refine ⟨kept, ?_, hp⟩
  unfold rotateChecked
  rw [h]
  simp only
  rw [if_pos (rotateRaw_length fl hfl b hV M3.one atoms hin _ _ h)]

/-- `rotate` (the whole model: shortcut, supercell, filter, count test) succeeds for every integer `U` with
    `det U ≠ 0` on atoms inside a non-degenerate box, and returns `|det U| · natoms` atoms. -/
theorem rotate_ok (fl : K → Int) (hfl : ∀ x, fl x = ⌊x⌋) (b : Box K) (hV : M3.det b.vects ≠ 0) (U : M3 Int)
    (hU : M3.det U ≠ 0) (atoms : List (Atom K)) (hin : ∀ a ∈ atoms, InBox (b.cartToRel a.pos)) :
    ∃ r, rotate fl b U atoms = .ok r ∧ r.2.length = (M3.det U).natAbs * atoms.length := by
  by_cases h1 : U = M3.one
  · subst h1
    refine ⟨_, (rotate_identity_shortcut fl hfl b hV atoms hin).1, ?_⟩
    simp [rotateIdentity, det_one]
  · obtain ⟨kept, _, h2, h3⟩ := rotate_check_passes fl hfl b hV U hU atoms hin
    exact ⟨_, by simp only [rotate, if_neg h1]; exact h2, h3⟩

end count

/-- the floor function the driver runs with is Mathlib's floor. -/
theorem rat_floor_eq (x : ℚ) : Rat.floor x = ⌊x⌋ := rfl

/-- the count for the executable model as the driver runs it (`K = ℚ`, `fl = Rat.floor`). -/
theorem rotate_total_rat (b : Box ℚ) (hV : M3.det b.vects ≠ 0) (U : M3 Int)
    (atoms : List (Atom ℚ)) (hin : ∀ a ∈ atoms, InBox (b.cartToRel a.pos)) (nb : Box ℚ) (kept : List (Atom ℚ))
    (h : rotateRaw Rat.floor b U atoms = some (nb, kept)) :
    kept.length = (M3.det U).natAbs * atoms.length :=
  rotate_total Rat.floor rat_floor_eq b hV U atoms hin nb kept h

/-! ### round 6: end to end — the calls as the user writes them -/

section api
variable {K : Type} [Field K] [LinearOrder K] [IsStrictOrderedRing K]

/-- **`System.supersize(a_size, b_size, c_size)` end to end**: for every accepted triple of arguments (non-zero
    integers / two-sided ranges around 0, in any mixture) the call returns; the multipliers are positive; the atom count
    and the (signed) volume are multiplied by their product; every atom of the result carries the type and the per-atom
    values of an original atom.  (Position, order and distinctness of the replicas: `supersize_get`, `replicaPos_eq`,
    `replica_injective` apply to the `sa sb sc` named here.) -/
theorem supersizeApi_ok (b : Box K) (a0 a1 a2 : SizeArg) (atoms : List (Atom K))
    (h : a0.Accepted ∧ a1.Accepted ∧ a2.Accepted) :
    ∃ sa sb sc, a0.resolve = .ok sa ∧ a1.resolve = .ok sb ∧ a2.resolve = .ok sc ∧
      supersizeApi b a0 a1 a2 atoms = .ok (superBox b sa sb sc, supersizeAtoms b sa sb sc atoms) ∧
      0 < sa.mult ∧ 0 < sb.mult ∧ 0 < sc.mult ∧
      ((supersizeAtoms b sa sb sc atoms).length : Int) = sa.mult * sb.mult * sc.mult * atoms.length ∧
      M3.det (superBox b sa sb sc).vects = ((sa.mult * sb.mult * sc.mult : Int) : K) * M3.det b.vects ∧
      ∀ a' ∈ supersizeAtoms b sa sb sc atoms, ∃ a ∈ atoms, a'.atype = a.atype ∧ a'.extra = a.extra := by
  obtain ⟨sa, ha⟩ := (resolve_ok_iff a0).mpr h.1
  obtain ⟨sb, hb⟩ := (resolve_ok_iff a1).mpr h.2.1
  obtain ⟨sc, hc⟩ := (resolve_ok_iff a2).mpr h.2.2
  have pa := (resolve_spec a0 sa ha).1
  have pb := (resolve_spec a1 sb hb).1
  have pc := (resolve_spec a2 sc hc).1
  refine ⟨sa, sb, sc, ha, hb, hc, ?_, pa, pb, pc, ?_, ?_, supersize_copies_payload b sa sb sc atoms⟩
  · have hr := (resolveSizes_ok a0 a1 a2 sa sb sc).mpr ⟨ha, hb, hc⟩
    simp [supersizeApi, hr, supersize]
  · rw [supersize_length]
    push_cast
    rw [Int.toNat_of_nonneg (le_of_lt pa), Int.toNat_of_nonneg (le_of_lt pb), Int.toNat_of_nonneg (le_of_lt pc)]
    ring
  · rw [superBox_volume]; push_cast; ring

/-- **refusal theorem for the call**: `supersize` raises exactly when one of the three arguments is not accepted. -/
theorem supersizeApi_refuses_iff (b : Box K) (a0 a1 a2 : SizeArg) (atoms : List (Atom K)) :
    (∃ e, supersizeApi b a0 a1 a2 atoms = .error e) ↔ ¬ (a0.Accepted ∧ a1.Accepted ∧ a2.Accepted) := by
  rw [← resolveSizes_ok_iff]
  unfold supersizeApi
  cases hr : resolveSizes a0 a1 a2 with
  | error e => simp
  | ok r => obtain ⟨sa, sb, sc⟩ := r; simp

example : ∃ r, supersizeApi (⟨M3.one, ⟨0, 0, 0⟩⟩ : Box ℚ) (.int (-2)) (.pair (-1) 1) (.int 1) [⟨1, ⟨0, 0, 0⟩, []⟩] = .ok r ∧
    r.2.length = 4 := ⟨_, rfl, by decide⟩

end api

section ladder
variable {K : Type} [Field K] [LinearOrder K] [IsStrictOrderedRing K] [FloorRing K]

/-- `rotateRaw` is the exact half-open filter over `rotateSup`. -/
theorem rotateRaw_eq_sup (fl : K → Int) (b : Box K) (U : M3 Int) (atoms : List (Atom K)) (hU : M3.det U ≠ 0) :
    rotateRaw fl b U atoms = some ((rotateSup fl b U atoms).1,
      (rotateSup fl b U atoms).2.filter fun a => inHalfOpen ((rotateSup fl b U atoms).1.cartToRel a.pos)) := by
  unfold rotateRaw rotateSup
  rw [if_neg hU]

/-- **`System.rotate` WITH its tolerance ladder, end to end**: for a non-degenerate box with every atom inside it (far
    faces included) and any integer vectors: if the first rung `t` of the ladder decides every atom of the bounding
    supercell as the exact test does (no atom within `t` of a face of the new cell: `ladderKeep_away`), the ladder stops
    at that rung and the call returns what the exact model `rotate` returns — exactly `|det U|` images of every atom
    (`rotate_count`); "Filtering failed" is not raised. -/
theorem rotateLadder_first_rung (fl : K → Int) (hfl : ∀ x, fl x = ⌊x⌋) (b : Box K) (hV : M3.det b.vects ≠ 0) (U : M3 Int)
    (hU : M3.det U ≠ 0) (atoms : List (Atom K)) (hin : ∀ a ∈ atoms, InBox (b.cartToRel a.pos)) (t : K) (ts : List K)
    (hclear : ∀ a ∈ (rotateSup fl b U atoms).2,
      ladderKeep t ((rotateSup fl b U atoms).1.cartToRel a.pos) = inHalfOpen ((rotateSup fl b U atoms).1.cartToRel a.pos)) :
    rotateLadder fl (t :: ts) b U atoms = rotate fl b U atoms ∧
    ∃ r, rotate fl b U atoms = .ok r ∧ r.2.length = (M3.det U).natAbs * atoms.length := by
  refine ⟨?_, rotate_ok fl hfl b hV U hU atoms hin⟩
  by_cases h1 : U = M3.one
  · simp [rotateLadder, rotate, h1]
  · obtain ⟨kept, hraw, hchk, hlen⟩ := rotate_check_passes fl hfl b hV U hU atoms hin
    have hs := rotateRaw_eq_sup fl b U atoms hU
    rw [hraw] at hs
    have hk : kept = (rotateSup fl b U atoms).2.filter
        fun a => inHalfOpen ((rotateSup fl b U atoms).1.cartToRel a.pos) := by
      have := Option.some.inj hs
      exact (Prod.mk.inj this).2
    have hnb : (rotateSup fl b U atoms).1 = ⟨newVects U b.vects, ⟨0, 0, 0⟩⟩ := by
      have := Option.some.inj hs
      exact ((Prod.mk.inj this).1).symm
    have hf : ladderFilter t (rotateSup fl b U atoms).1 (rotateSup fl b U atoms).2 = kept := by
      rw [hk]; unfold ladderFilter
      exact List.filter_congr hclear
    simp only [rotateLadder, rotate, if_neg h1, if_neg hU]
    rw [ladderLoop_first _ _ _ t ts (by rw [hf]; exact hlen), hf, hchk, hnb]

/-- the driver's instance. -/
theorem rotateLadder_first_rung_rat (b : Box ℚ) (hV : M3.det b.vects ≠ 0) (U : M3 Int) (hU : M3.det U ≠ 0)
    (atoms : List (Atom ℚ)) (hin : ∀ a ∈ atoms, InBox (b.cartToRel a.pos)) (t : ℚ) (ts : List ℚ)
    (hclear : ∀ a ∈ (rotateSup Rat.floor b U atoms).2,
      ladderKeep t ((rotateSup Rat.floor b U atoms).1.cartToRel a.pos)
        = inHalfOpen ((rotateSup Rat.floor b U atoms).1.cartToRel a.pos)) :
    rotateLadder Rat.floor (t :: ts) b U atoms = rotate Rat.floor b U atoms :=
  (rotateLadder_first_rung Rat.floor rat_floor_eq b hV U hU atoms hin t ts hclear).1

end ladder

section natoms
variable {K : Type} [Field K] [LinearOrder K] [IsStrictOrderedRing K]
open Atomman.C04.Gen

/-- **the expected count of the source is the model's**: `int(round(newvolume / volume) * natoms)` with
    `newvolume = |newvects[0]·(newvects[1]×newvects[2])|`, `volume = |det vects|` is `|det U|·natoms` (exact arithmetic;
    `rnd` = `round`, the identity on integers) — the number `rotateChecked` / `rotateLadder` compare the selection with. -/
theorem gen_newNatoms_eq_model (rnd : K → Int) (hr : ∀ n : Int, rnd (n : K) = n) (U : M3 Int) (V : M3 K)
    (hV : M3.det V ≠ 0) (N : Nat) :
    genNewNatoms rnd (genNewVolume (newVects U V)) |M3.det V| N = (((M3.det U).natAbs * N : Nat) : Int) := by
  unfold genNewNatoms
  rw [gen_newVolume_eq_model, newVects_det, abs_mul, mul_div_assoc, div_self (abs_ne_zero.mpr hV), mul_one,
    ← Int.cast_abs, hr]
  push_cast
  rw [Int.abs_eq_natAbs]

/-- the refusal "vectors are parallel or planar" (`newnatoms == 0`) is `det U = 0` for a system with atoms. -/
theorem gen_planar_refusal_iff (rnd : K → Int) (hr : ∀ n : Int, rnd (n : K) = n) (U : M3 Int) (V : M3 K)
    (hV : M3.det V ≠ 0) (N : Nat) (hN : 0 < N) :
    genNewNatoms rnd (genNewVolume (newVects U V)) |M3.det V| N = 0 ↔ M3.det U = 0 := by
  rw [gen_newNatoms_eq_model rnd hr U V hV N]
  constructor
  · intro h
    have h' : (M3.det U).natAbs * N = 0 := by exact_mod_cast h
    rcases Nat.mul_eq_zero.mp h' with h1 | h1
    · exact Int.natAbs_eq_zero.mp h1
    · omega
  · intro h; simp [h]
end natoms

/-! ### non-vacuity -/
example : decode 2 3 2 (encode 2 3 2 1 2 1 4) = (1, 2, 1, 4) := by decide
example : (supersizeAtoms (K := ℚ) ⟨M3.one, ⟨0, 0, 0⟩⟩ ⟨0, 2⟩ ⟨-1, 1⟩ ⟨0, 1⟩ [⟨1, ⟨0, 0, 0⟩, []⟩]).length = 4 := by
  rw [supersize_length]; decide


/-- non-vacuity of `rotate_count` / `rotate_total` at `K = ℚ` with the driver's floor: fcc-like two-atom cubic cell,
    `U = [[1,1,0],[-1,1,0],[0,0,1]]` (det 2), origin away from zero: 4 atoms are kept. -/
example : ∃ nb kept, rotateRaw Rat.floor (⟨M3.one, ⟨-5/2, 7/4, 0⟩⟩ : Box ℚ) ⟨⟨1, 1, 0⟩, ⟨-1, 1, 0⟩, ⟨0, 0, 1⟩⟩
    [⟨1, ⟨-5/2, 7/4, 0⟩, []⟩, ⟨2, ⟨-2, 9/4, 1/2⟩, [3]⟩] = some (nb, kept) ∧ kept.length = 4 := by
  refine ⟨_, _, rfl, ?_⟩
  decide +kernel
example : (M3.det (⟨⟨1, 1, 0⟩, ⟨-1, 1, 0⟩, ⟨0, 0, 1⟩⟩ : M3 Int)).natAbs = 2 := by decide
example : InCell ((⟨M3.one, ⟨-5/2, 7/4, 0⟩⟩ : Box ℚ).cartToRel ⟨-2, 9/4, 1/2⟩) := by
  simp only [InCell, Box.cartToRel, Box.recip, M3.inv, M3.one, M3.transpose, M3.mulVec, M3.det, V3.dot, V3.cross]
  norm_num

/-- the hypothesis `InBox` admits atoms listed on the far faces (relative coordinate 1): the same cell with its second
    atom stored at relative `(1, 1/2, 1)` still yields 4 kept atoms. -/
example : InBox ((⟨M3.one, ⟨-5/2, 7/4, 0⟩⟩ : Box ℚ).cartToRel ⟨-3/2, 9/4, 1⟩) := by
  simp only [InBox, Box.cartToRel, Box.recip, M3.inv, M3.one, M3.transpose, M3.mulVec, M3.det, V3.dot, V3.cross]
  norm_num
example : ∃ nb kept, rotateRaw Rat.floor (⟨M3.one, ⟨-5/2, 7/4, 0⟩⟩ : Box ℚ) ⟨⟨1, 1, 0⟩, ⟨-1, 1, 0⟩, ⟨0, 0, 1⟩⟩
    [⟨1, ⟨-5/2, 7/4, 0⟩, []⟩, ⟨2, ⟨-3/2, 9/4, 1⟩, [3]⟩] = some (nb, kept) ∧ kept.length = 4 := by
  refine ⟨_, _, rfl, ?_⟩
  decide +kernel

/-- (statement audit) non-vacuity of `rotateLadder_first_rung` / `rotateLadder_first_rung_rat` with a NON-zero first rung
    (`t = 1/10000`, the default ladder's first value; with `t = 0` the hypothesis `hclear` is `ladderKeep_zero`): the
    two-atom cell above, `det U = 2`, origin away from zero.  Every atom of the translated bounding supercell is decided
    by the rung as by the exact test, the ladder returns what `rotate` returns, 4 atoms; and with the second atom moved
    `3/100000` below a face of the NEW cell the first rung decides it differently (so `hclear` is a real restriction). -/
example :
    let b : Box ℚ := ⟨M3.one, ⟨-5/2, 7/4, 0⟩⟩
    let U : M3 Int := ⟨⟨1, 1, 0⟩, ⟨-1, 1, 0⟩, ⟨0, 0, 1⟩⟩
    let atoms : List (Atom ℚ) := [⟨1, ⟨-5/2, 7/4, 0⟩, []⟩, ⟨2, ⟨-2, 9/4, 1/2⟩, [3]⟩]
    let near : List (Atom ℚ) := [⟨1, ⟨-5/2, 7/4, 0⟩, []⟩, ⟨2, ⟨-2, 9/4, 1 - 3/100000⟩, [3]⟩]
    ((rotateSup Rat.floor b U atoms).2.all fun a =>
      ladderKeep (1/10000) ((rotateSup Rat.floor b U atoms).1.cartToRel a.pos)
        == inHalfOpen ((rotateSup Rat.floor b U atoms).1.cartToRel a.pos)) = true ∧
    rotateLadder Rat.floor [1/10000, 1/100000] b U atoms = rotate Rat.floor b U atoms ∧
    (rotateLadder Rat.floor [1/10000, 1/100000] b U atoms).toOption.map (·.2.length) = some 4 ∧
    ((rotateSup Rat.floor b U near).2.all fun a =>
      ladderKeep (1/10000) ((rotateSup Rat.floor b U near).1.cartToRel a.pos)
        == inHalfOpen ((rotateSup Rat.floor b U near).1.cartToRel a.pos)) = false := by
  decide +kernel

end Atomman.C04
