/-
  C06 — the observers of a `System` (`symbols`, `masses`, `natypes`, `atypes`, `composition`) and
  the lazily padded tuples behind them.

  The stored tuples (`SysObj.symbols`, `SysObj.masses`) are *hidden* state: they are padded only when
  a getter or setter runs, so after the number of atom types has grown through the atoms they are
  stale until somebody reads them.  This file gives the closed form of every getter as a function of
  the stored tuples and of `atoms.natypes` (`symView`, `ntView`, `massView`), shows that the getters
  only ever replace a stored tuple by its own view (`ObsEq`), and concludes that what a getter returns
  does not depend on which other getters were read before it, on which systems, in which order.
-/
import Proofs.C06_Aux

namespace Atomman.C06
set_option linter.unusedSimpArgs false
set_option linter.unusedVariables false

/-! ### the two new observers keep the invariant -/

theorem inv_sysAtypes {κ : Nat → String} {s : State} (h : InvK κ s) (i : Nat) :
    Post (sysAtypes i) s (fun r s' => SysSame κ s s' ∧
      ∀ l, r = .ok l → i < s.syss.length → ∃ nt, ntOf s i = .ok nt ∧ nt ≤ l.length) := by
  unfold sysAtypes
  rw [post_bind]
  apply Post.mono (inv_sysNatypes h i)
  intro r s1 ⟨hk, hres⟩
  cases r with
  | error e => exact ⟨hk, fun l hc => by cases hc⟩
  | ok n =>
    simp only []
    rw [post_pure]
    refine ⟨hk, ?_⟩
    intro l hl hi
    obtain ⟨nt, hnt, hle⟩ := hres n rfl hi
    have : l = (List.range n).map (· + 1) := by
      have : (Except.ok ((List.range n).map (· + 1)) : Except Err (List Nat)) = .ok l := hl
      injection this with this; exact this.symm
    exact ⟨nt, hnt, by rw [this]; simpa using hle⟩

theorem inv_composition {κ : Nat → String} {s : State} (h : InvK κ s) (i : Nat) :
    Post (composition i) s (fun _ s' => SysSame κ s s') := by
  unfold composition
  rw [post_bind]
  apply Post.mono (inv_sysNatypes h i)
  intro r s1 ⟨hk, _⟩
  cases r with
  | error e => exact hk
  | ok n =>
    simp only []
    rw [post_bind]
    apply Post.mono (inv_symbolsGet hk.1.inv i)
    intro r s2 ⟨hk2, _⟩
    cases r with
    | error e => exact hk.trans hk2
    | ok syms =>
      simp only []
      rw [post_bind_getS, post_bind_keyErr]
      split
      · split
        · exact hk.trans hk2
        · exact hk.trans hk2
      · exact hk.trans hk2

/-! ### closed forms of the getters -/

/-- the state in which system `i` stores `l` as its symbols / masses. -/
def putSym (s : State) (i : Nat) (l : List (Option String)) : State :=
  { s with syss := s.syss.set i { s.sys i with symbols := l } }
def putMass (s : State) (i : Nat) (l : List (Option Rat)) : State :=
  { s with syss := s.syss.set i { s.sys i with masses := l } }

/-- what the `symbols` getter returns when `atoms.natypes = nt`: the stored tuple padded with `None`. -/
def symView (s : State) (i nt : Nat) : List (Option String) := padTo (s.sys i).symbols nt
/-- what `System.natypes` returns. -/
def ntView (s : State) (i nt : Nat) : Nat :=
  if (symView s i nt).length > nt then (symView s i nt).length else nt
/-- what the `masses` getter returns. -/
def massView (s : State) (i nt : Nat) : List (Option Rat) := padTo (s.sys i).masses (ntView s i nt)

theorem padTo_of_le {α : Type} (l : List (Option α)) (n : Nat) (h : ¬ l.length < n) : padTo l n = l := by
  unfold padTo; simp [h]

theorem padTo_idem {α : Type} (l : List (Option α)) (n : Nat) : padTo (padTo l n) n = padTo l n :=
  padTo_of_le _ _ (by have := (padTo_length l n).1; omega)

theorem sys_getElem (s : State) (i : Nat) (hi : i < s.syss.length) : s.syss[i] = s.sys i := by
  simp [State.sys, hi]

theorem putSym_sys (s : State) (i j : Nat) (l : List (Option String)) :
    (putSym s i l).sys j = if j = i ∧ i < s.syss.length then { s.sys i with symbols := l } else s.sys j :=
  sys_set s i j _

theorem putMass_sys (s : State) (i j : Nat) (l : List (Option Rat)) :
    (putMass s i l).sys j = if j = i ∧ i < s.syss.length then { s.sys i with masses := l } else s.sys j :=
  sys_set s i j _

theorem putSym_self (s : State) (i : Nat) (hi : i < s.syss.length) : putSym s i (s.sys i).symbols = s := by
  unfold putSym
  have : ({ s.sys i with symbols := (s.sys i).symbols } : SysObj) = s.sys i := rfl
  rw [this, ← sys_getElem s i hi, List.set_getElem_self]

theorem putMass_self (s : State) (i : Nat) (hi : i < s.syss.length) : putMass s i (s.sys i).masses = s := by
  unfold putMass
  have : ({ s.sys i with masses := (s.sys i).masses } : SysObj) = s.sys i := rfl
  rw [this, ← sys_getElem s i hi, List.set_getElem_self]

theorem ntOf_of_eq (s s' : State) (j : Nat) (h1 : s'.heap = s.heap) (h2 : s'.objs = s.objs)
    (h3 : (s'.sys j).atoms = (s.sys j).atoms) : ntOf s' j = ntOf s j := by
  unfold ntOf
  rw [h3]
  exact natypes_fst_congr _ s s' h1 h2

theorem ntOf_putSym (s : State) (i j : Nat) (l : List (Option String)) : ntOf (putSym s i l) j = ntOf s j := by
  apply ntOf_of_eq s (putSym s i l) j rfl rfl
  rw [putSym_sys]; split
  · rename_i h; rw [h.1]
  · rfl

theorem ntOf_putMass (s : State) (i j : Nat) (l : List (Option Rat)) : ntOf (putMass s i l) j = ntOf s j := by
  apply ntOf_of_eq s (putMass s i l) j rfl rfl
  rw [putMass_sys]; split
  · rename_i h; rw [h.1]
  · rfl

theorem natypes_of_ntOf (s : State) (i nt : Nat) (h : ntOf s i = .ok nt) :
    (natypes (s.sys i).atoms s).1 = .ok nt := h

theorem natypes_of_ntOf_err (s : State) (i : Nat) (e : Err) (h : ntOf s i = .error e) :
    (natypes (s.sys i).atoms s).1 = .error e := h

theorem symbolsSet_closed (i : Nat) (v : List (Option String)) (s : State) (nt : Nat) (hnt : ntOf s i = .ok nt) :
    symbolsSet i v s = (.ok (), putSym s i (padTo v nt)) := by
  apply eq_of_post
  unfold symbolsSet
  rw [post_bind_getS, post_bind_natypes, natypes_of_ntOf s i nt hnt]
  exact ⟨rfl, rfl⟩

theorem symbolsGet_closed (i : Nat) (s : State) (nt : Nat) (hi : i < s.syss.length) (hnt : ntOf s i = .ok nt) :
    symbolsGet i s = (.ok (symView s i nt), putSym s i (symView s i nt)) := by
  apply eq_of_post
  unfold symbolsGet
  rw [post_bind_getS, post_bind_natypes, natypes_of_ntOf s i nt hnt]
  simp only []
  rw [post_bind]
  split
  · apply Post.of_eq _ _ (symbolsSet_closed i _ s nt hnt)
    simp only []
    rw [post_bind_getS, post_pure]
    refine ⟨?_, rfl⟩
    rw [putSym_sys]; simp [hi, symView]
  · rename_i hge
    rw [post_pure]
    simp only []
    rw [post_bind_getS, post_pure]
    have hv : symView s i nt = (s.sys i).symbols := padTo_of_le _ _ hge
    rw [hv]
    exact ⟨rfl, (putSym_self s i hi).symm⟩

theorem symbolsGet_closed_err (i : Nat) (s : State) (e : Err) (hnt : ntOf s i = .error e) :
    symbolsGet i s = (.error e, s) := by
  apply eq_of_post
  unfold symbolsGet
  rw [post_bind_getS, post_bind_natypes, natypes_of_ntOf_err s i e hnt]
  exact ⟨rfl, rfl⟩

theorem sysNatypes_closed (i : Nat) (s : State) (nt : Nat) (hi : i < s.syss.length) (hnt : ntOf s i = .ok nt) :
    sysNatypes i s = (.ok (ntView s i nt), putSym s i (symView s i nt)) := by
  apply eq_of_post
  unfold sysNatypes
  rw [post_bind]
  apply Post.of_eq _ _ (symbolsGet_closed i s nt hi hnt)
  simp only []
  rw [post_bind_getS, post_bind_natypes]
  have h1 : ntOf (putSym s i (symView s i nt)) i = .ok nt := by rw [ntOf_putSym]; exact hnt
  rw [natypes_of_ntOf _ i nt h1]
  exact ⟨rfl, rfl⟩

theorem sysNatypes_closed_err (i : Nat) (s : State) (e : Err) (hnt : ntOf s i = .error e) :
    sysNatypes i s = (.error e, s) := by
  apply eq_of_post
  unfold sysNatypes
  rw [post_bind]
  apply Post.of_eq _ _ (symbolsGet_closed_err i s e hnt)
  exact ⟨rfl, rfl⟩

theorem symView_putSym (s : State) (i nt : Nat) (hi : i < s.syss.length) :
    symView (putSym s i (symView s i nt)) i nt = symView s i nt := by
  unfold symView
  rw [putSym_sys]; simp only [hi, and_self, if_true]
  exact padTo_idem _ _

theorem ntView_putSym (s : State) (i nt : Nat) (hi : i < s.syss.length) :
    ntView (putSym s i (symView s i nt)) i nt = ntView s i nt := by
  unfold ntView; rw [symView_putSym s i nt hi]

theorem putSym_len (s : State) (i : Nat) (l : List (Option String)) : (putSym s i l).syss.length = s.syss.length := by
  simp [putSym]

theorem putMass_len (s : State) (i : Nat) (l : List (Option Rat)) : (putMass s i l).syss.length = s.syss.length := by
  simp [putMass]

theorem putSym_putSym (s : State) (i nt : Nat) (hi : i < s.syss.length) :
    putSym (putSym s i (symView s i nt)) i (symView s i nt) = putSym s i (symView s i nt) := by
  have h := putSym_self (putSym s i (symView s i nt)) i (by rw [putSym_len]; exact hi)
  have h2 : ((putSym s i (symView s i nt)).sys i).symbols = symView s i nt := by
    rw [putSym_sys]; simp [hi]
  rw [h2] at h
  exact h

/-- reading `symbols` a second time changes nothing. -/
theorem symbolsGet_again (i : Nat) (s : State) (nt : Nat) (hi : i < s.syss.length) (hnt : ntOf s i = .ok nt) :
    symbolsGet i (putSym s i (symView s i nt)) = (.ok (symView s i nt), putSym s i (symView s i nt)) := by
  have hi1 : i < (putSym s i (symView s i nt)).syss.length := by rw [putSym_len]; exact hi
  have hnt1 : ntOf (putSym s i (symView s i nt)) i = .ok nt := by rw [ntOf_putSym]; exact hnt
  rw [symbolsGet_closed i _ nt hi1 hnt1, symView_putSym s i nt hi, putSym_putSym s i nt hi]

theorem massesSet_closed (i : Nat) (v : List (Option Rat)) (s : State) (nt : Nat) (hi : i < s.syss.length)
    (hnt : ntOf s i = .ok nt) :
    massesSet i v s = if v.length > ntView s i nt then (.error .value, putSym s i (symView s i nt))
      else (.ok (), putMass (putSym s i (symView s i nt)) i (padTo v (ntView s i nt))) := by
  by_cases h : v.length > ntView s i nt
  · rw [if_pos h]
    apply eq_of_post
    unfold massesSet
    rw [post_bind]
    apply Post.of_eq _ _ (sysNatypes_closed i s nt hi hnt)
    simp only [h, if_true]
    exact ⟨rfl, rfl⟩
  · rw [if_neg h]
    apply eq_of_post
    unfold massesSet
    rw [post_bind]
    apply Post.of_eq _ _ (sysNatypes_closed i s nt hi hnt)
    simp only [h, if_false]
    exact ⟨rfl, rfl⟩

theorem massesGet_closed (i : Nat) (s : State) (nt : Nat) (hi : i < s.syss.length) (hnt : ntOf s i = .ok nt) :
    massesGet i s = (.ok (massView s i nt), putMass (putSym s i (symView s i nt)) i (massView s i nt)) := by
  have hi1 : i < (putSym s i (symView s i nt)).syss.length := by rw [putSym_len]; exact hi
  have hnt1 : ntOf (putSym s i (symView s i nt)) i = .ok nt := by rw [ntOf_putSym]; exact hnt
  have hm : ((putSym s i (symView s i nt)).sys i).masses = (s.sys i).masses := by
    rw [putSym_sys]; simp [hi]
  apply eq_of_post
  unfold massesGet
  rw [post_bind]
  apply Post.of_eq _ _ (sysNatypes_closed i s nt hi hnt)
  simp only []
  rw [post_bind_getS, post_bind]
  split
  · rename_i hlt
    rw [hm] at hlt
    have hset : massesSet i ((putSym s i (symView s i nt)).sys i).masses (putSym s i (symView s i nt)) =
        (.ok (), putMass (putSym s i (symView s i nt)) i (massView s i nt)) := by
      rw [massesSet_closed i _ _ nt hi1 hnt1, ntView_putSym s i nt hi, symView_putSym s i nt hi,
        putSym_putSym s i nt hi, hm]
      have : ¬ (s.sys i).masses.length > ntView s i nt := by omega
      rw [if_neg this]
      rfl
    apply Post.of_eq _ _ hset
    simp only []
    rw [post_bind_getS, post_pure]
    refine ⟨?_, rfl⟩
    rw [putMass_sys]; simp [hi1, massView]
  · rename_i hge
    rw [hm] at hge
    rw [post_pure]
    simp only []
    rw [post_bind_getS, post_pure]
    have hv : massView s i nt = (s.sys i).masses := padTo_of_le _ _ hge
    rw [hv, hm]
    refine ⟨rfl, ?_⟩
    have := putMass_self (putSym s i (symView s i nt)) i hi1
    rw [hm] at this
    exact this.symm

theorem massesGet_closed_err (i : Nat) (s : State) (e : Err) (hnt : ntOf s i = .error e) :
    massesGet i s = (.error e, s) := by
  apply eq_of_post
  unfold massesGet
  rw [post_bind]
  apply Post.of_eq _ _ (sysNatypes_closed_err i s e hnt)
  exact ⟨rfl, rfl⟩

theorem sysAtypes_closed (i : Nat) (s : State) (nt : Nat) (hi : i < s.syss.length) (hnt : ntOf s i = .ok nt) :
    sysAtypes i s = (.ok ((List.range (ntView s i nt)).map (· + 1)), putSym s i (symView s i nt)) := by
  apply eq_of_post
  unfold sysAtypes
  rw [post_bind]
  apply Post.of_eq _ _ (sysNatypes_closed i s nt hi hnt)
  exact ⟨rfl, rfl⟩

theorem sysAtypes_closed_err (i : Nat) (s : State) (e : Err) (hnt : ntOf s i = .error e) :
    sysAtypes i s = (.error e, s) := by
  apply eq_of_post
  unfold sysAtypes
  rw [post_bind]
  apply Post.of_eq _ _ (sysNatypes_closed_err i s e hnt)
  exact ⟨rfl, rfl⟩

/-- `composition` as a function of the atoms' types and of the two views. -/
def compView (s : State) (i nt : Nat) : Except Err (Option String) :=
  match (s.obj (s.sys i).atoms).find "atype" with
  | none => .error .key
  | some a => match (arrVal s a).data.mapM Cell.num? with
    | none => .error .unmodelled
    | some nums => compOf nums (symView s i nt) (ntView s i nt)

theorem composition_closed (i : Nat) (s : State) (nt : Nat) (hi : i < s.syss.length) (hnt : ntOf s i = .ok nt) :
    composition i s = (compView s i nt, putSym s i (symView s i nt)) := by
  have hi1 : i < (putSym s i (symView s i nt)).syss.length := by rw [putSym_len]; exact hi
  have hnt1 : ntOf (putSym s i (symView s i nt)) i = .ok nt := by rw [ntOf_putSym]; exact hnt
  have hat : ((putSym s i (symView s i nt)).sys i).atoms = (s.sys i).atoms := by
    rw [putSym_sys]; simp [hi]
  apply eq_of_post
  unfold composition
  rw [post_bind]
  apply Post.of_eq _ _ (sysNatypes_closed i s nt hi hnt)
  simp only []
  rw [post_bind]
  apply Post.of_eq _ _ (symbolsGet_again i s nt hi hnt)
  simp only []
  rw [post_bind_getS, post_bind_keyErr, hat]
  have hobj : ∀ o, (putSym s i (symView s i nt)).obj o = s.obj o := fun o => rfl
  have harr : ∀ a, arrVal (putSym s i (symView s i nt)) a = arrVal s a := fun a => rfl
  unfold compView
  rw [hobj]
  cases hf : (s.obj (s.sys i).atoms).find "atype" with
  | none => exact ⟨rfl, rfl⟩
  | some a =>
    simp only [harr]
    cases hm : (arrVal s a).data.mapM Cell.num? with
    | none => exact ⟨rfl, rfl⟩
    | some nums => exact ⟨rfl, rfl⟩

theorem composition_closed_err (i : Nat) (s : State) (e : Err) (hnt : ntOf s i = .error e) :
    composition i s = (.error e, s) := by
  apply eq_of_post
  unfold composition
  rw [post_bind]
  apply Post.of_eq _ _ (sysNatypes_closed_err i s e hnt)
  exact ⟨rfl, rfl⟩

/-! ### observational equivalence and the observers as operations of a history -/

/-- `s'` looks like `s` through every getter: same heap, same objects, the same systems over the same
    atoms; the stored tuples may differ, but only by padding that the getters would add anyway. -/
structure ObsEq (s s' : State) : Prop where
  heap : s'.heap = s.heap
  objs : s'.objs = s.objs
  len : s'.syss.length = s.syss.length
  atoms : ∀ j, (s'.sys j).atoms = (s.sys j).atoms
  views : ∀ j nt, ntOf s j = .ok nt → symView s' j nt = symView s j nt ∧ massView s' j nt = massView s j nt

theorem ObsEq.refl (s : State) : ObsEq s s := ⟨rfl, rfl, rfl, fun _ => rfl, fun _ _ _ => ⟨rfl, rfl⟩⟩

theorem ObsEq.ntOf_eq {s s' : State} (h : ObsEq s s') (j : Nat) : ntOf s' j = ntOf s j :=
  ntOf_of_eq s s' j h.heap h.objs (h.atoms j)

theorem ObsEq.trans {s s1 s2 : State} (h1 : ObsEq s s1) (h2 : ObsEq s1 s2) : ObsEq s s2 :=
  ⟨h2.heap.trans h1.heap, h2.objs.trans h1.objs, h2.len.trans h1.len, fun j => (h2.atoms j).trans (h1.atoms j),
    fun j nt hnt =>
      have h := h2.views j nt (by rw [h1.ntOf_eq j]; exact hnt)
      ⟨h.1.trans (h1.views j nt hnt).1, h.2.trans (h1.views j nt hnt).2⟩⟩

theorem ntView_congr (s s' : State) (i nt : Nat) (h : symView s' i nt = symView s i nt) :
    ntView s' i nt = ntView s i nt := by unfold ntView; rw [h]

theorem views_of_sys_eq (s s' : State) (j n : Nat) (h : s'.sys j = s.sys j) :
    symView s' j n = symView s j n ∧ massView s' j n = massView s j n := by
  unfold massView ntView symView; rw [h]; exact ⟨rfl, rfl⟩

theorem obsEq_putSym (s : State) (i nt : Nat) (hi : i < s.syss.length) (hnt : ntOf s i = .ok nt) :
    ObsEq s (putSym s i (symView s i nt)) := by
  refine ⟨rfl, rfl, putSym_len _ _ _, ?_, ?_⟩
  · intro j
    rw [putSym_sys]; split
    · rename_i h; rw [h.1]
    · rfl
  · intro j nt' hnt'
    by_cases hj : j = i
    · subst hj
      have : nt' = nt := by rw [hnt] at hnt'; injection hnt' with h; exact h.symm
      subst this
      have hs := symView_putSym s j nt' hi
      refine ⟨hs, ?_⟩
      unfold massView
      rw [ntView_congr _ _ _ _ hs]
      congr 1
      rw [putSym_sys]; simp [hi]
    · exact views_of_sys_eq _ _ _ _ (by rw [putSym_sys]; simp [hj])

theorem obsEq_putMass (s : State) (i nt : Nat) (hi : i < s.syss.length) (hnt : ntOf s i = .ok nt) :
    ObsEq s (putMass s i (massView s i nt)) := by
  refine ⟨rfl, rfl, putMass_len _ _ _, ?_, ?_⟩
  · intro j
    rw [putMass_sys]; split
    · rename_i h; rw [h.1]
    · rfl
  · intro j nt' hnt'
    by_cases hj : j = i
    · subst hj
      have hs : ∀ n, symView (putMass s j (massView s j nt)) j n = symView s j n := by
        intro n; unfold symView; rw [putMass_sys]; simp [hi]
      refine ⟨hs nt', ?_⟩
      have : nt' = nt := by rw [hnt] at hnt'; injection hnt' with h; exact h.symm
      subst this
      have hm : ((putMass s j (massView s j nt')).sys j).masses = massView s j nt' := by
        rw [putMass_sys]; simp [hi]
      show padTo ((putMass s j (massView s j nt')).sys j).masses (ntView (putMass s j (massView s j nt')) j nt') = _
      rw [hm, ntView_congr _ _ _ _ (hs nt')]
      exact padTo_idem _ _
    · exact views_of_sys_eq _ _ _ _ (by rw [putMass_sys]; simp [hj])

/-- the observers of a `System`. -/
inductive Getter where
  | symbols | masses | natypes | atypes | composition
deriving DecidableEq, Repr

def Getter.op : Getter → Nat → Op
  | .symbols, i => .symbolsGet i
  | .masses, i => .massesGet i
  | .natypes, i => .sysNatypes i
  | .atypes, i => .sysAtypes i
  | .composition, i => .composition i

/-- an operation of a history that only observes a system. -/
def IsObs (op : Op) : Prop := ∃ g i, op = Getter.op g i

def mapOut {α : Type} (f : α → Out) : Except Err α → Except Err Out
  | .ok a => .ok (f a)
  | .error e => .error e

/-- what observer `g` returns on system `i` when `atoms.natypes = nt`. -/
def Getter.view (g : Getter) (s : State) (i nt : Nat) : Except Err Out :=
  match g with
  | .symbols => .ok (.syms (symView s i nt))
  | .masses => .ok (.masses (massView s i nt))
  | .natypes => .ok (.nat (ntView s i nt))
  | .atypes => .ok (.nats ((List.range (ntView s i nt)).map (· + 1)))
  | .composition => mapOut Out.comp (compView s i nt)

/-- the state observer `g` leaves behind: stored tuples replaced by their views. -/
def Getter.after (g : Getter) (s : State) (i nt : Nat) : State :=
  match g with
  | .masses => putMass (putSym s i (symView s i nt)) i (massView s i nt)
  | _ => putSym s i (symView s i nt)

theorem bind_pure_eq {α : Type} (m : M α) (f : α → Out) (s : State) (x : Except Err α) (y : State) (h : m s = (x, y)) :
    (do let a ← m; pure (f a) : M Out) s = (mapOut f x, y) := by
  show M.bind m _ s = _
  unfold M.bind
  rw [h]
  cases x <;> rfl

theorem run_getter_closed (off : Bool) (g : Getter) (i : Nat) (s : State) (nt : Nat) (hi : i < s.syss.length)
    (hnt : ntOf s i = .ok nt) : run off (g.op i) s = (g.view s i nt, g.after s i nt) := by
  cases g with
  | symbols => exact bind_pure_eq _ _ s _ _ (symbolsGet_closed i s nt hi hnt)
  | masses => exact bind_pure_eq _ _ s _ _ (massesGet_closed i s nt hi hnt)
  | natypes => exact bind_pure_eq _ _ s _ _ (sysNatypes_closed i s nt hi hnt)
  | atypes => exact bind_pure_eq _ _ s _ _ (sysAtypes_closed i s nt hi hnt)
  | composition => exact bind_pure_eq _ _ s _ _ (composition_closed i s nt hi hnt)

theorem run_getter_closed_err (off : Bool) (g : Getter) (i : Nat) (s : State) (e : Err)
    (hnt : ntOf s i = .error e) : run off (g.op i) s = (.error e, s) := by
  cases g with
  | symbols => exact bind_pure_eq _ _ s _ _ (symbolsGet_closed_err i s e hnt)
  | masses => exact bind_pure_eq _ _ s _ _ (massesGet_closed_err i s e hnt)
  | natypes => exact bind_pure_eq _ _ s _ _ (sysNatypes_closed_err i s e hnt)
  | atypes => exact bind_pure_eq _ _ s _ _ (sysAtypes_closed_err i s e hnt)
  | composition => exact bind_pure_eq _ _ s _ _ (composition_closed_err i s e hnt)

theorem obsEq_after (g : Getter) (s : State) (i nt : Nat) (hi : i < s.syss.length) (hnt : ntOf s i = .ok nt) :
    ObsEq s (g.after s i nt) := by
  have h1 := obsEq_putSym s i nt hi hnt
  cases g with
  | masses =>
    have hi1 : i < (putSym s i (symView s i nt)).syss.length := by rw [putSym_len]; exact hi
    have hnt1 : ntOf (putSym s i (symView s i nt)) i = .ok nt := by rw [ntOf_putSym]; exact hnt
    have h2 := obsEq_putMass _ i nt hi1 hnt1
    have hm : massView (putSym s i (symView s i nt)) i nt = massView s i nt := (h1.views i nt hnt).2
    rw [hm] at h2
    exact h1.trans h2
  | symbols => exact h1
  | natypes => exact h1
  | atypes => exact h1
  | composition => exact h1

theorem getter_lits (g : Getter) (i : Nat) : (g.op i).litsOk = true := by cases g <;> rfl
theorem getter_ids (g : Getter) (i : Nat) (s : State) : (g.op i).idsOk s = decide (i < s.syss.length) := by
  cases g <;> rfl

/-- the reply to an observer, and the two states it can leave. -/
theorem stepWith_getter (off : Bool) (s : State) (g : Getter) (i : Nat) :
    (stepWith off s (g.op i)).1 =
      (if i < s.syss.length then
        (match ntOf s i with | .error e => .error e | .ok nt => g.view s i nt)
       else .error .format) ∧
    ((stepWith off s (g.op i)).2 = s ∨
      ∃ nt, i < s.syss.length ∧ ntOf s i = .ok nt ∧ (stepWith off s (g.op i)).2 = g.after s i nt) := by
  by_cases hi : i < s.syss.length
  · have hc : (g.op i).litsOk = true ∧ (g.op i).idsOk s = true := ⟨getter_lits g i, by rw [getter_ids]; simpa using hi⟩
    rw [if_pos hi]
    unfold stepWith
    simp only [hc, and_self, not_true_eq_false, if_false]
    cases hnt : ntOf s i with
    | error e =>
      rw [run_getter_closed_err off g i s e hnt]
      cases e <;> exact ⟨rfl, Or.inl rfl⟩
    | ok nt =>
      rw [run_getter_closed off g i s nt hi hnt]
      simp only []
      cases hv : g.view s i nt with
      | ok out => exact ⟨rfl, Or.inr ⟨nt, hi, rfl, rfl⟩⟩
      | error e =>
        cases e
        case unmodelled => exact ⟨rfl, Or.inl rfl⟩
        all_goals exact ⟨rfl, Or.inr ⟨nt, hi, rfl, rfl⟩⟩
  · have hc : ¬ ((g.op i).litsOk = true ∧ (g.op i).idsOk s = true) := by
      rw [getter_ids]; simp [hi]
    rw [if_neg hi]
    unfold stepWith
    simp only [hc, not_false_eq_true, if_true]
    exact ⟨trivial, Or.inl trivial⟩

theorem ObsEq.view_eq {s s' : State} (h : ObsEq s s') (g : Getter) (i nt : Nat) (hnt : ntOf s i = .ok nt) :
    g.view s' i nt = g.view s i nt := by
  obtain ⟨hs, hm⟩ := h.views i nt hnt
  have hn := ntView_congr s s' i nt hs
  cases g with
  | symbols => simp only [Getter.view, hs]
  | masses => simp only [Getter.view, hm]
  | natypes => simp only [Getter.view, hn]
  | atypes => simp only [Getter.view, hn]
  | composition =>
    have hobj : ∀ o, s'.obj o = s.obj o := by intro o; simp [State.obj, h.objs]
    have harr : ∀ a, arrVal s' a = arrVal s a := by
      intro a; simp [arrVal, arrDt, arrTrail, arrRows, State.buf, h.heap]
    simp only [Getter.view, compView, hobj, harr, h.atoms i, hs, hn]

theorem obsEq_step (s : State) (op : Op) (h : IsObs op) : ObsEq s (step s op) := by
  obtain ⟨g, i, rfl⟩ := h
  rcases (stepWith_getter false s g i).2 with h1 | ⟨nt, hi, hnt, h1⟩
  · show ObsEq s (stepWith false s (g.op i)).2
    rw [h1]; exact ObsEq.refl s
  · show ObsEq s (stepWith false s (g.op i)).2
    rw [h1]; exact obsEq_after g s i nt hi hnt

theorem obsEq_foldl (obs : List Op) (hobs : ∀ o ∈ obs, IsObs o) (s : State) : ObsEq s (obs.foldl step s) := by
  induction obs generalizing s with
  | nil => exact ObsEq.refl s
  | cons o rest ih =>
    exact (obsEq_step s o (hobs o (by simp))).trans (ih (fun o' ho' => hobs o' (by simp [ho'])) _)

theorem output_obsEq {s s' : State} (h : ObsEq s s') (g : Getter) (i : Nat) :
    output s' (g.op i) = output s (g.op i) := by
  show (stepWith false s' (g.op i)).1 = (stepWith false s (g.op i)).1
  rw [(stepWith_getter false s' g i).1, (stepWith_getter false s g i).1, h.len, h.ntOf_eq i]
  by_cases hi : i < s.syss.length
  · simp only [hi, if_true]
    cases hnt : ntOf s i with
    | error e => rfl
    | ok nt => exact h.view_eq g i nt hnt
  · simp only [hi, if_false]

end Atomman.C06
