/-
  C08 — load ∘ dump for LAMMPS dump files: the header the C07 writer lays out run through the loader's state
  machine, the atom rows, and the composition.
-/
import Proofs.C08_Text
namespace Atomman.C08
open Atomman Atomman.C07
set_option linter.unusedSimpArgs false


/-! ### the dump-file header as the writer lays it out -/

theorem pyInt_natTok (m : Nat) : pyInt (natTok m) = .ok (m : Int) := by
  unfold pyInt
  have : parseInt? (natTok m) = some (m : Int) := by
    have := parseInt_intTok (m : Int)
    unfold intTok at this
    have hneg : ¬ ((m : Int) < 0) := by omega
    simpa [hneg] using this
  rw [this]
  rfl

theorem pyInt_intTok (i : Int) : pyInt (intTok i) = .ok i := by
  unfold pyInt; rw [parseInt_intTok]; rfl

theorem pyFloat_fmt {f : Fmt} (hf : Readable f) (q : ℚ) : pyFloat (fmtNum f q) = .ok (fmtVal f q) := by
  unfold pyFloat; rw [hf.parse q]; rfl

def bflagTok (p : Bool) : Tok := if p then cs!"pp" else cs!"fm"

theorem bflag_pp (p : Bool) : (decide (some (bflagTok p) = some (cs!"pp"))) = p := by
  cases p <;> decide

/-- the header lines of a dump file for an orthogonal box. -/
def dumpHeaderOrtho (f : Fmt) (ts : Int) (n : Nat) (pbc : V3 Bool) (bb : BBox) (names : Line) : Doc :=
  [[cs!"ITEM:", cs!"TIMESTEP"], [intTok ts], [cs!"ITEM:", cs!"NUMBER", cs!"OF", cs!"ATOMS"], [natTok n],
   [cs!"ITEM:", cs!"BOX", cs!"BOUNDS", bflagTok pbc.x, bflagTok pbc.y, bflagTok pbc.z],
   [fmtNum f bb.xlo, fmtNum f bb.xhi], [fmtNum f bb.ylo, fmtNum f bb.yhi], [fmtNum f bb.zlo, fmtNum f bb.zhi],
   cs!"ITEM:" :: cs!"ATOMS" :: names]

/-- the header lines of a dump file for a tilted box. -/
def dumpHeaderTri (f : Fmt) (ts : Int) (n : Nat) (pbc : V3 Bool) (bb : BBox) (xy xz yz : ℚ) (names : Line) : Doc :=
  [[cs!"ITEM:", cs!"TIMESTEP"], [intTok ts], [cs!"ITEM:", cs!"NUMBER", cs!"OF", cs!"ATOMS"], [natTok n],
   [cs!"ITEM:", cs!"BOX", cs!"BOUNDS", cs!"xy", cs!"xz", cs!"yz", bflagTok pbc.x, bflagTok pbc.y, bflagTok pbc.z],
   [fmtNum f bb.xlo, fmtNum f bb.xhi, fmtNum f xy], [fmtNum f bb.ylo, fmtNum f bb.yhi, fmtNum f xz],
   [fmtNum f bb.zlo, fmtNum f bb.zhi, fmtNum f yz],
   cs!"ITEM:" :: cs!"ATOMS" :: names]

theorem dsLoopA_ortho {f : Fmt} (hf : Readable f) (lf : Option ℚ) (ts : Int) (n : Nat) (pbc : V3 Bool) (bb : BBox)
    (names : Line) :
    dsLoopA lf (dumpHeaderOrtho f ts n pbc bb names) ({}, none) =
      .ok ({ pbc := some pbc, natoms := some (n : Int),
             xlo := some (mulBy lf (fmtVal f bb.xlo)), xhi := some (mulBy lf (fmtVal f bb.xhi)),
             ylo := some (mulBy lf (fmtVal f bb.ylo)), yhi := some (mulBy lf (fmtVal f bb.yhi)),
             zlo := some (mulBy lf (fmtVal f bb.zlo)), zhi := some (mulBy lf (fmtVal f bb.zhi)),
             names := some names }, some []) := by
  obtain ⟨px, py, pz⟩ := pbc
  simp only [dumpHeaderOrtho, dsLoopA, dsStepA, dsCore, boundsLine, term, List.isEmpty_cons, Bool.false_eq_true, if_false,
    bind, Except.bind, pure, Except.pure, List.head?_cons, List.getElem?_cons_zero, List.getElem?_cons_succ,
    pyInt_intTok, pyInt_natTok, pyFloat_fmt hf, List.length_cons, List.length_nil, if_true, List.drop]
  simp [pyIndex, bflag_pp, bflagTok]


/-- the x / y extents a tilted box adds to its bounding box, as the loader removes them. -/
def tiltLo (xy xz : ℚ) : ℚ := minR (minR (minR 0 xy) xz) (xy + xz)
def tiltHi (xy xz : ℚ) : ℚ := maxR (maxR (maxR 0 xy) xz) (xy + xz)

theorem dsLoopA_tri {f : Fmt} (hf : Readable f) (lf : Option ℚ) (ts : Int) (n : Nat) (pbc : V3 Bool) (bb : BBox)
    (xy xz yz : ℚ) (names : Line) :
    dsLoopA lf (dumpHeaderTri f ts n pbc bb xy xz yz names) ({}, none) =
      .ok ({ pbc := some pbc, natoms := some (n : Int),
             xlo := some (mulBy lf (fmtVal f bb.xlo) - tiltLo (mulBy lf (fmtVal f xy)) (mulBy lf (fmtVal f xz))),
             xhi := some (mulBy lf (fmtVal f bb.xhi) - tiltHi (mulBy lf (fmtVal f xy)) (mulBy lf (fmtVal f xz))),
             ylo := some (mulBy lf (fmtVal f bb.ylo) - minR 0 (mulBy lf (fmtVal f yz))),
             yhi := some (mulBy lf (fmtVal f bb.yhi) - maxR 0 (mulBy lf (fmtVal f yz))),
             zlo := some (mulBy lf (fmtVal f bb.zlo)), zhi := some (mulBy lf (fmtVal f bb.zhi)),
             xy := mulBy lf (fmtVal f xy), xz := mulBy lf (fmtVal f xz), yz := mulBy lf (fmtVal f yz),
             names := some names }, some []) := by
  obtain ⟨px, py, pz⟩ := pbc
  simp only [dumpHeaderTri, dsLoopA, dsStepA, dsCore, boundsLine, term, List.isEmpty_cons, Bool.false_eq_true, if_false,
    bind, Except.bind, pure, Except.pure, List.head?_cons, List.getElem?_cons_zero, List.getElem?_cons_succ,
    pyInt_intTok, pyInt_natTok, pyFloat_fmt hf, List.length_cons, List.length_nil, if_true, List.drop]
  simp [pyIndex, bflag_pp, bflagTok, tiltLo, tiltHi]


def DSC.idle (s : DSC) : Prop :=
  s.readNatoms = false ∧ s.readTimestep = false ∧ s.bcount ≠ 0 ∧ s.bcount ≠ 1 ∧ s.bcount ≠ 2

/-- a line that does not start with `ITEM:` is skipped once the header has been read. -/
theorem dsCore_idle (lf : Option ℚ) (t : Line) (s : DSC) (hs : s.idle) (ht : t.head? ≠ some (cs!"ITEM:")) :
    dsCore lf t s = .ok (s, false) := by
  obtain ⟨h1, h2, h3, h4, h5⟩ := hs
  unfold dsCore
  by_cases he : t.isEmpty = true
  · simp [he]; rfl
  · simp [he, h1, h2, h3, h4, h5, ht]; rfl

theorem dsLoopA_append (lf : Option ℚ) (a b : List Line) (st : DSC × Option (List Line)) :
    dsLoopA lf (a ++ b) st = (dsLoopA lf a st).bind (dsLoopA lf b) := by
  induction a generalizing st with
  | nil => rfl
  | cons t ts ih =>
    simp only [List.cons_append, dsLoopA]
    cases h : dsStepA lf t st with
    | error e => rfl
    | ok st' => simp only [bind, Except.bind]; exact ih st'

theorem dsLoopA_idle_rows (lf : Option ℚ) (rows : List Line) (s : DSC) (r : Option (List Line)) (hs : s.idle)
    (hrows : ∀ t ∈ rows, t.head? ≠ some (cs!"ITEM:")) :
    dsLoopA lf rows (s, r) = .ok (s, r.map (· ++ rows)) := by
  induction rows generalizing r with
  | nil => cases r <;> simp [dsLoopA, pure, Except.pure]
  | cons t ts ih =>
    unfold dsLoopA dsStepA
    rw [dsCore_idle lf t s hs (hrows t List.mem_cons_self)]
    simp only [bind, Except.bind, pure, Except.pure, Bool.false_eq_true, if_false]
    rw [ih _ (fun x hx => hrows x (List.mem_cons_of_mem _ hx))]
    cases r <;> simp

theorem cellTok_ne_item {f : Fmt} (hf : Readable f) (c : Cell) : c.tok f ≠ cs!"ITEM:" := by
  intro h
  obtain ⟨v, hv, _⟩ := parseVal_cellTok hf c
  rw [h] at hv
  have : parseVal (cs!"ITEM:") = .error "value" := by decide +kernel
  rw [this] at hv
  cases hv

theorem rowsDoc_heads {f : Fmt} (hf : Readable f) (rows : List (List Cell)) :
    ∀ t ∈ rowsDoc f rows, t.head? ≠ some (cs!"ITEM:") := by
  intro t ht
  simp only [rowsDoc, List.mem_map] at ht
  obtain ⟨r, _, rfl⟩ := ht
  cases r with
  | nil => simp
  | cons c cs =>
    simp only [List.map_cons, List.head?_cons, ne_eq, Option.some.injEq]
    exact cellTok_ne_item hf c


def CleanDoc (doc : Doc) : Prop := ∀ l ∈ doc, ∀ t ∈ l, CleanTok t

theorem rowsOfN_render (doc : Doc) (h : CleanDoc doc) :
    rowsOf false (splitLines (renderLines doc)) = doc.filter fun l => !l.isEmpty := by
  rw [splitLines_renderLines doc (fun l hl t ht c hc => ((h l hl t ht).2 c hc).2)]
  unfold rowsOf
  rw [List.map_map]
  have : ∀ l ∈ doc, (termsOf false ∘ joinSp) l = l := by
    intro l hl
    simp only [Function.comp, termsOf, termsN, Bool.false_eq_true, if_false]
    exact lexLine_joinSp l (h l hl)
  rw [List.map_congr_left this, List.map_id']

/-- a dump file is loaded through its token lines only. -/
theorem loadDump_render (doc : Doc) (h : CleanDoc doc) (hne : ∀ l ∈ doc, l ≠ [])
    (symbols : Option (List (Option String))) (given : Option (List PCol)) (u : Units) :
    loadDump (renderLines doc) symbols given u = loadDumpRows doc symbols given u := by
  unfold loadDump
  rw [loadDumpLines_eq_rows, rowsOfN_render doc h]
  congr 1
  apply List.filter_eq_self.mpr
  intro l hl
  cases l with
  | nil => exact absurd rfl (hne [] hl)
  | cons _ _ => rfl

/-- the state the loader's header loop is in after the header of an orthogonal box. -/
def orthoState (f : Fmt) (lf : Option ℚ) (n : Nat) (pbc : V3 Bool) (bb : BBox) (names : Line) : DSC :=
  { pbc := some pbc, natoms := some (n : Int),
    xlo := some (mulBy lf (fmtVal f bb.xlo)), xhi := some (mulBy lf (fmtVal f bb.xhi)),
    ylo := some (mulBy lf (fmtVal f bb.ylo)), yhi := some (mulBy lf (fmtVal f bb.yhi)),
    zlo := some (mulBy lf (fmtVal f bb.zlo)), zhi := some (mulBy lf (fmtVal f bb.zhi)),
    names := some names }

/-- … and after the header of a tilted box: the tilt extents are taken off the bounding box. -/
def triState (f : Fmt) (lf : Option ℚ) (n : Nat) (pbc : V3 Bool) (bb : BBox) (xy xz yz : ℚ) (names : Line) : DSC :=
  { pbc := some pbc, natoms := some (n : Int),
    xlo := some (mulBy lf (fmtVal f bb.xlo) - tiltLo (mulBy lf (fmtVal f xy)) (mulBy lf (fmtVal f xz))),
    xhi := some (mulBy lf (fmtVal f bb.xhi) - tiltHi (mulBy lf (fmtVal f xy)) (mulBy lf (fmtVal f xz))),
    ylo := some (mulBy lf (fmtVal f bb.ylo) - minR 0 (mulBy lf (fmtVal f yz))),
    yhi := some (mulBy lf (fmtVal f bb.yhi) - maxR 0 (mulBy lf (fmtVal f yz))),
    zlo := some (mulBy lf (fmtVal f bb.zlo)), zhi := some (mulBy lf (fmtVal f bb.zhi)),
    xy := mulBy lf (fmtVal f xy), xz := mulBy lf (fmtVal f xz), yz := mulBy lf (fmtVal f yz),
    names := some names }

theorem loadDumpRows_ortho {f : Fmt} (hf : Readable f) (ts : Int) (n : Nat) (pbc : V3 Bool) (bb : BBox) (names : Line)
    (rows : List (List Cell)) (symbols : Option (List (Option String))) (given : Option (List PCol)) (u : Units) :
    loadDumpRows (dumpHeaderOrtho f ts n pbc bb names ++ rowsDoc f rows) symbols given u =
      (lengthFactor u).bind fun lf =>
        loadDumpCore (orthoState f lf n pbc bb names) (some (rowsDoc f rows)) symbols given u := by
  unfold loadDumpRows
  cases hlf : lengthFactor u with
  | error e => rfl
  | ok lf =>
    simp only [bind, Except.bind]
    rw [dsLoopA_append, dsLoopA_ortho hf]
    simp only [Except.bind]
    rw [dsLoopA_idle_rows lf _ _ _ (by simp [DSC.idle]) (rowsDoc_heads hf rows)]
    rfl

theorem loadDumpRows_tri {f : Fmt} (hf : Readable f) (ts : Int) (n : Nat) (pbc : V3 Bool) (bb : BBox) (xy xz yz : ℚ)
    (names : Line) (rows : List (List Cell)) (symbols : Option (List (Option String))) (given : Option (List PCol))
    (u : Units) :
    loadDumpRows (dumpHeaderTri f ts n pbc bb xy xz yz names ++ rowsDoc f rows) symbols given u =
      (lengthFactor u).bind fun lf =>
        loadDumpCore (triState f lf n pbc bb xy xz yz names) (some (rowsDoc f rows)) symbols given u := by
  unfold loadDumpRows
  cases hlf : lengthFactor u with
  | error e => rfl
  | ok lf =>
    simp only [bind, Except.bind]
    rw [dsLoopA_append, dsLoopA_tri hf]
    simp only [Except.bind]
    rw [dsLoopA_idle_rows lf _ _ _ (by simp [DSC.idle]) (rowsDoc_heads hf rows)]
    rfl


/-- the file-unit numbers the dump writer prints for a system. -/
def dumpHiLo (s : Sys) (lf : Option ℚ) : HiLo := (hiLoOf s.box).map (divBy lf)

def dumpCols (props : List (String × List Nat)) : List ColSpec := props.map fun p => dumpCol p.1 p.2

def dumpNames (props : List (String × List Nat)) : Line := ((dumpCols props).map fun c => c.names.map strTok).flatten

def dumpIds (s : Sys) : List Int :=
  match s.prop? "atom_id" with
  | some c => c.vals.map fun v => (v.headD 0).floor
  | none => seqIds s.natoms

def isOrtho (h : HiLo) : Prop := h.xy = 0 ∧ h.xz = 0 ∧ h.yz = 0
instance (h : HiLo) : Decidable (isOrtho h) := by unfold isOrtho; infer_instance

/-- `C07.writeDumpDoc` with its layout named: header (orthogonal or tilted), then the rows of the table. -/
def writeDumpDoc' (s : Sys) (props : List (String × List Nat)) (u : Units) (f : Fmt) (ts : Int) : Res Doc :=
  if !s.box.isLammpsNorm then .error "assert" else
  match lengthFactor u with
  | .error e => .error e
  | .ok lf =>
    if hasDup (dumpIds s) then .error "assert" else
    match tableRows s u (dumpIds s) s.pos (dumpCols props) [] with
    | .error e => .error e
    | .ok rows =>
      .ok (if isOrtho (dumpHiLo s lf) then
          dumpHeaderOrtho f ts s.natoms s.pbc (bboxOf (dumpHiLo s lf)) (dumpNames props) ++ rowsDoc f rows
        else dumpHeaderTri f ts s.natoms s.pbc (bboxOf (dumpHiLo s lf)) (dumpHiLo s lf).xy (dumpHiLo s lf).xz
          (dumpHiLo s lf).yz (dumpNames props) ++ rowsDoc f rows)

theorem writeDumpDoc_eq (s : Sys) (props : List (String × List Nat)) (u : Units) (f : Fmt) (ts : Int) :
    writeDumpDoc s props u f ts = writeDumpDoc' s props u f ts := by
  unfold writeDumpDoc writeDumpDoc'
  by_cases hn : s.box.isLammpsNorm = true
  · simp only [hn, Bool.not_true, Bool.false_eq_true, if_false]
    cases hlf : lengthFactor u with
    | error e => rfl
    | ok lf =>
      simp only [bind, Except.bind, pure, Except.pure]
      show (if hasDup (dumpIds s) = true then _ else _) = _
      by_cases hd : hasDup (dumpIds s) = true
      · simp only [hd, if_true]; rfl
      · simp only [hd, if_false, Bool.false_eq_true]
        simp only [dumpIds, dumpCols]
        generalize tableRows s u _ s.pos _ [] = r
        cases r with
        | error e => rfl
        | ok rows =>
          simp only []
          by_cases ho : isOrtho (dumpHiLo s lf)
          · have ho' := ho
            unfold isOrtho dumpHiLo at ho'
            have ho2 : isOrtho ((hiLoOf s.box).map (divBy lf)) := ho
            simp [ho, ho2, ho', dumpHeaderOrtho, dumpHiLo, dumpNames, dumpCols, bflagTok]
          · have ho' := ho
            unfold isOrtho dumpHiLo at ho'
            have ho2 : ¬ isOrtho ((hiLoOf s.box).map (divBy lf)) := ho
            simp [ho, ho2, ho', dumpHeaderTri, dumpHiLo, dumpNames, dumpCols, bflagTok]
  · simp [hn]; rfl


theorem cleanTok_lit (t : Tok) (h : (t ≠ [] ∧ t.all fun c => !isSpace c && decide (c ≠ '\n')) ) : CleanTok t := by
  refine ⟨h.1, fun c hc => ?_⟩
  have := List.all_eq_true.mp h.2 c hc
  simp only [Bool.and_eq_true, Bool.not_eq_true', decide_eq_true_eq] at this
  exact this

theorem cleanTok_natTok (m : Nat) : CleanTok (natTok m) :=
  cleanTok_of_numChars _ (natTok_ne_nil m) (numChars_natTok m)

theorem cleanTok_intTok (i : Int) : CleanTok (intTok i) :=
  cleanTok_of_numChars _ (intTok_ne_nil i) (numChars_intTok i)

theorem cleanTok_bflag (p : Bool) : CleanTok (bflagTok p) := by
  cases p <;> exact cleanTok_lit _ (by decide)

theorem cleanDoc_rowsDoc {f : Fmt} (hf : Readable f) (rows : List (List Cell)) : CleanDoc (rowsDoc f rows) := by
  intro l hl t ht
  simp only [rowsDoc, List.mem_map] at hl
  obtain ⟨r, _, rfl⟩ := hl
  simp only [List.mem_map] at ht
  obtain ⟨c, _, rfl⟩ := ht
  exact cellTok_clean hf c

theorem cleanDoc_append (a b : Doc) (ha : CleanDoc a) (hb : CleanDoc b) : CleanDoc (a ++ b) := by
  intro l hl
  rcases List.mem_append.mp hl with h | h
  · exact ha l h
  · exact hb l h

theorem cleanDoc_headerOrtho {f : Fmt} (hf : Readable f) (ts : Int) (n : Nat) (pbc : V3 Bool) (bb : BBox) (names : Line)
    (hn : ∀ t ∈ names, CleanTok t) : CleanDoc (dumpHeaderOrtho f ts n pbc bb names) := by
  intro l hl t ht
  simp only [dumpHeaderOrtho, List.mem_cons, List.not_mem_nil, or_false] at hl
  rcases hl with rfl | rfl | rfl | rfl | rfl | rfl | rfl | rfl | rfl <;>
    simp only [List.mem_cons, List.not_mem_nil, or_false] at ht
  · rcases ht with rfl | rfl <;> exact cleanTok_lit _ (by decide)
  · subst ht; exact cleanTok_intTok ts
  · rcases ht with rfl | rfl | rfl | rfl <;> exact cleanTok_lit _ (by decide)
  · subst ht; exact cleanTok_natTok n
  · rcases ht with rfl | rfl | rfl | rfl | rfl | rfl
    · exact cleanTok_lit _ (by decide)
    · exact cleanTok_lit _ (by decide)
    · exact cleanTok_lit _ (by decide)
    · exact cleanTok_bflag _
    · exact cleanTok_bflag _
    · exact cleanTok_bflag _
  · rcases ht with rfl | rfl <;> exact hf.clean _
  · rcases ht with rfl | rfl <;> exact hf.clean _
  · rcases ht with rfl | rfl <;> exact hf.clean _
  · rcases ht with rfl | rfl | ht
    · exact cleanTok_lit _ (by decide)
    · exact cleanTok_lit _ (by decide)
    · exact hn t ht

theorem cleanDoc_headerTri {f : Fmt} (hf : Readable f) (ts : Int) (n : Nat) (pbc : V3 Bool) (bb : BBox) (xy xz yz : ℚ)
    (names : Line) (hn : ∀ t ∈ names, CleanTok t) : CleanDoc (dumpHeaderTri f ts n pbc bb xy xz yz names) := by
  intro l hl t ht
  simp only [dumpHeaderTri, List.mem_cons, List.not_mem_nil, or_false] at hl
  rcases hl with rfl | rfl | rfl | rfl | rfl | rfl | rfl | rfl | rfl <;>
    simp only [List.mem_cons, List.not_mem_nil, or_false] at ht
  · rcases ht with rfl | rfl <;> exact cleanTok_lit _ (by decide)
  · subst ht; exact cleanTok_intTok ts
  · rcases ht with rfl | rfl | rfl | rfl <;> exact cleanTok_lit _ (by decide)
  · subst ht; exact cleanTok_natTok n
  · rcases ht with rfl | rfl | rfl | rfl | rfl | rfl | rfl | rfl | rfl
    · exact cleanTok_lit _ (by decide)
    · exact cleanTok_lit _ (by decide)
    · exact cleanTok_lit _ (by decide)
    · exact cleanTok_lit _ (by decide)
    · exact cleanTok_lit _ (by decide)
    · exact cleanTok_lit _ (by decide)
    · exact cleanTok_bflag _
    · exact cleanTok_bflag _
    · exact cleanTok_bflag _
  · rcases ht with rfl | rfl | rfl <;> exact hf.clean _
  · rcases ht with rfl | rfl | rfl <;> exact hf.clean _
  · rcases ht with rfl | rfl | rfl <;> exact hf.clean _
  · rcases ht with rfl | rfl | ht
    · exact cleanTok_lit _ (by decide)
    · exact cleanTok_lit _ (by decide)
    · exact hn t ht

/-- the state of the loader's header loop after the header of the dump file written for `s`. -/
def dumpState (f : Fmt) (lf : Option ℚ) (s : Sys) (props : List (String × List Nat)) : DSC :=
  if isOrtho (dumpHiLo s lf) then orthoState f lf s.natoms s.pbc (bboxOf (dumpHiLo s lf)) (dumpNames props)
  else triState f lf s.natoms s.pbc (bboxOf (dumpHiLo s lf)) (dumpHiLo s lf).xy (dumpHiLo s lf).xz (dumpHiLo s lf).yz
    (dumpNames props)

/-- **load ∘ dump for dump files, through the header**: for every dump file the C07 writer emits, the loader ends its
    header loop in `dumpState` — number of atoms, `pp` flags, bounds with the tilt extents removed, all from the
    printed numbers converted with the length unit — and hands `loadDumpCore` exactly the written rows. -/
theorem loadDump_writeDump {f : Fmt} (hf : Readable f) (s : Sys) (props : List (String × List Nat)) (u : Units)
    (ts : Int) (text : List Char) (hw : writeDump s props u f ts = .ok text)
    (hnames : ∀ t ∈ dumpNames props, CleanTok t)
    (symbols : Option (List (Option String))) (given : Option (List PCol)) :
    ∃ lf rows, lengthFactor u = .ok lf ∧ tableRows s u (dumpIds s) s.pos (dumpCols props) [] = .ok rows ∧
      hasDup (dumpIds s) = false ∧
      ((∀ r ∈ rows, r ≠ []) →
        loadDump text symbols given u = loadDumpCore (dumpState f lf s props) (some (rowsDoc f rows)) symbols given u) := by
  unfold writeDump at hw
  rw [writeDumpDoc_eq] at hw
  unfold writeDumpDoc' at hw
  by_cases hn : s.box.isLammpsNorm = true
  · simp only [hn, Bool.not_true, Bool.false_eq_true, if_false] at hw
    cases hlf : lengthFactor u with
    | error e => simp [hlf, Except.map] at hw
    | ok lf =>
      simp only [hlf] at hw
      by_cases hd : hasDup (dumpIds s) = true
      · simp [hd, Except.map] at hw
      · simp only [hd, if_false, Bool.false_eq_true] at hw
        cases hr : tableRows s u (dumpIds s) s.pos (dumpCols props) [] with
        | error e => simp [hr, Except.map] at hw
        | ok rows =>
          simp only [hr, Except.map, Except.ok.injEq] at hw
          refine ⟨lf, rows, rfl, rfl, by simpa using hd, ?_⟩
          intro hrows
          have hrne : ∀ l ∈ rowsDoc f rows, l ≠ [] := by
            intro l hl
            simp only [rowsDoc, List.mem_map] at hl
            obtain ⟨r, hr', rfl⟩ := hl
            simpa using hrows r hr'
          subst hw
          unfold dumpState
          by_cases ho : isOrtho (dumpHiLo s lf)
          · simp only [ho, if_true]
            rw [loadDump_render _ (cleanDoc_append _ _ (cleanDoc_headerOrtho hf _ _ _ _ _ hnames) (cleanDoc_rowsDoc hf rows))
              (by
                intro l hl
                rcases List.mem_append.mp hl with h | h
                · simp only [dumpHeaderOrtho, List.mem_cons, List.not_mem_nil, or_false] at h
                  rcases h with rfl | rfl | rfl | rfl | rfl | rfl | rfl | rfl | rfl <;> simp
                · exact hrne l h),
              loadDumpRows_ortho hf, hlf]
            rfl
          · simp only [ho, if_false]
            rw [loadDump_render _ (cleanDoc_append _ _ (cleanDoc_headerTri hf _ _ _ _ _ _ _ _ hnames) (cleanDoc_rowsDoc hf rows))
              (by
                intro l hl
                rcases List.mem_append.mp hl with h | h
                · simp only [dumpHeaderTri, List.mem_cons, List.not_mem_nil, or_false] at h
                  rcases h with rfl | rfl | rfl | rfl | rfl | rfl | rfl | rfl | rfl <;> simp
                · exact hrne l h),
              loadDumpRows_tri hf, hlf]
            rfl
  · simp [hn, Except.map] at hw

end Atomman.C08
