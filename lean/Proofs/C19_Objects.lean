/-
  C19 — the `Simulation` object (keys), the merge loop with the style dispatch inside (`flattenStyle`), the call forms
  with arguments left out.  Helpers for Proofs/C19.lean.
-/
import Proofs.C19_Flatten
namespace Atomman.C19
open Atomman List
set_option linter.unusedSimpArgs false
set_option linter.unusedVariables false

/-! ## Simulation -/

theorem init_thermo_keys (t : Table) : (SimObj.init (some t) none).keys = ["thermo"] := rfl

theorem Sim.keys_eq (s : Sim) :
    s.keys = "thermo" :: (if s.perf.isSome then ["performance"] else []) := by
  obtain ⟨t, p⟩ := s
  cases p <;> rfl

theorem Sim.obj_thermo (s : Sim) : s.obj.thermo = some s.thermo ∧ s.obj.perf = s.perf := by
  obtain ⟨t, p⟩ := s
  cases p <;> exact ⟨rfl, rfl⟩

theorem setThermo_keys_mem (o : SimObj) (v : Table) (k : String) :
    k ∈ (o.setThermo v).keys ↔ k ∈ o.keys ∨ k = "thermo" := by
  unfold SimObj.setThermo
  by_cases h : o.keys.contains "thermo" = true
  · simp only [h, if_true]
    constructor
    · exact Or.inl
    · rintro (h' | rfl)
      · exact h'
      · simpa using h
  · simp only [h, Bool.false_eq_true, if_false, mem_append, mem_singleton]

theorem setPerf_keys_mem (o : SimObj) (v : Perf) (k : String) :
    k ∈ (o.setPerf v).keys ↔ k ∈ o.keys ∨ k = "performance" := by
  unfold SimObj.setPerf
  by_cases h : o.keys.contains "performance" = true
  · simp only [h, if_true]
    constructor
    · exact Or.inl
    · rintro (h' | rfl)
      · exact h'
      · simpa using h
  · simp only [h, Bool.false_eq_true, if_false, mem_append, mem_singleton]

theorem setThermo_nodup (o : SimObj) (v : Table) (h : o.keys.Nodup) : (o.setThermo v).keys.Nodup := by
  unfold SimObj.setThermo
  by_cases hc : o.keys.contains "thermo" = true
  · simpa only [hc, if_true] using h
  · simp only [hc, Bool.false_eq_true, if_false]
    refine nodup_append.mpr ⟨h, (by simp), ?_⟩
    intro a ha b hb
    simp only [mem_singleton] at hb
    subst hb
    rintro rfl
    exact hc (by simpa using ha)

theorem setPerf_nodup (o : SimObj) (v : Perf) (h : o.keys.Nodup) : (o.setPerf v).keys.Nodup := by
  unfold SimObj.setPerf
  by_cases hc : o.keys.contains "performance" = true
  · simpa only [hc, if_true] using h
  · simp only [hc, Bool.false_eq_true, if_false]
    refine nodup_append.mpr ⟨h, (by simp), ?_⟩
    intro a ha b hb
    simp only [mem_singleton] at hb
    subst hb
    rintro rfl
    exact hc (by simpa using ha)

/-- assigning again replaces the value and leaves the keys alone. -/
theorem setThermo_again (o : SimObj) (a b : Table) :
    ((o.setThermo a).setThermo b).keys = (o.setThermo a).keys ∧ ((o.setThermo a).setThermo b).thermo = some b := by
  refine ⟨?_, rfl⟩
  have hm : "thermo" ∈ (o.setThermo a).keys := (setThermo_keys_mem o a _).mpr (Or.inr rfl)
  have hc : (o.setThermo a).keys.contains "thermo" = true := by simpa using hm
  show (if (o.setThermo a).keys.contains "thermo" = true then _ else _) = _
  rw [if_pos hc]

theorem setPerf_again (o : SimObj) (a b : Perf) :
    ((o.setPerf a).setPerf b).keys = (o.setPerf a).keys ∧ ((o.setPerf a).setPerf b).perf = some b := by
  refine ⟨?_, rfl⟩
  have hm : "performance" ∈ (o.setPerf a).keys := (setPerf_keys_mem o a _).mpr (Or.inr rfl)
  have hc : (o.setPerf a).keys.contains "performance" = true := by simpa using hm
  show (if (o.setPerf a).keys.contains "performance" = true then _ else _) = _
  rw [if_pos hc]

/-! ## the merge loop with the style dispatch inside -/

section
variable {α : Type} (step : α → Int)

def IsStyle (style : Str) : Prop := style = "first".toList ∨ style = "last".toList ∨ style = "all".toList

instance (style : Str) : Decidable (IsStyle style) := by unfold IsStyle; infer_instance

theorem mergeStyle_first (m t : List α) : mergeStyle step "first".toList m t = .ok (mergeFirst step m t) := by
  simp [mergeStyle]

theorem mergeStyle_last (m t : List α) : mergeStyle step "last".toList m t = .ok (mergeLast step m t) := by
  have : ("last".toList == "first".toList) = false := by decide
  simp [mergeStyle, this]

theorem mergeStyle_all (m t : List α) : mergeStyle step "all".toList m t = .ok (mergeAll m t) := by
  have h1 : ("all".toList == "first".toList) = false := by decide
  have h2 : ("all".toList == "last".toList) = false := by decide
  simp [mergeStyle, h1, h2]

theorem mergeStyle_bad (style : Str) (h : ¬ IsStyle style) (m t : List α) :
    mergeStyle step style m t = .error .value := by
  unfold IsStyle at h
  have h1 : style ≠ "first".toList := fun e => h (Or.inl e)
  have h2 : style ≠ "last".toList := fun e => h (Or.inr (Or.inl e))
  have h3 : style ≠ "all".toList := fun e => h (Or.inr (Or.inr e))
  have e1 : (style == "first".toList) = false := by simpa using h1
  have e2 : (style == "last".toList) = false := by simpa using h2
  have e3 : (style == "all".toList) = false := by simpa using h3
  unfold mergeStyle
  rw [e1, e2, e3]
  rfl

theorem mergeLoop_of (style : Str) (f : List α → List α → List α)
    (hf : ∀ m t, mergeStyle step style m t = .ok (f m t)) (m : List α) (ts : List (List α)) :
    mergeLoop step style m ts = .ok (ts.foldl f m) := by
  induction ts generalizing m with
  | nil => rfl
  | cons t ts ih => simp only [mergeLoop, hf, foldl_cons]; exact ih _

theorem mergeLoop_bad (style : Str) (h : ¬ IsStyle style) (m t : List α) (ts : List (List α)) :
    mergeLoop step style m (t :: ts) = .error .value := by
  simp only [mergeLoop, mergeStyle_bad step style h]

end

end Atomman.C19
