/-
  C06 — refinement, part 3: loops of `assign` over the properties of an object (generic), and the
  values produced by `Atoms.extend`.
-/
import Proofs.C06_Write

namespace Atomman.C06
set_option linter.unusedSimpArgs false
set_option linter.unusedVariables false

/-! ### a loop that writes one value through every property of an object -/

/-- state of such a loop after the properties `done` were written: each of them reads its old rows
    overwritten at the selected positions by the rows of a value described by `Src`; every buffer that
    belongs to none of them is as it was. -/
structure AssignLoop (s : State) (sel : Sel) (Src : PropRef → Val → Prop) (done : List PropRef) (st : State) : Prop where
  objs : st.objs = s.objs
  syss : st.syss = s.syss
  heapLen : st.heap.length = s.heap.length
  other : ∀ b, (∀ p ∈ done, b ≠ p.arr.buf) → st.buf b = s.buf b
  shape : ∀ b, b < s.heap.length → (st.buf b).dt = (s.buf b).dt ∧ (st.buf b).trail = (s.buf b).trail
  cols : ∀ p ∈ done, ∃ v newRows, Src p v ∧ AssignedRows s p.arr sel v newRows ∧
    arrRows st p.arr = writeRows (arrRows s p.arr) (sel.pos.zip newRows)

theorem AssignLoop.init (s : State) (sel : Sel) (Src : PropRef → Val → Prop) : AssignLoop s sel Src [] s :=
  ⟨rfl, rfl, rfl, fun _ _ => rfl, fun _ _ => ⟨rfl, rfl⟩, fun p hp => by simp at hp⟩

/-- the loop rule: if every iteration either raises or assigns (through `p.arr[sel]`) a value described by
    `Src p`, the loop as a whole performs the record update column by column. -/
theorem assign_loop {κ : Nat → String} {s : State} (hinv : InvK κ s) (o : Nat) (sel : Sel)
    (hpos : ∀ p ∈ sel.pos, p < (s.obj o).natoms) (body : PropRef → M Unit) (Src : PropRef → Val → Prop)
    (hbody : ∀ (done : List PropRef) (p : PropRef) (rest : List PropRef), done ++ p :: rest = (s.obj o).props →
      ∀ st, AssignLoop s sel Src done st →
        Post (body p) st (fun r st' => r = .ok () →
          ∃ v newRows, Src p v ∧ AssignedRows st p.arr sel v newRows ∧ Wrote st p.arr sel newRows st')) :
    ∀ (todo done : List PropRef) (st : State), done ++ todo = (s.obj o).props → AssignLoop s sel Src done st →
      Post (forEach todo body) st (fun r st' => r = .ok () → AssignLoop s sel Src (done ++ todo) st') := by
  intro todo
  induction todo with
  | nil =>
    intro done st _ hl _
    show AssignLoop s sel Src (done ++ []) st
    rw [List.append_nil]; exact hl
  | cons p rest ih =>
    intro done st hsplit hl
    have hpmem : p ∈ (s.obj o).props := by rw [← hsplit]; simp
    have hp0 := hinv.obj_props o p hpmem
    have hnd : ((s.obj o).props.map (·.key)).Nodup := by
      by_cases ho : o < s.objs.length
      · exact hinv.nodup _ (obj_mem s o ho)
      · rw [obj_ge s o (Nat.le_of_not_lt ho)]; simp [emptyObj]
    have hknew : p.key ∉ done.map (·.key) := by
      rw [← hsplit] at hnd
      simp only [List.map_append, List.map_cons] at hnd
      have := (List.nodup_append.mp hnd).2.2
      intro hc
      exact this _ hc _ (by simp) rfl
    have hdone : ∀ q ∈ done, PropOK κ s (s.obj o).natoms q := by
      intro q hq; exact hinv.obj_props o q (by rw [← hsplit]; simp [hq])
    have hbuf_p : st.buf p.arr.buf = s.buf p.arr.buf := hl.other _ (by
      intro q hq hc
      have : q.key = p.key := by rw [← (hdone q hq).key, ← hc, hp0.key]
      exact hknew (List.mem_map.mpr ⟨q, hq, this⟩))
    show Post (M.bind (body p) (fun _ => forEach rest body)) st _
    apply (post_bind _ _ _ _).mpr
    apply Post.mono (hbody done p rest hsplit st hl)
    intro r st1 h2
    cases r with
    | error e => intro hc; cases hc
    | ok u =>
      simp only []
      obtain ⟨v, newRows, hsrc, hn, hw⟩ := h2 rfl
      have hn' := hn.congr hbuf_p
      have hvalid_st : ArrValid st p.arr := ⟨by rw [hl.heapLen]; exact hp0.valid.1, by rw [hbuf_p]; exact hp0.valid.2⟩
      have hposl : ∀ i ∈ sel.pos, i < p.arr.idx.length := by rw [hp0.len]; exact hpos
      have hrb := hw.readback hvalid_st hp0.nodup hposl
      have hrows_p : arrRows st p.arr = arrRows s p.arr := by simp [arrRows, hbuf_p]
      have hl1 : AssignLoop s sel Src (done ++ [p]) st1 := by
        refine ⟨hw.objs.trans hl.objs, hw.syss.trans hl.syss, hw.heapLen.trans hl.heapLen, ?_, ?_, ?_⟩
        · intro b hb
          have hne : b ≠ p.arr.buf := hb p (by simp)
          rw [hw.other b hne]
          exact hl.other b (fun q hq => hb q (by simp [hq]))
        · intro b hb
          by_cases hbp : b = p.arr.buf
          · subst hbp
            have := hw.same (by rw [hl.heapLen]; exact hb)
            exact ⟨this.1.trans (hl.shape _ hb).1, this.2.1.trans (hl.shape _ hb).2⟩
          · rw [hw.other b hbp]; exact hl.shape b hb
        · intro q hq
          simp only [List.mem_append, List.mem_singleton] at hq
          rcases hq with hq | rfl
          · obtain ⟨v', nr', h1, h2', h3⟩ := hl.cols q hq
            refine ⟨v', nr', h1, h2', ?_⟩
            have hq0 := hdone q hq
            have hne : q.arr.buf ≠ p.arr.buf := by
              intro hc
              have : q.key = p.key := by rw [← hq0.key, hc, hp0.key]
              exact hknew (List.mem_map.mpr ⟨q, hq, this⟩)
            rw [hw.read q.arr hne]
            exact h3
          · exact ⟨v, newRows, hsrc, hn', by rw [hrb, hrows_p]⟩
      have := ih (done ++ [p]) st1 (by rw [List.append_assoc]; simpa using hsplit) hl1
      apply Post.mono this
      intro r2 st2 hq hr2
      have := hq hr2
      simpa [List.append_assoc] using this

/-! ### zero columns -/

/-- `total` rows of zeros of the given dtype and trailing shape. -/
def zeroRows (total : Nat) (dt : DType) (tr : List Nat) : List Row :=
  List.replicate total (List.replicate (prod tr) (zeroCell dt))

theorem rowsOf_replicate (k w : Nat) (z : Cell) (data : List Cell) (hlen : data.length = k * w)
    (hall : ∀ c ∈ data, c = z) : rowsOf k w data = List.replicate k (List.replicate w z) := by
  rw [List.eq_replicate_iff]
  refine ⟨rowsOf_length k w data, ?_⟩
  intro r hr
  rw [List.eq_replicate_iff]
  exact ⟨rowsOf_width k w data r hr, fun c hc => hall c (rowsOf_mem k w data hlen r hr c hc)⟩

/-- column `z` of the object under construction is the all-zero column made for the donor-only
    property `q`. -/
structure ZeroCol (s : State) (n total : Nat) (st : State) (q z : PropRef) : Prop where
  key : z.key = q.key
  rows : arrRows st z.arr = zeroRows total (arrDt s q.arr) (arrTrail s q.arr)
  dt : arrDt st z.arr = arrDt s q.arr
  trail : arrTrail st z.arr = arrTrail s q.arr
  fresh : n ≤ z.arr.buf
  valid : z.arr.buf < st.heap.length

theorem ZeroCol.mono {s : State} {n total : Nat} {st st' : State} {q z : PropRef} (h : ZeroCol s n total st q z)
    (hext : HeapExt st st') : ZeroCol s n total st' q z := by
  obtain ⟨r1, r2, r3⟩ := hext.rows z.arr h.valid
  exact ⟨h.key, r1.trans h.rows, r2.trans h.dt, r3.trans h.trail, h.fresh, Nat.lt_of_lt_of_le h.valid hext.len⟩

/-- state of the "create empty values" loop of `extend`. -/
structure ZLoop (s : State) (n total : Nat) (s1 : State) (nw donor : Nat) (st : State) : Prop where
  heap : HeapExt s1 st
  objs : ∀ o', o' ≠ nw → st.obj o' = s1.obj o'
  natoms : (st.obj nw).natoms = (s1.obj nw).natoms
  objsLen : st.objs.length = s1.objs.length
  syss : st.syss = s1.syss
  cols : ∃ Z, (st.obj nw).props = (s1.obj nw).props ++ Z ∧
    ∀ z ∈ Z, ∃ q ∈ (s.obj donor).props, (s1.obj nw).find q.key = none ∧ ZeroCol s n total st q z

theorem zeroCols_step {s : State} {n total : Nat} {s1 : State} {nw donor : Nat} (hn : n ≤ s1.heap.length)
    (hnw : nw < s1.objs.length) (htot : (s1.obj nw).natoms = total) (q : PropRef) (hq : q ∈ (s.obj donor).props)
    (hqb : ∀ st, HeapExt s1 st → arrDt st q.arr = arrDt s q.arr ∧ arrTrail st q.arr = arrTrail s q.arr)
    (st : State) (hl : ZLoop s n total s1 nw donor st) :
    Post (do
        let s1' ← getS
        if ((s1'.obj nw).find q.key).isSome then pure () else
        if q.arr.idx = [] then fail .index else
        let tr := arrTrail s1' q.arr
        let dt := arrDt s1' q.arr
        viewSet nw q.key (.lit ⟨dt, total :: tr, List.replicate (total * prod tr) (zeroCell dt)⟩) : M Unit) st
      (fun r st' => ZLoop s n total s1 nw donor st') := by
  rw [post_bind_getS]
  split
  · exact hl
  · rename_i hnone
    have hnone : (st.obj nw).find q.key = none := by
      cases hf : (st.obj nw).find q.key with
      | none => rfl
      | some a => simp [hf] at hnone
    split
    · exact hl
    · simp only []
      obtain ⟨hdt, htr⟩ := hqb st hl.heap
      rw [hdt, htr]
      have hnat : (st.obj nw).natoms = total := by rw [hl.natoms, htot]
      apply Post.mono (viewSet_new_refines nw q.key _ st hnone)
      intro r st' ⟨herr, hok⟩
      cases r with
      | error e => rw [herr e rfl]; exact hl
      | ok u =>
      obtain ⟨lv, t, hres, hshape, hst'⟩ := hok rfl
      have hnw' : nw < st.objs.length := by rw [hl.objsLen]; exact hnw
      have hreads := viewSet_new_reads st nw q.key lv t hnw' hnone
      simp only [] at hreads
      rw [← hst'] at hreads
      obtain ⟨_, hrows, hprops, hothers, hext, hsys⟩ := hreads
      -- the broadcast literal is all zeros of the donor's dtype and trailing shape
      rcases hres with ⟨lv', t', hlv, hshape', hok', hmem, hdt', ht'⟩ | ⟨a, hc, _, _⟩
      · injection hlv with hlv; subst hlv
        have htt : t = t' := by rw [hshape] at hshape'; injection hshape' with _ h2
        subst htt
        simp only [srcVal] at hmem hdt' ht' hok'
        simp only [List.tail_cons] at ht'
        have hvok : ValOK ⟨arrDt s q.arr, total :: arrTrail s q.arr,
            List.replicate (total * prod (arrTrail s q.arr)) (zeroCell (arrDt s q.arr))⟩ := zeros_ok _ _ _
        have hlvok := hok' hvok
        have hlen : lv.data.length = (st.obj nw).natoms * prod t := by rw [hlvok.1, hshape]; rfl
        have hall : ∀ c ∈ lv.data, c = zeroCell (arrDt s q.arr) := by
          intro c hc
          have := hmem c hc
          exact (List.mem_replicate.mp this).2
        have hrows' := rowsOf_replicate (st.obj nw).natoms (prod t) _ lv.data hlen hall
        rw [hrows'] at hrows
        have hcol : ZeroCol s n total st' q ⟨q.key, ⟨st.heap.length, List.range (st.obj nw).natoms⟩⟩ := by
          refine ⟨rfl, ?_, ?_, ?_, Nat.le_trans hn hl.heap.len, ?_⟩
          · rw [hrows, ht', hnat]; rfl
          · rw [hst']; simp [arrDt, State.buf, addedState, hdt']
          · rw [hst']; simp [arrTrail, State.buf, addedState, ht']
          · rw [hst']; simp [addedState]
        obtain ⟨Z, hZ, hZc⟩ := hl.cols
        refine ⟨hl.heap.trans hext, ?_, ?_, ?_, hsys.trans hl.syss, ?_⟩
        · intro o' hne; rw [hothers o' hne]; exact hl.objs o' hne
        · rw [hst']; rw [obj_added]; simp [hnw', hl.natoms]
          show (st.obj nw).natoms = _
          exact hl.natoms
        · rw [hst']; simp [addedState]; exact hl.objsLen
        · refine ⟨Z ++ [⟨q.key, ⟨st.heap.length, List.range (st.obj nw).natoms⟩⟩], ?_, ?_⟩
          · rw [hprops, hZ, List.append_assoc]
          · intro z hz
            simp only [List.mem_append, List.mem_singleton] at hz
            rcases hz with hz | rfl
            · obtain ⟨q', hq', hf', hc'⟩ := hZc z hz
              exact ⟨q', hq', hf', hc'.mono hext⟩
            · refine ⟨q, hq, ?_, hcol⟩
              -- the key was absent already in s1 (props only grew)
              rw [find_none_iff] at hnone ⊢
              intro p hp
              exact hnone p (by rw [hZ]; simp [hp])
      · cases hc

/-! ### the copy loop of `extend` -/

/-- the value `extend` writes into the appended rows of a column named `p.key`: the donor's column of
    that name, or zeros (dtype and trailing shape of self's column) when the donor has none. -/
def ExtSrc (s2 : State) (o donor n2 : Nat) (p : PropRef) (v : Val) : Prop :=
  (∃ da, (s2.obj donor).find p.key = some da ∧ v = arrVal s2 da) ∨
  ((s2.obj donor).find p.key = none ∧ ∃ sa, (s2.obj o).find p.key = some sa ∧ sa.idx ≠ [] ∧
    v = ⟨arrDt s2 sa, n2 :: arrTrail s2 sa, List.replicate (n2 * prod (arrTrail s2 sa)) (zeroCell (arrDt s2 sa))⟩)

/-- one iteration of "Copy values to the extra atoms in newatoms". -/
theorem extCopy_body {κ2 : Nat → String} {s2 : State} (hinv2 : InvK κ2 s2) (o donor nw n2 : Nat) (sel : Sel)
    (n : Nat) (hfresh : FreshObj n nw s2)
    (hold : ∀ x, x = o ∨ x = donor → ∀ q ∈ (s2.obj x).props, q.arr.buf < n)
    (done : List PropRef) (p : PropRef) (rest : List PropRef) (hsplit : done ++ p :: rest = (s2.obj nw).props)
    (st : State) (hl : AssignLoop s2 sel (ExtSrc s2 o donor n2) done st) :
    Post (do
        let s3 ← getS
        match (s3.obj donor).find p.key with
        | some da => assign p.arr sel (arrVal s3 da)
        | none =>
          match (s3.obj o).find p.key with
          | none => fail .key
          | some sa =>
            if sa.idx = [] then fail .index else
            let tr := arrTrail s3 sa
            let dt := arrDt s3 sa
            assign p.arr sel ⟨dt, n2 :: tr, List.replicate (n2 * prod tr) (zeroCell dt)⟩ : M Unit) st
      (fun r st' => r = .ok () →
        ∃ v newRows, ExtSrc s2 o donor n2 p v ∧ AssignedRows st p.arr sel v newRows ∧ Wrote st p.arr sel newRows st') := by
  have hobj : ∀ x, st.obj x = s2.obj x := by intro x; simp [State.obj, hl.objs]
  -- buffers of the operand and of the donor are older than every array of the new object
  have hstable : ∀ x, x = o ∨ x = donor → ∀ q ∈ (s2.obj x).props, st.buf q.arr.buf = s2.buf q.arr.buf := by
    intro x hx q hq
    apply hl.other
    intro d hd hc
    have hdm : d ∈ (s2.obj nw).props := by rw [← hsplit]; simp [hd]
    have := hfresh d hdm
    have := hold x hx q hq
    omega
  rw [post_bind_getS]
  simp only [hobj]
  split
  · rename_i da hfd
    obtain ⟨q, hq, _, hqa⟩ := find_mem _ _ _ hfd
    have hb : st.buf da.buf = s2.buf da.buf := by rw [← hqa]; exact hstable donor (Or.inr rfl) q hq
    rw [arrVal_congr s2 st da hb]
    apply Post.mono (assign_wrote p.arr sel (arrVal s2 da) st)
    intro r st' ⟨_, h2⟩ hr
    obtain ⟨newRows, hn, _, hw⟩ := h2 hr
    exact ⟨_, newRows, Or.inl ⟨da, hfd, rfl⟩, hn, hw⟩
  · rename_i hfd
    split
    · intro hc; cases hc
    · rename_i sa hfs
      split
      · intro hc; cases hc
      · rename_i hne
        obtain ⟨q, hq, _, hqa⟩ := find_mem _ _ _ hfs
        have hb : st.buf sa.buf = s2.buf sa.buf := by rw [← hqa]; exact hstable o (Or.inl rfl) q hq
        have hdt : arrDt st sa = arrDt s2 sa := by simp [arrDt, hb]
        have htr : arrTrail st sa = arrTrail s2 sa := by simp [arrTrail, hb]
        simp only [hdt, htr]
        apply Post.mono (assign_wrote p.arr sel _ st)
        intro r st' ⟨_, h2⟩ hr
        obtain ⟨newRows, hn, _, hw⟩ := h2 hr
        exact ⟨_, newRows, Or.inr ⟨hfd, sa, hfs, hne, rfl⟩, hn, hw⟩

/-! ### `extend`: the values -/

/-- the selection `[self.natoms:]` of the copy loop. -/
def tailSel (total n1 : Nat) : Sel :=
  { pos := sliceSel total (some (n1 : Int)) none 1, view := true, scalar := false }

/-- **what column `p'` of `atoms.extend(other)` holds.**  Its dtype `dt`, trailing shape `tr` and base rows
    come from self's column of that name cut by the index list `[0..n-1, 0, …, 0]`, or — for a property
    only the donor has — are zeros of the donor's dtype/shape; then the rows `[self.natoms:]` are
    overwritten (`writeRows`) with the donor's column of that name (or zeros of self's dtype/shape when
    the donor has none), broadcast to the selection and cast to `dt`. -/
structure ExtColRes (s : State) (o donor : Nat) (sel sel2 : Sel) (total n2 : Nat) (s' : State) (p' : PropRef) : Prop where
  ex : ∃ (dt : DType) (tr : List Nat) (baseRows : List Row) (v : Val) (newRows : List Row),
    ((∃ p ∈ (s.obj o).props, p'.key = p.key ∧ dt = arrDt s p.arr ∧ tr = arrTrail s p.arr ∧
        baseRows = sel.pos.map (fun i => (arrRows s p.arr)[i]?.getD [])) ∨
     (∃ q ∈ (s.obj donor).props, p'.key = q.key ∧ (s.obj o).find q.key = none ∧ dt = arrDt s q.arr ∧
        tr = arrTrail s q.arr ∧ baseRows = zeroRows total dt tr)) ∧
    ExtSrc s o donor n2 p' v ∧
    (∃ flat cells, bcast v (sel2.count :: tr) = some flat ∧ flat.mapM (castCell dt) = some cells ∧
      newRows = rowsOf sel2.count (prod tr) cells) ∧
    arrDt s' p'.arr = dt ∧ arrTrail s' p'.arr = tr ∧
    arrRows s' p'.arr = writeRows baseRows (sel2.pos.zip newRows)

theorem ExtSrc.to_base {s s2 : State} {o donor n2 : Nat} {p : PropRef} {v : Val} {n : Nat}
    (h : ExtSrc s2 o donor n2 p v) (hobj : ∀ x, x = o ∨ x = donor → s2.obj x = s.obj x)
    (hbuf : ∀ x, x = o ∨ x = donor → ∀ q ∈ (s.obj x).props, s2.buf q.arr.buf = s.buf q.arr.buf) :
    ExtSrc s o donor n2 p v := by
  rcases h with ⟨da, hf, hv⟩ | ⟨hf, sa, hfs, hne, hv⟩
  · left
    rw [hobj donor (Or.inr rfl)] at hf
    obtain ⟨q, hq, _, hqa⟩ := find_mem _ _ _ hf
    refine ⟨da, hf, ?_⟩
    rw [hv]; exact arrVal_congr s s2 da (by rw [← hqa]; exact hbuf donor (Or.inr rfl) q hq)
  · right
    rw [hobj donor (Or.inr rfl)] at hf
    rw [hobj o (Or.inl rfl)] at hfs
    obtain ⟨q, hq, _, hqa⟩ := find_mem _ _ _ hfs
    have hb : s2.buf sa.buf = s.buf sa.buf := by rw [← hqa]; exact hbuf o (Or.inl rfl) q hq
    refine ⟨hf, sa, hfs, hne, ?_⟩
    rw [hv]; simp [arrDt, arrTrail, hb]

theorem resolve_list_len (n : Nat) (l : List Int) (sel : Sel) (h : resolve n (.list l) = .ok sel)
    (hoob : sel.oob = false) : sel.pos.length = l.length := by
  simp only [resolve] at h
  injection h with h
  subst h
  simpa using hoob

theorem extendWith_refines {κ : Nat → String} {s : State} (h : InvK κ s) (o donor : Nat) (hap : HasAP (s.obj o))
    (ho : o < s.objs.length) (hd : donor < s.objs.length) (hdon : ((s.obj donor).find "atype").isSome) :
    Post (extendWith o donor) s (fun r s' => ∀ nw, r = .ok nw →
      ∃ sel, resolve (s.obj o).natoms (.list ((List.range (s.obj o).natoms).map (fun (i : Nat) => (i : Int)) ++
          List.replicate (s.obj donor).natoms (0 : Int))) = .ok sel ∧
        nw = s.objs.length ∧ FrameOK s.heap.length s.objs.length s s' ∧ FreshObj s.heap.length nw s' ∧
        ∀ p' ∈ (s'.obj nw).props,
          ExtColRes s o donor sel (tailSel ((s.obj o).natoms + (s.obj donor).natoms) (s.obj o).natoms)
            ((s.obj o).natoms + (s.obj donor).natoms) (s.obj donor).natoms s' p') := by
  unfold extendWith
  rw [post_atomic, post_bind_getS]
  simp only []
  rw [post_bind]
  apply Post.mono (Post.and (inv_getItem h o _) (getItem_refines h o _ hap))
  intro r s1 ⟨hm1, _, hok1⟩
  cases r with
  | error e => intro nw hc; cases hc
  | ok nw =>
    simp only []
    obtain ⟨sel, hres, hgr⟩ := hok1 nw rfl
    obtain ⟨κ1, hinv1, hext1, hsys1, _, hmk1⟩ := hm1
    obtain ⟨hnw, hlen1, _⟩ := hmk1 nw rfl
    have hcopy := resolve_list_copy _ _ _ hres
    have hf1 := hgr.frame
    have hfresh1 := hgr.freshObj (Or.inl hcopy)
    have hn1 : s.heap.length ≤ s1.heap.length := hgr.heap.len
    have hnw1 : nw < s1.objs.length := by omega
    -- natoms of the new object
    have hpos := (resolve_ok _ _ _ hres).1
    have htot : (s1.obj nw).natoms = sel.pos.length := hgr.natoms
    rw [post_bind]
    -- the donor's arrays are old: dtype and trailing shape are stable under allocation
    have hdold : ∀ q ∈ (s.obj donor).props, q.arr.buf < s.heap.length := fun q hq => (h.obj_props donor q hq).valid.1
    have hoold : ∀ q ∈ (s.obj o).props, q.arr.buf < s.heap.length := fun q hq => (h.obj_props o q hq).valid.1
    -- loop 1 with both the invariant and the exact description
    have hloop1 := post_forEach_ghost (s.obj donor).props
      (fun p => do
        let s1 ← getS
        if ((s1.obj nw).find p.key).isSome then pure () else
        if p.arr.idx = [] then fail .index else
        let tr := arrTrail s1 p.arr
        let dt := arrDt s1 p.arr
        viewSet nw p.key (.lit ⟨dt, ((s.obj o).natoms + (s.obj donor).natoms) :: tr,
          List.replicate (((s.obj o).natoms + (s.obj donor).natoms) * prod tr) (zeroCell dt)⟩))
      (fun g st => (InvK g st ∧ Ext κ1 s1 g st ∧ st.objs.length = s1.objs.length ∧ st.syss = s1.syss) ∧
        ((s1.obj nw).natoms = (s.obj o).natoms + (s.obj donor).natoms →
          ZLoop s s.heap.length ((s.obj o).natoms + (s.obj donor).natoms) s1 nw donor st) ∧
        FrameOK s.heap.length s.objs.length s st ∧ FreshObj s.heap.length nw st ∧ s.heap.length ≤ st.heap.length)
      Ext (fun g st => Ext.refl g st) (fun _ _ _ _ _ _ h1 h2 => h1.trans h2)
      (by
        intro p hp g st ⟨⟨hg, hge, hgl, hgs⟩, hz, hf, hfr, hn⟩
        -- invariant part
        have hA : Post (do
              let s1 ← getS
              if ((s1.obj nw).find p.key).isSome then pure () else
              if p.arr.idx = [] then fail .index else
              let tr := arrTrail s1 p.arr
              let dt := arrDt s1 p.arr
              viewSet nw p.key (.lit ⟨dt, ((s.obj o).natoms + (s.obj donor).natoms) :: tr,
                List.replicate (((s.obj o).natoms + (s.obj donor).natoms) * prod tr) (zeroCell dt)⟩) : M Unit) st
            (fun _ st' => (∃ g', (InvK g' st' ∧ Ext κ1 s1 g' st' ∧ st'.objs.length = s1.objs.length ∧ st'.syss = s1.syss) ∧
              Ext g st g' st') ∧ FrameOK s.heap.length s.objs.length s st' ∧ FreshObj s.heap.length nw st' ∧
              s.heap.length ≤ st'.heap.length) := by
          rw [post_bind_getS]
          split
          · exact ⟨⟨g, ⟨hg, hge, hgl, hgs⟩, Ext.refl g st⟩, hf, hfr, hn⟩
          · split
            · exact ⟨⟨g, ⟨hg, hge, hgl, hgs⟩, Ext.refl g st⟩, hf, hfr, hn⟩
            · simp only []
              apply Post.mono (Post.and (inv_viewSet hg nw p.key (.lit _) (zeros_ok _ _ _))
                (viewSet_lit_frame nw p.key _ st s.heap.length s.objs.length (by omega) hn hfr))
              intro r st' ⟨⟨⟨g', hg', hge', hgl', hgs'⟩, _⟩, hf', hfr', hn', _⟩
              exact ⟨⟨g', ⟨hg', hge.trans hge', by rw [hgl', hgl], by rw [hgs', hgs]⟩, hge'⟩, hf.trans hf', hfr', hn'⟩
        -- exact part
        have hB : (s1.obj nw).natoms = (s.obj o).natoms + (s.obj donor).natoms →
            Post (do
              let s1' ← getS
              if ((s1'.obj nw).find p.key).isSome then pure () else
              if p.arr.idx = [] then fail .index else
              let tr := arrTrail s1' p.arr
              let dt := arrDt s1' p.arr
              viewSet nw p.key (.lit ⟨dt, ((s.obj o).natoms + (s.obj donor).natoms) :: tr,
                List.replicate (((s.obj o).natoms + (s.obj donor).natoms) * prod tr) (zeroCell dt)⟩) : M Unit) st
            (fun r st' => ZLoop s s.heap.length ((s.obj o).natoms + (s.obj donor).natoms) s1 nw donor st') := by
          intro hnat
          apply zeroCols_step hn1 hnw1 hnat p hp ?_ st (hz hnat)
          intro st2 hx
          have hb1 := hf1.1 p.arr.buf (hdold p hp)
          have hb2 := hx.buf p.arr.buf (Nat.lt_of_lt_of_le (hdold p hp) hn1)
          simp [arrDt, arrTrail, hb1, hb2]
        have hAB := Post.and hA (show Post _ st (fun r st' => (s1.obj nw).natoms = (s.obj o).natoms + (s.obj donor).natoms →
            ZLoop s s.heap.length ((s.obj o).natoms + (s.obj donor).natoms) s1 nw donor st') from
          fun hnat => hB hnat)
        apply Post.mono hAB
        intro r st' ⟨⟨⟨g', hI, hE⟩, hf', hfr', hn'⟩, hzl⟩
        exact ⟨g', ⟨hI, hzl, hf', hfr', hn'⟩, hE⟩)
      κ1 s1 ⟨⟨hinv1, Ext.refl κ1 s1, rfl, rfl⟩,
        fun _ => ⟨HeapExt.refl s1, fun _ _ => rfl, rfl, rfl, rfl, [], by simp, fun z hz => by simp at hz⟩, hf1, hfresh1, hn1⟩
    apply Post.mono hloop1
    intro r s2 ⟨κ2, ⟨⟨hinv2, hext2, hlen2, hsys2⟩, hz2, hf2, hfr2, hn2⟩, _⟩
    cases r with
    | error e => intro nw' hc; cases hc
    | ok u =>
      simp only []
      rw [post_bind_getS, post_bind]
      -- the new object has self.natoms + donor.natoms atoms
      have hnat1 : (s1.obj nw).natoms = (s.obj o).natoms + (s.obj donor).natoms := by
        rw [htot, resolve_list_len _ _ _ hres hgr.oob]; simp
      have hzl := hz2 hnat1
      have hnat2 : (s2.obj nw).natoms = (s.obj o).natoms + (s.obj donor).natoms := hzl.natoms.trans hnat1
      -- frame facts about operand and donor in s2
      have hobj2 : ∀ x, x = o ∨ x = donor → s2.obj x = s.obj x := by
        intro x hx; rcases hx with rfl | rfl
        · exact hf2.2.1 _ ho
        · exact hf2.2.1 _ hd
      have hold2 : ∀ x, x = o ∨ x = donor → ∀ q ∈ (s2.obj x).props, q.arr.buf < s.heap.length := by
        intro x hx q hq
        rw [hobj2 x hx] at hq
        rcases hx with rfl | rfl
        · exact hoold q hq
        · exact hdold q hq
      have hposC : ∀ i ∈ (tailSel ((s.obj o).natoms + (s.obj donor).natoms) (s.obj o).natoms).pos, i < (s2.obj nw).natoms := by
        intro i hi
        rw [hnat2]
        exact sliceSel_lt _ _ _ _ i (by simpa [tailSel] using hi)
      have hloop2 := assign_loop hinv2 nw (tailSel ((s.obj o).natoms + (s.obj donor).natoms) (s.obj o).natoms) hposC
        (fun p => do
          let s3 ← getS
          match (s3.obj donor).find p.key with
          | some da => assign p.arr (tailSel ((s.obj o).natoms + (s.obj donor).natoms) (s.obj o).natoms) (arrVal s3 da)
          | none =>
            match (s3.obj o).find p.key with
            | none => fail .key
            | some sa =>
              if sa.idx = [] then fail .index else
              let tr := arrTrail s3 sa
              let dt := arrDt s3 sa
              assign p.arr (tailSel ((s.obj o).natoms + (s.obj donor).natoms) (s.obj o).natoms)
                ⟨dt, (s.obj donor).natoms :: tr, List.replicate ((s.obj donor).natoms * prod tr) (zeroCell dt)⟩)
        (ExtSrc s2 o donor (s.obj donor).natoms)
        (fun done p rest hsplit st hl =>
          extCopy_body hinv2 o donor nw (s.obj donor).natoms _ s.heap.length hfr2 hold2 done p rest hsplit st hl)
        (s2.obj nw).props [] s2 (by simp) (AssignLoop.init s2 _ _)
      apply Post.mono hloop2
      intro r s3 hq3
      cases r with
      | error e => intro nw' hc; cases hc
      | ok u =>
        simp only []
        rw [post_pure]
        intro nw' hnw'
        have : nw' = nw := by
          have : (Except.ok nw : Except Err Nat) = .ok nw' := hnw'
          injection this with this; exact this.symm
        subst this
        have hl3 := hq3 rfl
        simp only [List.nil_append] at hl3
        have hobj3 : ∀ x, s3.obj x = s2.obj x := by intro x; simp [State.obj, hl3.objs]
        -- frame of the whole call
        have hf3 : FrameOK s.heap.length s.objs.length s s3 := by
          refine hf2.trans ⟨?_, fun x _ => hobj3 x, hl3.syss⟩
          intro b hb
          apply hl3.other
          intro p hp hc
          have := hfr2 p hp
          omega
        have hfr3 : FreshObj s.heap.length nw' s3 := by
          intro p hp; rw [hobj3] at hp; exact hfr2 p hp
        refine ⟨sel, hres, hnw, hf3, hfr3, ?_⟩
        intro p' hp'
        rw [hobj3] at hp'
        obtain ⟨v, newRows, hsrc, hasg, hrows⟩ := hl3.cols p' hp'
        have hp2 := hinv2.obj_props nw' p' hp'
        have hsrc' : ExtSrc s o donor (s.obj donor).natoms p' v := by
          apply hsrc.to_base hobj2 (n := s.heap.length)
          intro x hx q hq
          apply hf2.1
          rcases hx with rfl | rfl
          · exact hoold q hq
          · exact hdold q hq
        have hshape3 := hl3.shape p'.arr.buf hp2.valid.1
        obtain ⟨flat, cells, hb1, hb2, hb3⟩ := hasg
        have hb1' : bcast v ((tailSel ((s.obj o).natoms + (s.obj donor).natoms) (s.obj o).natoms).count :: arrTrail s2 p'.arr)
            = some flat := by simpa [assignShape, tailSel, arrTrail] using hb1
        -- where does the column come from?
        obtain ⟨Z, hZ, hZc⟩ := hzl.cols
        rw [hZ] at hp'
        simp only [List.mem_append] at hp'
        rcases hp' with hp1 | hpz
        · -- a column of self, cut by the index list
          obtain ⟨p, hp, hrel⟩ := hgr.colsRev p' hp1
          have hp1ok := hinv1.obj_props nw' p' hp1
          obtain ⟨r1, r2, r3⟩ := hzl.heap.rows p'.arr hp1ok.valid.1
          refine ⟨⟨arrDt s p.arr, arrTrail s p.arr, _, v, newRows, Or.inl ⟨p, hp, hrel.key, rfl, rfl, rfl⟩, hsrc', ?_, ?_, ?_, ?_⟩⟩
          · refine ⟨flat, cells, ?_, ?_, ?_⟩
            · rw [← hrel.trail, ← r3]; exact hb1'
            · rw [← hrel.dt, ← r2]; exact hb2
            · rw [← hrel.trail, ← r3]; exact hb3
          · show (s3.buf p'.arr.buf).dt = _
            rw [hshape3.1, ← hrel.dt, ← r2]; rfl
          · show (s3.buf p'.arr.buf).trail = _
            rw [hshape3.2, ← hrel.trail, ← r3]; rfl
          · rw [hrows, r1, hrel.rows]
        · -- a zero column made for a donor-only property
          obtain ⟨q, hq, hnone, hzc⟩ := hZc p' hpz
          have hnone' : (s.obj o).find q.key = none := by
            -- the operand lacks the key: the new object has exactly the operand's keys
            rw [find_none_iff] at hnone ⊢
            intro p hp hk
            obtain ⟨p1, hp1m, hrel⟩ := hgr.cols p hp
            exact hnone p1 hp1m (hrel.key.trans hk)
          refine ⟨⟨arrDt s q.arr, arrTrail s q.arr, _, v, newRows, Or.inr ⟨q, hq, hzc.key, hnone', rfl, rfl, rfl⟩, hsrc', ?_, ?_, ?_, ?_⟩⟩
          · refine ⟨flat, cells, ?_, ?_, ?_⟩
            · rw [← hzc.trail]; exact hb1'
            · rw [← hzc.dt]; exact hb2
            · rw [← hzc.trail]; exact hb3
          · show (s3.buf p'.arr.buf).dt = _
            rw [hshape3.1]; exact hzc.dt
          · show (s3.buf p'.arr.buf).trail = _
            rw [hshape3.2]; exact hzc.trail
          · rw [hrows, hzc.rows]

/-! ### closed forms: the appended rows follow self's rows -/

theorem filter_ge_range (n1 n2 : Nat) :
    (List.range (n1 + n2)).filter (fun i => decide (n1 ≤ i)) = (List.range n2).map (fun j => n1 + j) := by
  induction n2 with
  | zero =>
    simp only [Nat.add_zero, List.range_zero, List.map_nil]
    rw [List.filter_eq_nil_iff]
    intro i hi
    have := List.mem_range.mp hi
    simp; omega
  | succ k ih =>
    rw [← Nat.add_assoc, List.range_succ, List.filter_append, ih, List.range_succ, List.map_append]
    simp

theorem tailSel_pos (n1 n2 : Nat) : (tailSel (n1 + n2) n1).pos = (List.range n2).map (fun j => n1 + j) ∧
    (tailSel (n1 + n2) n1).count = n2 := by
  have hpos : (tailSel (n1 + n2) n1).pos = (List.range n2).map (fun j => n1 + j) := by
    simp only [tailSel, sliceSel]
    have h1 : (1 : Int) > 0 := by decide
    simp only [h1, if_true]
    rw [← filter_ge_range]
    apply List.filter_congr
    intro i hi
    have hi' := List.mem_range.mp hi
    have hn : ¬ ((n1 : Int) < 0) := by omega
    simp only [hn, if_false]
    have hmin : min (n1 : Int) ((n1 + n2 : Nat) : Int) = n1 := by omega
    rw [hmin]
    simp only [Int.emod_one, and_true, decide_eq_decide]
    constructor
    · intro h; omega
    · intro h; exact ⟨by omega, by omega⟩
  refine ⟨hpos, ?_⟩
  show (tailSel (n1 + n2) n1).pos.length = n2
  rw [hpos]; simp

theorem writeRows_tail (base new : List Row) (n1 n2 : Nat) (hb : base.length = n1 + n2) (hn : new.length = n2) :
    writeRows base (((List.range n2).map (fun j => n1 + j)).zip new) = base.take n1 ++ new := by
  apply List.ext_getElem
  · rw [writeRows_length]; simp [hb, hn]
  · intro i h1 h2
    have hi : i < base.length := by rw [writeRows_length] at h1; exact h1
    by_cases hlt : i < n1
    · -- untouched
      have := writeRows_get_notin base (((List.range n2).map (fun j => n1 + j)).zip new) i (by
        intro u hu
        have := (List.of_mem_zip hu).1
        simp only [List.mem_map, List.mem_range] at this
        obtain ⟨j, _, hj⟩ := this
        omega)
      rw [List.getElem?_eq_getElem h1, List.getElem?_eq_getElem hi] at this
      injection this with this
      rw [this, List.getElem_append_left (by simp; omega)]
      simp
    · -- written with new[i - n1]
      have hj : i - n1 < n2 := by omega
      have hnj : i - n1 < new.length := by omega
      let L := ((List.range n2).map (fun j => n1 + j)).zip new
      have hLlen : i - n1 < L.length := by simp [L, hn]; exact hj
      have hLi : L[i - n1] = (i, new[i - n1]) := by
        simp [L]; omega
      have hz : L = L.take (i - n1) ++ (i, new[i - n1]) :: L.drop (i - n1 + 1) := by
        have hd := List.drop_eq_getElem_cons hLlen
        calc L = L.take (i - n1) ++ L.drop (i - n1) := (List.take_append_drop _ _).symm
          _ = _ := by rw [hd, hLi]
      have := writeRows_last base L i hi new[i - n1] _ _ hz (by
        intro u hu
        obtain ⟨k, hk, hku⟩ := List.mem_drop_iff_getElem.mp hu
        rw [← hku]
        simp [L]
        omega)
      show (writeRows base L)[i] = _
      rw [List.getElem?_eq_getElem h1] at this
      injection this with this
      rw [this, List.getElem_append_right (by simp; omega)]
      simp [hb]

theorem filterMap_normInt_range (n : Nat) :
    ∀ k, k ≤ n → ((List.range k).map (fun (i : Nat) => (i : Int))).filterMap (normInt n) = List.range k := by
  intro k
  induction k with
  | zero => intro _; rfl
  | succ k ih =>
    intro hk
    rw [List.range_succ, List.map_append, List.filterMap_append, ih (by omega)]
    have : normInt n (k : Int) = some k := by
      unfold normInt
      have : (0 : Int) ≤ k ∧ (k : Int) < n := by omega
      simp [this]
    simp [this]

/-- the index list `[0, …, n1-1, 0, …, 0]` of `extend` selects self's atoms followed by `n2` times atom 0. -/
theorem extend_index_sel (n1 n2 : Nat) (h0 : 0 < n1 ∨ n2 = 0) (sel : Sel)
    (h : resolve n1 (.list ((List.range n1).map (fun (i : Nat) => (i : Int)) ++ List.replicate n2 (0 : Int))) = .ok sel) :
    sel.pos = List.range n1 ++ List.replicate n2 0 := by
  simp only [resolve] at h
  injection h with h
  subst h
  simp only [List.filterMap_append, filterMap_normInt_range n1 n1 (Nat.le_refl _)]
  congr 1
  rcases h0 with h0 | h0
  · have : normInt n1 0 = some 0 := by
      unfold normInt
      have : (0 : Int) ≤ 0 ∧ (0 : Int) < n1 := by omega
      simp [this]
      omega
    induction n2 with
    | zero => rfl
    | succ k ih => simp [List.replicate_succ, this, ih]
  · subst h0; rfl

/-- a column of self in the result: self's rows followed by the new rows. -/
theorem extend_self_rows (R new : List Row) (n2 : Nat) (hn : new.length = n2) :
    writeRows ((List.range R.length ++ List.replicate n2 0).map (fun i => R[i]?.getD []))
      ((tailSel (R.length + n2) R.length).pos.zip new) = R ++ new := by
  rw [(tailSel_pos R.length n2).1, writeRows_tail _ new R.length n2 (by simp) hn]
  congr 1
  rw [List.map_append, List.take_append_of_le_length (by simp)]
  rw [List.take_of_length_le (by simp)]
  exact map_range_getD R []

/-- a donor-only column in the result: zeros for self's atoms followed by the new rows. -/
theorem extend_zero_rows (new : List Row) (n1 n2 : Nat) (dt : DType) (tr : List Nat) (hn : new.length = n2) :
    writeRows (zeroRows (n1 + n2) dt tr) ((tailSel (n1 + n2) n1).pos.zip new) = zeroRows n1 dt tr ++ new := by
  rw [(tailSel_pos n1 n2).1, writeRows_tail _ new n1 n2 (by simp [zeroRows]) hn]
  congr 1
  simp [zeroRows, List.take_replicate]

end Atomman.C06
