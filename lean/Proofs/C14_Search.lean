/-
  C14 helper lemmas, part 2: `gen_vector` enumerates the index cube, fold invariants of the two searches
  (membership, filter, minimality / maximal cosine / tie-break), positivity of lattice-vector lengths.
  `K` is any linearly ordered commutative ring: the lemmas apply to the driver's run at `ℤ` (cell scaled to
  integers) as well as to `ℚ`/`ℝ`.
-/
import Proofs.C14_Lemmas
import Mathlib.Data.List.Basic
import Mathlib.Tactic.Positivity
import Mathlib.Data.Int.GCD

namespace Atomman.C14
open Atomman
set_option linter.unusedSectionVars false
set_option linter.unusedSimpArgs false
set_option linter.unusedVariables false

/-! ### `gen_vector(n)` enumerates exactly the non-zero integer vectors with entries in `[-n, n]` -/

theorem mem_signedRange (n x : ℤ) : x ∈ signedRange n ↔ -n ≤ x ∧ x ≤ n := by
  simp only [signedRange, List.mem_flatMap, List.mem_range, List.mem_cons, List.not_mem_nil, or_false]
  constructor
  · rintro ⟨q, hq, rfl | rfl⟩ <;> omega
  · intro h
    by_cases hx : 0 ≤ x
    · exact ⟨x.toNat, by omega, Or.inl (by omega)⟩
    · exact ⟨(-x).toNat, by omega, Or.inr (by omega)⟩

theorem mem_genVectors (n : ℤ) (v : IV) :
    v ∈ genVectors n ↔ (-n ≤ v.x ∧ v.x ≤ n) ∧ (-n ≤ v.y ∧ v.y ≤ n) ∧ (-n ≤ v.z ∧ v.z ≤ n) ∧ v ≠ ⟨0, 0, 0⟩ := by
  obtain ⟨x, y, z⟩ := v
  simp only [genVectors, List.mem_flatMap, List.mem_filterMap, mem_signedRange]
  constructor
  · rintro ⟨k, hk, j, hj, i, hi, he⟩
    split_ifs at he with h0
    simp only [Option.some.injEq, V3.mk.injEq] at he
    obtain ⟨rfl, rfl, rfl⟩ := he
    refine ⟨hi, hj, hk, ?_⟩
    intro hc
    simp only [V3.mk.injEq] at hc
    exact h0 hc
  · rintro ⟨hx, hy, hz, hne⟩
    refine ⟨z, hz, y, hy, x, hx, ?_⟩
    have : ¬(x = 0 ∧ y = 0 ∧ z = 0) := by
      rintro ⟨rfl, rfl, rfl⟩; exact hne rfl
    simp only [this, if_false]

/-! ### generic fold invariants -/

theorem foldl_inv {α β : Type} (f : β → α → β) (P : β → Prop) (l : List α)
    (hstep : ∀ b a, a ∈ l → P b → P (f b a)) (b0 : β) (h0 : P b0) : P (l.foldl f b0) := by
  induction l generalizing b0 with
  | nil => exact h0
  | cons x xs ih =>
    simp only [List.foldl_cons]
    exact ih (fun b a ha hb => hstep b a (List.mem_cons_of_mem _ ha) hb) _ (hstep b0 x (List.mem_cons_self) h0)

/-- invariant that may mention the already processed prefix. -/
theorem foldl_inv_prefix {α β : Type} (f : β → α → β) (Q : List α → β → Prop) (l : List α) (b0 : β)
    (h0 : Q [] b0) (hstep : ∀ pre b a, Q pre b → Q (pre ++ [a]) (f b a)) : Q l (l.foldl f b0) := by
  suffices h : ∀ (pre : List α) (b : β), Q pre b → Q (pre ++ l) (l.foldl f b) by simpa using h [] b0 h0
  induction l with
  | nil => intro pre b hb; simpa using hb
  | cons x xs ih =>
    intro pre b hb
    have := ih (pre ++ [x]) (f b x) (hstep pre b x hb)
    simpa using this


section ordered
variable {K : Type} [CommRing K] [LinearOrder K] [IsStrictOrderedRing K]

/-- squared Cartesian length of the lattice vector `v`. -/
def m2 (V : M3 K) (v : IV) : K := V3.normSq (cart V v)
/-- component along the (unnormalised) plane normal. -/
def dn (V : M3 K) (pn : V3 K) (v : IV) : K := V3.dot (cart V v) pn

/-- what the first search knows about `a` after the candidates `pre`. -/
def QA (V : M3 K) (pn : V3 K) (bound : K) (pre : List IV) (st : S1 K) : Prop :=
  st.aMag2 ≤ bound ∧ (∀ v ∈ pre, inPlane V pn v → st.aMag2 ≤ m2 V v) ∧
  ((st.a = none ∧ st.aMag2 = bound) ∨
   (∃ a, st.a = some a ∧ a ∈ pre ∧ inPlane V pn a ∧ st.aMag2 = m2 V a ∧ m2 V a < bound))

theorem step1_QA (V : M3 K) (pn : V3 K) (bound : K) (pre : List IV) (st : S1 K) (v : IV)
    (h : QA V pn bound pre st) : QA V pn bound (pre ++ [v]) (step1 V pn st v) := by
  obtain ⟨hle, hmin, hcase⟩ := h
  unfold step1
  by_cases hd : V3.dot (cart V v) pn = 0
  · simp only [hd, if_true]
    by_cases hlt : V3.normSq (cart V v) < st.aMag2
    · simp only [hlt, if_true]
      refine ⟨le_of_lt (lt_of_lt_of_le hlt hle), ?_, Or.inr ⟨v, rfl, by simp, hd, rfl, lt_of_lt_of_le hlt hle⟩⟩
      intro w hw hin
      rcases List.mem_append.mp hw with hw | hw
      · exact le_trans (le_of_lt hlt) (hmin w hw hin)
      · simp only [List.mem_singleton] at hw; subst hw; exact le_refl _
    · simp only [hlt, if_false]
      refine ⟨hle, ?_, ?_⟩
      · intro w hw hin
        rcases List.mem_append.mp hw with hw | hw
        · exact hmin w hw hin
        · simp only [List.mem_singleton] at hw; subst hw; exact not_lt.mp hlt
      · rcases hcase with hc | ⟨a, h1, h2, h3⟩
        · exact Or.inl hc
        · exact Or.inr ⟨a, h1, List.mem_append_left _ h2, h3⟩
  · have key : (step1 V pn st v).a = st.a ∧ (step1 V pn st v).aMag2 = st.aMag2 := by
      unfold step1
      simp only [hd, if_false]
      split_ifs <;> (try split) <;> (try split_ifs) <;> exact ⟨rfl, rfl⟩
    unfold step1 at key
    unfold QA
    rw [key.1, key.2]
    refine ⟨hle, ?_, ?_⟩
    · intro w hw hin
      rcases List.mem_append.mp hw with hw | hw
      · exact hmin w hw hin
      · simp only [List.mem_singleton] at hw; subst hw; exact absurd hin hd
    · rcases hcase with hc | ⟨a, h1, h2, h3⟩
      · exact Or.inl hc
      · exact Or.inr ⟨a, h1, List.mem_append_left _ h2, h3⟩


/-- what the first search knows about the out-of-plane candidate after the candidates `pre`
    (all of positive length): it is on the normal's side and no processed candidate on that side has a
    larger cosine to the normal (`d_w²/m_w ≤ d_c²/m_c`, cross-multiplied). -/
def QC (V : M3 K) (pn : V3 K) (pre : List IV) (st : S1 K) : Prop :=
  (st.c = none ∧ ∀ w ∈ pre, ¬ 0 < dn V pn w) ∨
  (∃ cb, st.c = some cb ∧ cb.v ∈ pre ∧ 0 < cb.d ∧ cb.d = dn V pn cb.v ∧ cb.m2 = m2 V cb.v ∧
    ∀ w ∈ pre, 0 < dn V pn w → dn V pn w * dn V pn w * cb.m2 ≤ cb.d * cb.d * m2 V w)

theorem step1_QC (V : M3 K) (pn : V3 K) (pre : List IV) (st : S1 K) (v : IV)
    (h : (∀ w ∈ pre, 0 < m2 V w) → QC V pn pre st) :
    (∀ w ∈ pre ++ [v], 0 < m2 V w) → QC V pn (pre ++ [v]) (step1 V pn st v) := by
  intro hpos
  have hposv : 0 < m2 V v := hpos v (by simp)
  have h := h (fun w hw => hpos w (List.mem_append_left _ hw))
  unfold step1
  by_cases hd : V3.dot (cart V v) pn = 0
  · have key : (if V3.normSq (cart V v) < st.aMag2 then ({ st with a := some v, aMag2 := V3.normSq (cart V v) } : S1 K)
        else st).c = st.c := by split_ifs <;> rfl
    simp only [hd, if_true]
    unfold QC
    rw [key]
    rcases h with ⟨h1, h2⟩ | ⟨cb, h1, h2, h3, h4, h5, h6⟩
    · refine Or.inl ⟨h1, ?_⟩
      intro w hw
      rcases List.mem_append.mp hw with hw | hw
      · exact h2 w hw
      · simp only [List.mem_singleton] at hw; subst hw; simp only [dn, hd, lt_irrefl, not_false_eq_true]
    · refine Or.inr ⟨cb, h1, List.mem_append_left _ h2, h3, h4, h5, ?_⟩
      intro w hw hw0
      rcases List.mem_append.mp hw with hw | hw
      · exact h6 w hw hw0
      · simp only [List.mem_singleton] at hw; subst hw; simp only [dn, hd, lt_irrefl] at hw0
  · simp only [hd, if_false]
    by_cases hp : 0 < V3.dot (cart V v) pn
    · simp only [hp, if_true]
      rcases h with ⟨h1, h2⟩ | ⟨cb, h1, h2, h3, h4, h5, h6⟩
      · -- first candidate on the normal's side
        simp only [h1]
        refine Or.inr ⟨⟨v, V3.dot (cart V v) pn, V3.normSq (cart V v)⟩, rfl, by simp, hp, rfl, rfl, ?_⟩
        intro w hw hw0
        rcases List.mem_append.mp hw with hw | hw
        · exact absurd hw0 (h2 w hw)
        · simp only [List.mem_singleton] at hw; subst hw; exact le_refl _
      · simp only [h1]
        by_cases hb : cb.d * cb.d * V3.normSq (cart V v) < V3.dot (cart V v) pn * V3.dot (cart V v) pn * cb.m2
        · simp only [hb, if_true]
          refine Or.inr ⟨⟨v, V3.dot (cart V v) pn, V3.normSq (cart V v)⟩, rfl, by simp, hp, rfl, rfl, ?_⟩
          intro w hw hw0
          rcases List.mem_append.mp hw with hw | hw
          · -- transitivity of the cosine order
            have h7 := h6 w hw hw0
            have hcm : 0 < cb.m2 := by rw [h5]; exact hpos _ (List.mem_append_left _ h2)
            have hwm : 0 < m2 V w := hpos w (List.mem_append_left _ hw)
            show dn V pn w * dn V pn w * V3.normSq (cart V v) ≤ V3.dot (cart V v) pn * V3.dot (cart V v) pn * m2 V w
            have hvm : 0 < V3.normSq (cart V v) := hposv
            refine le_of_mul_le_mul_right ?_ hcm
            have e1 : dn V pn w * dn V pn w * V3.normSq (cart V v) * cb.m2
                = (dn V pn w * dn V pn w * cb.m2) * V3.normSq (cart V v) := by ring
            have e2 : V3.dot (cart V v) pn * V3.dot (cart V v) pn * m2 V w * cb.m2
                = (V3.dot (cart V v) pn * V3.dot (cart V v) pn * cb.m2) * m2 V w := by ring
            rw [e1, e2]
            calc dn V pn w * dn V pn w * cb.m2 * V3.normSq (cart V v)
                ≤ cb.d * cb.d * m2 V w * V3.normSq (cart V v) := mul_le_mul_of_nonneg_right h7 hvm.le
              _ = cb.d * cb.d * V3.normSq (cart V v) * m2 V w := by ring
              _ ≤ V3.dot (cart V v) pn * V3.dot (cart V v) pn * cb.m2 * m2 V w :=
                  mul_le_mul_of_nonneg_right hb.le hwm.le
          · simp only [List.mem_singleton] at hw; subst hw; exact le_refl _
        · simp only [hb, if_false]
          refine Or.inr ⟨cb, h1, List.mem_append_left _ h2, h3, h4, h5, ?_⟩
          intro w hw hw0
          rcases List.mem_append.mp hw with hw | hw
          · exact h6 w hw hw0
          · simp only [List.mem_singleton] at hw; subst hw; exact not_lt.mp hb
    · simp only [hp, if_false]
      rcases h with ⟨h1, h2⟩ | ⟨cb, h1, h2, h3, h4, h5, h6⟩
      · refine Or.inl ⟨h1, ?_⟩
        intro w hw
        rcases List.mem_append.mp hw with hw | hw
        · exact h2 w hw
        · simp only [List.mem_singleton] at hw; subst hw; exact hp
      · refine Or.inr ⟨cb, h1, List.mem_append_left _ h2, h3, h4, h5, ?_⟩
        intro w hw hw0
        rcases List.mem_append.mp hw with hw | hw
        · exact h6 w hw hw0
        · simp only [List.mem_singleton] at hw; subst hw; exact absurd hw0 hp


/-- what the second search knows after the candidates `pre`: the kept vector passes the filter, is a
    shortest filter-passing candidate, and among those of the same length has the largest `a·b`
    (smallest angle to `a`). -/
def QB (V : M3 K) (pn aC : V3 K) (bound : K) (pre : List IV) (st : S2 K) : Prop :=
  st.bMag2 ≤ bound ∧ (∀ w ∈ pre, bFilter V pn aC w → st.bMag2 ≤ m2 V w) ∧
  ((st.b = none ∧ st.bDot = none ∧ st.bMag2 = bound ∧ ∀ w ∈ pre, bFilter V pn aC w → bound < m2 V w) ∨
   (∃ b, st.b = some b ∧ st.bDot = some (V3.dot aC (cart V b)) ∧ b ∈ pre ∧ bFilter V pn aC b ∧
      st.bMag2 = m2 V b ∧
      ∀ w ∈ pre, bFilter V pn aC w → m2 V w = m2 V b → V3.dot aC (cart V w) ≤ V3.dot aC (cart V b)))

theorem step2_QB (V : M3 K) (pn aC : V3 K) (bound : K) (pre : List IV) (st : S2 K) (v : IV)
    (h : QB V pn aC bound pre st) : QB V pn aC bound (pre ++ [v]) (step2 V pn aC st v) := by
  obtain ⟨hle, hmin, hcase⟩ := h
  unfold step2
  by_cases hf : bFilter V pn aC v
  · simp only [hf, if_true]
    by_cases hacc : (V3.normSq (cart V v) = st.bMag2 ∧ angleLess st.bDot (V3.dot aC (cart V v)) = true) ∨
        V3.normSq (cart V v) < st.bMag2
    · simp only [hacc, if_true]
      have hle' : V3.normSq (cart V v) ≤ st.bMag2 := by
        rcases hacc with ⟨h1, _⟩ | h1
        · exact le_of_eq h1
        · exact le_of_lt h1
      refine ⟨le_trans hle' hle, ?_, Or.inr ⟨v, rfl, rfl, by simp, hf, rfl, ?_⟩⟩
      · intro w hw hfw
        rcases List.mem_append.mp hw with hw | hw
        · exact le_trans hle' (hmin w hw hfw)
        · simp only [List.mem_singleton] at hw; subst hw; exact le_refl _
      · intro w hw hfw hmw
        rcases List.mem_append.mp hw with hw | hw
        · rcases hacc with ⟨h1, h2⟩ | h1
          · rcases hcase with ⟨c1, c2, c3, c4⟩ | ⟨b, c1, c2, c3, c4, c5, c6⟩
            · -- nothing kept so far: `w` would have been longer than the bound
              have := c4 w hw hfw
              have h3 : m2 V w = bound := by rw [hmw]; show V3.normSq (cart V v) = bound; rw [h1, c3]
              rw [h3] at this; exact absurd this (lt_irrefl _)
            · rw [c2] at h2
              simp only [angleLess, decide_eq_true_eq] at h2
              have h3 : m2 V w = m2 V b := by rw [hmw, ← c5]; exact h1
              exact le_trans (c6 w hw hfw h3) (le_of_lt h2)
          · have := hmin w hw hfw
            rw [hmw] at this
            exact absurd (lt_of_lt_of_le h1 this) (lt_irrefl _)
        · simp only [List.mem_singleton] at hw; subst hw; exact le_refl _
    · simp only [hacc, if_false]
      have hn1 : ¬ V3.normSq (cart V v) < st.bMag2 := fun h => hacc (Or.inr h)
      have hn2 : V3.normSq (cart V v) = st.bMag2 → ¬ angleLess st.bDot (V3.dot aC (cart V v)) = true :=
        fun h1 h2 => hacc (Or.inl ⟨h1, h2⟩)
      refine ⟨hle, ?_, ?_⟩
      · intro w hw hfw
        rcases List.mem_append.mp hw with hw | hw
        · exact hmin w hw hfw
        · simp only [List.mem_singleton] at hw; subst hw; exact not_lt.mp hn1
      · rcases hcase with ⟨c1, c2, c3, c4⟩ | ⟨b, c1, c2, c3, c4, c5, c6⟩
        · refine Or.inl ⟨c1, c2, c3, ?_⟩
          intro w hw hfw
          rcases List.mem_append.mp hw with hw | hw
          · exact c4 w hw hfw
          · simp only [List.mem_singleton] at hw; subst hw
            rcases lt_or_eq_of_le (not_lt.mp hn1) with h3 | h3
            · rw [c3] at h3; exact h3
            · exact absurd (by rw [c2]; rfl) (hn2 h3.symm)
        · refine Or.inr ⟨b, c1, c2, List.mem_append_left _ c3, c4, c5, ?_⟩
          intro w hw hfw hmw
          rcases List.mem_append.mp hw with hw | hw
          · exact c6 w hw hfw hmw
          · simp only [List.mem_singleton] at hw; subst hw
            have h3 : V3.normSq (cart V w) = st.bMag2 := by rw [c5]; exact hmw
            have := hn2 h3
            rw [c2] at this
            simp only [angleLess, decide_eq_true_eq] at this
            exact not_lt.mp this
  · simp only [hf, if_false]
    refine ⟨hle, ?_, ?_⟩
    · intro w hw hfw
      rcases List.mem_append.mp hw with hw | hw
      · exact hmin w hw hfw
      · simp only [List.mem_singleton] at hw; subst hw; exact absurd hfw hf
    · rcases hcase with ⟨c1, c2, c3, c4⟩ | ⟨b, c1, c2, c3, c4, c5, c6⟩
      · refine Or.inl ⟨c1, c2, c3, ?_⟩
        intro w hw hfw
        rcases List.mem_append.mp hw with hw | hw
        · exact c4 w hw hfw
        · simp only [List.mem_singleton] at hw; subst hw; exact absurd hfw hf
      · refine Or.inr ⟨b, c1, c2, List.mem_append_left _ c3, c4, c5, ?_⟩
        intro w hw hfw hmw
        rcases List.mem_append.mp hw with hw | hw
        · exact c6 w hw hfw hmw
        · simp only [List.mem_singleton] at hw; subst hw; exact absurd hfw hf


theorem search1_QA (V : M3 K) (pn : V3 K) (n : ℤ) :
    QA V pn (m2 V ⟨n, n, n⟩) (genVectors n) (search1 V pn n) := by
  unfold search1
  refine foldl_inv_prefix (step1 V pn) (QA V pn (m2 V ⟨n, n, n⟩)) (genVectors n) (init1 V n) ?_ ?_
  · exact ⟨le_refl _, by simp, Or.inl ⟨rfl, rfl⟩⟩
  · intro pre b a h; exact step1_QA V pn _ pre b a h

theorem search1_QC (V : M3 K) (pn : V3 K) (n : ℤ) (hpos : ∀ w ∈ genVectors n, 0 < m2 V w) :
    QC V pn (genVectors n) (search1 V pn n) := by
  unfold search1
  refine foldl_inv_prefix (step1 V pn) (fun pre st => (∀ w ∈ pre, 0 < m2 V w) → QC V pn pre st)
    (genVectors n) (init1 V n) ?_ ?_ hpos
  · intro _; exact Or.inl ⟨rfl, by simp⟩
  · intro pre b a h; exact step1_QC V pn pre b a h

theorem search2_QB (V : M3 K) (pn aC : V3 K) (n : ℤ) :
    QB V pn aC (m2 V ⟨n, n, n⟩) (genVectors n) (search2 V pn aC n) := by
  unfold search2
  refine foldl_inv_prefix (step2 V pn aC) (QB V pn aC (m2 V ⟨n, n, n⟩)) (genVectors n) (init2 V n) ?_ ?_
  · exact ⟨le_refl _, by simp, Or.inl ⟨rfl, rfl, rfl, by simp⟩⟩
  · intro pre b a h; exact step2_QB V pn aC _ pre b a h

/-! ### lattice vectors of a non-singular cell have positive length -/

theorem toK_eq_zero (v : IV) (h : toK (K := K) v = ⟨0, 0, 0⟩) : v = ⟨0, 0, 0⟩ := by
  obtain ⟨x, y, z⟩ := v
  simp only [toK, V3.mk.injEq, Int.cast_eq_zero] at h
  obtain ⟨rfl, rfl, rfl⟩ := h
  rfl

theorem cart_cramer (V : M3 K) (p : V3 K) :
    V3.dot (M3.vecMul p V) (V3.cross V.r1 V.r2) = p.x * M3.det V ∧
    V3.dot (M3.vecMul p V) (V3.cross V.r2 V.r0) = p.y * M3.det V ∧
    V3.dot (M3.vecMul p V) (V3.cross V.r0 V.r1) = p.z * M3.det V := by
  simp only [M3.vecMul, M3.det, V3.dot, V3.cross]
  refine ⟨by ring, by ring, by ring⟩

theorem cart_ne_zero (V : M3 K) (hdet : M3.det V ≠ 0) (v : IV) (hv : v ≠ ⟨0, 0, 0⟩) :
    cart V v ≠ ⟨0, 0, 0⟩ := by
  intro h
  apply hv
  apply toK_eq_zero (K := K)
  obtain ⟨c1, c2, c3⟩ := cart_cramer V (toK v)
  have hz : ∀ w : V3 K, V3.dot (M3.vecMul (toK v) V) w = 0 := by
    intro w
    have : M3.vecMul (toK v) V = ⟨0, 0, 0⟩ := h
    rw [this]; simp only [V3.dot]; ring
  rw [hz] at c1 c2 c3
  have e1 : (toK (K := K) v).x = 0 := (mul_eq_zero.mp c1.symm).resolve_right hdet
  have e2 : (toK (K := K) v).y = 0 := (mul_eq_zero.mp c2.symm).resolve_right hdet
  have e3 : (toK (K := K) v).z = 0 := (mul_eq_zero.mp c3.symm).resolve_right hdet
  ext <;> assumption

theorem normSq_pos (a : V3 K) (h : a ≠ ⟨0, 0, 0⟩) : 0 < V3.normSq a := by
  obtain ⟨x, y, z⟩ := a
  simp only [V3.normSq, V3.dot]
  by_contra hn
  have h1 : x * x + y * y + z * z = 0 := le_antisymm (not_lt.mp hn)
    (add_nonneg (add_nonneg (mul_self_nonneg x) (mul_self_nonneg y)) (mul_self_nonneg z))
  have hx : x = 0 := by nlinarith [mul_self_nonneg x, mul_self_nonneg y, mul_self_nonneg z]
  have hy : y = 0 := by nlinarith [mul_self_nonneg x, mul_self_nonneg y, mul_self_nonneg z]
  have hz : z = 0 := by nlinarith [mul_self_nonneg x, mul_self_nonneg y, mul_self_nonneg z]
  exact h (by rw [hx, hy, hz])

theorem m2_pos (V : M3 K) (hdet : M3.det V ≠ 0) (v : IV) (hv : v ≠ ⟨0, 0, 0⟩) : 0 < m2 V v :=
  normSq_pos _ (cart_ne_zero V hdet v hv)

theorem m2_pos_gen (V : M3 K) (hdet : M3.det V ≠ 0) (n : ℤ) : ∀ w ∈ genVectors n, 0 < m2 V w :=
  fun w hw => m2_pos V hdet w ((mem_genVectors n w).mp hw).2.2.2

end ordered

/-! ### anatomy of a successful run, gcd reduction -/
section fsb
variable {K : Type} [CommRing K] [LinearOrder K] [IsStrictOrderedRing K]

/-- the default / explicit `maxindex`. -/
def maxIndexOf (ini : Init) (hkl : IV) (L : M3 Int) (nOpt : Option Int) : Int :=
  match nOpt with
  | some n => n
  | none => defaultMaxIndex (M3.vecMul ini.a0 L) (M3.vecMul ini.b0 L) hkl

/-- anatomy of a successful run. -/
theorem basisABC_ok (V : M3 K) (hkl : IV) (L : M3 Int) (nOpt : Option Int) (r : ABC K)
    (h : basisABC V hkl L nOpt = .ok r) :
    ∃ ini cb, initVectors hkl = some ini ∧ r.n = maxIndexOf ini hkl L nOpt ∧
      r.pn = planeNormal V ini.s (M3.vecMul ini.a0 L) (M3.vecMul ini.b0 L) ∧
      (search1 V r.pn r.n).a = some r.a ∧ (search1 V r.pn r.n).c = some cb ∧ r.c = reduceGcd cb.v ∧
      (search2 V r.pn (cart V r.a) r.n).b = some r.b := by
  unfold basisABC at h
  split at h
  · cases h
  · rename_i ini hini
    simp only at h
    split at h
    · rename_i a cb ha hc
      split at h
      · rename_i b hb
        simp only [Except.ok.injEq] at h
        subst h
        refine ⟨ini, cb, hini, ?_, rfl, ha, hc, rfl, hb⟩
        unfold maxIndexOf
        rfl
      · cases h
    · cases h


/-! ### gcd reduction of the out-of-plane vector -/

theorem gcd3_pos (v : IV) (hv : v ≠ ⟨0, 0, 0⟩) : 0 < gcd3 v := by
  obtain ⟨x, y, z⟩ := v
  simp only [gcd3]
  have : Int.gcd ((Int.gcd x y : ℕ) : ℤ) z ≠ 0 := by
    intro h
    rw [Int.gcd_eq_zero_iff] at h
    obtain ⟨h1, rfl⟩ := h
    have h1' : Int.gcd x y = 0 := by exact_mod_cast h1
    rw [Int.gcd_eq_zero_iff] at h1'
    obtain ⟨rfl, rfl⟩ := h1'
    exact hv rfl
  omega

theorem gcd3_dvd (v : IV) : gcd3 v ∣ v.x ∧ gcd3 v ∣ v.y ∧ gcd3 v ∣ v.z := by
  obtain ⟨x, y, z⟩ := v
  simp only [gcd3]
  have h1 : ((Int.gcd ((Int.gcd x y : ℕ) : ℤ) z : ℕ) : ℤ) ∣ ((Int.gcd x y : ℕ) : ℤ) := Int.gcd_dvd_left _ _
  exact ⟨dvd_trans h1 (Int.gcd_dvd_left _ _), dvd_trans h1 (Int.gcd_dvd_right _ _), Int.gcd_dvd_right _ _⟩

/-- the division by the gcd is exact: `gcd · (v / gcd) = v`. -/
theorem reduceGcd_smul (v : IV) : V3.smul (gcd3 v) (reduceGcd v) = v := by
  obtain ⟨d1, d2, d3⟩ := gcd3_dvd v
  simp only [reduceGcd, V3.smul]
  ext
  · exact Int.mul_ediv_cancel' d1
  · exact Int.mul_ediv_cancel' d2
  · exact Int.mul_ediv_cancel' d3

theorem gcd3_smul (g : ℤ) (hg : 0 ≤ g) (c : IV) : gcd3 (V3.smul g c) = g * gcd3 c := by
  obtain ⟨x, y, z⟩ := c
  simp only [gcd3, V3.smul]
  rw [Int.gcd_mul_left]
  push_cast
  rw [abs_of_nonneg hg, Int.gcd_mul_left]
  push_cast
  rw [abs_of_nonneg hg]

/-- the reduced vector is primitive. -/
theorem reduceGcd_coprime (v : IV) (hv : v ≠ ⟨0, 0, 0⟩) : gcd3 (reduceGcd v) = 1 := by
  have hg := gcd3_pos v hv
  have h := gcd3_smul (gcd3 v) hg.le (reduceGcd v)
  rw [reduceGcd_smul] at h
  have : gcd3 v * 1 = gcd3 v * gcd3 (reduceGcd v) := by rw [mul_one]; exact h
  exact (Int.eq_of_mul_eq_mul_left hg.ne' this).symm

theorem cart_smul (V : M3 K) (g : ℤ) (c : IV) : cart V (V3.smul g c) = V3.smul (g : K) (cart V c) := by
  simp only [cart, toK, V3.smul, M3.vecMul, V3.mk.injEq]
  push_cast
  refine ⟨by ring, by ring, by ring⟩

theorem dn_smul (V : M3 K) (pn : V3 K) (g : ℤ) (c : IV) : dn V pn (V3.smul g c) = (g : K) * dn V pn c := by
  rw [dn, cart_smul]; simp only [dn, V3.smul, V3.dot]; ring

end fsb

end Atomman.C14
