/-
  C06 — helper lemmas, part 1: list plumbing of the mini-numpy (`writeRows`, `rowsOf`, `bcast`,
  `castCell`, `listMin`), the state monad `M` (post-condition calculus) and the definitions of the
  history invariant (`InvK`), the monotone relation between states (`Le`) and their basic facts.
-/
import Atomman.C06

namespace Atomman.C06
set_option linter.unusedSimpArgs false
set_option linter.unusedVariables false

/-! ### lists -/

theorem mapM_option {α β : Type} (f : α → Option β) : ∀ (l : List α) (l' : List β), l.mapM f = some l' →
    l'.length = l.length ∧ ∀ c' ∈ l', ∃ c ∈ l, f c = some c' := by
  intro l
  induction l with
  | nil => intro l' h; simp at h; subst h; simp
  | cons x t ih =>
    intro l' h
    simp only [List.mapM_cons] at h
    cases hx : f x with
    | none => simp [hx] at h
    | some y =>
      cases ht : t.mapM f with
      | none => simp [hx, ht] at h
      | some t' =>
        simp [hx, ht] at h
        subst h
        obtain ⟨h1, h2⟩ := ih t' ht
        refine ⟨by simp [h1], ?_⟩
        intro c' hc'
        simp at hc'
        rcases hc' with rfl | hc'
        · exact ⟨x, by simp, hx⟩
        · obtain ⟨c, hc, hfc⟩ := h2 c' hc'
          exact ⟨c, by simp [hc], hfc⟩

theorem mapM_option_fwd {α β : Type} (f : α → Option β) : ∀ (l : List α) (l' : List β), l.mapM f = some l' →
    ∀ c ∈ l, ∃ c' ∈ l', f c = some c' := by
  intro l
  induction l with
  | nil => intro l' _ c hc; simp at hc
  | cons x t ih =>
    intro l' h c hc
    simp only [List.mapM_cons] at h
    cases hx : f x with
    | none => simp [hx] at h
    | some y =>
      cases ht : t.mapM f with
      | none => simp [hx, ht] at h
      | some t' =>
        simp [hx, ht] at h
        subst h
        simp at hc
        rcases hc with rfl | hc
        · exact ⟨y, by simp, hx⟩
        · obtain ⟨q, hq, hcq⟩ := ih t' ht c hc
          exact ⟨q, by simp [hq], hcq⟩

theorem nodup_reverse' {α : Type} {l : List α} (h : l.Nodup) : l.reverse.Nodup := by
  unfold List.Nodup at *
  rw [List.pairwise_reverse]
  exact h.imp (fun hab => Ne.symm hab)

theorem nodup_getElem_inj {α : Type} {l : List α} (h : l.Nodup) (i j : Nat) (hi : i < l.length) (hj : j < l.length)
    (he : l[i] = l[j]) : i = j := by
  unfold List.Nodup at h
  rw [List.pairwise_iff_getElem] at h
  rcases Nat.lt_trichotomy i j with hlt | heq | hgt
  · exact absurd he (h i j hi hj hlt)
  · exact heq
  · exact absurd he.symm (h j i hj hi hgt)

theorem nodup_map_on {α β : Type} {l : List α} (f : α → β) (h : l.Nodup)
    (hinj : ∀ x ∈ l, ∀ y ∈ l, f x = f y → x = y) : (l.map f).Nodup := by
  unfold List.Nodup at *
  rw [List.pairwise_map, List.pairwise_iff_getElem]
  rw [List.pairwise_iff_getElem] at h
  intro i j hi hj hlt hfe
  exact h i j hi hj hlt (hinj _ (List.getElem_mem hi) _ (List.getElem_mem hj) hfe)

theorem writeRows_length (rows : List Row) (upd : List (Nat × Row)) :
    (writeRows rows upd).length = rows.length := by
  induction upd generalizing rows with
  | nil => rfl
  | cons u t ih => obtain ⟨a, b⟩ := u; simp [writeRows, ih]

theorem writeRows_mem (rows : List Row) (upd : List (Nat × Row)) (r : Row) (h : r ∈ writeRows rows upd) :
    r ∈ rows ∨ ∃ u ∈ upd, r = u.2 := by
  induction upd generalizing rows with
  | nil => left; exact h
  | cons u t ih =>
    obtain ⟨a, b⟩ := u
    simp only [writeRows] at h
    rcases ih _ h with h1 | ⟨u, hu, rfl⟩
    · rcases List.mem_or_eq_of_mem_set h1 with h2 | h2
      · left; exact h2
      · right; exact ⟨(a, b), by simp, h2⟩
    · right; exact ⟨u, by simp [hu], rfl⟩

/-- a row of the buffer after a write is the old row or one of the written rows. -/
theorem writeRows_get (rows : List Row) (upd : List (Nat × Row)) (i : Nat) :
    (writeRows rows upd)[i]? = rows[i]? ∨ ∃ u ∈ upd, u.1 = i ∧ (writeRows rows upd)[i]? = some u.2 := by
  induction upd generalizing rows with
  | nil => left; rfl
  | cons u t ih =>
    obtain ⟨a, b⟩ := u
    simp only [writeRows]
    rcases ih (rows.set a b) with h1 | ⟨u, hu, h0, h2⟩
    · by_cases hai : a = i
      · subst hai
        by_cases hlt : a < rows.length
        · right; refine ⟨(a, b), by simp, rfl, ?_⟩; rw [h1]; simp [hlt]
        · left; rw [h1]; simp [List.getElem?_set, hlt]
      · left; rw [h1]; simp [List.getElem?_set, hai]
    · right; exact ⟨u, by simp [hu], h0, h2⟩

/-- rows that are not targeted keep their content. -/
theorem writeRows_get_notin (rows : List Row) (upd : List (Nat × Row)) (i : Nat) (h : ∀ u ∈ upd, u.1 ≠ i) :
    (writeRows rows upd)[i]? = rows[i]? := by
  induction upd generalizing rows with
  | nil => rfl
  | cons u t ih =>
    obtain ⟨a, b⟩ := u
    simp only [writeRows]
    rw [ih _ (fun u hu => h u (by simp [hu]))]
    have : a ≠ i := h (a, b) (by simp)
    simp [List.getElem?_set, this]

theorem rowsOf_length (k w : Nat) (flat : List Cell) : (rowsOf k w flat).length = k := by
  simp [rowsOf]

theorem rowsOf_width (k w : Nat) (flat : List Cell) (r : Row) (h : r ∈ rowsOf k w flat) : r.length = w := by
  simp only [rowsOf, List.mem_map, List.mem_range] at h
  obtain ⟨j, _, rfl⟩ := h
  simp

theorem rowsOf_mem (k w : Nat) (flat : List Cell) (hlen : flat.length = k * w) (r : Row)
    (h : r ∈ rowsOf k w flat) : ∀ c ∈ r, c ∈ flat := by
  simp only [rowsOf, List.mem_map, List.mem_range] at h
  obtain ⟨j, hj, rfl⟩ := h
  intro c hc
  simp only [List.mem_map, List.mem_range] at hc
  obtain ⟨i, hi, rfl⟩ := hc
  have hlt : j * w + i < flat.length := by
    rw [hlen]
    calc j * w + i < j * w + w := by omega
      _ = (j + 1) * w := by rw [Nat.add_mul]; simp
      _ ≤ k * w := Nat.mul_le_mul_right w hj
  rw [List.getD_eq_getElem?_getD, List.getElem?_eq_getElem hlt]
  simp

theorem bcast_length (v : Val) (tshape : List Nat) (flat : List Cell) (h : bcast v tshape = some flat) :
    flat.length = prod tshape := by
  unfold bcast at h
  simp only [] at h
  split at h
  · split at h
    · injection h with h; subst h; simp
    · cases h
  · cases h

theorem bcast_mem (v : Val) (tshape : List Nat) (flat : List Cell) (h : bcast v tshape = some flat) :
    ∀ c ∈ flat, c ∈ v.data := by
  unfold bcast at h
  simp only [] at h
  split at h
  · split at h
    · rename_i hall
      injection h with h; subst h
      intro c hc
      obtain ⟨i, hi, rfl⟩ := List.mem_map.mp hc
      have hlt : i < v.data.length := by
        have := List.all_eq_true.mp hall i hi
        simpa using this
      rw [List.getD_eq_getElem?_getD, List.getElem?_eq_getElem hlt]
      simp
    · cases h
  · cases h

/-! ### cells -/

/-- a numeric cell whose value is at least 1 (what `np.min(atype) < 1` refuses). -/
def CellGE1 (c : Cell) : Prop := ∃ q, c.num? = some q ∧ 1 ≤ q

theorem castCell_typed (dt : DType) (c c' : Cell) (h : castCell dt c = some c') : c'.hasType dt = true := by
  cases dt <;> cases c <;> simp [castCell] at h <;> subst h <;> simp [Cell.hasType]
  exact Nat.min_le_left _ _

theorem truncRat_ge1 (r : Rat) (h : 1 ≤ r) : (1 : Rat) ≤ ((truncRat r : Int) : Rat) := by
  unfold truncRat
  have h0 : (0 : Rat) ≤ r := Rat.le_trans (by decide) h
  simp only [h0, if_true]
  have h1 : (1 : Int) ≤ r.floor := Rat.le_floor_iff.mpr (by simpa using h)
  exact_mod_cast h1

theorem castCell_ge1 (dt : DType) (c c' : Cell) (h : castCell dt c = some c') (hc : CellGE1 c) : CellGE1 c' := by
  obtain ⟨q, hq, h1⟩ := hc
  cases dt <;> cases c <;> simp only [castCell, Option.some.injEq, reduceCtorEq] at h <;> subst h <;>
    simp only [Cell.num?, Option.some.injEq, reduceCtorEq] at hq
  · exact ⟨q, by simp [Cell.num?, hq], h1⟩
  · subst hq; exact ⟨_, rfl, truncRat_ge1 _ h1⟩
  · rename_i b
    cases b
    · simp at hq; subst hq; exact absurd h1 (by decide)
    · exact ⟨1, by simp [Cell.num?], by decide⟩
  · exact ⟨q, by simp [Cell.num?, hq], h1⟩
  · exact ⟨q, by simp [Cell.num?, hq], h1⟩
  · exact ⟨q, by simp [Cell.num?, hq], h1⟩
  · rename_i i
    refine ⟨1, ?_, by decide⟩
    have : i ≠ 0 := by
      intro h0; subst h0; subst hq; exact absurd h1 (by decide)
    simp [Cell.num?, this]
  · rename_i r
    refine ⟨1, ?_, by decide⟩
    have : r ≠ 0 := by
      intro h0; subst h0; subst hq; exact absurd h1 (by decide)
    simp [Cell.num?, this]
  · exact ⟨q, by simp [Cell.num?, hq], h1⟩

theorem foldl_min_le (xs : List Rat) (x : Rat) :
    (∀ y ∈ x :: xs, xs.foldl (fun m y => if y < m then y else m) x ≤ y) := by
  induction xs generalizing x with
  | nil => intro y hy; simp at hy; subst hy; simp [Rat.le_refl]
  | cons z t ih =>
    intro y hy
    simp only [List.foldl_cons]
    by_cases hz : z < x
    · simp only [hz, if_true]
      have := ih z
      simp only [List.mem_cons] at hy
      rcases hy with rfl | rfl | hy
      · exact Rat.le_trans (this z (by simp)) (Rat.le_of_lt hz)
      · exact this y (by simp)
      · exact this y (by simp [hy])
    · simp only [hz, if_false]
      have := ih x
      simp only [List.mem_cons] at hy
      rcases hy with rfl | rfl | hy
      · exact this y (by simp)
      · exact Rat.le_trans (this x (by simp)) (Rat.not_lt.mp hz)
      · exact this y (by simp [hy])

theorem listMin_le (l : List Rat) (m : Rat) (h : listMin l = some m) : ∀ y ∈ l, m ≤ y := by
  cases l with
  | nil => simp [listMin] at h
  | cons x xs =>
    simp only [listMin, Option.some.injEq] at h
    subst h
    exact foldl_min_le xs x

/-- the `np.min(value) < 1` test passed: every cell is numeric and at least 1. -/
theorem cells_ge1_of_min (cells : List Cell) (nums : List Rat) (m : Rat) (h1 : cells.mapM Cell.num? = some nums)
    (h2 : listMin nums = some m) (h3 : ¬ m < 1) : ∀ c ∈ cells, CellGE1 c := by
  intro c hc
  have hall := listMin_le nums m h2
  -- every cell has a numeric value which is a member of nums
  have : ∀ (cs : List Cell) (ns : List Rat), cs.mapM Cell.num? = some ns → ∀ c ∈ cs, ∃ q ∈ ns, c.num? = some q := by
    intro cs
    induction cs with
    | nil => intro ns _ c hc; simp at hc
    | cons x t ih =>
      intro ns h c hc
      simp only [List.mapM_cons] at h
      cases hx : x.num? with
      | none => simp [hx] at h
      | some y =>
        cases ht : t.mapM Cell.num? with
        | none => simp [hx, ht] at h
        | some t' =>
          simp [hx, ht] at h
          subst h
          simp at hc
          rcases hc with rfl | hc
          · exact ⟨y, by simp, hx⟩
          · obtain ⟨q, hq, hcq⟩ := ih t' ht c hc
            exact ⟨q, by simp [hq], hcq⟩
  obtain ⟨q, hq, hcq⟩ := this cells nums h1 c hc
  exact ⟨q, hcq, Rat.le_trans (Rat.not_lt.mp h3) (hall q hq)⟩

end Atomman.C06
