/-
  C03 — helper lemmas (D): bins (`digitize` over `lo + k c`), the half-stencil sweep compares every pair of
  entries in equal or adjacent bins, superbox / inside-cell bounds, ghosts, completeness of the compared pairs.
-/
import Proofs.C03_Lemmas
import Mathlib.Tactic.Ring
import Mathlib.Tactic.Linarith
import Mathlib.Algebra.Order.Field.Rat
import Mathlib.Data.Rat.Cast.Order
import Mathlib.Algebra.Order.Ring.Abs

set_option linter.unusedSimpArgs false
set_option linter.unusedVariables false

namespace Atomman.C03
open List

/-! ### bins -/

theorem antitone_closed (p : Nat → Bool) (hp : ∀ k, p (k + 1) = true → p k = true) (k m : Nat) (h : k ≤ m)
    (hm : p m = true) : p k = true := by
  induction m with
  | zero => have : k = 0 := by omega
            subst this; exact hm
  | succ m ih =>
    rcases Nat.lt_or_ge k (m + 1) with h1 | h1
    · exact ih (by omega) (hp m hm)
    · have : k = m + 1 := by omega
      subst this; exact hm

theorem countP_range_antitone (p : Nat → Bool) (hp : ∀ k, p (k + 1) = true → p k = true) (n : Nat) :
    (List.range n).countP p ≤ n ∧ ∀ k, k < n → (p k = true ↔ k < (List.range n).countP p) := by
  induction n with
  | zero => simp
  | succ n ih =>
    obtain ⟨h1, h2⟩ := ih
    rw [List.range_succ, List.countP_append]
    by_cases hn : p n = true
    · have hall : ∀ k, k < n → p k = true := fun k hk => antitone_closed p hp k n (by omega) hn
      have hc : (List.range n).countP p = n := by
        rcases Nat.lt_or_ge ((List.range n).countP p) n with hlt | hge
        · have := (h2 _ hlt).1 (hall _ hlt); omega
        · omega
      simp only [List.countP_cons, List.countP_nil, hn, if_true, hc]
      refine ⟨by omega, fun k hk => ?_⟩
      constructor
      · intro _; omega
      · intro _
        rcases Nat.lt_or_ge k n with h | h
        · exact hall k h
        · have : k = n := by omega
          subst this; exact hn
    · have hn' : p n = false := by simpa using hn
      simp only [List.countP_cons, List.countP_nil, hn', Bool.false_eq_true, if_false, Nat.add_zero]
      refine ⟨by omega, fun k hk => ?_⟩
      rcases Nat.lt_or_ge k n with h | h
      · simpa using h2 k h
      · have : k = n := by omega
        subst this
        constructor
        · intro h; exact absurd h hn
        · intro h; omega

/-- `digitize` over the edges `lo + k c` as a count over `k`. -/
theorem digitize_edges (lo c : ℚ) (n : Nat) (x : ℚ) :
    digitize x (edges lo c n) = (List.range n).countP (fun (k : Nat) => decide (lo + (k : ℚ) * c ≤ x)) := by
  unfold digitize edges
  rw [List.countP_map]
  rfl

theorem edge_antitone (lo c x : ℚ) (hc : 0 < c) (k : Nat) :
    decide (lo + ((k + 1 : Nat) : ℚ) * c ≤ x) = true → decide (lo + (k : ℚ) * c ≤ x) = true := by
  simp only [decide_eq_true_eq]
  intro h
  push_cast at h
  nlinarith

theorem digitize_le (lo c : ℚ) (n : Nat) (x : ℚ) : digitize x (edges lo c n) ≤ n := by
  rw [digitize_edges]
  have := List.countP_le_length (p := fun (k : Nat) => decide (lo + (k : ℚ) * c ≤ x)) (l := List.range n)
  simpa using this

theorem digitize_mono (lo c : ℚ) (n : Nat) (x y : ℚ) (h : x ≤ y) :
    digitize x (edges lo c n) ≤ digitize y (edges lo c n) := by
  rw [digitize_edges, digitize_edges]
  apply List.countP_mono_left
  intro k _
  simp only [decide_eq_true_eq]
  intro h1; linarith

theorem digitize_step (lo c : ℚ) (n : Nat) (hc : 0 < c) (x y : ℚ) (h : y < x + c) :
    digitize y (edges lo c n) ≤ digitize x (edges lo c n) + 1 := by
  rw [digitize_edges, digitize_edges]
  by_contra hcon
  rw [not_le] at hcon
  obtain ⟨hx1, hx2⟩ := countP_range_antitone (fun (k : Nat) => decide (lo + (k : ℚ) * c ≤ x)) (edge_antitone lo c x hc) n
  obtain ⟨hy1, hy2⟩ := countP_range_antitone (fun (k : Nat) => decide (lo + (k : ℚ) * c ≤ y)) (edge_antitone lo c y hc) n
  set m := (List.range n).countP (fun (k : Nat) => decide (lo + (k : ℚ) * c ≤ x)) with hm
  have h1 : ¬ (decide (lo + ((m : Nat) : ℚ) * c ≤ x) = true) := by
    intro hh
    have := (hx2 m (by omega)).1 hh
    omega
  have h2 : decide (lo + ((m + 1 : Nat) : ℚ) * c ≤ y) = true := (hy2 (m + 1) (by omega)).2 (by omega)
  simp only [decide_eq_true_eq, not_le] at h1 h2
  push_cast at h2
  nlinarith

/-- coordinates closer than the bin size fall into the same or neighbouring bins. -/
theorem binIdx_adjacent (lo c : ℚ) (n : Nat) (hc : 0 < c) (x y : ℚ) (h : |y - x| < c) :
    |binIdx lo c n y - binIdx lo c n x| ≤ 1 := by
  rw [abs_lt] at h
  unfold binIdx
  rw [abs_le]
  rcases le_total x y with hxy | hxy
  · have h1 := digitize_mono lo c n x y hxy
    have h2 := digitize_step lo c n hc x y (by linarith)
    constructor <;> omega
  · have h1 := digitize_mono lo c n y x hxy
    have h2 := digitize_step lo c n hc y x (by linarith)
    constructor <;> omega

theorem binIdx_lt (lo c : ℚ) (n : Nat) (x : ℚ) : binIdx lo c n x < (n : Int) := by
  unfold binIdx
  have := digitize_le lo c n x
  omega

theorem binIdx_nonneg (lo c : ℚ) (n : Nat) (hn : 1 ≤ n) (x : ℚ) (hx : lo ≤ x) : 0 ≤ binIdx lo c n x := by
  unfold binIdx
  rw [digitize_edges]
  have : 0 < (List.range n).countP (fun (k : Nat) => decide (lo + (k : ℚ) * c ≤ x)) := by
    rw [List.countP_pos_iff]
    exact ⟨0, by simp; omega, by simp [hx]⟩
  omega

/-! ### the sweep compares every pair of entries in equal or adjacent bins -/

theorem mem_members {es : List (Nat × Idx)} {a : Nat} {b : Idx} : a ∈ members es b ↔ (a, b) ∈ es := by
  unfold members
  simp only [mem_map, mem_filter, beq_iff_eq]
  constructor
  · rintro ⟨⟨a', b'⟩, ⟨h1, h2⟩, rfl⟩
    simp only at h2; subst h2; exact h1
  · intro h; exact ⟨(a, b), ⟨h, rfl⟩, rfl⟩

theorem mem_occupied {es : List (Nat × Idx)} {a : Nat} {b : Idx} (h : (a, b) ∈ es) : b ∈ occupied es := by
  unfold occupied
  rw [List.mem_eraseDups]
  exact mem_map.2 ⟨(a, b), h, rfl⟩

theorem pairsOf_mem_rest {s rest : List Nat} {a x : Nat} (ha : a ∈ s) (hx : x ∈ rest) :
    (a, x) ∈ pairsOf s rest := by
  induction s with
  | nil => simp at ha
  | cons b s ih =>
    unfold pairsOf
    rw [mem_append]
    rcases mem_cons.1 ha with rfl | ha
    · left; exact mem_map.2 ⟨x, mem_append_right _ hx, rfl⟩
    · right; exact ih ha

theorem pairsOf_mem_short {s rest : List Nat} {a b : Nat} (ha : a ∈ s) (hb : b ∈ s) (hab : a ≠ b) :
    (a, b) ∈ pairsOf s rest ∨ (b, a) ∈ pairsOf s rest := by
  induction s with
  | nil => simp at ha
  | cons c s ih =>
    unfold pairsOf
    simp only [mem_append]
    rcases mem_cons.1 ha with e1 | ha'
    · rcases mem_cons.1 hb with e2 | hb'
      · exact absurd (e1.trans e2.symm) hab
      · left; left; rw [e1]; exact mem_map.2 ⟨b, mem_append_left _ hb', rfl⟩
    · rcases mem_cons.1 hb with e2 | hb'
      · right; left; rw [e2]; exact mem_map.2 ⟨a, mem_append_left _ ha', rfl⟩
      · rcases ih ha' hb' with h | h
        · left; right; exact h
        · right; right; exact h

theorem pairsOf_subset {s rest : List Nat} {uv : Nat × Nat} (h : uv ∈ pairsOf s rest) :
    uv.1 ∈ s ∧ (uv.2 ∈ s ∨ uv.2 ∈ rest) := by
  induction s with
  | nil => simp [pairsOf] at h
  | cons c s ih =>
    unfold pairsOf at h
    rcases mem_append.1 h with h | h
    · obtain ⟨x, hx, rfl⟩ := mem_map.1 h
      refine ⟨mem_cons_self, ?_⟩
      rcases mem_append.1 hx with hx | hx
      · left; exact mem_cons_of_mem _ hx
      · right; exact hx
    · obtain ⟨h1, h2⟩ := ih h
      refine ⟨mem_cons_of_mem _ h1, ?_⟩
      rcases h2 with h2 | h2
      · left; exact mem_cons_of_mem _ h2
      · right; exact h2

def negIdx (d : Idx) : Idx := (-d.1, -d.2.1, -d.2.2)

theorem halfStencil_eq : halfStencil =
    [(-1, -1, -1), (0, -1, -1), (1, -1, -1), (-1, 0, -1), (0, 0, -1), (1, 0, -1), (-1, 1, -1), (0, 1, -1),
     (1, 1, -1), (-1, -1, 0), (0, -1, 0), (1, -1, 0), (-1, 0, 0)] := by decide

theorem halfStencil_cover : ∀ d ∈ stencilAll, d ≠ (0, 0, 0) → d ∈ halfStencil ∨ negIdx d ∈ halfStencil := by
  decide

theorem mem_stencilAll {d : Idx} (h1 : |d.1| ≤ 1) (h2 : |d.2.1| ≤ 1) (h3 : |d.2.2| ≤ 1) : d ∈ stencilAll := by
  obtain ⟨a, b, c⟩ := d
  simp only [abs_le] at h1 h2 h3
  simp only [stencilAll, mem_flatMap, mem_map, mem_cons, not_mem_nil, or_false, Prod.mk.injEq]
  refine ⟨c, by omega, b, by omega, a, by omega, rfl, rfl, rfl⟩

theorem mem_stencilMembers {G : Grid} {es : List (Nat × Idx)} {b d : Idx} {x : Nat} (hd : d ∈ halfStencil)
    (hs : skipBin G (addIdx b d) = false) (hx : (x, addIdx b d) ∈ es) : x ∈ stencilMembers G es b := by
  unfold stencilMembers
  rw [mem_flatMap]
  refine ⟨d, hd, ?_⟩
  rw [hs]
  simp only [Bool.false_eq_true, if_false]
  exact mem_members.2 hx

theorem mem_candsOf {G : Grid} {es : List (Nat × Idx)} {uv : Nat × Nat} :
    uv ∈ candsOf G es ↔ ∃ b ∈ occupied es, uv ∈ binPairs G es b := by
  unfold candsOf; rw [mem_flatMap]

/-- two entries in equal or adjacent (existing) bins are compared, in one order or the other. -/
theorem cands_cover (G : Grid) (es : List (Nat × Idx)) (i j : Nat) (bi bj : Idx) (hi : (i, bi) ∈ es)
    (hj : (j, bj) ∈ es) (hij : i ≠ j) (h1 : |bj.1 - bi.1| ≤ 1) (h2 : |bj.2.1 - bi.2.1| ≤ 1)
    (h3 : |bj.2.2 - bi.2.2| ≤ 1) (hsi : skipBin G bi = false) (hsj : skipBin G bj = false) :
    (i, j) ∈ candsOf G es ∨ (j, i) ∈ candsOf G es := by
  set d : Idx := (bj.1 - bi.1, bj.2.1 - bi.2.1, bj.2.2 - bi.2.2) with hd
  have hbj : addIdx bi d = bj := by
    obtain ⟨a, b, c⟩ := bj
    simp only [addIdx, hd, Prod.mk.injEq]
    refine ⟨by omega, by omega, by omega⟩
  have hbi : addIdx bj (negIdx d) = bi := by
    obtain ⟨a, b, c⟩ := bi
    simp only [addIdx, negIdx, hd, Prod.mk.injEq]
    refine ⟨by omega, by omega, by omega⟩
  by_cases h0 : d = (0, 0, 0)
  · have : bj = bi := by
      rw [← hbj, h0]; obtain ⟨a, b, c⟩ := bi; simp [addIdx]
    subst this
    rcases pairsOf_mem_short (rest := stencilMembers G es bj) (mem_members.2 hi) (mem_members.2 hj) hij with h | h
    · left; exact mem_candsOf.2 ⟨bj, mem_occupied hi, h⟩
    · right; exact mem_candsOf.2 ⟨bj, mem_occupied hi, h⟩
  · rcases halfStencil_cover d (mem_stencilAll h1 h2 h3) h0 with hh | hh
    · left
      refine mem_candsOf.2 ⟨bi, mem_occupied hi, ?_⟩
      exact pairsOf_mem_rest (mem_members.2 hi) (mem_stencilMembers hh (by rw [hbj]; exact hsj) (by rw [hbj]; exact hj))
    · right
      refine mem_candsOf.2 ⟨bj, mem_occupied hj, ?_⟩
      exact pairsOf_mem_rest (mem_members.2 hj) (mem_stencilMembers hh (by rw [hbi]; exact hsi) (by rw [hbi]; exact hi))

/-- every compared index is an atom index of an entry. -/
theorem candsOf_subset {G : Grid} {es : List (Nat × Idx)} {uv : Nat × Nat} (h : uv ∈ candsOf G es) :
    (∃ b, (uv.1, b) ∈ es) ∧ (∃ b, (uv.2, b) ∈ es) := by
  obtain ⟨b, _, hb⟩ := mem_candsOf.1 h
  unfold binPairs at hb
  obtain ⟨h1, h2⟩ := pairsOf_subset hb
  refine ⟨⟨b, mem_members.1 h1⟩, ?_⟩
  rcases h2 with h2 | h2
  · exact ⟨b, mem_members.1 h2⟩
  · unfold stencilMembers at h2
    obtain ⟨d, _, hd⟩ := mem_flatMap.1 h2
    split at hd
    · simp at hd
    · exact ⟨_, mem_members.1 hd⟩

/-! ### superbox -/

theorem foldl_minStep_le {α : Type} (f : α → ℚ) (l : List α) (m0 : ℚ) :
    l.foldl (fun m c => minStep m (f c)) m0 ≤ m0 ∧ ∀ c ∈ l, l.foldl (fun m c => minStep m (f c)) m0 ≤ f c := by
  induction l generalizing m0 with
  | nil => simp
  | cons a l ih =>
    rw [foldl_cons]
    obtain ⟨h1, h2⟩ := ih (minStep m0 (f a))
    have hm : minStep m0 (f a) ≤ m0 ∧ minStep m0 (f a) ≤ f a := by
      unfold minStep; split <;> constructor <;> linarith
    refine ⟨le_trans h1 hm.1, fun c hc => ?_⟩
    rcases mem_cons.1 hc with rfl | hc
    · exact le_trans h1 hm.2
    · exact h2 c hc

theorem le_foldl_maxStep {α : Type} (f : α → ℚ) (l : List α) (m0 : ℚ) :
    m0 ≤ l.foldl (fun m c => maxStep m (f c)) m0 ∧ ∀ c ∈ l, f c ≤ l.foldl (fun m c => maxStep m (f c)) m0 := by
  induction l generalizing m0 with
  | nil => simp
  | cons a l ih =>
    rw [foldl_cons]
    obtain ⟨h1, h2⟩ := ih (maxStep m0 (f a))
    have hm : m0 ≤ maxStep m0 (f a) ∧ f a ≤ maxStep m0 (f a) := by
      unfold maxStep; split <;> constructor <;> linarith
    refine ⟨le_trans hm.1 h1, fun c hc => ?_⟩
    rcases mem_cons.1 hc with rfl | hc
    · exact le_trans hm.2 h1
    · exact h2 c hc

theorem cornerMin_le (S : Sys) (f : V3 ℚ → ℚ) (c : ℚ × ℚ × ℚ) (hc : c ∈ cornerCoeffs) :
    cornerMin S f ≤ f (cornerAt S c) :=
  (foldl_minStep_le f (corners S) (f S.origin)).2 _ (mem_map.2 ⟨c, hc, rfl⟩)

theorem le_cornerMax (S : Sys) (f : V3 ℚ → ℚ) (c : ℚ × ℚ × ℚ) (hc : c ∈ cornerCoeffs) :
    f (cornerAt S c) ≤ cornerMax S f :=
  (le_foldl_maxStep f (corners S) (f S.origin)).2 _ (mem_map.2 ⟨c, hc, rfl⟩)

theorem interp_ge (m t a s : ℚ) (h0 : m ≤ t) (h1 : m ≤ t + a) (hs0 : 0 ≤ s) (hs1 : s ≤ 1) : m ≤ t + s * a := by
  nlinarith [mul_nonneg hs0 (sub_nonneg.2 h1), mul_nonneg (sub_nonneg.2 hs1) (sub_nonneg.2 h0)]

theorem interp_le (m t a s : ℚ) (h0 : t ≤ m) (h1 : t + a ≤ m) (hs0 : 0 ≤ s) (hs1 : s ≤ 1) : t + s * a ≤ m := by
  nlinarith [mul_nonneg hs0 (sub_nonneg.2 h1), mul_nonneg (sub_nonneg.2 hs1) (sub_nonneg.2 h0)]

/-- trilinear interpolation stays above a lower bound of the 8 corner values. -/
theorem tri_ge (m o a b c s0 s1 s2 : ℚ) (h : ∀ x ∈ ([0, 1] : List ℚ), ∀ y ∈ ([0, 1] : List ℚ), ∀ z ∈ ([0, 1] : List ℚ),
    m ≤ o + x * a + y * b + z * c)
    (h00 : 0 ≤ s0) (h01 : s0 ≤ 1) (h10 : 0 ≤ s1) (h11 : s1 ≤ 1) (h20 : 0 ≤ s2) (h21 : s2 ≤ 1) :
    m ≤ o + s0 * a + s1 * b + s2 * c := by
  have hz : ∀ x ∈ ([0, 1] : List ℚ), ∀ y ∈ ([0, 1] : List ℚ), m ≤ o + x * a + y * b + s2 * c := by
    intro x hx y hy
    have e0 := h x hx y hy 0 (by simp)
    have e1 := h x hx y hy 1 (by simp)
    exact interp_ge m (o + x * a + y * b) c s2 (by linarith) (by linarith) h20 h21
  have hy : ∀ x ∈ ([0, 1] : List ℚ), m ≤ o + x * a + s1 * b + s2 * c := by
    intro x hx
    have e0 := hz x hx 0 (by simp)
    have e1 := hz x hx 1 (by simp)
    have := interp_ge m (o + x * a + s2 * c) b s1 (by linarith) (by linarith) h10 h11
    linarith
  have e0 := hy 0 (by simp)
  have e1 := hy 1 (by simp)
  have := interp_ge m (o + s1 * b + s2 * c) a s0 (by linarith) (by linarith) h00 h01
  linarith

theorem tri_le (m o a b c s0 s1 s2 : ℚ) (h : ∀ x ∈ ([0, 1] : List ℚ), ∀ y ∈ ([0, 1] : List ℚ), ∀ z ∈ ([0, 1] : List ℚ),
    o + x * a + y * b + z * c ≤ m)
    (h00 : 0 ≤ s0) (h01 : s0 ≤ 1) (h10 : 0 ≤ s1) (h11 : s1 ≤ 1) (h20 : 0 ≤ s2) (h21 : s2 ≤ 1) :
    o + s0 * a + s1 * b + s2 * c ≤ m := by
  have := tri_ge (-m) (-o) (-a) (-b) (-c) s0 s1 s2
    (fun x hx y hy z hz => by have := h x hx y hy z hz; linarith) h00 h01 h10 h11 h20 h21
  linarith

/-- "the atom lies inside the cell": relative coordinates in `[0, 1]`
    (`pos = relpos.dot(vects) + origin`, `Box.relToCart`). -/
def InsideCell (S : Sys) (p : V3 ℚ) : Prop :=
  ∃ s : V3 ℚ, 0 ≤ s.x ∧ s.x ≤ 1 ∧ 0 ≤ s.y ∧ s.y ≤ 1 ∧ 0 ≤ s.z ∧ s.z ≤ 1 ∧
    p = ⟨S.origin.x + s.x * S.vects.r0.x + s.y * S.vects.r1.x + s.z * S.vects.r2.x,
         S.origin.y + s.x * S.vects.r0.y + s.y * S.vects.r1.y + s.z * S.vects.r2.y,
         S.origin.z + s.x * S.vects.r0.z + s.y * S.vects.r1.z + s.z * S.vects.r2.z⟩

theorem mem_cornerCoeffs {x y z : ℚ} (hx : x ∈ ([0, 1] : List ℚ)) (hy : y ∈ ([0, 1] : List ℚ))
    (hz : z ∈ ([0, 1] : List ℚ)) : (x, y, z) ∈ cornerCoeffs := by
  simp only [mem_cons, not_mem_nil, or_false] at hx hy hz
  rcases hx with rfl | rfl <;> rcases hy with rfl | rfl <;> rcases hz with rfl | rfl <;> simp [cornerCoeffs]

/-- an atom inside the cell lies in the bounding box of the corners, on every axis. -/
theorem inside_bounds (S : Sys) (p : V3 ℚ) (h : InsideCell S p) :
    (cornerMin S (·.x) ≤ p.x ∧ p.x ≤ cornerMax S (·.x)) ∧ (cornerMin S (·.y) ≤ p.y ∧ p.y ≤ cornerMax S (·.y)) ∧
    (cornerMin S (·.z) ≤ p.z ∧ p.z ≤ cornerMax S (·.z)) := by
  obtain ⟨s, h00, h01, h10, h11, h20, h21, rfl⟩ := h
  refine ⟨⟨?_, ?_⟩, ⟨?_, ?_⟩, ⟨?_, ?_⟩⟩
  · exact tri_ge _ _ _ _ _ _ _ _ (fun x hx y hy z hz => cornerMin_le S (·.x) (x, y, z) (mem_cornerCoeffs hx hy hz))
      h00 h01 h10 h11 h20 h21
  · exact tri_le _ _ _ _ _ _ _ _ (fun x hx y hy z hz => le_cornerMax S (·.x) (x, y, z) (mem_cornerCoeffs hx hy hz))
      h00 h01 h10 h11 h20 h21
  · exact tri_ge _ _ _ _ _ _ _ _ (fun x hx y hy z hz => cornerMin_le S (·.y) (x, y, z) (mem_cornerCoeffs hx hy hz))
      h00 h01 h10 h11 h20 h21
  · exact tri_le _ _ _ _ _ _ _ _ (fun x hx y hy z hz => le_cornerMax S (·.y) (x, y, z) (mem_cornerCoeffs hx hy hz))
      h00 h01 h10 h11 h20 h21
  · exact tri_ge _ _ _ _ _ _ _ _ (fun x hx y hy z hz => cornerMin_le S (·.z) (x, y, z) (mem_cornerCoeffs hx hy hz))
      h00 h01 h10 h11 h20 h21
  · exact tri_le _ _ _ _ _ _ _ _ (fun x hx y hy z hz => le_cornerMax S (·.z) (x, y, z) (mem_cornerCoeffs hx hy hz))
      h00 h01 h10 h11 h20 h21

theorem cornerMin_le_max (S : Sys) (f : V3 ℚ → ℚ) : cornerMin S f ≤ cornerMax S f :=
  le_trans (foldl_minStep_le f (corners S) (f S.origin)).1 (le_foldl_maxStep f (corners S) (f S.origin)).1

/-- per-axis separation below the cutoff. -/
theorem axis_lt_of_normSq_lt (d : V3 ℚ) (c : ℚ) (hc : 0 < c) (h : V3.normSq d < c * c) :
    |d.x| < c ∧ |d.y| < c ∧ |d.z| < c := by
  simp only [V3.normSq, V3.dot] at h
  refine ⟨?_, ?_, ?_⟩ <;> rw [abs_lt] <;> constructor <;> nlinarith [sq_nonneg d.x, sq_nonneg d.y, sq_nonneg d.z]

theorem numBins_pos (lo hi c : ℚ) (hc : 0 < c) (h : lo ≤ hi) : 1 ≤ numBins lo hi c := by
  unfold numBins
  have hpos : (0 : ℚ) < (hi + c - lo) / c := div_pos (by linarith) hc
  have : (0 : Int) < ((hi + c - lo) / c).ceil := Rat.lt_ceil_iff.2 (by exact_mod_cast hpos)
  omega

/-! ### ghosts and completeness of the compared pairs -/

theorem ghostPos_zero (S : Sys) (j : Nat) : ghostPos S (0, 0, 0) j = S.posOf j := by
  simp [ghostPos]

theorem cand2_eq_ghost (S : Sys) (i j : Nat) (s : Int × Int × Int) :
    cand2 S.vects (S.posOf i) (S.posOf j) s = V3.normSq (ghostPos S s j - S.posOf i) := by
  simp only [cand2, V3.normSq, V3.dot, shiftBy, ghostPos, v3sub_x, v3sub_y, v3sub_z]
  ring

theorem skipBin_false {G : Grid} {b : Idx} (h1 : 0 ≤ b.1 ∧ b.1 < G.nx) (h2 : 0 ≤ b.2.1 ∧ b.2.1 < G.ny)
    (h3 : 0 ≤ b.2.2 ∧ b.2.2 < G.nz) : skipBin G b = false := by
  unfold skipBin
  simp only [Bool.or_eq_false_iff, decide_eq_false_iff_not, beq_eq_false_iff_ne, ne_eq]
  omega

/-- facts about a point `q` closer than the cutoff (per axis) to a point `p` of the corner bounding box. -/
theorem near_inside (S : Sys) (cutoff : ℚ) (hc : 0 < cutoff) (p q : V3 ℚ)
    (hp : (cornerMin S (·.x) ≤ p.x ∧ p.x ≤ cornerMax S (·.x)) ∧ (cornerMin S (·.y) ≤ p.y ∧ p.y ≤ cornerMax S (·.y)) ∧
      (cornerMin S (·.z) ≤ p.z ∧ p.z ≤ cornerMax S (·.z)))
    (hq : |(q - p).x| < cutoff ∧ |(q - p).y| < cutoff ∧ |(q - p).z| < cutoff) :
    inSuper (mkGrid S cutoff) q = true ∧
    skipBin (mkGrid S cutoff) (binOf (mkGrid S cutoff) p) = false ∧
    skipBin (mkGrid S cutoff) (binOf (mkGrid S cutoff) q) = false ∧
    |(binOf (mkGrid S cutoff) q).1 - (binOf (mkGrid S cutoff) p).1| ≤ 1 ∧
    |(binOf (mkGrid S cutoff) q).2.1 - (binOf (mkGrid S cutoff) p).2.1| ≤ 1 ∧
    |(binOf (mkGrid S cutoff) q).2.2 - (binOf (mkGrid S cutoff) p).2.2| ≤ 1 := by
  obtain ⟨⟨hx0, hx1⟩, ⟨hy0, hy1⟩, ⟨hz0, hz1⟩⟩ := hp
  obtain ⟨qx, qy, qz⟩ := hq
  simp only [v3sub_x, v3sub_y, v3sub_z] at qx qy qz
  have hpad : cutoff < pad * cutoff := by unfold pad; linarith
  have qx' := abs_lt.1 qx
  have qy' := abs_lt.1 qy
  have qz' := abs_lt.1 qz
  have mx := cornerMin_le_max S (·.x)
  have my := cornerMin_le_max S (·.y)
  have mz := cornerMin_le_max S (·.z)
  have nxp := numBins_pos (cornerMin S (·.x) - pad * cutoff) (cornerMax S (·.x) + pad * cutoff) cutoff hc (by linarith)
  have nyp := numBins_pos (cornerMin S (·.y) - pad * cutoff) (cornerMax S (·.y) + pad * cutoff) cutoff hc (by linarith)
  have nzp := numBins_pos (cornerMin S (·.z) - pad * cutoff) (cornerMax S (·.z) + pad * cutoff) cutoff hc (by linarith)
  refine ⟨?_, ?_, ?_, ?_, ?_, ?_⟩
  · simp only [inSuper, mkGrid, Bool.and_eq_true, decide_eq_true_eq]
    refine ⟨⟨⟨⟨⟨?_, ?_⟩, ?_⟩, ?_⟩, ?_⟩, ?_⟩ <;> (apply decide_eq_true; linarith)
  · apply skipBin_false
    · exact ⟨binIdx_nonneg _ _ _ nxp _ (by simp only [mkGrid]; linarith), binIdx_lt _ _ _ _⟩
    · exact ⟨binIdx_nonneg _ _ _ nyp _ (by simp only [mkGrid]; linarith), binIdx_lt _ _ _ _⟩
    · exact ⟨binIdx_nonneg _ _ _ nzp _ (by simp only [mkGrid]; linarith), binIdx_lt _ _ _ _⟩
  · apply skipBin_false
    · exact ⟨binIdx_nonneg _ _ _ nxp _ (by simp only [mkGrid]; linarith), binIdx_lt _ _ _ _⟩
    · exact ⟨binIdx_nonneg _ _ _ nyp _ (by simp only [mkGrid]; linarith), binIdx_lt _ _ _ _⟩
    · exact ⟨binIdx_nonneg _ _ _ nzp _ (by simp only [mkGrid]; linarith), binIdx_lt _ _ _ _⟩
  · exact binIdx_adjacent _ _ _ hc _ _ qx
  · exact binIdx_adjacent _ _ _ hc _ _ qy
  · exact binIdx_adjacent _ _ _ hc _ _ qz

theorem mem_realEntries (S : Sys) (G : Grid) (i : Nat) (hi : i < S.natoms) :
    (i, binOf G (S.posOf i)) ∈ entries S G := by
  unfold entries realEntries
  exact mem_append_left _ (mem_map.2 ⟨i, mem_range.2 hi, rfl⟩)

theorem mem_ghostEntries (S : Sys) (G : Grid) (j : Nat) (hj : j < S.natoms) (s : Int × Int × Int)
    (hs : s ∈ imageShifts S.px S.py S.pz) (hin : inSuper G (ghostPos S s j) = true) :
    (j, binOf G (ghostPos S s j)) ∈ entries S G := by
  unfold entries ghostEntries
  refine mem_append_right _ (mem_flatMap.2 ⟨s, hs, mem_filterMap.2 ⟨j, mem_range.2 hj, ?_⟩⟩)
  simp only [hin, if_true]

/-- for an atom `i` inside the cell, every periodic image (shift `s`) of an atom `j`
    that is closer to `i` than the cutoff is kept as a ghost (it lies strictly inside the superbox). -/
theorem ghost_kept (S : Sys) (cutoff : ℚ) (hc : 0 < cutoff) (i j : Nat) (hj : j < S.natoms)
    (hin : InsideCell S (S.posOf i)) (s : Int × Int × Int) (hs : s ∈ imageShifts S.px S.py S.pz)
    (hclose : cand2 S.vects (S.posOf i) (S.posOf j) s < cutoff * cutoff) :
    inSuper (mkGrid S cutoff) (ghostPos S s j) = true ∧
    (j, binOf (mkGrid S cutoff) (ghostPos S s j)) ∈ ghostEntries S (mkGrid S cutoff) := by
  rw [cand2_eq_ghost] at hclose
  have h := (near_inside S cutoff hc _ _ (inside_bounds S _ hin) (axis_lt_of_normSq_lt _ _ hc hclose)).1
  refine ⟨h, mem_flatMap.2 ⟨s, hs, mem_filterMap.2 ⟨j, mem_range.2 hj, ?_⟩⟩⟩
  simp only [h, if_true]

/-- with every atom inside the cell, any two distinct atoms whose `dmag2` is below
    `cutoff²` are compared by the sweep (in one order or the other). -/
theorem cands_complete (S : Sys) (cutoff : ℚ) (hc : 0 < cutoff)
    (hin : ∀ i, i < S.natoms → InsideCell S (S.posOf i)) (i j : Nat) (hi : i < S.natoms) (hj : j < S.natoms)
    (hij : i ≠ j) (hd : dist2 S i j < cutoff * cutoff) :
    (i, j) ∈ cands S cutoff ∨ (j, i) ∈ cands S cutoff := by
  unfold dist2 at hd
  obtain ⟨s, hs, hlt⟩ := (dmag2_lt_iff _ _ _ _ _ _ _).1 hd
  rw [cand2_eq_ghost] at hlt
  obtain ⟨h1, h2, h3, h4, h5, h6⟩ := near_inside S cutoff hc _ _ (inside_bounds S _ (hin i hi))
    (axis_lt_of_normSq_lt _ _ hc hlt)
  have hej : (j, binOf (mkGrid S cutoff) (ghostPos S s j)) ∈ entries S (mkGrid S cutoff) := by
    unfold allShifts at hs
    rcases mem_cons.1 hs with rfl | hs
    · rw [ghostPos_zero]; exact mem_realEntries S _ j hj
    · exact mem_ghostEntries S _ j hj s hs h1
  unfold cands
  exact cands_cover _ _ i j _ _ (mem_realEntries S _ i hi) hej hij h4 h5 h6 h2 h3

theorem cands_lt (S : Sys) (cutoff : ℚ) (uv : Nat × Nat) (h : uv ∈ cands S cutoff) :
    uv.1 < S.natoms ∧ uv.2 < S.natoms := by
  have hes : ∀ a b, (a, b) ∈ entries S (mkGrid S cutoff) → a < S.natoms := by
    intro a b hab
    unfold entries realEntries ghostEntries at hab
    rcases mem_append.1 hab with h | h
    · obtain ⟨k, hk, e⟩ := mem_map.1 h
      simp only [Prod.mk.injEq] at e
      rw [← e.1]; exact mem_range.1 hk
    · obtain ⟨s, _, h⟩ := mem_flatMap.1 h
      obtain ⟨k, hk, e⟩ := mem_filterMap.1 h
      simp only at e
      split at e
      · simp only [Option.some.injEq, Prod.mk.injEq] at e
        rw [← e.1]; exact mem_range.1 hk
      · simp at e
  obtain ⟨⟨b1, h1⟩, ⟨b2, h2⟩⟩ := candsOf_subset (G := mkGrid S cutoff) (es := entries S (mkGrid S cutoff)) h
  exact ⟨hes _ _ h1, hes _ _ h2⟩

end Atomman.C03
