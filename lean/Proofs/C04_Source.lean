/-
  C04 — the source tie.  `Atomman/Generated/SupercellSource.lean` is regenerated on every check from the CURRENT source
  of `System.supersize`, `System.rotate`, the `Box` family predicates, `miller.py` and the two conversion styles
  (`harness/props/c04.py: translate()`, Python `ast`).  Every theorem `gen_…_eq_model` below states that a generated
  definition IS the hand model of `Atomman/C04.lean` the property theorems are about: an edit of the source that
  changes a branch condition, a formula, a table, a default, an argument handed on, or the order of two statements
  regenerates a different definition and breaks the named obligation here (or the translator refuses the new shape).
-/
import Atomman.C04
import Atomman.Generated.SupercellSource
import Proofs.C04_Lemmas
import Mathlib.Tactic.Ring
import Mathlib.Tactic.Linarith
import Mathlib.Tactic.NormNum
import Mathlib.Algebra.Order.Field.Basic
import Mathlib.Algebra.Order.AbsoluteValue.Basic
import Mathlib.Data.List.Basic

namespace Atomman.C04
open Atomman Atomman.C04.Gen
set_option linter.unusedSectionVars false

/-! ### supersize -/

theorem gen_resolveInt_eq_model (n : Int) : genResolveInt n = (SizeArg.int n).resolve := by
  unfold genResolveInt SizeArg.resolve Size.ofInt?
  by_cases h1 : 0 < n
  · simp [h1]
  · by_cases h2 : n < 0
    · simp [h1, h2]
    · simp [h1, h2]

theorem gen_resolvePair_eq_model (lo hi : Int) : genResolvePair lo hi = (SizeArg.pair lo hi).resolve := rfl

theorem gen_resolveOther_eq_model : genResolveOther = SizeArg.other.resolve := rfl

theorem gen_replicaRel_eq_model {K : Type} [Add K] [Sub K] [Mul K] [Div K] [IntCast K]
    (sa sb sc : Size) (q : V3 K) (r0 r1 r2 : Nat) :
    genReplicaRel sa sb sc q r0 r1 r2 = replicaRel sa sb sc q r0 r1 r2 := rfl

/-! ### the numpy bookkeeping of `supersize`: which offset and which input row go with which row of the result -/

/-- the replica counters and copy indices the broadcasting statements of the source build ARE the model's. -/
theorem gen_offsets_eq_model :
    genOffsetsX = offsetsX ∧ genOffsetsY = offsetsY ∧ genOffsetsZ = offsetsZ ∧ genCopyIndex = copyIndex ∧
    genSposIndex = copyIndex ∧ genSkippedKey = "pos" := ⟨rfl, rfl, rfl, rfl, rfl, rfl⟩

theorem flatMap_const_replicate {α : Type} (k n : Nat) (c : α) :
    ((List.range k).flatMap fun _ => List.replicate n c) = List.replicate (k * n) c := by
  induction k with
  | zero => simp
  | succ k ih =>
    rw [List.range_succ, List.flatMap_append, ih, Nat.succ_mul, List.replicate_add]
    simp

theorem tileList_eq_flatten {α : Type} (k : Nat) (l : List α) : tileList k l = (List.replicate k l).flatten := by
  unfold tileList
  induction k with
  | zero => simp
  | succ k ih => rw [List.range_succ, List.flatMap_append, ih]; simp [List.replicate_succ', List.flatten_append]

theorem tileList_mul {α : Type} (a b : Nat) (l : List α) : tileList a (tileList b l) = tileList (a * b) l := by
  rw [tileList_eq_flatten, tileList_eq_flatten, tileList_eq_flatten]
  induction a with
  | zero => simp
  | succ a ih => rw [List.replicate_succ, List.flatten_cons, ih, Nat.succ_mul, Nat.add_comm, List.replicate_add, List.flatten_append]

theorem offsets_spec (N m0 m1 m2 : Nat) :
    copyIndex N m0 m1 m2 = (replicaOrder N m0 m1 m2).map (·.1) ∧
    offsetsX N m0 m1 m2 = (replicaOrder N m0 m1 m2).map (·.2.1) ∧
    offsetsY N m0 m1 m2 = (replicaOrder N m0 m1 m2).map (·.2.2.1) ∧
    offsetsZ N m0 m1 m2 = (replicaOrder N m0 m1 m2).map (·.2.2.2) := by
  refine ⟨?_, ?_, ?_, ?_⟩
  · simp only [copyIndex, replicaOrder, List.map_flatMap, List.map_map, Function.comp_def, List.map_id']
    have : m0 * m1 * m2 = m2 * (m1 * m0) := by ring
    rw [this, ← tileList_mul, ← tileList_mul]
    rfl
  · simp only [offsetsX, replicaOrder, List.map_flatMap, List.map_map, Function.comp_def, List.map_const', List.length_range]
    rfl
  · simp only [offsetsY, replicaOrder, List.map_flatMap, List.map_map, Function.comp_def, List.map_const', List.length_range,
      flatMap_const_replicate]
    rfl
  · simp only [offsetsZ, replicaOrder, List.map_flatMap, List.map_map, Function.comp_def, List.map_const', List.length_range,
      flatMap_const_replicate]
    rfl

theorem map_eq_range_filterMap {α β : Type} (l : List α) (f : α → β) :
    l.map f = (List.range l.length).filterMap (fun i => l[i]?.map f) := by
  induction l with
  | nil => simp
  | cons a l ih =>
    rw [List.length_cons, List.range_succ_eq_map, List.filterMap_cons]
    simp only [List.getElem?_cons_zero, Option.map_some, List.map_cons, List.filterMap_map, Function.comp_def,
      List.getElem?_cons_succ]
    rw [← ih]

/-- **the rows of the result in terms of the broadcasting bookkeeping**: row `k` of the system `supersize` returns is the
    atom `copyIndex[k]` of the input at replica `(offsetsX[k], offsetsY[k], offsetsZ[k])` (with `offsets_spec`). -/
theorem supersizeAtoms_eq_order {K : Type} [Add K] [Sub K] [Mul K] [Div K] [IntCast K]
    (b : Box K) (sa sb sc : Size) (atoms : List (Atom K)) :
    supersizeAtoms b sa sb sc atoms =
      (replicaOrder atoms.length sa.mult.toNat sb.mult.toNat sc.mult.toNat).filterMap fun t =>
        atoms[t.1]?.map fun a => { a with pos := replicaPos b sa sb sc a.pos t.2.1 t.2.2.1 t.2.2.2 } := by
  unfold supersizeAtoms replicaOrder
  simp only [List.filterMap_flatMap, List.filterMap_map, Function.comp_def]
  congr 1; funext r2; congr 1; funext r1; congr 1; funext r0
  exact map_eq_range_filterMap atoms _
section
variable {K : Type} [Field K] [LinearOrder K] [IsStrictOrderedRing K]

/-- the loop `origin += vects[i] * sizes[i][0]; vects[i] *= mults[i]` over the three axes builds the model's box
    (in particular: the origin moves along the ORIGINAL cell vectors, not the multiplied ones). -/
theorem gen_superBox_eq_model (b : Box K) (sa sb sc : Size) : genSuperBox b sa sb sc = superBox b sa sb sc := by
  obtain ⟨⟨⟨a0, a1, a2⟩, ⟨b0, b1, b2⟩, ⟨c0, c1, c2⟩⟩, ⟨o0, o1, o2⟩⟩ := b
  simp only [genSuperBox, superBox, genAxisOrigin, genAxisVect, V3.smul, V3.add_def, Box.mk.injEq,
    M3.mk.injEq, V3.mk.injEq, true_and, and_true]
  refine ⟨?_, ?_, ?_⟩ <;> ring

/-! ### rotate -/

theorem gen_defaultTol_eq_model : genDefaultTol = [(1, 10000), (1, 100000), (1, 1000000), (1, 10000000)] := by decide

/-- every rung of the default ladder is positive and below 1/2 (the hypothesis of `roundFaces_keep_iff`). -/
theorem gen_defaultTol_small : ∀ t ∈ genDefaultTol, 0 < t.1 ∧ 2 * t.1 < t.2 := by decide

theorem gen_rotate_glue_eq_model :
    genHexShape = (3, 4) ∧ genUvwShape = (3, 3) ∧ genShapeErrors = ["value", "value"] ∧
    genIntTestArgs = ["uvws", "int_uvws"] ∧ genIntTestKw = [] ∧ genIntTestError = "value" ∧
    genPlanarError = "value" ∧ genLadderError = "value" ∧ genHexSumError = "value" ∧
    genShortcutBoxSetKw = ["scale", "vects"] ∧ genShortcutScale = false := by decide

theorem gen_shortcut_eq_model (U : M3 Int) : genIsShortcut U = true ↔ U = M3.one := by
  simp [genIsShortcut]

/-- the flags of the returned cell on both paths. -/
theorem gen_shortcutPbc_eq_model (U : M3 Int) (pbc : Pbc) :
    rotatePbc U pbc = if genIsShortcut U then genShortcutPbc else ⟨true, true, true⟩ := by
  unfold rotatePbc genIsShortcut genShortcutPbc
  by_cases h : U = M3.one <;> simp [h]

theorem gen_newVects_eq_model (U : M3 Int) (V : M3 K) : genNewVects U V = newVects U V := rfl

theorem absK_eq_abs (x : K) : absK x = |x| := by
  unfold absK
  split
  · rename_i h; rw [abs_of_neg h]; ring
  · rename_i h; rw [abs_of_nonneg (not_lt.mp h)]

theorem gen_newVolume_eq_model (nv : M3 K) : genNewVolume nv = |M3.det nv| := by
  unfold genNewVolume; rw [absK_eq_abs]; rfl

theorem gen_corners_eq_model (U : M3 Int) : genCorners U = corners U := rfl

theorem gen_rotateSizes_eq_model (U : M3 Int) : genRotateSizes U = rotateSizes U := rfl

/-- `np.linalg.solve(vects.T, origin)` is minus the relative coordinates of the Cartesian origin. -/
theorem gen_orel_eq_model (b : Box K) :
    genOrel b = ⟨0 - (b.cartToRel ⟨0, 0, 0⟩).x, 0 - (b.cartToRel ⟨0, 0, 0⟩).y, 0 - (b.cartToRel ⟨0, 0, 0⟩).z⟩ := by
  rw [cartToRel_eq]
  obtain ⟨⟨⟨a0, a1, a2⟩, ⟨b0, b1, b2⟩, ⟨c0, c1, c2⟩⟩, ⟨o0, o1, o2⟩⟩ := b
  simp only [genOrel, M3.inv, M3.vecMul, V3.dot, V3.cross, M3.det, V3.sub_def, V3.mk.injEq]
  refine ⟨?_, ?_, ?_⟩ <;> ring

/-- the bounding supercell the filter runs over is the supersized system moved by `genShift`. -/
theorem gen_shift_eq_model (fl : K → Int) (b : Box K) (U : M3 Int) (atoms : List (Atom K)) :
    rotateSup fl b U atoms =
      (⟨genNewVects U b.vects, ⟨0, 0, 0⟩⟩,
       (supersizeAtoms b (genRotateSizes U).1 (genRotateSizes U).2.1 (genRotateSizes U).2.2 atoms).map
         fun a => { a with pos := a.pos - genShift fl b }) := by
  unfold rotateSup genShift
  rw [gen_orel_eq_model]
  rfl

theorem gen_roundFaces_eq_model (atol s : K) : genRoundFaces atol s = roundFaces atol s := rfl

theorem gen_inside_eq_model (s : V3 K) : genInside s = inHalfOpen s := rfl

/-- `miller.vector4to3` on one row: the model's refusal test in front of the generated formula. -/
theorem gen_hex4to3_eq_model (atol u v t w : K) :
    hex4to3? atol u v t w = if absK (u + v + t) ≤ atol then some (genHex4to3 u v t w) else none := rfl

end

/-! ### the crystal family -/

section
variable {K : Type} (cl : K → K → Bool) (n90 n120 : K) (p : Cell6 K)

theorem gen_isCubic_eq_model : genIsCubic cl n90 n120 p = isCubic cl n90 p := rfl
theorem gen_isHexagonal_eq_model : genIsHexagonal cl n90 n120 p = isHexagonal cl n90 n120 p := rfl
theorem gen_isTetragonal_eq_model : genIsTetragonal cl n90 n120 p = isTetragonal cl n90 p := rfl
theorem gen_isRhombohedral_eq_model : genIsRhombohedral cl n90 n120 p = isRhombohedral cl n90 p := rfl
theorem gen_isOrthorhombic_eq_model : genIsOrthorhombic cl n90 n120 p = isOrthorhombic cl n90 p := rfl
theorem gen_isMonoclinic_eq_model : genIsMonoclinic cl n90 n120 p = isMonoclinic cl n90 p := rfl
theorem gen_isTriclinic_eq_model : genIsTriclinic cl n90 n120 p = isTriclinic cl p := rfl

/-- `Box.identifyfamily` of the source is the chain the family theorems (`C04_Family`) are about. -/
theorem gen_identifyFamily_eq_model : genIdentifyFamily cl n90 n120 p = identifyFamily cl n90 n120 p := rfl

end

/-! ### the conversions -/

theorem gen_p2cTable_eq_model : genP2CTable = p2cTable := rfl
theorem gen_c2pTable_eq_model : genC2PTable = c2pTable := rfl
theorem gen_settingSites_eq_model : genSettingSitesInt = settingSitesInt := rfl
theorem gen_settingFamilies_eq_model : genSettingFamilies = settingFamilies := rfl
theorem gen_multip_eq_model : genMultip = multip := rfl
theorem gen_c2pDefaults_eq_model : genC2PDefaults = c2pDefaults := by decide

/-- every call of `check_setting_basis` hands on the caller's `rtol`, `atol`, `check_family` under their own names; the
    two calls of `'t'` test `t1` and `t2`. -/
theorem gen_resolveCalls_eq_model :
    genResolveCalls =
      [[("setting", "setting"), ("rtol", "rtol"), ("atol", "atol"), ("check_family", "check_family")],
       [("setting", "'t1'"), ("rtol", "rtol"), ("atol", "atol"), ("check_family", "check_family")],
       [("setting", "'t2'"), ("rtol", "rtol"), ("atol", "atol"), ("check_family", "check_family")]] := by decide

theorem gen_resolveSetting_eq_model (chk : String → Option (Option Bool)) (cb : Bool) (s : String) :
    genResolveSetting chk cb s = resolveSetting chk cb s := by
  unfold genResolveSetting resolveSetting
  cases cb
  · simp
  · by_cases h : s = "t"
    · subst h
      simp only [Bool.true_and, bne_self_eq_false, Bool.false_eq_true, ↓reduceIte, beq_self_eq_true, Bool.not_true]
      rcases chk "t1" with _ | _ | a <;> rcases chk "t2" with _ | _ | b <;> rfl
    · have h1 : (s != "t") = true := by simp [h]
      simp only [Bool.true_and, h1, ↓reduceIte, Bool.not_true, Bool.false_eq_true]
      rcases chk s with _ | _ | a
      · rfl
      · rfl
      · cases a <;> rfl

section
variable {K : Type} [Add K] [Sub K] [Mul K] [Div K] [IntCast K] [Zero K] [One K] [LT K] [LE K]
  [DecidableLT K] [DecidableLE K]

/-- one pass of the site loop of the source is the model's. -/
theorem gen_siteStep_eq_model : genSiteStep = siteStep := rfl

/-- the site search is called with the caller's tolerances. -/
theorem gen_siteCallKw_eq_model : genSiteCallKw = [("rtol", "rtol"), ("atol", "atol")] := by decide

/-- **the site loop of the model is the iteration of that pass**: at each site the loop looks at the number of atoms found
    and at the type of the first; it returns `False` / raises / moves on as `siteStep` says. -/
theorem checkSitesBy_step (hit : V3 K → Atom K → Bool) (atoms : List (Atom K)) (site : V3 K) (rest : List (V3 K))
    (ty : Option Int) :
    checkSitesBy hit atoms (site :: rest) ty =
      match siteStep (atoms.filter (hit site)).length (((atoms.filter (hit site)).map (·.atype)).headD 0) ty with
      | .ret b => some b
      | .raise => none
      | .next ty' => checkSitesBy hit atoms rest ty' := by
  rw [checkSitesBy]
  generalize atoms.filter (hit site) = l
  match l with
  | [] => simp [siteStep]
  | [a] =>
    cases ty with
    | none => simp [siteStep]
    | some t0 =>
      by_cases h : a.atype = t0
      · simp [siteStep, h]
      · have h' : ¬ t0 = a.atype := fun e => h e.symm
        simp [siteStep, h, h']
  | a :: b :: l' => simp [siteStep]

/-- the family gate sits in front of the site loop. -/
theorem gen_familyGate_eq_model (fl : K → Int) (fam : Option Family) (b : Box K) (atol2 : K) (cf : Bool) (s : String)
    (atoms : List (Atom K)) :
    checkSettingBasis fl fam b atol2 cf s atoms =
      match settingSites (K := K) s with
      | none => none
      | some sites =>
        if genFamilyGate cf (familyAllowed s fam) then some (some false)
        else some (checkSitesBy (onSiteTol fl b atol2) atoms sites none) := rfl

end

/-- the statement pins (numpy array bookkeeping; what each one pins: docs/C04.md, "Source tie"). -/
theorem gen_pins_eq_model :
    genPins =
      [("c2p_cut", "3208b455e0a889e0"),
       ("index_of_pos", "3e9868255670a9b1"),
       ("p2c_body", "b9ee3a2119011597"),
       ("rotate_tail", "365519a697f9f3cc")] := by decide

end Atomman.C04
