/-
  C03 — helper lemmas (E): the text written by `NeighborList.dump` is read back by `NeighborList.load`.
-/
import Atomman.C03
import Mathlib.Data.List.Basic

set_option linter.unusedSimpArgs false
set_option linter.unusedVariables false

namespace Atomman.C03
open List

theorem flatMap_sep {α : Type} (ls : List (List α)) (x : α) :
    ls.flatMap (fun l => l ++ [x]) = [x].intercalate (ls ++ [[]]) := by
  induction ls with
  | nil => simp
  | cons l ls ih =>
    rw [flatMap_cons, ih, cons_append, intercalate_cons_of_ne_nil (by simp)]

theorem tokens_join (t : List Char) (ts : List (List Char)) :
    t ++ ts.flatMap (fun u => ' ' :: u) = [' '].intercalate (t :: ts) := by
  induction ts generalizing t with
  | nil => simp
  | cons u ts ih =>
    rw [flatMap_cons, intercalate_cons_cons, ← ih u]
    simp

theorem digit_of_mem (n : Nat) (c : Char) (h : c ∈ Nat.toDigits 10 n) : c.isDigit = true :=
  Nat.isDigit_of_mem_toDigits (by decide) (by decide) h

theorem renderLine_eq (i : Nat) (row : List Nat) :
    renderLine i row = [' '].intercalate (Nat.toDigits 10 i :: row.map (Nat.toDigits 10)) := by
  unfold renderLine
  rw [← tokens_join, List.flatMap_map]

theorem splitBlank_renderLine (i : Nat) (row : List Nat) :
    splitBlank (renderLine i row) = Nat.toDigits 10 i :: row.map (Nat.toDigits 10) := by
  unfold splitBlank
  rw [renderLine_eq, List.splitOn_intercalate]
  · apply List.filter_eq_self.2
    intro t ht
    have : t ≠ [] := by
      rcases mem_cons.1 ht with rfl | ht
      · exact Nat.toDigits_ne_nil
      · obtain ⟨j, _, rfl⟩ := mem_map.1 ht
        exact Nat.toDigits_ne_nil
    simpa using this
  · intro t ht hmem
    have hd : (' ' : Char).isDigit = true := by
      rcases mem_cons.1 ht with rfl | ht
      · exact digit_of_mem _ _ hmem
      · obtain ⟨j, _, rfl⟩ := mem_map.1 ht
        exact digit_of_mem _ _ hmem
    exact absurd hd (by decide)
  · simp

theorem parseNat_digits (n : Nat) : parseNat? (Nat.toDigits 10 n) = some n := by
  unfold parseNat?
  rw [if_pos]
  · simp
  · refine ⟨Nat.toDigits_ne_nil, ?_⟩
    rw [List.all_eq_true]
    intro c hc
    exact digit_of_mem n c hc

theorem mapM_parseNat (row : List Nat) : (row.map (Nat.toDigits 10)).mapM parseNat? = some row := by
  induction row with
  | nil => rfl
  | cons j row ih => simp [List.mapM_cons, parseNat_digits, ih]

theorem parseLine_renderLine (i : Nat) (row : List Nat) : parseLine (renderLine i row) = .entry i row := by
  unfold parseLine
  rw [splitBlank_renderLine]
  have hh : (Nat.toDigits 10 i).head? ≠ some '#' := by
    intro h
    have hm : '#' ∈ Nat.toDigits 10 i := by
      cases hd : Nat.toDigits 10 i with
      | nil => rw [hd] at h; simp at h
      | cons a t => rw [hd] at h; simp at h; rw [h]; exact mem_cons_self
    exact absurd (digit_of_mem _ _ hm) (by decide)
  simp only [hh, if_false, parseNat_digits, mapM_parseNat]

theorem parseLine_header : header.map parseLine = [.comment, .comment, .comment] := by
  decide

theorem newline_not_mem_renderLine (i : Nat) (row : List Nat) : '\n' ∉ renderLine i row := by
  unfold renderLine
  intro h
  rcases mem_append.1 h with h | h
  · exact absurd (digit_of_mem _ _ h) (by decide)
  · obtain ⟨j, _, hj⟩ := mem_flatMap.1 h
    rcases mem_cons.1 hj with e | hj
    · exact absurd e (by decide)
    · exact absurd (digit_of_mem _ _ hj) (by decide)

theorem newline_not_mem_header : ∀ l ∈ header, '\n' ∉ l := by decide

theorem fileLines_render (rows : Rows) : fileLines (render rows) = renderLines rows := by
  unfold fileLines render
  rw [flatMap_sep, List.splitOn_intercalate]
  · simp
  · intro l hl
    rcases mem_append.1 hl with hl | hl
    · unfold renderLines at hl
      rcases mem_append.1 hl with hl | hl
      · exact newline_not_mem_header l hl
      · obtain ⟨k, hk, rfl⟩ := List.mem_mapIdx.1 hl
        exact newline_not_mem_renderLine _ _
    · have : l = [] := by simpa using hl
      subst this; simp
  · simp

theorem foldlM_set (rows : Rows) (n k : Nat) (acc : Rows) (hacc : acc.length = n) (hk : k + rows.length = n) :
    (rows.mapIdx (fun i r => (k + i, r))).foldlM
        (fun (a : Rows) (e : Nat × List Nat) => if e.1 < n then some (a.set e.1 e.2) else none) acc
      = some (acc.take k ++ rows) := by
  induction rows generalizing k acc with
  | nil =>
    simp only [List.mapIdx_nil, List.foldlM_nil, List.append_nil]
    rw [List.take_of_length_le (by simp at hk; omega)]; rfl
  | cons r rows ih =>
    rw [List.mapIdx_cons, List.foldlM_cons]
    simp only [Nat.add_zero]
    have hkn : k < n := by simp at hk; omega
    rw [if_pos hkn]
    simp only [Option.bind_eq_bind, Option.bind_some]
    have := ih (k + 1) (acc.set k r) (by simp [hacc]) (by simp at hk ⊢; omega)
    have hfun : (fun i (r : List Nat) => (k + (i + 1), r)) = (fun i (r : List Nat) => (k + 1 + i, r)) := by
      funext i r; congr 1; omega
    rw [hfun, this]
    congr 1
    have h1 : (acc.set k r)[k]? = some r := by simp [List.getElem?_set, hacc, hkn]
    rw [List.take_add_one, h1, List.take_set, List.set_eq_of_length_le (by rw [List.length_take]; exact Nat.min_le_left _ _)]
    simp

/-- reading back what `dump` wrote gives the same lists. -/
theorem parse_render (rows : Rows) : parse (render rows) = some rows := by
  unfold parse
  rw [fileLines_render]
  have hls : (renderLines rows).map parseLine
      = [.comment, .comment, .comment] ++ rows.mapIdx (fun i r => Line.entry i r) := by
    unfold renderLines
    rw [List.map_append, parseLine_header]
    congr 1
    apply List.ext_getElem?
    intro k
    simp only [List.getElem?_map, List.getElem?_mapIdx]
    cases rows[k]? <;> simp [parseLine_renderLine]
  simp only [hls]
  have hbad : ([Line.comment, .comment, .comment] ++ rows.mapIdx (fun i r => Line.entry i r)).any Line.isBad
      = false := by
    rw [List.any_eq_false]
    intro l hl
    rcases mem_append.1 hl with hl | hl
    · simp only [mem_cons, not_mem_nil, or_false, or_self] at hl; subst hl; simp [Line.isBad]
    · obtain ⟨k, hk, rfl⟩ := List.mem_mapIdx.1 hl; simp [Line.isBad]
  rw [hbad]
  simp only [Bool.false_eq_true, if_false]
  have hes : ([Line.comment, .comment, .comment] ++ rows.mapIdx (fun i r => Line.entry i r)).filterMap Line.entry?
      = rows.mapIdx (fun i r => (i, r)) := by
    rw [List.filterMap_append]
    have h0 : [Line.comment, .comment, .comment].filterMap Line.entry? = [] := by decide
    rw [h0, List.nil_append]
    have : ∀ (k : Nat) (rs : Rows), (rs.mapIdx (fun i r => Line.entry (k + i) r)).filterMap Line.entry?
        = rs.mapIdx (fun i r => (k + i, r)) := by
      intro k rs
      induction rs generalizing k with
      | nil => simp
      | cons r rs ih =>
        simp only [List.mapIdx_cons, List.filterMap_cons, Line.entry?, Nat.add_zero]
        congr 1
        have h1 : (fun i (r : List Nat) => Line.entry (k + (i + 1)) r) = (fun i r => Line.entry (k + 1 + i) r) := by
          funext i r; congr 1; omega
        have h2 : (fun i (r : List Nat) => (k + (i + 1), r)) = (fun i r => (k + 1 + i, r)) := by
          funext i r; congr 1; omega
        rw [h1, h2]; exact ih (k + 1)
    simpa using this 0 rows
  rw [hes]
  have := foldlM_set rows rows.length 0 (List.replicate rows.length []) (by simp) (by simp)
  simp only [Nat.zero_add, List.take_zero, List.nil_append, List.length_mapIdx] at this ⊢
  exact this

end Atomman.C03
