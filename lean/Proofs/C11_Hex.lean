/-
  C11 — the compliance path in closed form for the hexagonal system (five constants): the 6x6 inverse written out
  (`D = C33 (C11 + C12) - 2 C13²`) and proved two-sided, hence unique; Voigt and Reuss bulk modulus in closed form.
-/
import Proofs.C11_Iso

namespace Atomman.C11
open Atomman.Gen Matrix
set_option linter.unusedSectionVars false
set_option linter.unusedSimpArgs false
set_option linter.unusedVariables false
set_option linter.unnecessarySeqFocus false
set_option linter.unusedTactic false
set_option linter.unreachableTactic false

variable {K : Type} [Field K] [CharZero K]

/-- the entries of a 6x6 literal. -/
theorem m6_lit (x00 x01 x02 x03 x04 x05 x10 x11 x12 x13 x14 x15 x20 x21 x22 x23 x24 x25 x30 x31 x32 x33 x34 x35 x40 x41 x42 x43 x44 x45 x50 x51 x52 x53 x54 x55 : K) :
    m6 ([x00, x01, x02, x03, x04, x05, x10, x11, x12, x13, x14, x15, x20, x21, x22, x23, x24, x25, x30, x31, x32, x33, x34, x35, x40, x41, x42, x43, x44, x45, x50, x51, x52, x53, x54, x55] : List K) 0 0 = x00 ∧
    m6 ([x00, x01, x02, x03, x04, x05, x10, x11, x12, x13, x14, x15, x20, x21, x22, x23, x24, x25, x30, x31, x32, x33, x34, x35, x40, x41, x42, x43, x44, x45, x50, x51, x52, x53, x54, x55] : List K) 0 1 = x01 ∧
    m6 ([x00, x01, x02, x03, x04, x05, x10, x11, x12, x13, x14, x15, x20, x21, x22, x23, x24, x25, x30, x31, x32, x33, x34, x35, x40, x41, x42, x43, x44, x45, x50, x51, x52, x53, x54, x55] : List K) 0 2 = x02 ∧
    m6 ([x00, x01, x02, x03, x04, x05, x10, x11, x12, x13, x14, x15, x20, x21, x22, x23, x24, x25, x30, x31, x32, x33, x34, x35, x40, x41, x42, x43, x44, x45, x50, x51, x52, x53, x54, x55] : List K) 0 3 = x03 ∧
    m6 ([x00, x01, x02, x03, x04, x05, x10, x11, x12, x13, x14, x15, x20, x21, x22, x23, x24, x25, x30, x31, x32, x33, x34, x35, x40, x41, x42, x43, x44, x45, x50, x51, x52, x53, x54, x55] : List K) 0 4 = x04 ∧
    m6 ([x00, x01, x02, x03, x04, x05, x10, x11, x12, x13, x14, x15, x20, x21, x22, x23, x24, x25, x30, x31, x32, x33, x34, x35, x40, x41, x42, x43, x44, x45, x50, x51, x52, x53, x54, x55] : List K) 0 5 = x05 ∧
    m6 ([x00, x01, x02, x03, x04, x05, x10, x11, x12, x13, x14, x15, x20, x21, x22, x23, x24, x25, x30, x31, x32, x33, x34, x35, x40, x41, x42, x43, x44, x45, x50, x51, x52, x53, x54, x55] : List K) 1 0 = x10 ∧
    m6 ([x00, x01, x02, x03, x04, x05, x10, x11, x12, x13, x14, x15, x20, x21, x22, x23, x24, x25, x30, x31, x32, x33, x34, x35, x40, x41, x42, x43, x44, x45, x50, x51, x52, x53, x54, x55] : List K) 1 1 = x11 ∧
    m6 ([x00, x01, x02, x03, x04, x05, x10, x11, x12, x13, x14, x15, x20, x21, x22, x23, x24, x25, x30, x31, x32, x33, x34, x35, x40, x41, x42, x43, x44, x45, x50, x51, x52, x53, x54, x55] : List K) 1 2 = x12 ∧
    m6 ([x00, x01, x02, x03, x04, x05, x10, x11, x12, x13, x14, x15, x20, x21, x22, x23, x24, x25, x30, x31, x32, x33, x34, x35, x40, x41, x42, x43, x44, x45, x50, x51, x52, x53, x54, x55] : List K) 1 3 = x13 ∧
    m6 ([x00, x01, x02, x03, x04, x05, x10, x11, x12, x13, x14, x15, x20, x21, x22, x23, x24, x25, x30, x31, x32, x33, x34, x35, x40, x41, x42, x43, x44, x45, x50, x51, x52, x53, x54, x55] : List K) 1 4 = x14 ∧
    m6 ([x00, x01, x02, x03, x04, x05, x10, x11, x12, x13, x14, x15, x20, x21, x22, x23, x24, x25, x30, x31, x32, x33, x34, x35, x40, x41, x42, x43, x44, x45, x50, x51, x52, x53, x54, x55] : List K) 1 5 = x15 ∧
    m6 ([x00, x01, x02, x03, x04, x05, x10, x11, x12, x13, x14, x15, x20, x21, x22, x23, x24, x25, x30, x31, x32, x33, x34, x35, x40, x41, x42, x43, x44, x45, x50, x51, x52, x53, x54, x55] : List K) 2 0 = x20 ∧
    m6 ([x00, x01, x02, x03, x04, x05, x10, x11, x12, x13, x14, x15, x20, x21, x22, x23, x24, x25, x30, x31, x32, x33, x34, x35, x40, x41, x42, x43, x44, x45, x50, x51, x52, x53, x54, x55] : List K) 2 1 = x21 ∧
    m6 ([x00, x01, x02, x03, x04, x05, x10, x11, x12, x13, x14, x15, x20, x21, x22, x23, x24, x25, x30, x31, x32, x33, x34, x35, x40, x41, x42, x43, x44, x45, x50, x51, x52, x53, x54, x55] : List K) 2 2 = x22 ∧
    m6 ([x00, x01, x02, x03, x04, x05, x10, x11, x12, x13, x14, x15, x20, x21, x22, x23, x24, x25, x30, x31, x32, x33, x34, x35, x40, x41, x42, x43, x44, x45, x50, x51, x52, x53, x54, x55] : List K) 2 3 = x23 ∧
    m6 ([x00, x01, x02, x03, x04, x05, x10, x11, x12, x13, x14, x15, x20, x21, x22, x23, x24, x25, x30, x31, x32, x33, x34, x35, x40, x41, x42, x43, x44, x45, x50, x51, x52, x53, x54, x55] : List K) 2 4 = x24 ∧
    m6 ([x00, x01, x02, x03, x04, x05, x10, x11, x12, x13, x14, x15, x20, x21, x22, x23, x24, x25, x30, x31, x32, x33, x34, x35, x40, x41, x42, x43, x44, x45, x50, x51, x52, x53, x54, x55] : List K) 2 5 = x25 ∧
    m6 ([x00, x01, x02, x03, x04, x05, x10, x11, x12, x13, x14, x15, x20, x21, x22, x23, x24, x25, x30, x31, x32, x33, x34, x35, x40, x41, x42, x43, x44, x45, x50, x51, x52, x53, x54, x55] : List K) 3 0 = x30 ∧
    m6 ([x00, x01, x02, x03, x04, x05, x10, x11, x12, x13, x14, x15, x20, x21, x22, x23, x24, x25, x30, x31, x32, x33, x34, x35, x40, x41, x42, x43, x44, x45, x50, x51, x52, x53, x54, x55] : List K) 3 1 = x31 ∧
    m6 ([x00, x01, x02, x03, x04, x05, x10, x11, x12, x13, x14, x15, x20, x21, x22, x23, x24, x25, x30, x31, x32, x33, x34, x35, x40, x41, x42, x43, x44, x45, x50, x51, x52, x53, x54, x55] : List K) 3 2 = x32 ∧
    m6 ([x00, x01, x02, x03, x04, x05, x10, x11, x12, x13, x14, x15, x20, x21, x22, x23, x24, x25, x30, x31, x32, x33, x34, x35, x40, x41, x42, x43, x44, x45, x50, x51, x52, x53, x54, x55] : List K) 3 3 = x33 ∧
    m6 ([x00, x01, x02, x03, x04, x05, x10, x11, x12, x13, x14, x15, x20, x21, x22, x23, x24, x25, x30, x31, x32, x33, x34, x35, x40, x41, x42, x43, x44, x45, x50, x51, x52, x53, x54, x55] : List K) 3 4 = x34 ∧
    m6 ([x00, x01, x02, x03, x04, x05, x10, x11, x12, x13, x14, x15, x20, x21, x22, x23, x24, x25, x30, x31, x32, x33, x34, x35, x40, x41, x42, x43, x44, x45, x50, x51, x52, x53, x54, x55] : List K) 3 5 = x35 ∧
    m6 ([x00, x01, x02, x03, x04, x05, x10, x11, x12, x13, x14, x15, x20, x21, x22, x23, x24, x25, x30, x31, x32, x33, x34, x35, x40, x41, x42, x43, x44, x45, x50, x51, x52, x53, x54, x55] : List K) 4 0 = x40 ∧
    m6 ([x00, x01, x02, x03, x04, x05, x10, x11, x12, x13, x14, x15, x20, x21, x22, x23, x24, x25, x30, x31, x32, x33, x34, x35, x40, x41, x42, x43, x44, x45, x50, x51, x52, x53, x54, x55] : List K) 4 1 = x41 ∧
    m6 ([x00, x01, x02, x03, x04, x05, x10, x11, x12, x13, x14, x15, x20, x21, x22, x23, x24, x25, x30, x31, x32, x33, x34, x35, x40, x41, x42, x43, x44, x45, x50, x51, x52, x53, x54, x55] : List K) 4 2 = x42 ∧
    m6 ([x00, x01, x02, x03, x04, x05, x10, x11, x12, x13, x14, x15, x20, x21, x22, x23, x24, x25, x30, x31, x32, x33, x34, x35, x40, x41, x42, x43, x44, x45, x50, x51, x52, x53, x54, x55] : List K) 4 3 = x43 ∧
    m6 ([x00, x01, x02, x03, x04, x05, x10, x11, x12, x13, x14, x15, x20, x21, x22, x23, x24, x25, x30, x31, x32, x33, x34, x35, x40, x41, x42, x43, x44, x45, x50, x51, x52, x53, x54, x55] : List K) 4 4 = x44 ∧
    m6 ([x00, x01, x02, x03, x04, x05, x10, x11, x12, x13, x14, x15, x20, x21, x22, x23, x24, x25, x30, x31, x32, x33, x34, x35, x40, x41, x42, x43, x44, x45, x50, x51, x52, x53, x54, x55] : List K) 4 5 = x45 ∧
    m6 ([x00, x01, x02, x03, x04, x05, x10, x11, x12, x13, x14, x15, x20, x21, x22, x23, x24, x25, x30, x31, x32, x33, x34, x35, x40, x41, x42, x43, x44, x45, x50, x51, x52, x53, x54, x55] : List K) 5 0 = x50 ∧
    m6 ([x00, x01, x02, x03, x04, x05, x10, x11, x12, x13, x14, x15, x20, x21, x22, x23, x24, x25, x30, x31, x32, x33, x34, x35, x40, x41, x42, x43, x44, x45, x50, x51, x52, x53, x54, x55] : List K) 5 1 = x51 ∧
    m6 ([x00, x01, x02, x03, x04, x05, x10, x11, x12, x13, x14, x15, x20, x21, x22, x23, x24, x25, x30, x31, x32, x33, x34, x35, x40, x41, x42, x43, x44, x45, x50, x51, x52, x53, x54, x55] : List K) 5 2 = x52 ∧
    m6 ([x00, x01, x02, x03, x04, x05, x10, x11, x12, x13, x14, x15, x20, x21, x22, x23, x24, x25, x30, x31, x32, x33, x34, x35, x40, x41, x42, x43, x44, x45, x50, x51, x52, x53, x54, x55] : List K) 5 3 = x53 ∧
    m6 ([x00, x01, x02, x03, x04, x05, x10, x11, x12, x13, x14, x15, x20, x21, x22, x23, x24, x25, x30, x31, x32, x33, x34, x35, x40, x41, x42, x43, x44, x45, x50, x51, x52, x53, x54, x55] : List K) 5 4 = x54 ∧
    m6 ([x00, x01, x02, x03, x04, x05, x10, x11, x12, x13, x14, x15, x20, x21, x22, x23, x24, x25, x30, x31, x32, x33, x34, x35, x40, x41, x42, x43, x44, x45, x50, x51, x52, x53, x54, x55] : List K) 5 5 = x55 := by
  simp [m6]

/-- compliance of the hexagonal stiffness; `D = C33 (C11 + C12) - 2 C13²`. -/
def hexS (c11 c12 c13 c33 c44 : K) : M6 K :=
  m6 [(c11 * c33 - c13 * c13) / ((c11 - c12) * (c33 * (c11 + c12) - 2 * c13 * c13)),
        -(c12 * c33 - c13 * c13) / ((c11 - c12) * (c33 * (c11 + c12) - 2 * c13 * c13)),
        -c13 / (c33 * (c11 + c12) - 2 * c13 * c13), 0, 0, 0,
      -(c12 * c33 - c13 * c13) / ((c11 - c12) * (c33 * (c11 + c12) - 2 * c13 * c13)),
        (c11 * c33 - c13 * c13) / ((c11 - c12) * (c33 * (c11 + c12) - 2 * c13 * c13)),
        -c13 / (c33 * (c11 + c12) - 2 * c13 * c13), 0, 0, 0,
      -c13 / (c33 * (c11 + c12) - 2 * c13 * c13), -c13 / (c33 * (c11 + c12) - 2 * c13 * c13),
        (c11 + c12) / (c33 * (c11 + c12) - 2 * c13 * c13), 0, 0, 0,
      0, 0, 0, 1 / c44, 0, 0,
      0, 0, 0, 0, 1 / c44, 0,
      0, 0, 0, 0, 0, 2 / (c11 - c12)]

theorem ctor_hex_eq (c11 c12 c13 c33 c44 : K) : ctor_C11_C12_C13_C33_C44 c11 c12 c13 c33 c44 =
    [c11, c12, c13, 0, 0, 0, c12, c11, c13, 0, 0, 0, c13, c13, c33, 0, 0, 0,
     0, 0, 0, c44, 0, 0, 0, 0, 0, 0, c44, 0, 0, 0, 0, 0, 0, (c11 - c12) / 2] := by
  simp [ctor_C11_C12_C13_C33_C44]

section
variable (c11 c12 c13 c33 c44 : K) (h1 : c11 - c12 ≠ 0) (hD : c33 * (c11 + c12) - 2 * c13 * c13 ≠ 0) (h4 : c44 ≠ 0)
include h1 hD h4

theorem hex_mul_hexS (a d : Fin 6) :
    ∑ b, m6 (ctor_C11_C12_C13_C33_C44 c11 c12 c13 c33 c44) a b * hexS c11 c12 c13 c33 c44 b d
      = if a = d then 1 else 0 := by
  obtain ⟨a00, a01, a02, a03, a04, a05, a10, a11, a12, a13, a14, a15, a20, a21, a22, a23, a24, a25, a30, a31, a32, a33, a34, a35, a40, a41, a42, a43, a44, a45, a50, a51, a52, a53, a54, a55⟩ :=
    m6_lit c11 c12 c13 0 0 0 c12 c11 c13 0 0 0 c13 c13 c33 0 0 0 0 0 0 c44 0 0 0 0 0 0 c44 0 0 0 0 0 0 ((c11 - c12) / 2)
  rw [ctor_hex_eq]
  unfold hexS
  obtain ⟨D, hDe⟩ : ∃ D, D = c33 * (c11 + c12) - 2 * c13 * c13 := ⟨_, rfl⟩
  have hD' : D ≠ 0 := hDe ▸ hD
  fin_cases a <;> fin_cases d <;>
    (simp only [Fin.sum_univ_six, Fin.zero_eta, Fin.mk_one, Fin.reduceFinMk, m6_lit, a00, a01, a02, a03, a04, a05, a10, a11, a12, a13, a14, a15, a20, a21, a22, a23, a24, a25, a30, a31, a32, a33, a34, a35, a40, a41, a42, a43, a44, a45, a50, a51, a52, a53, a54, a55, ← hDe] <;>
      simp <;> field_simp <;> (try (subst hDe; ring)))

theorem hexS_mul_hex (a d : Fin 6) :
    ∑ b, hexS c11 c12 c13 c33 c44 a b * m6 (ctor_C11_C12_C13_C33_C44 c11 c12 c13 c33 c44) b d
      = if a = d then 1 else 0 := by
  obtain ⟨a00, a01, a02, a03, a04, a05, a10, a11, a12, a13, a14, a15, a20, a21, a22, a23, a24, a25, a30, a31, a32, a33, a34, a35, a40, a41, a42, a43, a44, a45, a50, a51, a52, a53, a54, a55⟩ :=
    m6_lit c11 c12 c13 0 0 0 c12 c11 c13 0 0 0 c13 c13 c33 0 0 0 0 0 0 c44 0 0 0 0 0 0 c44 0 0 0 0 0 0 ((c11 - c12) / 2)
  rw [ctor_hex_eq]
  unfold hexS
  obtain ⟨D, hDe⟩ : ∃ D, D = c33 * (c11 + c12) - 2 * c13 * c13 := ⟨_, rfl⟩
  have hD' : D ≠ 0 := hDe ▸ hD
  fin_cases a <;> fin_cases d <;>
    (simp only [Fin.sum_univ_six, Fin.zero_eta, Fin.mk_one, Fin.reduceFinMk, m6_lit, a00, a01, a02, a03, a04, a05, a10, a11, a12, a13, a14, a15, a20, a21, a22, a23, a24, a25, a30, a31, a32, a33, a34, a35, a40, a41, a42, a43, a44, a45, a50, a51, a52, a53, a54, a55, ← hDe] <;>
      simp <;> (try field_simp) <;> (first | exact h1 | (subst hDe; ring) | skip))

/-- **the compliance of a hexagonal crystal is the closed form** (uniqueness of the inverse). -/
theorem hex_compliance_unique (s : M6 K)
    (hs : ∀ a d, ∑ b, m6 (ctor_C11_C12_C13_C33_C44 c11 c12 c13 c33 c44) a b * s b d = if a = d then 1 else 0) :
    s = hexS c11 c12 c13 c33 c44 :=
  (inverse_unique _ _ _ (hexS_mul_hex c11 c12 c13 c33 c44 h1 hD h4) hs).symm

/-- Voigt and Reuss bulk modulus of a hexagonal crystal in closed form. -/
theorem hex_bulk (h3 : c11 + c12 + 2 * c33 - 4 * c13 ≠ 0) :
    bulkVoigt (m6 (ctor_C11_C12_C13_C33_C44 c11 c12 c13 c33 c44)) = (2 * c11 + c33 + 2 * c12 + 4 * c13) / 9 ∧
    bulkReuss (hexS c11 c12 c13 c33 c44)
      = (c33 * (c11 + c12) - 2 * c13 * c13) / (c11 + c12 + 2 * c33 - 4 * c13) := by
  constructor
  · rw [ctor_hex_eq]
    simp only [bulkVoigt, m6_lit, Nat.cast_ofNat]
    ring
  · unfold hexS
    obtain ⟨D, hDe⟩ : ∃ D, D = c33 * (c11 + c12) - 2 * c13 * c13 := ⟨_, rfl⟩
    have hD' : D ≠ 0 := hDe ▸ hD
    simp only [bulkReuss, m6_lit, Nat.cast_ofNat, Nat.cast_one, ← hDe]
    have e : (c11 * c33 - c13 * c13) / ((c11 - c12) * D) + (c11 * c33 - c13 * c13) / ((c11 - c12) * D)
        + (c11 + c12) / D + 2 * (-(c12 * c33 - c13 * c13) / ((c11 - c12) * D) + -c13 / D + -c13 / D)
        = (c11 + c12 + 2 * c33 - 4 * c13) / D := by
      field_simp; subst hDe; ring
    rw [e, one_div_div]

end

/-- non-vacuity: `C11 = 10, C12 = 4, C13 = 3, C33 = 9, C44 = 2`. -/
example : (10 : ℚ) - 4 ≠ 0 ∧ (9 : ℚ) * (10 + 4) - 2 * 3 * 3 ≠ 0 ∧ (2 : ℚ) ≠ 0 ∧ (10 : ℚ) + 4 + 2 * 9 - 4 * 3 ≠ 0 := by norm_num

end Atomman.C11
