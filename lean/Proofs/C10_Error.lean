/-
  C10 — helper lemmas on values stored with an uncertainty (`uc.model(value, units, error=…)`, `uc.error_unit`).
-/
import Proofs.C10_Lemmas
namespace Atomman.C10
set_option linter.unusedSectionVars false
open Atomman
variable {K : Type} [Field K]

theorem valueUnit_skip_error (fac : String → K) (v ve : DM K) (rest : List (String × DM K)) :
    valueUnit fac (DM.node (("value", v) :: ("error", ve) :: rest)) = valueUnit fac (DM.node (("value", v) :: rest)) := by
  simp [valueUnit, DM.get?, unitOf?, List.lookup]

theorem errTerm_node (sh : List Nat) (units : Option String) (v ve : DM K) :
    errTerm (DM.node (("value", v) :: ("error", ve) :: (shapeEntry sh ++ unitEntry units)))
      = some (DM.node (("value", ve) :: (shapeEntry sh ++ unitEntry units))) := by
  rcases sh with _ | ⟨n, _ | ⟨m, r⟩⟩ <;> cases units <;>
    simp [errTerm, List.lookup, shapeEntry, unitEntry, List.filter]

/-- write value and error under `fac1`, read both under `fac2`. -/
theorem errorUnit_model_two_aux (fac1 fac2 : String → K) (units : Option String) (a : Arr K) (e : List K)
    (hw : a.data.length = prodNat a.shape) (he : e.length = prodNat a.shape) (hne : prodNat a.shape ≠ 0)
    (hs : ∀ l, a.data = Data.str l → units = none) :
    ∃ t, ucModelE fac1 units a e = some t ∧
      valueUnit fac2 t = some ⟨a.shape, a.data.rescale fac1 fac2 units⟩ ∧
      errorUnit fac2 t = some ⟨a.shape, .flt (e.map (scaleFn fac1 fac2 units))⟩ := by
  obtain ⟨dw, h1, h2, h5⟩ := writeData_applyUnit fac1 fac2 units a.data hs
  obtain ⟨de, g1, g2, g5⟩ := writeData_applyUnit fac1 fac2 units (.flt e) (by intro l h; cases h)
  obtain ⟨v, hv⟩ := valueNode_isSome a.shape dw (by rw [h2, hw])
  obtain ⟨ve, hve⟩ := valueNode_isSome a.shape de (by rw [g2]; simpa [Data.length] using he)
  refine ⟨DM.node (("value", v) :: ("error", ve) :: (shapeEntry a.shape ++ unitEntry units)),
    by simp only [ucModelE, h1, g1, hv, hve], ?_, ?_⟩
  · rw [valueUnit_skip_error]
    exact valueUnit_node fac2 a.shape units dw _ v (by rw [h2, hw]) (Or.inl (by rw [h2, hw]; exact hne)) hv h5
  · simp only [errorUnit, errTerm_node, Option.bind_some]
    have := valueUnit_node fac2 a.shape units de _ ve (by rw [g2]; simpa [Data.length] using he)
      (Or.inl (by rw [g2]; simpa [Data.length, he] using hne)) hve g5
    simpa [Data.rescale] using this
end Atomman.C10
