/-
  C05 — exactly when the clean-up of the `Box.vects` setter (`zeroSmall`) leaves a cell alone, and two cases in which the
  remaining clean-up hypotheses of the `hist_*` theorems (`hclean`, `hc2`) are discharged.
-/
import Proofs.C05_Hist

namespace Atomman.C05
open Atomman
set_option linter.unusedSimpArgs false
set_option linter.unusedSectionVars false
set_option linter.unusedVariables false

variable {K : Type} [Field K] [LinearOrder K] [IsStrictOrderedRing K]

/-- one entry: kept iff it is zero or larger than `tiny` times the largest component (`m ≥ 0` any number). -/
theorem zeroIfSmall_eq_self_iff (tiny m x : K) (hm : 0 ≤ m) (hx : |x| ≤ m) :
    zeroIfSmall tiny m x = x ↔ (x = 0 ∨ tiny * m < |x|) := by
  unfold zeroIfSmall
  rcases eq_or_lt_of_le hm with h0 | hpos
  · -- m = 0: then x = 0
    have : x = 0 := by
      have : |x| ≤ 0 := by rw [h0]; exact hx
      exact abs_eq_zero.mp (le_antisymm this (abs_nonneg x))
    subst this
    simp
  · have habs : absK (x / m) = |x| / m := by rw [absK_eq_abs, abs_div, abs_of_pos hpos]
    rw [habs]
    constructor
    · intro h
      by_cases hc : |x| / m ≤ tiny
      · rw [if_pos hc] at h; exact Or.inl h.symm
      · right
        have := not_le.mp hc
        rwa [lt_div_iff₀ hpos] at this
    · rintro (rfl | h)
      · simp
      · rw [if_neg]
        rw [not_le, lt_div_iff₀ hpos]; exact h

/-- **zeroSmall_eq_self_iff**: the setter's clean-up leaves a matrix exactly as it is IF AND ONLY IF every component is
    either exactly zero or larger in magnitude than `tiny` (the double `1e-9`) times the largest component — no hypothesis
    on `tiny` or on the matrix.  This is what the remaining hypotheses `hclean` (wrap that lengthens a non-periodic cell
    vector) and `hc2` (rebuilt cell of `normalize`) of the `hist_*` theorems say about the cell in question. -/
theorem zeroSmall_eq_self_iff (tiny : K) (v : M3 K) :
    zeroSmall tiny v = v ↔ ∀ x ∈ v.toList, x = 0 ∨ tiny * maxAbs v < |x| := by
  have hm := maxAbs_nonneg v
  have key : ∀ x ∈ v.toList, (zeroIfSmall tiny (maxAbs v) x = x ↔ (x = 0 ∨ tiny * maxAbs v < |x|)) :=
    fun x hx => zeroIfSmall_eq_self_iff tiny (maxAbs v) x hm (abs_le_maxAbs v x hx)
  constructor
  · intro h x hx
    apply (key x hx).mp
    have e : (zeroSmall tiny v).toList = v.toList := by rw [h]
    rw [zeroSmall_toList] at e
    -- entrywise
    have : ∀ l : List K, l.map (zeroIfSmall tiny (maxAbs v)) = l → ∀ y ∈ l, zeroIfSmall tiny (maxAbs v) y = y := by
      intro l
      induction l with
      | nil => intro _ y hy; cases hy
      | cons a t ih =>
        intro hl y hy
        simp only [List.map_cons, List.cons.injEq] at hl
        rcases List.mem_cons.mp hy with rfl | hy
        · exact hl.1
        · exact ih hl.2 y hy
    exact this _ e x hx
  · intro h
    have z : ∀ x ∈ v.toList, zeroIfSmall tiny (maxAbs v) x = x := fun x hx => (key x hx).mpr (h x hx)
    simp only [M3.toList, V3.toList, List.cons_append, List.nil_append, List.mem_cons, List.mem_nil_iff, or_false] at z
    unfold zeroSmall
    ext <;> simp only [] <;> apply z <;> simp

/-- the same for a LAMMPS-oriented cell (what `normalize` rebuilds: `hc2`), in its six parameters: the three edge
    lengths along the axes must exceed `tiny` times the largest component and every tilt factor must be exactly zero or
    exceed it in magnitude. -/
theorem clean_lammps_iff (tiny lx ly lz xy xz yz : K) :
    zeroSmall tiny (⟨⟨lx, 0, 0⟩, ⟨xy, ly, 0⟩, ⟨xz, yz, lz⟩⟩ : M3 K) = ⟨⟨lx, 0, 0⟩, ⟨xy, ly, 0⟩, ⟨xz, yz, lz⟩⟩ ↔
      ∀ x ∈ [lx, ly, lz, xy, xz, yz],
        x = 0 ∨ tiny * maxAbs (⟨⟨lx, 0, 0⟩, ⟨xy, ly, 0⟩, ⟨xz, yz, lz⟩⟩ : M3 K) < |x| := by
  rw [zeroSmall_eq_self_iff]
  generalize maxAbs (⟨⟨lx, 0, 0⟩, ⟨xy, ly, 0⟩, ⟨xz, yz, lz⟩⟩ : M3 K) = m
  constructor
  · intro h x hx
    apply h
    simp only [List.mem_cons, List.mem_nil_iff, or_false] at hx
    simp only [M3.toList, V3.toList, List.cons_append, List.nil_append, List.mem_cons, List.mem_nil_iff, or_false]
    rcases hx with rfl | rfl | rfl | rfl | rfl | rfl <;> simp
  · intro h x hx
    simp only [M3.toList, V3.toList, List.cons_append, List.nil_append, List.mem_cons, List.mem_nil_iff, or_false] at hx
    rcases hx with rfl | rfl | rfl | rfl | rfl | rfl | rfl | rfl | rfl
    · exact h _ (by simp)
    · exact Or.inl rfl
    · exact Or.inl rfl
    · exact h _ (by simp)
    · exact h _ (by simp)
    · exact Or.inl rfl
    · exact h _ (by simp)
    · exact h _ (by simp)
    · exact h _ (by simp)

/-- the largest component of a cell whose rows are stretched by factors between 0 and `kmax`. -/
theorem maxAbs_scaled_le (v : M3 K) (kx ky kz kmax : K) (h0x : 0 ≤ kx) (h0y : 0 ≤ ky) (h0z : 0 ≤ kz)
    (hx : kx ≤ kmax) (hy : ky ≤ kmax) (hz : kz ≤ kmax) :
    maxAbs (⟨V3.smul kx v.r0, V3.smul ky v.r1, V3.smul kz v.r2⟩ : M3 K) ≤ kmax * maxAbs v := by
  have hk : 0 ≤ kmax := le_trans h0x hx
  have hm := maxAbs_nonneg v
  have e : ∀ (k x : K), 0 ≤ k → k ≤ kmax → x ∈ v.toList → absK (k * x) ≤ kmax * maxAbs v := by
    intro k x h0 hk' hmem
    rw [absK_eq_abs, abs_mul, abs_of_nonneg h0]
    exact mul_le_mul hk' (abs_le_maxAbs v x hmem) (abs_nonneg x) hk
  unfold maxAbs
  apply maxOf_le _ _ _ (mul_nonneg hk hm)
  intro y hy
  simp only [M3.toList, V3.toList, V3.smul, List.cons_append, List.nil_append, List.map_cons, List.map_nil,
    List.mem_cons, List.mem_nil_iff, or_false] at hy
  rcases hy with rfl | rfl | rfl | rfl | rfl | rfl | rfl | rfl | rfl
  · exact e kx _ h0x hx (by simp [M3.toList, V3.toList])
  · exact e kx _ h0x hx (by simp [M3.toList, V3.toList])
  · exact e kx _ h0x hx (by simp [M3.toList, V3.toList])
  · exact e ky _ h0y hy (by simp [M3.toList, V3.toList])
  · exact e ky _ h0y hy (by simp [M3.toList, V3.toList])
  · exact e ky _ h0y hy (by simp [M3.toList, V3.toList])
  · exact e kz _ h0z hz (by simp [M3.toList, V3.toList])
  · exact e kz _ h0z hz (by simp [M3.toList, V3.toList])
  · exact e kz _ h0z hz (by simp [M3.toList, V3.toList])

/-- **zeroSmall_stretched**: a cell whose non-zero components all exceed `tiny · kmax` times its largest component stays
    untouched by the clean-up when its rows are lengthened by factors in `[1, kmax]` (what `wrap` does to the cell vectors
    of non-periodic directions: `wrap_periodic_axes_fixed`). -/
theorem zeroSmall_stretched (tiny : K) (ht : 0 ≤ tiny) (v : M3 K) (kx ky kz kmax : K)
    (h1x : 1 ≤ kx) (h1y : 1 ≤ ky) (h1z : 1 ≤ kz) (hx : kx ≤ kmax) (hy : ky ≤ kmax) (hz : kz ≤ kmax)
    (hmargin : ∀ x ∈ v.toList, x = 0 ∨ tiny * kmax * maxAbs v < |x|) :
    zeroSmall tiny (⟨V3.smul kx v.r0, V3.smul ky v.r1, V3.smul kz v.r2⟩ : M3 K)
      = ⟨V3.smul kx v.r0, V3.smul ky v.r1, V3.smul kz v.r2⟩ := by
  rw [zeroSmall_eq_self_iff]
  have hle := maxAbs_scaled_le v kx ky kz kmax (le_trans zero_le_one h1x) (le_trans zero_le_one h1y)
    (le_trans zero_le_one h1z) hx hy hz
  have e : ∀ (k x : K), 1 ≤ k → x ∈ v.toList →
      k * x = 0 ∨ tiny * maxAbs (⟨V3.smul kx v.r0, V3.smul ky v.r1, V3.smul kz v.r2⟩ : M3 K) < |k * x| := by
    intro k x hk hmem
    rcases hmargin x hmem with rfl | h
    · left; ring
    · right
      have h0 : 0 ≤ k := le_trans zero_le_one hk
      calc tiny * maxAbs (⟨V3.smul kx v.r0, V3.smul ky v.r1, V3.smul kz v.r2⟩ : M3 K)
          ≤ tiny * (kmax * maxAbs v) := mul_le_mul_of_nonneg_left hle ht
        _ = tiny * kmax * maxAbs v := by ring
        _ < |x| := h
        _ ≤ |k * x| := by
            rw [abs_mul, abs_of_nonneg h0]
            calc |x| = 1 * |x| := by ring
              _ ≤ k * |x| := mul_le_mul_of_nonneg_right hk (abs_nonneg x)
  intro y hy
  simp only [M3.toList, V3.toList, V3.smul, List.cons_append, List.nil_append,
    List.mem_cons, List.mem_nil_iff, or_false] at hy
  rcases hy with rfl | rfl | rfl | rfl | rfl | rfl | rfl | rfl | rfl
  · exact e kx _ h1x (by simp [M3.toList, V3.toList])
  · exact e kx _ h1x (by simp [M3.toList, V3.toList])
  · exact e kx _ h1x (by simp [M3.toList, V3.toList])
  · exact e ky _ h1y (by simp [M3.toList, V3.toList])
  · exact e ky _ h1y (by simp [M3.toList, V3.toList])
  · exact e ky _ h1y (by simp [M3.toList, V3.toList])
  · exact e kz _ h1z (by simp [M3.toList, V3.toList])
  · exact e kz _ h1z (by simp [M3.toList, V3.toList])
  · exact e kz _ h1z (by simp [M3.toList, V3.toList])

-- instances: the iff on a cell with a component exactly at / above the threshold; a stretched cell
example : zeroSmall (1/1000000000 : ℚ) ⟨⟨1, 0, 0⟩, ⟨2/1000000000, 1, 0⟩, ⟨0, 0, 1⟩⟩ = ⟨⟨1, 0, 0⟩, ⟨2/1000000000, 1, 0⟩, ⟨0, 0, 1⟩⟩ := by
  rw [zeroSmall_eq_self_iff]; decide +kernel
example : ¬ (zeroSmall (1/1000000000 : ℚ) ⟨⟨1, 0, 0⟩, ⟨1/1000000000, 1, 0⟩, ⟨0, 0, 1⟩⟩ = ⟨⟨1, 0, 0⟩, ⟨1/1000000000, 1, 0⟩, ⟨0, 0, 1⟩⟩) := by
  rw [zeroSmall_eq_self_iff]; decide +kernel
example : ∀ x ∈ (⟨⟨3, 0, 0⟩, ⟨1/1000, 4, 0⟩, ⟨0, 0, 5⟩⟩ : M3 ℚ).toList,
    x = 0 ∨ (1/1000000000 : ℚ) * 1000 * maxAbs (⟨⟨3, 0, 0⟩, ⟨1/1000, 4, 0⟩, ⟨0, 0, 5⟩⟩ : M3 ℚ) < |x| := by decide +kernel

end Atomman.C05
