/-
  C07 — property theorems: written LAMMPS data / dump and POSCAR files are well-formed and describe the system.
  Model: Atomman/C07.lean (writers, independent parsers), tables: Atomman/Generated/AtomStyles.lean (regenerated
  from /repo on every run).
-/
import Proofs.C07_Inside
import Proofs.C07_Poscar
import Proofs.C07_Bounds
import Proofs.C07_Hybrid
import Proofs.C07_Index
import Proofs.C07_Source
namespace Atomman.C07
open Atomman
set_option linter.unusedSimpArgs false

/-! ## printing and reading numbers -/

/-- **fmtFixed_error**: what an independent reader gets from the printed text differs from the exact value by at
    most half a unit of the last printed place. -/
theorem fmtFixed_error (q : ℚ) (n : Nat) :
    ∃ v, parseNum? (fmtFixed q n) = some v ∧ |v - q| ≤ 1 / (2 * 10 ^ n) :=
  ⟨fixedVal q n, parseNum_fmtFixed q n, fixedVal_error q n⟩

example : parseNum? (fmtFixed (5 / 2) 0) = some 2 := by decide +kernel
example : fmtFixed (-1 / 8) 2 = cs!"-0.12" := by decide +kernel


/-! ## reading back `%.ne` -/

/-- **fmtExp_error**: what an independent reader gets from the text of `'%.ne' % q` differs from `q` by at most half a
    unit of the last printed digit (`e = ⌊log₁₀|q|⌋`, see `expOf_spec`). -/
theorem fmtExp_error (q : ℚ) (n : Nat) (hq : q ≠ 0) :
    ∃ v, parseNum? (fmtExp q n) = some v ∧ |v - q| ≤ 1 / 2 * pow10 (expOf |q| - (n : Int)) ∧
      pow10 (expOf |q|) ≤ |q| ∧ |q| < pow10 (expOf |q| + 1) :=
  ⟨expVal q n, parseNum_fmtExp q n, expVal_error q n hq, expOf_spec |q| (abs_pos.mpr hq)⟩

example : parseNum? (fmtExp (-1234567 / 1000) 3) = some (-1235) := by
  rw [parseNum_fmtExp]; decide +kernel
example : fmtExp (1 / 8) 2 = cs!"1.25e-01" := by decide +kernel

/-! ## whole files: independent parser ∘ writer -/

def isOk {α : Type} (r : Res α) : Bool := match r with | .ok _ => true | .error _ => false

/-- a small triclinic system with one atom outside the cell (used for the non-vacuity examples). -/
def exSys : Sys :=
  { box := ⟨⟨⟨4, 0, 0⟩, ⟨1, 3, 0⟩, ⟨0, 0, 5⟩⟩, ⟨-1, 0, 0⟩⟩, pbc := ⟨true, true, false⟩, natypes := 2,
    atype := [1, 2], pos := [⟨0, 0, 0⟩, ⟨9/2, 1, 6⟩], props := [] }
def exUnits : Units := [("length", some 1)]
def exCols : List ColSpec := [⟨"a_id", ["id"], .none⟩, ⟨"atype", ["type"], .none⟩, ⟨"pos", ["x", "y", "z"], .kind "length"⟩]
def exProps : List (String × List Nat) := [("atom_id", []), ("atype", []), ("pos", [3])]

/-- **table_parse_write**: for every system and column list, a reader that splits the written table at blanks and
    reads every field as a decimal number gets one row per atom holding exactly the written cells (each number at
    its printed precision, `Cell.val`), the header line naming the columns, and every row has as many fields as
    there are column names.  Hypotheses: the column names are single words and the id/type columns have one name. -/
theorem table_parse_write (s : Sys) (cols : List ColSpec) (u : Units) (f : Fmt) (header : Bool)
    (text : List Char) (h : writeTable s cols u f header = .ok text) (hn : NamesOk cols) (hid : IdNamesOk cols) :
    ∃ rows, tableRows s u (seqIds s.natoms) s.pos cols [] = .ok rows ∧ rows.length = s.natoms ∧
      (∀ r ∈ rows, r.length = (nameLine cols).length) ∧
      parseTable text header = some { columns := if header then some (nameLine cols) else none,
                                      rows := rows.map (·.map (Cell.val f)) } := by
  obtain ⟨rows, hr, hp⟩ := parseTable_writeTable s cols u f header text h hn hid
  exact ⟨rows, hr, (tableRows_spec _ _ _ _ _ _ _ hr).1, row_length _ _ _ _ _ hid rows hr, hp⟩

example : isOk (writeTable exSys exCols exUnits (.fixed 3) true) = true ∧ NamesOk exCols ∧ IdNamesOk exCols := by
  refine ⟨by decide +kernel, ?_, ?_⟩
  · intro c hc n hn
    simp only [exCols, List.mem_cons, List.not_mem_nil, or_false] at hc
    rcases hc with rfl | rfl | rfl <;> simp at hn <;> (try rcases hn with rfl | rfl | rfl) <;> decide
  · intro c hc
    simp only [exCols, List.mem_cons, List.not_mem_nil, or_false] at hc
    rcases hc with rfl | rfl | rfl <;> simp

/-- **dump_parse_write**: for every system, the independent `dump custom` reader applied to the written text returns
    the time step, the atom count of the header = the number of atoms = the number of rows, the `pp`/`fm` flags of
    the three directions in order, the LAMMPS bounding box `lo + MIN(0, xy, xz, xy+xz)` … (`dump_bbox_corners`) and
    the tilts at printed precision, from which `hiLoOfBBox` rebuilds `xlo … zhi` (`dump_bbox`), the `xy xz yz`
    keyword exactly for a tilted cell, the column names, and per atom exactly the written cells; ids are unique. -/
theorem dump_parse_write (s : Sys) (props : List (String × List Nat)) (u : Units) (f : Fmt) (ts : Int)
    (text : List Char) (h : writeDump s props u f ts = .ok text)
    (hn : NamesOk (props.map fun p => dumpCol p.1 p.2)) (hid : IdNamesOk (props.map fun p => dumpCol p.1 p.2)) :
    ∃ lf rows, s.box.isLammpsNorm = true ∧ lengthFactor u = .ok lf ∧ hasDup (dumpIds s) = false ∧
      tableRows s u (dumpIds s) s.pos (props.map fun p => dumpCol p.1 p.2) [] = .ok rows ∧
      rows.length = s.natoms ∧
      parseDump text =
        some { timestep := ts, natoms := s.natoms,
               triclinic := !decide (orthoH ((hiLoOf s.box).map (divBy lf))),
               boundary := [bflagD s.pbc.x, bflagD s.pbc.y, bflagD s.pbc.z],
               bbox := (bboxOf ((hiLoOf s.box).map (divBy lf))).map (fmtVal f),
               hilo := hiLoOfBBox ((bboxOf ((hiLoOf s.box).map (divBy lf))).map (fmtVal f))
                 (fmtVal f ((hiLoOf s.box).map (divBy lf)).xy) (fmtVal f ((hiLoOf s.box).map (divBy lf)).xz)
                 (fmtVal f ((hiLoOf s.box).map (divBy lf)).yz),
               columns := nameLine (props.map fun p => dumpCol p.1 p.2),
               rows := rows.map (·.map (Cell.val f)) } := by
  obtain ⟨lf, rows, h1, h2, h3, h4, h5⟩ := parseDump_writeDump s props u f ts text h hn hid
  exact ⟨lf, rows, h1, h2, h3, h4, (tableRows_spec _ _ _ _ _ _ _ h4).1, h5⟩

example : isOk (writeDump ({ exSys with pos := [⟨0, 0, 0⟩, ⟨1, 1, 1⟩] }) exProps exUnits (.exp 5) 7) = true := by
  decide +kernel

/-- **step_of_whole_number** (fourth round): a whole number is the step it is, whatever carries it — an integer
    type or a real number (`50.0 / 0.002`, a numpy float, a 0-d array); a system without a time step is at step 0. -/
theorem step_of_whole_number (i : Int) :
    (StepVal.int i).step = i ∧ (StepVal.real (i : Rat)).step = i ∧ StepVal.absent.step = 0 ∧ StepVal.none.step = 0 := by
  refine ⟨rfl, ?_, rfl, rfl⟩
  simp only [StepVal.step, truncRat]
  split
  · exact Rat.floor_intCast i
  · have h : (-(i : Rat)) = ((-i : Int) : Rat) := by push_cast; rfl
    rw [h, Rat.floor_intCast]; omega

/-- **dump_timestep_line**: the `ITEM: TIMESTEP` value the independent reader finds in the file written for a system
    holding `sv` is `sv.step` — with `step_of_whole_number`: 25000 for 25000, 25000.0, `np.float64(25000)`. -/
theorem dump_timestep_line (s : Sys) (props : List (String × List Nat)) (u : Units) (f : Fmt) (sv : StepVal)
    (text : List Char) (h : writeDumpStep s props u f sv = .ok text)
    (hn : NamesOk (props.map fun p => dumpCol p.1 p.2)) (hid : IdNamesOk (props.map fun p => dumpCol p.1 p.2)) :
    (parseDump text).map (·.timestep) = some sv.step := by
  obtain ⟨lf, rows, _, _, _, _, _, h5⟩ := dump_parse_write s props u f sv.step text h hn hid
  rw [h5]; rfl

example : isOk (writeDumpStep ({ exSys with pos := [⟨0, 0, 0⟩, ⟨1, 1, 1⟩] }) exProps exUnits (.exp 5) (.real 25000)) = true ∧
    (StepVal.real 25000).step = 25000 ∧ (StepVal.real (5 / 2)).step = 2 ∧ (StepVal.real (-5 / 2)).step = -2 := by
  decide +kernel

/-- **poscar_parse_write**: for every system with valid atom types, the independent POSCAR reader applied to the
    written text returns the comment line, the scale factor, the lattice rows multiplied by it, the symbols line,
    the per-type counts, the coordinate mode and the coordinate rows grouped by type, every number at its printed
    precision; the positions it reconstructs are `scale · row` in Cartesian mode and `row · lattice` in direct
    mode (with `poscar_scale`: the cell and the positions of the system).  A file is written only for a positive
    scale factor (a negative one is, by the format's rules, the cell volume and not a multiplier).  Hypotheses on
    the strings: see `PoscarStringsOk`; the printed scale factor is positive. -/
theorem poscar_parse_write (s : Sys) (header : List String) (symbols : Option (List String)) (coordstyle : String)
    (scale : ℚ) (f : Fmt) (text : List Char) (h : writePoscar s header symbols coordstyle scale f = .ok text)
    (hs : PoscarStringsOk header symbols coordstyle) (hscale : 0 < fmtVal f scale)
    (hlen : s.atype.length = s.pos.length) (hty : ∀ t ∈ s.atype, 1 ≤ t ∧ t ≤ (s.natypes : Int)) :
    let p := poscarNums s (isCartTok (strTok coordstyle)) scale
    0 < scale ∧ s.natoms ≠ 0 ∧ (∀ l, symbols = some l → l.length = s.natypes) ∧
    p.coords.length = s.natoms ∧ p.counts.foldl (· + ·) 0 = s.natoms ∧
    parsePoscar text = some (poscarExpected f header symbols coordstyle scale p) := by
  intro p
  obtain ⟨h1, h2, h3, h4⟩ := parsePoscar_writePoscar s header symbols coordstyle scale f text h hs hscale hlen hty
  obtain ⟨_, c2, c3⟩ := poscarNums_counts s (isCartTok (strTok coordstyle)) scale h2 hlen hty
  exact ⟨h1, h2, h3, c3, by rw [c2, c3], h4⟩

example : isOk (writePoscar exSys ["test"] (some ["Al", "Cu"]) "Cartesian" 2 (.exp 5)) = true ∧
    PoscarStringsOk ["test"] (some ["Al", "Cu"]) "Cartesian" ∧ 0 < fmtVal (.exp 5) 2 ∧
    exSys.atype.length = exSys.pos.length ∧ (∀ t ∈ exSys.atype, 1 ≤ t ∧ t ≤ (exSys.natypes : Int)) := by
  refine ⟨by decide +kernel, ⟨by decide, by decide, ?_, ?_⟩, by decide +kernel, rfl, by decide⟩
  · intro c r hcr
    have : ("Cartesian" : String).toList = 'C' :: "artesian".toList := rfl
    rw [this] at hcr; injection hcr with h1 _; subst h1; decide
  · intro l hl; injection hl with hl; subst hl
    exact ⟨by decide, "Al", ["Cu"], rfl, by decide⟩

/-- **poscar_symbols_match_counts**: the file an independent POSCAR reader gets back has one per-type count for
    every atom type of the system, and whenever a symbols line is written it names exactly as many species as
    the counts line has entries (a type no atom has is counted with `0`, in the middle or at the end). -/
theorem poscar_symbols_match_counts (s : Sys) (header : List String) (symbols : Option (List String))
    (coordstyle : String) (scale : ℚ) (f : Fmt) (text : List Char)
    (h : writePoscar s header symbols coordstyle scale f = .ok text)
    (hs : PoscarStringsOk header symbols coordstyle) (hscale : 0 < fmtVal f scale)
    (hlen : s.atype.length = s.pos.length) (hty : ∀ t ∈ s.atype, 1 ≤ t ∧ t ≤ (s.natypes : Int)) :
    ∃ p, parsePoscar text = some p ∧ p.counts.length = s.natypes ∧
      (∀ i, i < s.natypes → p.counts[i]? = some (countType s.atype ((i : Int) + 1))) ∧
      (∀ l, p.symbols = some l → l.length = p.counts.length) := by
  obtain ⟨_, _, h3, h4⟩ := parsePoscar_writePoscar s header symbols coordstyle scale f text h hs hscale hlen hty
  refine ⟨_, h4, ?_, ?_, ?_⟩
  · simp [poscarExpected, poscarNums]
  · intro i hi
    simp [poscarExpected, poscarNums, hi]
  · intro l hl
    simp only [poscarExpected, Option.map_eq_some_iff] at hl
    obtain ⟨l0, hl0, rfl⟩ := hl
    simp [poscarExpected, poscarNums, h3 l0 hl0]

/-- **data_parse_write**: for every system, every atom_style the writer accepts (hybrids included) and every unit
    style, the independent `read_data` reader — which knows only the LAMMPS manual's line layout of that style —
    applied to the written text returns: the header counts = the system's; the bounds = the wrapped box divided by
    the length unit, at printed precision; the `Atoms # style` hint; one record per atom, in order, with id `k+1`,
    the atom's type, the wrapped position divided by the length unit at printed precision, the image flags `wrap`
    returned (so `unwrapPos` rebuilds the original position, C05 `wrap_reconstruct`), and every other field of the
    line = the written cell of the matching column (`layoutOf … = colsLayout cols`: the field-for-field
    correspondence of names and unit kinds); and a `Velocities` section iff the system has velocities, one record per
    atom with id `k+1`.  Hypothesis: integer LAMMPS fields are stored as integer properties (`IntTyped`). -/
theorem data_parse_write (s : Sys) (style : String) (u : Units) (f : Fmt) (text : List Char)
    (h : writeData s style u f = .ok text) (hs : IntTyped s) :
    ∃ p w lf cols L pd, dataParts s style u = .ok (p, w) ∧ w = wrap s.box s.pbc s.pos ∧ w.box.isLammpsNorm = true ∧
      lengthFactor u = .ok lf ∧ atomCols style = some cols ∧ layoutOf lammpsAtomLayout style = some L ∧
      colsLayout cols = some L ∧ text = renderLines (dataDocOf f style p) ∧
      parseData text style = some pd ∧
      pd.natoms = s.natoms ∧ pd.ntypes = s.natypes ∧
      pd.hilo = ((hiLoOf w.box).map (divBy lf)).map (fmtVal f) ∧
      pd.styleHint = (styleWords style).map strTok ∧
      pd.atoms.length = s.natoms ∧ (∀ k (hk : k < pd.atoms.length), AtomOk f s u w lf cols k pd.atoms[k]) ∧
      (((s.prop? "velocity").isSome = false ∧ pd.velocities = none) ∨
       ((s.prop? "velocity").isSome = true ∧ ∃ vc vrecs, velCols style = some vc ∧ pd.velocities = some vrecs ∧
          vrecs.length = s.natoms ∧ ∀ k (hk : k < vrecs.length), VelOk f s u w vc k vrecs[k])) :=
  parseData_writeData s style u f text h hs

theorem styleWords_atomic : styleWords "atomic" = ["atomic"] := by
  simp [styleWords, String.splitOn]
  repeat (rw [String.splitOnAux]; simp (config := {decide := true}))

example : isOk (writeData exSys "atomic" exUnits (.fixed 3)) = true ∧ IntTyped exSys := by
  constructor
  · unfold writeData writeDataDoc dataParts atomCols velCols styleCols dataDocOf
    simp only [styleWords_atomic]
    decide +kernel
  · intro col hcol; simp [exSys] at hcol

/-- **data_wellformed**: for every written data file, as read by the independent reader:
    the header counts match the sections; the ids of the `Atoms` (and `Velocities`) lines are exactly `1..N` in
    order, hence unique; every type is the atom's type; the exact bounds satisfy `lo < hi` and the printed ones do
    for `%.nf` whenever the extent exceeds one unit of the last printed place; every written atom position lies
    inside the box a LAMMPS run builds from the written bounds (C05 `wrap_inside`; stated for the numbers the file
    prints before rounding — each printed number is within half a unit of the last place of them); and a line with the
    `xy xz yz` keywords is present iff a tilt is non-zero.  `hu`: the length unit is positive. -/
theorem data_wellformed (s : Sys) (style : String) (u : Units) (f : Fmt) (text : List Char)
    (h : writeData s style u f = .ok text) (hs : IntTyped s)
    (hu : ∀ c, u.factor? "length" = some (some c) → 0 < c) :
    ∃ p w lf pd, dataParts s style u = .ok (p, w) ∧ lengthFactor u = .ok lf ∧ w = wrap s.box s.pbc s.pos ∧
      text = renderLines (dataDocOf f style p) ∧ parseData text style = some pd ∧
      -- counts
      pd.natoms = s.natoms ∧ pd.atoms.length = pd.natoms ∧ (∀ v, pd.velocities = some v → v.length = pd.natoms) ∧
      -- ids 1..N, types
      (∀ k (hk : k < pd.atoms.length), pd.atoms[k].id = (k : Int) + 1 ∧ s.atype[k]? = some pd.atoms[k].type) ∧
      (∀ v, pd.velocities = some v → ∀ k (hk : k < v.length), v[k].id = (k : Int) + 1) ∧
      hasDup (pd.atoms.map (·.id)) = false ∧
      -- bounds
      (let hx := (hiLoOf w.box).map (divBy lf)
       p.hilo = hx ∧ pd.hilo = hx.map (fmtVal f) ∧ hx.xlo < hx.xhi ∧ hx.ylo < hx.yhi ∧ hx.zlo < hx.zhi ∧
       (∀ n, f = .fixed n →
          (1 / 10 ^ n < hx.xhi - hx.xlo → pd.hilo.xlo < pd.hilo.xhi) ∧
          (1 / 10 ^ n < hx.yhi - hx.ylo → pd.hilo.ylo < pd.hilo.yhi) ∧
          (1 / 10 ^ n < hx.zhi - hx.zlo → pd.hilo.zlo < pd.hilo.zhi)) ∧
       -- every atom inside the written bounds
       (∀ q ∈ w.pos, C05.insideRel ((boxOfHiLo hx).cartToRel (v3map (divBy lf) q))) ∧
       (∀ k (hk : k < pd.atoms.length), ∃ q, w.pos[k]? = some q ∧
          pd.atoms[k].pos = v3map (fmtVal f) (v3map (divBy lf) q))) ∧
      -- tilt line
      ((∃ l ∈ dataDocOf f style p, l.getLast? = some (cs!"yz")) ↔ tilted p.hilo) := by
  obtain ⟨p, w, lf, cols, L, pd, hd, hw, hnorm, hlf, hcols, hL, hcL, htext, hparse, hna, hnt, hhilo, hhint, halen,
    hatoms, hvel⟩ := parseData_writeData s style u f text h hs
  have hlfpos : ∀ c, lf = some c → 0 < c := by
    intro c hc
    apply hu c
    unfold lengthFactor at hlf
    cases hf : u.factor? "length" with
    | none => rw [hf] at hlf; cases hlf
    | some x =>
      rw [hf] at hlf
      simp only [pure, Except.pure, Except.ok.injEq] at hlf
      rw [hlf, hc]
  obtain ⟨_, _, lf', _, hlf', _, _, _, hphilo, _, _⟩ := dataParts_ok s style u p w hd
  have hlfe : lf' = lf := by rw [hlf] at hlf'; injection hlf' with e; exact e.symm
  rw [hlfe] at hphilo
  have hids : ∀ k (hk : k < pd.atoms.length), pd.atoms[k].id = (k : Int) + 1 := fun k hk => (hatoms k hk).id
  refine ⟨p, w, lf, pd, hd, hlf, hw, htext, hparse, hna, by rw [halen, hna], ?_, ?_, ?_, ?_, ?_, ?_⟩
  · intro v hv
    rcases hvel with ⟨_, h0⟩ | ⟨_, vc, vrecs, _, h1, h2, _⟩
    · rw [h0] at hv; cases hv
    · rw [h1] at hv; injection hv with hv; subst hv; rw [h2, hna]
  · intro k hk
    exact ⟨(hatoms k hk).id, (hatoms k hk).type⟩
  · intro v hv k hk
    rcases hvel with ⟨_, h0⟩ | ⟨_, vc, vrecs, _, h1, _, h3⟩
    · rw [h0] at hv; cases hv
    · rw [h1] at hv; injection hv with hv; subst hv; exact (h3 k hk).id
  · -- ids k+1 are pairwise different
    have hmap : pd.atoms.map (·.id) = seqIds pd.atoms.length := by
      apply List.ext_getElem
      · simp [seqIds]
      · intro k h1 h2
        simp only [List.getElem_map, seqIds, List.getElem_range]
        exact hids k (by simpa using h1)
    rw [hmap]
    have : ∀ n, hasDup (seqIds n) = false := by
      intro n
      induction n with
      | zero => rfl
      | succ n ih =>
        have e : seqIds (n + 1) = seqIds n ++ [(n : Int) + 1] := by simp [seqIds, List.range_succ]
        have happ : ∀ (a : List Int) (x : Int), hasDup a = false → x ∉ a → hasDup (a ++ [x]) = false := by
          intro a x
          induction a with
          | nil => intro _ _; rfl
          | cons y ys ih2 =>
            intro h1 h2
            simp only [hasDup, Bool.or_eq_false_iff, List.cons_append] at h1 ⊢
            simp only [List.mem_cons, not_or] at h2
            refine ⟨?_, ih2 h1.2 h2.2⟩
            simp only [List.contains_eq_mem, List.mem_append, List.mem_cons, List.not_mem_nil, or_false,
              decide_eq_false_iff_not, not_or]
            have := h1.1
            simp only [List.contains_eq_mem, decide_eq_false_iff_not] at this
            exact ⟨this, fun e => h2.1 e.symm⟩
        rw [e]
        apply happ _ _ ih
        simp only [seqIds, List.mem_map, List.mem_range, not_exists, not_and]
        intro k hk e; omega
    exact this _
  · have hll := hilo_lo_lt_hi w.box hnorm lf hlfpos
    simp only at hll ⊢
    refine ⟨hphilo, hhilo, hll.1, hll.2.1, hll.2.2, ?_, ?_, ?_⟩
    · intro n hn
      subst hn
      rw [hhilo]
      exact ⟨fun hx => fixedVal_lt _ _ n hx, fun hx => fixedVal_lt _ _ n hx, fun hx => fixedVal_lt _ _ n hx⟩
    · intro q hq
      subst hw
      exact data_atoms_inside s lf (fun c hc => ne_of_gt (hlfpos c hc)) hnorm q hq
    · intro k hk
      exact (hatoms k hk).pos
  · exact tilt_line_iff f style cols hcols p

/-- **data_unwrap_positions**: for every written data file, applying the written image flags with the cell vectors a
    LAMMPS run builds from the written header (`x + ix·a + iy·b + iz·c`) to the written position gives the atom's
    original position in the length unit of the unit style — stated for the exact numbers the file prints (each printed
    number is within half a unit of its last place of them, `data_parse_write`). -/
theorem data_unwrap_positions (s : Sys) (style : String) (u : Units) (f : Fmt) (text : List Char)
    (h : writeData s style u f = .ok text) (hu : ∀ c, u.factor? "length" = some (some c) → c ≠ 0) :
    ∃ lf, lengthFactor u = .ok lf ∧ ∀ k (hk : k < s.pos.length),
      ∃ q fl, (wrap s.box s.pbc s.pos).pos[k]? = some q ∧ (wrap s.box s.pbc s.pos).flags[k]? = some fl ∧
        unwrapPos ((hiLoOf (wrap s.box s.pbc s.pos).box).map (divBy lf)) (v3map (divBy lf) q) fl
          = v3map (divBy lf) s.pos[k] := by
  unfold writeData writeDataDoc at h
  cases hd : dataParts s style u with
  | error e => rw [hd] at h; cases h
  | ok pw =>
    obtain ⟨p, w⟩ := pw
    obtain ⟨hw, hnorm, lf, _, hlf, _⟩ := dataParts_ok s style u p w hd
    subst hw
    refine ⟨lf, hlf, fun k hk => data_unwrap s lf ?_ hnorm k hk⟩
    intro c hc
    apply hu c
    unfold lengthFactor at hlf
    cases hf : u.factor? "length" with
    | none => rw [hf] at hlf; cases hlf
    | some x =>
      rw [hf] at hlf
      simp only [pure, Except.pure, Except.ok.injEq] at hlf
      rw [hlf, hc]

example : ∀ c, exUnits.factor? "length" = some (some c) → c ≠ 0 := by
  intro c hc
  have : exUnits.factor? "length" = some (some 1) := by decide +kernel
  rw [this] at hc; injection hc with hc; injection hc with hc; subst hc; norm_num

/-! ## LAMMPS bounding box of a triclinic cell (dump manual page) -/

/-- **dump_bbox** (inverse): removing the tilt extents from the written bounding box gives back `xlo … zhi`. -/
theorem dump_bbox (h : HiLo) : hiLoOfBBox (bboxOf h) h.xy h.xz h.yz = h := by
  cases h
  simp only [hiLoOfBBox, bboxOf, HiLo.mk.injEq]
  refine ⟨?_, ?_, ?_, ?_, ?_⟩ <;> simp

/-- the written bounds are the LAMMPS formulas `xlo + MIN(0,xy,xz,xy+xz)` …: they bound the x (resp. y)
    coordinate of every corner `origin + a·A + b·B + c·C`, `a,b,c ∈ {0,1}`, and are attained. -/
theorem dump_bbox_corners (h : HiLo) (b c : ℚ) (hb : b = 0 ∨ b = 1) (hc : c = 0 ∨ c = 1) :
    (bboxOf h).xlo ≤ h.xlo + b * h.xy + c * h.xz ∧ h.xhi + b * h.xy + c * h.xz ≤ (bboxOf h).xhi ∧
    (bboxOf h).ylo ≤ h.ylo + c * h.yz ∧ h.yhi + c * h.yz ≤ (bboxOf h).yhi := by
  simp only [bboxOf, min4, max4]
  rcases hb with rfl | rfl <;> rcases hc with rfl | rfl <;>
    (refine ⟨?_, ?_, ?_, ?_⟩ <;> split_ifs <;> linarith)

/-- `lo < hi` survives the bounding-box map (and its inverse, by `dump_bbox`). -/
theorem dump_bbox_lo_lt_hi (h : HiLo) (hx : h.xlo < h.xhi) (hy : h.ylo < h.yhi) :
    (bboxOf h).xlo < (bboxOf h).xhi ∧ (bboxOf h).ylo < (bboxOf h).yhi := by
  simp only [bboxOf, min4, max4]
  constructor <;> split_ifs <;> linarith

example : bboxOf ⟨0, 4, 0, 8, 0, 2, 3/2, -1/2, 1/4⟩ = ⟨-1/2, 11/2, 0, 33/4, 0, 2⟩ := by decide +kernel

/-- `dump_bounds_error` for `%.nf`: the cell bounds rebuilt from a written dump file are within 3, 2, 1 half-units of
    the last printed place of the cell's (x, y, z). -/
theorem dump_bounds_error_fixed (h : HiLo) (n : Nat) :
    let r := hiLoOfBBox ((bboxOf h).map (fmtVal (.fixed n))) (fmtVal (.fixed n) h.xy) (fmtVal (.fixed n) h.xz)
      (fmtVal (.fixed n) h.yz)
    |r.xlo - h.xlo| ≤ 3 * (1 / (2 * 10 ^ n)) ∧ |r.xhi - h.xhi| ≤ 3 * (1 / (2 * 10 ^ n)) ∧
    |r.ylo - h.ylo| ≤ 2 * (1 / (2 * 10 ^ n)) ∧ |r.yhi - h.yhi| ≤ 2 * (1 / (2 * 10 ^ n)) ∧
    |r.zlo - h.zlo| ≤ 1 / (2 * 10 ^ n) ∧ |r.zhi - h.zhi| ≤ 1 / (2 * 10 ^ n) := by
  obtain ⟨h1, h2, h3, h4, h5, h6, _⟩ := dump_bounds_error h (fmtVal (.fixed n)) (1 / (2 * 10 ^ n))
    (fun q => fixedVal_error q n)
  exact ⟨h1, h2, h3, h4, h5, h6⟩

/-! ## POSCAR: the universal scaling factor applies to the lattice AND to Cartesian coordinates -/

theorem v3_smul_div (v : V3 ℚ) (c : ℚ) (hc : c ≠ 0) : V3.smul c (v3div v c) = v := by
  cases v; simp only [V3.smul, v3div, V3.mk.injEq]
  refine ⟨?_, ?_, ?_⟩ <;> field_simp

theorem groupByType_map {α β : Type} (f : α → β) (atype : List Int) (xs : List α) (n : Nat) :
    groupByType atype (xs.map f) n = (groupByType atype xs n).map f := by
  unfold groupByType
  rw [List.map_flatten, List.map_map]
  congr 1
  apply List.map_congr_left
  intro i _
  simp only [Function.comp]
  induction atype generalizing xs with
  | nil => simp
  | cons a as ih =>
    cases xs with
    | nil => simp
    | cons x xs =>
      simp only [List.map_cons, List.zip_cons_cons, List.filter_cons]
      split <;> simp [ih]

/-- **poscar_scale**: a reader that multiplies the three lattice rows and (in Cartesian mode) every coordinate
    row by the scale factor recovers the cell vectors and the positions grouped by type. -/
theorem poscar_scale (s : Sys) (sc : ℚ) (hsc : sc ≠ 0) (cart : Bool) :
    let p := poscarNums s cart sc
    V3.smul sc p.lattice.r0 = s.box.vects.r0 ∧ V3.smul sc p.lattice.r1 = s.box.vects.r1 ∧
    V3.smul sc p.lattice.r2 = s.box.vects.r2 ∧
    (cart = true → p.coords.map (V3.smul sc) = groupByType s.atype s.pos s.natypes) := by
  refine ⟨v3_smul_div _ _ hsc, v3_smul_div _ _ hsc, v3_smul_div _ _ hsc, ?_⟩
  intro hc
  subst hc
  simp only [poscarNums, if_true]
  rw [← groupByType_map, List.map_map]
  congr 1
  conv_rhs => rw [← List.map_id s.pos]
  apply List.map_congr_left
  intro v _
  exact v3_smul_div v sc hsc

/-! ## the command snippet names what the writer used -/

def bflag (p : Bool) : Tok := if p then cs!"p" else cs!"m"

/-- **info_names_used**: whenever `dumpData` succeeds, the snippet has a `units` line naming the unit style, an
    `atom_style` line naming the atom style — the same words the `Atoms # …` line of the content carries — and a
    `boundary` line with `p` exactly for the periodic directions; `read_data` names the file when one was given. -/
theorem info_names_used (s : Sys) (style unitsName : String) (u : Units) (f : Fmt) (fname : Option String)
    (content info : List Char) (h : dumpData s style unitsName u f fname = .ok (content, info)) :
    info = renderLines (infoDoc s.pbc style unitsName fname) ∧
    [cs!"units", strTok unitsName] ∈ infoDoc s.pbc style unitsName fname ∧
    (cs!"atom_style" :: (styleWords style).map strTok) ∈ infoDoc s.pbc style unitsName fname ∧
    [cs!"boundary", bflag s.pbc.x, bflag s.pbc.y, bflag s.pbc.z] ∈ infoDoc s.pbc style unitsName fname ∧
    (∀ n, fname = some n → [cs!"read_data", strTok n] ∈ infoDoc s.pbc style unitsName fname) ∧
    (∃ o, writeDataDoc s style u f = .ok o ∧ content = renderLines o.doc ∧
      ([cs!"Atoms", cs!"#"] ++ (styleWords style).map strTok) ∈ o.doc) := by
  unfold dumpData writeData at h
  cases hw : writeDataDoc s style u f with
  | error e => rw [hw] at h; simp [Except.map] at h
  | ok o =>
    rw [hw] at h
    simp only [Except.map, Except.ok.injEq, Prod.mk.injEq] at h
    obtain ⟨h1, h2⟩ := h
    refine ⟨h2.symm, ?_, ?_, ?_, ?_, o, rfl, h1.symm, ?_⟩
    · simp [infoDoc]
    · simp [infoDoc]
    · simp [infoDoc, bflag]
    · intro n hn; subst hn; simp [infoDoc]
    · unfold writeDataDoc at hw
      cases hp : dataParts s style u with
      | error e => rw [hp] at hw; simp [Except.map] at hw
      | ok pw =>
        rw [hp] at hw
        simp only [Except.map, Except.ok.injEq] at hw
        subst hw
        simp [dataDocOf]

/-- **requested_args_used**: `System.dump('atom_data', units=, atom_style=, natypes=, potential=)` — an argument
    the caller gives is the one used, whatever the potential says; one left out comes from the potential when
    there is one, else it is `metal` / `atomic` / the system's number of types; the file and the snippet are the
    ones `dumpData` produces for the resolved names (so, with `info_names_used`, the snippet names them and the
    numbers are converted with the factors of the resolved unit style). -/
theorem requested_args_used (s : Sys) (ua sa : Option String) (na : Option Nat) (pot : Option PotArgs)
    (unitsOf : String → Units) (f : Fmt) (fname : Option String) :
    let r := resolveArgs ua sa na pot s.natypes
    (∀ u, ua = some u → r.1 = u) ∧ (∀ st, sa = some st → r.2.1 = st) ∧ (∀ n, na = some n → r.2.2 = n) ∧
    (∀ p, pot = some p → (ua = none → r.1 = p.units) ∧ (sa = none → r.2.1 = p.atomStyle) ∧
      (na = none → r.2.2 = p.natypes)) ∧
    (pot = none → (ua = none → r.1 = "metal") ∧ (sa = none → r.2.1 = "atomic") ∧ (na = none → r.2.2 = s.natypes)) ∧
    dumpDataWith s ua sa na pot unitsOf f fname
      = dumpData { s with natypes := r.2.2 } r.2.1 r.1 (unitsOf r.1) f fname := by
  intro r
  refine ⟨?_, ?_, ?_, ?_, ?_, rfl⟩
  · intro u hu; subst hu; cases pot <;> rfl
  · intro st hst; subst hst; cases pot <;> rfl
  · intro n hn; subst hn; cases pot <;> rfl
  · intro p hp; subst hp
    exact ⟨fun h => by subst h; rfl, fun h => by subst h; rfl, fun h => by subst h; rfl⟩
  · intro hp; subst hp
    exact ⟨fun h => by subst h; rfl, fun h => by subst h; rfl, fun h => by subst h; rfl⟩

/-- with explicit `units=` and `atom_style=` the snippet names them — also when a potential with other values
    is passed along. -/
theorem requested_units_in_snippet (s : Sys) (un st : String) (na : Option Nat) (pot : Option PotArgs)
    (unitsOf : String → Units) (f : Fmt) (fname : Option String) (content info : List Char)
    (h : dumpDataWith s (some un) (some st) na pot unitsOf f fname = .ok (content, info)) :
    ∃ n, info = renderLines (infoDoc s.pbc st un fname) ∧
      [cs!"units", strTok un] ∈ infoDoc s.pbc st un fname ∧
      (cs!"atom_style" :: (styleWords st).map strTok) ∈ infoDoc s.pbc st un fname ∧
      dumpData { s with natypes := n } st un (unitsOf un) f fname = .ok (content, info) := by
  have hr : resolveArgs (some un) (some st) na pot s.natypes
      = (un, st, (resolveArgs (some un) (some st) na pot s.natypes).2.2) := by
    cases pot <;> rfl
  unfold dumpDataWith at h
  rw [hr] at h
  simp only at h
  obtain ⟨h1, h2, h3, _⟩ := info_names_used _ st un (unitsOf un) f fname content info h
  exact ⟨_, h1, h2, h3, h⟩

example : resolveArgs (some "si") none none (some ⟨"metal", "charge", 2⟩) 3 = ("si", "charge", 2) := by decide

/-! ## per-atom tensors (theorems in `C07_Index`) — non-vacuity -/

/-- a two-atom system with a non-square, non-symmetric per-atom tensor `g` of shape (2, 3). -/
def exTensorSys : Sys :=
  { exSys with props := [{ name := "g", isInt := false, ncomp := 6,
                           vals := [[1, 2, 3, 4, 5, 6], [7, 8, 9, 10, 11, 12]] }] }

example : dumpStdCol "g" = none ∧ isPosLike "g" = false ∧ (exTensorSys.prop? "g").isSome = true ∧
    propCells exTensorSys exUnits [1, 2] exTensorSys.pos (dumpCol "g" [2, 3]) 1
      = .ok [.num 7, .num 8, .num 9, .num 10, .num 11, .num 12] ∧
    (indexNames "g" [2, 3])[1 * 3 + 2]? = some "g[1][2]" := by
  decide +kernel

/-! ## the generated column / unit tables against the hand-encoded LAMMPS manual tables -/

/-- **atom_style_columns_match_lammps**: for every atom_style of the LAMMPS manual table, the columns atomman
    writes in the `Atoms` section (regenerated from `atoms_prop_info.py`) are the manual's fields in the manual's
    order, each in the manual's kind of unit; and atomman knows no style outside the table. -/
theorem atom_style_columns_match_lammps :
    (∀ e ∈ lammpsAtomLayout,
      (Gen.AtomStyles.atomStyles.find? (·.1 = e.1)).map (fun g => genAsFields g.2) = some e.2) ∧
    (∀ g ∈ Gen.AtomStyles.atomStyles, lammpsAtomLayout.any (·.1 = g.1) = true) := by
  decide +kernel

theorem velocity_columns_match_lammps :
    (∀ e ∈ lammpsVelLayout,
      (Gen.AtomStyles.velStyles.find? (·.1 = e.1)).map (fun g => genAsFields g.2) = some e.2) ∧
    (∀ g ∈ Gen.AtomStyles.velStyles, lammpsVelLayout.any (·.1 = g.1) = true) := by
  decide +kernel

/-- every standard column of the dump writer is a `dump custom` attribute with the manual's kind of unit. -/
theorem dump_columns_match_lammps :
    ∀ c ∈ genDumpColumns Gen.AtomStyles.dumpStandard, c ∈ lammpsDumpColumns := by
  decide +kernel

/-- the unit expressions of the unit styles, for the kinds per-atom columns use, are those of the `units` page;
    every table forwards the unit style it was asked for (hybrid composition included). -/
theorem unit_styles_match_lammps :
    (∀ e ∈ lammpsUnitKinds, ∀ kv ∈ e.2,
      ((Gen.AtomStyles.unitStyles.find? (·.1 = e.1)).bind fun g => (g.2.find? (·.1 = kv.1)).map (·.2)) = some kv.2) ∧
    Gen.AtomStyles.forwardsUnits = true := by
  decide +kernel

/-- **derived_units_composed** (fourth round): in every regenerated `style.unit` table the units of angular
    momentum, angular velocity and volume — the kinds of the `angmom*` / `l*`, `omega*` / `w*`, `volume` columns —
    are composed of that style's own distance, velocity, mass and time entries as the quantities are defined
    (distance × velocity × mass, 1 / time, distance³); `lj` has none. -/
theorem derived_units_composed :
    ∀ e ∈ Gen.AtomStyles.unitStyles, derivedUnitsComposed e = true := by
  decide +kernel

/-- the composition matters: with the electron style's entries, distance × velocity × mass and
    mass × distance² / time are different strings (and different units: velocity ≠ distance / time there). -/
example : derivedUnitsComposed ("electron", [("mass", some "amu"), ("length", some "aBohr"), ("time", some "fs"),
      ("velocity", some "2*Ry*aBohr/hbar"), ("ang-mom", some "amu*aBohr^2/fs"), ("ang-vel", some "1/fs"),
      ("volume", some "aBohr^3")]) = false := by decide +kernel

/-! ## no property twice; the hybrid composition is the real one -/

/-- **atom_columns_no_property_twice**: the `Atoms` column list of every accepted atom_style — hybrids of any
    length included — names each per-atom property at most once (the table writer converts units once per list
    entry but keys the written columns by property name: a repeated entry would be converted twice). -/
theorem atom_columns_no_property_twice (style : String) (cols : List ColSpec) (h : atomCols style = some cols) :
    (cols.map (·.prop)).Nodup :=
  styleCols_props_nodup atom_base_nodup style cols h

/-- the same for the `Velocities` column lists. -/
theorem vel_columns_no_property_twice (style : String) (cols : List ColSpec) (h : velCols style = some cols) :
    (cols.map (·.prop)).Nodup :=
  styleCols_props_nodup vel_base_nodup style cols h

/-- **hybrid_samples_agree**: for every ordered pair of sub-styles, every single sub-style and a fixed set of longer
    hybrids, the list the real `atoms_prop_info('hybrid …')` / `velocities_prop_info('hybrid …')` returns
    (regenerated from the source on every run, duplicates and all) is exactly what the model's `hybridCols` composes
    from the base tables. -/
theorem hybrid_samples_agree :
    (∀ e ∈ Gen.AtomStyles.atomHybrids, hybridCols Gen.AtomStyles.atomStyles e.1 = some (e.2.map ofGenCol)) ∧
    (∀ e ∈ Gen.AtomStyles.velHybrids, hybridCols Gen.AtomStyles.velStyles e.1 = some (e.2.map ofGenCol)) ∧
    300 ≤ Gen.AtomStyles.atomHybrids.length ∧ 30 ≤ Gen.AtomStyles.velHybrids.length := by
  decide +kernel

example : hybridCols Gen.AtomStyles.atomStyles ["sphere", "peri", "charge", "dipole"] =
    some ((["a_id", "atype", "pos", "diameter", "density", "volume", "charge", "mu"].zip
      [["id"], ["type"], ["x", "y", "z"], ["diameter"], ["density"], ["volume"], ["q"], ["mux", "muy", "muz"]]).zip
      [.none, .none, .kind "length", .kind "length", .kind "density", .kind "volume", .kind "charge", .kind "dipole"]
      |>.map fun x => ⟨x.1.1, x.1.2, x.2⟩) := by
  decide +kernel

/-! ## dump file: scaled position columns -/

theorem det_header_ne_zero (b : Box ℚ) (hn : b.isLammpsNorm = true) (lf : Option ℚ) (hlf : ∀ c, lf = some c → c ≠ 0) :
    M3.det (boxOfHiLo ((hiLoOf b).map (divBy lf))).vects ≠ 0 := by
  obtain ⟨h1, h2, h3, h4, h5, h6⟩ := norm_facts b hn
  obtain ⟨⟨⟨ax, ay, az⟩, ⟨bx, by', bz⟩, ⟨cx, cy, cz⟩⟩, ⟨ox, oy, oz⟩⟩ := b
  simp only at h1 h2 h3 h4 h5 h6
  have hax : ax ≠ 0 := ne_of_gt h4
  have hby : by' ≠ 0 := ne_of_gt h5
  have hcz : cz ≠ 0 := ne_of_gt h6
  cases lf with
  | none =>
    simp only [boxOfHiLo, hiLoOf, HiLo.map, divBy, M3.det, V3.dot, V3.cross, add_sub_cancel_left]
    have : ax * (by' * cz) ≠ 0 := mul_ne_zero hax (mul_ne_zero hby hcz)
    intro h; apply this; linarith
  | some c =>
    have hc := hlf c rfl
    simp only [boxOfHiLo, hiLoOf, HiLo.map, divBy, M3.det, V3.dot, V3.cross]
    have : ax * (by' * cz) / (c * c * c) ≠ 0 := div_ne_zero (mul_ne_zero hax (mul_ne_zero hby hcz)) (by positivity)
    intro h; apply this
    rw [← h]; field_simp; ring

/-- **dump_scaled_cells**: the cells the writers put into a scaled position column (`spos` → `xs ys zs`, `supos` →
    `xsu ysu zsu`) of atom `k` are the relative coordinates of its position in the system's cell. -/
theorem dump_scaled_cells (s : Sys) (u : Units) (ids : List Int) (pos : List (V3 Rat)) (prop : String)
    (hp : prop = "spos" ∨ prop = "supos") (n1 n2 n3 : String) (us : UnitSpec) (k : Nat) (p : V3 Rat)
    (hk : pos[k]? = some p) :
    propCells s u ids pos ⟨prop, [n1, n2, n3], us⟩ k =
      .ok [.num (s.box.cartToRel p).x, .num (s.box.cartToRel p).y, .num (s.box.cartToRel p).z] := by
  rcases hp with rfl | rfl <;> simp [propCells, isPosLike, hk] <;> rfl

/-- **dump_scaled_unscale**: those relative coordinates, unscaled with the cell an independent reader rebuilds from
    the written header (`boxOfHiLo` of the `xlo … yz` the inverse bounding-box map `dump_bbox` recovers, in the
    requested length unit), are the atom's position in the requested length unit — for every LAMMPS-normal cell,
    tilted or not, any origin. -/
theorem dump_scaled_unscale (b : Box ℚ) (hn : b.isLammpsNorm = true) (lf : Option ℚ) (hlf : ∀ c, lf = some c → c ≠ 0)
    (p : V3 ℚ) :
    (boxOfHiLo ((hiLoOf b).map (divBy lf))).relToCart (b.cartToRel p) = v3map (divBy lf) p := by
  rw [← cartToRel_header b hn lf hlf p]
  exact C05.relToCart_cartToRel _ (det_header_ne_zero b hn lf hlf) _

example : (boxOfHiLo ((hiLoOf ⟨⟨⟨4, 0, 0⟩, ⟨2, 4, 0⟩, ⟨0, 1, 4⟩⟩, ⟨1, 0, -1⟩⟩).map (divBy (some 10)))).relToCart
    ((⟨⟨⟨4, 0, 0⟩, ⟨2, 4, 0⟩, ⟨0, 1, 4⟩⟩, ⟨1, 0, -1⟩⟩ : Box ℚ).cartToRel ⟨3, 2, 1⟩) = ⟨3 / 10, 2 / 10, 1 / 10⟩ := by
  decide +kernel

/-! ## whole calls: where the text goes, and the generated (source-derived) documents under the whole-file theorems -/

open Atomman.Gen.WriterSource in
/-- **deliver_spec**: the text is among the returned values exactly when no target is given, and is written to the
    target exactly when one is given (never both, never neither); the optional second value is returned exactly when
    asked for; only a file NAME can be named by the command snippet.  Holds for the tail of all four writers as the
    source has it (`genDataDeliver`, `genDumpDeliver`, `genTableDeliver`, `genPoscarDeliver`). -/
theorem deliver_spec (t : Target) (w : Bool) :
    ((deliver t w).returnsContent = true ↔ t = .none) ∧ ((deliver t w).writes = true ↔ t ≠ .none) ∧
    (deliver t w).returnsExtra = w ∧
    (deliver t w).count = (if t = .none then 1 else 0) + (if w then 1 else 0) ∧
    (∀ n, t.fname = some n ↔ t = .path n) ∧
    genDataDeliver t w = deliver t w ∧ genDumpDeliver t w = deliver t w ∧ genTableDeliver t w = deliver t w ∧
    genPoscarDeliver t w = deliver t false := by
  refine ⟨?_, ?_, rfl, ?_, ?_, by rw [gen_dataDeliver_eq_model], by rw [gen_dumpDeliver_eq_model],
    by rw [gen_tableDeliver_eq_model], gen_poscarDeliver_eq_model t w⟩
  · simp [deliver]
  · simp [deliver]
  · cases t <;> cases w <;> rfl
  · intro n; cases t <;> simp [Target.fname]

example : deliver (.path "a.dat") true = ⟨false, true, true⟩ ∧ deliver .none false = ⟨true, false, false⟩ := by decide

open Atomman.Gen.WriterSource in
/-- **gen_files_are_model_files**: whenever a writer succeeds, its text is `renderLines` / `renderJoin` of the document
    REGENERATED FROM THE PYTHON SOURCE (`genDataDoc` ∘ `genDataBoxLines` ∘ `genAtomsSection`, `genDumpDoc`, `genPoscarDoc`)
    filled with the numbers the model computes; so `data_parse_write`, `data_wellformed`, `dump_parse_write`,
    `poscar_parse_write` are statements about the line layout the source has on this run. -/
theorem gen_files_are_model_files :
    (∀ (s : Sys) (style : String) (u : Units) (f : Fmt) (text : List Char), writeData s style u f = .ok text →
      ∃ p w lf, dataParts s style u = .ok (p, w) ∧ lengthFactor u = .ok lf ∧
        text = renderLines (genDataDoc s.natoms s.natypes (genDataBoxLines f lf (hiLoOf w.box))
          (genAtomsSection style (rowsDoc f p.rows)) (p.vel.map (rowsDoc f)))) ∧
    (∀ (s : Sys) (props : List (String × List Nat)) (u : Units) (f : Fmt) (ts : Int) (text : List Char),
      writeDump s props u f ts = .ok text →
      ∃ lf rows, lengthFactor u = .ok lf ∧
        tableRows s u (dumpIds s) s.pos (props.map fun p => dumpCol p.1 p.2) [] = .ok rows ∧
        text = renderLines (genDumpDoc f lf (hiLoOf s.box) s.pbc ts s.natoms
          (nameLine (props.map fun p => dumpCol p.1 p.2)) (rowsDoc f rows))) ∧
    (∀ (s : Sys) (header : List String) (symbols : Option (List String)) (coordstyle : String) (scale : ℚ) (f : Fmt)
      (text : List Char), writePoscar s header symbols coordstyle scale f = .ok text →
      ¬ genPoscarRefuses scale ∧
      text = renderJoin (genPoscarDoc f header scale s.box.vects symbols
        (poscarNums s (isCartTok (strTok coordstyle)) scale).counts coordstyle
        (poscarNums s (isCartTok (strTok coordstyle)) scale).coords)) := by
  refine ⟨?_, ?_, ?_⟩
  · intro s style u f text h
    unfold writeData writeDataDoc at h
    cases hp : dataParts s style u with
    | error e => rw [hp] at h; simp [Except.map] at h
    | ok pw =>
      obtain ⟨p, w⟩ := pw
      rw [hp] at h
      simp only [Except.map, Except.ok.injEq] at h
      obtain ⟨_, _, lf, cols, hlf, _, hn, hnt, hh, _⟩ := dataParts_ok s style u p w hp
      refine ⟨p, w, lf, rfl, hlf, ?_⟩
      rw [← h, ← gen_dataDoc_eq_model, gen_dataBoxLines_eq_model, hh, hn, hnt]
  · intro s props u f ts text h
    unfold writeDump at h
    cases hd : writeDumpDoc s props u f ts with
    | error e => rw [hd] at h; simp [Except.map] at h
    | ok d =>
      rw [hd] at h
      simp only [Except.map, Except.ok.injEq] at h
      obtain ⟨lf, rows, _, hlf, _, hr, hdoc⟩ := writeDumpDoc_ok s props u f ts d hd
      exact ⟨lf, rows, hlf, hr, by rw [← h, hdoc, gen_dumpDoc_eq_model]⟩
  · intro s header symbols coordstyle scale f text h
    unfold writePoscar at h
    cases hd : writePoscarDoc s header symbols coordstyle scale f with
    | error e => rw [hd] at h; simp [Except.map] at h
    | ok d =>
      rw [hd] at h
      simp only [Except.map, Except.ok.injEq] at h
      obtain ⟨hsc, _, _, _, hdoc⟩ := writePoscarDoc_ok s header symbols coordstyle scale f d hd
      exact ⟨fun hr => absurd ((gen_poscarRefuses_eq_model scale).mp hr) (not_le.mpr hsc),
        by rw [← h, hdoc, gen_poscarDoc_eq_model]⟩

/-- **poscar_refusal_iff** (the refusals of `poscar.dump` the model carries): the writer refuses exactly when the
    factor is not positive, the system has no atom, the mode line is empty, or a symbols list has another length than
    the system has atom types. -/
theorem poscar_refusal_iff (s : Sys) (header : List String) (symbols : Option (List String)) (coordstyle : String)
    (scale : ℚ) (f : Fmt) :
    isOk (writePoscar s header symbols coordstyle scale f) = false ↔
      (scale ≤ 0 ∨ s.natoms = 0 ∨ coordstyle.toList = [] ∨ ∃ l, symbols = some l ∧ l.length ≠ s.natypes) := by
  unfold writePoscar writePoscarDoc
  by_cases h1 : scale ≤ 0
  · simp [h1, isOk, bind, Except.bind, throw, throwThe, MonadExceptOf.throw, Except.map]
  · by_cases h2 : s.natoms = 0
    · simp [h1, h2, isOk, bind, Except.bind, throw, throwThe, MonadExceptOf.throw, Except.map]
    · by_cases h3 : coordstyle.toList = []
      · simp [h1, h2, h3, isOk, bind, Except.bind, throw, throwThe, MonadExceptOf.throw, Except.map, pure, Except.pure]
      · cases symbols with
        | none => simp [h1, h2, h3, isOk, bind, Except.bind, throw, throwThe, MonadExceptOf.throw, Except.map, pure, Except.pure]
        | some l =>
          by_cases h4 : l.length = s.natypes
          · simp [h1, h2, h3, h4, isOk, bind, Except.bind, throw, throwThe, MonadExceptOf.throw, Except.map, pure, Except.pure]
          · simp [h1, h2, h3, h4, isOk, bind, Except.bind, throw, throwThe, MonadExceptOf.throw, Except.map, pure, Except.pure]

example : isOk (writePoscar exSys ["t"] none "Direct" (-2) (.exp 5)) = false ∧
    isOk (writePoscar exSys ["t"] (some ["Al"]) "Direct" 1 (.exp 5)) = false := by decide +kernel

/-- **data_call_end_to_end**: `System.dump('atom_data', f=, units=, atom_style=, natypes=, potential=, float_format=,
    return_info=)` as a whole, for every accepted call.  With `a` = the resolved (units, atom_style, natypes)
    (`requested_args_used`): the ONE text of the file is returned first when no target is given and is otherwise
    written to the target (and not returned); the snippet is the last returned value exactly when asked for; the number
    of returned values is 0, 1 or 2 accordingly; the text, read by the independent `read_data`, has the system's atom
    count, the resolved number of types, the resolved atom_style in its `Atoms #` line and one record per atom
    (`data_parse_write` gives the rest); the snippet names the resolved unit style and atom style and the boundary
    flags, and has a `read_data` line exactly when the target is a file name — naming that file. -/
theorem data_call_end_to_end (s : Sys) (ua sa : Option String) (na : Option Nat) (pot : Option PotArgs)
    (unitsOf : String → Units) (f : Fmt) (t : Target) (returnInfo : Bool) (r : CallResult)
    (h : dataCall s ua sa na pot unitsOf f t returnInfo = .ok r) (hs : IntTyped s) :
    ∃ content info pd,
      dumpData { s with natypes := (resolveArgs ua sa na pot s.natypes).2.2 } (resolveArgs ua sa na pot s.natypes).2.1
        (resolveArgs ua sa na pot s.natypes).1 (unitsOf (resolveArgs ua sa na pot s.natypes).1) f t.fname
        = .ok (content, info) ∧
      (t = .none → r.returned.head? = some content ∧ r.written = none) ∧
      (t ≠ .none → r.written = some content ∧ content ∉ r.returned.take (r.returned.length - returnInfo.toNat)) ∧
      r.returned.length = (deliver t returnInfo).count ∧
      (returnInfo = true → r.returned.getLast? = some info) ∧
      parseData content (resolveArgs ua sa na pot s.natypes).2.1 = some pd ∧
      pd.natoms = s.natoms ∧ pd.ntypes = (resolveArgs ua sa na pot s.natypes).2.2 ∧
      pd.styleHint = (styleWords (resolveArgs ua sa na pot s.natypes).2.1).map strTok ∧ pd.atoms.length = s.natoms ∧
      info = renderLines (Gen.WriterSource.genInfoDoc s.pbc (resolveArgs ua sa na pot s.natypes).2.1
        (resolveArgs ua sa na pot s.natypes).1 t.fname) ∧
      [cs!"units", strTok (resolveArgs ua sa na pot s.natypes).1] ∈
        infoDoc s.pbc (resolveArgs ua sa na pot s.natypes).2.1 (resolveArgs ua sa na pot s.natypes).1 t.fname ∧
      (cs!"atom_style" :: (styleWords (resolveArgs ua sa na pot s.natypes).2.1).map strTok) ∈
        infoDoc s.pbc (resolveArgs ua sa na pot s.natypes).2.1 (resolveArgs ua sa na pot s.natypes).1 t.fname ∧
      [cs!"boundary", bflag s.pbc.x, bflag s.pbc.y, bflag s.pbc.z] ∈
        infoDoc s.pbc (resolveArgs ua sa na pot s.natypes).2.1 (resolveArgs ua sa na pot s.natypes).1 t.fname ∧
      (∀ n, [cs!"read_data", strTok n] ∈
          infoDoc s.pbc (resolveArgs ua sa na pot s.natypes).2.1 (resolveArgs ua sa na pot s.natypes).1 t.fname
        ↔ t = .path n ∨ (∃ m, t = .path m ∧ strTok m = strTok n)) := by
  unfold dataCall at h
  have hres := (requested_args_used s ua sa na pot unitsOf f t.fname).2.2.2.2.2
  rw [hres] at h
  generalize resolveArgs ua sa na pot s.natypes = a at *
  cases hd : dumpData { s with natypes := a.2.2 } a.2.1 a.1 (unitsOf a.1) f t.fname with
  | error e => rw [hd] at h; simp [Except.map] at h
  | ok ci =>
    obtain ⟨content, info⟩ := ci
    rw [hd] at h
    simp only [Except.map, Except.ok.injEq] at h
    subst h
    obtain ⟨hi, hu, hst, hb, hrd, o, ho, hc, _⟩ := info_names_used _ a.2.1 a.1 (unitsOf a.1) f t.fname content info hd
    have hw : writeData { s with natypes := a.2.2 } a.2.1 (unitsOf a.1) f = .ok content := by
      unfold writeData; rw [ho]; simp [Except.map, hc]
    obtain ⟨p, w, lf, cols, L, pd, _, _, _, _, _, _, _, _, hpd, hna, hnt, _, hsh, hal, _⟩ :=
      data_parse_write { s with natypes := a.2.2 } a.2.1 (unitsOf a.1) f content hw hs
    refine ⟨content, info, pd, rfl, ?_, ?_, ?_, ?_, hpd, hna, hnt, hsh, hal, ?_, hu, hst, hb, ?_⟩
    · intro ht; subst ht; simp [callResult, deliver]
    · intro ht
      cases t with
      | none => exact absurd rfl ht
      | path n => cases returnInfo <;> simp [callResult, deliver]
      | stream => cases returnInfo <;> simp [callResult, deliver]
    · cases t <;> cases returnInfo <;> rfl
    · intro hr; subst hr; cases t <;> simp [callResult, deliver]
    · rw [gen_infoDoc_eq_model]; exact hi
    · intro n
      cases t with
      | none => simp [infoDoc, Target.fname]
      | stream => simp [infoDoc, Target.fname]
      | path m =>
        simp only [infoDoc, Target.fname, Target.path.injEq]
        constructor
        · intro hm
          simp at hm
          exact Or.inr ⟨m, rfl, hm.symm⟩
        · rintro (rfl | ⟨m', hm', hmm⟩)
          · simp
          · cases hm'; simp [hmm]

example : isOk (dataCall exSys none none none none (fun _ => exUnits) (.fixed 3) (.path "a.dat") true) = true ∧
    IntTyped exSys := by
  constructor
  · unfold dataCall dumpDataWith dumpData writeData writeDataDoc dataParts atomCols velCols styleCols dataDocOf
    simp only [resolveArgs, Option.getD, styleWords_atomic]
    decide +kernel
  · intro col hcol; simp [exSys] at hcol

/-- the text of a call whose second value the model does not carry (`extra = []`): where it goes. -/
theorem callResult_routes (t : Target) (w : Bool) (text : List Char) :
    (t = .none → (callResult (deliver t w) text []).returned.head? = some text ∧
      (callResult (deliver t w) text []).written = none) ∧
    (t ≠ .none → (callResult (deliver t w) text []).written = some text ∧
      (callResult (deliver t w) text []).returned = if w then [[]] else []) ∧
    (callResult (deliver t w) text []).returned.length = (deliver t w).count := by
  refine ⟨?_, ?_, ?_⟩
  · intro ht; subst ht; cases w <;> simp [callResult, deliver]
  · intro ht; cases t with
    | none => exact absurd rfl ht
    | path n => cases w <;> simp [callResult, deliver]
    | stream => cases w <;> simp [callResult, deliver]
  · cases t <;> cases w <;> rfl

/-- **dump_call_end_to_end**: `System.dump('atom_dump', f=, lammps_units=, prop_name=, float_format=,
    return_prop_info=)` as a whole, for every accepted call: the one text is returned first when no target is given,
    else written to the target and not returned; as read by the independent `dump custom` reader it names the step the
    system holds (whatever numeric type carries it; 0 when it has none), the system's atom count = the number of rows,
    and the requested columns in order (`dump_parse_write` gives the rest: flags, bounding box, cells). -/
theorem dump_call_end_to_end (s : Sys) (props : List (String × List Nat)) (u : Units) (f : Fmt) (sv : StepVal)
    (t : Target) (w : Bool) (r : CallResult) (h : dumpCall s props u f sv t w = .ok r)
    (hn : NamesOk (props.map fun p => dumpCol p.1 p.2)) (hid : IdNamesOk (props.map fun p => dumpCol p.1 p.2)) :
    ∃ text pd, writeDumpStep s props u f sv = .ok text ∧
      (t = .none → r.returned.head? = some text ∧ r.written = none) ∧
      (t ≠ .none → r.written = some text ∧ r.returned = if w then [[]] else []) ∧
      r.returned.length = (deliver t w).count ∧
      parseDump text = some pd ∧ pd.timestep = sv.step ∧ pd.natoms = s.natoms ∧ pd.rows.length = s.natoms ∧
      pd.columns = nameLine (props.map fun p => dumpCol p.1 p.2) ∧
      pd.boundary = [bflagD s.pbc.x, bflagD s.pbc.y, bflagD s.pbc.z] := by
  unfold dumpCall at h
  cases hd : writeDumpStep s props u f sv with
  | error e => rw [hd] at h; simp [Except.map] at h
  | ok text =>
    rw [hd] at h
    simp only [Except.map, Except.ok.injEq] at h
    subst h
    obtain ⟨lf, rows, _, _, _, _, hlen, hp⟩ := dump_parse_write s props u f sv.step text hd hn hid
    obtain ⟨r1, r2, r3⟩ := callResult_routes t w text
    exact ⟨text, _, rfl, r1, r2, r3, hp, rfl, rfl, by simp [hlen], rfl, rfl⟩

/-- **table_call_end_to_end**: `System.dump('table', f=, prop_name=, unit=, header=, float_format=,
    return_prop_info=)` as a whole: the one text is returned or written (never both); a reader that splits at blanks
    gets one row per atom, the header line exactly when asked for, every row as long as the header. -/
theorem table_call_end_to_end (s : Sys) (cols : List ColSpec) (u : Units) (f : Fmt) (header : Bool)
    (t : Target) (w : Bool) (r : CallResult) (h : tableCall s cols u f header t w = .ok r)
    (hn : NamesOk cols) (hid : IdNamesOk cols) :
    ∃ text pt, writeTable s cols u f header = .ok text ∧
      (t = .none → r.returned.head? = some text ∧ r.written = none) ∧
      (t ≠ .none → r.written = some text ∧ r.returned = if w then [[]] else []) ∧
      r.returned.length = (deliver t w).count ∧
      parseTable text header = some pt ∧ pt.rows.length = s.natoms ∧
      pt.columns = (if header then some (nameLine cols) else none) ∧
      (∀ row ∈ pt.rows, row.length = (nameLine cols).length) := by
  unfold tableCall at h
  cases hd : writeTable s cols u f header with
  | error e => rw [hd] at h; simp [Except.map] at h
  | ok text =>
    rw [hd] at h
    simp only [Except.map, Except.ok.injEq] at h
    subst h
    obtain ⟨rows, _, hlen, hrow, hp⟩ := table_parse_write s cols u f header text hd hn hid
    obtain ⟨r1, r2, r3⟩ := callResult_routes t w text
    refine ⟨text, _, rfl, r1, r2, r3, hp, by simp [hlen], rfl, ?_⟩
    intro row hrow'
    simp only [List.mem_map] at hrow'
    obtain ⟨r0, hr0, rfl⟩ := hrow'
    simp [hrow r0 hr0]

/-- **poscar_call_end_to_end**: `System.dump('poscar', f=, header=, symbols=, coordstyle=, box_scale=, float_format=)`
    as a whole: the text is returned exactly when no target is given (nothing else ever is), else written; the
    independent POSCAR reader gets the file `poscar_parse_write` describes (factor, lattice × factor, symbols, one
    count per type, mode, rows by type). -/
theorem poscar_call_end_to_end (s : Sys) (header : List String) (symbols : Option (List String)) (coordstyle : String)
    (scale : ℚ) (f : Fmt) (t : Target) (r : CallResult) (h : poscarCall s header symbols coordstyle scale f t = .ok r)
    (hs : PoscarStringsOk header symbols coordstyle) (hscale : 0 < fmtVal f scale)
    (hlen : s.atype.length = s.pos.length) (hty : ∀ t ∈ s.atype, 1 ≤ t ∧ t ≤ (s.natypes : Int)) :
    ∃ text, writePoscar s header symbols coordstyle scale f = .ok text ∧
      (t = .none → r.returned = [text] ∧ r.written = none) ∧
      (t ≠ .none → r.written = some text ∧ r.returned = []) ∧
      parsePoscar text = some (poscarExpected f header symbols coordstyle scale
        (poscarNums s (isCartTok (strTok coordstyle)) scale)) := by
  unfold poscarCall at h
  cases hd : writePoscar s header symbols coordstyle scale f with
  | error e => rw [hd] at h; simp [Except.map] at h
  | ok text =>
    rw [hd] at h
    simp only [Except.map, Except.ok.injEq] at h
    subst h
    obtain ⟨_, _, _, _, _, hp⟩ := poscar_parse_write s header symbols coordstyle scale f text hd hs hscale hlen hty
    refine ⟨text, rfl, ?_, ?_, hp⟩
    · intro ht; subst ht; simp [callResult, deliver]
    · intro ht; cases t with
      | none => exact absurd rfl ht
      | path n => simp [callResult, deliver]
      | stream => simp [callResult, deliver]

example : isOk (dumpCall ({ exSys with pos := [⟨0, 0, 0⟩, ⟨1, 1, 1⟩] }) exProps exUnits (.exp 5) (.real 25000) .stream true) = true ∧
    isOk (tableCall exSys exCols exUnits (.fixed 3) true (.path "t.txt") false) = true ∧
    isOk (poscarCall exSys ["test"] (some ["Al", "Cu"]) "Cartesian" 2 (.exp 5) .none) = true := by
  decide +kernel

/-- **default_dump_columns**: a dump file written without `prop_name` has the id column first, exactly once, and
    after it every per-atom property of the system exactly once in the system's order (none lost, none added) —
    whether or not the system carries its own `atom_id`, wherever it stands. -/
theorem default_dump_columns (atomsProps : List String) (hnd : atomsProps.Nodup) :
    (defaultDumpNames atomsProps).head? = some "atom_id" ∧ (defaultDumpNames atomsProps).Nodup ∧
    (∀ n, n ∈ defaultDumpNames atomsProps ↔ n = "atom_id" ∨ n ∈ atomsProps) ∧
    (defaultDumpNames atomsProps).tail = atomsProps.filter (· ≠ "atom_id") ∧
    (defaultDumpProps [("atype", []), ("pos", [3])]).map (·.1) = ["atom_id", "atype", "pos"] := by
  refine ⟨rfl, ?_, ?_, ?_, by decide⟩
  · unfold defaultDumpNames
    rw [List.nodup_cons]
    exact ⟨fun hm => (List.Nodup.mem_erase_iff hnd).mp hm |>.1 rfl, hnd.erase _⟩
  · intro n
    unfold defaultDumpNames
    rw [List.mem_cons]
    constructor
    · rintro (h | h)
      · exact Or.inl h
      · exact Or.inr (List.mem_of_mem_erase h)
    · rintro (h | h)
      · exact Or.inl h
      · by_cases hn : n = "atom_id"
        · exact Or.inl hn
        · exact Or.inr ((List.mem_erase_of_ne hn).mpr h)
  · unfold defaultDumpNames
    simp only [List.tail_cons]
    rw [hnd.erase_eq_filter]
    congr 1
    funext x
    by_cases hx : x = "atom_id" <;> simp [hx]

example : defaultDumpProps [("atype", []), ("pos", [3]), ("atom_id", []), ("stress", [3, 3])] =
    [("atom_id", []), ("atype", []), ("pos", [3]), ("stress", [3, 3])] := by decide

/-- **dump_refusal_iff**: `atom_dump.dump` (model) refuses exactly when the cell is not LAMMPS-normal, the unit style
    has no length entry, two atoms carry the same id, or a requested column cannot be built (`tableRows` fails:
    unknown property, wrong number of names, unknown unit kind); otherwise a file is written. -/
theorem dump_refusal_iff (s : Sys) (props : List (String × List Nat)) (u : Units) (f : Fmt) (ts : Int) :
    isOk (writeDump s props u f ts) = false ↔
      (s.box.isLammpsNorm = false ∨ isOk (lengthFactor u) = false ∨ hasDup (dumpIds s) = true ∨
       isOk (tableRows s u (dumpIds s) s.pos (props.map fun p => dumpCol p.1 p.2) []) = false) := by
  unfold writeDump writeDumpDoc
  cases hp : s.prop? "atom_id" <;>
  simp only [dumpIds, hp, bind, Except.bind, pure, Except.pure, throw, throwThe, MonadExceptOf.throw] <;>
  (cases hnorm : s.box.isLammpsNorm
   · simp [isOk, Except.map]
   · cases hlf : lengthFactor u with
     | error e => simp [isOk, Except.map]
     | ok lf =>
       simp only [Bool.not_true, Bool.false_eq_true, if_false]
       split
       · rename_i hdup
         simp_all [isOk, Except.map]
       · rename_i hdup
         split
         · rename_i e hrows
           simp_all [isOk, Except.map]
         · rename_i rows hrows
           simp_all [isOk, Except.map])

example : isOk (writeDump ({ exSys with props := [⟨"atom_id", true, 1, [[5], [5]]⟩] }) exProps exUnits (.fixed 3) 0) = false := by
  decide +kernel

/-! ## statement audit: non-vacuity of the theorems that had no example discharging their hypotheses jointly -/

section AuditExamples

/-- the `Atoms` columns of atom_style `atomic`, computed from the regenerated tables. -/
theorem atomCols_atomic : atomCols "atomic" = some exCols := by
  unfold atomCols styleCols
  simp only [styleWords_atomic]
  decide +kernel

-- `dump_parse_write`, `dump_timestep_line`, `dump_call_end_to_end`: the name hypotheses for the columns of `exProps`
-- (the `isOk` examples above show the call succeeds; these are the other two hypotheses).
example : NamesOk (exProps.map fun p => dumpCol p.1 p.2) ∧ IdNamesOk (exProps.map fun p => dumpCol p.1 p.2) := by
  have e : (exProps.map fun p => dumpCol p.1 p.2) =
      [⟨"atom_id", ["id"], .none⟩, ⟨"atype", ["type"], .none⟩, ⟨"pos", ["x", "y", "z"], .kind "length"⟩] := by
    decide +kernel
  rw [e]
  constructor
  · intro c hc n hn
    simp only [List.mem_cons, List.not_mem_nil, or_false] at hc
    rcases hc with rfl | rfl | rfl <;> simp at hn <;> (try rcases hn with rfl | rfl | rfl) <;> decide
  · intro c hc
    simp only [List.mem_cons, List.not_mem_nil, or_false] at hc
    rcases hc with rfl | rfl | rfl <;> simp

-- `data_wellformed`: its third hypothesis (positive length unit) for `exUnits`.
example : ∀ c, exUnits.factor? "length" = some (some c) → 0 < c := by
  intro c hc
  have : exUnits.factor? "length" = some (some 1) := by decide +kernel
  rw [this] at hc; injection hc with hc; injection hc with hc; subst hc; norm_num

-- `layoutOf_styleCols`, `tilt_line_iff`, `atom_columns_no_property_twice` at atom_style `atomic`.
example : ∃ L, layoutOf lammpsAtomLayout "atomic" = some L ∧ colsLayout exCols = some L :=
  layoutOf_styleCols atom_tables_agree "atomic" exCols atomCols_atomic
example : (exCols.map (·.prop)).Nodup := atom_columns_no_property_twice "atomic" exCols atomCols_atomic
example (f : Fmt) (p : DataParts) :
    (∃ l ∈ dataDocOf f "atomic" p, l.getLast? = some (cs!"yz")) ↔ tilted p.hilo :=
  tilt_line_iff f "atomic" exCols atomCols_atomic p

-- `data_atoms_inside`: the wrapped cell of `exSys` (one atom outside before wrapping) is LAMMPS-normal.
example : ∀ p ∈ (wrap exSys.box exSys.pbc exSys.pos).pos,
    C05.insideRel ((boxOfHiLo ((hiLoOf (wrap exSys.box exSys.pbc exSys.pos).box).map (divBy (some 2)))).cartToRel
      (v3map (divBy (some 2)) p)) :=
  data_atoms_inside exSys (some 2) (fun c hc => by injection hc with hc; subst hc; norm_num) (by decide +kernel)

-- `dump_scaled_unscale` applied (tilted cell, origin ≠ 0, length unit 10), `dump_scaled_cells`.
example : (boxOfHiLo ((hiLoOf ⟨⟨⟨4, 0, 0⟩, ⟨2, 4, 0⟩, ⟨0, 1, 4⟩⟩, ⟨1, 0, -1⟩⟩).map (divBy (some 10)))).relToCart
    ((⟨⟨⟨4, 0, 0⟩, ⟨2, 4, 0⟩, ⟨0, 1, 4⟩⟩, ⟨1, 0, -1⟩⟩ : Box ℚ).cartToRel ⟨3, 2, 1⟩) = v3map (divBy (some 10)) ⟨3, 2, 1⟩ :=
  dump_scaled_unscale _ (by decide +kernel) (some 10) (fun c hc => by injection hc with hc; subst hc; norm_num) _
example : propCells exSys exUnits [1, 2] exSys.pos ⟨"spos", ["xs", "ys", "zs"], .scaled⟩ 1 =
    .ok [.num (exSys.box.cartToRel ⟨9/2, 1, 6⟩).x, .num (exSys.box.cartToRel ⟨9/2, 1, 6⟩).y,
         .num (exSys.box.cartToRel ⟨9/2, 1, 6⟩).z] :=
  dump_scaled_cells exSys exUnits [1, 2] exSys.pos "spos" (Or.inl rfl) "xs" "ys" "zs" .scaled 1 ⟨9/2, 1, 6⟩ rfl

-- `lexDoc_renderLines`: a document with an empty line, words, signed numbers (`#` starts a comment for the reader and is excluded by `okTok`).
example : lexDoc (renderLines [[cs!"2", cs!"atom", cs!"types"], [], [cs!"1", cs!"2", cs!"-0.500", cs!"1.25e-01"]]) =
    [[cs!"2", cs!"atom", cs!"types"], [], [cs!"1", cs!"2", cs!"-0.500", cs!"1.25e-01"]] :=
  lexDoc_renderLines _ (by decide)

-- `info_names_used`, `requested_units_in_snippet`: the call they speak about succeeds for `exSys`.
example : isOk (dumpData exSys "atomic" "metal" exUnits (.fixed 3) (some "a.dat")) = true ∧
    isOk (dumpDataWith exSys (some "metal") (some "atomic") none (some ⟨"si", "charge", 5⟩) (fun _ => exUnits) (.fixed 3)
      none) = true := by
  constructor
  · unfold dumpData writeData writeDataDoc dataParts atomCols velCols styleCols dataDocOf
    simp only [styleWords_atomic]
    decide +kernel
  · unfold dumpDataWith dumpData writeData writeDataDoc dataParts atomCols velCols styleCols dataDocOf
    simp only [resolveArgs, Option.getD, styleWords_atomic]
    decide +kernel

-- hypotheses that are plain side conditions, on non-trivial values
example :=
  dump_bbox_lo_lt_hi ⟨0, 4, 0, 8, 0, 2, 3/2, -1/2, 1/4⟩ (by norm_num) (by norm_num)
example := dump_bbox_corners ⟨0, 4, 0, 8, 0, 2, 3/2, -1/2, 1/4⟩ 1 1 (Or.inr rfl) (Or.inr rfl)
example := poscar_scale exSys 2 (by norm_num) true
example := fmtExp_error (-1234567 / 1000) 3 (by norm_num)
example := expOf_spec (1 / 8) (by norm_num)
example := index_names_rank2 "g" 2 3 1 2 (by norm_num) (by norm_num)
example := default_dump_columns ["atype", "pos", "atom_id", "stress"] (by decide)

-- `atom_row`: the `Atoms` line of the second atom of `exSys` with image flags (1, 0, -1), every hypothesis discharged.
theorem exCols_core : CoreCols exCols :=
  ⟨⟨_, ⟨[], _, rfl, by simp⟩, rfl⟩, ⟨⟨"atype", ["type"], .none⟩, ⟨[⟨"a_id", ["id"], .none⟩], _, rfl, by decide⟩, rfl⟩,
   ⟨⟨"pos", ["x", "y", "z"], .kind "length"⟩, ⟨[⟨"a_id", ["id"], .none⟩, ⟨"atype", ["type"], .none⟩], _, rfl, by decide⟩, rfl, rfl⟩⟩

example : ∃ L i t p lf, colsLayout exCols = some L ∧ ([1, 2] : List Int)[1]? = some i ∧ exSys.atype[1]? = some t ∧
    exSys.pos[1]? = some p ∧ exUnits.factor? "length" = some lf ∧
    readAtomLine L (([[Cell.int 2], [Cell.int 2], [Cell.num (9/2), Cell.num 1, Cell.num 6]].flatten ++
        flagToks (some ⟨1, 0, -1⟩)).map (Cell.tok (.fixed 3))) =
      some { id := i, type := t, pos := v3map (fmtVal (.fixed 3)) (v3map (divBy lf) p), image := ⟨1, 0, -1⟩,
             fields := [Cell.int 2, Cell.int 2, Cell.num (9/2), Cell.num 1, Cell.num 6].map (Cell.val (.fixed 3)) } := by
  obtain ⟨L, _, hL⟩ := layoutOf_styleCols atom_tables_agree "atomic" exCols atomCols_atomic
  obtain ⟨i, t, p, lf, h1, h2, h3, h4, h5⟩ := atom_row exSys exUnits [1, 2] exSys.pos 1 (.fixed 3)
    (by intro col hcol; simp [exSys] at hcol) exCols L hL (by decide) exCols_core
    [[Cell.int 2], [Cell.int 2], [Cell.num (9/2), Cell.num 1, Cell.num 6]]
    (.cons (by decide +kernel) (.cons (by decide +kernel) (.cons (by decide +kernel) .nil))) (some ⟨1, 0, -1⟩)
  exact ⟨L, i, t, p, lf, hL, h1, h2, h3, h4, h5⟩

/-- `exSys` with per-atom velocities. -/
def exVelSys : Sys := { exSys with props := [⟨"velocity", false, 3, [[1, 2, 3], [-4, 5/2, 0]]⟩] }
def exVelCols : List ColSpec := [⟨"a_id", ["id"], .none⟩, ⟨"velocity", ["vx", "vy", "vz"], .kind "velocity"⟩]
theorem velCols_atomic : velCols "atomic" = some exVelCols := by
  unfold velCols styleCols
  simp only [styleWords_atomic]
  decide +kernel

example : (exVelCols.map (·.prop)).Nodup := vel_columns_no_property_twice "atomic" exVelCols velCols_atomic

-- `vel_row`: second atom of `exVelSys`, velocity unit 1/2 (so the cells are the stored values times two).
example : ∃ VL i, colsLayout exVelCols = some VL ∧ ([1, 2] : List Int)[1]? = some i ∧
    readVelLine VL ([[Cell.int 2], [Cell.num (-8), Cell.num 5, Cell.num 0]].flatten.map (Cell.tok (.fixed 3))) =
      some { id := i, fields := [Cell.int 2, Cell.num (-8), Cell.num 5, Cell.num 0].map (Cell.val (.fixed 3)) } := by
  obtain ⟨VL, _, hL⟩ := layoutOf_styleCols vel_tables_agree "atomic" exVelCols velCols_atomic
  obtain ⟨i, h1, h2⟩ := vel_row exVelSys [("length", some 1), ("velocity", some (1/2))] [1, 2] exVelSys.pos 1 (.fixed 3)
    (by intro col hcol; simp [exVelSys] at hcol; subst hcol; decide) exVelCols VL hL (by decide) ⟨_, _, rfl, rfl⟩
    [[Cell.int 2], [Cell.num (-8), Cell.num 5, Cell.num 0]]
    (.cons (by decide +kernel) (.cons (by decide +kernel) .nil))
  exact ⟨VL, i, hL, h1, h2⟩

-- `readDataFile_dataDoc`: a two-atom document with a `Velocities` section, all four hypotheses.
example : readDataFile (renderLines (dataDocOf (.fixed 3) "atomic"
      ⟨2, 2, ⟨-1, 3, 0, 3, 0, 5, 1, 0, 0⟩, [[.int 1, .int 1, .num 0, .num 0, .num 0], [.int 2, .int 2, .num (1/2), .num 1, .num 6]],
        some [[.int 1, .num 1, .num 2, .num 3], [.int 2, .num (-4), .num (5/2), .num 0]]⟩)) =
    some { natoms := 2, ntypes := 2, hilo := (⟨-1, 3, 0, 3, 0, 5, 1, 0, 0⟩ : HiLo).map (fmtVal (.fixed 3)),
           styleHint := (styleWords "atomic").map strTok,
           atoms := rowsDoc (.fixed 3) [[.int 1, .int 1, .num 0, .num 0, .num 0], [.int 2, .int 2, .num (1/2), .num 1, .num 6]],
           velocities := some (rowsDoc (.fixed 3) [[.int 1, .num 1, .num 2, .num 3], [.int 2, .num (-4), .num (5/2), .num 0]]) } :=
  readDataFile_dataDoc (.fixed 3) "atomic" _ (by intro w hw; rw [styleWords_atomic] at hw; simp at hw; subst hw; decide)
    rfl (by decide) (by intro vr h; cases h; exact ⟨rfl, by decide⟩)

end AuditExamples

end Atomman.C07
