/-
  C07 — property theorems: written LAMMPS data / dump and POSCAR files are well-formed and describe the system.
  Model: Atomman/C07.lean (writers, independent parsers), tables: Atomman/Generated/AtomStyles.lean (regenerated
  from /repo on every run).
-/
import Proofs.C07_Lemmas
namespace Atomman.C07
open Atomman
set_option linter.unusedSimpArgs false

/-! ## printing and reading numbers -/

/-- **fmtFixed_error**: what an independent reader gets from the printed text differs from the exact value by at
    most half a unit of the last printed place. -/
theorem fmtFixed_error (q : ℚ) (n : Nat) :
    ∃ v, parseNum? (fmtFixed q n) = some v ∧ |v - q| ≤ 1 / (2 * 10 ^ n) :=
  ⟨fixedVal q n, parseNum_fmtFixed q n, fixedVal_error q n⟩

example : parseNum? (fmtFixed (5 / 2) 0) = some 2 := by decide +kernel
example : fmtFixed (-1 / 8) 2 = cs!"-0.12" := by decide +kernel

/-! ## LAMMPS bounding box of a triclinic cell (dump manual page) -/

/-- **dump_bbox** (inverse): removing the tilt extents from the written bounding box gives back `xlo … zhi`. -/
theorem dump_bbox (h : HiLo) : hiLoOfBBox (bboxOf h) h.xy h.xz h.yz = h := by
  cases h
  simp only [hiLoOfBBox, bboxOf, HiLo.mk.injEq]
  refine ⟨?_, ?_, ?_, ?_, ?_⟩ <;> simp

/-- the written bounds are the LAMMPS formulas `xlo + MIN(0,xy,xz,xy+xz)` …: they bound the x (resp. y)
    coordinate of every corner `origin + a·A + b·B + c·C`, `a,b,c ∈ {0,1}`, and are attained. -/
theorem dump_bbox_corners (h : HiLo) (b c : ℚ) (hb : b = 0 ∨ b = 1) (hc : c = 0 ∨ c = 1) :
    (bboxOf h).xlo ≤ h.xlo + b * h.xy + c * h.xz ∧ h.xhi + b * h.xy + c * h.xz ≤ (bboxOf h).xhi ∧
    (bboxOf h).ylo ≤ h.ylo + c * h.yz ∧ h.yhi + c * h.yz ≤ (bboxOf h).yhi := by
  simp only [bboxOf, min4, max4]
  rcases hb with rfl | rfl <;> rcases hc with rfl | rfl <;>
    (refine ⟨?_, ?_, ?_, ?_⟩ <;> split_ifs <;> linarith)

/-- `lo < hi` survives the bounding-box map (and its inverse, by `dump_bbox`). -/
theorem dump_bbox_lo_lt_hi (h : HiLo) (hx : h.xlo < h.xhi) (hy : h.ylo < h.yhi) :
    (bboxOf h).xlo < (bboxOf h).xhi ∧ (bboxOf h).ylo < (bboxOf h).yhi := by
  simp only [bboxOf, min4, max4]
  constructor <;> split_ifs <;> linarith

example : bboxOf ⟨0, 4, 0, 8, 0, 2, 3/2, -1/2, 1/4⟩ = ⟨-1/2, 11/2, 0, 33/4, 0, 2⟩ := by decide +kernel

/-! ## POSCAR: the universal scaling factor applies to the lattice AND to Cartesian coordinates -/

theorem v3_smul_div (v : V3 ℚ) (c : ℚ) (hc : c ≠ 0) : V3.smul c (v3div v c) = v := by
  cases v; simp only [V3.smul, v3div, V3.mk.injEq]
  refine ⟨?_, ?_, ?_⟩ <;> field_simp

theorem groupByType_map {α β : Type} (f : α → β) (atype : List Int) (xs : List α) (n : Nat) :
    groupByType atype (xs.map f) n = (groupByType atype xs n).map f := by
  unfold groupByType
  rw [List.map_flatten, List.map_map]
  congr 1
  apply List.map_congr_left
  intro i _
  simp only [Function.comp]
  induction atype generalizing xs with
  | nil => simp
  | cons a as ih =>
    cases xs with
    | nil => simp
    | cons x xs =>
      simp only [List.map_cons, List.zip_cons_cons, List.filter_cons]
      split <;> simp [ih]

/-- **poscar_scale**: a reader that multiplies the three lattice rows and (in Cartesian mode) every coordinate
    row by the scale factor recovers the cell vectors and the positions grouped by type. -/
theorem poscar_scale (s : Sys) (sc : ℚ) (hsc : sc ≠ 0) (cart : Bool) :
    let p := poscarNums s cart sc
    V3.smul sc p.lattice.r0 = s.box.vects.r0 ∧ V3.smul sc p.lattice.r1 = s.box.vects.r1 ∧
    V3.smul sc p.lattice.r2 = s.box.vects.r2 ∧
    (cart = true → p.coords.map (V3.smul sc) = groupByType s.atype s.pos s.natypes) := by
  refine ⟨v3_smul_div _ _ hsc, v3_smul_div _ _ hsc, v3_smul_div _ _ hsc, ?_⟩
  intro hc
  subst hc
  simp only [poscarNums, if_true]
  rw [← groupByType_map, List.map_map]
  congr 1
  conv_rhs => rw [← List.map_id s.pos]
  apply List.map_congr_left
  intro v _
  exact v3_smul_div v sc hsc

/-! ## the command snippet names what the writer used -/

def bflag (p : Bool) : Tok := if p then cs!"p" else cs!"m"

/-- **info_names_used**: whenever `dumpData` succeeds, the snippet has a `units` line naming the unit style, an
    `atom_style` line naming the atom style — the same words the `Atoms # …` line of the content carries — and a
    `boundary` line with `p` exactly for the periodic directions; `read_data` names the file when one was given. -/
theorem info_names_used (s : Sys) (style unitsName : String) (u : Units) (f : Fmt) (fname : Option String)
    (content info : List Char) (h : dumpData s style unitsName u f fname = .ok (content, info)) :
    info = renderLines (infoDoc s.pbc style unitsName fname) ∧
    [cs!"units", strTok unitsName] ∈ infoDoc s.pbc style unitsName fname ∧
    (cs!"atom_style" :: (styleWords style).map strTok) ∈ infoDoc s.pbc style unitsName fname ∧
    [cs!"boundary", bflag s.pbc.x, bflag s.pbc.y, bflag s.pbc.z] ∈ infoDoc s.pbc style unitsName fname ∧
    (∀ n, fname = some n → [cs!"read_data", strTok n] ∈ infoDoc s.pbc style unitsName fname) ∧
    (∃ o, writeDataDoc s style u f = .ok o ∧ content = renderLines o.doc ∧
      ([cs!"Atoms", cs!"#"] ++ (styleWords style).map strTok) ∈ o.doc) := by
  unfold dumpData writeData at h
  cases hw : writeDataDoc s style u f with
  | error e => rw [hw] at h; simp [Except.map] at h
  | ok o =>
    rw [hw] at h
    simp only [Except.map, Except.ok.injEq, Prod.mk.injEq] at h
    obtain ⟨h1, h2⟩ := h
    refine ⟨h2.symm, ?_, ?_, ?_, ?_, o, rfl, h1.symm, ?_⟩
    · simp [infoDoc]
    · simp [infoDoc]
    · simp [infoDoc, bflag]
    · intro n hn; subst hn; simp [infoDoc]
    · unfold writeDataDoc at hw
      cases hp : dataParts s style u with
      | error e => rw [hp] at hw; simp [Except.map] at hw
      | ok pw =>
        rw [hp] at hw
        simp only [Except.map, Except.ok.injEq] at hw
        subst hw
        simp [dataDocOf]

/-! ## the generated column / unit tables against the hand-encoded LAMMPS manual tables -/

/-- **atom_style_columns_match_lammps**: for every atom_style of the LAMMPS manual table, the columns atomman
    writes in the `Atoms` section (regenerated from `atoms_prop_info.py`) are the manual's fields in the manual's
    order, each in the manual's kind of unit; and atomman knows no style outside the table. -/
theorem atom_style_columns_match_lammps :
    (∀ e ∈ lammpsAtomLayout,
      (Gen.AtomStyles.atomStyles.find? (·.1 = e.1)).map (fun g => genAsFields g.2) = some e.2) ∧
    (∀ g ∈ Gen.AtomStyles.atomStyles, lammpsAtomLayout.any (·.1 = g.1) = true) := by
  decide +kernel

theorem velocity_columns_match_lammps :
    (∀ e ∈ lammpsVelLayout,
      (Gen.AtomStyles.velStyles.find? (·.1 = e.1)).map (fun g => genAsFields g.2) = some e.2) ∧
    (∀ g ∈ Gen.AtomStyles.velStyles, lammpsVelLayout.any (·.1 = g.1) = true) := by
  decide +kernel

/-- every standard column of the dump writer is a `dump custom` attribute with the manual's kind of unit. -/
theorem dump_columns_match_lammps :
    ∀ c ∈ genDumpColumns Gen.AtomStyles.dumpStandard, c ∈ lammpsDumpColumns := by
  decide +kernel

/-- the unit expressions of the unit styles, for the kinds per-atom columns use, are those of the `units` page;
    every table forwards the unit style it was asked for (hybrid composition included). -/
theorem unit_styles_match_lammps :
    (∀ e ∈ lammpsUnitKinds, ∀ kv ∈ e.2,
      ((Gen.AtomStyles.unitStyles.find? (·.1 = e.1)).bind fun g => (g.2.find? (·.1 = kv.1)).map (·.2)) = some kv.2) ∧
    Gen.AtomStyles.forwardsUnits = true := by
  decide +kernel

end Atomman.C07
