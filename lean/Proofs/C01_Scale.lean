/-
  C01 — the same cell in another unit of length.

  `scaleBox s b` = every cell vector and the origin times `s`.  Lengths scale with `|s|`, squares with `s²`, the volume with
  `|s|³`, reciprocal vectors with `s⁻¹`; the cosines of the cell angles, relative coordinates, `is_lammps_norm` (s > 0) and
  hence inside / outside do not depend on the unit.  This is what the failing-input search uses when it evaluates the
  clauses for cells of size 2^±500 on the exactly rescaled cell, and the reason an implementation whose angles depend on the
  unit (a product of four lengths under one square root leaving the double range) breaks the property.
-/
import Proofs.C01_Lemmas
import Mathlib.Tactic.LinearCombination
import Mathlib.Tactic.NormNum

namespace Atomman.C01
open Atomman
set_option linter.unusedSimpArgs false
set_option linter.unusedSectionVars false
set_option linter.unusedVariables false

variable {K : Type} [Field K] [LinearOrder K] [IsStrictOrderedRing K]

theorem scale_lengths_sq (s : K) (b : Box K) :
    a2 (scaleBox s b) = s * s * a2 b ∧ b2 (scaleBox s b) = s * s * b2 b ∧ c2 (scaleBox s b) = s * s * c2 b := by
  refine ⟨?_, ?_, ?_⟩ <;> simp only [a2, b2, c2, scaleBox, scaleM, scaleV, V3.normSq, V3.dot] <;> ring

theorem scale_dots (s : K) (b : Box K) :
    dotBC (scaleBox s b) = s * s * dotBC b ∧ dotAC (scaleBox s b) = s * s * dotAC b ∧
    dotAB (scaleBox s b) = s * s * dotAB b := by
  refine ⟨?_, ?_, ?_⟩ <;> simp only [dotBC, dotAC, dotAB, scaleBox, scaleM, scaleV, V3.dot] <;> ring

theorem scale_gram (s : K) (v : M3 K) : gram (scaleM s v) = scaleM (s * s) (gram v) := by
  simp only [gram, M3.mul, M3.transpose, scaleM, scaleV, M3.vecMul, V3.get, M3.mk.injEq, V3.mk.injEq]
  refine ⟨⟨?_, ?_, ?_⟩, ⟨?_, ?_, ?_⟩, ⟨?_, ?_, ?_⟩⟩ <;> ring

/-- the angle between two cell vectors does not depend on the unit: if `c` is the cosine of the angle between `u`, `v`
    (`c * (lu * lv) = u·v` with `lu lv` the lengths), it is the cosine between `s u` and `s v`, whose lengths are `|s| lu`, `|s| lv`. -/
theorem scale_angle_cos (s : K) (hs : s ≠ 0) (u v : V3 K) (lu lv c : K)
    (hlu : lu * lu = V3.normSq u) (hlv : lv * lv = V3.normSq v) (h0u : 0 < lu) (h0v : 0 < lv)
    (hc : c * (lu * lv) = V3.dot u v) :
    (|s| * lu) * (|s| * lu) = V3.normSq (scaleV s u) ∧ (|s| * lv) * (|s| * lv) = V3.normSq (scaleV s v) ∧
    0 < |s| * lu ∧ 0 < |s| * lv ∧ c * ((|s| * lu) * (|s| * lv)) = V3.dot (scaleV s u) (scaleV s v) := by
  have hss : |s| * |s| = s * s := abs_mul_abs_self s
  have hp : 0 < |s| := abs_pos.mpr hs
  refine ⟨?_, ?_, mul_pos hp h0u, mul_pos hp h0v, ?_⟩
  · simp only [V3.normSq, V3.dot, scaleV] at hlu ⊢
    linear_combination (lu * lu) * hss + (s * s) * hlu
  · simp only [V3.normSq, V3.dot, scaleV] at hlv ⊢
    linear_combination (lv * lv) * hss + (s * s) * hlv
  · simp only [V3.dot, scaleV] at hc ⊢
    linear_combination (c * lu * lv) * hss + (s * s) * hc

theorem scale_det (s : K) (v : M3 K) : (scaleM s v).det = s * s * s * v.det := by
  simp only [M3.det, scaleM, scaleV, V3.dot, V3.cross]; ring

theorem scale_volume (s : K) (b : Box K) : volume (scaleBox s b) = |s| * |s| * |s| * volume b := by
  simp only [volume, absK_eq_abs]
  have : V3.dot (scaleBox s b).vects.r0 (V3.cross (scaleBox s b).vects.r1 (scaleBox s b).vects.r2)
      = s * s * s * V3.dot b.vects.r0 (V3.cross b.vects.r1 b.vects.r2) := by
    simp only [scaleBox, scaleM, scaleV, V3.dot, V3.cross]; ring
  rw [this, abs_mul, abs_mul, abs_mul]

theorem scale_isLammpsNorm (s : K) (hs : 0 < s) (b : Box K) :
    (scaleBox s b).isLammpsNorm = b.isLammpsNorm := by
  have h : ∀ x : K, (s * x = 0 ↔ x = 0) := fun x => by
    constructor
    · intro h; rcases mul_eq_zero.mp h with h | h
      · exact absurd h (ne_of_gt hs)
      · exact h
    · intro h; rw [h, mul_zero]
  have hp : ∀ x : K, (0 < s * x ↔ 0 < x) := fun x => by
    constructor
    · intro h; exact (pos_iff_pos_of_mul_pos h).mp hs
    · intro h; exact mul_pos hs h
  simp only [Box.isLammpsNorm, scaleBox, scaleM, scaleV, h, hp]

theorem scale_relToCart (s : K) (b : Box K) (r : V3 K) :
    (scaleBox s b).relToCart r = scaleV s (b.relToCart r) := by
  simp only [Box.relToCart, scaleBox, scaleM, scaleV, M3.vecMul, V3.add_def, V3.mk.injEq]
  refine ⟨?_, ?_, ?_⟩ <;> ring

theorem scale_recip (s : K) (hs : s ≠ 0) (b : Box K) (hd : b.vects.det ≠ 0) :
    (scaleBox s b).recip = scaleM s⁻¹ b.recip := by
  have hd' : V3.dot b.vects.r0 (V3.cross b.vects.r1 b.vects.r2) ≠ 0 := hd
  simp only [Box.recip, scaleBox, scaleM, scaleV, M3.inv, M3.transpose, M3.det, V3.dot, V3.cross, V3.get,
    M3.mk.injEq, V3.mk.injEq] at hd' ⊢
  refine ⟨⟨?_, ?_, ?_⟩, ⟨?_, ?_, ?_⟩, ⟨?_, ?_, ?_⟩⟩ <;> field_simp

theorem scale_cartToRel (s : K) (hs : s ≠ 0) (b : Box K) (hd : b.vects.det ≠ 0) (p : V3 K) :
    (scaleBox s b).cartToRel (scaleV s p) = b.cartToRel p := by
  have hd' : V3.dot b.vects.r0 (V3.cross b.vects.r1 b.vects.r2) ≠ 0 := hd
  simp only [Box.cartToRel, Box.recip, scaleBox, scaleM, scaleV, M3.inv, M3.transpose, M3.mulVec, M3.det, V3.dot,
    V3.cross, V3.get, V3.sub_def, V3.mk.injEq] at hd' ⊢
  refine ⟨?_, ?_, ?_⟩ <;> field_simp <;> ring

/-! ### `vect_angle`: the cosine it computes is the cosine of the angle, lies in [-1, 1], and does not depend on the unit -/

theorem angleCos_spec (u v : V3 K) (n1 n2 : K) (h1 : 0 < n1) (h2 : 0 < n2) :
    angleCos u v n1 n2 * (n1 * n2) = V3.dot u v := by
  have e1 : n1 ≠ 0 := ne_of_gt h1
  have e2 : n2 ≠ 0 := ne_of_gt h2
  simp only [angleCos, vdiv, V3.dot]
  field_simp

/-- Cauchy–Schwarz: with the exact norms the cosine lies in [-1, 1], so the clamp before `arccos` only absorbs rounding. -/
theorem angleCos_sq_le_one (u v : V3 K) (n1 n2 : K) (h1 : 0 < n1) (h2 : 0 < n2)
    (hn1 : n1 * n1 = V3.normSq u) (hn2 : n2 * n2 = V3.normSq v) :
    angleCos u v n1 n2 * angleCos u v n1 n2 ≤ 1 := by
  have hs := angleCos_spec u v n1 n2 h1 h2
  have hp : 0 < n1 * n2 := mul_pos h1 h2
  -- Lagrange: |u|²|v|² - (u·v)² = |u × v|² ≥ 0
  have lag : V3.normSq u * V3.normSq v - V3.dot u v * V3.dot u v = V3.normSq (V3.cross u v) := by
    simp only [V3.normSq, V3.dot, V3.cross]; ring
  have hc : 0 ≤ V3.normSq (V3.cross u v) := by
    simp only [V3.normSq, V3.dot]
    exact add_nonneg (add_nonneg (mul_self_nonneg _) (mul_self_nonneg _)) (mul_self_nonneg _)
  have key : (angleCos u v n1 n2 * angleCos u v n1 n2) * ((n1 * n2) * (n1 * n2)) ≤ 1 * ((n1 * n2) * (n1 * n2)) := by
    have : (angleCos u v n1 n2 * angleCos u v n1 n2) * ((n1 * n2) * (n1 * n2)) = V3.dot u v * V3.dot u v := by
      rw [← hs]; ring
    rw [this]
    have : (n1 * n2) * (n1 * n2) = V3.normSq u * V3.normSq v := by rw [← hn1, ← hn2]; ring
    rw [one_mul, this]; linarith
  exact le_of_mul_le_mul_right key (mul_pos hp hp)

/-- the cosine computed by `vect_angle` does not depend on the unit of length. -/
theorem angleCos_scale (s : K) (hs : s ≠ 0) (u v : V3 K) (n1 n2 : K) (h1 : 0 < n1) (h2 : 0 < n2) :
    angleCos (scaleV s u) (scaleV s v) (|s| * n1) (|s| * n2) = angleCos u v n1 n2 := by
  have e1 : n1 ≠ 0 := ne_of_gt h1
  have e2 : n2 ≠ 0 := ne_of_gt h2
  have ha : |s| ≠ 0 := abs_ne_zero.mpr hs
  have hss : |s| * |s| = s * s := abs_mul_abs_self s
  simp only [angleCos, vdiv, V3.dot, scaleV]
  field_simp
  linear_combination (-(u.x * v.x + u.y * v.y + u.z * v.z)) * hss

end Atomman.C01
