/-
  C11 — `normalized_as`: each generated normalisation formula, applied to a tensor that already has the target
  form (the generated template of the system), returns the same constants.
-/
import Proofs.C11_Iso

namespace Atomman.C11
open Atomman.Gen Matrix
set_option linter.unusedSectionVars false
set_option linter.unusedSimpArgs false
set_option linter.unusedVariables false
set_option linter.unnecessarySeqFocus false
set_option linter.unusedTactic false
set_option linter.unreachableTactic false

variable {K : Type} [Field K] [CharZero K]

theorem m6_normalized_triclinic (c : M6 K) : m6 (normalized_triclinic c) = c := by
  funext a b
  fin_cases a <;> fin_cases b <;> simp [m6, normalized_triclinic]

theorem norm_fix_cubic (a b d : K) : normalized_cubic (m6 (ctor_C11_C12_C44 a b d)) = ctor_C11_C12_C44 a b d := by
  simp only [normalized_cubic]
  congr 1 <;> (simp [m6, ctor_C11_C12_C44] <;> field_simp <;> ring)

theorem norm_fix_hexagonal (C11 C12 C13 C33 C44 : K) :
    normalized_hexagonal (m6 (ctor_C11_C12_C13_C33_C44 C11 C12 C13 C33 C44))
      = ctor_C11_C12_C13_C33_C44 C11 C12 C13 C33 C44 := by
  simp only [normalized_hexagonal]
  congr 1 <;> (simp [m6, ctor_C11_C12_C13_C33_C44] <;> field_simp <;> ring)

theorem norm_fix_tetragonal (C11 C12 C13 C16 C33 C44 C66 : K) :
    normalized_tetragonal (m6 (ctor_C11_C12_C13_C16_C33_C44_C66 C11 C12 C13 C16 C33 C44 C66))
      = ctor_C11_C12_C13_C16_C33_C44_C66 C11 C12 C13 C16 C33 C44 C66 := by
  simp only [normalized_tetragonal]
  congr 1 <;> (simp [m6, ctor_C11_C12_C13_C16_C33_C44_C66] <;> field_simp <;> ring)

theorem norm_fix_rhombohedral (C11 C12 C13 C14 C15 C33 C44 : K) :
    normalized_rhombohedral (m6 (ctor_C11_C12_C13_C14_C15_C33_C44 C11 C12 C13 C14 C15 C33 C44))
      = ctor_C11_C12_C13_C14_C15_C33_C44 C11 C12 C13 C14 C15 C33 C44 := by
  simp only [normalized_rhombohedral]
  congr 1 <;> (simp [m6, ctor_C11_C12_C13_C14_C15_C33_C44] <;> field_simp <;> ring)

theorem norm_fix_orthorhombic (C11 C12 C13 C22 C23 C33 C44 C55 C66 : K) :
    normalized_orthorhombic (m6 (ctor_C11_C12_C13_C22_C23_C33_C44_C55_C66 C11 C12 C13 C22 C23 C33 C44 C55 C66))
      = ctor_C11_C12_C13_C22_C23_C33_C44_C55_C66 C11 C12 C13 C22 C23 C33 C44 C55 C66 := by
  simp only [normalized_orthorhombic]
  congr 1 <;> simp [m6, ctor_C11_C12_C13_C22_C23_C33_C44_C55_C66]

theorem norm_fix_monoclinic (C11 C12 C13 C15 C22 C23 C25 C33 C35 C44 C46 C55 C66 : K) :
    normalized_monoclinic (m6 (ctor_C11_C12_C13_C15_C22_C23_C25_C33_C35_C44_C46_C55_C66
        C11 C12 C13 C15 C22 C23 C25 C33 C35 C44 C46 C55 C66))
      = ctor_C11_C12_C13_C15_C22_C23_C25_C33_C35_C44_C46_C55_C66 C11 C12 C13 C15 C22 C23 C25 C33 C35 C44 C46 C55 C66 := by
  simp only [normalized_monoclinic]
  congr 1 <;> simp [m6, ctor_C11_C12_C13_C15_C22_C23_C25_C33_C35_C44_C46_C55_C66]

/-- isotropic: the Hill averages of `ElasticConstants(mu=, K=)` are `mu`, `K` (for any two-sided inverse). -/
theorem norm_fix_isotropic (mu Kb : K) (hmu : mu ≠ 0) (hK : Kb ≠ 0) (s' : M6 K)
    (hsc : ∀ a d, ∑ b, s' a b * m6 (ctor_mu_K mu Kb) b d = if a = d then 1 else 0) :
    normalized_isotropic (m6 (ctor_mu_K mu Kb)) s' = ctor_mu_K mu Kb := by
  have hs : s' = isoS mu Kb := inverse_unique _ _ _ hsc (iso_mul_isoS mu Kb hmu hK)
  obtain ⟨h1, h2⟩ := hill_of_iso mu Kb hmu hK
  simp only [normalized_isotropic, hs, h1, h2]

end Atomman.C11
