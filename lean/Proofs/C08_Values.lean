/-
  C08 — load ∘ dump of the generic table in closed form, property by property: the loaded property holds the
  printed values of its own columns (times the unit factor), one row per atom, under the shape of its entry.
-/
import Proofs.C08_Data
import Proofs.C08_Shape
namespace Atomman.C08
open Atomman Atomman.C07
set_option linter.unusedSimpArgs false
set_option linter.unusedVariables false

/-- `splitCols` on any kind of cell. -/
def splitG {α : Type} : List PCol → List α → List (List α)
  | [], _ => []
  | c :: cs, r => r.take c.names.length :: splitG cs (r.drop c.names.length)

/-- the entries of column group `j` in one row. -/
def groupG {α : Type} (cols : List PCol) (j : Nat) (r : List α) : List α := ((splitG cols r)[j]?).getD []

theorem splitCols_eq_splitG (cols : List PCol) (r : List Val) : splitCols cols r = splitG cols r := by
  induction cols generalizing r with
  | nil => rfl
  | cons c cs ih => simp [splitCols, splitG, ih]

theorem splitG_map {α β : Type} (g : α → β) (cols : List PCol) (r : List α) :
    (splitG cols r).map (·.map g) = splitG cols (r.map g) := by
  induction cols generalizing r with
  | nil => rfl
  | cons c cs ih => simp [splitG, ih, List.map_take, List.map_drop]

theorem groupCells_map (g : Val → Rat) (cols : List PCol) (j : Nat) (r : List Val) :
    (groupCells cols j r).map g = groupG cols j (r.map g) := by
  unfold groupCells groupG
  rw [splitCols_eq_splitG, ← splitG_map g cols r, List.getElem?_map]
  cases (splitG cols r)[j]? <;> rfl

/-- rows written by a C07 writer in ascending id order, one per atom: every listed property comes back as the
    printed values of its column group (times its unit factor), under the shape of its `prop_info` entry. -/
theorem table_values_of_rows {f : Fmt} (hf : Readable f) (s s' : Loaded) (rows : List (List Cell)) (cols : List PCol)
    (n : Nat) (usecols : Bool) (hne : rows ≠ []) (hn : ∀ r ∈ rows, r.length = n)
    (hw : if usecols then colsWidth cols ≤ n else n = colsWidth cols)
    (hs : ∀ i, idIndex cols = some i →
      (rows.map fun r => (r.take (colsWidth cols)).map (cellRat f)).Pairwise fun a b => (a[i]?).getD 0 ≤ (b[i]?).getD 0)
    (hnd : (cols.map (·.prop)).Nodup) (hrows : rows.length = s.natoms)
    (h : tableLoad s (rowsDoc f rows) cols usecols = .ok s') :
    ∀ (j : Nat) (hj : j < cols.length), cols[j].prop ≠ "a_id" →
      ∃ q, s'.prop? cols[j].prop = some q ∧ q.shape = cols[j].shape ∧
        (cols[j].unit = .none →
          q.vals = rows.map fun r => groupG cols j ((r.take (colsWidth cols)).map (cellRat f))) ∧
        (∀ u, cols[j].unit = .factor u →
          q.vals = rows.map fun r => (groupG cols j ((r.take (colsWidth cols)).map (cellRat f))).map (· * u)) := by
  obtain ⟨tbl, h1, h2⟩ := tableLoad_rowsDoc hf s rows cols n usecols hne hn hw hs
  rw [h1] at h
  intro j hj hid
  have hlen : tbl.length = s.natoms := by
    have := congrArg List.length h2
    simp only [List.length_map] at this
    rw [this, hrows]
  have hjc : j < (columnCells cols tbl).length := by rw [columnCells_length]; exact hj
  have hcell : (columnCells cols tbl)[j] = tbl.map (groupCells cols j) := by
    simp [columnCells, groupCells]
  obtain ⟨q, hq1, hq2, hq3, hq4⟩ := assignCols_vals s.box cols _ s s' hnd h j hj hjc hid
    (by rw [hcell, List.length_map, hlen])
  refine ⟨q, hq1, hq2, ?_, ?_⟩
  · intro hu
    rw [hq3 hu, hcell, List.map_map]
    have : (fun r => (groupCells cols j r).map Val.toRat) = (groupG cols j) ∘ (fun r : List Val => r.map Val.toRat) := by
      funext r; exact groupCells_map Val.toRat cols j r
    show List.map (fun r => (groupCells cols j r).map Val.toRat) tbl = _
    rw [this, ← List.map_map, h2, List.map_map]
    rfl
  · intro u hu
    rw [hq4 u hu, hcell, List.map_map]
    have : (fun r => (groupCells cols j r).map fun v => v.toRat * u) =
        (fun l => (groupG cols j l).map (· * u)) ∘ (fun r : List Val => r.map Val.toRat) := by
      funext r
      show (groupCells cols j r).map (fun v => v.toRat * u) = (groupG cols j (r.map Val.toRat)).map (· * u)
      rw [← groupCells_map Val.toRat cols j r, List.map_map]
      rfl
    show List.map (fun r => (groupCells cols j r).map fun v => v.toRat * u) tbl = _
    rw [this, ← List.map_map, h2, List.map_map]
    rfl
/-- the same for the whole file `table.dump` writes (header line or not). -/
theorem table_file_values {f : Fmt} (hf : Readable f) (s : Sys) (cols : List ColSpec) (u : Units)
    (header : Bool) (text : List Char) (hw : writeTable s cols u f header = .ok text)
    (hnames : ∀ t ∈ (cols.map fun c => c.names.map strTok).flatten, CleanTok t)
    (hn0 : (cols.map fun c => c.names.map strTok).flatten ≠ []) :
    ∃ rows, tableRows s u (seqIds s.natoms) s.pos cols [] = .ok rows ∧
      ∀ (box : Box Rat) (pcols : List PCol) (s' : Loaded),
        rows ≠ [] → (∀ r ∈ rows, r.length = colsWidth pcols) → colsWidth pcols ≠ 0 →
        (∀ i, idIndex pcols = some i →
          (rows.map fun r => r.map (cellRat f)).Pairwise fun a b => (a[i]?).getD 0 ≤ (b[i]?).getD 0) →
        (pcols.map (·.prop)).Nodup → loadTable text box pcols header = .ok s' →
        s'.natoms = rows.length ∧
        ∀ (j : Nat) (hj : j < pcols.length), pcols[j].prop ≠ "a_id" →
          ∃ q, s'.prop? pcols[j].prop = some q ∧ q.shape = pcols[j].shape ∧
            (pcols[j].unit = .none → q.vals = rows.map fun r => groupG pcols j (r.map (cellRat f))) ∧
            (∀ v, pcols[j].unit = .factor v → q.vals = rows.map fun r => (groupG pcols j (r.map (cellRat f))).map (· * v)) := by
  obtain ⟨rows, hr, hload⟩ := loadTable_writeTable hf s cols u header text hw hnames hn0
  refine ⟨rows, hr, ?_⟩
  intro box pcols s' hne hlen hw0 hs hnd h
  have hrne : ∀ r ∈ rows, r ≠ [] := by
    intro r hr' e
    have := hlen r hr'
    rw [e] at this
    exact hw0 this.symm
  rw [hload hrne box pcols] at h
  have htake : ∀ r ∈ rows, r.take (colsWidth pcols) = r := fun r hr' => by rw [← hlen r hr']; exact List.take_length
  have hmap : (rows.map fun r => (r.take (colsWidth pcols)).map (cellRat f)) = rows.map fun r => r.map (cellRat f) :=
    List.map_congr_left fun r hr' => by rw [htake r hr']
  have key := table_values_of_rows hf (Loaded.init box ⟨true, true, true⟩ rows.length [] []) s' rows pcols
    (colsWidth pcols) false hne hlen (by simp) (by rw [hmap]; exact hs) hnd rfl h
  refine ⟨?_, ?_⟩
  · unfold tableLoad at h
    obtain ⟨tbl, _, h1⟩ := bind_ok _ _ _ h
    exact assignCols_natoms _ _ _ _ _ h1
  · intro j hj hid
    obtain ⟨q, h1, h2, h3, h4⟩ := key j hj hid
    refine ⟨q, h1, h2, ?_, ?_⟩
    · intro hu
      rw [h3 hu]
      exact List.map_congr_left fun r hr' => by rw [htake r hr']
    · intro v hu
      rw [h4 v hu]
      exact List.map_congr_left fun r hr' => by rw [htake r hr']
end Atomman.C08
