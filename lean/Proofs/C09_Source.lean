/-
  C09 — source tie: the definitions of `Atomman/Generated/UnitconvertSource.lean` (regenerated from the current
  atomman/unitconvert.py with python's ast on every run) are proved equal to the hand model of `Atomman/C09.lean`;
  the two `while` loops of `uc.parse` as python writes them (list indexing and slicing, `pyPowLoop` / `pyMulDivLoop`)
  are proved to compute the single passes `powGo` / `mulDivPass` the precedence theorem is about.
-/
import Atomman.C09
import Atomman.Generated.UnitconvertSource
import Proofs.C09_Lemmas
import Mathlib.Tactic.Common

namespace Atomman.C09
open Atomman.Gen

section loops
variable {V : Type} (alg : Alg V)


def NoPow (l : List (Item V)) : Prop := ∀ x ∈ l, Item.isOp .pow x = false

def emit : Option V → List (Item V)
  | none => []
  | some a => [.val a]

theorem noPow_cons {x : Item V} {l : List (Item V)} : NoPow (x :: l) ↔ Item.isOp .pow x = false ∧ NoPow l := by
  simp [NoPow]

theorem split_first_pow : ∀ l : List (Item V), NoPow l ∨ ∃ pre post, l = pre ++ .op .pow :: post ∧ NoPow pre := by
  intro l
  induction l with
  | nil => left; simp [NoPow]
  | cons x xs ih =>
    by_cases hx : Item.isOp .pow x = true
    · right
      refine ⟨[], xs, ?_, by simp [NoPow]⟩
      cases x with
      | val v => simp [Item.isOp] at hx
      | op o => simp [Item.isOp] at hx; simp [hx]
    · have hx' : Item.isOp .pow x = false := by simpa using hx
      rcases ih with h | ⟨pre, post, rfl, hp⟩
      · left; exact noPow_cons.mpr ⟨hx', h⟩
      · right; exact ⟨x :: pre, post, by simp, noPow_cons.mpr ⟨hx', hp⟩⟩

theorem pyIndex_noPow : ∀ l : List (Item V), NoPow l → pyIndex .pow l = none := by
  intro l h
  induction l with
  | nil => rfl
  | cons x xs ih =>
    have := noPow_cons.mp h
    simp [pyIndex, this.1, ih this.2]

theorem pyIndex_split (pre post : List (Item V)) (h : NoPow pre) :
    pyIndex .pow (pre ++ .op .pow :: post) = some pre.length := by
  induction pre with
  | nil => simp [pyIndex, Item.isOp]
  | cons x xs ih =>
    have := noPow_cons.mp h
    simp [pyIndex, this.1, ih this.2]

/-- `powGo` walks through a `^`-free stretch that ends in a value: the value becomes the pending base. -/
theorem powGo_pre_val : ∀ (pre : List (Item V)) (acc : Option V) (a : V) (tail : List (Item V)), NoPow pre →
    powGo alg acc (pre ++ .val a :: tail) = (powGo alg (some a) tail).map (fun r => emit acc ++ pre ++ r) := by
  intro pre
  induction pre with
  | nil =>
    intro acc a tail _
    cases acc <;> simp [powGo, emit]
  | cons x xs ih =>
    intro acc a tail h
    have hh := noPow_cons.mp h
    cases x with
    | val b =>
      cases acc <;> simp [powGo, emit, ih _ _ _ hh.2, Option.map_map, Function.comp_def]
    | op o =>
      cases o with
      | pow => simp [Item.isOp] at hh
      | mul => cases acc <;> simp [powGo, emit, ih _ _ _ hh.2, Option.map_map, Function.comp_def]
      | div => cases acc <;> simp [powGo, emit, ih _ _ _ hh.2, Option.map_map, Function.comp_def]

/-- … that ends in `*` or `/`: nothing is pending. -/
theorem powGo_pre_op : ∀ (pre : List (Item V)) (acc : Option V) (o : Op) (tail : List (Item V)), NoPow pre → o ≠ .pow →
    powGo alg acc (pre ++ .op o :: tail) = (powGo alg none tail).map (fun r => emit acc ++ pre ++ .op o :: r) := by
  intro pre
  induction pre with
  | nil =>
    intro acc o tail _ ho
    cases o with
    | pow => exact absurd rfl ho
    | mul => cases acc <;> simp [powGo, emit, Option.map_map, Function.comp_def]
    | div => cases acc <;> simp [powGo, emit, Option.map_map, Function.comp_def]
  | cons x xs ih =>
    intro acc o tail h ho
    have hh := noPow_cons.mp h
    cases x with
    | val b =>
      cases acc <;> simp [powGo, emit, ih _ _ _ hh.2 ho, Option.map_map, Function.comp_def]
    | op o' =>
      cases o' with
      | pow => simp [Item.isOp] at hh
      | mul => cases acc <;> simp [powGo, emit, ih _ _ _ hh.2 ho, Option.map_map, Function.comp_def]
      | div => cases acc <;> simp [powGo, emit, ih _ _ _ hh.2 ho, Option.map_map, Function.comp_def]

/-- a `^`-free list is left as it is. -/
theorem powGo_noPow : ∀ (l : List (Item V)) (acc : Option V), NoPow l → powGo alg acc l = some (emit acc ++ l) := by
  intro l
  induction l with
  | nil => intro acc _; cases acc <;> simp [powGo, emit]
  | cons x xs ih =>
    intro acc h
    have hh := noPow_cons.mp h
    cases x with
    | val b => cases acc <;> simp [powGo, emit, ih _ hh.2]
    | op o =>
      cases o with
      | pow => simp [Item.isOp] at hh
      | mul => cases acc <;> simp [powGo, emit, ih _ hh.2]
      | div => cases acc <;> simp [powGo, emit, ih _ hh.2]

theorem get_at {α : Type} (pre : List α) (x y z : α) (rest : List α) :
    (pre ++ x :: y :: z :: rest)[pre.length + 1 + 1]? = some z := by
  induction pre with
  | nil => simp
  | cons p ps ih => simp

theorem get_at_end {α : Type} (pre : List α) (x y : α) :
    (pre ++ [x, y])[pre.length + 1 + 1]? = none := by
  induction pre with
  | nil => simp
  | cons p ps ih => simp

theorem drop_at {α : Type} (pre : List α) (x y z : α) (rest : List α) :
    List.drop (pre.length + 1 + 2) (pre ++ x :: y :: z :: rest) = rest := by
  induction pre with
  | nil => simp
  | cons p ps ih => simp

def cntPow (l : List (Item V)) : Nat := l.countP (Item.isOp .pow)

theorem cntPow_noPow {l : List (Item V)} (h : NoPow l) : cntPow l = 0 := by
  simp [cntPow, List.countP_eq_zero]; intro x hx; simp [h x hx]

theorem pyPowLoop_eq_aux : ∀ (f : Nat) (terms : List (Item V)), cntPow terms < f →
    pyPowLoop alg .pow .pow 1 1 1 2 f terms = powGo alg none terms := by
  intro f
  induction f with
  | zero => intro terms h; omega
  | succ f ih =>
    intro terms hc
    rcases split_first_pow terms with h | ⟨pre, post, rfl, hp⟩
    · simp [pyPowLoop, pyPowStep, pyIndex_noPow _ h, powGo_noPow alg _ _ h, emit]
    · rcases List.eq_nil_or_concat pre with rfl | ⟨pre', x, hpre⟩
      · simp [pyPowLoop, pyPowStep, pyIndex, Item.isOp, powGo]
      · rw [List.concat_eq_append] at hpre
        subst hpre
        have hp' : NoPow pre' := fun y hy => hp y (by simp [hy])
        have hx : Item.isOp .pow x = false := hp x (by simp)
        have hidx := pyIndex_split (pre' ++ [x]) post hp
        cases x with
        | op o =>
          have ho : o ≠ .pow := by intro h; simp [Item.isOp, h] at hx
          have e : pre' ++ [Item.op o] ++ Item.op Op.pow :: post = pre' ++ Item.op o :: (Item.op Op.pow :: post) := by simp
          rw [e] at hidx ⊢
          rw [powGo_pre_op alg pre' none o _ hp' ho]
          simp [pyPowLoop, pyPowStep, hidx, powGo]
        | val a =>
          have e : pre' ++ [Item.val a] ++ Item.op Op.pow :: post = pre' ++ Item.val a :: (Item.op Op.pow :: post) := by simp
          rw [e] at hidx hc ⊢
          rw [powGo_pre_val alg pre' none a _ hp']
          cases post with
          | nil => simp [pyPowLoop, pyPowStep, hidx, powGo, get_at_end]
          | cons y rest =>
            cases y with
            | op o2 => simp [pyPowLoop, pyPowStep, hidx, powGo, get_at]
            | val b =>
              cases hv : alg.pow a b with
              | none => simp [pyPowLoop, pyPowStep, hidx, powGo, Alg.apply, hv, get_at]
              | some v =>
                have hcnt : cntPow (pre' ++ Item.val v :: rest) < f := by
                  simp [cntPow, List.countP_append, List.countP_cons, Item.isOp] at hc ⊢; omega
                have hstep : pyPowStep alg .pow .pow 1 1 1 2 (pre' ++ Item.val a :: (Item.op Op.pow :: Item.val b :: rest))
                    = some (some (pre' ++ Item.val v :: rest)) := by
                  simp [pyPowStep, hidx, Alg.apply, hv, get_at, drop_at]
                simp only [pyPowLoop, hstep]
                rw [ih _ hcnt, powGo_pre_val alg pre' none v _ hp']
                simp [powGo, hv, emit]


theorem pyMulDiv_eq_aux : ∀ (f : Nat) (terms : List (Item V)), terms.length < f →
    pyMulDivLoop alg [(.mul, .mul), (.div, .div)] 1 0 2 3 f terms = mulDivPass alg terms := by
  intro f
  induction f with
  | zero => intro terms h; omega
  | succ f ih =>
    intro terms h
    match terms with
    | [] => simp [pyMulDivLoop, mulDivPass]
    | [.val v] => simp [pyMulDivLoop, mulDivPass, mulDiv]
    | [.op o] => simp [pyMulDivLoop, mulDivPass]
    | x :: .val y :: rest => cases x <;> simp [pyMulDivLoop, mulDivPass, mulDiv]
    | x :: .op o :: [] => cases x <;> cases o <;> simp [pyMulDivLoop, mulDivPass, mulDiv]
    | x :: .op o :: .op o2 :: rest => cases x <;> cases o <;> simp [pyMulDivLoop, mulDivPass, mulDiv]
    | .op o1 :: .op o :: .val b :: rest => cases o <;> simp [pyMulDivLoop, mulDivPass, mulDiv]
    | .val a :: .op o :: .val b :: rest =>
      have hl : (Item.val (alg.mul a b |>.getD a) :: rest).length < f := by simp at h ⊢; omega
      cases o with
      | mul =>
        simp only [pyMulDivLoop, mulDivPass, mulDiv, Alg.apply]
        simp
        cases hm : alg.mul a b with
        | none => simp
        | some v => simp; rw [ih]; · simp [mulDivPass]
                    · simp at h ⊢; omega
      | div =>
        simp only [pyMulDivLoop, mulDivPass, mulDiv, Alg.apply]
        simp
        cases hm : alg.div a b with
        | none => simp
        | some v => simp; rw [ih]; · simp [mulDivPass]
                    · simp at h ⊢; omega
      | pow => simp [pyMulDivLoop, mulDivPass, mulDiv]

/-- **the power loop of the source is `powGo`**: with enough turns (one more than the number of `^`). -/
theorem pyPowLoop_eq_powGo (terms : List (Item V)) :
    pyPowLoop alg .pow .pow 1 1 1 2 (terms.length + 1) terms = powGo alg none terms := by
  apply pyPowLoop_eq_aux
  have : cntPow terms ≤ terms.length := List.countP_le_length
  omega

/-- **the multiplication / division loop of the source is `mulDivPass`**. -/
theorem pyMulDivLoop_eq_mulDivPass (terms : List (Item V)) :
    pyMulDivLoop alg [(.mul, .mul), (.div, .div)] 1 0 2 3 (terms.length + 1) terms = mulDivPass alg terms :=
  pyMulDiv_eq_aux alg _ _ (by omega)

end loops

/-! ## generated definition = model, one obligation per definition -/

section gen
variable {V : Type}

theorem gen_isStopName_eq_model : UC.isStopName = isStop := by
  funext c; simp [UC.isStopName, isStop]

theorem gen_isStopNum_eq_model : UC.isStopNum = isStop := by
  funext c; simp [UC.isStopNum, isStop]

theorem gen_isWs_eq_model : UC.isWs = isWs := by
  funext c; simp [UC.isWs, isWs]

theorem gen_isNumStart_eq_model : UC.isNumStart = isNumStart := by
  funext c; simp [UC.isNumStart, isNumStart]

theorem gen_splitParen_eq_model : UC.splitParen = splitParen := by
  funext cs
  induction cs with
  | nil => funext k; simp [UC.splitParen, splitParen]
  | cons c cs ih =>
    funext k
    cases k <;> simp [UC.splitParen, splitParen, ih]

theorem gen_powLoop_eq_model (alg : Alg V) (terms : List (Item V)) :
    UC.powLoop alg (terms.length + 1) terms = powGo alg none terms :=
  pyPowLoop_eq_powGo alg terms

theorem gen_mulDivLoop_eq_model (alg : Alg V) (terms : List (Item V)) :
    UC.mulDivLoop alg (terms.length + 1) terms = mulDivPass alg terms :=
  pyMulDivLoop_eq_mulDivPass alg terms

theorem gen_reduce_eq_model (alg : Alg V) : UC.reduce alg = reduce alg := by
  funext its
  simp only [UC.reduce, reduce, gen_powLoop_eq_model, gen_mulDivLoop_eq_model]

theorem gen_scan_eq_model (alg : Alg V) (env : List Char → Option V) : UC.scan alg env = scan alg env := by
  funext f
  induction f with
  | zero => funext cs; cases cs <;> simp [UC.scan, scan]
  | succ f ih =>
    funext cs
    cases cs with
    | nil => simp [UC.scan, scan]
    | cons c cs =>
      simp only [UC.scan, scan, ih, gen_reduce_eq_model, gen_splitParen_eq_model, gen_isStopName_eq_model,
        gen_isStopNum_eq_model, gen_isWs_eq_model, gen_isNumStart_eq_model]
      simp only [ite_self]
      rfl

theorem gen_parse_eq_model (alg : Alg V) (env : List Char → Option V) : UC.parse alg env = parse alg env := by
  funext cs
  simp only [UC.parse, parse, gen_scan_eq_model, gen_reduce_eq_model]

theorem gen_parseUnits_eq_model (alg : Alg V) (env : List Char → Option V) :
    UC.parseUnits alg env = parseUnits alg env := by
  funext u
  cases u <;> simp [UC.parseUnits, parseUnits, UC.noneValue, UC.scaledWord, gen_parse_eq_model]

theorem gen_setInUnits_eq_model {K : Type} [Mul K] : @UC.setInUnits K _ = setInUnits := rfl
theorem gen_getInUnits_eq_model {K : Type} [Div K] : @UC.getInUnits K _ = getInUnits := rfl
theorem gen_splitPoints_eq_model : UC.splitPoints = splitPoints := rfl

theorem gen_setLiteralV_eq_model {K : Type} [Mul K] [Div K] [OfNat K 1] [IntCast K] [NatCast K]
    (alg : Alg K) (env : List Char → Option K) : UC.setLiteralV alg env = setLiteralV alg env := by
  funext term
  simp only [UC.setLiteralV, setLiteralV, gen_parseUnits_eq_model, gen_splitPoints_eq_model, UC.setInUnits,
    List.map_map, Function.comp_def]
  rfl

theorem gen_valueUnit_eq_model {K : Type} [Mul K] (alg : Alg K) (env : List Char → Option K) :
    UC.valueUnit alg env = valueUnit alg env := by
  funext t
  simp only [UC.valueUnit, valueUnit, gen_parseUnits_eq_model, gen_setInUnits_eq_model]
  rfl

theorem gen_ucModel_eq_model {K : Type} [Div K] [OfNat K 0] [DecidableEq K] (alg : Alg K) (env : List Char → Option K) :
    UC.ucModel alg env = ucModel alg env := by
  funext a units
  simp only [UC.ucModel, ucModel, gen_parseUnits_eq_model, gen_getInUnits_eq_model, UC.ndimScalar, UC.ndimList]
  congr 1
  funext vs
  rcases a with ⟨sh, vals⟩
  match sh with
  | [] => simp
  | [_] => simp
  | _ :: _ :: _ => simp

theorem gen_choiceOf_eq_model : UC.choiceOf = choiceOf := rfl
theorem gen_resetPath_eq_model : UC.resetPath = resetPath := rfl

theorem gen_radicand_eq_model {K : Type} [Mul K] [Div K] [OfNat K 0] [OfNat K 1] [DecidableEq K] :
    @UC.radicand K _ _ _ _ _ = radicand := rfl

theorem gen_resetScales_eq_model {K : Type} [Mul K] [Div K] [OfNat K 0] [OfNat K 1] [DecidableEq K] :
    @UC.resetScales K _ _ _ _ _ = resetScales := rfl

/-- signatures and defaults of the public functions the harness calls (positional order `value, units`;
    `model(value, units=None, error=None)`; `reset_units(seed=None, **kwargs)`), and the filter of `build_unit`. -/
theorem gen_signatures_pinned :
    UC.signatures =
      [("build_unit", []), ("reset_units", [("seed", "None"), ("**kwargs", "")]), ("set_literal", [("term", "")]),
       ("set_in_units", [("value", ""), ("units", "")]), ("get_in_units", [("value", ""), ("units", "")]),
       ("value_unit", [("term", "")]), ("error_unit", [("term", "")]),
       ("model", [("value", ""), ("units", "None"), ("error", "None")]), ("parse", [("units", "")])]
    ∧ UC.buildUnitFilter = ["key[:1] != '_'", "isinstance(value, float)"] := by
  constructor <;> rfl

end gen

end Atomman.C09
