/-
  C06 — helper lemmas used by the property theorems of `Proofs/C06.lean` (wrappers of the dispatcher
  `run`, the shape of `stepWith`, list facts about `listMin`).
-/
import Proofs.C06_System
import Proofs.C06_Refine
import Proofs.C06_Write
import Proofs.C06_Extend

namespace Atomman.C06
set_option linter.unusedSimpArgs false
set_option linter.unusedVariables false

theorem post_map_good {α : Type} {κ : Nat → String} {s : State} {m : M α} (g : α → Out)
    (h : Post m s (fun _ s' => Good κ s s')) :
    Post (do let a ← m; pure (g a) : M Out) s (fun _ s' => Good κ s s') := by
  rw [post_bind]
  apply Post.mono h
  intro r s' hg
  cases r with
  | error e => exact hg
  | ok a => exact hg

theorem post_unit_good {κ : Nat → String} {s : State} {m : M Unit}
    (h : Post m s (fun _ s' => Good κ s s')) :
    Post (do m; pure Out.unit : M Out) s (fun _ s' => Good κ s s') := post_map_good (fun _ => Out.unit) h

theorem good_of_eq {κ : Nat → String} {s s' : State} (h : InvK κ s) (he : s' = s) : Good κ s s' := by
  subst he; exact Good.refl h


theorem stepWith_state (off : Bool) (s : State) (op : Op) :
    (stepWith off s op).2 = s ∨
    ((op.litsOk = true ∧ op.idsOk s = true) ∧ stepWith off s op = run off op s) := by
  unfold stepWith
  split
  · left; rfl
  · rename_i hc
    have hc : op.litsOk = true ∧ op.idsOk s = true := by
      by_cases h1 : op.litsOk = true ∧ op.idsOk s = true
      · exact h1
      · exact absurd h1 hc
    split
    · left; rfl
    · right; exact ⟨hc, rfl⟩


theorem foldl_min_mem (l : List Rat) (x : Rat) : l.foldl (fun m y => if y < m then y else m) x ∈ x :: l := by
  induction l generalizing x with
  | nil => simp
  | cons z t ih =>
    simp only [List.foldl_cons]
    by_cases hz : z < x
    · simp only [hz, if_true]
      have := ih z
      simp only [List.mem_cons] at this ⊢
      rcases this with h | h
      · right; left; exact h
      · right; right; exact h
    · simp only [hz, if_false]
      have := ih x
      simp only [List.mem_cons] at this ⊢
      rcases this with h | h
      · left; exact h
      · right; right; exact h


theorem eq_of_post {α : Type} {m : M α} {s : State} {x : Except Err α} {y : State}
    (h : Post m s (fun r s' => r = x ∧ s' = y)) : m s = (x, y) := Prod.ext h.1 h.2


theorem mapM_num_total (cells : List Cell) (h : ∀ c ∈ cells, (c.num?).isSome) :
    ∃ nums, cells.mapM Cell.num? = some nums := by
  induction cells with
  | nil => exact ⟨[], rfl⟩
  | cons x t ih =>
    obtain ⟨ns, hns⟩ := ih (fun c hc => h c (by simp [hc]))
    have hx := h x (by simp)
    cases hxn : x.num? with
    | none => simp [hxn] at hx
    | some q => exact ⟨q :: ns, by simp [List.mapM_cons, hxn, hns]⟩

/-- the `np.min(value) < 1` test fires as soon as one cell of a numeric value is below 1. -/
theorem guard_fires (cells : List Cell) (hnum : ∀ c ∈ cells, (c.num?).isSome) (c : Cell) (hc : c ∈ cells) (q : Rat)
    (hq : c.num? = some q) (hlt : q < 1) :
    ∃ nums m, cells.mapM Cell.num? = some nums ∧ listMin nums = some m ∧ m < 1 := by
  obtain ⟨nums, hnums⟩ := mapM_num_total cells hnum
  obtain ⟨q', hq', hcq'⟩ := mapM_option_fwd _ _ _ hnums c hc
  rw [hq] at hcq'; injection hcq' with hcq'; subst hcq'
  cases hm : listMin nums with
  | none =>
    cases nums with
    | nil => simp at hq'
    | cons x xs => simp [listMin] at hm
  | some m =>
    refine ⟨nums, m, hnums, hm, ?_⟩
    have := listMin_le nums m hm q hq'
    grind


theorem propGet_none_eq (o : Nat) (key : String) (s : State) (a : Arr) (h : (s.obj o).find key = some a) :
    propGet o key none s = (.ok (arrVal s a), s) := by
  apply eq_of_post
  unfold propGet
  rw [post_bind_getS, post_bind_keyErr, h]
  exact ⟨rfl, rfl⟩

end Atomman.C06
