/-
  C06 — helper lemmas used by the property theorems of `Proofs/C06.lean` (wrappers of the dispatcher
  `run`, the shape of `stepWith`, list facts about `listMin`).
-/
import Proofs.C06_System
import Proofs.C06_Refine
import Proofs.C06_Write
import Proofs.C06_Extend

namespace Atomman.C06
set_option linter.unusedSimpArgs false
set_option linter.unusedVariables false

theorem post_map_good {α : Type} {κ : Nat → String} {s : State} {m : M α} (g : α → Out)
    (h : Post m s (fun _ s' => Good κ s s')) :
    Post (do let a ← m; pure (g a) : M Out) s (fun _ s' => Good κ s s') := by
  rw [post_bind]
  apply Post.mono h
  intro r s' hg
  cases r with
  | error e => exact hg
  | ok a => exact hg

theorem post_unit_good {κ : Nat → String} {s : State} {m : M Unit}
    (h : Post m s (fun _ s' => Good κ s s')) :
    Post (do m; pure Out.unit : M Out) s (fun _ s' => Good κ s s') := post_map_good (fun _ => Out.unit) h

theorem good_of_eq {κ : Nat → String} {s s' : State} (h : InvK κ s) (he : s' = s) : Good κ s s' := by
  subst he; exact Good.refl h


theorem stepWith_state (off : Bool) (s : State) (op : Op) :
    (stepWith off s op).2 = s ∨
    ((op.litsOk = true ∧ op.idsOk s = true) ∧ stepWith off s op = run off op s) := by
  unfold stepWith
  split
  · left; rfl
  · rename_i hc
    have hc : op.litsOk = true ∧ op.idsOk s = true := by
      by_cases h1 : op.litsOk = true ∧ op.idsOk s = true
      · exact h1
      · exact absurd h1 hc
    split
    · left; rfl
    · right; exact ⟨hc, rfl⟩


theorem foldl_min_mem (l : List Rat) (x : Rat) : l.foldl (fun m y => if y < m then y else m) x ∈ x :: l := by
  induction l generalizing x with
  | nil => simp
  | cons z t ih =>
    simp only [List.foldl_cons]
    by_cases hz : z < x
    · simp only [hz, if_true]
      have := ih z
      simp only [List.mem_cons] at this ⊢
      rcases this with h | h
      · right; left; exact h
      · right; right; exact h
    · simp only [hz, if_false]
      have := ih x
      simp only [List.mem_cons] at this ⊢
      rcases this with h | h
      · left; exact h
      · right; right; exact h


theorem eq_of_post {α : Type} {m : M α} {s : State} {x : Except Err α} {y : State}
    (h : Post m s (fun r s' => r = x ∧ s' = y)) : m s = (x, y) := Prod.ext h.1 h.2


theorem mapM_num_total (cells : List Cell) (h : ∀ c ∈ cells, (c.num?).isSome) :
    ∃ nums, cells.mapM Cell.num? = some nums := by
  induction cells with
  | nil => exact ⟨[], rfl⟩
  | cons x t ih =>
    obtain ⟨ns, hns⟩ := ih (fun c hc => h c (by simp [hc]))
    have hx := h x (by simp)
    cases hxn : x.num? with
    | none => simp [hxn] at hx
    | some q => exact ⟨q :: ns, by simp [List.mapM_cons, hxn, hns]⟩

/-- the `np.min(value) < 1` test fires as soon as one cell of a numeric value is below 1. -/
theorem guard_fires (cells : List Cell) (hnum : ∀ c ∈ cells, (c.num?).isSome) (c : Cell) (hc : c ∈ cells) (q : Rat)
    (hq : c.num? = some q) (hlt : q < 1) :
    ∃ nums m, cells.mapM Cell.num? = some nums ∧ listMin nums = some m ∧ m < 1 := by
  obtain ⟨nums, hnums⟩ := mapM_num_total cells hnum
  obtain ⟨q', hq', hcq'⟩ := mapM_option_fwd _ _ _ hnums c hc
  rw [hq] at hcq'; injection hcq' with hcq'; subst hcq'
  cases hm : listMin nums with
  | none =>
    cases nums with
    | nil => simp at hq'
    | cons x xs => simp [listMin] at hm
  | some m =>
    refine ⟨nums, m, hnums, hm, ?_⟩
    have := listMin_le nums m hm q hq'
    grind


theorem propGet_none_eq (o : Nat) (key : String) (s : State) (a : Arr) (h : (s.obj o).find key = some a) :
    propGet o key none s = (.ok (arrVal s a), s) := by
  apply eq_of_post
  unfold propGet
  rw [post_bind_getS, post_bind_keyErr, h]
  exact ⟨rfl, rfl⟩

/-! ### decomposition of composite calls into their building blocks -/

theorem bind_ok {α β : Type} (m : M α) (f : α → M β) (s s' : State) (b : β) (h : (m >>= f) s = (.ok b, s')) :
    ∃ a s1, m s = (.ok a, s1) ∧ f a s1 = (.ok b, s') := by
  have h' : M.bind m f s = (.ok b, s') := h
  unfold M.bind at h'
  cases hm : m s with
  | mk r s1 =>
    rw [hm] at h'
    cases r with
    | ok a => exact ⟨a, s1, rfl, h'⟩
    | error e => simp at h'

theorem atomic_ok {α : Type} (m : M α) (s s' : State) (a : α) (h : atomic m s = (.ok a, s')) : m s = (.ok a, s') := by
  unfold atomic at h
  cases hm : m s with
  | mk r s1 =>
    rw [hm] at h
    cases r with
    | ok a' => simpa using h
    | error e => simp at h

/-- `atoms.extend(n)` is `Atoms(natoms=n)` followed by `atoms.extend(that)`. -/
theorem extendInt_decomp (o : Nat) (n : Int) (s s' : State) (nw : Nat) (h : extendInt o n s = (.ok nw, s')) :
    ∃ d s1, mkAtoms (some n) none none [] s = (.ok d, s1) ∧ extendWith o d s1 = (.ok nw, s') := by
  unfold extendInt at h
  exact bind_ok _ _ s s' nw (atomic_ok _ s s' nw h)

/-- `atoms.prop(index=…)` is `deepcopy(atoms[index])`. -/
theorem propGetAtoms_decomp (o : Nat) (ix : Index) (s s' : State) (nw : Nat) (h : propGetAtoms o ix s = (.ok nw, s')) :
    ∃ t s1, getItem o ix s = (.ok t, s1) ∧ deepcopy t s1 = (.ok nw, s') := by
  unfold propGetAtoms at h
  exact bind_ok _ _ s s' nw (atomic_ok _ s s' nw h)

/-- `system.atoms_ix[index]` is `atoms[index]`, a read of `symbols`, and `System(atoms=…, symbols=…)`. -/
theorem ixGet_decomp (i : Nat) (ix : Index) (s s' : State) (r : Nat × Nat) (h : ixGet i ix s = (.ok r, s')) :
    ∃ a s1 syms s2, getItem (s.sys i).atoms ix s = (.ok a, s1) ∧ symbolsGet i s1 = (.ok syms, s2) ∧
      mkSys a (s.sys i).box (s.sys i).pbc (some syms) none s2 = (.ok r.2, s') ∧ r.1 = a := by
  unfold ixGet at h
  have h0 : (getItem (s.sys i).atoms ix >>= fun a => symbolsGet i >>= fun syms =>
      mkSys a (s.sys i).box (s.sys i).pbc (some syms) none >>= fun j => pure (a, j)) s = (.ok r, s') := h
  obtain ⟨a, s1, h1, h2⟩ := bind_ok _ _ s s' r h0
  obtain ⟨syms, s2, h3, h4⟩ := bind_ok _ _ s1 s' r h2
  obtain ⟨j, s3, h5, h6⟩ := bind_ok _ _ s2 s' r h4
  have : (Except.ok (a, j), s3) = ((Except.ok r : Except Err (Nat × Nat)), s') := h6
  injection this with e1 e2
  injection e1 with e1
  subst e1; subst e2
  exact ⟨a, s1, syms, s2, h1, h3, h5, rfl⟩

/-- `atoms_prop(key, index, value, scale=True)` is `prop(key, index, value')` with `value'` the Cartesian
    image of the box-relative `value` (refused when `value` is not a list of 3-vectors). -/
theorem sysPropSetScaled_decomp (i : Nat) (key : String) (ix : Option Index) (v : Val) (s : State) :
    sysPropSetScaled i key ix v s =
      match relToCartVal (s.sys i).box v with
      | .ok v' => propSet (s.sys i).atoms key ix v' s
      | .error e => (.error e, s) := by
  unfold sysPropSetScaled
  show M.bind getS _ s = _
  unfold M.bind getS
  simp only []
  cases relToCartVal (s.sys i).box v <;> rfl

/-- `atoms.prop_atype(key, value)` is `view[key] = value[atype - 1]`: the per-type table looked up by every
    atom's type, assigned as a whole column (so `viewSet_existing_refines` / `viewSet_new_refines` apply). -/
theorem propAtype_none_decomp (o : Nat) (key : String) (v : Val) (s : State) (ta : Arr) (nv nt : Nat) (trail : List Nat)
    (hfind : (s.obj o).find "atype" = some ta) (hshape : v.shape = nv :: trail) (hnt : (natypes o s).1 = .ok nt)
    (hnv : ¬ nv < nt) (hdt : arrDt s ta = .int) (htr : arrTrail s ta = []) :
    propAtype o key v none s =
      viewSet o key (.lit ⟨v.dt, ta.idx.length :: trail, ((arrVal s ta).data.map (fun c => match c with
        | .int i => (rowsOf nv (prod trail) v.data)[(i - 1).toNat]?.getD []
        | _ => [])).flatten⟩) s := by
  unfold propAtype
  show M.bind getS _ s = _
  unfold M.bind getS
  simp only [hfind, keyErr, liftO, M.pure, hshape]
  show M.bind (natypes o) _ s = _
  unfold M.bind
  rw [natypes_eq o s, hnt]
  simp only [hnv, if_false, hdt, htr, ne_eq, not_true_eq_false, or_self]
  rfl

/-- the last statement of `prop_atype(key, value, atype=t)`: `self.view[key][self.atype == t] = value`. -/
def maskAssign (o : Nat) (key : String) (v : Val) (t : Int) : M Unit := do
  let s' ← getS
  let a ← keyErr ((s'.obj o).find key)
  let ta' ← keyErr ((s'.obj o).find "atype")
  let mask := (arrVal s' ta').data.map (fun c => c.num? == some (t : Rat))
  assign a { pos := maskSel mask.length mask, view := false, scalar := false, mask := true } v

/-- `atoms.prop_atype(key, value, atype=t)` is: (for a NEW key) `view[key] = np.zeros((natoms,) + np.shape(value))`, then the
    `atype ≥ 1` guard, then the boolean-mask assignment `view[key][atype == t] = value` — provided `t` is one of
    the atom types (otherwise it is refused, see the definition). -/
theorem propAtype_some_decomp (o : Nat) (key : String) (v : Val) (t : Int) (s : State) (ta : Arr) (nt : Nat)
    (hfind : (s.obj o).find "atype" = some ta)
    (hnt : (natypes o s).1 = .ok nt) (ht : 1 ≤ t ∧ t ≤ (nt : Int)) (htr : arrTrail s ta = []) :
    propAtype o key v (some t) s =
      ((match (s.obj o).find key with
        | some _ => pure ()
        | none => viewSet o key (.lit (zerosRows (s.obj o).natoms v)) : M Unit) >>= fun _ =>
       atypeGuard key v >>= fun _ => maskAssign o key v t) s := by
  unfold propAtype
  show M.bind getS _ s = _
  unfold M.bind getS
  simp only [hfind, keyErr, liftO, M.pure]
  show M.bind (natypes o) _ s = _
  unfold M.bind
  rw [natypes_eq o s, hnt]
  simp only [ht, and_self, not_true_eq_false, if_false, htr, ne_eq]
  rfl

/-- on an existing property: the guard, then one boolean-mask assignment with the mask taken from the atom
    types before the write (`assign_spec` gives the values). -/
theorem propAtype_some_existing (o : Nat) (key : String) (v : Val) (t : Int) (s : State) (ta a : Arr) (nt : Nat)
    (hfind : (s.obj o).find "atype" = some ta) (hkey : (s.obj o).find key = some a)
    (hnt : (natypes o s).1 = .ok nt) (ht : 1 ≤ t ∧ t ≤ (nt : Int)) (htr : arrTrail s ta = []) :
    propAtype o key v (some t) s =
      (atypeGuard key v >>= fun _ =>
         assign a { pos := maskSel ((arrVal s ta).data.map (fun c => c.num? == some (t : Rat))).length
                            ((arrVal s ta).data.map (fun c => c.num? == some (t : Rat))),
                    view := false, scalar := false, mask := true } v) s := by
  rw [propAtype_some_decomp o key v t s ta nt hfind hnt ht htr]
  simp only [hkey]
  rcases atypeGuard_cases key v with ⟨e, hg⟩ | ⟨hg, hguard⟩
  · rw [hg]; rfl
  · rw [hg]
    show (keyErr ((s.obj o).find key) >>= fun a' => keyErr ((s.obj o).find "atype") >>= fun ta' =>
      assign a' { pos := maskSel ((arrVal s ta').data.map (fun c => c.num? == some (t : Rat))).length
                            ((arrVal s ta').data.map (fun c => c.num? == some (t : Rat))),
                  view := false, scalar := false, mask := true } v) s = _
    rw [hkey, hfind]
    rfl

end Atomman.C06
