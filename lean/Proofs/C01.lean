/-
  C01 — "One cell, many parameter sets: Box definitions and coordinate maps agree".

  Theorems about the model in `Atomman/Box.lean` + `Atomman/C01.lean`, for every linearly ordered
  field `K` (so for ℚ, on which the driver executes the same definitions, and for ℝ).
-/
import Proofs.C01_Lemmas
import Proofs.C01_Object
import Proofs.C01_Source
import Proofs.C01_Dispatch
import Proofs.C01_Scale
import Mathlib.Tactic.LinearCombination
import Mathlib.Tactic.NormNum

namespace Atomman.C01
open Atomman
set_option linter.unusedSimpArgs false
set_option linter.unusedSectionVars false
set_option linter.unusedVariables false

variable {K : Type} [Field K] [LinearOrder K] [IsStrictOrderedRing K]

/-! ### LAMMPS-normal boxes: what `isLammpsNorm` says -/

theorem isLammpsNorm_iff (b : Box K) :
    b.isLammpsNorm = true ↔
      b.vects.r0.y = 0 ∧ b.vects.r0.z = 0 ∧ b.vects.r1.z = 0 ∧
      0 < b.vects.r0.x ∧ 0 < b.vects.r1.y ∧ 0 < b.vects.r2.z := by
  simp only [Box.isLammpsNorm, Bool.and_eq_true, decide_eq_true_eq, and_assoc]

/-! ### lengths <-> vectors, hi/lo <-> vectors -/

/-- A LAMMPS-normal box read back as `lx ly lz xy xz yz` (+ origin) and rebuilt with `set_lengths`
    is the same box: same vectors, same origin. -/
theorem lengths_roundtrip (b : Box K) (h : b.isLammpsNorm = true) :
    ∃ p, lengths? b = some p ∧ ofLengthsP? p b.origin = some b := by
  obtain ⟨hy, hz, hbz, hx, hly, hlz⟩ := (isLammpsNorm_iff b).mp h
  have e : lengths? b = some ⟨b.vects.r0.x, b.vects.r1.y, b.vects.r2.z, b.vects.r1.x, b.vects.r2.x, b.vects.r2.y⟩ := by simp only [lengths?, h, if_true]
  refine ⟨_, e, ?_⟩
  simp only [ofLengthsP?, Box.ofLengths?, hx, hly, hlz, and_self, if_true, Option.some.injEq]
  obtain ⟨⟨⟨ax, ay, az⟩, ⟨bx, by', bz⟩, ⟨cx, cy, cz⟩⟩, o⟩ := b
  simp only at hy hz hbz
  subst hy hz hbz
  rfl

/-- … and the other way round: building from lengths then reading the lengths gives the inputs. -/
theorem lengths_readback (p : Lengths K) (o : V3 K) (b : Box K) (h : ofLengthsP? p o = some b) :
    b.isLammpsNorm = true ∧ lengths? b = some p ∧ b.origin = o := by
  simp only [ofLengthsP?, Box.ofLengths?] at h
  split at h
  · rename_i hpos
    obtain ⟨h1, h2, h3⟩ := hpos
    simp only [Option.some.injEq] at h
    subst h
    have hn : Box.isLammpsNorm (K := K) ⟨⟨⟨p.lx, 0, 0⟩, ⟨p.xy, p.ly, 0⟩, ⟨p.xz, p.yz, p.lz⟩⟩, o⟩ = true := by
      rw [isLammpsNorm_iff]; exact ⟨rfl, rfl, rfl, h1, h2, h3⟩
    exact ⟨hn, by simp only [lengths?, hn, if_true], rfl⟩
  · exact absurd h (by simp)

example : ∃ b : Box ℚ, b.isLammpsNorm = true ∧ b.vects.r1.x ≠ 0 ∧ b.origin ≠ ⟨0, 0, 0⟩ :=
  ⟨⟨⟨⟨2, 0, 0⟩, ⟨1/2, 3, 0⟩, ⟨-1, 1/4, 5⟩⟩, ⟨1, -2, 3⟩⟩, by decide +kernel, by decide +kernel, by decide +kernel⟩

/-- A LAMMPS-normal box read back as `xlo xhi ylo yhi zlo zhi xy xz yz` and rebuilt with
    `set_hi_los` is the same box. -/
theorem hilos_roundtrip (b : Box K) (h : b.isLammpsNorm = true) :
    ∃ p, hilos? b = some p ∧ ofHiLosP? p = some b := by
  obtain ⟨hy, hz, hbz, hx, hly, hlz⟩ := (isLammpsNorm_iff b).mp h
  have e : hilos? b = some ⟨b.origin.x, b.origin.x + b.vects.r0.x, b.origin.y, b.origin.y + b.vects.r1.y,
      b.origin.z, b.origin.z + b.vects.r2.z, b.vects.r1.x, b.vects.r2.x, b.vects.r2.y⟩ := by simp only [hilos?, h, if_true]
  refine ⟨_, e, ?_⟩
  simp only [ofHiLosP?, Box.ofHiLos?, Box.ofLengths?, add_sub_cancel_left, hx, hly, hlz, and_self, if_true,
    Option.some.injEq]
  obtain ⟨⟨⟨ax, ay, az⟩, ⟨bx, by', bz⟩, ⟨cx, cy, cz⟩⟩, ⟨ox, oy, oz⟩⟩ := b
  simp only at hy hz hbz
  subst hy hz hbz
  rfl

/-- building from hi/lo then reading hi/lo gives the inputs. -/
theorem hilos_readback (p : HiLos K) (b : Box K) (h : ofHiLosP? p = some b) :
    b.isLammpsNorm = true ∧ hilos? b = some p := by
  simp only [ofHiLosP?, Box.ofHiLos?, Box.ofLengths?] at h
  split at h
  · rename_i hpos
    obtain ⟨h1, h2, h3⟩ := hpos
    simp only [Option.some.injEq] at h
    subst h
    have hn : Box.isLammpsNorm (K := K) ⟨⟨⟨p.xhi - p.xlo, 0, 0⟩, ⟨p.xy, p.yhi - p.ylo, 0⟩,
        ⟨p.xz, p.yz, p.zhi - p.zlo⟩⟩, ⟨p.xlo, p.ylo, p.zlo⟩⟩ = true := by
      rw [isLammpsNorm_iff]; exact ⟨rfl, rfl, rfl, h1, h2, h3⟩
    refine ⟨hn, ?_⟩
    simp only [hilos?, hn, if_true, add_sub_cancel]
  · exact absurd h (by simp)

/-! ### lengths and angles -> vectors (`set_abc`) -/

/-- `set_abc`: if `ly`, `lz` are the positive square roots the code takes, the result is
    LAMMPS-normal, has the requested origin, and its Gram matrix is
    `[[a², ab·cγ, ac·cβ], [·, b², bc·cα], [·, ·, c²]]`: the lengths are `a b c` and the cosines of the
    angles are `cα cβ cγ`. -/
theorem abc_gram (a b c ca cb cg ly lz : K) (o : V3 K)
    (ha : 0 < a) (hly : 0 < ly) (hly2 : ly * ly = abcLySq b cg)
    (hlz : 0 < lz) (hlz2 : lz * lz = abcLzSq b c ca cb cg ly) :
    ∃ bx, ofAbc? a b c ca cb cg ly lz o = some bx ∧ bx.isLammpsNorm = true ∧ bx.origin = o ∧
      a2 bx = a * a ∧ b2 bx = b * b ∧ c2 bx = c * c ∧
      dotAB bx = a * b * cg ∧ dotAC bx = a * c * cb ∧ dotBC bx = b * c * ca := by
  have hne : ly ≠ 0 := ne_of_gt hly
  refine ⟨⟨⟨⟨a, 0, 0⟩, ⟨b * cg, ly, 0⟩, ⟨c * cb, (b * c * ca - b * cg * (c * cb)) / ly, lz⟩⟩, o⟩, ?_, ?_, rfl, ?_⟩
  · simp only [ofAbc?, ofLengthsP?, abcLengths, Box.ofLengths?, ha, hly, hlz, and_self, if_true]
  · rw [isLammpsNorm_iff]; exact ⟨rfl, rfl, rfl, ha, hly, hlz⟩
  · simp only [abcLySq, abcLzSq] at hly2 hlz2
    simp only [a2, b2, c2, dotAB, dotAC, dotBC, V3.normSq, V3.dot]
    refine ⟨by ring, ?_, ?_, by ring, by ring, ?_⟩
    · linear_combination hly2
    · linear_combination hlz2
    · field_simp; ring

example : ∃ a b c ca cb cg ly lz : ℚ, 0 < a ∧ 0 < ly ∧ ly * ly = abcLySq b cg ∧ 0 < lz ∧
    lz * lz = abcLzSq b c ca cb cg ly ∧ cg ≠ 0 ∧ cb ≠ 0 :=
  ⟨2, 5, 13, 3/13, 5/13, 3/5, 4, 12, by norm_num [abcLySq, abcLzSq]⟩

/-- A LAMMPS-normal box fed back through `set_abc` with its own lengths `a b c` (positive roots of
    `a² b² c²`), its own cosines (`b c cα = bvect·cvect` …) and the roots `ly lz` is the same box. -/
theorem abc_rebuild_normal (bx : Box K) (h : bx.isLammpsNorm = true) (a b c ca cb cg : K)
    (ha : 0 < a) (hb : 0 < b) (hc : 0 < c)
    (ha2 : a * a = a2 bx) (hb2 : b * b = b2 bx) (hc2 : c * c = c2 bx)
    (hca : b * c * ca = dotBC bx) (hcb : a * c * cb = dotAC bx) (hcg : a * b * cg = dotAB bx) :
    ofAbc? a b c ca cb cg bx.vects.r1.y bx.vects.r2.z bx.origin = some bx := by
  obtain ⟨hy, hz, hbz, hx, hly, hlz⟩ := (isLammpsNorm_iff bx).mp h
  obtain ⟨⟨⟨lx, ay, az⟩, ⟨xy, ly, bz⟩, ⟨xz, yz, lz⟩⟩, o⟩ := bx
  simp only at hy hz hbz hx hly hlz
  subst hy hz hbz
  simp only [a2, b2, c2, dotAB, dotAC, dotBC, V3.normSq, V3.dot, mul_zero, add_zero, zero_mul] at *
  have hal : a = lx := by nlinarith
  subst hal
  have hane : a ≠ 0 := ne_of_gt ha
  have hlne : ly ≠ 0 := ne_of_gt hly
  have e1 : b * cg = xy := by
    have : a * (b * cg) = a * xy := by linear_combination hcg
    exact mul_left_cancel₀ hane this
  have e2 : c * cb = xz := by
    have : a * (c * cb) = a * xz := by linear_combination hcb
    exact mul_left_cancel₀ hane this
  have e3 : (b * c * ca - xy * xz) / ly = yz := by
    rw [hca]; field_simp; ring
  simp only [ofAbc?, ofLengthsP?, abcLengths, Box.ofLengths?, ha, hly, hlz, and_self, if_true, e1, e2, e3]

example : ∃ (bx : Box ℚ) (a b c ca cb cg : ℚ), bx.isLammpsNorm = true ∧ 0 < a ∧ 0 < b ∧ 0 < c ∧
    a * a = a2 bx ∧ b * b = b2 bx ∧ c * c = c2 bx ∧ b * c * ca = dotBC bx ∧ a * c * cb = dotAC bx ∧
    a * b * cg = dotAB bx ∧ bx.vects.r1.x ≠ 0 ∧ bx.vects.r2.x ≠ 0 :=
  ⟨⟨⟨⟨2, 0, 0⟩, ⟨3, 4, 0⟩, ⟨5, 0, 12⟩⟩, ⟨1, 2, 3⟩⟩, 2, 5, 13, 3/13, 5/13, 3/5, by decide +kernel,
    by norm_num [a2, b2, c2, dotBC, dotAC, dotAB, V3.normSq, V3.dot]⟩

/-- three vectors -> `vects` and back is the identity (the two vector parameter sets). -/
theorem vectors_roundtrip (b : Box K) : ofVectors b.vects.r0 b.vects.r1 b.vects.r2 b.origin = b := rfl

/-! ### equal Gram matrix = same cell up to a rigid rotation -/

theorem gram_det (v : M3 K) : (gram v).det = v.det * v.det := by
  rw [gram, M3.det_mul, M3.det_transpose]

/-- Two right-handed bases with the same lengths and angles (equal Gram matrices `V Vᵀ`) differ by
    the proper rotation `R = V₁⁻¹ V₂`:  `V₁ R = V₂`, `R Rᵀ = 1`, `det R = 1`. -/
theorem gram_eq_rotation (v w : M3 K) (hv : 0 < v.det) (hw : 0 < w.det) (hg : gram v = gram w) :
    v.mul ((M3.inv v).mul w) = w ∧
    ((M3.inv v).mul w).mul ((M3.inv v).mul w).transpose = M3.one ∧
    ((M3.inv v).mul w).det = 1 := by
  have hv0 : v.det ≠ 0 := ne_of_gt hv
  refine ⟨?_, ?_, ?_⟩
  · rw [← M3.mul_assoc, M3.mul_inv_cancel v hv0, M3.one_mul]
  · have hg' : w.mul w.transpose = v.mul v.transpose := hg.symm
    rw [M3.transpose_mul, M3.mul_assoc, ← M3.mul_assoc w, hg', M3.mul_assoc v, ← M3.transpose_mul,
      M3.inv_mul_cancel v hv0, M3.transpose_one, M3.mul_one, M3.inv_mul_cancel v hv0]
  · rw [M3.det_mul, M3.det_inv v hv0]
    have hsq : v.det * v.det = w.det * w.det := by rw [← gram_det, ← gram_det, hg]
    have : v.det = w.det := by nlinarith
    rw [this]; exact inv_mul_cancel₀ (ne_of_gt hw)

/-- conversely a rotation of the rows leaves all lengths and angles (the Gram matrix) unchanged. -/
theorem rotation_preserves_gram (v r : M3 K) (hr : r.mul r.transpose = M3.one) :
    gram (v.mul r) = gram v := by
  simp only [gram]
  rw [M3.transpose_mul, M3.mul_assoc, ← M3.mul_assoc r, hr, M3.one_mul]

example : ∃ v w : M3 ℚ, 0 < v.det ∧ 0 < w.det ∧ gram v = gram w ∧ v ≠ w :=
  ⟨⟨⟨1, 0, 0⟩, ⟨1/2, 2, 0⟩, ⟨0, 1, 3⟩⟩, ⟨⟨0, 1, 0⟩, ⟨-2, 1/2, 0⟩, ⟨-1, 0, 3⟩⟩,
    by decide +kernel, by decide +kernel, by decide +kernel, by decide +kernel⟩

/-- Any right-handed cell read back as lengths and cosines and rebuilt through `set_abc` is the same
    cell up to a proper rotation (and is LAMMPS-normal). -/
theorem abc_rebuild_rotation (bx : Box K) (hdet : 0 < bx.vects.det) (a b c ca cb cg ly lz : K)
    (ha : 0 < a) (ha2 : a * a = a2 bx) (hb2 : b * b = b2 bx) (hc2 : c * c = c2 bx)
    (hca : b * c * ca = dotBC bx) (hcb : a * c * cb = dotAC bx) (hcg : a * b * cg = dotAB bx)
    (hly : 0 < ly) (hly2 : ly * ly = abcLySq b cg)
    (hlz : 0 < lz) (hlz2 : lz * lz = abcLzSq b c ca cb cg ly) :
    ∃ bx', ofAbc? a b c ca cb cg ly lz bx.origin = some bx' ∧ bx'.isLammpsNorm = true ∧
      bx'.origin = bx.origin ∧
      ∃ r : M3 K, bx.vects.mul r = bx'.vects ∧ r.mul r.transpose = M3.one ∧ r.det = 1 := by
  obtain ⟨bx', h1, h2, h3, g1, g2, g3, g4, g5, g6⟩ :=
    abc_gram a b c ca cb cg ly lz bx.origin ha hly hly2 hlz hlz2
  refine ⟨bx', h1, h2, h3, (M3.inv bx.vects).mul bx'.vects, ?_⟩
  obtain ⟨_, _, _, hx, hy, hz⟩ := (isLammpsNorm_iff bx').mp h2
  have hd' : 0 < bx'.vects.det := by
    obtain ⟨e1, e2, e3, _⟩ := (isLammpsNorm_iff bx').mp h2
    rw [M3.det_def', e1, e2, e3]
    have := mul_pos (mul_pos hx hy) hz
    linarith
  apply gram_eq_rotation _ _ hdet hd'
  simp only [a2, b2, c2, dotAB, dotAC, dotBC, V3.normSq, V3.dot] at *
  ext <;> simp only [gram, M3.mul, M3.vecMul, M3.transpose] <;> linarith

example : ∃ (bx : Box ℚ) (a b c ca cb cg ly lz : ℚ), 0 < bx.vects.det ∧ bx.isLammpsNorm = false ∧ 0 < a ∧
    a * a = a2 bx ∧ b * b = b2 bx ∧ c * c = c2 bx ∧ b * c * ca = dotBC bx ∧ a * c * cb = dotAC bx ∧
    a * b * cg = dotAB bx ∧ 0 < ly ∧ ly * ly = abcLySq b cg ∧ 0 < lz ∧ lz * lz = abcLzSq b c ca cb cg ly :=
  ⟨⟨⟨⟨0, 2, 0⟩, ⟨0, 3, 4⟩, ⟨12, 5, 0⟩⟩, ⟨1, 2, 3⟩⟩, 2, 5, 13, 3/13, 5/13, 3/5, 4, 12, by decide +kernel, by decide +kernel,
    by norm_num [a2, b2, c2, dotBC, dotAC, dotAB, V3.normSq, V3.dot, abcLySq, abcLzSq]⟩

/-! ### the two coordinate maps -/

/-- `position_cartesian_to_relative` and `position_relative_to_cartesian` are mutual inverses for
    every non-degenerate cell and every origin. -/
theorem rel_cart_inverse (b : Box K) (h : b.vects.det ≠ 0) (s p : V3 K) :
    b.cartToRel (b.relToCart s) = s ∧ b.relToCart (b.cartToRel p) = p := by
  constructor
  · simp only [Box.cartToRel, Box.relToCart, Box.recip, M3.mulVec_transpose, V3.add_sub_cancel',
      M3.vecMul_inv_cancel _ _ h]
  · simp only [Box.cartToRel, Box.relToCart, Box.recip, M3.mulVec_transpose,
      M3.vecMul_inv_cancel' _ _ h, V3.sub_add_cancel']

example : ∃ b : Box ℚ, b.vects.det ≠ 0 ∧ b.origin ≠ ⟨0, 0, 0⟩ :=
  ⟨⟨⟨⟨2, 0, 1⟩, ⟨1/2, 3, 0⟩, ⟨-1, 1/4, 5⟩⟩, ⟨1, -2, 3⟩⟩, by decide +kernel, by decide +kernel⟩

/-- `reciprocal_vects[i] · vects[j] = δᵢⱼ`. -/
theorem reciprocal_dual (b : Box K) (h : b.vects.det ≠ 0) :
    b.recip.mul b.vects.transpose = M3.one ∧ b.vects.mul b.recip.transpose = M3.one := by
  constructor
  · rw [Box.recip, ← M3.transpose_mul, M3.mul_inv_cancel _ h, M3.transpose_one]
  · rw [Box.recip, M3.transpose_transpose, M3.mul_inv_cancel _ h]

/-- the same, entry by entry. -/
theorem reciprocal_dual_dots (b : Box K) (h : b.vects.det ≠ 0) :
    V3.dot b.recip.r0 b.vects.r0 = 1 ∧ V3.dot b.recip.r0 b.vects.r1 = 0 ∧ V3.dot b.recip.r0 b.vects.r2 = 0 ∧
    V3.dot b.recip.r1 b.vects.r0 = 0 ∧ V3.dot b.recip.r1 b.vects.r1 = 1 ∧ V3.dot b.recip.r1 b.vects.r2 = 0 ∧
    V3.dot b.recip.r2 b.vects.r0 = 0 ∧ V3.dot b.recip.r2 b.vects.r1 = 0 ∧ V3.dot b.recip.r2 b.vects.r2 = 1 := by
  have e := (reciprocal_dual b h).1
  have e' := congrArg M3.toList e
  simp only [M3.toList, V3.toList, M3.mul, M3.vecMul, M3.transpose, M3.one, List.cons_append, List.nil_append,
    List.cons.injEq, and_true] at e'
  simp only [V3.dot]
  exact e'

/-- the reciprocal vectors are a function of the current vectors only (no state): two boxes with the
    same vectors have the same reciprocal vectors whatever their history. -/
theorem recip_depends_on_vects_only (b b' : Box K) (h : b.vects = b'.vects) : b.recip = b'.recip := by
  simp only [Box.recip, h]


/-! ### inside / outside -/

theorem dot_vdiv (n p : V3 K) (l : K) : V3.dot (vdiv n l) p = V3.dot n p / l := by
  simp only [vdiv, V3.dot]; ring

theorem below_incl_iff (n pt p : V3 K) (lam : K) (hl : 0 < lam) :
    below ⟨n, pt⟩ lam p true = true ↔ V3.dot n (p - pt) ≤ 0 := by
  simp only [below, if_true, decide_eq_true_eq, dot_vdiv, V3.dot_sub]
  rw [div_le_div_iff_of_pos_right hl, sub_nonpos]

theorem below_excl_iff (n pt p : V3 K) (lam : K) (hl : 0 < lam) :
    below ⟨n, pt⟩ lam p false = true ↔ V3.dot n (p - pt) < 0 := by
  simp only [below, Bool.false_eq_true, if_false, decide_eq_true_eq, dot_vdiv, V3.dot_sub]
  rw [div_lt_div_iff_of_pos_right hl, sub_neg]

theorem rel_x (b : Box K) (p : V3 K) :
    (b.cartToRel p).x = V3.dot (V3.cross b.vects.r1 b.vects.r2) (p - b.origin) / b.vects.det := by
  simp only [Box.cartToRel, Box.recip, M3.mulVec, M3.inv, M3.transpose, V3.dot]; ring
theorem rel_y (b : Box K) (p : V3 K) :
    (b.cartToRel p).y = V3.dot (V3.cross b.vects.r2 b.vects.r0) (p - b.origin) / b.vects.det := by
  simp only [Box.cartToRel, Box.recip, M3.mulVec, M3.inv, M3.transpose, V3.dot]; ring
theorem rel_z (b : Box K) (p : V3 K) :
    (b.cartToRel p).z = V3.dot (V3.cross b.vects.r0 b.vects.r1) (p - b.origin) / b.vects.det := by
  simp only [Box.cartToRel, Box.recip, M3.mulVec, M3.inv, M3.transpose, V3.dot]; ring

structure Lams.Pos (l : Lams K) : Prop where
  h0 : 0 < l.l0
  h1 : 0 < l.l1
  h2 : 0 < l.l2
  h3 : 0 < l.l3
  h4 : 0 < l.l4
  h5 : 0 < l.l5

theorem inside_incl_iff_rel (b : Box K) (hd : 0 < b.vects.det) (lam : Lams K) (hl : lam.Pos) (p : V3 K) :
    inside b lam p true = true ↔ RelIn (b.cartToRel p) := by
  obtain ⟨N0, hN0⟩ : ∃ N, N = V3.dot (V3.cross b.vects.r1 b.vects.r2) (p - b.origin) := ⟨_, rfl⟩
  obtain ⟨N1, hN1⟩ : ∃ N, N = V3.dot (V3.cross b.vects.r2 b.vects.r0) (p - b.origin) := ⟨_, rfl⟩
  obtain ⟨N2, hN2⟩ : ∃ N, N = V3.dot (V3.cross b.vects.r0 b.vects.r1) (p - b.origin) := ⟨_, rfl⟩
  obtain ⟨d, hdd⟩ : ∃ d, d = b.vects.det := ⟨_, rfl⟩
  have e0 : V3.dot (V3.cross b.vects.r2 b.vects.r1) (p - b.origin) = -N0 := by
    rw [hN0]; simp only [V3.dot, V3.cross, V3.sub_def]; ring
  have e1 : V3.dot (V3.cross b.vects.r0 b.vects.r2) (p - b.origin) = -N1 := by
    rw [hN1]; simp only [V3.dot, V3.cross, V3.sub_def]; ring
  have e2 : V3.dot (V3.cross b.vects.r1 b.vects.r0) (p - b.origin) = -N2 := by
    rw [hN2]; simp only [V3.dot, V3.cross, V3.sub_def]; ring
  have e3 : V3.dot (V3.cross b.vects.r1 b.vects.r2) (p - (b.origin + b.vects.r0)) = N0 - d := by
    rw [hN0, hdd]; simp only [M3.det, V3.dot, V3.cross, V3.sub_def, V3.add_def]; ring
  have e4 : V3.dot (V3.cross b.vects.r2 b.vects.r0) (p - (b.origin + b.vects.r1)) = N1 - d := by
    rw [hN1, hdd]; simp only [M3.det, V3.dot, V3.cross, V3.sub_def, V3.add_def]; ring
  have e5 : V3.dot (V3.cross b.vects.r0 b.vects.r1) (p - (b.origin + b.vects.r2)) = N2 - d := by
    rw [hN2, hdd]; simp only [M3.det, V3.dot, V3.cross, V3.sub_def, V3.add_def]; ring
  rw [← hdd] at hd
  simp only [inside, Bool.and_eq_true, below_incl_iff _ _ _ _ hl.h0, below_incl_iff _ _ _ _ hl.h1,
    below_incl_iff _ _ _ _ hl.h2, below_incl_iff _ _ _ _ hl.h3, below_incl_iff _ _ _ _ hl.h4,
    below_incl_iff _ _ _ _ hl.h5, RelIn, rel_x, rel_y, rel_z, e0, e1, e2, e3, e4, e5, ← hN0, ← hN1, ← hN2, ← hdd,
    le_div_iff₀ hd, div_le_iff₀ hd, zero_mul, one_mul]
  constructor
  · rintro ⟨⟨⟨⟨⟨a0, a1⟩, a2⟩, a3⟩, a4⟩, a5⟩
    refine ⟨?_, ?_, ?_, ?_, ?_, ?_⟩ <;> linarith
  · rintro ⟨a0, a1, a2, a3, a4, a5⟩
    refine ⟨⟨⟨⟨⟨?_, ?_⟩, ?_⟩, ?_⟩, ?_⟩, ?_⟩ <;> linarith

theorem inside_excl_iff_rel (b : Box K) (hd : 0 < b.vects.det) (lam : Lams K) (hl : lam.Pos) (p : V3 K) :
    inside b lam p false = true ↔ RelInStrict (b.cartToRel p) := by
  obtain ⟨N0, hN0⟩ : ∃ N, N = V3.dot (V3.cross b.vects.r1 b.vects.r2) (p - b.origin) := ⟨_, rfl⟩
  obtain ⟨N1, hN1⟩ : ∃ N, N = V3.dot (V3.cross b.vects.r2 b.vects.r0) (p - b.origin) := ⟨_, rfl⟩
  obtain ⟨N2, hN2⟩ : ∃ N, N = V3.dot (V3.cross b.vects.r0 b.vects.r1) (p - b.origin) := ⟨_, rfl⟩
  obtain ⟨d, hdd⟩ : ∃ d, d = b.vects.det := ⟨_, rfl⟩
  have e0 : V3.dot (V3.cross b.vects.r2 b.vects.r1) (p - b.origin) = -N0 := by
    rw [hN0]; simp only [V3.dot, V3.cross, V3.sub_def]; ring
  have e1 : V3.dot (V3.cross b.vects.r0 b.vects.r2) (p - b.origin) = -N1 := by
    rw [hN1]; simp only [V3.dot, V3.cross, V3.sub_def]; ring
  have e2 : V3.dot (V3.cross b.vects.r1 b.vects.r0) (p - b.origin) = -N2 := by
    rw [hN2]; simp only [V3.dot, V3.cross, V3.sub_def]; ring
  have e3 : V3.dot (V3.cross b.vects.r1 b.vects.r2) (p - (b.origin + b.vects.r0)) = N0 - d := by
    rw [hN0, hdd]; simp only [M3.det, V3.dot, V3.cross, V3.sub_def, V3.add_def]; ring
  have e4 : V3.dot (V3.cross b.vects.r2 b.vects.r0) (p - (b.origin + b.vects.r1)) = N1 - d := by
    rw [hN1, hdd]; simp only [M3.det, V3.dot, V3.cross, V3.sub_def, V3.add_def]; ring
  have e5 : V3.dot (V3.cross b.vects.r0 b.vects.r1) (p - (b.origin + b.vects.r2)) = N2 - d := by
    rw [hN2, hdd]; simp only [M3.det, V3.dot, V3.cross, V3.sub_def, V3.add_def]; ring
  rw [← hdd] at hd
  simp only [inside, Bool.and_eq_true, below_excl_iff _ _ _ _ hl.h0, below_excl_iff _ _ _ _ hl.h1,
    below_excl_iff _ _ _ _ hl.h2, below_excl_iff _ _ _ _ hl.h3, below_excl_iff _ _ _ _ hl.h4,
    below_excl_iff _ _ _ _ hl.h5, RelInStrict, rel_x, rel_y, rel_z, e0, e1, e2, e3, e4, e5, ← hN0, ← hN1, ← hN2, ← hdd,
    lt_div_iff₀ hd, div_lt_iff₀ hd, zero_mul, one_mul]
  constructor
  · rintro ⟨⟨⟨⟨⟨a0, a1⟩, a2⟩, a3⟩, a4⟩, a5⟩
    refine ⟨?_, ?_, ?_, ?_, ?_, ?_⟩ <;> linarith
  · rintro ⟨a0, a1, a2, a3, a4, a5⟩
    refine ⟨⟨⟨⟨⟨?_, ?_⟩, ?_⟩, ?_⟩, ?_⟩, ?_⟩ <;> linarith

/-- **inside ⇔ relative coordinates in the unit cube**, for every right-handed cell, every origin and
    whatever positive numbers the six plane normals were divided by: boundary included
    (`inclusive=True`, closed cube) or excluded (`inclusive=False`, open cube). -/
theorem inside_iff_rel (b : Box K) (hd : 0 < b.vects.det) (lam : Lams K) (hl : lam.Pos) (p : V3 K) :
    (inside b lam p true = true ↔ RelIn (b.cartToRel p)) ∧
    (inside b lam p false = true ↔ RelInStrict (b.cartToRel p)) :=
  ⟨inside_incl_iff_rel b hd lam hl p, inside_excl_iff_rel b hd lam hl p⟩

/-- in particular the answer does not depend on the normalisation of the plane normals. -/
theorem inside_indep_of_norms (b : Box K) (hd : 0 < b.vects.det) (lam lam' : Lams K) (hl : lam.Pos)
    (hl' : lam'.Pos) (p : V3 K) (incl : Bool) : inside b lam p incl = inside b lam' p incl := by
  cases incl
  · exact Bool.eq_iff_iff.mpr ((inside_excl_iff_rel b hd lam hl p).trans (inside_excl_iff_rel b hd lam' hl' p).symm)
  · exact Bool.eq_iff_iff.mpr ((inside_incl_iff_rel b hd lam hl p).trans (inside_incl_iff_rel b hd lam' hl' p).symm)

example : ∃ (b : Box ℚ) (lam : Lams ℚ) (p q : V3 ℚ), 0 < b.vects.det ∧ lam.Pos ∧ b.origin ≠ ⟨0, 0, 0⟩ ∧
    inside b lam p true = true ∧ inside b lam p false = false ∧ inside b lam q true = false :=
  ⟨⟨⟨⟨2, 0, 0⟩, ⟨1/2, 3, 0⟩, ⟨-1, 1/4, 5⟩⟩, ⟨1, -2, 3⟩⟩, ⟨1, 2, 3, 1/2, 5, 7⟩, ⟨1, -2, 3⟩, ⟨0, 0, 0⟩,
    by decide +kernel, ⟨by decide +kernel, by decide +kernel, by decide +kernel, by decide +kernel,
      by decide +kernel, by decide +kernel⟩, by decide +kernel, by decide +kernel, by decide +kernel,
    by decide +kernel⟩

/-- `Shape.outside(pos, inclusive)` is the complement of `inside(pos, not inclusive)` … -/
theorem outside_eq_not_inside (b : Box K) (lam : Lams K) (p : V3 K) (incl : Bool) :
    outside b lam p incl = !(inside b lam p (!incl)) := rfl

/-- … hence: outside (boundary excluded) ⇔ not in the closed unit cube; outside (boundary included) ⇔
    not in the open unit cube. -/
theorem outside_iff_rel (b : Box K) (hd : 0 < b.vects.det) (lam : Lams K) (hl : lam.Pos) (p : V3 K) :
    (outside b lam p false = true ↔ ¬ RelIn (b.cartToRel p)) ∧
    (outside b lam p true = true ↔ ¬ RelInStrict (b.cartToRel p)) := by
  constructor
  · rw [outside_eq_not_inside, Bool.not_false, Bool.not_eq_true', ← Bool.not_eq_true,
      inside_incl_iff_rel b hd lam hl p]
  · rw [outside_eq_not_inside, Bool.not_true, Bool.not_eq_true', ← Bool.not_eq_true,
      inside_excl_iff_rel b hd lam hl p]

/-! ### volume, and the setter clean-up -/

theorem volume_eq_absdet (b : Box K) : volume b = |b.vects.det| := by
  simp only [volume, absK_eq_abs, M3.det]

theorem volume_nonneg (b : Box K) : 0 ≤ volume b := by
  rw [volume_eq_absdet]; exact abs_nonneg _

theorem volume_normal (b : Box K) (h : b.isLammpsNorm = true) :
    volume b = b.vects.r0.x * b.vects.r1.y * b.vects.r2.z := by
  obtain ⟨hy, hz, hbz, hx, hly, hlz⟩ := (isLammpsNorm_iff b).mp h
  rw [volume_eq_absdet, M3.det_def', hy, hz, hbz]
  have : 0 < b.vects.r0.x * b.vects.r1.y * b.vects.r2.z := mul_pos (mul_pos hx hly) hlz
  rw [abs_of_pos (by linarith)]; ring

theorem volume_sq_eq_gram_det (b : Box K) : volume b * volume b = (gram b.vects).det := by
  rw [volume_eq_absdet, abs_mul_abs_self, gram_det]

theorem maxAbs_eq (m : M3 K) : maxAbs m =
    max (max (max |m.r0.x| |m.r0.y|) |m.r0.z|)
      (max (max (max |m.r1.x| |m.r1.y|) |m.r1.z|) (max (max |m.r2.x| |m.r2.y|) |m.r2.z|)) := by
  simp only [maxAbs, maxK_eq_max, absK_eq_abs]

theorem maxAbs_le_iff (m : M3 K) (c : K) : maxAbs m ≤ c ↔
    |m.r0.x| ≤ c ∧ |m.r0.y| ≤ c ∧ |m.r0.z| ≤ c ∧ |m.r1.x| ≤ c ∧ |m.r1.y| ≤ c ∧ |m.r1.z| ≤ c ∧
    |m.r2.x| ≤ c ∧ |m.r2.y| ≤ c ∧ |m.r2.z| ≤ c := by
  rw [maxAbs_eq]; simp only [max_le_iff, and_assoc]

theorem maxAbs_nonneg (m : M3 K) : 0 ≤ maxAbs m :=
  le_trans (abs_nonneg m.r0.x) ((maxAbs_le_iff m _).mp le_rfl).1

theorem cleanEntry_eq (thr M x : K) : cleanEntry thr M x = if |x| ≤ thr * M then 0 else x := by
  simp only [cleanEntry, absK_eq_abs]

theorem abs_cleanEntry_le (thr M x : K) : |cleanEntry thr M x| ≤ |x| := by
  rw [cleanEntry_eq]; split
  · simp only [abs_zero, abs_nonneg]
  · exact le_rfl

theorem cleanEntry_cleanEntry (thr M M' x : K) (h0 : 0 ≤ thr * M') (hle : thr * M' ≤ thr * M) :
    cleanEntry thr M' (cleanEntry thr M x) = cleanEntry thr M x := by
  simp only [cleanEntry_eq]
  by_cases h : |x| ≤ thr * M
  · simp only [h, if_true, abs_zero, h0]
  · have h' : ¬ |x| ≤ thr * M' := fun hh => h (le_trans hh hle)
    simp only [h, if_false, h']

theorem maxAbs_clean_le (thr : K) (m : M3 K) : maxAbs (cleanVects thr m) ≤ maxAbs m := by
  obtain ⟨h1, h2, h3, h4, h5, h6, h7, h8, h9⟩ := (maxAbs_le_iff m _).mp le_rfl
  rw [maxAbs_le_iff]
  simp only [cleanVects, cleanV]
  exact ⟨le_trans (abs_cleanEntry_le _ _ _) h1, le_trans (abs_cleanEntry_le _ _ _) h2,
    le_trans (abs_cleanEntry_le _ _ _) h3, le_trans (abs_cleanEntry_le _ _ _) h4,
    le_trans (abs_cleanEntry_le _ _ _) h5, le_trans (abs_cleanEntry_le _ _ _) h6,
    le_trans (abs_cleanEntry_le _ _ _) h7, le_trans (abs_cleanEntry_le _ _ _) h8,
    le_trans (abs_cleanEntry_le _ _ _) h9⟩

/-- the setter clean-up is idempotent (any non-negative threshold). -/
theorem clean_idem (thr : K) (hthr : 0 ≤ thr) (m : M3 K) :
    cleanVects thr (cleanVects thr m) = cleanVects thr m := by
  have h0 : 0 ≤ thr * maxAbs (cleanVects thr m) := mul_nonneg hthr (maxAbs_nonneg _)
  have hle : thr * maxAbs (cleanVects thr m) ≤ thr * maxAbs m :=
    mul_le_mul_of_nonneg_left (maxAbs_clean_le thr m) hthr
  have key := fun x => cleanEntry_cleanEntry thr (maxAbs m) (maxAbs (cleanVects thr m)) x h0 hle
  conv_lhs => rw [cleanVects]
  simp only [cleanV]
  ext <;> simp only [cleanVects, cleanV] <;> exact key _


/-- every box the setters produce is clean, so the clean-up in the next setter does nothing to it. -/
theorem setVects_isClean (thr : K) (hthr : 0 ≤ thr) (v : M3 K) (o : V3 K) : IsClean thr (setVects thr v o) :=
  clean_idem thr hthr v

/-- the executed path (`set_lengths` = build + setter clean-up) on a box the setters produced. -/
theorem lengths_roundtrip_clean (thr : K) (b : Box K) (hc : IsClean thr b) (h : b.isLammpsNorm = true) :
    ∃ p, lengths? b = some p ∧ setLengths? thr p b.origin = some b := by
  obtain ⟨p, h1, h2⟩ := lengths_roundtrip b h
  refine ⟨p, h1, ?_⟩
  simp only [setLengths?, h2, Option.map_some]
  have : cleanVects thr b.vects = b.vects := hc
  rw [this]

theorem hilos_roundtrip_clean (thr : K) (b : Box K) (hc : IsClean thr b) (h : b.isLammpsNorm = true) :
    ∃ p, hilos? b = some p ∧ setHiLos? thr p = some b := by
  obtain ⟨p, h1, h2⟩ := hilos_roundtrip b h
  refine ⟨p, h1, ?_⟩
  simp only [setHiLos?, h2, Option.map_some]
  have : cleanVects thr b.vects = b.vects := hc
  rw [this]

/-- the executed `set_abc` path on a clean LAMMPS-normal box fed with its own parameters. -/
theorem abc_rebuild_normal_clean (thr : K) (bx : Box K) (hcl : IsClean thr bx) (h : bx.isLammpsNorm = true)
    (a b c ca cb cg : K) (ha : 0 < a) (hb : 0 < b) (hc : 0 < c)
    (ha2 : a * a = a2 bx) (hb2 : b * b = b2 bx) (hc2 : c * c = c2 bx)
    (hca : b * c * ca = dotBC bx) (hcb : a * c * cb = dotAC bx) (hcg : a * b * cg = dotAB bx) :
    setAbc? thr a b c ca cb cg bx.vects.r1.y bx.vects.r2.z bx.origin = some bx := by
  have e := abc_rebuild_normal bx h a b c ca cb cg ha hb hc ha2 hb2 hc2 hca hcb hcg
  simp only [setAbc?, e, Option.map_some]
  have : cleanVects thr bx.vects = bx.vects := hcl
  rw [this]

/-! ### the clauses on the *object*, after any history of setters and reads -/

/-- on every object reached from `Box()` by any sequence of calls, `reciprocal_vects` (cached or
    not) is dual to the *current* vectors. -/
theorem obj_recip_dual (thr : K) (ops : List (Op K)) (m : M3 K)
    (h : ((CBox.fresh : CBox K).after thr ops |>.read .recip).2 = .mat m) :
    m.mul ((CBox.fresh : CBox K).after thr ops).box.vects.transpose = M3.one := by
  have hc := obj_after_coherent thr ops (CBox.fresh : CBox K) fresh_coherent
  have e := (obj_step_refines thr _ hc (.read .recip)).2
  simp only [CBox.step, stepPlain, ReadOp.eval] at e
  rw [h] at e
  split at e
  · cases e
  · rename_i hd
    simp only [Obs.mat.injEq] at e
    rw [e]; exact (reciprocal_dual _ hd).1

/-- on every such object with a non-degenerate cell, `position_cartesian_to_relative` undoes
    `position_relative_to_cartesian`, whatever was cached before. -/
theorem obj_c2r_r2c (thr : K) (ops : List (Op K)) (s : V3 K)
    (hd : ((CBox.fresh : CBox K).after thr ops).box.vects.det ≠ 0) :
    (((CBox.fresh : CBox K).after thr ops).read
      (.c2r (((CBox.fresh : CBox K).after thr ops).box.relToCart s))).2 = .vec s := by
  have hc := obj_after_coherent thr ops (CBox.fresh : CBox K) fresh_coherent
  have e := (obj_step_refines thr _ hc (.read (.c2r (((CBox.fresh : CBox K).after thr ops).box.relToCart s)))).2
  simp only [CBox.step, stepPlain, ReadOp.eval, hd, if_false] at e
  rw [e, (rel_cart_inverse _ hd s s).1]

/-- non-vacuity: a history with a warm cache, a change of the cell and an origin move, ending in a
    non-degenerate cell different from the unit cell. -/
example : ((CBox.fresh : CBox ℚ).after (1/1000000000)
    [.set (.lengths ⟨2, 3, 4, 1/2, 0, 1⟩ ⟨1, 2, 3⟩), .read .recip, .set (.attrVects ⟨⟨2, 0, 0⟩, ⟨1, 3, 0⟩, ⟨0, 1, 5⟩⟩),
     .read (.c2r ⟨1, 1, 1⟩), .set (.attrOrigin ⟨0, 1, 0⟩)]).box.vects.det ≠ 0 := by decide +kernel

/-! ### third hardening round: the unit of length; LAMMPS-compatible orientation is unique in its rotation class -/

/-- inside / outside do not depend on the unit of length. -/
theorem scale_inside (s : K) (hs : 0 < s) (b : Box K) (hd : 0 < b.vects.det) (lam lam' : Lams K) (hl : lam.Pos)
    (hl' : lam'.Pos) (p : V3 K) (incl : Bool) :
    inside (scaleBox s b) lam' (scaleV s p) incl = inside b lam p incl := by
  have hds : 0 < (scaleBox s b).vects.det := by
    show 0 < (scaleM s b.vects).det
    rw [scale_det]; exact mul_pos (mul_pos (mul_pos hs hs) hs) hd
  have hr := scale_cartToRel s (ne_of_gt hs) b (ne_of_gt hd) p
  cases incl
  · have h1 := (inside_iff_rel (scaleBox s b) hds lam' hl' (scaleV s p)).2
    have h2 := (inside_iff_rel b hd lam hl p).2
    rw [hr] at h1
    exact Bool.eq_iff_iff.mpr (h1.trans h2.symm)
  · have h1 := (inside_iff_rel (scaleBox s b) hds lam' hl' (scaleV s p)).1
    have h2 := (inside_iff_rel b hd lam hl p).1
    rw [hr] at h1
    exact Bool.eq_iff_iff.mpr (h1.trans h2.symm)

/-- the LAMMPS lengths / tilts / bounds are handed out exactly for LAMMPS-compatible cells (upper triangle zero and ALL THREE
    diagonal entries positive), refused otherwise. -/
theorem lammps_getters_refuse_iff (b : Box K) :
    ((lengths? b).isSome = true ↔ (b.vects.r0.y = 0 ∧ b.vects.r0.z = 0 ∧ b.vects.r1.z = 0 ∧
      0 < b.vects.r0.x ∧ 0 < b.vects.r1.y ∧ 0 < b.vects.r2.z)) ∧
    ((hilos? b).isSome = (lengths? b).isSome) := by
  rw [← isLammpsNorm_iff]
  constructor
  · cases h : b.isLammpsNorm <;> simp [lengths?, h]
  · cases h : b.isLammpsNorm <;> simp [lengths?, hilos?, h]

private theorem pos_sq_eq {x y : K} (hx : 0 < x) (hy : 0 < y) (h : x * x = y * y) : x = y := by
  have : (x - y) * (x + y) = 0 := by linear_combination h
  rcases mul_eq_zero.mp this with h1 | h1
  · linarith
  · linarith

/-- A rotation class of cells has at most one LAMMPS-compatible member: two LAMMPS-normal cells with the same lengths and
    angles (equal Gram matrices) have the same vectors.  So "the same vectors … when the cell is in LAMMPS-compatible
    orientation" and "otherwise the same cell up to a rigid rotation" cannot be confused: a properly rotated copy of a
    LAMMPS-oriented cell (e.g. turned by 180 degrees about x) is never LAMMPS-oriented itself. -/
theorem normal_unique_of_gram (b1 b2 : Box K) (h1 : b1.isLammpsNorm = true) (h2 : b2.isLammpsNorm = true)
    (hg : gram b1.vects = gram b2.vects) : b1.vects = b2.vects := by
  obtain ⟨hy1, hz1, hbz1, hx1, hly1, hlz1⟩ := (isLammpsNorm_iff b1).mp h1
  obtain ⟨hy2, hz2, hbz2, hx2, hly2, hlz2⟩ := (isLammpsNorm_iff b2).mp h2
  obtain ⟨⟨⟨ax, ay, az⟩, ⟨bx, by', bz⟩, ⟨cx, cy, cz⟩⟩, o⟩ := b1
  obtain ⟨⟨⟨ax', ay', az'⟩, ⟨bx', by'', bz'⟩, ⟨cx', cy', cz'⟩⟩, o'⟩ := b2
  simp only at hy1 hz1 hbz1 hx1 hly1 hlz1 hy2 hz2 hbz2 hx2 hly2 hlz2
  subst hy1 hz1 hbz1 hy2 hz2 hbz2
  simp only [gram, M3.mul, M3.transpose, M3.vecMul, M3.mk.injEq, V3.mk.injEq] at hg
  obtain ⟨⟨g00, g01, g02⟩, ⟨-, g11, g12⟩, ⟨-, -, g22⟩⟩ := hg
  have e1 : ax = ax' := pos_sq_eq hx1 hx2 (by linear_combination g00)
  subst e1
  have e2 : bx = bx' := by
    have : ax * (bx - bx') = 0 := by linear_combination g01
    rcases mul_eq_zero.mp this with h | h
    · exact absurd h (ne_of_gt hx1)
    · linarith
  subst e2
  have e3 : cx = cx' := by
    have : ax * (cx - cx') = 0 := by linear_combination g02
    rcases mul_eq_zero.mp this with h | h
    · exact absurd h (ne_of_gt hx1)
    · linarith
  subst e3
  have e4 : by' = by'' := pos_sq_eq hly1 hly2 (by linear_combination g11)
  subst e4
  have e5 : cy = cy' := by
    have : by' * (cy - cy') = 0 := by linear_combination g12
    rcases mul_eq_zero.mp this with h | h
    · exact absurd h (ne_of_gt hly1)
    · linarith
  subst e5
  have e6 : cz = cz' := pos_sq_eq hlz1 hlz2 (by linear_combination g22)
  subst e6
  rfl

/-- Reversing two Cartesian axes (a turn by 180 degrees about the third) keeps handedness, every length and every angle —
    and the upper triangle of a LAMMPS-oriented cell stays zero — but the result is not LAMMPS-oriented and hands out no
    LAMMPS parameters: positivity of EACH diagonal entry is part of the test, the product of two of them is not enough. -/
theorem turned_cell_not_normal (b : Box K) (h : b.isLammpsNorm = true) :
    let t := flipAxes 1 (-1) (-1) b
    t.vects.det = b.vects.det ∧ gram t.vects = gram b.vects ∧
    t.vects.r0.y = 0 ∧ t.vects.r0.z = 0 ∧ t.vects.r1.z = 0 ∧ 0 < t.vects.r0.x ∧ 0 < t.vects.r1.y * t.vects.r2.z ∧
    t.isLammpsNorm = false ∧ lengths? t = none ∧ hilos? t = none := by
  obtain ⟨hy, hz, hbz, hx, hly, hlz⟩ := (isLammpsNorm_iff b).mp h
  have hn : (flipAxes 1 (-1) (-1) b).isLammpsNorm = false := by
    rw [Bool.eq_false_iff]
    intro hc
    obtain ⟨-, -, -, -, h5, -⟩ := (isLammpsNorm_iff _).mp hc
    simp only [flipAxes] at h5
    linarith
  refine ⟨?_, ?_, ?_, ?_, ?_, ?_, ?_, hn, ?_, ?_⟩
  · simp only [flipAxes, M3.det, V3.dot, V3.cross]; ring
  · simp only [flipAxes, gram, M3.mul, M3.transpose, M3.vecMul, M3.mk.injEq, V3.mk.injEq]
    refine ⟨⟨?_, ?_, ?_⟩, ⟨?_, ?_, ?_⟩, ⟨?_, ?_, ?_⟩⟩ <;> ring
  · simp only [flipAxes, hy, mul_zero]
  · simp only [flipAxes, hz, mul_zero]
  · simp only [flipAxes, hbz, mul_zero]
  · simp only [flipAxes, one_mul]; exact hx
  · simp only [flipAxes]
    have := mul_pos hly hlz
    linarith
  · simp only [lengths?, hn]; rfl
  · simp only [hilos?, hn]; rfl

example : ∃ b : Box ℚ, b.isLammpsNorm = true ∧ b.vects.r1.x ≠ 0 ∧ b.vects.r2.y ≠ 0 :=
  ⟨⟨⟨⟨4, 0, 0⟩, ⟨1/2, 3, 0⟩, ⟨-3/2, 1/4, 5⟩⟩, ⟨1, 2, 3⟩⟩, by decide +kernel, by decide +kernel, by decide +kernel⟩

example : ∃ (s : ℚ) (b : Box ℚ) (p : V3 ℚ), 0 < s ∧ s ≠ 1 ∧ 0 < b.vects.det ∧
    inside b Lams.ones p true = true ∧ inside b Lams.ones p false = false :=
  ⟨1024, ⟨⟨⟨2, 0, 0⟩, ⟨1/2, 3, 0⟩, ⟨-1, 1/4, 5⟩⟩, ⟨1, -2, 3⟩⟩, ⟨1, -2, 3⟩, by decide +kernel, by decide +kernel,
    by decide +kernel, by decide +kernel, by decide +kernel⟩

end Atomman.C01
