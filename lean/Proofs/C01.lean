/-
  C01 — "One cell, many parameter sets: Box definitions and coordinate maps agree".

  Theorems about the model in `Atomman/Box.lean` + `Atomman/C01.lean`, for every linearly ordered
  field `K` (so for ℚ, on which the driver executes the same definitions, and for ℝ).
-/
import Proofs.C01_Lemmas
import Proofs.C01_Object
import Proofs.C01_Source
import Proofs.C01_Dispatch
import Proofs.C01_Scale
import Proofs.C01_Trig
import Mathlib.Analysis.SpecialFunctions.Trigonometric.Inverse
import Mathlib.Analysis.Real.Sqrt
import Mathlib.Tactic.LinearCombination
import Mathlib.Tactic.NormNum

namespace Atomman.C01
open Atomman
set_option linter.unusedSimpArgs false
set_option linter.unusedSectionVars false
set_option linter.unusedVariables false

variable {K : Type} [Field K] [LinearOrder K] [IsStrictOrderedRing K]

/-! ### LAMMPS-normal boxes: what `isLammpsNorm` says -/

theorem isLammpsNorm_iff (b : Box K) :
    b.isLammpsNorm = true ↔
      b.vects.r0.y = 0 ∧ b.vects.r0.z = 0 ∧ b.vects.r1.z = 0 ∧
      0 < b.vects.r0.x ∧ 0 < b.vects.r1.y ∧ 0 < b.vects.r2.z := by
  simp only [Box.isLammpsNorm, Bool.and_eq_true, decide_eq_true_eq, and_assoc]

/-! ### lengths <-> vectors, hi/lo <-> vectors -/

/-- A LAMMPS-normal box read back as `lx ly lz xy xz yz` (+ origin) and rebuilt with `set_lengths`
    is the same box: same vectors, same origin. -/
theorem lengths_roundtrip (b : Box K) (h : b.isLammpsNorm = true) :
    ∃ p, lengths? b = some p ∧ ofLengthsP? p b.origin = some b := by
  obtain ⟨hy, hz, hbz, hx, hly, hlz⟩ := (isLammpsNorm_iff b).mp h
  have e : lengths? b = some ⟨b.vects.r0.x, b.vects.r1.y, b.vects.r2.z, b.vects.r1.x, b.vects.r2.x, b.vects.r2.y⟩ := by simp only [lengths?, h, if_true]
  refine ⟨_, e, ?_⟩
  simp only [ofLengthsP?, Box.ofLengths?, hx, hly, hlz, and_self, if_true, Option.some.injEq]
  obtain ⟨⟨⟨ax, ay, az⟩, ⟨bx, by', bz⟩, ⟨cx, cy, cz⟩⟩, o⟩ := b
  simp only at hy hz hbz
  subst hy hz hbz
  rfl

/-- … and the other way round: building from lengths then reading the lengths gives the inputs. -/
theorem lengths_readback (p : Lengths K) (o : V3 K) (b : Box K) (h : ofLengthsP? p o = some b) :
    b.isLammpsNorm = true ∧ lengths? b = some p ∧ b.origin = o := by
  simp only [ofLengthsP?, Box.ofLengths?] at h
  split at h
  · rename_i hpos
    obtain ⟨h1, h2, h3⟩ := hpos
    simp only [Option.some.injEq] at h
    subst h
    have hn : Box.isLammpsNorm (K := K) ⟨⟨⟨p.lx, 0, 0⟩, ⟨p.xy, p.ly, 0⟩, ⟨p.xz, p.yz, p.lz⟩⟩, o⟩ = true := by
      rw [isLammpsNorm_iff]; exact ⟨rfl, rfl, rfl, h1, h2, h3⟩
    exact ⟨hn, by simp only [lengths?, hn, if_true], rfl⟩
  · exact absurd h (by simp)

example : ∃ b : Box ℚ, b.isLammpsNorm = true ∧ b.vects.r1.x ≠ 0 ∧ b.origin ≠ ⟨0, 0, 0⟩ :=
  ⟨⟨⟨⟨2, 0, 0⟩, ⟨1/2, 3, 0⟩, ⟨-1, 1/4, 5⟩⟩, ⟨1, -2, 3⟩⟩, by decide +kernel, by decide +kernel, by decide +kernel⟩

/-- A LAMMPS-normal box read back as `xlo xhi ylo yhi zlo zhi xy xz yz` and rebuilt with
    `set_hi_los` is the same box. -/
theorem hilos_roundtrip (b : Box K) (h : b.isLammpsNorm = true) :
    ∃ p, hilos? b = some p ∧ ofHiLosP? p = some b := by
  obtain ⟨hy, hz, hbz, hx, hly, hlz⟩ := (isLammpsNorm_iff b).mp h
  have e : hilos? b = some ⟨b.origin.x, b.origin.x + b.vects.r0.x, b.origin.y, b.origin.y + b.vects.r1.y,
      b.origin.z, b.origin.z + b.vects.r2.z, b.vects.r1.x, b.vects.r2.x, b.vects.r2.y⟩ := by simp only [hilos?, h, if_true]
  refine ⟨_, e, ?_⟩
  simp only [ofHiLosP?, Box.ofHiLos?, Box.ofLengths?, add_sub_cancel_left, hx, hly, hlz, and_self, if_true,
    Option.some.injEq]
  obtain ⟨⟨⟨ax, ay, az⟩, ⟨bx, by', bz⟩, ⟨cx, cy, cz⟩⟩, ⟨ox, oy, oz⟩⟩ := b
  simp only at hy hz hbz
  subst hy hz hbz
  rfl

/-- building from hi/lo then reading hi/lo gives the inputs. -/
theorem hilos_readback (p : HiLos K) (b : Box K) (h : ofHiLosP? p = some b) :
    b.isLammpsNorm = true ∧ hilos? b = some p := by
  simp only [ofHiLosP?, Box.ofHiLos?, Box.ofLengths?] at h
  split at h
  · rename_i hpos
    obtain ⟨h1, h2, h3⟩ := hpos
    simp only [Option.some.injEq] at h
    subst h
    have hn : Box.isLammpsNorm (K := K) ⟨⟨⟨p.xhi - p.xlo, 0, 0⟩, ⟨p.xy, p.yhi - p.ylo, 0⟩,
        ⟨p.xz, p.yz, p.zhi - p.zlo⟩⟩, ⟨p.xlo, p.ylo, p.zlo⟩⟩ = true := by
      rw [isLammpsNorm_iff]; exact ⟨rfl, rfl, rfl, h1, h2, h3⟩
    refine ⟨hn, ?_⟩
    simp only [hilos?, hn, if_true, add_sub_cancel]
  · exact absurd h (by simp)

/-! ### lengths and angles -> vectors (`set_abc`) -/

/-- `set_abc`: if `ly`, `lz` are the positive square roots the code takes, the result is
    LAMMPS-normal, has the requested origin, and its Gram matrix is
    `[[a², ab·cγ, ac·cβ], [·, b², bc·cα], [·, ·, c²]]`: the lengths are `a b c` and the cosines of the
    angles are `cα cβ cγ`. -/
theorem abc_gram (a b c ca cb cg ly lz : K) (o : V3 K)
    (ha : 0 < a) (hly : 0 < ly) (hly2 : ly * ly = abcLySq b cg)
    (hlz : 0 < lz) (hlz2 : lz * lz = abcLzSq b c ca cb cg ly) :
    ∃ bx, ofAbc? a b c ca cb cg ly lz o = some bx ∧ bx.isLammpsNorm = true ∧ bx.origin = o ∧
      a2 bx = a * a ∧ b2 bx = b * b ∧ c2 bx = c * c ∧
      dotAB bx = a * b * cg ∧ dotAC bx = a * c * cb ∧ dotBC bx = b * c * ca := by
  have hne : ly ≠ 0 := ne_of_gt hly
  refine ⟨⟨⟨⟨a, 0, 0⟩, ⟨b * cg, ly, 0⟩, ⟨c * cb, (b * c * ca - b * cg * (c * cb)) / ly, lz⟩⟩, o⟩, ?_, ?_, rfl, ?_⟩
  · simp only [ofAbc?, ofLengthsP?, abcLengths, Box.ofLengths?, ha, hly, hlz, and_self, if_true]
  · rw [isLammpsNorm_iff]; exact ⟨rfl, rfl, rfl, ha, hly, hlz⟩
  · simp only [abcLySq, abcLzSq] at hly2 hlz2
    simp only [a2, b2, c2, dotAB, dotAC, dotBC, V3.normSq, V3.dot]
    refine ⟨by ring, ?_, ?_, by ring, by ring, ?_⟩
    · linear_combination hly2
    · linear_combination hlz2
    · field_simp; ring

example : ∃ a b c ca cb cg ly lz : ℚ, 0 < a ∧ 0 < ly ∧ ly * ly = abcLySq b cg ∧ 0 < lz ∧
    lz * lz = abcLzSq b c ca cb cg ly ∧ cg ≠ 0 ∧ cb ≠ 0 :=
  ⟨2, 5, 13, 3/13, 5/13, 3/5, 4, 12, by norm_num [abcLySq, abcLzSq]⟩

/-- A LAMMPS-normal box fed back through `set_abc` with its own lengths `a b c` (positive roots of
    `a² b² c²`), its own cosines (`b c cα = bvect·cvect` …) and the roots `ly lz` is the same box. -/
theorem abc_rebuild_normal (bx : Box K) (h : bx.isLammpsNorm = true) (a b c ca cb cg : K)
    (ha : 0 < a) (hb : 0 < b) (hc : 0 < c)
    (ha2 : a * a = a2 bx) (hb2 : b * b = b2 bx) (hc2 : c * c = c2 bx)
    (hca : b * c * ca = dotBC bx) (hcb : a * c * cb = dotAC bx) (hcg : a * b * cg = dotAB bx) :
    ofAbc? a b c ca cb cg bx.vects.r1.y bx.vects.r2.z bx.origin = some bx := by
  obtain ⟨hy, hz, hbz, hx, hly, hlz⟩ := (isLammpsNorm_iff bx).mp h
  obtain ⟨⟨⟨lx, ay, az⟩, ⟨xy, ly, bz⟩, ⟨xz, yz, lz⟩⟩, o⟩ := bx
  simp only at hy hz hbz hx hly hlz
  subst hy hz hbz
  simp only [a2, b2, c2, dotAB, dotAC, dotBC, V3.normSq, V3.dot, mul_zero, add_zero, zero_mul] at *
  have hal : a = lx := by nlinarith
  subst hal
  have hane : a ≠ 0 := ne_of_gt ha
  have hlne : ly ≠ 0 := ne_of_gt hly
  have e1 : b * cg = xy := by
    have : a * (b * cg) = a * xy := by linear_combination hcg
    exact mul_left_cancel₀ hane this
  have e2 : c * cb = xz := by
    have : a * (c * cb) = a * xz := by linear_combination hcb
    exact mul_left_cancel₀ hane this
  have e3 : (b * c * ca - xy * xz) / ly = yz := by
    rw [hca]; field_simp; ring
  simp only [ofAbc?, ofLengthsP?, abcLengths, Box.ofLengths?, ha, hly, hlz, and_self, if_true, e1, e2, e3]

example : ∃ (bx : Box ℚ) (a b c ca cb cg : ℚ), bx.isLammpsNorm = true ∧ 0 < a ∧ 0 < b ∧ 0 < c ∧
    a * a = a2 bx ∧ b * b = b2 bx ∧ c * c = c2 bx ∧ b * c * ca = dotBC bx ∧ a * c * cb = dotAC bx ∧
    a * b * cg = dotAB bx ∧ bx.vects.r1.x ≠ 0 ∧ bx.vects.r2.x ≠ 0 :=
  ⟨⟨⟨⟨2, 0, 0⟩, ⟨3, 4, 0⟩, ⟨5, 0, 12⟩⟩, ⟨1, 2, 3⟩⟩, 2, 5, 13, 3/13, 5/13, 3/5, by decide +kernel,
    by norm_num [a2, b2, c2, dotBC, dotAC, dotAB, V3.normSq, V3.dot]⟩

/-- three vectors -> `vects` and back is the identity (the two vector parameter sets). -/
theorem vectors_roundtrip (b : Box K) : ofVectors b.vects.r0 b.vects.r1 b.vects.r2 b.origin = b := rfl

/-! ### equal Gram matrix = same cell up to a rigid rotation -/

theorem gram_det (v : M3 K) : (gram v).det = v.det * v.det := by
  rw [gram, M3.det_mul, M3.det_transpose]

/-- Two right-handed bases with the same lengths and angles (equal Gram matrices `V Vᵀ`) differ by
    the proper rotation `R = V₁⁻¹ V₂`:  `V₁ R = V₂`, `R Rᵀ = 1`, `det R = 1`. -/
theorem gram_eq_rotation (v w : M3 K) (hv : 0 < v.det) (hw : 0 < w.det) (hg : gram v = gram w) :
    v.mul ((M3.inv v).mul w) = w ∧
    ((M3.inv v).mul w).mul ((M3.inv v).mul w).transpose = M3.one ∧
    ((M3.inv v).mul w).det = 1 := by
  have hv0 : v.det ≠ 0 := ne_of_gt hv
  refine ⟨?_, ?_, ?_⟩
  · rw [← M3.mul_assoc, M3.mul_inv_cancel v hv0, M3.one_mul]
  · have hg' : w.mul w.transpose = v.mul v.transpose := hg.symm
    rw [M3.transpose_mul, M3.mul_assoc, ← M3.mul_assoc w, hg', M3.mul_assoc v, ← M3.transpose_mul,
      M3.inv_mul_cancel v hv0, M3.transpose_one, M3.mul_one, M3.inv_mul_cancel v hv0]
  · rw [M3.det_mul, M3.det_inv v hv0]
    have hsq : v.det * v.det = w.det * w.det := by rw [← gram_det, ← gram_det, hg]
    have : v.det = w.det := by nlinarith
    rw [this]; exact inv_mul_cancel₀ (ne_of_gt hw)

/-- conversely a rotation of the rows leaves all lengths and angles (the Gram matrix) unchanged. -/
theorem rotation_preserves_gram (v r : M3 K) (hr : r.mul r.transpose = M3.one) :
    gram (v.mul r) = gram v := by
  simp only [gram]
  rw [M3.transpose_mul, M3.mul_assoc, ← M3.mul_assoc r, hr, M3.one_mul]

example : ∃ v w : M3 ℚ, 0 < v.det ∧ 0 < w.det ∧ gram v = gram w ∧ v ≠ w :=
  ⟨⟨⟨1, 0, 0⟩, ⟨1/2, 2, 0⟩, ⟨0, 1, 3⟩⟩, ⟨⟨0, 1, 0⟩, ⟨-2, 1/2, 0⟩, ⟨-1, 0, 3⟩⟩,
    by decide +kernel, by decide +kernel, by decide +kernel, by decide +kernel⟩

/-- Any right-handed cell read back as lengths and cosines and rebuilt through `set_abc` is the same
    cell up to a proper rotation (and is LAMMPS-normal). -/
theorem abc_rebuild_rotation (bx : Box K) (hdet : 0 < bx.vects.det) (a b c ca cb cg ly lz : K)
    (ha : 0 < a) (ha2 : a * a = a2 bx) (hb2 : b * b = b2 bx) (hc2 : c * c = c2 bx)
    (hca : b * c * ca = dotBC bx) (hcb : a * c * cb = dotAC bx) (hcg : a * b * cg = dotAB bx)
    (hly : 0 < ly) (hly2 : ly * ly = abcLySq b cg)
    (hlz : 0 < lz) (hlz2 : lz * lz = abcLzSq b c ca cb cg ly) :
    ∃ bx', ofAbc? a b c ca cb cg ly lz bx.origin = some bx' ∧ bx'.isLammpsNorm = true ∧
      bx'.origin = bx.origin ∧
      ∃ r : M3 K, bx.vects.mul r = bx'.vects ∧ r.mul r.transpose = M3.one ∧ r.det = 1 := by
  obtain ⟨bx', h1, h2, h3, g1, g2, g3, g4, g5, g6⟩ :=
    abc_gram a b c ca cb cg ly lz bx.origin ha hly hly2 hlz hlz2
  refine ⟨bx', h1, h2, h3, (M3.inv bx.vects).mul bx'.vects, ?_⟩
  obtain ⟨_, _, _, hx, hy, hz⟩ := (isLammpsNorm_iff bx').mp h2
  have hd' : 0 < bx'.vects.det := by
    obtain ⟨e1, e2, e3, _⟩ := (isLammpsNorm_iff bx').mp h2
    rw [M3.det_def', e1, e2, e3]
    have := mul_pos (mul_pos hx hy) hz
    linarith
  apply gram_eq_rotation _ _ hdet hd'
  simp only [a2, b2, c2, dotAB, dotAC, dotBC, V3.normSq, V3.dot] at *
  ext <;> simp only [gram, M3.mul, M3.vecMul, M3.transpose] <;> linarith

example : ∃ (bx : Box ℚ) (a b c ca cb cg ly lz : ℚ), 0 < bx.vects.det ∧ bx.isLammpsNorm = false ∧ 0 < a ∧
    a * a = a2 bx ∧ b * b = b2 bx ∧ c * c = c2 bx ∧ b * c * ca = dotBC bx ∧ a * c * cb = dotAC bx ∧
    a * b * cg = dotAB bx ∧ 0 < ly ∧ ly * ly = abcLySq b cg ∧ 0 < lz ∧ lz * lz = abcLzSq b c ca cb cg ly :=
  ⟨⟨⟨⟨0, 2, 0⟩, ⟨0, 3, 4⟩, ⟨12, 5, 0⟩⟩, ⟨1, 2, 3⟩⟩, 2, 5, 13, 3/13, 5/13, 3/5, 4, 12, by decide +kernel, by decide +kernel,
    by norm_num [a2, b2, c2, dotBC, dotAC, dotAB, V3.normSq, V3.dot, abcLySq, abcLzSq]⟩

/-! ### the two coordinate maps -/

/-- `position_cartesian_to_relative` and `position_relative_to_cartesian` are mutual inverses for
    every non-degenerate cell and every origin. -/
theorem rel_cart_inverse (b : Box K) (h : b.vects.det ≠ 0) (s p : V3 K) :
    b.cartToRel (b.relToCart s) = s ∧ b.relToCart (b.cartToRel p) = p := by
  constructor
  · simp only [Box.cartToRel, Box.relToCart, Box.recip, M3.mulVec_transpose, V3.add_sub_cancel',
      M3.vecMul_inv_cancel _ _ h]
  · simp only [Box.cartToRel, Box.relToCart, Box.recip, M3.mulVec_transpose,
      M3.vecMul_inv_cancel' _ _ h, V3.sub_add_cancel']

example : ∃ b : Box ℚ, b.vects.det ≠ 0 ∧ b.origin ≠ ⟨0, 0, 0⟩ :=
  ⟨⟨⟨⟨2, 0, 1⟩, ⟨1/2, 3, 0⟩, ⟨-1, 1/4, 5⟩⟩, ⟨1, -2, 3⟩⟩, by decide +kernel, by decide +kernel⟩

/-- `reciprocal_vects[i] · vects[j] = δᵢⱼ`. -/
theorem reciprocal_dual (b : Box K) (h : b.vects.det ≠ 0) :
    b.recip.mul b.vects.transpose = M3.one ∧ b.vects.mul b.recip.transpose = M3.one := by
  constructor
  · rw [Box.recip, ← M3.transpose_mul, M3.mul_inv_cancel _ h, M3.transpose_one]
  · rw [Box.recip, M3.transpose_transpose, M3.mul_inv_cancel _ h]

/-- the same, entry by entry. -/
theorem reciprocal_dual_dots (b : Box K) (h : b.vects.det ≠ 0) :
    V3.dot b.recip.r0 b.vects.r0 = 1 ∧ V3.dot b.recip.r0 b.vects.r1 = 0 ∧ V3.dot b.recip.r0 b.vects.r2 = 0 ∧
    V3.dot b.recip.r1 b.vects.r0 = 0 ∧ V3.dot b.recip.r1 b.vects.r1 = 1 ∧ V3.dot b.recip.r1 b.vects.r2 = 0 ∧
    V3.dot b.recip.r2 b.vects.r0 = 0 ∧ V3.dot b.recip.r2 b.vects.r1 = 0 ∧ V3.dot b.recip.r2 b.vects.r2 = 1 := by
  have e := (reciprocal_dual b h).1
  have e' := congrArg M3.toList e
  simp only [M3.toList, V3.toList, M3.mul, M3.vecMul, M3.transpose, M3.one, List.cons_append, List.nil_append,
    List.cons.injEq, and_true] at e'
  simp only [V3.dot]
  exact e'

/-- the reciprocal vectors are a function of the current vectors only (no state): two boxes with the
    same vectors have the same reciprocal vectors whatever their history. -/
theorem recip_depends_on_vects_only (b b' : Box K) (h : b.vects = b'.vects) : b.recip = b'.recip := by
  simp only [Box.recip, h]


/-! ### inside / outside -/

theorem dot_vdiv (n p : V3 K) (l : K) : V3.dot (vdiv n l) p = V3.dot n p / l := by
  simp only [vdiv, V3.dot]; ring

theorem below_incl_iff (n pt p : V3 K) (lam : K) (hl : 0 < lam) :
    below ⟨n, pt⟩ lam p true = true ↔ V3.dot n (p - pt) ≤ 0 := by
  simp only [below, if_true, decide_eq_true_eq, dot_vdiv, V3.dot_sub]
  rw [div_le_div_iff_of_pos_right hl, sub_nonpos]

theorem below_excl_iff (n pt p : V3 K) (lam : K) (hl : 0 < lam) :
    below ⟨n, pt⟩ lam p false = true ↔ V3.dot n (p - pt) < 0 := by
  simp only [below, Bool.false_eq_true, if_false, decide_eq_true_eq, dot_vdiv, V3.dot_sub]
  rw [div_lt_div_iff_of_pos_right hl, sub_neg]

theorem rel_x (b : Box K) (p : V3 K) :
    (b.cartToRel p).x = V3.dot (V3.cross b.vects.r1 b.vects.r2) (p - b.origin) / b.vects.det := by
  simp only [Box.cartToRel, Box.recip, M3.mulVec, M3.inv, M3.transpose, V3.dot]; ring
theorem rel_y (b : Box K) (p : V3 K) :
    (b.cartToRel p).y = V3.dot (V3.cross b.vects.r2 b.vects.r0) (p - b.origin) / b.vects.det := by
  simp only [Box.cartToRel, Box.recip, M3.mulVec, M3.inv, M3.transpose, V3.dot]; ring
theorem rel_z (b : Box K) (p : V3 K) :
    (b.cartToRel p).z = V3.dot (V3.cross b.vects.r0 b.vects.r1) (p - b.origin) / b.vects.det := by
  simp only [Box.cartToRel, Box.recip, M3.mulVec, M3.inv, M3.transpose, V3.dot]; ring

structure Lams.Pos (l : Lams K) : Prop where
  h0 : 0 < l.l0
  h1 : 0 < l.l1
  h2 : 0 < l.l2
  h3 : 0 < l.l3
  h4 : 0 < l.l4
  h5 : 0 < l.l5

theorem inside_incl_iff_rel (b : Box K) (hd : 0 < b.vects.det) (lam : Lams K) (hl : lam.Pos) (p : V3 K) :
    inside b lam p true = true ↔ RelIn (b.cartToRel p) := by
  obtain ⟨N0, hN0⟩ : ∃ N, N = V3.dot (V3.cross b.vects.r1 b.vects.r2) (p - b.origin) := ⟨_, rfl⟩
  obtain ⟨N1, hN1⟩ : ∃ N, N = V3.dot (V3.cross b.vects.r2 b.vects.r0) (p - b.origin) := ⟨_, rfl⟩
  obtain ⟨N2, hN2⟩ : ∃ N, N = V3.dot (V3.cross b.vects.r0 b.vects.r1) (p - b.origin) := ⟨_, rfl⟩
  obtain ⟨d, hdd⟩ : ∃ d, d = b.vects.det := ⟨_, rfl⟩
  have e0 : V3.dot (V3.cross b.vects.r2 b.vects.r1) (p - b.origin) = -N0 := by
    rw [hN0]; simp only [V3.dot, V3.cross, V3.sub_def]; ring
  have e1 : V3.dot (V3.cross b.vects.r0 b.vects.r2) (p - b.origin) = -N1 := by
    rw [hN1]; simp only [V3.dot, V3.cross, V3.sub_def]; ring
  have e2 : V3.dot (V3.cross b.vects.r1 b.vects.r0) (p - b.origin) = -N2 := by
    rw [hN2]; simp only [V3.dot, V3.cross, V3.sub_def]; ring
  have e3 : V3.dot (V3.cross b.vects.r1 b.vects.r2) (p - (b.origin + b.vects.r0)) = N0 - d := by
    rw [hN0, hdd]; simp only [M3.det, V3.dot, V3.cross, V3.sub_def, V3.add_def]; ring
  have e4 : V3.dot (V3.cross b.vects.r2 b.vects.r0) (p - (b.origin + b.vects.r1)) = N1 - d := by
    rw [hN1, hdd]; simp only [M3.det, V3.dot, V3.cross, V3.sub_def, V3.add_def]; ring
  have e5 : V3.dot (V3.cross b.vects.r0 b.vects.r1) (p - (b.origin + b.vects.r2)) = N2 - d := by
    rw [hN2, hdd]; simp only [M3.det, V3.dot, V3.cross, V3.sub_def, V3.add_def]; ring
  rw [← hdd] at hd
  simp only [inside, Bool.and_eq_true, below_incl_iff _ _ _ _ hl.h0, below_incl_iff _ _ _ _ hl.h1,
    below_incl_iff _ _ _ _ hl.h2, below_incl_iff _ _ _ _ hl.h3, below_incl_iff _ _ _ _ hl.h4,
    below_incl_iff _ _ _ _ hl.h5, RelIn, rel_x, rel_y, rel_z, e0, e1, e2, e3, e4, e5, ← hN0, ← hN1, ← hN2, ← hdd,
    le_div_iff₀ hd, div_le_iff₀ hd, zero_mul, one_mul]
  constructor
  · rintro ⟨⟨⟨⟨⟨a0, a1⟩, a2⟩, a3⟩, a4⟩, a5⟩
    refine ⟨?_, ?_, ?_, ?_, ?_, ?_⟩ <;> linarith
  · rintro ⟨a0, a1, a2, a3, a4, a5⟩
    refine ⟨⟨⟨⟨⟨?_, ?_⟩, ?_⟩, ?_⟩, ?_⟩, ?_⟩ <;> linarith

theorem inside_excl_iff_rel (b : Box K) (hd : 0 < b.vects.det) (lam : Lams K) (hl : lam.Pos) (p : V3 K) :
    inside b lam p false = true ↔ RelInStrict (b.cartToRel p) := by
  obtain ⟨N0, hN0⟩ : ∃ N, N = V3.dot (V3.cross b.vects.r1 b.vects.r2) (p - b.origin) := ⟨_, rfl⟩
  obtain ⟨N1, hN1⟩ : ∃ N, N = V3.dot (V3.cross b.vects.r2 b.vects.r0) (p - b.origin) := ⟨_, rfl⟩
  obtain ⟨N2, hN2⟩ : ∃ N, N = V3.dot (V3.cross b.vects.r0 b.vects.r1) (p - b.origin) := ⟨_, rfl⟩
  obtain ⟨d, hdd⟩ : ∃ d, d = b.vects.det := ⟨_, rfl⟩
  have e0 : V3.dot (V3.cross b.vects.r2 b.vects.r1) (p - b.origin) = -N0 := by
    rw [hN0]; simp only [V3.dot, V3.cross, V3.sub_def]; ring
  have e1 : V3.dot (V3.cross b.vects.r0 b.vects.r2) (p - b.origin) = -N1 := by
    rw [hN1]; simp only [V3.dot, V3.cross, V3.sub_def]; ring
  have e2 : V3.dot (V3.cross b.vects.r1 b.vects.r0) (p - b.origin) = -N2 := by
    rw [hN2]; simp only [V3.dot, V3.cross, V3.sub_def]; ring
  have e3 : V3.dot (V3.cross b.vects.r1 b.vects.r2) (p - (b.origin + b.vects.r0)) = N0 - d := by
    rw [hN0, hdd]; simp only [M3.det, V3.dot, V3.cross, V3.sub_def, V3.add_def]; ring
  have e4 : V3.dot (V3.cross b.vects.r2 b.vects.r0) (p - (b.origin + b.vects.r1)) = N1 - d := by
    rw [hN1, hdd]; simp only [M3.det, V3.dot, V3.cross, V3.sub_def, V3.add_def]; ring
  have e5 : V3.dot (V3.cross b.vects.r0 b.vects.r1) (p - (b.origin + b.vects.r2)) = N2 - d := by
    rw [hN2, hdd]; simp only [M3.det, V3.dot, V3.cross, V3.sub_def, V3.add_def]; ring
  rw [← hdd] at hd
  simp only [inside, Bool.and_eq_true, below_excl_iff _ _ _ _ hl.h0, below_excl_iff _ _ _ _ hl.h1,
    below_excl_iff _ _ _ _ hl.h2, below_excl_iff _ _ _ _ hl.h3, below_excl_iff _ _ _ _ hl.h4,
    below_excl_iff _ _ _ _ hl.h5, RelInStrict, rel_x, rel_y, rel_z, e0, e1, e2, e3, e4, e5, ← hN0, ← hN1, ← hN2, ← hdd,
    lt_div_iff₀ hd, div_lt_iff₀ hd, zero_mul, one_mul]
  constructor
  · rintro ⟨⟨⟨⟨⟨a0, a1⟩, a2⟩, a3⟩, a4⟩, a5⟩
    refine ⟨?_, ?_, ?_, ?_, ?_, ?_⟩ <;> linarith
  · rintro ⟨a0, a1, a2, a3, a4, a5⟩
    refine ⟨⟨⟨⟨⟨?_, ?_⟩, ?_⟩, ?_⟩, ?_⟩, ?_⟩ <;> linarith

/-- **inside ⇔ relative coordinates in the unit cube**, for every right-handed cell, every origin and
    whatever positive numbers the six plane normals were divided by: boundary included
    (`inclusive=True`, closed cube) or excluded (`inclusive=False`, open cube). -/
theorem inside_iff_rel (b : Box K) (hd : 0 < b.vects.det) (lam : Lams K) (hl : lam.Pos) (p : V3 K) :
    (inside b lam p true = true ↔ RelIn (b.cartToRel p)) ∧
    (inside b lam p false = true ↔ RelInStrict (b.cartToRel p)) :=
  ⟨inside_incl_iff_rel b hd lam hl p, inside_excl_iff_rel b hd lam hl p⟩

/-- in particular the answer does not depend on the normalisation of the plane normals. -/
theorem inside_indep_of_norms (b : Box K) (hd : 0 < b.vects.det) (lam lam' : Lams K) (hl : lam.Pos)
    (hl' : lam'.Pos) (p : V3 K) (incl : Bool) : inside b lam p incl = inside b lam' p incl := by
  cases incl
  · exact Bool.eq_iff_iff.mpr ((inside_excl_iff_rel b hd lam hl p).trans (inside_excl_iff_rel b hd lam' hl' p).symm)
  · exact Bool.eq_iff_iff.mpr ((inside_incl_iff_rel b hd lam hl p).trans (inside_incl_iff_rel b hd lam' hl' p).symm)

example : ∃ (b : Box ℚ) (lam : Lams ℚ) (p q : V3 ℚ), 0 < b.vects.det ∧ lam.Pos ∧ b.origin ≠ ⟨0, 0, 0⟩ ∧
    inside b lam p true = true ∧ inside b lam p false = false ∧ inside b lam q true = false :=
  ⟨⟨⟨⟨2, 0, 0⟩, ⟨1/2, 3, 0⟩, ⟨-1, 1/4, 5⟩⟩, ⟨1, -2, 3⟩⟩, ⟨1, 2, 3, 1/2, 5, 7⟩, ⟨1, -2, 3⟩, ⟨0, 0, 0⟩,
    by decide +kernel, ⟨by decide +kernel, by decide +kernel, by decide +kernel, by decide +kernel,
      by decide +kernel, by decide +kernel⟩, by decide +kernel, by decide +kernel, by decide +kernel,
    by decide +kernel⟩

/-- `Shape.outside(pos, inclusive)` is the complement of `inside(pos, not inclusive)` … -/
theorem outside_eq_not_inside (b : Box K) (lam : Lams K) (p : V3 K) (incl : Bool) :
    outside b lam p incl = !(inside b lam p (!incl)) := rfl

/-- … hence: outside (boundary excluded) ⇔ not in the closed unit cube; outside (boundary included) ⇔
    not in the open unit cube. -/
theorem outside_iff_rel (b : Box K) (hd : 0 < b.vects.det) (lam : Lams K) (hl : lam.Pos) (p : V3 K) :
    (outside b lam p false = true ↔ ¬ RelIn (b.cartToRel p)) ∧
    (outside b lam p true = true ↔ ¬ RelInStrict (b.cartToRel p)) := by
  constructor
  · rw [outside_eq_not_inside, Bool.not_false, Bool.not_eq_true', ← Bool.not_eq_true,
      inside_incl_iff_rel b hd lam hl p]
  · rw [outside_eq_not_inside, Bool.not_true, Bool.not_eq_true', ← Bool.not_eq_true,
      inside_excl_iff_rel b hd lam hl p]

/-! ### volume, and the setter clean-up -/

theorem volume_eq_absdet (b : Box K) : volume b = |b.vects.det| := by
  simp only [volume, absK_eq_abs, M3.det]

theorem volume_nonneg (b : Box K) : 0 ≤ volume b := by
  rw [volume_eq_absdet]; exact abs_nonneg _

theorem volume_normal (b : Box K) (h : b.isLammpsNorm = true) :
    volume b = b.vects.r0.x * b.vects.r1.y * b.vects.r2.z := by
  obtain ⟨hy, hz, hbz, hx, hly, hlz⟩ := (isLammpsNorm_iff b).mp h
  rw [volume_eq_absdet, M3.det_def', hy, hz, hbz]
  have : 0 < b.vects.r0.x * b.vects.r1.y * b.vects.r2.z := mul_pos (mul_pos hx hly) hlz
  rw [abs_of_pos (by linarith)]; ring

theorem volume_sq_eq_gram_det (b : Box K) : volume b * volume b = (gram b.vects).det := by
  rw [volume_eq_absdet, abs_mul_abs_self, gram_det]

theorem maxAbs_eq (m : M3 K) : maxAbs m =
    max (max (max |m.r0.x| |m.r0.y|) |m.r0.z|)
      (max (max (max |m.r1.x| |m.r1.y|) |m.r1.z|) (max (max |m.r2.x| |m.r2.y|) |m.r2.z|)) := by
  simp only [maxAbs, maxK_eq_max, absK_eq_abs]

theorem maxAbs_le_iff (m : M3 K) (c : K) : maxAbs m ≤ c ↔
    |m.r0.x| ≤ c ∧ |m.r0.y| ≤ c ∧ |m.r0.z| ≤ c ∧ |m.r1.x| ≤ c ∧ |m.r1.y| ≤ c ∧ |m.r1.z| ≤ c ∧
    |m.r2.x| ≤ c ∧ |m.r2.y| ≤ c ∧ |m.r2.z| ≤ c := by
  rw [maxAbs_eq]; simp only [max_le_iff, and_assoc]

theorem maxAbs_nonneg (m : M3 K) : 0 ≤ maxAbs m :=
  le_trans (abs_nonneg m.r0.x) ((maxAbs_le_iff m _).mp le_rfl).1

theorem cleanEntry_eq (thr M x : K) : cleanEntry thr M x = if |x| ≤ thr * M then 0 else x := by
  simp only [cleanEntry, absK_eq_abs]

theorem abs_cleanEntry_le (thr M x : K) : |cleanEntry thr M x| ≤ |x| := by
  rw [cleanEntry_eq]; split
  · simp only [abs_zero, abs_nonneg]
  · exact le_rfl

theorem cleanEntry_cleanEntry (thr M M' x : K) (h0 : 0 ≤ thr * M') (hle : thr * M' ≤ thr * M) :
    cleanEntry thr M' (cleanEntry thr M x) = cleanEntry thr M x := by
  simp only [cleanEntry_eq]
  by_cases h : |x| ≤ thr * M
  · simp only [h, if_true, abs_zero, h0]
  · have h' : ¬ |x| ≤ thr * M' := fun hh => h (le_trans hh hle)
    simp only [h, if_false, h']

theorem maxAbs_clean_le (thr : K) (m : M3 K) : maxAbs (cleanVects thr m) ≤ maxAbs m := by
  obtain ⟨h1, h2, h3, h4, h5, h6, h7, h8, h9⟩ := (maxAbs_le_iff m _).mp le_rfl
  rw [maxAbs_le_iff]
  simp only [cleanVects, cleanV]
  exact ⟨le_trans (abs_cleanEntry_le _ _ _) h1, le_trans (abs_cleanEntry_le _ _ _) h2,
    le_trans (abs_cleanEntry_le _ _ _) h3, le_trans (abs_cleanEntry_le _ _ _) h4,
    le_trans (abs_cleanEntry_le _ _ _) h5, le_trans (abs_cleanEntry_le _ _ _) h6,
    le_trans (abs_cleanEntry_le _ _ _) h7, le_trans (abs_cleanEntry_le _ _ _) h8,
    le_trans (abs_cleanEntry_le _ _ _) h9⟩

/-- the setter clean-up is idempotent (any non-negative threshold). -/
theorem clean_idem (thr : K) (hthr : 0 ≤ thr) (m : M3 K) :
    cleanVects thr (cleanVects thr m) = cleanVects thr m := by
  have h0 : 0 ≤ thr * maxAbs (cleanVects thr m) := mul_nonneg hthr (maxAbs_nonneg _)
  have hle : thr * maxAbs (cleanVects thr m) ≤ thr * maxAbs m :=
    mul_le_mul_of_nonneg_left (maxAbs_clean_le thr m) hthr
  have key := fun x => cleanEntry_cleanEntry thr (maxAbs m) (maxAbs (cleanVects thr m)) x h0 hle
  conv_lhs => rw [cleanVects]
  simp only [cleanV]
  ext <;> simp only [cleanVects, cleanV] <;> exact key _


/-- every box the setters produce is clean, so the clean-up in the next setter does nothing to it. -/
theorem setVects_isClean (thr : K) (hthr : 0 ≤ thr) (v : M3 K) (o : V3 K) : IsClean thr (setVects thr v o) :=
  clean_idem thr hthr v

/-- the executed path (`set_lengths` = build + setter clean-up) on a box the setters produced. -/
theorem lengths_roundtrip_clean (thr : K) (b : Box K) (hc : IsClean thr b) (h : b.isLammpsNorm = true) :
    ∃ p, lengths? b = some p ∧ setLengths? thr p b.origin = some b := by
  obtain ⟨p, h1, h2⟩ := lengths_roundtrip b h
  refine ⟨p, h1, ?_⟩
  simp only [setLengths?, h2, Option.map_some]
  have : cleanVects thr b.vects = b.vects := hc
  rw [this]

theorem hilos_roundtrip_clean (thr : K) (b : Box K) (hc : IsClean thr b) (h : b.isLammpsNorm = true) :
    ∃ p, hilos? b = some p ∧ setHiLos? thr p = some b := by
  obtain ⟨p, h1, h2⟩ := hilos_roundtrip b h
  refine ⟨p, h1, ?_⟩
  simp only [setHiLos?, h2, Option.map_some]
  have : cleanVects thr b.vects = b.vects := hc
  rw [this]

/-- the executed `set_abc` path on a clean LAMMPS-normal box fed with its own parameters. -/
theorem abc_rebuild_normal_clean (thr : K) (bx : Box K) (hcl : IsClean thr bx) (h : bx.isLammpsNorm = true)
    (a b c ca cb cg : K) (ha : 0 < a) (hb : 0 < b) (hc : 0 < c)
    (ha2 : a * a = a2 bx) (hb2 : b * b = b2 bx) (hc2 : c * c = c2 bx)
    (hca : b * c * ca = dotBC bx) (hcb : a * c * cb = dotAC bx) (hcg : a * b * cg = dotAB bx) :
    setAbc? thr a b c ca cb cg bx.vects.r1.y bx.vects.r2.z bx.origin = some bx := by
  have e := abc_rebuild_normal bx h a b c ca cb cg ha hb hc ha2 hb2 hc2 hca hcb hcg
  simp only [setAbc?, e, Option.map_some]
  have : cleanVects thr bx.vects = bx.vects := hcl
  rw [this]

/-! ### the clauses on the *object*, after any history of setters and reads -/

/-- on every object reached from `Box()` by any sequence of calls, `reciprocal_vects` (cached or
    not) is dual to the *current* vectors. -/
theorem obj_recip_dual (thr : K) (ops : List (Op K)) (m : M3 K)
    (h : ((CBox.fresh : CBox K).after thr ops |>.read .recip).2 = .mat m) :
    m.mul ((CBox.fresh : CBox K).after thr ops).box.vects.transpose = M3.one := by
  have hc := obj_after_coherent thr ops (CBox.fresh : CBox K) fresh_coherent
  have e := (obj_step_refines thr _ hc (.read .recip)).2
  simp only [CBox.step, stepPlain, ReadOp.eval] at e
  rw [h] at e
  split at e
  · cases e
  · rename_i hd
    simp only [Obs.mat.injEq] at e
    rw [e]; exact (reciprocal_dual _ hd).1

/-- on every such object with a non-degenerate cell, `position_cartesian_to_relative` undoes
    `position_relative_to_cartesian`, whatever was cached before. -/
theorem obj_c2r_r2c (thr : K) (ops : List (Op K)) (s : V3 K)
    (hd : ((CBox.fresh : CBox K).after thr ops).box.vects.det ≠ 0) :
    (((CBox.fresh : CBox K).after thr ops).read
      (.c2r (((CBox.fresh : CBox K).after thr ops).box.relToCart s))).2 = .vec s := by
  have hc := obj_after_coherent thr ops (CBox.fresh : CBox K) fresh_coherent
  have e := (obj_step_refines thr _ hc (.read (.c2r (((CBox.fresh : CBox K).after thr ops).box.relToCart s)))).2
  simp only [CBox.step, stepPlain, ReadOp.eval, hd, if_false] at e
  rw [e, (rel_cart_inverse _ hd s s).1]

/-- non-vacuity: a history with a warm cache, a change of the cell and an origin move, ending in a
    non-degenerate cell different from the unit cell. -/
example : ((CBox.fresh : CBox ℚ).after (1/1000000000)
    [.set (.lengths ⟨2, 3, 4, 1/2, 0, 1⟩ ⟨1, 2, 3⟩), .read .recip, .set (.attrVects ⟨⟨2, 0, 0⟩, ⟨1, 3, 0⟩, ⟨0, 1, 5⟩⟩),
     .read (.c2r ⟨1, 1, 1⟩), .set (.attrOrigin ⟨0, 1, 0⟩)]).box.vects.det ≠ 0 := by decide +kernel

/-! ### third hardening round: the unit of length; LAMMPS-compatible orientation is unique in its rotation class -/

/-- inside / outside do not depend on the unit of length. -/
theorem scale_inside (s : K) (hs : 0 < s) (b : Box K) (hd : 0 < b.vects.det) (lam lam' : Lams K) (hl : lam.Pos)
    (hl' : lam'.Pos) (p : V3 K) (incl : Bool) :
    inside (scaleBox s b) lam' (scaleV s p) incl = inside b lam p incl := by
  have hds : 0 < (scaleBox s b).vects.det := by
    show 0 < (scaleM s b.vects).det
    rw [scale_det]; exact mul_pos (mul_pos (mul_pos hs hs) hs) hd
  have hr := scale_cartToRel s (ne_of_gt hs) b (ne_of_gt hd) p
  cases incl
  · have h1 := (inside_iff_rel (scaleBox s b) hds lam' hl' (scaleV s p)).2
    have h2 := (inside_iff_rel b hd lam hl p).2
    rw [hr] at h1
    exact Bool.eq_iff_iff.mpr (h1.trans h2.symm)
  · have h1 := (inside_iff_rel (scaleBox s b) hds lam' hl' (scaleV s p)).1
    have h2 := (inside_iff_rel b hd lam hl p).1
    rw [hr] at h1
    exact Bool.eq_iff_iff.mpr (h1.trans h2.symm)

/-- the LAMMPS lengths / tilts / bounds are handed out exactly for LAMMPS-compatible cells (upper triangle zero and ALL THREE
    diagonal entries positive), refused otherwise. -/
theorem lammps_getters_refuse_iff (b : Box K) :
    ((lengths? b).isSome = true ↔ (b.vects.r0.y = 0 ∧ b.vects.r0.z = 0 ∧ b.vects.r1.z = 0 ∧
      0 < b.vects.r0.x ∧ 0 < b.vects.r1.y ∧ 0 < b.vects.r2.z)) ∧
    ((hilos? b).isSome = (lengths? b).isSome) := by
  rw [← isLammpsNorm_iff]
  constructor
  · cases h : b.isLammpsNorm <;> simp [lengths?, h]
  · cases h : b.isLammpsNorm <;> simp [lengths?, hilos?, h]

private theorem pos_sq_eq {x y : K} (hx : 0 < x) (hy : 0 < y) (h : x * x = y * y) : x = y := by
  have : (x - y) * (x + y) = 0 := by linear_combination h
  rcases mul_eq_zero.mp this with h1 | h1
  · linarith
  · linarith

/-- A rotation class of cells has at most one LAMMPS-compatible member: two LAMMPS-normal cells with the same lengths and
    angles (equal Gram matrices) have the same vectors.  So "the same vectors … when the cell is in LAMMPS-compatible
    orientation" and "otherwise the same cell up to a rigid rotation" cannot be confused: a properly rotated copy of a
    LAMMPS-oriented cell (e.g. turned by 180 degrees about x) is never LAMMPS-oriented itself. -/
theorem normal_unique_of_gram (b1 b2 : Box K) (h1 : b1.isLammpsNorm = true) (h2 : b2.isLammpsNorm = true)
    (hg : gram b1.vects = gram b2.vects) : b1.vects = b2.vects := by
  obtain ⟨hy1, hz1, hbz1, hx1, hly1, hlz1⟩ := (isLammpsNorm_iff b1).mp h1
  obtain ⟨hy2, hz2, hbz2, hx2, hly2, hlz2⟩ := (isLammpsNorm_iff b2).mp h2
  obtain ⟨⟨⟨ax, ay, az⟩, ⟨bx, by', bz⟩, ⟨cx, cy, cz⟩⟩, o⟩ := b1
  obtain ⟨⟨⟨ax', ay', az'⟩, ⟨bx', by'', bz'⟩, ⟨cx', cy', cz'⟩⟩, o'⟩ := b2
  simp only at hy1 hz1 hbz1 hx1 hly1 hlz1 hy2 hz2 hbz2 hx2 hly2 hlz2
  subst hy1 hz1 hbz1 hy2 hz2 hbz2
  simp only [gram, M3.mul, M3.transpose, M3.vecMul, M3.mk.injEq, V3.mk.injEq] at hg
  obtain ⟨⟨g00, g01, g02⟩, ⟨-, g11, g12⟩, ⟨-, -, g22⟩⟩ := hg
  have e1 : ax = ax' := pos_sq_eq hx1 hx2 (by linear_combination g00)
  subst e1
  have e2 : bx = bx' := by
    have : ax * (bx - bx') = 0 := by linear_combination g01
    rcases mul_eq_zero.mp this with h | h
    · exact absurd h (ne_of_gt hx1)
    · linarith
  subst e2
  have e3 : cx = cx' := by
    have : ax * (cx - cx') = 0 := by linear_combination g02
    rcases mul_eq_zero.mp this with h | h
    · exact absurd h (ne_of_gt hx1)
    · linarith
  subst e3
  have e4 : by' = by'' := pos_sq_eq hly1 hly2 (by linear_combination g11)
  subst e4
  have e5 : cy = cy' := by
    have : by' * (cy - cy') = 0 := by linear_combination g12
    rcases mul_eq_zero.mp this with h | h
    · exact absurd h (ne_of_gt hly1)
    · linarith
  subst e5
  have e6 : cz = cz' := pos_sq_eq hlz1 hlz2 (by linear_combination g22)
  subst e6
  rfl

/-- Reversing two Cartesian axes (a turn by 180 degrees about the third) keeps handedness, every length and every angle —
    and the upper triangle of a LAMMPS-oriented cell stays zero — but the result is not LAMMPS-oriented and hands out no
    LAMMPS parameters: positivity of EACH diagonal entry is part of the test, the product of two of them is not enough. -/
theorem turned_cell_not_normal (b : Box K) (h : b.isLammpsNorm = true) :
    let t := flipAxes 1 (-1) (-1) b
    t.vects.det = b.vects.det ∧ gram t.vects = gram b.vects ∧
    t.vects.r0.y = 0 ∧ t.vects.r0.z = 0 ∧ t.vects.r1.z = 0 ∧ 0 < t.vects.r0.x ∧ 0 < t.vects.r1.y * t.vects.r2.z ∧
    t.isLammpsNorm = false ∧ lengths? t = none ∧ hilos? t = none := by
  obtain ⟨hy, hz, hbz, hx, hly, hlz⟩ := (isLammpsNorm_iff b).mp h
  have hn : (flipAxes 1 (-1) (-1) b).isLammpsNorm = false := by
    rw [Bool.eq_false_iff]
    intro hc
    obtain ⟨-, -, -, -, h5, -⟩ := (isLammpsNorm_iff _).mp hc
    simp only [flipAxes] at h5
    linarith
  refine ⟨?_, ?_, ?_, ?_, ?_, ?_, ?_, hn, ?_, ?_⟩
  · simp only [flipAxes, M3.det, V3.dot, V3.cross]; ring
  · simp only [flipAxes, gram, M3.mul, M3.transpose, M3.vecMul, M3.mk.injEq, V3.mk.injEq]
    refine ⟨⟨?_, ?_, ?_⟩, ⟨?_, ?_, ?_⟩, ⟨?_, ?_, ?_⟩⟩ <;> ring
  · simp only [flipAxes, hy, mul_zero]
  · simp only [flipAxes, hz, mul_zero]
  · simp only [flipAxes, hbz, mul_zero]
  · simp only [flipAxes, one_mul]; exact hx
  · simp only [flipAxes]
    have := mul_pos hly hlz
    linarith
  · simp only [lengths?, hn]; rfl
  · simp only [hilos?, hn]; rfl

example : ∃ b : Box ℚ, b.isLammpsNorm = true ∧ b.vects.r1.x ≠ 0 ∧ b.vects.r2.y ≠ 0 :=
  ⟨⟨⟨⟨4, 0, 0⟩, ⟨1/2, 3, 0⟩, ⟨-3/2, 1/4, 5⟩⟩, ⟨1, 2, 3⟩⟩, by decide +kernel, by decide +kernel, by decide +kernel⟩

example : ∃ (s : ℚ) (b : Box ℚ) (p : V3 ℚ), 0 < s ∧ s ≠ 1 ∧ 0 < b.vects.det ∧
    inside b Lams.ones p true = true ∧ inside b Lams.ones p false = false :=
  ⟨1024, ⟨⟨⟨2, 0, 0⟩, ⟨1/2, 3, 0⟩, ⟨-1, 1/4, 5⟩⟩, ⟨1, -2, 3⟩⟩, ⟨1, -2, 3⟩, by decide +kernel, by decide +kernel,
    by decide +kernel, by decide +kernel, by decide +kernel⟩

variable {T : Trig K}

/-! ### every ordered pair of parameter sets: define through X, read through Y, rebuild through Y -/

/-- the rows of a non-degenerate cell are pairwise non-parallel. -/
theorem cross_pos_of_det (m : M3 K) (h : m.det ≠ 0) :
    0 < V3.normSq (V3.cross m.r1 m.r2) ∧ 0 < V3.normSq (V3.cross m.r0 m.r2) ∧ 0 < V3.normSq (V3.cross m.r0 m.r1) := by
  have nz : ∀ w : V3 K, V3.normSq w = 0 → w.x = 0 ∧ w.y = 0 ∧ w.z = 0 := by
    intro w hw
    simp only [V3.normSq, V3.dot] at hw
    have hx := mul_self_nonneg w.x; have hy := mul_self_nonneg w.y; have hz := mul_self_nonneg w.z
    refine ⟨?_, ?_, ?_⟩ <;> apply mul_self_eq_zero.mp <;> linarith
  have d1 : m.det = V3.dot m.r0 (V3.cross m.r1 m.r2) := by simp only [M3.det]
  have d2 : m.det = -V3.dot m.r1 (V3.cross m.r0 m.r2) := by simp only [M3.det, V3.dot, V3.cross]; ring
  have d3 : m.det = V3.dot m.r2 (V3.cross m.r0 m.r1) := by simp only [M3.det, V3.dot, V3.cross]; ring
  refine ⟨?_, ?_, ?_⟩
  · rcases (normSq_nonneg (V3.cross m.r1 m.r2)).lt_or_eq with hh | hh
    · exact hh
    · obtain ⟨a, b, c⟩ := nz _ hh.symm
      exact absurd (by rw [d1]; simp only [V3.dot, a, b, c]; ring) h
  · rcases (normSq_nonneg (V3.cross m.r0 m.r2)).lt_or_eq with hh | hh
    · exact hh
    · obtain ⟨a, b, c⟩ := nz _ hh.symm
      exact absurd (by rw [d2]; simp only [V3.dot, a, b, c]; ring) h
  · rcases (normSq_nonneg (V3.cross m.r0 m.r1)).lt_or_eq with hh | hh
    · exact hh
    · obtain ⟨a, b, c⟩ := nz _ hh.symm
      exact absurd (by rw [d3]; simp only [V3.dot, a, b, c]; ring) h

theorem det_pos_of_normal (b : Box K) (h : b.isLammpsNorm = true) : 0 < b.vects.det := by
  obtain ⟨e1, e2, e3, hx, hy, hz⟩ := (isLammpsNorm_iff b).mp h
  rw [M3.det_def', e1, e2, e3]
  have := mul_pos (mul_pos hx hy) hz
  linarith

/-- the two radicands of `set_abc`, fed with the lengths and cosines of a LAMMPS-oriented cell, are the squares of its `ly`, `lz`. -/
theorem abc_roots_of_normal (bx : Box K) (h : bx.isLammpsNorm = true) (a b c ca cb cg : K)
    (ha : 0 < a) (ha2 : a * a = a2 bx) (hb2 : b * b = b2 bx) (hc2 : c * c = c2 bx)
    (hca : b * c * ca = dotBC bx) (hcb : a * c * cb = dotAC bx) (hcg : a * b * cg = dotAB bx) :
    abcLySq b cg = bx.vects.r1.y * bx.vects.r1.y ∧
    abcLzSq b c ca cb cg bx.vects.r1.y = bx.vects.r2.z * bx.vects.r2.z := by
  obtain ⟨hy, hz, hbz, hx, hly, hlz⟩ := (isLammpsNorm_iff bx).mp h
  obtain ⟨⟨⟨lx, ay, az⟩, ⟨xy, ly, bz⟩, ⟨xz, yz, lz⟩⟩, o⟩ := bx
  simp only at hy hz hbz hx hly hlz
  subst hy hz hbz
  simp only [a2, b2, c2, dotAB, dotAC, dotBC, V3.normSq, V3.dot, mul_zero, add_zero, zero_mul] at *
  have hal : a = lx := by nlinarith
  subst hal
  have hane : a ≠ 0 := ne_of_gt ha
  have hlne : ly ≠ 0 := ne_of_gt hly
  have e1 : b * cg = xy := mul_left_cancel₀ hane (by linear_combination hcg)
  have e2 : c * cb = xz := mul_left_cancel₀ hane (by linear_combination hcb)
  have e3 : (b * c * ca - xy * xz) / ly = yz := by rw [hca]; field_simp; ring
  constructor
  · simp only [abcLySq, e1]; linear_combination hb2
  · simp only [abcLzSq, e1, e2, e3]; linear_combination hc2

/-- reading a clean LAMMPS-oriented cell through `a b c alpha beta gamma` (+ origin) and handing that to `set_abc`. -/
theorem read_abc_rebuild_normal (hT : T.Spec) (thr : K) (bx : Box K) (hcl : IsClean thr bx) (h : bx.isLammpsNorm = true) :
    ∃ q, readAs? T .abc bx = some q ∧ q.family = .abc ∧ define? T thr q = some bx := by
  refine ⟨_, rfl, rfl, ?_⟩
  have hd := det_pos_of_normal bx h
  obtain ⟨x12, x02, x01⟩ := cross_pos_of_det bx.vects (ne_of_gt hd)
  obtain ⟨al1, al2, al3, al4⟩ := angleDeg_spec hT _ _ x12
  obtain ⟨be1, be2, be3, be4⟩ := angleDeg_spec hT _ _ x02
  obtain ⟨ga1, ga2, ga3, ga4⟩ := angleDeg_spec hT _ _ x01
  obtain ⟨n0, _⟩ := cross_pos_parts _ _ x01
  obtain ⟨n1, n2⟩ := cross_pos_parts _ _ x12
  have pa := lenOf_pos hT _ n0
  have pb := lenOf_pos hT _ n1
  have pc := lenOf_pos hT _ n2
  have ok : anglesOk (angleDeg T bx.vects.r1 bx.vects.r2) (angleDeg T bx.vects.r0 bx.vects.r2)
      (angleDeg T bx.vects.r0 bx.vects.r1) = true := by
    simp only [anglesOk, Bool.and_eq_true, decide_eq_true_eq]
    exact ⟨⟨⟨⟨⟨al1, al2⟩, be1⟩, be2⟩, ga1⟩, ga2⟩
  have hca : lenOf T bx.vects.r1 * lenOf T bx.vects.r2 * cosDeg T (angleDeg T bx.vects.r1 bx.vects.r2) = dotBC bx := by
    rw [mul_comm]; exact al4
  have hcb : lenOf T bx.vects.r0 * lenOf T bx.vects.r2 * cosDeg T (angleDeg T bx.vects.r0 bx.vects.r2) = dotAC bx := by
    rw [mul_comm]; exact be4
  have hcg : lenOf T bx.vects.r0 * lenOf T bx.vects.r1 * cosDeg T (angleDeg T bx.vects.r0 bx.vects.r1) = dotAB bx := by
    rw [mul_comm]; exact ga4
  obtain ⟨r1, r2⟩ := abc_roots_of_normal bx h _ _ _ _ _ _ pa (lenOf_sq hT _) (lenOf_sq hT _) (lenOf_sq hT _) hca hcb hcg
  obtain ⟨_, _, _, _, hly, hlz⟩ := (isLammpsNorm_iff bx).mp h
  have s1 : T.sqrt (abcLySq (lenOf T bx.vects.r1) (cosDeg T (angleDeg T bx.vects.r0 bx.vects.r1))) = bx.vects.r1.y := by
    rw [r1]; exact hT.sqrt_mul_self _ hly.le
  have s2 : T.sqrt (abcLzSq (lenOf T bx.vects.r1) (lenOf T bx.vects.r2) (cosDeg T (angleDeg T bx.vects.r1 bx.vects.r2))
      (cosDeg T (angleDeg T bx.vects.r0 bx.vects.r2)) (cosDeg T (angleDeg T bx.vects.r0 bx.vects.r1)) bx.vects.r1.y)
      = bx.vects.r2.z := by
    rw [r2]; exact hT.sqrt_mul_self _ hlz.le
  have key := abc_rebuild_normal_clean thr bx hcl h _ _ _ _ _ _ pa pb pc (lenOf_sq hT _) (lenOf_sq hT _) (lenOf_sq hT _)
    hca hcb hcg
  simp only [define?, setAbcDeg?, ok, if_true, abcOfDeg, s1, s2]
  exact key

/-- whatever a cell-defining call stores is clean (the next setter's clean-up does nothing to it). -/
theorem defined_isClean (thr : K) (hthr : 0 ≤ thr) (x : Params K) (b : Box K) (h : define? T thr x = some b) :
    IsClean thr b := by
  cases x with
  | vectors a b' c o =>
    simp only [define?, Option.some.injEq] at h
    subst h; exact clean_idem thr hthr _
  | abc a b' c al be ga o =>
    simp only [define?, setAbcDeg?] at h
    split at h
    · obtain ⟨b0, _, rfl⟩ := Option.map_eq_some_iff.mp h
      exact clean_idem thr hthr _
    · cases h
  | lengths p o =>
    simp only [define?, setLengths?] at h
    obtain ⟨b0, _, rfl⟩ := Option.map_eq_some_iff.mp h
    exact clean_idem thr hthr _
  | hilos p =>
    simp only [define?, setHiLos?] at h
    obtain ⟨b0, _, rfl⟩ := Option.map_eq_some_iff.mp h
    exact clean_idem thr hthr _

/-- `define?` is `defineRaw?` followed by the clean-up of the `vects` setter. -/
theorem define_eq_clean_raw (thr : K) (x : Params K) : define? T thr x = (defineRaw? T x).map (cleanBox thr) := by
  cases x with
  | vectors a b' c o => rfl
  | abc a b' c al be ga o => simp only [define?, defineRaw?, setAbcDeg?]; split <;> rfl
  | lengths p o => rfl
  | hilos p => rfl

/-- before the clean-up, the three LAMMPS-style parameter sets produce LAMMPS-oriented cells. -/
theorem raw_normal (x : Params K) (hf : x.family ≠ .vectors) (b0 : Box K) (h : defineRaw? T x = some b0) :
    b0.isLammpsNorm = true := by
  cases x with
  | vectors a b' c o => exact absurd rfl hf
  | abc a b' c al be ga o =>
    simp only [defineRaw?] at h
    split at h
    · exact (lengths_readback _ _ _ h).1
    · cases h
  | lengths p o => exact (lengths_readback _ _ _ h).1
  | hilos p => exact (hilos_readback _ _ h).1

/-- the clean-up keeps a LAMMPS-oriented cell LAMMPS-oriented unless it flattens it (zeroes a diagonal entry). -/
theorem clean_normal_of_det (thr : K) (b0 : Box K) (h : b0.isLammpsNorm = true) (hd : (cleanBox thr b0).vects.det ≠ 0) :
    (cleanBox thr b0).isLammpsNorm = true := by
  obtain ⟨e1, e2, e3, hx, hy, hz⟩ := (isLammpsNorm_iff b0).mp h
  have z : ∀ M : K, cleanEntry thr M 0 = 0 := fun M => by simp only [cleanEntry]; split <;> rfl
  have c1 : (cleanBox thr b0).vects.r0.y = 0 := by simp only [cleanBox, cleanVects, cleanV, e1, z]
  have c2 : (cleanBox thr b0).vects.r0.z = 0 := by simp only [cleanBox, cleanVects, cleanV, e2, z]
  have c3 : (cleanBox thr b0).vects.r1.z = 0 := by simp only [cleanBox, cleanVects, cleanV, e3, z]
  have hdet : (cleanBox thr b0).vects.det =
      (cleanBox thr b0).vects.r0.x * (cleanBox thr b0).vects.r1.y * (cleanBox thr b0).vects.r2.z := by
    rw [M3.det_def', c1, c2, c3]; ring
  rw [hdet] at hd
  have n1 : (cleanBox thr b0).vects.r0.x ≠ 0 := fun hh => hd (by rw [hh]; ring)
  have n2 : (cleanBox thr b0).vects.r1.y ≠ 0 := fun hh => hd (by rw [hh]; ring)
  have n3 : (cleanBox thr b0).vects.r2.z ≠ 0 := fun hh => hd (by rw [hh]; ring)
  have keep : ∀ M x : K, cleanEntry thr M x ≠ 0 → cleanEntry thr M x = x := by
    intro M x hne; simp only [cleanEntry] at hne ⊢; split
    · rename_i hh; simp only [hh, if_true, ne_eq, not_true_eq_false] at hne
    · rfl
  rw [isLammpsNorm_iff]
  refine ⟨c1, c2, c3, ?_, ?_, ?_⟩
  · have : (cleanBox thr b0).vects.r0.x = b0.vects.r0.x := keep _ _ n1
    rw [this]; exact hx
  · have : (cleanBox thr b0).vects.r1.y = b0.vects.r1.y := keep _ _ n2
    rw [this]; exact hy
  · have : (cleanBox thr b0).vects.r2.z = b0.vects.r2.z := keep _ _ n3
    rw [this]; exact hz

/-- **a cell defined through lengths/angles, LAMMPS lengths/tilts or LAMMPS bounds/tilts is LAMMPS-oriented** whenever it is
    non-degenerate (the clean-up has not flattened it). -/
theorem defined_normal_of_det (thr : K) (x : Params K) (hf : x.family ≠ .vectors) (b : Box K)
    (h : define? T thr x = some b) (hd : b.vects.det ≠ 0) : b.isLammpsNorm = true := by
  rw [define_eq_clean_raw] at h
  obtain ⟨b0, h0, rfl⟩ := Option.map_eq_some_iff.mp h
  exact clean_normal_of_det thr b0 (raw_normal x hf b0 h0) hd

/-- **read through Y, rebuild through Y**, for each of the four parameter sets Y, on a clean LAMMPS-oriented cell: the getters of
    Y hand out values, and giving exactly those back to Y's setter stores the same vectors and the same origin. -/
theorem read_rebuild_same (hT : T.Spec) (thr : K) (Y : Family) (b : Box K) (hc : IsClean thr b) (hn : b.isLammpsNorm = true) :
    ∃ q, readAs? T Y b = some q ∧ q.family = Y ∧ define? T thr q = some b := by
  cases Y with
  | vectors =>
    refine ⟨_, rfl, rfl, ?_⟩
    simp only [define?, setVects, Option.some.injEq]
    have : cleanVects thr b.vects = b.vects := hc
    rw [this]
  | abc => exact read_abc_rebuild_normal hT thr b hc hn
  | lengths =>
    obtain ⟨p, h1, h2⟩ := lengths_roundtrip_clean thr b hc hn
    exact ⟨.lengths p b.origin, by simp only [readAs?, h1, Option.map_some], rfl, h2⟩
  | hilos =>
    obtain ⟨p, h1, h2⟩ := hilos_roundtrip_clean thr b hc hn
    exact ⟨.hilos p, by simp only [readAs?, h1, Option.map_some], rfl, h2⟩

/-- **every ordered pair (X, Y) of the four parameter sets**: a cell defined through X (accepted, non-degenerate; for X = three
    vectors: given in LAMMPS-compatible orientation) can be read back through Y, and rebuilding from those values through Y
    returns the same vectors and origin. -/
theorem rebuild_any_pair (hT : T.Spec) (thr : K) (hthr : 0 ≤ thr) (x : Params K) (Y : Family) (b : Box K)
    (hx : define? T thr x = some b) (hd : b.vects.det ≠ 0) (hX : x.family ≠ .vectors ∨ b.isLammpsNorm = true) :
    ∃ q, readAs? T Y b = some q ∧ q.family = Y ∧ define? T thr q = some b := by
  have hn : b.isLammpsNorm = true := by
    rcases hX with h | h
    · exact defined_normal_of_det thr x h b hx hd
    · exact h
  exact read_rebuild_same hT thr Y b (defined_isClean thr hthr x b hx) hn

/-- … and a second pass changes nothing: the values read through Y from the rebuilt cell are the values read before. -/
theorem rebuild_any_pair_fixpoint (hT : T.Spec) (thr : K) (hthr : 0 ≤ thr) (x : Params K) (Y Z : Family) (b : Box K)
    (hx : define? T thr x = some b) (hd : b.vects.det ≠ 0) (hX : x.family ≠ .vectors ∨ b.isLammpsNorm = true) :
    ∃ q, readAs? T Y b = some q ∧ define? T thr q = some b ∧
      ∃ q', readAs? T Z b = some q' ∧ define? T thr q' = some b := by
  obtain ⟨q, h1, _, h2⟩ := rebuild_any_pair hT thr hthr x Y b hx hd hX
  obtain ⟨q', h3, _, h4⟩ := rebuild_any_pair hT thr hthr q Z b h2 hd
    (Or.inr (by rcases hX with h | h
                · exact defined_normal_of_det thr x h b hx hd
                · exact h))
  exact ⟨q, h1, h2, q', h3, h4⟩

/-! ### lengths and angles in degrees: what `set_abc` is given is what the getters report -/

theorem ofLengthsP?_some_pos (p : Lengths K) (o : V3 K) (b : Box K) (h : ofLengthsP? p o = some b) :
    0 < p.lx ∧ 0 < p.ly ∧ 0 < p.lz := by
  simp only [ofLengthsP?, Box.ofLengths?] at h
  split at h
  · rename_i hh; exact hh
  · cases h

/-- **"the reported lengths and angles are those of the vectors" at the level of the API**: a cell accepted by
    `set_abc(a, b, c, alpha, beta, gamma, origin)` (positive lengths) reports, before the clean-up, exactly `a b c`, the three
    angles in degrees it was given, and the origin. -/
theorem abc_readback_degrees (hT : T.Spec) (a b c al be ga : K) (o : V3 K) (bx : Box K) (hb : 0 < b) (hc : 0 < c)
    (h : defineRaw? T (.abc a b c al be ga o) = some bx) :
    readAs? T .abc bx = some (.abc a b c al be ga o) := by
  simp only [defineRaw?] at h
  split at h
  case isFalse => cases h
  rename_i hok
  simp only [anglesOk, Bool.and_eq_true, decide_eq_true_eq] at hok
  obtain ⟨⟨⟨⟨⟨al1, al2⟩, be1⟩, be2⟩, ga1⟩, ga2⟩ := hok
  obtain ⟨ly, hly⟩ : ∃ ly, ly = T.sqrt (abcLySq b (cosDeg T ga)) := ⟨_, rfl⟩
  obtain ⟨lz, hlz⟩ : ∃ lz, lz = T.sqrt (abcLzSq b c (cosDeg T al) (cosDeg T be) (cosDeg T ga) ly) := ⟨_, rfl⟩
  have hform : abcOfDeg T a b c al be ga = abcLengths a b c (cosDeg T al) (cosDeg T be) (cosDeg T ga) ly lz := by
    simp only [abcOfDeg, hly, hlz]
  rw [hform] at h
  have hpos : 0 < a ∧ 0 < ly ∧ 0 < lz := ofLengthsP?_some_pos _ _ _ h
  obtain ⟨ha, pl, pz⟩ := hpos
  have hly2 : ly * ly = abcLySq b (cosDeg T ga) := by
    rw [hly]; exact hT.sqrt_sq _ (hT.pos_of_sqrt_pos _ (hly ▸ pl)).le
  have hlz2 : lz * lz = abcLzSq b c (cosDeg T al) (cosDeg T be) (cosDeg T ga) ly := by
    rw [hlz]; exact hT.sqrt_sq _ (hT.pos_of_sqrt_pos _ (hlz ▸ pz)).le
  obtain ⟨bx', e0, _, eo, g1, g2, g3, g4, g5, g6⟩ := abc_gram a b c _ _ _ ly lz o ha pl hly2 pz hlz2
  have : bx' = bx := by
    have : some bx' = some bx := by rw [← e0, ← h]; rfl
    exact Option.some.inj this
  subst this
  have la : lenOf T bx'.vects.r0 = a := by
    show T.sqrt (a2 bx') = a
    rw [g1]; exact hT.sqrt_mul_self a ha.le
  have lb : lenOf T bx'.vects.r1 = b := by
    show T.sqrt (b2 bx') = b
    rw [g2]; exact hT.sqrt_mul_self b hb.le
  have lc : lenOf T bx'.vects.r2 = c := by
    show T.sqrt (c2 bx') = c
    rw [g3]; exact hT.sqrt_mul_self c hc.le
  have hpi := hT.pi_pos
  have back : ∀ (u v : V3 K) (n1 n2 ang : K), 0 < n1 → 0 < n2 → lenOf T u = n1 → lenOf T v = n2 →
      V3.dot u v = n1 * n2 * cosDeg T ang → 0 < ang → ang < 180 → angleDeg T u v = ang := by
    intro u v n1 n2 ang p1 p2 e1 e2 hdot a1 a2'
    have hcs : angleCos u v n1 n2 = cosDeg T ang := by
      have := angleCos_spec u v n1 n2 p1 p2
      rw [hdot] at this
      have hne : n1 * n2 ≠ 0 := ne_of_gt (mul_pos p1 p2)
      exact mul_right_cancel₀ hne (by linear_combination this)
    obtain ⟨r1, r2⟩ := hT.cos_range (ang * T.pi / 180)
    simp only [angleDeg, e1, e2, hcs]
    rw [clampCos_id _ (by simpa [cosDeg] using r1) (by simpa [cosDeg] using r2)]
    simp only [cosDeg]
    rw [hT.acos_cos _ (by positivity) (by rw [div_le_iff₀ (by norm_num : (0:K) < 180)]; nlinarith)]
    field_simp
  have eal := back bx'.vects.r1 bx'.vects.r2 b c al hb hc lb lc (by show dotBC bx' = _; rw [g6]) al1 al2
  have ebe := back bx'.vects.r0 bx'.vects.r2 a c be ha hc la lc (by show dotAC bx' = _; rw [g5]) be1 be2
  have ega := back bx'.vects.r0 bx'.vects.r1 a b ga ha hb la lb (by show dotAB bx' = _; rw [g4]) ga1 ga2
  simp only [readAs?, la, lb, lc, eal, ebe, ega, eo]

/-- determinant of the Gram matrix in lengths² and dot products. -/
theorem gram_det_dots (bx : Box K) :
    bx.vects.det * bx.vects.det = a2 bx * b2 bx * c2 bx + 2 * (dotBC bx * dotAC bx * dotAB bx)
      - a2 bx * (dotBC bx * dotBC bx) - b2 bx * (dotAC bx * dotAC bx) - c2 bx * (dotAB bx * dotAB bx) := by
  simp only [M3.det, a2, b2, c2, dotBC, dotAC, dotAB, V3.normSq, V3.dot, V3.cross]; ring

/-- both radicands of `set_abc` are positive when it is fed with the lengths and cosines of a non-degenerate cell
    (`a² · ly² · (second radicand) = det²`). -/
theorem abc_radicands_pos (bx : Box K) (hdet : 0 < bx.vects.det) (a b c ca cb cg : K) (pa : 0 < a) (pb : 0 < b)
    (ha2 : a * a = a2 bx) (hb2 : b * b = b2 bx) (hc2 : c * c = c2 bx)
    (hca : b * c * ca = dotBC bx) (hcb : a * c * cb = dotAC bx) (hcg : a * b * cg = dotAB bx)
    (cgs : -1 < cg ∧ cg < 1) :
    0 < abcLySq b cg ∧ ∀ ly, 0 < ly → ly * ly = abcLySq b cg → 0 < abcLzSq b c ca cb cg ly := by
  have r1pos : 0 < abcLySq b cg := by
    simp only [abcLySq]
    have e : b * b - b * cg * (b * cg) = (b * b) * ((1 - cg) * (1 + cg)) := by ring
    rw [e]
    exact mul_pos (mul_pos pb pb) (mul_pos (by linarith [cgs.2]) (by linarith [cgs.1]))
  refine ⟨r1pos, ?_⟩
  intro ly ply hly2
  have hlne : ly ≠ 0 := ne_of_gt ply
  have tm : abcLzSq b c ca cb cg ly * (ly * ly) =
      (c * c - (c * cb) * (c * cb)) * (ly * ly) - (b * c * ca - b * cg * (c * cb)) * (b * c * ca - b * cg * (c * cb)) := by
    simp only [abcLzSq]; field_simp
  have key : (a * a) * (abcLzSq b c ca cb cg ly * (ly * ly)) = bx.vects.det * bx.vects.det := by
    rw [gram_det_dots, ← ha2, ← hb2, ← hc2, ← hca, ← hcb, ← hcg, tm, hly2]
    simp only [abcLySq]; ring
  have h1 : 0 < bx.vects.det * bx.vects.det := mul_pos hdet hdet
  have h2 : 0 < (a * a) * (ly * ly) := mul_pos (mul_pos pa pa) (mul_pos ply ply)
  by_contra hneg
  have h3 : abcLzSq b c ca cb cg ly * ((a * a) * (ly * ly)) ≤ 0 :=
    mul_nonpos_of_nonpos_of_nonneg (not_lt.mp hneg) h2.le
  have h4 : (a * a) * (abcLzSq b c ca cb cg ly * (ly * ly)) = abcLzSq b c ca cb cg ly * ((a * a) * (ly * ly)) := by ring
  rw [h4] at key
  rw [key] at h3
  exact absurd h1 (not_lt.mpr h3)

/-- **a cell NOT in LAMMPS-compatible orientation** (right-handed, clean): three vectors rebuild it exactly; the LAMMPS getters
    refuse; lengths and angles in degrees rebuild the same cell up to a proper rotation, in LAMMPS orientation, same origin
    (`b'` = what `set_abc` hands to the `vects` setter; the stored cell is its clean-up). -/
theorem rebuild_turned_cell (hT : T.Spec) (thr : K) (bx : Box K) (hcl : IsClean thr bx) (hdet : 0 < bx.vects.det)
    (hn : bx.isLammpsNorm = false) :
    (∃ q, readAs? T .vectors bx = some q ∧ define? T thr q = some bx) ∧
    readAs? T .lengths bx = none ∧ readAs? T .hilos bx = none ∧
    ∃ q b', readAs? T .abc bx = some q ∧ defineRaw? T q = some b' ∧ define? T thr q = some (cleanBox thr b') ∧
      b'.isLammpsNorm = true ∧ b'.origin = bx.origin ∧
      ∃ r : M3 K, bx.vects.mul r = b'.vects ∧ r.mul r.transpose = M3.one ∧ r.det = 1 := by
  refine ⟨⟨_, rfl, ?_⟩, by simp only [readAs?, lengths?, hn]; rfl, by simp only [readAs?, hilos?, hn]; rfl, ?_⟩
  · simp only [define?, setVects, Option.some.injEq]
    have : cleanVects thr bx.vects = bx.vects := hcl
    rw [this]
  obtain ⟨x12, x02, x01⟩ := cross_pos_of_det bx.vects (ne_of_gt hdet)
  obtain ⟨al1, al2, al3, al4⟩ := angleDeg_spec hT _ _ x12
  obtain ⟨be1, be2, be3, be4⟩ := angleDeg_spec hT _ _ x02
  obtain ⟨ga1, ga2, ga3, ga4⟩ := angleDeg_spec hT _ _ x01
  obtain ⟨n0, _⟩ := cross_pos_parts _ _ x01
  obtain ⟨n1, n2⟩ := cross_pos_parts _ _ x12
  obtain ⟨a, hadef⟩ : ∃ a, a = lenOf T bx.vects.r0 := ⟨_, rfl⟩
  obtain ⟨b, hbdef⟩ : ∃ b, b = lenOf T bx.vects.r1 := ⟨_, rfl⟩
  obtain ⟨c, hcdef⟩ : ∃ c, c = lenOf T bx.vects.r2 := ⟨_, rfl⟩
  obtain ⟨ca, hcadef⟩ : ∃ ca, ca = cosDeg T (angleDeg T bx.vects.r1 bx.vects.r2) := ⟨_, rfl⟩
  obtain ⟨cb, hcbdef⟩ : ∃ cb, cb = cosDeg T (angleDeg T bx.vects.r0 bx.vects.r2) := ⟨_, rfl⟩
  obtain ⟨cg, hcgdef⟩ : ∃ cg, cg = cosDeg T (angleDeg T bx.vects.r0 bx.vects.r1) := ⟨_, rfl⟩
  have pa : 0 < a := hadef ▸ lenOf_pos hT _ n0
  have pb : 0 < b := hbdef ▸ lenOf_pos hT _ n1
  have pc : 0 < c := hcdef ▸ lenOf_pos hT _ n2
  have ha2 : a * a = a2 bx := hadef ▸ lenOf_sq hT _
  have hb2 : b * b = b2 bx := hbdef ▸ lenOf_sq hT _
  have hc2 : c * c = c2 bx := hcdef ▸ lenOf_sq hT _
  have hca : b * c * ca = dotBC bx := by rw [hbdef, hcdef, hcadef, mul_comm]; exact al4
  have hcb : a * c * cb = dotAC bx := by rw [hadef, hcdef, hcbdef, mul_comm]; exact be4
  have hcg : a * b * cg = dotAB bx := by rw [hadef, hbdef, hcgdef, mul_comm]; exact ga4
  have ok : anglesOk (angleDeg T bx.vects.r1 bx.vects.r2) (angleDeg T bx.vects.r0 bx.vects.r2)
      (angleDeg T bx.vects.r0 bx.vects.r1) = true := by
    simp only [anglesOk, Bool.and_eq_true, decide_eq_true_eq]
    exact ⟨⟨⟨⟨⟨al1, al2⟩, be1⟩, be2⟩, ga1⟩, ga2⟩
  have cgs : -1 < cg ∧ cg < 1 := by
    rw [hcgdef, ga3]
    exact angleCos_strict _ _ _ _ (lenOf_pos hT _ n0) (lenOf_pos hT _ n1) (lenOf_sq hT _) (lenOf_sq hT _) x01
  obtain ⟨r1pos, r2all⟩ := abc_radicands_pos bx hdet a b c ca cb cg pa pb ha2 hb2 hc2 hca hcb hcg cgs
  obtain ⟨ly, hlydef⟩ : ∃ ly, ly = T.sqrt (abcLySq b cg) := ⟨_, rfl⟩
  have ply : 0 < ly := hlydef ▸ hT.sqrt_pos _ r1pos
  have hly2 : ly * ly = abcLySq b cg := hlydef ▸ hT.sqrt_sq _ r1pos.le
  have r2pos := r2all ly ply hly2
  obtain ⟨lz, hlzdef⟩ : ∃ lz, lz = T.sqrt (abcLzSq b c ca cb cg ly) := ⟨_, rfl⟩
  have plz : 0 < lz := hlzdef ▸ hT.sqrt_pos _ r2pos
  have hlz2 : lz * lz = abcLzSq b c ca cb cg ly := hlzdef ▸ hT.sqrt_sq _ r2pos.le
  obtain ⟨b', e0, nb, ob, rot⟩ := abc_rebuild_rotation bx hdet a b c ca cb cg ly lz pa ha2 hb2 hc2 hca hcb hcg ply hly2 plz hlz2
  have raw : defineRaw? T (.abc a b c (angleDeg T bx.vects.r1 bx.vects.r2) (angleDeg T bx.vects.r0 bx.vects.r2)
      (angleDeg T bx.vects.r0 bx.vects.r1) bx.origin) = some b' := by
    simp only [defineRaw?, ok, if_true, abcOfDeg, ← hcadef, ← hcbdef, ← hcgdef, ← hlydef, ← hlzdef]
    exact e0
  refine ⟨_, b', by simp only [readAs?, ← hadef, ← hbdef, ← hcdef], raw, ?_, nb, ob, rot⟩
  rw [define_eq_clean_raw, raw]; rfl

/-! ### the hypotheses on the library routines hold for the real functions -/

/-- `(x)**0.5`, `np.cos`, `np.arccos`, `np.pi` as the real functions they approximate. -/
noncomputable def realTrig : Trig ℝ := ⟨Real.sqrt, Real.cos, Real.arccos, Real.pi⟩

theorem realTrig_spec : realTrig.Spec where
  sqrt_nonneg := Real.sqrt_nonneg
  sqrt_sq := fun _ h => Real.mul_self_sqrt h
  sqrt_nonpos := fun _ h => Real.sqrt_eq_zero_of_nonpos h
  pi_pos := Real.pi_pos
  cos_range := fun x => ⟨Real.neg_one_le_cos x, Real.cos_le_one x⟩
  cos_right := by
    show Real.cos (90 * Real.pi / 180) = 0
    rw [show (90 : ℝ) * Real.pi / 180 = Real.pi / 2 by ring]; exact Real.cos_pi_div_two
  cos_acos := fun _ h1 h2 => Real.cos_arccos h1 h2
  acos_cos := fun _ h1 h2 => Real.arccos_cos h1 h2
  acos_range := fun _ h1 h2 => ⟨Real.arccos_pos.mpr h2, Real.arccos_lt_pi.mpr h1⟩

/-- the pair theorem over the reals with the real square root, cosine, arc cosine and π: nothing assumed. -/
theorem real_rebuild_any_pair (thr : ℝ) (hthr : 0 ≤ thr) (x : Params ℝ) (Y : Family) (b : Box ℝ)
    (hx : define? realTrig thr x = some b) (hd : b.vects.det ≠ 0) (hX : x.family ≠ .vectors ∨ b.isLammpsNorm = true) :
    ∃ q, readAs? realTrig Y b = some q ∧ q.family = Y ∧ define? realTrig thr q = some b :=
  rebuild_any_pair realTrig_spec thr hthr x Y b hx hd hX

/-- lengths and angles in degrees read back, over the reals. -/
theorem real_abc_readback_degrees (a b c al be ga : ℝ) (o : V3 ℝ) (bx : Box ℝ) (hb : 0 < b) (hc : 0 < c)
    (h : defineRaw? realTrig (.abc a b c al be ga o) = some bx) :
    readAs? realTrig .abc bx = some (.abc a b c al be ga o) :=
  abc_readback_degrees realTrig_spec a b c al be ga o bx hb hc h

/-- non-vacuity of the hypotheses that do not involve the library routines (any `T`): a tilted cell with non-zero origin given
    through LAMMPS lengths, through LAMMPS bounds and through three vectors (LAMMPS-oriented; and a turned one). -/
example : ∃ (x : Params ℚ) (b : Box ℚ), define? ⟨id, id, id, 3⟩ (1/1000000000) x = some b ∧ b.vects.det ≠ 0 ∧
    x.family = .lengths ∧ b.vects.r1.x ≠ 0 ∧ b.origin ≠ ⟨0, 0, 0⟩ :=
  ⟨.lengths ⟨2, 3, 4, 1/2, 0, 1⟩ ⟨1, 2, 3⟩, ⟨⟨⟨2, 0, 0⟩, ⟨1/2, 3, 0⟩, ⟨0, 1, 4⟩⟩, ⟨1, 2, 3⟩⟩, by decide +kernel⟩
example : ∃ (x : Params ℚ) (b : Box ℚ), define? ⟨id, id, id, 3⟩ (1/1000000000) x = some b ∧ b.vects.det ≠ 0 ∧
    x.family = .hilos ∧ b.vects.r2.y ≠ 0 :=
  ⟨.hilos ⟨1, 3, 2, 5, 3, 7, 1/2, 0, 1⟩, ⟨⟨⟨2, 0, 0⟩, ⟨1/2, 3, 0⟩, ⟨0, 1, 4⟩⟩, ⟨1, 2, 3⟩⟩, by decide +kernel⟩
example : ∃ (x : Params ℚ) (b : Box ℚ), define? ⟨id, id, id, 3⟩ (1/1000000000) x = some b ∧ 0 < b.vects.det ∧
    x.family = .vectors ∧ b.isLammpsNorm = false ∧ cleanVects (1/1000000000) b.vects = b.vects :=
  ⟨.vectors ⟨0, 2, 0⟩ ⟨0, 3, 4⟩ ⟨12, 5, 0⟩ ⟨1, 2, 3⟩, ⟨⟨⟨0, 2, 0⟩, ⟨0, 3, 4⟩, ⟨12, 5, 0⟩⟩, ⟨1, 2, 3⟩⟩, by decide +kernel⟩

/-! ### arrays of points -/

/-- an array of points is converted row by row: the result has as many rows, row `i` depends on row `i` only, and the two
    conversions undo one another on whole arrays. -/
theorem conv_rows (b : Box K) (pts : List (V3 K)) (i : Nat) :
    (r2cAll b pts).length = pts.length ∧ (c2rAll b pts).length = pts.length ∧
    (r2cAll b pts)[i]? = pts[i]?.map b.relToCart ∧ (c2rAll b pts)[i]? = pts[i]?.map b.cartToRel := by
  simp only [r2cAll, c2rAll, List.length_map, List.getElem?_map, and_self]

theorem conv_rows_inverse (b : Box K) (h : b.vects.det ≠ 0) (pts : List (V3 K)) :
    c2rAll b (r2cAll b pts) = pts ∧ r2cAll b (c2rAll b pts) = pts := by
  simp only [r2cAll, c2rAll, List.map_map]
  constructor
  · conv_rhs => rw [← List.map_id pts]
    apply List.map_congr_left; intro p _; exact (rel_cart_inverse b h p p).1
  · conv_rhs => rw [← List.map_id pts]
    apply List.map_congr_left; intro p _; exact (rel_cart_inverse b h p p).2

/-- `inside` of an array: one flag per point, each decided by that point's relative coordinates alone. -/
theorem insideAll_iff_rel (b : Box K) (hd : 0 < b.vects.det) (lam : Lams K) (hl : lam.Pos) (pts : List (V3 K)) (i : Nat)
    (p : V3 K) (hp : pts[i]? = some p) :
    (insideAll b lam pts true).length = pts.length ∧
    ((insideAll b lam pts true)[i]? = some true ↔ RelIn (b.cartToRel p)) ∧
    ((insideAll b lam pts false)[i]? = some true ↔ RelInStrict (b.cartToRel p)) ∧
    (outsideAll b lam pts true)[i]? = ((insideAll b lam pts false)[i]?).map (!·) := by
  simp only [insideAll, outsideAll, List.length_map, List.getElem?_map, hp, Option.map_some, Option.some.injEq, true_and,
    outside_eq_not_inside, Bool.not_true]
  exact ⟨(inside_iff_rel b hd lam hl p).1, (inside_iff_rel b hd lam hl p).2, trivial⟩

/-- shapes: the conversions accept exactly arrays whose trailing dimension is 3 and return the shape they were given (hence the
    same number of points); `inside` / `outside` return the leading shape. -/
theorem convShape_ok_iff (sh : List Nat) :
    ((∃ r, convShape sh = .ok r) ↔ sh.getLast? = some 3) ∧ (∀ r, convShape sh = .ok r → r = sh ∧ rowsOf r = rowsOf sh) ∧
    (sh.getLast? = some 3 → insideShape sh = .ok sh.dropLast) ∧ (convShape sh = .errIndex ↔ sh = []) := by
  refine ⟨?_, ?_, ?_, ?_⟩
  · cases h : sh.getLast? with
    | none => simp [convShape, h]
    | some d => by_cases hd : d = 3 <;> simp [convShape, h, hd]
  · intro r hr
    cases h : sh.getLast? with
    | none => simp [convShape, h] at hr
    | some d =>
      by_cases hd : d = 3
      · simp [convShape, h, hd] at hr; subst hr; exact ⟨rfl, rfl⟩
      · simp [convShape, h, hd] at hr
  · intro h; simp [insideShape, h]
  · cases h : sh.getLast? with
    | none => simp [convShape, h, List.getLast?_eq_none_iff.mp h]
    | some d =>
      have : sh ≠ [] := by intro e; rw [e] at h; simp at h
      by_cases hd : d = 3 <;> simp [convShape, h, hd, this]

/-! ### refusals of the four parameter sets, and the tie of the degree-level `set_abc` to the call the driver runs -/

/-- `set_abc` in degrees is the `SetOp.abc` call of the object model (the one the correspondence drives) with the cosines and
    roots the library routines return. -/
theorem setAbcDeg_eq_setOp (thr : K) (b0 : Box K) (a b c al be ga : K) (o : V3 K) :
    setAbcDeg? T thr a b c al be ga o =
      SetOp.apply? thr b0 (.abc al be ga a b c (cosDeg T al) (cosDeg T be) (cosDeg T ga)
        (T.sqrt (abcLySq b (cosDeg T ga)))
        (T.sqrt (abcLzSq b c (cosDeg T al) (cosDeg T be) (cosDeg T ga) (T.sqrt (abcLySq b (cosDeg T ga))))) o) := by
  simp only [setAbcDeg?, SetOp.apply?, setAbc?, ofAbc?, abcOfDeg]
  split <;> rfl

/-- **which definitions are refused**: three vectors never; LAMMPS lengths iff one of `lx ly lz` is not positive; LAMMPS bounds
    iff one `hi` is not above its `lo`; lengths and angles iff an angle is outside (0, 180) (ValueError) or `a` or one of the two
    roots is not positive (AssertionError of `set_lengths`: the angle triple is not realisable). -/
theorem define_refuses_iff (thr : K) :
    (∀ a b c o, (define? T thr (.vectors a b c o)).isSome = true) ∧
    (∀ p o, define? T thr (.lengths p o) = none ↔ ¬(0 < p.lx ∧ 0 < p.ly ∧ 0 < p.lz)) ∧
    (∀ p : HiLos K, define? T thr (.hilos p) = none ↔ ¬(p.xlo < p.xhi ∧ p.ylo < p.yhi ∧ p.zlo < p.zhi)) ∧
    (∀ a b c al be ga o, define? T thr (.abc a b c al be ga o) = none ↔
      (anglesOk al be ga = false ∨
       ¬(0 < a ∧ 0 < (abcOfDeg T a b c al be ga).ly ∧ 0 < (abcOfDeg T a b c al be ga).lz))) := by
  refine ⟨fun _ _ _ _ => rfl, ?_, ?_, ?_⟩
  · intro p o
    simp only [define?, setLengths?, ofLengthsP?, Box.ofLengths?, Option.map_eq_none_iff]
    split <;> simp_all
  · intro p
    simp only [define?, setHiLos?, ofHiLosP?, Box.ofHiLos?, Box.ofLengths?, Option.map_eq_none_iff, sub_pos]
    split <;> simp_all
  · intro a b c al be ga o
    have hlx : (abcOfDeg T a b c al be ga).lx = a := rfl
    simp only [define?, setAbcDeg?]
    cases hok : anglesOk al be ga
    · simp
    · simp only [if_true, Option.map_eq_none_iff, ofLengthsP?, Box.ofLengths?, hlx, Bool.true_eq_false, false_or]
      split <;> simp_all

/-- **which read-backs are refused**: exactly the LAMMPS lengths / bounds of a cell that is not LAMMPS-oriented. -/
theorem readAs_refuses_iff (Y : Family) (b : Box K) :
    readAs? T Y b = none ↔ (Y = .lengths ∨ Y = .hilos) ∧ b.isLammpsNorm = false := by
  cases Y <;> cases h : b.isLammpsNorm <;> simp [readAs?, lengths?, hilos?, h]

/-- with the exact norms the clamp of `vect_angle` changes nothing (it only absorbs rounding). -/
theorem clampCos_angleCos (u v : V3 K) (n1 n2 : K) (h1 : 0 < n1) (h2 : 0 < n2)
    (hn1 : n1 * n1 = V3.normSq u) (hn2 : n2 * n2 = V3.normSq v) :
    clampCos (angleCos u v n1 n2) = angleCos u v n1 n2 := by
  have h := angleCos_sq_le_one u v n1 n2 h1 h2 hn1 hn2
  apply clampCos_id <;> nlinarith

example : ∃ (u v : V3 ℚ) (n1 n2 : ℚ), 0 < n1 ∧ 0 < n2 ∧ n1 * n1 = V3.normSq u ∧ n2 * n2 = V3.normSq v ∧
    angleCos u v n1 n2 ≠ 0 ∧ clampCos (angleCos u v (n1 / 2) n2) ≠ angleCos u v (n1 / 2) n2 :=
  ⟨⟨3, 4, 0⟩, ⟨4, 3, 0⟩, 5, 5, by decide +kernel⟩

/-! ### the pair theorem on the *object*; the crystal-family constructors -/

/-- the setter call a definition is. -/
def Params.toSetOp (T : Trig K) : Params K → SetOp K
  | .vectors a b c o => .vects ⟨a, b, c⟩ o
  | .abc a b c al be ga o => .abc al be ga a b c (cosDeg T al) (cosDeg T be) (cosDeg T ga)
      (T.sqrt (abcLySq b (cosDeg T ga)))
      (T.sqrt (abcLzSq b c (cosDeg T al) (cosDeg T be) (cosDeg T ga) (T.sqrt (abcLySq b (cosDeg T ga))))) o
  | .lengths p o => .lengths p o
  | .hilos p => .hilos p

theorem define_eq_setOp (thr : K) (b0 : Box K) (q : Params K) : define? T thr q = (q.toSetOp T).apply? thr b0 := by
  cases q with
  | vectors a b c o => rfl
  | abc a b c al be ga o => exact setAbcDeg_eq_setOp thr b0 a b c al be ga o
  | lengths p o => rfl
  | hilos p => rfl

/-- **read through Y, rebuild through Y, on the object with its cache and after any history**: for a Box object whose
    current cell is clean and LAMMPS-oriented, the values its Y-getters hand out, given to Y's setter, are accepted, leave the
    object with the same cell, and every later read (reciprocal vectors, both conversions, inside, outside) reports what it
    reported before — whatever was cached. -/
theorem obj_rebuild_any_pair (hT : T.Spec) (thr : K) (c : CBox K) (hc : c.Coherent) (Y : Family)
    (hcl : IsClean thr c.box) (hn : c.box.isLammpsNorm = true) :
    ∃ q, readAs? T Y c.box = some q ∧ (c.set thr (q.toSetOp T)).2 = .ok ∧ (c.set thr (q.toSetOp T)).1.box = c.box ∧
      ∀ r : ReadOp K, ((c.set thr (q.toSetOp T)).1.read r).2 = (c.read r).2 := by
  obtain ⟨q, h1, _, h2⟩ := read_rebuild_same hT thr Y c.box hcl hn
  rw [define_eq_setOp thr c.box q] at h2
  have e : c.set thr (q.toSetOp T) = (⟨c.box, if (q.toSetOp T).writesVects then none else c.cache⟩, .ok) := by
    simp only [CBox.set, h2]
  refine ⟨q, h1, by rw [e], by rw [e], ?_⟩
  intro r
  have hc' : (c.set thr (q.toSetOp T)).1.Coherent := obj_set_coherent thr c hc _
  have r1 := (obj_step_refines thr _ hc' (.read r)).2
  have r2 := (obj_step_refines thr c hc (.read r)).2
  simp only [CBox.step, stepPlain] at r1 r2
  rw [r1, r2, e]

/-- which constructor calls are refused by the constructor itself. -/
theorem ctor_refuses_iff (a b c al be ga : K) :
    ((Ctor.cubic a).params? (K := K)).isSome = true ∧
    ((Ctor.hexagonal a c).params? = none ↔ a = c) ∧ ((Ctor.tetragonal a c).params? = none ↔ a = c) ∧
    ((Ctor.trigonal a al).params? = none ↔ 120 ≤ al) ∧
    ((Ctor.orthorhombic a b c).params? = none ↔ (a = b ∨ a = c)) ∧
    ((Ctor.monoclinic a b c be).params? = none ↔ (a = b ∨ a = c ∨ be ≤ 90)) ∧
    ((Ctor.triclinic a b c al be ga).params? = none ↔ (a = b ∨ a = c ∨ al = be ∨ al = ga)) := by
  refine ⟨rfl, ?_, ?_, ?_, ?_, ?_, ?_⟩
  · simp only [Ctor.params?]; split <;> simp_all
  · simp only [Ctor.params?]; split <;> simp_all
  · simp only [Ctor.params?]; split <;> simp_all
  · simp only [Ctor.params?]; split <;> simp_all
  · simp only [Ctor.params?]; split
    · rename_i h; simp only [true_iff]; rcases h with h | h
      · exact Or.inl h
      · exact Or.inr (Or.inl h)
    · split <;> simp_all
  · simp only [Ctor.params?]; split
    · rename_i h; simp only [true_iff]; rcases h with h | h
      · exact Or.inl h
      · exact Or.inr (Or.inl h)
    · split <;> simp_all

/-- an accepted constructor call defines a cell through lengths and angles with origin `(0,0,0)`, and — like every such cell
    — a non-degenerate result is LAMMPS-oriented and can be read back and rebuilt through every parameter set. -/
theorem ctor_rebuild_any (hT : T.Spec) (thr : K) (hthr : 0 ≤ thr) (k : Ctor K) (q : Params K) (b : Box K) (Y : Family)
    (hq : k.params? = some q) (hb : define? T thr q = some b) (hd : b.vects.det ≠ 0) :
    q.family = .abc ∧ b.origin = ⟨0, 0, 0⟩ ∧ b.isLammpsNorm = true ∧
    ∃ q', readAs? T Y b = some q' ∧ q'.family = Y ∧ define? T thr q' = some b := by
  have hf : q.family = .abc ∧ ∃ a b' c al be ga, q = .abc a b' c al be ga ⟨0, 0, 0⟩ := by
    cases k <;> simp only [Ctor.params?] at hq <;>
      first
      | (cases hq; exact ⟨rfl, _, _, _, _, _, _, rfl⟩)
      | (split at hq
         · cases hq
         · first
           | (cases hq; exact ⟨rfl, _, _, _, _, _, _, rfl⟩)
           | (split at hq
              · cases hq
              · cases hq; exact ⟨rfl, _, _, _, _, _, _, rfl⟩))
  obtain ⟨hfam, a, b', c, al, be, ga, rfl⟩ := hf
  have ho : b.origin = ⟨0, 0, 0⟩ := by
    rw [define_eq_clean_raw] at hb
    obtain ⟨b0, h0, rfl⟩ := Option.map_eq_some_iff.mp hb
    simp only [defineRaw?] at h0
    split at h0
    · exact (lengths_readback _ _ _ h0).2.2
    · cases h0
  have hne : (Params.abc a b' c al be ga (⟨0, 0, 0⟩ : V3 K)).family ≠ .vectors := by simp [Params.family]
  exact ⟨hfam, ho, defined_normal_of_det thr _ hne b hb hd,
    rebuild_any_pair hT thr hthr _ Y b hb hd (Or.inl hne)⟩

/-- right angles: `set_abc(a, b, c, 90, 90, 90)` — what `Box.cubic`, `Box.tetragonal`, `Box.orthorhombic` call — hands the
    diagonal matrix `diag(a, b, c)` to the `vects` setter. -/
theorem define_right_angles (hT : T.Spec) (a b c : K) (ha : 0 < a) (hb : 0 < b) (hc : 0 < c) (o : V3 K) :
    defineRaw? T (.abc a b c 90 90 90 o) = some ⟨⟨⟨a, 0, 0⟩, ⟨0, b, 0⟩, ⟨0, 0, c⟩⟩, o⟩ := by
  have h90 : cosDeg T 90 = 0 := hT.cos_right
  have ok : anglesOk (90 : K) 90 90 = true := by
    simp only [anglesOk, Bool.and_eq_true, decide_eq_true_eq]; norm_num
  have e1 : abcLySq b 0 = b * b := by simp only [abcLySq]; ring
  have s1 : T.sqrt (abcLySq b 0) = b := by rw [e1]; exact hT.sqrt_mul_self b hb.le
  have e2 : abcLzSq b c 0 0 0 b = c * c := by simp only [abcLzSq]; ring
  have s2 : T.sqrt (abcLzSq b c 0 0 0 b) = c := by rw [e2]; exact hT.sqrt_mul_self c hc.le
  simp only [defineRaw?, ok, if_true, abcOfDeg, h90, s1, s2, ofLengthsP?, abcLengths, Box.ofLengths?, ha, hb, hc, and_self,
    mul_zero, sub_zero, zero_div]

example : ∃ k : Ctor ℚ, ∃ q, k.params? = some q ∧ q.family = .abc :=
  ⟨.monoclinic 2 3 4 100, _, rfl, rfl⟩

/-! ### read-back of what was given, for every parameter set; uniqueness of the definition; the unit of length in degrees -/

/-- **building from a parameter set and reading the same set back returns the values given** (before the setter clean-up): three
    vectors + origin, LAMMPS lengths + tilts + origin, LAMMPS bounds + tilts, and lengths + angles in degrees + origin (positive
    `b`, `c`). -/
theorem raw_readback (hT : T.Spec) (x : Params K) (b : Box K) (h : defineRaw? T x = some b)
    (hpos : ∀ a b' c al be ga o, x = .abc a b' c al be ga o → 0 < b' ∧ 0 < c) :
    readAs? T x.family b = some x := by
  cases x with
  | vectors a b' c o =>
    simp only [defineRaw?, Option.some.injEq] at h
    subst h; rfl
  | abc a b' c al be ga o =>
    obtain ⟨hb, hc⟩ := hpos a b' c al be ga o rfl
    exact abc_readback_degrees hT a b' c al be ga o b hb hc h
  | lengths p o =>
    obtain ⟨_, h2, h3⟩ := lengths_readback p o b h
    simp only [Params.family, readAs?, h2, Option.map_some, h3]
  | hilos p =>
    obtain ⟨_, h2⟩ := hilos_readback p b h
    simp only [Params.family, readAs?, h2, Option.map_some]

/-- **uniqueness**: within one parameter set, two accepted definitions of the same cell are the same definition — the values
    read back are the only ones that rebuild the cell. -/
theorem raw_definition_unique (hT : T.Spec) (x y : Params K) (b : Box K) (hf : x.family = y.family)
    (hx : defineRaw? T x = some b) (hy : defineRaw? T y = some b)
    (hposx : ∀ a b' c al be ga o, x = .abc a b' c al be ga o → 0 < b' ∧ 0 < c)
    (hposy : ∀ a b' c al be ga o, y = .abc a b' c al be ga o → 0 < b' ∧ 0 < c) : x = y := by
  have e1 := raw_readback hT x b hx hposx
  have e2 := raw_readback hT y b hy hposy
  rw [hf, e2] at e1
  exact (Option.some.inj e1).symm

/-- the length getters scale with the unit of length. -/
theorem lenOf_scale (hT : T.Spec) (s : K) (hs : 0 < s) (v : V3 K) : lenOf T (scaleV s v) = s * lenOf T v := by
  have h0 : 0 ≤ s * lenOf T v := mul_nonneg hs.le (hT.sqrt_nonneg _)
  have e : V3.normSq (scaleV s v) = (s * lenOf T v) * (s * lenOf T v) := by
    have := lenOf_sq hT v
    simp only [V3.normSq, V3.dot, scaleV] at this ⊢
    linear_combination (s * s) * this.symm
  show T.sqrt (V3.normSq (scaleV s v)) = s * lenOf T v
  rw [e]; exact hT.sqrt_mul_self _ h0

/-- **the angles in degrees do not depend on the unit of length**, the lengths scale with it. -/
theorem angleDeg_scale (hT : T.Spec) (s : K) (hs : 0 < s) (u v : V3 K) (hu : 0 < V3.normSq u) (hv : 0 < V3.normSq v) :
    angleDeg T (scaleV s u) (scaleV s v) = angleDeg T u v := by
  have p1 := lenOf_pos hT u hu
  have p2 := lenOf_pos hT v hv
  have := angleCos_scale s (ne_of_gt hs) u v _ _ p1 p2
  rw [abs_of_pos hs] at this
  simp only [angleDeg, lenOf_scale hT s hs, this]

example : ∃ (x y : Params ℚ), x.family = y.family ∧ x.family = .hilos ∧
    defineRaw? ⟨id, id, id, 3⟩ x = defineRaw? ⟨id, id, id, 3⟩ y ∧ (defineRaw? ⟨id, id, id, 3⟩ x).isSome = true :=
  ⟨.hilos ⟨1, 3, 2, 5, 3, 7, 1/2, 0, 1⟩, .hilos ⟨1, 3, 2, 5, 3, 7, 1/2, 0, 1⟩, by decide +kernel⟩

/-! ### statement audit: every hypothesis of the theorems below discharged on a concrete, tilted cell with a non-zero origin
(`K = ℚ`; the theorems that need `Trig.Spec` are instantiated over `ℝ` in the next section) -/

section audit_examples

/-- tilted LAMMPS-normal cell, non-zero origin. -/
private def qB : Box ℚ := ⟨⟨⟨2, 0, 0⟩, ⟨1, 3, 0⟩, ⟨1/2, 1, 4⟩⟩, ⟨1, 2, 3⟩⟩
/-- cell with rational lengths 5, 5, 7 (cosines 18/35, 2/7, 3/5). -/
private def qP : Box ℚ := ⟨⟨⟨5, 0, 0⟩, ⟨3, 4, 0⟩, ⟨2, 3, 6⟩⟩, ⟨1, 2, 3⟩⟩
private def qThr : ℚ := 1/1000000000

example : qB.isLammpsNorm = true ∧ lengths? qB = some ⟨2, 3, 4, 1, 1/2, 1⟩ ∧ qB.origin = ⟨1, 2, 3⟩ :=
  lengths_readback ⟨2, 3, 4, 1, 1/2, 1⟩ ⟨1, 2, 3⟩ qB (by decide +kernel)
example : qB.isLammpsNorm = true ∧ hilos? qB = some ⟨1, 3, 2, 5, 3, 7, 1, 1/2, 1⟩ :=
  hilos_readback ⟨1, 3, 2, 5, 3, 7, 1, 1/2, 1⟩ qB (by decide +kernel)
example : ∃ p, lengths? qB = some p ∧ setLengths? qThr p qB.origin = some qB :=
  lengths_roundtrip_clean qThr qB (by show cleanVects _ _ = _; decide +kernel) (by decide +kernel)
example : ∃ p, hilos? qB = some p ∧ setHiLos? qThr p = some qB :=
  hilos_roundtrip_clean qThr qB (by show cleanVects _ _ = _; decide +kernel) (by decide +kernel)
example : setAbc? qThr 5 5 7 (18/35) (2/7) (3/5) 4 6 ⟨1, 2, 3⟩ = some qP :=
  abc_rebuild_normal_clean qThr qP (by show cleanVects _ _ = _; decide +kernel) (by decide +kernel) 5 5 7 (18/35) (2/7) (3/5)
    (by norm_num) (by norm_num) (by norm_num) (by decide +kernel) (by decide +kernel) (by decide +kernel)
    (by decide +kernel) (by decide +kernel) (by decide +kernel)
example : abcLySq (5 : ℚ) (3/5) = 4 * 4 ∧ abcLzSq (5 : ℚ) 7 (18/35) (2/7) (3/5) 4 = 6 * 6 :=
  abc_roots_of_normal qP (by decide +kernel) 5 5 7 (18/35) (2/7) (3/5) (by norm_num)
    (by decide +kernel) (by decide +kernel) (by decide +kernel) (by decide +kernel) (by decide +kernel) (by decide +kernel)
example : 0 < abcLySq (5 : ℚ) (3/5) ∧ ∀ ly : ℚ, 0 < ly → ly * ly = abcLySq 5 (3/5) → 0 < abcLzSq 5 7 (18/35) (2/7) (3/5) ly :=
  abc_radicands_pos qP (by decide +kernel) 5 5 7 (18/35) (2/7) (3/5) (by norm_num) (by norm_num)
    (by decide +kernel) (by decide +kernel) (by decide +kernel) (by decide +kernel) (by decide +kernel) (by decide +kernel)
    (by norm_num)
/-- a rotation by the 3-4-5 angle about `z`: a general cell keeps its Gram matrix. -/
example : gram (qB.vects.mul ⟨⟨3/5, -4/5, 0⟩, ⟨4/5, 3/5, 0⟩, ⟨0, 0, 1⟩⟩) = gram qB.vects :=
  rotation_preserves_gram qB.vects ⟨⟨3/5, -4/5, 0⟩, ⟨4/5, 3/5, 0⟩, ⟨0, 0, 1⟩⟩ (by decide +kernel)
example : qB.recip = (⟨qB.vects, ⟨7, 8, 9⟩⟩ : Box ℚ).recip :=
  recip_depends_on_vects_only qB ⟨qB.vects, ⟨7, 8, 9⟩⟩ rfl
example : qB.vects = (⟨qB.vects, ⟨7, 8, 9⟩⟩ : Box ℚ).vects :=
  normal_unique_of_gram qB ⟨qB.vects, ⟨7, 8, 9⟩⟩ (by decide +kernel) (by decide +kernel) rfl
example : 0 < V3.normSq (V3.cross qB.vects.r1 qB.vects.r2) ∧ 0 < V3.normSq (V3.cross qB.vects.r0 qB.vects.r2) ∧
    0 < V3.normSq (V3.cross qB.vects.r0 qB.vects.r1) := cross_pos_of_det qB.vects (by decide +kernel)
/-- the clean-up removes the tiny tilt `xy` and the cell stays LAMMPS-normal. -/
example : (cleanBox qThr ⟨⟨⟨2, 0, 0⟩, ⟨1/1000000000000, 3, 0⟩, ⟨1/2, 1, 4⟩⟩, ⟨1, 2, 3⟩⟩).isLammpsNorm = true :=
  clean_normal_of_det qThr ⟨⟨⟨2, 0, 0⟩, ⟨1/1000000000000, 3, 0⟩, ⟨1/2, 1, 4⟩⟩, ⟨1, 2, 3⟩⟩ (by decide +kernel) (by decide +kernel)
example : (cleanBox qThr ⟨⟨⟨2, 0, 0⟩, ⟨1/1000000000000, 3, 0⟩, ⟨1/2, 1, 4⟩⟩, ⟨1, 2, 3⟩⟩ : Box ℚ).vects.r1.x = 0 := by decide +kernel
/-- the object after a history that fills, drops and refills the cache. -/
example : (Box.recip (⟨⟨⟨2, 0, 0⟩, ⟨1, 3, 0⟩, ⟨0, 1, 5⟩⟩, ⟨0, 1, 0⟩⟩ : Box ℚ)).mul
    ((CBox.fresh : CBox ℚ).after qThr
      [.set (.lengths ⟨2, 3, 4, 1/2, 0, 1⟩ ⟨1, 2, 3⟩), .read .recip, .set (.attrVects ⟨⟨2, 0, 0⟩, ⟨1, 3, 0⟩, ⟨0, 1, 5⟩⟩),
       .read (.c2r ⟨1, 1, 1⟩), .set (.attrOrigin ⟨0, 1, 0⟩)]).box.vects.transpose = M3.one :=
  obj_recip_dual qThr _ _ (by decide +kernel)
example : ((insideAll qB ⟨1, 2, 3, 4, 5, 6⟩ [⟨9, 9, 9⟩, ⟨2, 3, 4⟩] true).length = 2) ∧
    ((insideAll qB ⟨1, 2, 3, 4, 5, 6⟩ [⟨9, 9, 9⟩, ⟨2, 3, 4⟩] true)[1]? = some true ↔ RelIn (qB.cartToRel ⟨2, 3, 4⟩)) ∧
    ((insideAll qB ⟨1, 2, 3, 4, 5, 6⟩ [⟨9, 9, 9⟩, ⟨2, 3, 4⟩] false)[1]? = some true ↔ RelInStrict (qB.cartToRel ⟨2, 3, 4⟩)) ∧
    (outsideAll qB ⟨1, 2, 3, 4, 5, 6⟩ [⟨9, 9, 9⟩, ⟨2, 3, 4⟩] true)[1]? =
      ((insideAll qB ⟨1, 2, 3, 4, 5, 6⟩ [⟨9, 9, 9⟩, ⟨2, 3, 4⟩] false)[1]?).map (!·) :=
  insideAll_iff_rel qB (by decide +kernel) ⟨1, 2, 3, 4, 5, 6⟩ ⟨by norm_num, by norm_num, by norm_num, by norm_num, by norm_num, by norm_num⟩
    [⟨9, 9, 9⟩, ⟨2, 3, 4⟩] 1 ⟨2, 3, 4⟩ rfl
example : (insideAll qB ⟨1, 2, 3, 4, 5, 6⟩ [⟨9, 9, 9⟩, ⟨2, 3, 4⟩] true) = [false, true] := by decide +kernel
example : -1 < angleCos (⟨3, 4, 0⟩ : V3 ℚ) ⟨2, 3, 6⟩ 5 7 ∧ angleCos (⟨3, 4, 0⟩ : V3 ℚ) ⟨2, 3, 6⟩ 5 7 < 1 :=
  angleCos_strict ⟨3, 4, 0⟩ ⟨2, 3, 6⟩ 5 7 (by norm_num) (by norm_num) (by decide +kernel) (by decide +kernel) (by decide +kernel)
example : angleCos (⟨3, 4, 0⟩ : V3 ℚ) ⟨2, 3, 6⟩ 5 7 * angleCos (⟨3, 4, 0⟩ : V3 ℚ) ⟨2, 3, 6⟩ 5 7 ≤ 1 :=
  angleCos_sq_le_one ⟨3, 4, 0⟩ ⟨2, 3, 6⟩ 5 7 (by norm_num) (by norm_num) (by decide +kernel) (by decide +kernel)
example : angleCos (⟨3, 4, 0⟩ : V3 ℚ) ⟨2, 3, 6⟩ 5 7 = 18/35 := by decide +kernel
/-- a negative scale factor (the lengths take `|s|`). -/
example : (|(-2 : ℚ)| * 5) * (|(-2 : ℚ)| * 5) = V3.normSq (scaleV (-2) (⟨3, 4, 0⟩ : V3 ℚ)) ∧
    (|(-2 : ℚ)| * 7) * (|(-2 : ℚ)| * 7) = V3.normSq (scaleV (-2) (⟨2, 3, 6⟩ : V3 ℚ)) ∧ 0 < |(-2 : ℚ)| * 5 ∧ 0 < |(-2 : ℚ)| * 7 ∧
    (18/35 : ℚ) * ((|(-2 : ℚ)| * 5) * (|(-2 : ℚ)| * 7)) = V3.dot (scaleV (-2) (⟨3, 4, 0⟩ : V3 ℚ)) (scaleV (-2) ⟨2, 3, 6⟩) :=
  scale_angle_cos (-2) (by norm_num) ⟨3, 4, 0⟩ ⟨2, 3, 6⟩ 5 7 (18/35) (by decide +kernel) (by decide +kernel) (by norm_num) (by norm_num)
    (by decide +kernel)
example : (scaleBox (-2) qB).cartToRel (scaleV (-2) ⟨2, 3, 4⟩) = qB.cartToRel ⟨2, 3, 4⟩ :=
  scale_cartToRel (-2) (by norm_num) qB (by decide +kernel) ⟨2, 3, 4⟩
example : (scaleBox (-2) qB).recip = scaleM (-2 : ℚ)⁻¹ qB.recip := scale_recip (-2) (by norm_num) qB (by decide +kernel)
example : (scaleBox (3/2) qB).isLammpsNorm = qB.isLammpsNorm := scale_isLammpsNorm (3/2) (by norm_num) qB
/-- shapes: a stack of 4 x 2 points is accepted, a trailing dimension 2 is a ValueError. -/
example := gen_shapes_eq_model [4, 2, 3] 3 rfl
example := gen_shapes_eq_model [5, 2] 2 rfl
example : convShape [4, 2, 3] = .ok [4, 2, 3] ∧ convShape [5, 2] = .errValue ∧ insideShape [4, 2, 3] = .ok [4, 2] := by decide
example := src_lammps_getters qB (by decide +kernel)
example : Generated.BoxSource.cleanupEntry qThr 4 (1/1000000000000) = cleanEntry qThr 4 (1/1000000000000) :=
  gen_cleanupEntry_eq_model qThr 4 (1/1000000000000) (by norm_num)
example : cleanEntry qThr 4 (1/1000000000000) = 0 ∧ cleanEntry qThr 4 (1/2) = 1/2 := by decide +kernel
/-- keyword dispatch: soundness and completeness on keyword sets in a non-signature order. -/
example := set_dispatch_sound ["origin", "lz", "ly", "lx", "yz"] .lengths (by decide) (by decide)
example : setOutcome ["gamma", "c", "b", "a"] = .ok .abc :=
  set_dispatch_complete ["gamma", "c", "b", "a"] .abc (by decide) (by decide) (by decide)
/-- a cell-defining call forgets the previous cell (here: two different previous cells), a refused one changes nothing. -/
example : (SetOp.lengths ⟨2, 3, 4, 1, 1/2, 1⟩ ⟨1, 2, 3⟩ : SetOp ℚ).apply? qThr qB = (SetOp.lengths ⟨2, 3, 4, 1, 1/2, 1⟩ ⟨1, 2, 3⟩).apply? qThr qP :=
  redefine_forgets_previous_cell qThr _ rfl qB qP
example := obj_redefine_eq_fresh qThr (SetOp.hilos ⟨1, 3, 2, 5, 3, 7, 1, 1/2, 1⟩ : SetOp ℚ) rfl ⟨qP, some qP.recip⟩
example : ((⟨qP, some qP.recip⟩ : CBox ℚ).set qThr (.lengths ⟨2, -3, 4, 1, 1/2, 1⟩ ⟨1, 2, 3⟩)).1 = ⟨qP, some qP.recip⟩ :=
  obj_rejected_unchanged qThr ⟨qP, some qP.recip⟩ _ (by decide +kernel)

end audit_examples

/-- **faceMargin_le_iff**: the exemption "points closer than the bound to a face" granted by the comparison with the real code is
    exactly that: the margin the driver reports for a point is at most `ε` iff one of its relative coordinates is within `ε` of
    `0` or of `1` — no other point is exempted from the inside / outside clause. -/
theorem faceMargin_le_iff (s : V3 K) (ε : K) :
    faceMargin s ≤ ε ↔ (|s.x| ≤ ε ∨ |1 - s.x| ≤ ε ∨ |s.y| ≤ ε ∨ |1 - s.y| ≤ ε ∨ |s.z| ≤ ε ∨ |1 - s.z| ≤ ε) := by
  simp only [faceMargin, minK_eq_min, absK_eq_abs, min_le_iff]
  tauto

/-- a point with positive margin is strictly inside or strictly outside: boundary included / excluded give the same answer. -/
theorem faceMargin_pos_decides (s : V3 K) (h : 0 < faceMargin s) : RelIn s ↔ RelInStrict s := by
  have h' : ¬ faceMargin s ≤ 0 := not_le.mpr h
  rw [faceMargin_le_iff] at h'
  simp only [abs_nonpos_iff, not_or, sub_eq_zero] at h'
  obtain ⟨h1, h2, h3, h4, h5, h6⟩ := h'
  unfold RelIn RelInStrict
  constructor
  · rintro ⟨a1, a2, a3, a4, a5, a6⟩
    exact ⟨lt_of_le_of_ne a1 (Ne.symm h1), lt_of_le_of_ne a2 (fun e => h2 e.symm), lt_of_le_of_ne a3 (Ne.symm h3),
      lt_of_le_of_ne a4 (fun e => h4 e.symm), lt_of_le_of_ne a5 (Ne.symm h5), lt_of_le_of_ne a6 (fun e => h6 e.symm)⟩
  · rintro ⟨a1, a2, a3, a4, a5, a6⟩
    exact ⟨a1.le, a2.le, a3.le, a4.le, a5.le, a6.le⟩

example : faceMargin (⟨1/4, 9/10, 1/2⟩ : V3 ℚ) = 1/10 ∧ faceMargin (⟨1/4, 1, 1/2⟩ : V3 ℚ) = 0 ∧ faceMargin (⟨-1/8, 3, 1/2⟩ : V3 ℚ) = 1/8 := by
  decide +kernel
example : RelIn (⟨1/4, 9/10, 1/2⟩ : V3 ℚ) ↔ RelInStrict (⟨1/4, 9/10, 1/2⟩ : V3 ℚ) := faceMargin_pos_decides _ (by decide +kernel)

/-- the threshold the driver runs the model with (the double nearest to the literal `1e-9` of the source) meets the hypotheses
    `0 ≤ thr`, `thr < 1` of the clean-up theorems. -/
example : (0 : ℚ) ≤ mkRat atolNum atolDen ∧ mkRat atolNum atolDen < 1 := by decide +kernel

/-- **abc_getters_spec**: "the reported lengths and angles are those of the vectors", in one statement about what the six getters
    return for a non-degenerate cell: `a b c` are the positive roots of the squared lengths of the rows, `alpha beta gamma` lie
    strictly between 0 and 180 degrees and their cosines times the two lengths are the inner products of the rows (rows 1-2, 0-2,
    0-1), and the origin is handed through. -/
theorem abc_getters_spec (hT : T.Spec) (bx : Box K) (hd : bx.vects.det ≠ 0) :
    ∃ a b c al be ga, readAs? T .abc bx = some (.abc a b c al be ga bx.origin) ∧
      0 < a ∧ 0 < b ∧ 0 < c ∧ a * a = a2 bx ∧ b * b = b2 bx ∧ c * c = c2 bx ∧
      0 < al ∧ al < 180 ∧ 0 < be ∧ be < 180 ∧ 0 < ga ∧ ga < 180 ∧
      cosDeg T al * (b * c) = dotBC bx ∧ cosDeg T be * (a * c) = dotAC bx ∧ cosDeg T ga * (a * b) = dotAB bx := by
  obtain ⟨x12, x02, x01⟩ := cross_pos_of_det bx.vects hd
  obtain ⟨p1, p2⟩ := cross_pos_parts _ _ x12
  obtain ⟨p0, _⟩ := cross_pos_parts _ _ x02
  obtain ⟨s1, s2, _, s4⟩ := angleDeg_spec hT _ _ x12
  obtain ⟨t1, t2, _, t4⟩ := angleDeg_spec hT _ _ x02
  obtain ⟨u1, u2, _, u4⟩ := angleDeg_spec hT _ _ x01
  exact ⟨_, _, _, _, _, _, rfl, lenOf_pos hT _ p0, lenOf_pos hT _ p1, lenOf_pos hT _ p2, lenOf_sq hT _, lenOf_sq hT _, lenOf_sq hT _,
    s1, s2, t1, t2, u1, u2, s4, t4, u4⟩

/-! ### statement audit: the theorems that assume `Trig.Spec`, instantiated with the real functions (`realTrig_spec`) on concrete
real cells — a tilted LAMMPS-normal cell, the same cell turned, `Box.orthorhombic(2, 3, 4)`, and a cell with `gamma = 60` -/

section audit_real

/-- a cell is as the setter leaves it when every entry is `0` or larger than `thr` times a bound on the largest entry. -/
theorem isClean_of_bound {K : Type} [Field K] [LinearOrder K] [IsStrictOrderedRing K] (thr c : K) (hthr : 0 ≤ thr) (b : Box K)
    (hM : maxAbs b.vects ≤ c)
    (h : ∀ x ∈ [b.vects.r0.x, b.vects.r0.y, b.vects.r0.z, b.vects.r1.x, b.vects.r1.y, b.vects.r1.z,
      b.vects.r2.x, b.vects.r2.y, b.vects.r2.z], x = 0 ∨ thr * c < |x|) : IsClean thr b := by
  have key : ∀ x, (x = 0 ∨ thr * c < |x|) → cleanEntry thr (maxAbs b.vects) x = x := by
    intro x hx
    rw [cleanEntry_eq]
    rcases hx with rfl | hx
    · simp
    · have : thr * maxAbs b.vects ≤ thr * c := mul_le_mul_of_nonneg_left hM hthr
      rw [if_neg (by linarith)]
  simp only [List.mem_cons, List.not_mem_nil, or_false, forall_eq_or_imp, forall_eq] at h
  obtain ⟨h1, h2, h3, h4, h5, h6, h7, h8, h9⟩ := h
  show cleanVects thr b.vects = b.vects
  simp only [cleanVects, cleanV, key _ h1, key _ h2, key _ h3, key _ h4, key _ h5, key _ h6, key _ h7, key _ h8, key _ h9]

/-- tilted LAMMPS-normal real cell, non-zero origin; threshold `1e-9`. -/
private noncomputable def rB : Box ℝ := ⟨⟨⟨2, 0, 0⟩, ⟨1, 3, 0⟩, ⟨1, 1, 4⟩⟩, ⟨1, 2, 3⟩⟩
/-- the same cell turned (axes y, z reversed): right-handed, not LAMMPS-normal. -/
private noncomputable def rT : Box ℝ := ⟨⟨⟨2, 0, 0⟩, ⟨1, -3, 0⟩, ⟨1, -1, -4⟩⟩, ⟨1, 2, 3⟩⟩
private noncomputable def rThr : ℝ := 1/1000000000

private theorem rB_clean : IsClean rThr rB := by
  refine isClean_of_bound rThr 4 (by norm_num [rThr]) rB ?_ ?_
  · rw [maxAbs_le_iff]; norm_num [rB]
  · simp only [List.mem_cons, List.not_mem_nil, or_false, forall_eq_or_imp, forall_eq]; norm_num [rB, rThr]
private theorem rT_clean : IsClean rThr rT := by
  refine isClean_of_bound rThr 4 (by norm_num [rThr]) rT ?_ ?_
  · rw [maxAbs_le_iff]; norm_num [rT]
  · simp only [List.mem_cons, List.not_mem_nil, or_false, forall_eq_or_imp, forall_eq]; norm_num [rT, rThr]
private theorem rB_normal : rB.isLammpsNorm = true := by rw [isLammpsNorm_iff]; norm_num [rB]
private theorem rT_not_normal : rT.isLammpsNorm = false := by
  rw [Bool.eq_false_iff, Ne, isLammpsNorm_iff]; norm_num [rT]
private theorem rB_det : rB.vects.det = 24 := by norm_num [rB, M3.det, V3.dot, V3.cross]
private theorem rT_det : rT.vects.det = 24 := by norm_num [rT, M3.det, V3.dot, V3.cross]

example (Y : Family) : ∃ q, readAs? realTrig Y rB = some q ∧ q.family = Y ∧ define? realTrig rThr q = some rB :=
  read_rebuild_same realTrig_spec rThr Y rB rB_clean rB_normal
example : ∃ q, readAs? realTrig .abc rB = some q ∧ q.family = .abc ∧ define? realTrig rThr q = some rB :=
  read_abc_rebuild_normal realTrig_spec rThr rB rB_clean rB_normal

private theorem rB_raw : defineRaw? realTrig (.lengths ⟨2, 3, 4, 1, 1, 1⟩ ⟨1, 2, 3⟩) = some rB := by
  simp [defineRaw?, ofLengthsP?, Box.ofLengths?, rB]
private theorem rB_defined : define? realTrig rThr (.lengths ⟨2, 3, 4, 1, 1, 1⟩ ⟨1, 2, 3⟩) = some rB := by
  rw [define_eq_clean_raw, rB_raw, Option.map_some, cleanBox, show cleanVects rThr rB.vects = rB.vects from rB_clean]
private theorem rT_defined : define? realTrig rThr (.vectors ⟨2, 0, 0⟩ ⟨1, -3, 0⟩ ⟨1, -1, -4⟩ ⟨1, 2, 3⟩) = some rT := by
  rw [define_eq_clean_raw]
  show some (cleanBox rThr rT) = some rT
  rw [cleanBox, show cleanVects rThr rT.vects = rT.vects from rT_clean]

/-- define through LAMMPS lengths and tilts, read back and rebuild through each of the four parameter sets. -/
example (Y : Family) : ∃ q, readAs? realTrig Y rB = some q ∧ q.family = Y ∧ define? realTrig rThr q = some rB :=
  real_rebuild_any_pair rThr (by norm_num [rThr]) _ Y rB rB_defined (by rw [rB_det]; norm_num) (Or.inl (by simp [Params.family]))
example (Y Z : Family) := rebuild_any_pair_fixpoint realTrig_spec rThr (by norm_num [rThr]) _ Y Z rB rB_defined
  (by rw [rB_det]; norm_num) (Or.inl (by simp [Params.family]))
/-- the object with a filled cache. -/
example (Y : Family) := obj_rebuild_any_pair realTrig_spec rThr ⟨rB, some rB.recip⟩
  (fun r h => ⟨by show rB.vects.det ≠ 0; rw [rB_det]; norm_num, (Option.some.inj h).symm⟩) Y rB_clean rB_normal
/-- the turned cell: vectors give it back, the LAMMPS getters refuse, lengths and angles give a rotated copy. -/
example := rebuild_turned_cell realTrig_spec rThr rT rT_clean (by rw [rT_det]; norm_num) rT_not_normal
example : rT.isLammpsNorm = true → False := by rw [rT_not_normal]; simp
example : IsClean rThr rT := defined_isClean (T := realTrig) rThr (by norm_num [rThr]) _ rT rT_defined
example : rB.isLammpsNorm = true :=
  defined_normal_of_det (T := realTrig) rThr _ (by simp [Params.family]) rB rB_defined (by rw [rB_det]; norm_num)
example : readAs? realTrig .lengths rB = some (.lengths ⟨2, 3, 4, 1, 1, 1⟩ ⟨1, 2, 3⟩) :=
  raw_readback realTrig_spec _ rB rB_raw (fun _ _ _ _ _ _ _ h => by cases h)
example := raw_definition_unique realTrig_spec _ _ rB rfl rB_raw rB_raw (fun _ _ _ _ _ _ _ h => by cases h)
  (fun _ _ _ _ _ _ _ h => by cases h)

/-- right angles: `Box.orthorhombic(2, 3, 4)`. -/
example : defineRaw? realTrig (.abc 2 3 4 90 90 90 ⟨1, 2, 3⟩) = some ⟨⟨⟨2, 0, 0⟩, ⟨0, 3, 0⟩, ⟨0, 0, 4⟩⟩, ⟨1, 2, 3⟩⟩ :=
  define_right_angles realTrig_spec 2 3 4 (by norm_num) (by norm_num) (by norm_num) _
example : readAs? realTrig .abc ⟨⟨⟨2, 0, 0⟩, ⟨0, 3, 0⟩, ⟨0, 0, 4⟩⟩, ⟨1, 2, 3⟩⟩ = some (.abc 2 3 4 90 90 90 ⟨1, 2, 3⟩) :=
  real_abc_readback_degrees 2 3 4 90 90 90 _ _ (by norm_num) (by norm_num)
    (define_right_angles realTrig_spec 2 3 4 (by norm_num) (by norm_num) (by norm_num) _)
example : readAs? realTrig .abc ⟨⟨⟨2, 0, 0⟩, ⟨0, 3, 0⟩, ⟨0, 0, 4⟩⟩, ⟨1, 2, 3⟩⟩ = some (.abc 2 3 4 90 90 90 ⟨1, 2, 3⟩) :=
  raw_readback realTrig_spec (.abc 2 3 4 90 90 90 ⟨1, 2, 3⟩) _
    (define_right_angles realTrig_spec 2 3 4 (by norm_num) (by norm_num) (by norm_num) _)
    (fun _ _ _ _ _ _ _ h => by injection h with h1 h2 h3; subst h2 h3; norm_num)

private noncomputable def rO : Box ℝ := ⟨⟨⟨2, 0, 0⟩, ⟨0, 3, 0⟩, ⟨0, 0, 4⟩⟩, ⟨0, 0, 0⟩⟩
private theorem rO_defined : define? realTrig rThr (.abc 2 3 4 90 90 90 ⟨0, 0, 0⟩) = some rO := by
  rw [define_eq_clean_raw, define_right_angles realTrig_spec 2 3 4 (by norm_num) (by norm_num) (by norm_num), Option.map_some, cleanBox]
  have : IsClean rThr rO := by
    refine isClean_of_bound rThr 4 (by norm_num [rThr]) rO ?_ ?_
    · rw [maxAbs_le_iff]; norm_num [rO]
    · simp only [List.mem_cons, List.not_mem_nil, or_false, forall_eq_or_imp, forall_eq]; norm_num [rO, rThr]
  exact congrArg some (Box.ext this rfl)
/-- a crystal-family constructor: `Box.orthorhombic(2, 3, 4)` read through any parameter set and rebuilt. -/
example (Y : Family) := ctor_rebuild_any realTrig_spec rThr (by norm_num [rThr]) (.orthorhombic 2 3 4) _ rO Y
  (by norm_num [Ctor.params?]) rO_defined (by norm_num [rO, M3.det, V3.dot, V3.cross])

example : lenOf realTrig (scaleV (5/2) ⟨1, 3, 0⟩) = 5/2 * lenOf realTrig ⟨1, 3, 0⟩ := lenOf_scale realTrig_spec (5/2) (by norm_num) _
example : angleDeg realTrig (scaleV (5/2) ⟨1, 3, 0⟩) (scaleV (5/2) ⟨1, 1, 4⟩) = angleDeg realTrig ⟨1, 3, 0⟩ ⟨1, 1, 4⟩ :=
  angleDeg_scale realTrig_spec (5/2) (by norm_num) _ _ (by norm_num [V3.normSq, V3.dot]) (by norm_num [V3.normSq, V3.dot])
example := angleDeg_spec realTrig_spec (⟨1, 3, 0⟩ : V3 ℝ) ⟨1, 1, 4⟩ (by norm_num [V3.normSq, V3.dot, V3.cross])

/-- a non-right angle: `gamma = 60` degrees (hexagonal-like cell `a = b = 2`, `c = 3`): the cell `set_abc` builds has
    `xy = 1`, `ly = √3`, and reading `a b c alpha beta gamma` back returns the six numbers typed in. -/
private theorem cos60 : realTrig.cos (60 * realTrig.pi / 180) = 1 / 2 := by
  show Real.cos (60 * Real.pi / 180) = 1 / 2
  rw [show (60 : ℝ) * Real.pi / 180 = Real.pi / 3 by ring, Real.cos_pi_div_three]
private theorem cos90 : realTrig.cos (90 * realTrig.pi / 180) = 0 := realTrig_spec.cos_right

example : ∃ bx : Box ℝ, defineRaw? realTrig (.abc 2 2 3 90 90 60 ⟨1, 2, 3⟩) = some bx ∧ bx.vects.r1.x = 1 ∧
    readAs? realTrig .abc bx = some (.abc 2 2 3 90 90 60 ⟨1, 2, 3⟩) := by
  have hly : abcLySq (2 : ℝ) (1 / 2) = 3 := by norm_num [abcLySq]
  have h3 : 0 < Real.sqrt 3 := Real.sqrt_pos.mpr (by norm_num)
  have hlz : abcLzSq (2 : ℝ) 3 0 0 (1 / 2) (Real.sqrt 3) = 9 := by
    simp [abcLzSq]; norm_num
  have h9 : 0 < Real.sqrt 9 := Real.sqrt_pos.mpr (by norm_num)
  have hraw : defineRaw? realTrig (.abc 2 2 3 90 90 60 ⟨1, 2, 3⟩) =
      some ⟨⟨⟨2, 0, 0⟩, ⟨1, Real.sqrt 3, 0⟩, ⟨0, 0, Real.sqrt 9⟩⟩, ⟨1, 2, 3⟩⟩ := by
    have hok : anglesOk (90 : ℝ) 90 60 = true := by simp [anglesOk]; norm_num
    simp only [defineRaw?, hok, if_true, abcOfDeg, cosDeg, cos60, cos90, hly]
    show ofLengthsP? (abcLengths 2 2 3 0 0 (1 / 2) (Real.sqrt 3) (Real.sqrt (abcLzSq 2 3 0 0 (1 / 2) (Real.sqrt 3)))) _ = _
    rw [hlz]
    simp [ofLengthsP?, Box.ofLengths?, abcLengths, h3, h9]
  exact ⟨_, hraw, rfl, real_abc_readback_degrees 2 2 3 90 90 60 _ _ (by norm_num) (by norm_num) hraw⟩

/-- the getters of the turned cell: lengths and angles of its vectors. -/
example := abc_getters_spec realTrig_spec rT (by rw [rT_det]; norm_num)

end audit_real

end Atomman.C01
