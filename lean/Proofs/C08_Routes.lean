/-
  C08 — the routes of a round trip: every way of naming the target of `System.dump` and the source of `load`.
  Model: `Sink`, `Source`, `World`, `dumpTo`, `sourceText`, `loadVia` in Atomman/C08.lean (the three-way branch at the
  end of the four writers; `potentials.tools.uber_open_rmode`).
-/
import Atomman.C08
import Mathlib.Tactic.Ring
namespace Atomman.C08
open Atomman Atomman.C07
set_option linter.unusedSimpArgs false
set_option linter.unusedTactic false
set_option linter.unreachableTactic false


theorem World.file?_setFile (w : World) (p : String) (t : List Char) : (w.setFile p t).file? p = some t := by
  simp [World.file?, World.setFile]

theorem find?_filter_of_imp {α : Type} (f g : α → Bool) (l : List α) (h : ∀ x, f x = true → g x = true) :
    (l.filter g).find? f = l.find? f := by
  induction l with
  | nil => rfl
  | cons e es ih =>
    by_cases hg : g e = true
    · rw [List.filter_cons_of_pos hg, List.find?_cons, List.find?_cons, ih]
    · have hf : ¬ (f e = true) := fun hfe => hg (h e hfe)
      rw [List.filter_cons_of_neg hg, List.find?_cons_of_neg hf, ih]

theorem World.file?_setFile_ne (w : World) (p q : String) (t : List Char) (h : q ≠ p) :
    (w.setFile p t).file? q = w.file? q := by
  have hpq : (p == q) = false := by simpa using (Ne.symm h)
  have key := find?_filter_of_imp (fun e : String × List Char => e.1 == q) (fun e => !(e.1 == p)) w.files
    (by intro x hx; have : x.1 = q := by simpa using hx
        simp [this, h])
  simp only [World.file?, World.setFile, List.find?_cons, hpq, key]

theorem World.buf_setBuf (w : World) (h : Nat) (t : List Char) : (w.setBuf h t).buf h = t := by
  simp [World.buf, World.setBuf]

/-- the sinks that name a file the writer can write (all of them but a binary stream). -/
def Sink.writesFile (k : Sink) (p : String) : Prop :=
  k = .path p ∨ k = .pathObj p ∨ k = .pathLike p ∨ k = .textFile p

/-- the sources that name the file `p` for the loader. -/
def Source.namesFile (s : Source) (p : String) : Prop :=
  s = .str p.toList ∨ s = .pathObj p ∨ s = .binFile p

/-- **dump_target_holds_content**: however the target file is named (str, pathlib.Path, other PathLike, open text
    stream) and whatever it held before, after the dump it holds exactly the content (not appended, not the earlier
    text), nothing is returned, every other file and every in-memory stream is as before. -/
theorem dump_target_holds_content (w : World) (k : Sink) (p : String) (content : List Char) (hk : k.writesFile p) :
    ∃ w', dumpTo w k content = .ok (w', none) ∧ w'.file? p = some content ∧
      (∀ q, q ≠ p → w'.file? q = w.file? q) ∧ w'.bufs = w.bufs := by
  refine ⟨w.setFile p content, ?_, World.file?_setFile w p content,
    fun q hq => World.file?_setFile_ne w p q content hq, rfl⟩
  rcases hk with h | h | h | h <;> subst h <;> rfl

/-- **load_dump_roundtrip_any_route**: for every loader, every way of naming the target of the dump and every way of
    naming that file for the loader (str name, pathlib.Path, binary stream), whatever the file held before: loading
    from the target is loading the content — so each per-format round-trip theorem holds through every route. -/
theorem load_dump_roundtrip_any_route {α : Type} (loader : List Char → Res α) (w : World) (k : Sink) (p : String)
    (content : List Char) (hk : k.writesFile p) (src : Source) (hs : src.namesFile p) :
    ∃ w', dumpTo w k content = .ok (w', none) ∧ loadVia loader w' src = loader content := by
  obtain ⟨w', h1, h2, _, _⟩ := dump_target_holds_content w k p content hk
  refine ⟨w', h1, ?_⟩
  rcases hs with h | h | h <;> subst h
  · have : String.ofList p.toList = p := by simp
    simp [loadVia, sourceText, this, h2, Except.bind, bind, pure, Except.pure]
  · simp [loadVia, sourceText, h2, Except.bind, bind, pure, Except.pure]
  · simp [loadVia, sourceText, h2, Except.bind, bind, pure, Except.pure]

/-- **dump_twice_last_wins**: a target written twice holds the second content. -/
theorem dump_twice_last_wins (w : World) (k : Sink) (p : String) (t1 t2 : List Char) (hk : k.writesFile p) :
    ∃ w1 w2, dumpTo w k t1 = .ok (w1, none) ∧ dumpTo w1 k t2 = .ok (w2, none) ∧ w2.file? p = some t2 := by
  obtain ⟨w1, h1, _, _, _⟩ := dump_target_holds_content w k p t1 hk
  obtain ⟨w2, h2, h3, _, _⟩ := dump_target_holds_content w1 k p t2 hk
  exact ⟨w1, w2, h1, h2, h3⟩

/-- **dump_returns_iff_no_target**: the content is returned exactly when no target is given, and then nothing is
    written; an in-memory text stream standing at its end gets the content appended; a binary stream is refused. -/
theorem dump_returns_iff_no_target (w : World) (content : List Char) :
    dumpTo w .ret content = .ok (w, some content) ∧
    (∀ k w' r, k ≠ .ret → dumpTo w k content = .ok (w', r) → r = none) ∧
    (∀ h, ∃ w', dumpTo w (.stringIO h) content = .ok (w', none) ∧ w'.buf h = w.buf h ++ content ∧ w'.files = w.files) ∧
    (∀ p, dumpTo w (.binFile p) content = .error "type") := by
  refine ⟨rfl, ?_, fun h => ⟨w.setBuf h (w.buf h ++ content), rfl, World.buf_setBuf _ _ _, rfl⟩, fun _ => rfl⟩
  intro k w' r hk h
  cases k <;> simp_all [dumpTo, pure, Except.pure, throw, throwThe, MonadExceptOf.throw]
  all_goals (try (obtain ⟨_, rfl⟩ := h; rfl))

/-- **source_refusals**: what is not a source: a text stream (ValueError), any other object (TypeError), a
    pathlib.Path / binary stream of a file that does not exist (FileNotFoundError); a str that names no file is the
    content itself. -/
theorem source_refusals (w : World) :
    (∀ p, sourceText w (.textFile p) = .error "value") ∧ sourceText w .other = .error "type" ∧
    (∀ p, w.file? p = none → sourceText w (.pathObj p) = .error "notfound") ∧
    (∀ s, w.file? (String.ofList s) = none → sourceText w (.str s) = .ok s) ∧
    (∀ b, sourceText w (.bytes b) = .ok b) ∧ (∀ b, sourceText w (.bytesIO b) = .ok b) := by
  refine ⟨fun _ => rfl, rfl, ?_, ?_, fun _ => rfl, fun _ => rfl⟩
  · intro p h; simp [sourceText, h, throw, throwThe, MonadExceptOf.throw]
  · intro s h; simp [sourceText, h, pure, Except.pure]

/-- **sourceTextRead_eq**: the loaders that read a stream first (data file, dump file) see the same text as the
    others from every source that is not a text stream; from a text stream on `p` they see the content of `p`
    (unless that content is itself the name of a file). -/
theorem sourceTextRead_eq (w : World) (src : Source) (h : ∀ p, src ≠ .textFile p) :
    sourceTextRead w src = sourceText w src := by
  cases src with
  | textFile p => exact absurd rfl (h p)
  | binFile p => simp only [sourceTextRead, sourceText]
  | bytesIO t => rfl
  | str s => rfl
  | pathObj p => rfl
  | bytes b => rfl
  | other => rfl

theorem sourceTextRead_textFile (w : World) (p : String) (t : List Char) (h : w.file? p = some t)
    (hn : w.file? (String.ofList t) = none) : sourceTextRead w (.textFile p) = .ok t := by
  simp [sourceTextRead, sourceText, h, hn, pure, Except.pure]

/-- non-vacuity: a file that holds a long earlier dump, written through a `pathlib.Path`, read back by name. -/
example :
    let w : World := ⟨[("a.dump", "earlier, longer content".toList)], []⟩
    (dumpTo w (.pathObj "a.dump") "new".toList).toOption.map (fun r => (sourceText r.1 (.str "a.dump".toList), r.2)) =
      some (.ok "new".toList, none) := by decide +kernel

end Atomman.C08
