/-
  C12 — Volterra dislocation fields: property theorems.

  `F` is an arbitrary field of characteristic zero (the driver runs the same definitions at `F := Cx ℚ`,
  which `Proofs/C12_Lemmas.lean` shows to be such a field).  The eigen-solver, the 3x3 inverse, `log`,
  `arctan` and `π` are parameters; what they are assumed to satisfy is an explicit hypothesis of the theorem
  that needs it, and the driver recomputes the corresponding residual on every correspondence case.

  Analysis is replaced by its algebraic core:
    displacement = Σₐ dispCoef a · ln ηₐ,  strain/stress = Σₐ coef a · (1/ηₐ),  ηₐ(x) = x·m + pₐ x·n
  is how the code computes the fields; `eta_dir_deriv` shows `ηₐ` is affine with gradient `m + pₐ n`, so the
  formal x-derivative of `ln ηₐ` is `(m + pₐ n)/ηₐ` and of `1/ηₐ` is `-(m + pₐ n)/ηₐ²`.  Theorems named
  `…_partial` say in their docstring what is missing with respect to the property clause.
-/
import Atomman.C12
import Proofs.C12_Lemmas
import Proofs.C12_Cov
import Proofs.C12_Analysis
import Proofs.C12_Units
import Proofs.C12_Miller
import Proofs.C12_Source
import Mathlib.Tactic.Ring
import Mathlib.Tactic.LinearCombination
import Mathlib.Tactic.FieldSimp
import Mathlib.Tactic.FinCases
import Mathlib.Tactic.NormNum
import Mathlib.Tactic.Positivity
import Mathlib.Tactic.Linarith
import Mathlib.Algebra.Order.Field.Basic
import Mathlib.Algebra.Field.Basic
import Mathlib.Algebra.CharZero.Defs
import Mathlib.Algebra.Order.Ring.Rat
import Mathlib.Data.Fintype.Basic
import Mathlib.Algebra.BigOperators.Fin

namespace Atomman.C12
open Atomman.Gen
set_option linter.unusedSimpArgs false
set_option linter.unusedSectionVars false
set_option linter.unusedVariables false

variable {F : Type} [Field F] [CharZero F]

/-! ### the sextic eigenproblem -/

/-- a right inverse as a matrix identity gives the operator identity `M (N v) = v`. -/
theorem inv_op_of_matMul (M N : Mat F) (h : ∀ i j, matMul M N i j = kron i j) (v : Vec F) (i : Fin 3) :
    matVec M (matVec N v) i = v i := by
  have e0 := h i 0; have e1 := h i 1; have e2 := h i 2
  simp only [matVec, matMul, sum3] at e0 e1 e2 ⊢
  have : v i = kron i 0 * v 0 + kron i 1 * v 1 + kron i 2 * v 2 := by
    fin_cases i <;> simp [kron]
  rw [this]
  linear_combination v 0 * e0 + v 1 * e1 + v 2 * e2

/-- **Stroh, first half**: if `(A, L)` is an eigenvector of the coded 6x6 `N` for the eigenvalue `p`
    (upper three rows suffice) and `nnInv` is the inverse of `nn`, then `L = -(nm + p·nn) A`. -/
theorem stroh_L (s : Setup F) (nnInv : Mat F) (μ : Mode F)
    (hinv : ∀ i j, matMul s.nn nnInv i j = kron i j)
    (htop : ∀ i, eigResTop s nnInv μ i = 0) (i : Fin 3) :
    μ.L i = -(sum3 fun j => (s.nm i j + μ.p * s.nn i j) * μ.A j) := by
  have key : ∀ h, matVec nnInv (fun g => (sum3 fun j => s.nm g j * μ.A j) + μ.L g) h = -(μ.p * μ.A h) := by
    intro h
    have := htop h
    simp only [eigResTop, matVec, matMul, NA, NB, sum3] at this ⊢
    linear_combination -this
  have h3 := inv_op_of_matMul s.nn nnInv hinv (fun g => (sum3 fun j => s.nm g j * μ.A j) + μ.L g) i
  have k0 := key 0; have k1 := key 1; have k2 := key 2
  simp only [matVec, sum3] at h3 k0 k1 k2 ⊢
  linear_combination -h3 + s.nn i 0 * k0 + s.nn i 1 * k1 + s.nn i 2 * k2

/-- **Stroh, second half**: ... and `(mm + p (mn + nm) + p² nn) A = 0`. -/
theorem stroh_sextic (s : Setup F) (nnInv : Mat F) (μ : Mode F)
    (hinv : ∀ i j, matMul s.nn nnInv i j = kron i j)
    (htop : ∀ i, eigResTop s nnInv μ i = 0) (hbot : ∀ i, eigResBot s nnInv μ i = 0) :
    (∀ i, μ.L i = -(sum3 fun j => (s.nm i j + μ.p * s.nn i j) * μ.A j))
      ∧ ∀ i, matVec (sextic s μ.p) μ.A i = 0 := by
  refine ⟨stroh_L s nnInv μ hinv htop, ?_⟩
  intro i
  have hL := stroh_L s nnInv μ hinv htop i
  have hb := hbot i
  have h0 := htop 0; have h1 := htop 1; have h2 := htop 2
  simp only [eigResTop, eigResBot, matVec, matMul, NA, NB, NC, ND, sextic, sum3] at *
  linear_combination hb - s.mn i 0 * h0 - s.mn i 1 * h1 - s.mn i 2 * h2 + μ.p * hL

/-! ### the field formulas: strain = sym grad u, stress = C : strain, div stress = 0, 1/r -/

/-- `ηₐ` is affine in the field point with gradient `m + pₐ n`:
    moving by `t·e` changes `ηₐ` by exactly `t · e·(m + pₐ n)`. -/
theorem eta_dir_deriv (s : Setup F) (μ : Mode F) (x e : Vec F) (t : F) :
    eta s μ (fun i => x i + t * e i) = eta s μ x + t * dot e (mpn s μ) := by
  simp only [eta, dot, mpn, sum3]; ring

/-- the `1/ηₐ` coefficients of the coded strain are the symmetrised products `½(cₐᵢ (m+pₐn)ⱼ + cₐⱼ (m+pₐn)ᵢ)`
    of the `ln ηₐ` coefficients `cₐ` of the coded displacement, i.e. the strain is the formal symmetric
    gradient of the displacement (`∂ⱼ ln ηₐ = (m+pₐn)ⱼ/ηₐ` by `eta_dir_deriv`). -/
theorem strain_is_symgrad (pi I : F) (s : Setup F) (μ : Fin 6 → Mode F) (k : Fin 6 → F) (a : Fin 6)
    (i j : Fin 3) :
    strainCoef pi I s μ k a i j
      = (dispCoef pi I s μ k a i * mpn s (μ a) j + dispCoef pi I s μ k a j * mpn s (μ a) i) / 2 := by
  simp only [strainCoef, dispCoef, Nat.cast_ofNat, Nat.cast_one]
  ring

/-- coded stress = `C : strain` mode by mode, given the minor symmetry `C_ijkl = C_ijlk`. -/
theorem stress_is_C_strain (pi I : F) (s : Setup F) (μ : Fin 6 → Mode F) (k : Fin 6 → F)
    (hC : ∀ i j k l, s.C i j k l = s.C i j l k) (a : Fin 6) (i j : Fin 3) :
    stressCoef pi I s μ k a i j
      = sum3 fun k' => sum3 fun l => s.C i j k' l * strainCoef pi I s μ k a k' l := by
  simp only [strainCoef, stressCoef, sum3, Nat.cast_ofNat, Nat.cast_one]
  rw [hC i j 1 0, hC i j 2 0, hC i j 2 1]
  ring

/-- ... hence also at every field point. -/
theorem stress_is_C_strain_at (pi I : F) (s : Setup F) (μ : Fin 6 → Mode F) (k : Fin 6 → F)
    (hC : ∀ i j k l, s.C i j k l = s.C i j l k) (x : Vec F) (i j : Fin 3) :
    stressAt pi I s μ k x i j = sum3 fun k' => sum3 fun l => s.C i j k' l * strainAt pi I s μ k x k' l := by
  simp only [stressAt, strainAt, stress_is_C_strain pi I s μ k hC, sum6, sum3]
  ring

/-- divergence: `∂ⱼ σᵢⱼ = -Σₐ (Σⱼ stressCoef a i j (m+pₐn)ⱼ)/ηₐ²`; each `1/ηₐ²` coefficient vanishes
    by the sextic equation (with the minor symmetry `C_ijkl = C_jikl`). -/
theorem stress_div_free (pi I : F) (s : Setup F) (μ : Fin 6 → Mode F) (k : Fin 6 → F)
    (hC : ∀ i j k l, s.C i j k l = s.C j i k l) (a : Fin 6)
    (hsext : ∀ i, matVec (sextic s (μ a).p) (μ a).A i = 0) (i : Fin 3) :
    (sum3 fun j => stressCoef pi I s μ k a i j * mpn s (μ a) j) = 0 := by
  have h := hsext i
  simp only [stressCoef, sextic, matVec, Setup.mm, Setup.mn, Setup.nm, Setup.nn, contract, mpn, sum3,
    Nat.cast_ofNat, Nat.cast_one] at h ⊢
  simp only [hC 0 i, hC 1 i, hC 2 i] at h
  linear_combination (1 / (2 * pi * I) * kLb s μ k a) * h

/-- ... and directly from the eigen equation of the coded `N`. -/
theorem stress_div_free_of_eigen (pi I : F) (s : Setup F) (nnInv : Mat F) (μ : Fin 6 → Mode F) (k : Fin 6 → F)
    (hC : ∀ i j k l, s.C i j k l = s.C j i k l) (hinv : ∀ i j, matMul s.nn nnInv i j = kron i j) (a : Fin 6)
    (htop : ∀ i, eigResTop s nnInv (μ a) i = 0) (hbot : ∀ i, eigResBot s nnInv (μ a) i = 0) (i : Fin 3) :
    (sum3 fun j => stressCoef pi I s μ k a i j * mpn s (μ a) j) = 0 :=
  stress_div_free pi I s μ k hC a (stroh_sextic s nnInv (μ a) hinv htop hbot).2 i

theorem eta_homog (s : Setup F) (μ : Mode F) (x : Vec F) (t : F) :
    eta s μ (fun i => t * x i) = t * eta s μ x := by
  simp only [eta, dot, sum3]; ring

/-- strain is homogeneous of degree −1 in the field point (falls off as 1/r along every ray). -/
theorem falls_as_inv_r (pi I : F) (s : Setup F) (μ : Fin 6 → Mode F) (k : Fin 6 → F) (x : Vec F) (t : F)
    (ht : t ≠ 0) (hx : ∀ a, eta s (μ a) x ≠ 0) (i j : Fin 3) :
    strainAt pi I s μ k (fun c => t * x c) i j = strainAt pi I s μ k x i j / t
      ∧ stressAt pi I s μ k (fun c => t * x c) i j = stressAt pi I s μ k x i j / t := by
  simp only [strainAt, stressAt, eta_homog, sum6]
  have := hx 0; have := hx 1; have := hx 2; have := hx 3; have := hx 4; have := hx 5
  constructor <;> field_simp

/-! ### Burgers vector -/

theorem updn_sq (a : Fin 6) : (updn a : F) * updn a = 1 := by
  fin_cases a <;> simp [updn]

/-- **closure**: if the completeness relation `Σₐ kₐ Aₐ⊗Lₐ = 1` holds (the code's first self-check) and
    every `ln ηₐ` jumps by `updnₐ·2πi` across the cut (`+2πi` for the first, `−2πi` for the second member
    of each conjugate pair: `Im pₐ > 0` resp. `< 0`), the displacement jumps by exactly `b`. -/
theorem burgers_closure (pi I : F) (s : Setup F) (μ : Fin 6 → Mode F) (k : Fin 6 → F)
    (hpi : pi ≠ 0) (hI : I ≠ 0) (hcomp : ∀ i j, chkAL μ k i j = kron i j) (i : Fin 3) :
    dispJump pi I s μ k i = s.b i := by
  have e : dispJump pi I s μ k i = sum3 fun j => chkAL μ k i j * s.b j := by
    simp only [dispJump, dispAt, dispCoef, kLb, chkAL, sum6, sum3, dot, Nat.cast_ofNat, Nat.cast_one]
    have u0 := updn_sq (F := F) 0; have u1 := updn_sq (F := F) 1; have u2 := updn_sq (F := F) 2
    have u3 := updn_sq (F := F) 3; have u4 := updn_sq (F := F) 4; have u5 := updn_sq (F := F) 5
    field_simp
    linear_combination (k 0 * (μ 0).A i * ((μ 0).L 0 * s.b 0 + (μ 0).L 1 * s.b 1 + (μ 0).L 2 * s.b 2)) * u0 + (k 1 * (μ 1).A i * ((μ 1).L 0 * s.b 0 + (μ 1).L 1 * s.b 1 + (μ 1).L 2 * s.b 2)) * u1 + (k 2 * (μ 2).A i * ((μ 2).L 0 * s.b 0 + (μ 2).L 1 * s.b 1 + (μ 2).L 2 * s.b 2)) * u2 + (k 3 * (μ 3).A i * ((μ 3).L 0 * s.b 0 + (μ 3).L 1 * s.b 1 + (μ 3).L 2 * s.b 2)) * u3 + (k 4 * (μ 4).A i * ((μ 4).L 0 * s.b 0 + (μ 4).L 1 * s.b 1 + (μ 4).L 2 * s.b 2)) * u4 + (k 5 * (μ 5).A i * ((μ 5).L 0 * s.b 0 + (μ 5).L 1 * s.b 1 + (μ 5).L 2 * s.b 2)) * u5
  rw [e]; simp only [sum3, hcomp]
  fin_cases i <;> simp [kron]

/-- continuity elsewhere, algebraic core: the difference of the displacement at two points is the FIXED linear form
    `Σₐ dispCoefₐ (ln ηₐ(x₁) - ln ηₐ(x₂))` of the differences of the six logarithms, so where no `ln ηₐ` jumps the
    displacement does not jump.  (Statement audit: the earlier form had only the second conjunct, a congruence true of any
    function; the analytic statement is `disp_continuous_off_cut_analytic`.) -/
theorem disp_continuous_off_cut (pi I : F) (s : Setup F) (μ : Fin 6 → Mode F) (k : Fin 6 → F)
    (l₁ l₂ : Fin 6 → F) (i : Fin 3) :
    dispAt pi I s μ k l₁ i - dispAt pi I s μ k l₂ i = (sum6 fun a => dispCoef pi I s μ k a i * (l₁ a - l₂ a))
    ∧ ((∀ a, l₁ a = l₂ a) → dispAt pi I s μ k l₁ i = dispAt pi I s μ k l₂ i) := by
  refine ⟨?_, fun h => ?_⟩
  · simp only [dispAt, sum6]; ring
  · simp only [dispAt, sum6, h]

/-! ### energy-coefficient tensor -/

theorem K_symm (I : F) (μ : Fin 6 → Mode F) (k : Fin 6 → F) (i j : Fin 3) :
    kTensor I μ k i j = kTensor I μ k j i := by
  simp only [kTensor, sum6]; ring

section real
variable {K : Type} [Field K] [LinearOrder K] [IsStrictOrderedRing K]

def conjMode (μ : Mode (Cx K)) : Mode (Cx K) :=
  ⟨Cx.conj μ.p, fun i => Cx.conj (μ.A i), fun i => Cx.conj (μ.L i)⟩

/-- the ordering of the eigen-solver output that `updn = [1,-1,1,-1,1,-1]` presupposes:
    modes 1, 3, 5 are the complex conjugates of modes 0, 2, 4. -/
def ConjPairs (μ : Fin 6 → Mode (Cx K)) : Prop :=
  μ 1 = conjMode (μ 0) ∧ μ 3 = conjMode (μ 2) ∧ μ 5 = conjMode (μ 4)

theorem kOf_conj (μ : Mode (Cx K)) : kOf (conjMode μ) = Cx.conj (kOf μ) := by
  simp only [kOf, conjMode, dot, sum3, Cx.conj_div, Cx.conj_mul, Cx.conj_add, Cx.conj_natCast]

/-- `K_tensor` is real — **partial**: assumes that `numpy.linalg.eig` lists the modes as adjacent
    conjugate pairs (`ConjPairs`; LAPACK does so for a real matrix, the code does not check it except
    through `K_tensor.dtype`). -/
theorem K_real_partial (μ : Fin 6 → Mode (Cx K)) (hp : ConjPairs μ) (i j : Fin 3) :
    (kTensor Cx.I μ (fun a => kOf (μ a)) i j).im = 0 := by
  obtain ⟨h1, h3, h5⟩ := hp
  apply Cx.im_eq_zero_of_conj_eq
  simp only [kTensor, sum6, h1, h3, h5, kOf_conj, Cx.conj_mul, Cx.conj_add, Cx.conj_I, Cx.conj_conj, updn]
  simp [conjMode, Cx.conj_neg, Cx.conj_one, Cx.conj_conj]
  ring

end real

/-! ### what the energy-coefficient tensor is: the traction coefficient of the slip plane -/

/-- traction of one mode on the slip plane: `Σⱼ stressCoef a i j nⱼ = −(1/(2πi)) kLbₐ Lₐᵢ`. -/
theorem traction_coef (pi I : F) (s : Setup F) (μ : Fin 6 → Mode F) (k : Fin 6 → F)
    (hC : ∀ i j k l, s.C i j k l = s.C j i k l) (a : Fin 6)
    (hL : ∀ i, (μ a).L i = -(sum3 fun j => (s.nm i j + (μ a).p * s.nn i j) * (μ a).A j)) (i : Fin 3) :
    (sum3 fun j => stressCoef pi I s μ k a i j * s.n j) = -(1 / (2 * pi * I)) * (kLb s μ k a * (μ a).L i) := by
  have h := hL i
  simp only [stressCoef, Setup.nm, Setup.nn, contract, mpn, sum3, Nat.cast_ofNat, Nat.cast_one] at h ⊢
  simp only [hC 0 i, hC 1 i, hC 2 i] at h
  linear_combination ((1 / (2 * pi * I)) * kLb s μ k a) * h

/-- **the energy-coefficient tensor is the traction coefficient of the slip plane**: at a point of the slip plane at
    distance `X` ahead of the line (`ηₐ = X` for every mode) the coded stress gives the traction
    `σ·n = K·b / (2πX)`, with `K` the coded `K_tensor` — so `½ b·σ·n` integrated along the cut is
    `b·K·b/(4π) · ln(R/r₀)`, the pre-logarithmic energy factor `preln`. -/
theorem K_is_traction (pi I : F) (hpi : pi ≠ 0) (hI : I * I = -1) (s : Setup F) (μ : Fin 6 → Mode F) (k : Fin 6 → F)
    (hC : ∀ i j k l, s.C i j k l = s.C j i k l)
    (hL : ∀ a i, (μ a).L i = -(sum3 fun j => (s.nm i j + (μ a).p * s.nn i j) * (μ a).A j))
    (x : Vec F) (X : F) (hX : X ≠ 0) (hx : ∀ a, eta s (μ a) x = X) (i : Fin 3) :
    (sum3 fun j => stressAt pi I s μ k x i j * s.n j) = matVec (kTensor I μ k) s.b i / (2 * pi * X) := by
  have hI0 : I ≠ 0 := by intro h; rw [h] at hI; simp at hI
  have hc : -(1 / (2 * pi * I)) = I / (2 * pi) := by
    field_simp
    linear_combination (-1 : F) * hI
  have t := fun a => traction_coef pi I s μ k hC a (hL a) i
  have t0 := t 0; have t1 := t 1; have t2 := t 2; have t3 := t 3; have t4 := t 4; have t5 := t 5
  rw [hc] at t0 t1 t2 t3 t4 t5
  have e : matVec (kTensor I μ k) s.b i
      = I * (kLb s μ k 0 * (μ 0).L i + kLb s μ k 1 * (μ 1).L i + kLb s μ k 2 * (μ 2).L i + kLb s μ k 3 * (μ 3).L i
          + kLb s μ k 4 * (μ 4).L i + kLb s μ k 5 * (μ 5).L i) := by
    simp only [matVec, kTensor, kLb, dot, sum3, sum6]; ring
  rw [e]
  simp only [stressAt, hx, sum3, sum6, Nat.cast_one] at *
  linear_combination (1 / X) * (t0 + t1 + t2 + t3 + t4 + t5)

/-- the same for the isotropic closed form, in the local frame: on the slip plane (`y = 0`) at distance `x` the
    generated stress gives the traction `(K_e b_e, 0, K_s b_s) / (2πx)` with the generated `K_e`, `K_s`. -/
theorem iso_K_is_traction {K : Type} [Field K] [CharZero K] (x nu mu b_e b_s pi : K) (hx : x ≠ 0) (hpi : pi ≠ 0)
    (h1 : 1 - nu ≠ 0) :
    isoStress x 0 nu mu b_e b_s pi 0 1 = isoKe mu nu * b_e / (2 * pi * x)
    ∧ isoStress x 0 nu mu b_e b_s pi 1 1 = 0
    ∧ isoStress x 0 nu mu b_e b_s pi 2 1 = isoKs mu nu * b_s / (2 * pi * x) := by
  refine ⟨?_, ?_, ?_⟩
  · simp [isoStress, isoStress_0_1, isoKe]; field_simp
  · simp [isoStress, isoStress_1_1]
  · simp [isoStress, isoStress_2_1, isoKs]; field_simp

/-! ### covariance: rotating the whole problem rotates every result

  `R` is any matrix with `RᵀR = 1` (`Orth R`); the rotated problem is `rotSetup R s` (stiffness
  `C'_ijkl = R_ig R_jh R_km R_ln C_ghmn` exactly as `ElasticConstants.transform` computes it, `m' = Rm`, `n' = Rn`,
  `b' = Rb`), the eigen-solver output of the rotated problem is `rotMode R μₐ` (same `pₐ`, rotated `Aₐ`, `Lₐ`). -/
section covariance
variable {R : Mat F}

/-- the eigen equation is covariant: the residual `N'v' − p v'` of the rotated problem is the rotated residual, so
    `(p, RA, RL)` is an eigen-pair of the rotated `N` whenever `(p, A, L)` is one of `N`
    (`nnInv' = R nnInv Rᵀ`; see `inverse_covariant`). -/
theorem eigen_covariant (h : Orth R) (s : Setup F) (nnInv : Mat F) (μ : Mode F) :
    (∀ i, eigResTop (rotSetup R s) (rotMat R nnInv) (rotMode R μ) i = rotVec R (eigResTop s nnInv μ) i)
    ∧ (∀ i, eigResBot (rotSetup R s) (rotMat R nnInv) (rotMode R μ) i = rotVec R (eigResBot s nnInv μ) i)
    ∧ ((∀ i, eigResTop s nnInv μ i = 0) → (∀ i, eigResBot s nnInv μ i = 0) →
        (∀ i, eigResTop (rotSetup R s) (rotMat R nnInv) (rotMode R μ) i = 0)
        ∧ ∀ i, eigResBot (rotSetup R s) (rotMat R nnInv) (rotMode R μ) i = 0) := by
  refine ⟨eigResTop_rot h s nnInv μ, eigResBot_rot h s nnInv μ, fun ht hb => ⟨fun i => ?_, fun i => ?_⟩⟩
  · rw [eigResTop_rot h s nnInv μ i]; simp only [rotVec, matVec, sum3, ht]; ring
  · rw [eigResBot_rot h s nnInv μ i]; simp only [rotVec, matVec, sum3, hb]; ring

/-- `(R nn Rᵀ)(R nnInv Rᵀ) = 1`; this is the one place where `R Rᵀ = 1` is needed besides `RᵀR = 1`. -/
theorem inverse_covariant (h : Orth R) (h' : ∀ i j, (sum3 fun g => R i g * R j g) = kron i j)
    (s : Setup F) (nnInv : Mat F) (hinv : ∀ i j, matMul s.nn nnInv i j = kron i j) (i j : Fin 3) :
    matMul (rotSetup R s).nn (rotMat R nnInv) i j = kron i j := by
  obtain ⟨h00, h11, h22, h01, h02, h12⟩ := orth_entries h
  have e : matMul (rotSetup R s).nn (rotMat R nnInv) i j = rotMat R (matMul s.nn nnInv) i j := by
    simp only [matMul, nn_rot h s, rotMat, sum3]
    linear_combination
      (R i 0 * R j 0 * (s.nn 0 0 * nnInv 0 0) + R i 0 * R j 1 * (s.nn 0 0 * nnInv 0 1) + R i 0 * R j 2 * (s.nn 0 0 * nnInv 0 2)
        + R i 1 * R j 0 * (s.nn 1 0 * nnInv 0 0) + R i 1 * R j 1 * (s.nn 1 0 * nnInv 0 1) + R i 1 * R j 2 * (s.nn 1 0 * nnInv 0 2)
        + R i 2 * R j 0 * (s.nn 2 0 * nnInv 0 0) + R i 2 * R j 1 * (s.nn 2 0 * nnInv 0 1) + R i 2 * R j 2 * (s.nn 2 0 * nnInv 0 2)) * h00
      + (R i 0 * R j 0 * (s.nn 0 1 * nnInv 1 0) + R i 0 * R j 1 * (s.nn 0 1 * nnInv 1 1) + R i 0 * R j 2 * (s.nn 0 1 * nnInv 1 2)
        + R i 1 * R j 0 * (s.nn 1 1 * nnInv 1 0) + R i 1 * R j 1 * (s.nn 1 1 * nnInv 1 1) + R i 1 * R j 2 * (s.nn 1 1 * nnInv 1 2)
        + R i 2 * R j 0 * (s.nn 2 1 * nnInv 1 0) + R i 2 * R j 1 * (s.nn 2 1 * nnInv 1 1) + R i 2 * R j 2 * (s.nn 2 1 * nnInv 1 2)) * h11
      + (R i 0 * R j 0 * (s.nn 0 2 * nnInv 2 0) + R i 0 * R j 1 * (s.nn 0 2 * nnInv 2 1) + R i 0 * R j 2 * (s.nn 0 2 * nnInv 2 2)
        + R i 1 * R j 0 * (s.nn 1 2 * nnInv 2 0) + R i 1 * R j 1 * (s.nn 1 2 * nnInv 2 1) + R i 1 * R j 2 * (s.nn 1 2 * nnInv 2 2)
        + R i 2 * R j 0 * (s.nn 2 2 * nnInv 2 0) + R i 2 * R j 1 * (s.nn 2 2 * nnInv 2 1) + R i 2 * R j 2 * (s.nn 2 2 * nnInv 2 2)) * h22
      + (R i 0 * R j 0 * (s.nn 0 0 * nnInv 1 0 + s.nn 0 1 * nnInv 0 0) + R i 0 * R j 1 * (s.nn 0 0 * nnInv 1 1 + s.nn 0 1 * nnInv 0 1)
        + R i 0 * R j 2 * (s.nn 0 0 * nnInv 1 2 + s.nn 0 1 * nnInv 0 2)
        + R i 1 * R j 0 * (s.nn 1 0 * nnInv 1 0 + s.nn 1 1 * nnInv 0 0) + R i 1 * R j 1 * (s.nn 1 0 * nnInv 1 1 + s.nn 1 1 * nnInv 0 1)
        + R i 1 * R j 2 * (s.nn 1 0 * nnInv 1 2 + s.nn 1 1 * nnInv 0 2)
        + R i 2 * R j 0 * (s.nn 2 0 * nnInv 1 0 + s.nn 2 1 * nnInv 0 0) + R i 2 * R j 1 * (s.nn 2 0 * nnInv 1 1 + s.nn 2 1 * nnInv 0 1)
        + R i 2 * R j 2 * (s.nn 2 0 * nnInv 1 2 + s.nn 2 1 * nnInv 0 2)) * h01
      + (R i 0 * R j 0 * (s.nn 0 0 * nnInv 2 0 + s.nn 0 2 * nnInv 0 0) + R i 0 * R j 1 * (s.nn 0 0 * nnInv 2 1 + s.nn 0 2 * nnInv 0 1)
        + R i 0 * R j 2 * (s.nn 0 0 * nnInv 2 2 + s.nn 0 2 * nnInv 0 2)
        + R i 1 * R j 0 * (s.nn 1 0 * nnInv 2 0 + s.nn 1 2 * nnInv 0 0) + R i 1 * R j 1 * (s.nn 1 0 * nnInv 2 1 + s.nn 1 2 * nnInv 0 1)
        + R i 1 * R j 2 * (s.nn 1 0 * nnInv 2 2 + s.nn 1 2 * nnInv 0 2)
        + R i 2 * R j 0 * (s.nn 2 0 * nnInv 2 0 + s.nn 2 2 * nnInv 0 0) + R i 2 * R j 1 * (s.nn 2 0 * nnInv 2 1 + s.nn 2 2 * nnInv 0 1)
        + R i 2 * R j 2 * (s.nn 2 0 * nnInv 2 2 + s.nn 2 2 * nnInv 0 2)) * h02
      + (R i 0 * R j 0 * (s.nn 0 1 * nnInv 2 0 + s.nn 0 2 * nnInv 1 0) + R i 0 * R j 1 * (s.nn 0 1 * nnInv 2 1 + s.nn 0 2 * nnInv 1 1)
        + R i 0 * R j 2 * (s.nn 0 1 * nnInv 2 2 + s.nn 0 2 * nnInv 1 2)
        + R i 1 * R j 0 * (s.nn 1 1 * nnInv 2 0 + s.nn 1 2 * nnInv 1 0) + R i 1 * R j 1 * (s.nn 1 1 * nnInv 2 1 + s.nn 1 2 * nnInv 1 1)
        + R i 1 * R j 2 * (s.nn 1 1 * nnInv 2 2 + s.nn 1 2 * nnInv 1 2)
        + R i 2 * R j 0 * (s.nn 2 1 * nnInv 2 0 + s.nn 2 2 * nnInv 1 0) + R i 2 * R j 1 * (s.nn 2 1 * nnInv 2 1 + s.nn 2 2 * nnInv 1 1)
        + R i 2 * R j 2 * (s.nn 2 1 * nnInv 2 2 + s.nn 2 2 * nnInv 1 2)) * h12
  rw [e]
  have := h' i j
  simp only [rotMat, sum3, hinv] at this ⊢
  simp only [kron] at this ⊢
  simpa using this

/-- the fields are covariant: at the rotated point the displacement is the rotated vector, strain and stress the
    rotated tensors (`ln ηₐ` and `1/ηₐ` are invariant because `ηₐ` is, `eta_rot`). -/
theorem fields_covariant (h : Orth R) (pi I : F) (s : Setup F) (μ : Fin 6 → Mode F) (k : Fin 6 → F) (x : Vec F) :
    (∀ a, eta (rotSetup R s) (rotMode R (μ a)) (rotVec R x) = eta s (μ a) x)
    ∧ (∀ lnη i, dispAt pi I (rotSetup R s) (fun a => rotMode R (μ a)) k lnη i = rotVec R (dispAt pi I s μ k lnη) i)
    ∧ (∀ i j, strainAt pi I (rotSetup R s) (fun a => rotMode R (μ a)) k (rotVec R x) i j
          = rotMat R (strainAt pi I s μ k x) i j)
    ∧ (∀ i j, stressAt pi I (rotSetup R s) (fun a => rotMode R (μ a)) k (rotVec R x) i j
          = rotMat R (stressAt pi I s μ k x) i j)
    ∧ ∀ i, dispJump pi I (rotSetup R s) (fun a => rotMode R (μ a)) k i = rotVec R (dispJump pi I s μ k) i := by
  have hd : ∀ lnη i, dispAt pi I (rotSetup R s) (fun a => rotMode R (μ a)) k lnη i
      = rotVec R (dispAt pi I s μ k lnη) i := by
    intro lnη i
    simp only [dispAt, dispCoef_rot h]
    simp only [rotVec, matVec, sum3, sum6, dispAt]
    ring
  refine ⟨fun a => eta_rot h s (μ a) x, hd, ?_, ?_, fun i => hd _ i⟩
  · intro i j
    simp only [strainAt, strainCoef_rot h, eta_rot h]
    simp only [rotMat, sum3, sum6, strainAt]
    ring
  · intro i j
    simp only [stressAt, stressCoef_rot h, eta_rot h]
    simp only [rotMat, sum3, sum6, stressAt]
    ring

/-- the energy coefficients are covariant: `K' = R K Rᵀ`, the normalisation factors `kₐ` do not change, and the
    scalars `K_coeff`, `preln` of any tensor rotated together with the Burgers vector are invariant. -/
theorem K_covariant (h : Orth R) (I : F) (μ : Fin 6 → Mode F) (k : Fin 6 → F) :
    (∀ i j, kTensor I (fun a => rotMode R (μ a)) k i j = rotMat R (kTensor I μ k) i j)
    ∧ (∀ a, kOf (rotMode R (μ a)) = kOf (μ a))
    ∧ (∀ (K : Mat F) (b : Vec F), kCoeff (rotMat R K) (rotVec R b) = kCoeff K b)
    ∧ ∀ (pi : F) (K : Mat F) (b : Vec F), preln pi (rotMat R K) (rotVec R b) = preln pi K b := by
  have q : ∀ (K : Mat F) (b : Vec F), dot (rotVec R b) (matVec (rotMat R K) (rotVec R b)) = dot b (matVec K b) := by
    intro K b
    have e : ∀ i, matVec (rotMat R K) (rotVec R b) i = rotVec R (matVec K b) i :=
      matVec_rot h K _ b _ (fun _ _ => rfl) (fun _ => rfl)
    have : dot (rotVec R b) (matVec (rotMat R K) (rotVec R b)) = dot (rotVec R b) (rotVec R (matVec K b)) := by
      simp only [dot, sum3, e]
    rw [this, dot_rot h]
  refine ⟨kTensor_rot h I μ k, fun a => kOf_rot h (μ a), fun K b => ?_, fun pi K b => ?_⟩
  · simp only [kCoeff, q, dot_rot h]
  · simp only [preln, q]

example : Orth (F := ℚ) (fun i j => if (i, j) = (0, 1) then -1 else if (i, j) = (1, 0) ∨ (i, j) = (2, 2) then 1 else 0) := by
  intro a b; fin_cases a <;> fin_cases b <;> simp [sum3, kron]

end covariance

/-! ### isotropic closed form (definitions generated from the Python source on every run) -/
section iso
variable {K : Type} [Field K] [CharZero K]

/-- Lamé's first parameter from μ, ν -/
def lame (mu nu : K) : K := 2 * mu * nu / (1 - 2 * nu)

/-- the generated isotropic stress is Hooke's law `2μ ε + λ tr ε · 1` applied to the generated strain. -/
theorem iso_stress_is_hooke (x y nu mu b_e b_s pi : K)
    (hr : x * x + y * y ≠ 0) (hpi : pi ≠ 0) (h1 : 1 - nu ≠ 0) (h2 : 1 + nu ≠ 0) (h3 : 1 - 2 * nu ≠ 0)
    (i j : Fin 3) :
    isoStress x y nu mu b_e b_s pi i j
      = 2 * mu * isoStrain x y nu b_e b_s pi i j
        + lame mu nu * (isoStrain x y nu b_e b_s pi 0 0 + isoStrain x y nu b_e b_s pi 1 1
                        + isoStrain x y nu b_e b_s pi 2 2) * kron i j := by
  have h4 : 1 - nu * nu ≠ 0 := by
    have : 1 - nu * nu = (1 - nu) * (1 + nu) := by ring
    rw [this]; exact mul_ne_zero h1 h2
  have hr' : x ^ 2 + y ^ 2 ≠ 0 := by simpa [pow_two] using hr
  have h4' : 1 - nu ^ 2 ≠ 0 := by simpa [pow_two] using h4
  have h3' : 1 - nu * 2 ≠ 0 := by rwa [mul_comm] at h3
  fin_cases i <;> fin_cases j <;>
    simp [isoStress, isoStrain, isoStress_0_0, isoStress_0_1, isoStress_0_2, isoStress_1_0, isoStress_1_1,
      isoStress_1_2, isoStress_2_0, isoStress_2_1, isoStress_2_2, isoStrain_0_0, isoStrain_0_1, isoStrain_0_2,
      isoStrain_1_0, isoStrain_1_1, isoStrain_1_2, isoStrain_2_0, isoStrain_2_1, isoStrain_2_2, kron, lame] <;>
    field_simp <;> ring

end iso

/-! ### independence of the eigen-solver's normalisation -/
section scale
variable {F : Type} [Field F] [CharZero F]

/-- a mode with its eigenvector rescaled (`numpy.linalg.eig` fixes the scale only by convention). -/
def scaleMode (c : F) (μ : Mode F) : Mode F := ⟨μ.p, fun i => c * μ.A i, fun i => c * μ.L i⟩

theorem kOf_scale (c : F) (hc : c ≠ 0) (μ : Mode F) (hAL : dot μ.A μ.L ≠ 0) :
    kOf (scaleMode c μ) = kOf μ / (c * c) := by
  simp only [kOf, scaleMode, dot, sum3, Nat.cast_ofNat, Nat.cast_one] at *
  field_simp

/-- the field coefficients and the summands of `K_tensor` do not depend on the scale of the eigenvectors
    (with `k` computed from them as the code does). -/
theorem scale_invariant (pi I : F) (s : Setup F) (μ : Fin 6 → Mode F) (c : Fin 6 → F) (hc : ∀ a, c a ≠ 0)
    (hAL : ∀ a, dot (μ a).A (μ a).L ≠ 0) (a : Fin 6) :
    (∀ i, dispCoef pi I s (fun a => scaleMode (c a) (μ a)) (fun a => kOf (scaleMode (c a) (μ a))) a i
        = dispCoef pi I s μ (fun a => kOf (μ a)) a i)
    ∧ (∀ i j, strainCoef pi I s (fun a => scaleMode (c a) (μ a)) (fun a => kOf (scaleMode (c a) (μ a))) a i j
        = strainCoef pi I s μ (fun a => kOf (μ a)) a i j)
    ∧ (∀ i j, stressCoef pi I s (fun a => scaleMode (c a) (μ a)) (fun a => kOf (scaleMode (c a) (μ a))) a i j
        = stressCoef pi I s μ (fun a => kOf (μ a)) a i j)
    ∧ ∀ i j, kOf (scaleMode (c a) (μ a)) * (scaleMode (c a) (μ a)).L i * (scaleMode (c a) (μ a)).L j
        = kOf (μ a) * (μ a).L i * (μ a).L j := by
  have hk := kOf_scale (c a) (hc a) (μ a) (hAL a)
  have hca := hc a
  refine ⟨fun i => ?_, fun i j => ?_, fun i j => ?_, fun i j => ?_⟩
  · simp only [dispCoef, kLb, hk]
    simp only [scaleMode, dot, sum3, mpn]
    field_simp
  · simp only [strainCoef, kLb, hk]
    simp only [scaleMode, dot, sum3, mpn]
    field_simp
  · simp only [stressCoef, kLb, hk]
    simp only [scaleMode, dot, sum3, mpn]
    field_simp
  · rw [hk]; simp only [scaleMode]; field_simp
end scale

section order
variable {F : Type} [Field F] [CharZero F]

theorem sum6_eq_finset (f : Fin 6 → F) : sum6 f = ∑ a, f a := by
  simp only [sum6, Fin.sum_univ_six]

theorem sum6_perm (σ : Equiv.Perm (Fin 6)) (f : Fin 6 → F) : (sum6 fun a => f (σ a)) = sum6 f := by
  rw [sum6_eq_finset, sum6_eq_finset]
  exact Equiv.sum_comp σ f

theorem updn_perm (σ : Equiv.Perm (Fin 6)) (hσ : ∀ a, (σ a).val % 2 = a.val % 2) (a : Fin 6) :
    (updn (σ a) : F) = updn a := by
  simp only [updn, hσ a]

/-- **independence of the order of the eigen-solver output**: listing the three conjugate pairs in another order
    (any permutation of the six modes that keeps even positions even, i.e. keeps the `+` member of each pair on a
    `+` slot of `updn`) changes neither the fields nor `K_tensor`. -/
theorem pair_order_invariant (σ : Equiv.Perm (Fin 6)) (hσ : ∀ a, (σ a).val % 2 = a.val % 2)
    (pi I : F) (s : Setup F) (μ : Fin 6 → Mode F) (k lnη : Fin 6 → F) (x : Vec F) :
    (∀ i, dispAt pi I s (fun a => μ (σ a)) (fun a => k (σ a)) (fun a => lnη (σ a)) i = dispAt pi I s μ k lnη i)
    ∧ (∀ i j, strainAt pi I s (fun a => μ (σ a)) (fun a => k (σ a)) x i j = strainAt pi I s μ k x i j)
    ∧ (∀ i j, stressAt pi I s (fun a => μ (σ a)) (fun a => k (σ a)) x i j = stressAt pi I s μ k x i j)
    ∧ ∀ i j, kTensor I (fun a => μ (σ a)) (fun a => k (σ a)) i j = kTensor I μ k i j := by
  have hu := updn_perm (F := F) σ hσ
  refine ⟨fun i => ?_, fun i j => ?_, fun i j => ?_, fun i j => ?_⟩
  · have := sum6_perm σ (fun b => dispCoef pi I s μ k b i * lnη b)
    simp only [dispAt]
    rw [← this]
    simp only [dispCoef, kLb, hu]
  · have := sum6_perm σ (fun b => strainCoef pi I s μ k b i j * (((1 : ℕ) : F) / eta s (μ b) x))
    simp only [strainAt]
    rw [← this]
    simp only [strainCoef, kLb, hu]
  · have := sum6_perm σ (fun b => stressCoef pi I s μ k b i j * (((1 : ℕ) : F) / eta s (μ b) x))
    simp only [stressAt]
    rw [← this]
    simp only [stressCoef, kLb, hu]
  · have := sum6_perm σ (fun b => updn b * k b * (μ b).L i * (μ b).L j)
    simp only [kTensor]
    rw [← this]
    simp only [hu]

/-- the swap of the first two pairs `(0 1 2 3 4 5) ↦ (2 3 0 1 4 5)` satisfies the hypothesis. -/
example : ∀ a : Fin 6, (((Equiv.swap (0 : Fin 6) 2).trans (Equiv.swap 1 3)) a).val % 2 = a.val % 2 := by decide
end order

/-! ### isotropic closed form, continued: symmetry, 1/r, Burgers closure, energy-coefficient tensor -/
section iso2
variable {K : Type} [Field K] [CharZero K]

/-- the generated local strain and stress tensors are symmetric. -/
theorem iso_symmetric (x y nu mu b_e b_s pi : K) (i j : Fin 3) :
    isoStrain x y nu b_e b_s pi i j = isoStrain x y nu b_e b_s pi j i
    ∧ isoStress x y nu mu b_e b_s pi i j = isoStress x y nu mu b_e b_s pi j i := by
  fin_cases i <;> fin_cases j <;>
    simp [isoStress, isoStrain, isoStress_0_0, isoStress_0_1, isoStress_0_2, isoStress_1_0, isoStress_1_1,
      isoStress_1_2, isoStress_2_0, isoStress_2_1, isoStress_2_2, isoStrain_0_0, isoStrain_0_1, isoStrain_0_2,
      isoStrain_1_0, isoStrain_1_1, isoStrain_1_2, isoStrain_2_0, isoStrain_2_1, isoStrain_2_2]

/-- isotropic strain and stress are homogeneous of degree −1 in the in-plane position. -/
theorem iso_falls_as_inv_r (x y nu mu b_e b_s pi t : K) (ht : t ≠ 0) (hr : x * x + y * y ≠ 0) (i j : Fin 3) :
    isoStrain (t * x) (t * y) nu b_e b_s pi i j = isoStrain x y nu b_e b_s pi i j / t
    ∧ isoStress (t * x) (t * y) nu mu b_e b_s pi i j = isoStress x y nu mu b_e b_s pi i j / t := by
  have hr' : x ^ 2 + y ^ 2 ≠ 0 := by simpa [pow_two] using hr
  have e : (t * x) * (t * x) + (t * y) * (t * y) = t * t * (x * x + y * y) := by ring
  constructor <;> fin_cases i <;> fin_cases j <;>
    simp [isoStress, isoStrain, isoStress_0_0, isoStress_0_1, isoStress_0_2, isoStress_1_0, isoStress_1_1,
      isoStress_1_2, isoStress_2_0, isoStress_2_1, isoStress_2_2, isoStrain_0_0, isoStrain_0_1, isoStrain_0_2,
      isoStrain_1_0, isoStrain_1_1, isoStrain_1_2, isoStrain_2_0, isoStrain_2_1, isoStrain_2_2, e] <;>
    (try field_simp)

/-- the isotropic closed form in other units: in-plane coordinates and Burgers components times `t` (another length unit), shear
    modulus times `c` (another stiffness unit): strain unchanged, stress and the energy coefficients times `c`. -/
theorem iso_unit_covariant (x y nu mu b_e b_s pi t c : K) (ht : t ≠ 0) (hr : x * x + y * y ≠ 0) (i j : Fin 3) :
    isoStrain (t * x) (t * y) nu (t * b_e) (t * b_s) pi i j = isoStrain x y nu b_e b_s pi i j
    ∧ isoStress (t * x) (t * y) nu (c * mu) (t * b_e) (t * b_s) pi i j = c * isoStress x y nu mu b_e b_s pi i j
    ∧ isoKe (c * mu) nu = c * isoKe mu nu ∧ isoKs (c * mu) nu = c * isoKs mu nu := by
  have hr' : x ^ 2 + y ^ 2 ≠ 0 := by simpa [pow_two] using hr
  have e : (t * x) * (t * x) + (t * y) * (t * y) = t * t * (x * x + y * y) := by ring
  refine ⟨?_, ?_, ?_, ?_⟩
  · fin_cases i <;> fin_cases j <;>
      simp [isoStrain, isoStrain_0_0, isoStrain_0_1, isoStrain_0_2,
        isoStrain_1_0, isoStrain_1_1, isoStrain_1_2, isoStrain_2_0, isoStrain_2_1, isoStrain_2_2, e] <;>
      (try field_simp)
  · fin_cases i <;> fin_cases j <;>
      simp [isoStress, isoStress_0_0, isoStress_0_1, isoStress_0_2, isoStress_1_0, isoStress_1_1,
        isoStress_1_2, isoStress_2_0, isoStress_2_1, isoStress_2_2, e] <;>
      (try field_simp)
  · simp only [isoKe, Nat.cast_ofNat, Nat.cast_one]; ring
  · simp only [isoKs]

/-- isotropic displacement in another length unit: with `log(t²r²) = log r² + λ` at both points (the same `λ = 2 ln t`),
    the three frame components of `u(t x₁) − u(t x₂)` for the Burgers vector `t b` are `t` times those of `u(x₁) − u(x₂)`. -/
theorem iso_length_unit_displacement (log : K → K) (x1 y1 x2 y2 th1 th2 nu b_e b_s pi t lam : K) (ht : t ≠ 0)
    (h1 : x1 * x1 + y1 * y1 ≠ 0) (h2 : x2 * x2 + y2 * y2 ≠ 0) (hnu : 1 - nu ≠ 0) (hpi : pi ≠ 0)
    (hl1 : log (t * x1 * (t * x1) + t * y1 * (t * y1)) = log (x1 * x1 + y1 * y1) + lam)
    (hl2 : log (t * x2 * (t * x2) + t * y2 * (t * y2)) = log (x2 * x2 + y2 * y2) + lam) :
    isoDisp_m log (t * x1) (t * y1) nu (t * b_e) (t * b_s) pi th1 - isoDisp_m log (t * x2) (t * y2) nu (t * b_e) (t * b_s) pi th2
        = t * (isoDisp_m log x1 y1 nu b_e b_s pi th1 - isoDisp_m log x2 y2 nu b_e b_s pi th2)
    ∧ isoDisp_n log (t * x1) (t * y1) nu (t * b_e) (t * b_s) pi th1 - isoDisp_n log (t * x2) (t * y2) nu (t * b_e) (t * b_s) pi th2
        = t * (isoDisp_n log x1 y1 nu b_e b_s pi th1 - isoDisp_n log x2 y2 nu b_e b_s pi th2)
    ∧ isoDisp_ξ log (t * x1) (t * y1) nu (t * b_e) (t * b_s) pi th1 - isoDisp_ξ log (t * x2) (t * y2) nu (t * b_e) (t * b_s) pi th2
        = t * (isoDisp_ξ log x1 y1 nu b_e b_s pi th1 - isoDisp_ξ log x2 y2 nu b_e b_s pi th2) := by
  have e1 : t * x1 * (t * x1) + t * y1 * (t * y1) = t * t * (x1 * x1 + y1 * y1) := by ring
  have e2 : t * x2 * (t * x2) + t * y2 * (t * y2) = t * t * (x2 * x2 + y2 * y2) := by ring
  refine ⟨?_, ?_, ?_⟩
  · simp only [isoDisp_m, Nat.cast_ofNat, Nat.cast_one, e1, e2]
    field_simp
  · simp only [isoDisp_n, Nat.cast_ofNat, Nat.cast_one, hl1, hl2]
    simp only [e1, e2]
    field_simp
    ring
  · simp only [isoDisp_ξ, Nat.cast_ofNat, Nat.cast_one]
    ring
end iso2

section iso3
variable {K : Type} [Field K] [CharZero K]

/-- **isotropic Burgers closure**: when `theta` goes once around the line (`θ ↦ θ + 2π`, everything else
    single-valued) the coded displacement changes by exactly `b`, for an orthonormal frame and a Burgers vector in
    the slip plane (`b·n = 0`, the case the isotropic solver is for). -/
theorem iso_burgers_jump (log : K → K) (pi θ : K) (s : IsoSetup K) (pos : Vec K) (hpi : pi ≠ 0)
    (hm : dot s.m s.m = 1) (hn : dot s.n s.n = 1) (hmn : dot s.m s.n = 0) (hb : dot s.b s.n = 0) (c : Fin 3) :
    isoDisplacement log pi (θ + 2 * pi) s pos c - isoDisplacement log pi θ s pos c = s.b c := by
  have fr := frame_resolution s.m s.n s.b hm hn hmn c
  rw [hb] at fr
  have e : isoDisplacement log pi (θ + 2 * pi) s pos c - isoDisplacement log pi θ s pos c
      = dot s.b s.m * s.m c + dot s.b (cross s.m s.n) * cross s.m s.n c := by
    simp only [isoDisplacement, isoDispLab, isoDisp_m, isoDisp_n, isoDisp_ξ, IsoSetup.be, IsoSetup.bs, IsoSetup.ξ,
      Nat.cast_ofNat, Nat.cast_one]
    field_simp
    ring
  rw [e, fr]; ring

/-- without the in-plane restriction the jump is the in-plane part of `b`: the component along `n` is ignored
    by the isotropic solver. -/
theorem iso_jump_general (log : K → K) (pi θ : K) (s : IsoSetup K) (pos : Vec K) (hpi : pi ≠ 0) (c : Fin 3) :
    isoDisplacement log pi (θ + 2 * pi) s pos c - isoDisplacement log pi θ s pos c
      = s.be * s.m c + s.bs * s.ξ c := by
  simp only [isoDisplacement, isoDispLab, isoDisp_m, isoDisp_n, isoDisp_ξ, Nat.cast_ofNat, Nat.cast_one]
  field_simp
  ring
end iso3

section isoK
variable {K : Type} [Field K] [LinearOrder K] [IsStrictOrderedRing K]

theorem iso_K_symm (s : IsoSetup K) (a b : Fin 3) : isoKTensor s a b = isoKTensor s b a := by
  simp only [isoKTensor]; ring

/-- the isotropic energy-coefficient tensor is positive-definite for `μ > 0`, `ν < 1` and an orthonormal frame. -/
theorem iso_K_posdef (s : IsoSetup K) (hmu : 0 < s.mu) (hnu : s.nu < 1)
    (hm : dot s.m s.m = 1) (hn : dot s.n s.n = 1) (hmn : dot s.m s.n = 0) (v : Vec K) (hv : ∃ i, v i ≠ 0) :
    0 < dot v (matVec (isoKTensor s) v) := by
  have hke : 0 < isoKe s.mu s.nu := by
    simp only [isoKe, Nat.cast_one]; exact div_pos hmu (by linarith)
  have hks : 0 < isoKs s.mu s.nu := by simpa [isoKs] using hmu
  set a := dot v s.m with ha
  set b := dot v s.n with hb
  set c := dot v (cross s.m s.n) with hc
  have hvv : dot v v = a * a + b * b + c * c := by
    have f0 := frame_resolution s.m s.n v hm hn hmn 0
    have f1 := frame_resolution s.m s.n v hm hn hmn 1
    have f2 := frame_resolution s.m s.n v hm hn hmn 2
    rw [← ha, ← hb, ← hc] at f0 f1 f2
    have : dot v v = v 0 * v 0 + v 1 * v 1 + v 2 * v 2 := by simp only [dot, sum3]
    rw [this]
    have ea : a = v 0 * s.m 0 + v 1 * s.m 1 + v 2 * s.m 2 := by simp only [ha, dot, sum3]
    have eb : b = v 0 * s.n 0 + v 1 * s.n 1 + v 2 * s.n 2 := by simp only [hb, dot, sum3]
    have ec : c = v 0 * cross s.m s.n 0 + v 1 * cross s.m s.n 1 + v 2 * cross s.m s.n 2 := by simp only [hc, dot, sum3]
    linear_combination v 0 * f0 + v 1 * f1 + v 2 * f2 - a * ea - b * eb - c * ec
  have hpos : 0 < dot v v := by
    obtain ⟨i, hi⟩ := hv
    have key : ∀ i, v i * v i ≤ dot v v := by
      intro i
      simp only [dot, sum3]
      fin_cases i <;> simp <;> nlinarith [mul_self_nonneg (v 0), mul_self_nonneg (v 1), mul_self_nonneg (v 2)]
    exact lt_of_lt_of_le (mul_self_pos.2 hi) (key i)
  have e : dot v (matVec (isoKTensor s) v)
      = isoKe s.mu s.nu * (a * a) + isoKe s.mu s.nu * (b * b) + isoKs s.mu s.nu * (c * c) := by
    simp only [ha, hb, hc, dot, matVec, isoKTensor, sum3, IsoSetup.ξ]; ring
  rw [e]
  rw [hvv] at hpos
  set k0 := min (isoKe s.mu s.nu) (isoKs s.mu s.nu) with hk0
  have h1 : k0 ≤ isoKe s.mu s.nu := min_le_left _ _
  have h2 : k0 ≤ isoKs s.mu s.nu := min_le_right _ _
  have hk0pos : 0 < k0 := lt_min hke hks
  have := mul_pos hk0pos hpos
  nlinarith [mul_nonneg (sub_nonneg.2 h1) (mul_self_nonneg a), mul_nonneg (sub_nonneg.2 h1) (mul_self_nonneg b),
    mul_nonneg (sub_nonneg.2 h2) (mul_self_nonneg c)]
end isoK

/-! ### the entry point `solve_volterra_dislocation` and the in-plane refusal of the isotropic solver -/
section dispatchThms
variable {K : Type} [Field K] [LinearOrder K] [IsStrictOrderedRing K]

theorem absF_eq_abs (v : K) : absF v = |v| := by
  unfold absF; split_ifs with h
  · exact (abs_of_neg h).symm
  · exact (abs_of_nonneg (not_lt.1 h)).symm

/-- what the coded in-plane test of `IsotropicVolterraDislocation.solve` guarantees when it does not raise. -/
theorem isoInPlaneOk_bound (tol : K) (b n : Vec K) (h : isoInPlaneOk tol b n = true) :
    |dot b n| ≤ tol * maxAbs3 b := by
  simp only [isoInPlaneOk, Bool.not_eq_true', decide_eq_false_iff_not, not_lt, absF_eq_abs] at h
  exact h

/-- **jump of an accepted isotropic solution**: for every Burgers vector the isotropic solver *accepts* (the coded
    test `|b·n| ≤ tol·max|bᵢ|`, orthonormal frame) the coded displacement changes by `b` up to `tol·max|bᵢ|·|n_c|` per
    component when `theta` goes once around the line; with `b·n = 0` exactly it is `b` (`iso_burgers_jump`).  Before
    repo fix 9765d33 nothing was refused and the deviation was the whole component `(b·n) n` (`iso_jump_general`). -/
theorem iso_accept_jump (log : K → K) (pi θ tol : K) (s : IsoSetup K) (pos : Vec K) (hpi : pi ≠ 0)
    (hm : dot s.m s.m = 1) (hn : dot s.n s.n = 1) (hmn : dot s.m s.n = 0)
    (hacc : isoInPlaneOk tol s.b s.n = true) (c : Fin 3) :
    |isoDisplacement log pi (θ + 2 * pi) s pos c - isoDisplacement log pi θ s pos c - s.b c|
      ≤ tol * maxAbs3 s.b * |s.n c| := by
  have fr := frame_resolution s.m s.n s.b hm hn hmn c
  have j := iso_jump_general log pi θ s pos hpi c
  have e : isoDisplacement log pi (θ + 2 * pi) s pos c - isoDisplacement log pi θ s pos c - s.b c
      = -(dot s.b s.n * s.n c) := by
    rw [j]; simp only [IsoSetup.be, IsoSetup.bs, IsoSetup.ξ]; linear_combination -fr
  rw [e, abs_neg, abs_mul]
  exact mul_le_mul_of_nonneg_right (isoInPlaneOk_bound tol s.b s.n hacc) (abs_nonneg _)

/-- the dispatcher hands out the isotropic closed form only for a Burgers vector that passed the in-plane test, so
    whatever `solve_volterra_dislocation` returns as the isotropic solution has the jump bound of `iso_accept_jump`
    (the Stroh branch has jump `= b` by `burgers_closure`). -/
theorem dispatch_iso_jump (log : K → K) (pi θ tol : K) (s : IsoSetup K) (pos : Vec K) (hpi : pi ≠ 0)
    (hm : dot s.m s.m = 1) (hn : dot s.n s.n = 1) (hmn : dot s.m s.n = 0) (sOk isoN : Bool)
    (hd : dispatch sOk isoN (isoInPlaneOk tol s.b s.n) = some Solver.iso) (c : Fin 3) :
    |isoDisplacement log pi (θ + 2 * pi) s pos c - isoDisplacement log pi θ s pos c - s.b c|
      ≤ tol * maxAbs3 s.b * |s.n c| := by
  have h : isoInPlaneOk tol s.b s.n = true := by
    revert hd; cases sOk <;> cases isoN <;> cases isoInPlaneOk tol s.b s.n <;> simp [dispatch, isoAccept]
  exact iso_accept_jump log pi θ tol s pos hpi hm hn hmn h c
end dispatchThms

/-- whenever `Stroh` solves the problem the dispatcher returns the anisotropic solution — however close to isotropic
    the constants are. -/
theorem dispatch_stroh_first (isoN inPl : Bool) : dispatch true isoN inPl = some Solver.stroh := rfl

theorem dispatch_iso_iff (sOk isoN inPl : Bool) :
    dispatch sOk isoN inPl = some Solver.iso ↔ (sOk = false ∧ isoN = true ∧ inPl = true) := by
  cases sOk <;> cases isoN <;> cases inPl <;> simp [dispatch, isoAccept]

theorem dispatch_none_iff (sOk isoN inPl : Bool) :
    dispatch sOk isoN inPl = none ↔ (sOk = false ∧ (isoN = false ∨ inPl = false)) := by
  cases sOk <;> cases isoN <;> cases inPl <;> simp [dispatch, isoAccept]

/-! ### the analytic statements (Mathlib's complex logarithm, arctan, log): derivatives, limits at the cut -/
section analysis
open Complex

/-- **strain = symmetric gradient of the displacement, as a derivative**: off the cuts of the six logarithms
    (`ηₐ(x) ∈ slitPlane`) the coded displacement is differentiable along every coordinate axis, with partial
    derivatives `G i j = ∂ⱼ uᵢ`, and the coded strain is `(G i j + G j i)/2`. -/
theorem strain_is_symgrad_deriv (pi I : ℂ) (s : Setup ℂ) (μ : Fin 6 → Mode ℂ) (k : Fin 6 → ℂ) (x : Vec ℂ)
    (hx : ∀ a, eta s (μ a) x ∈ slitPlane) :
    ∃ G : Mat ℂ,
      (∀ i j, HasDerivAt (fun t : ℂ => dispField pi I s μ k (fun c => x c + t * basisVec j c) i) (G i j) 0)
      ∧ ∀ i j, strainAt pi I s μ k x i j = (G i j + G j i) / 2 := by
  refine ⟨fun i j => sum6 fun a => dispCoef pi I s μ k a i * (mpn s (μ a) j / eta s (μ a) x), ?_, ?_⟩
  · intro i j
    have hl : ∀ a, HasDerivAt (fun t : ℂ => Complex.log (eta s (μ a) (fun c => x c + t * basisVec j c)))
        (mpn s (μ a) j / eta s (μ a) x) 0 := by
      intro a
      have h0 := hasDerivAt_eta s (μ a) x (basisVec j) 0
      have hmem : eta s (μ a) (fun c => x c + (0 : ℂ) * basisVec j c) ∈ slitPlane := by
        simpa using hx a
      have := h0.clog hmem
      simpa [dot_basisVec] using this
    have h6 := hasDerivAt_sum6 (fun a => dispCoef pi I s μ k a i)
      (fun a t => Complex.log (eta s (μ a) (fun c => x c + t * basisVec j c))) _ 0 hl
    unfold dispField dispAt
    exact h6
  · intro i j
    simp only [strainAt, strain_is_symgrad, sum6]
    ring

/-- **div σ = 0 as a derivative**: away from the line (`ηₐ(x) ≠ 0`) the coded stress is differentiable along every
    coordinate axis, `D i j = ∂ⱼ σᵢⱼ`, and `Σⱼ D i j = 0` when every mode solves the sextic equation. -/
theorem stress_div_free_deriv (pi I : ℂ) (s : Setup ℂ) (μ : Fin 6 → Mode ℂ) (k : Fin 6 → ℂ) (x : Vec ℂ)
    (hC : ∀ i j k l, s.C i j k l = s.C j i k l) (hx : ∀ a, eta s (μ a) x ≠ 0)
    (hsext : ∀ a i, matVec (sextic s (μ a).p) (μ a).A i = 0) :
    ∃ D : Mat ℂ,
      (∀ i j, HasDerivAt (fun t : ℂ => stressAt pi I s μ k (fun c => x c + t * basisVec j c) i j) (D i j) 0)
      ∧ ∀ i, (sum3 fun j => D i j) = 0 := by
  refine ⟨fun i j => sum6 fun a => stressCoef pi I s μ k a i j * (-(mpn s (μ a) j) / eta s (μ a) x ^ 2), ?_, ?_⟩
  · intro i j
    have hl : ∀ a, HasDerivAt (fun t : ℂ => ((1 : ℕ) : ℂ) / eta s (μ a) (fun c => x c + t * basisVec j c))
        (-(mpn s (μ a) j) / eta s (μ a) x ^ 2) 0 := by
      intro a
      have h0 := hasDerivAt_eta s (μ a) x (basisVec j) 0
      have hne : eta s (μ a) (fun c => x c + (0 : ℂ) * basisVec j c) ≠ 0 := by simpa using hx a
      have := h0.fun_inv hne
      simpa [dot_basisVec, one_div] using this
    have h6 := hasDerivAt_sum6 (fun a => stressCoef pi I s μ k a i j)
      (fun a t => ((1 : ℕ) : ℂ) / eta s (μ a) (fun c => x c + t * basisVec j c)) _ 0 hl
    unfold stressAt
    exact h6
  · intro i
    have d := fun a => stress_div_free pi I s μ k hC a (hsext a) i
    have d0 := d 0; have d1 := d 1; have d2 := d 2; have d3 := d 3; have d4 := d 4; have d5 := d 5
    simp only [sum3, sum6] at *
    have h0 := hx 0; have h1 := hx 1; have h2 := hx 2; have h3 := hx 3; have h4 := hx 4; have h5 := hx 5
    linear_combination (-1 / eta s (μ 0) x ^ 2) * d0 + (-1 / eta s (μ 1) x ^ 2) * d1 + (-1 / eta s (μ 2) x ^ 2) * d2
      + (-1 / eta s (μ 3) x ^ 2) * d3 + (-1 / eta s (μ 4) x ^ 2) * d4 + (-1 / eta s (μ 5) x ^ 2) * d5

/-- **continuous elsewhere**: the coded displacement is continuous at every point where no `ηₐ` lies on the cut of
    the logarithm. -/
theorem disp_continuous_off_cut_analytic (pi I : ℂ) (s : Setup ℂ) (μ : Fin 6 → Mode ℂ) (k : Fin 6 → ℂ) (x : Vec ℂ)
    (hx : ∀ a, eta s (μ a) x ∈ slitPlane) (i : Fin 3) :
    ContinuousAt (fun x' : Vec ℂ => dispField pi I s μ k x' i) x := by
  have he : ∀ a, ContinuousAt (fun x' : Vec ℂ => eta s (μ a) x') x := by
    intro a
    simp only [eta, dot, sum3]
    fun_prop
  have hl : ∀ a, ContinuousAt (fun x' : Vec ℂ => Complex.log (eta s (μ a) x')) x := fun a => (he a).clog (hx a)
  unfold dispField dispAt
  simp only [sum6]
  fun_prop

open Filter Topology in
/-- **the displacement jumps by exactly the Burgers vector across the cut half-plane**: along the path
    `X(y) = x₀ m + y n` (`x₀ < 0`, orthonormal `m, n`) the coded displacement — with `np.log` the principal complex
    logarithm and `π`, `i` the real things — has one-sided limits at `y = 0`, and `lim_{y→0⁺} − lim_{y→0⁻} = b`,
    provided the modes are ordered as the `updn` pattern presupposes (`Im pₐ > 0` for even, `< 0` for odd `a`) and
    the completeness relation `Σ kₐAₐ⊗Lₐ = 1` holds. -/
theorem burgers_jump_limit (s : Setup ℂ) (μ : Fin 6 → Mode ℂ) (k : Fin 6 → ℂ) (x0 : ℝ) (hx0 : x0 < 0)
    (hm : dot s.m s.m = 1) (hn : dot s.n s.n = 1) (hmn : dot s.m s.n = 0)
    (hIm : ∀ a : Fin 6, (a.val % 2 = 0 → 0 < ((μ a).p).im) ∧ (a.val % 2 = 1 → ((μ a).p).im < 0))
    (hcomp : ∀ i j, chkAL μ k i j = kron i j) :
    ∃ Up Dn : Vec ℂ,
      (∀ i, Tendsto (fun y : ℝ => dispField Real.pi I s μ k (fun c => x0 * s.m c + y * s.n c) i) (𝓝[>] 0) (𝓝 (Up i)))
      ∧ (∀ i, Tendsto (fun y : ℝ => dispField Real.pi I s μ k (fun c => x0 * s.m c + y * s.n c) i) (𝓝[<] 0) (𝓝 (Dn i)))
      ∧ ∀ i, Up i - Dn i = s.b i := by
  have hpath : ∀ (a : Fin 6) (y : ℝ), eta s (μ a) (fun c => x0 * s.m c + y * s.n c) = x0 + (μ a).p * y := by
    intro a y
    simp only [dot, sum3] at hm hn hmn
    simp only [eta, dot, sum3]
    linear_combination (x0 : ℂ) * hm + ((μ a).p * y) * hn + ((y : ℂ) + (μ a).p * x0) * hmn
  set L : ℂ := ((Real.log ‖(x0 : ℂ)‖ : ℝ) : ℂ) with hL
  let lnUp : Fin 6 → ℂ := fun a => L + updn a * (Real.pi * I)
  let lnDn : Fin 6 → ℂ := fun a => L - updn a * (Real.pi * I)
  have hup : ∀ a, Tendsto (fun y : ℝ => Complex.log (eta s (μ a) (fun c => x0 * s.m c + y * s.n c))) (𝓝[>] 0) (𝓝 (lnUp a)) := by
    intro a
    simp only [hpath]
    have t := tendsto_log_line x0 hx0 (μ a).p
    have hi := hIm a
    fin_cases a <;> simp [lnUp, updn] at hi ⊢
    · simpa [hL] using (t.1 hi).1
    · simpa [hL, sub_eq_add_neg] using (t.2 hi).1
    · simpa [hL] using (t.1 hi).1
    · simpa [hL, sub_eq_add_neg] using (t.2 hi).1
    · simpa [hL] using (t.1 hi).1
    · simpa [hL, sub_eq_add_neg] using (t.2 hi).1
  have hdn : ∀ a, Tendsto (fun y : ℝ => Complex.log (eta s (μ a) (fun c => x0 * s.m c + y * s.n c))) (𝓝[<] 0) (𝓝 (lnDn a)) := by
    intro a
    simp only [hpath]
    have t := tendsto_log_line x0 hx0 (μ a).p
    have hi := hIm a
    fin_cases a <;> simp [lnDn, updn] at hi ⊢
    · simpa [hL] using (t.1 hi).2
    · simpa [hL] using (t.2 hi).2
    · simpa [hL] using (t.1 hi).2
    · simpa [hL] using (t.2 hi).2
    · simpa [hL] using (t.1 hi).2
    · simpa [hL] using (t.2 hi).2
  refine ⟨dispAt Real.pi I s μ k lnUp, dispAt Real.pi I s μ k lnDn, fun i => ?_, fun i => ?_, fun i => ?_⟩
  · have := tendsto_sum6 (fun a => dispCoef Real.pi I s μ k a i) _ lnUp hup
    unfold dispField dispAt
    exact this
  · have := tendsto_sum6 (fun a => dispCoef Real.pi I s μ k a i) _ lnDn hdn
    unfold dispField dispAt
    exact this
  · have hpi : (Real.pi : ℂ) ≠ 0 := by exact_mod_cast Real.pi_ne_zero
    have hj := burgers_closure (Real.pi : ℂ) I s μ k hpi I_ne_zero hcomp i
    rw [← hj]
    simp only [dispJump, dispAt, sum6, lnUp, lnDn, Nat.cast_ofNat]
    ring
end analysis

section theta
variable {K : Type} [Field K] [LinearOrder K] [IsStrictOrderedRing K]

/-- the branch chosen by `theta()`: on `x > 0` it is `arctan(y/x)`, on `x < 0` it is `arctan(y/x) + π` above and
    `arctan(y/x) − π` on and below the negative x axis, on `x = 0` it is `±π/2` (`atn` stands for `arctan(y/x)`). -/
theorem thetaOf_halfplanes (pi x y atn : K) (hpi : 0 < pi) :
    (0 < x → atn < pi → thetaOf pi x y atn = atn)
    ∧ (x < 0 → atn < 0 → thetaOf pi x y atn = atn + pi)
    ∧ (x < 0 → 0 ≤ atn → thetaOf pi x y atn = atn - pi)
    ∧ (x = 0 → 0 < y → thetaOf pi x y atn = pi / 2)
    ∧ (x = 0 → y < 0 → thetaOf pi x y atn = -pi / 2) := by
  refine ⟨fun hx ha => ?_, fun hx ha => ?_, fun hx ha => ?_, fun hx hy => ?_, fun hx hy => ?_⟩
  · simp [thetaOf, hx.ne', not_lt.2 hx.le, ha]
  · simp [thetaOf, hx.ne, hx, show atn + pi < pi by linarith]
  · simp [thetaOf, hx.ne, hx, show ¬ (atn + pi < pi) by linarith]; ring
  · subst hx; simp [thetaOf, hy, show pi / 2 < pi by linarith]
  · subst hx; simp [thetaOf, hy, not_lt.2 hy.le, show -pi / 2 < pi by linarith]
end theta

section isoDeriv
variable (x y nu mu b_e b_s pi c : ℝ)

/-- **isotropic strain = symmetric gradient of the isotropic displacement**, as derivatives over ℝ on the open
    half-planes `x ≠ 0`, where `theta()` is `arctan(y/x)` plus a constant `c` (see `thetaOf_halfplanes`), with
    `np.log = Real.log`: the six partial derivatives of the generated displacement components exist and the
    generated local strain is their symmetrisation (`∂/∂ξ = 0`). -/
theorem iso_strain_is_symgrad_deriv (hx : x ≠ 0) (hpi : pi ≠ 0) (h1 : 1 - nu ≠ 0) (h2 : 1 + nu ≠ 0) :
    ∃ gmx gmy gnx gny gzx gzy : ℝ,
      HasDerivAt (fun x' => isoDisp_m Real.log x' y nu b_e b_s pi (Real.arctan (y / x') + c)) gmx x
      ∧ HasDerivAt (fun y' => isoDisp_m Real.log x y' nu b_e b_s pi (Real.arctan (y' / x) + c)) gmy y
      ∧ HasDerivAt (fun x' => isoDisp_n Real.log x' y nu b_e b_s pi (Real.arctan (y / x') + c)) gnx x
      ∧ HasDerivAt (fun y' => isoDisp_n Real.log x y' nu b_e b_s pi (Real.arctan (y' / x) + c)) gny y
      ∧ HasDerivAt (fun x' => isoDisp_ξ Real.log x' y nu b_e b_s pi (Real.arctan (y / x') + c)) gzx x
      ∧ HasDerivAt (fun y' => isoDisp_ξ Real.log x y' nu b_e b_s pi (Real.arctan (y' / x) + c)) gzy y
      ∧ isoStrain x y nu b_e b_s pi 0 0 = gmx ∧ isoStrain x y nu b_e b_s pi 1 1 = gny
      ∧ isoStrain x y nu b_e b_s pi 0 1 = (gmy + gnx) / 2 ∧ isoStrain x y nu b_e b_s pi 0 2 = gzx / 2
      ∧ isoStrain x y nu b_e b_s pi 1 2 = gzy / 2 ∧ isoStrain x y nu b_e b_s pi 2 2 = 0 := by
  have hr := r2_ne_zero x y hx
  have hden : 2 * (1 - nu) * (x * x + y * y) ≠ 0 := mul_ne_zero (mul_ne_zero two_ne_zero h1) hr
  have h4 : 1 - nu * nu ≠ 0 := by
    have : 1 - nu * nu = (1 - nu) * (1 + nu) := by ring
    rw [this]; exact mul_ne_zero h1 h2
  have h4' : 1 - nu ^ 2 ≠ 0 := by simpa [pow_two] using h4
  -- u_m
  have hBx : HasDerivAt (fun x' => x' * y / (2 * (1 - nu) * (x' * x' + y * y))) _ x :=
    ((hasDerivAt_id' x).mul_const y).fun_div ((hasDerivAt_r2_x x y).const_mul (2 * (1 - nu))) hden
  have hBy : HasDerivAt (fun y' => x * y' / (2 * (1 - nu) * (x * x + y' * y'))) _ y :=
    ((hasDerivAt_id' y).const_mul x).fun_div ((hasDerivAt_r2_y x y).const_mul (2 * (1 - nu))) hden
  have hmx := ((hasDerivAt_theta_x x y c hx).fun_add hBx).const_mul (b_e / (2 * pi))
  have hmy := ((hasDerivAt_theta_y x y c hx).fun_add hBy).const_mul (b_e / (2 * pi))
  -- u_n
  have hLx := (hasDerivAt_r2_x x y).log hr
  have hLy := (hasDerivAt_r2_y x y).log hr
  have hDx : HasDerivAt (fun x' : ℝ => y * y / (2 * (1 - nu) * (x' * x' + y * y))) _ x :=
    (hasDerivAt_const x (y * y)).fun_div ((hasDerivAt_r2_x x y).const_mul (2 * (1 - nu))) hden
  have hDy : HasDerivAt (fun y' : ℝ => y' * y' / (2 * (1 - nu) * (x * x + y' * y'))) _ y :=
    ((hasDerivAt_id' y).fun_mul (hasDerivAt_id' y)).fun_div ((hasDerivAt_r2_y x y).const_mul (2 * (1 - nu))) hden
  have hnx := ((hLx.const_mul (-(1 - 2 * nu) / (4 * (1 - nu)))).fun_add hDx).const_mul (b_e / (2 * pi))
  have hny := ((hLy.const_mul (-(1 - 2 * nu) / (4 * (1 - nu)))).fun_add hDy).const_mul (b_e / (2 * pi))
  -- u_ξ
  have hzx := (hasDerivAt_theta_x x y c hx).const_mul (b_s / (2 * pi))
  have hzy := (hasDerivAt_theta_y x y c hx).const_mul (b_s / (2 * pi))
  have em : ∀ x' y' t, isoDisp_m Real.log x' y' nu b_e b_s pi t
      = b_e / (2 * pi) * (t + x' * y' / (2 * (1 - nu) * (x' * x' + y' * y'))) := by
    intro x' y' t; simp only [isoDisp_m, Nat.cast_ofNat, Nat.cast_one]
  have en : ∀ x' y' t, isoDisp_n Real.log x' y' nu b_e b_s pi t
      = b_e / (2 * pi) * (-(1 - 2 * nu) / (4 * (1 - nu)) * Real.log (x' * x' + y' * y')
          + y' * y' / (2 * (1 - nu) * (x' * x' + y' * y'))) := by
    intro x' y' t; simp only [isoDisp_n, Nat.cast_ofNat, Nat.cast_one]
  have ez : ∀ x' y' t, isoDisp_ξ Real.log x' y' nu b_e b_s pi t = b_s / (2 * pi) * t := by
    intro x' y' t; simp only [isoDisp_ξ, Nat.cast_ofNat]
  simp only [em, en, ez]
  refine ⟨_, _, _, _, _, _, hmx, hmy, hnx, hny, hzx, hzy, ?_, ?_, ?_, ?_, ?_, ?_⟩
  · simp [isoStrain, isoStrain_0_0]; field_simp; ring
  · simp [isoStrain, isoStrain_1_1]; field_simp; ring
  · simp [isoStrain, isoStrain_0_1]; field_simp; ring
  · simp [isoStrain, isoStrain_0_2]; field_simp; ring
  · simp [isoStrain, isoStrain_1_2]; field_simp; ring
  · simp [isoStrain, isoStrain_2_2]

/-- **isotropic stress is divergence-free**, as derivatives over ℝ away from the line (`x² + y² ≠ 0`):
    `∂ₓσ₀₀ + ∂ᵧσ₀₁ = 0`, `∂ₓσ₁₀ + ∂ᵧσ₁₁ = 0`, `∂ₓσ₂₀ + ∂ᵧσ₂₁ = 0` for the generated local stress
    (`∂/∂ξ = 0`). -/
theorem iso_stress_div_free_deriv (hr : x * x + y * y ≠ 0) :
    ∃ d00 d01 d10 d11 d20 d21 : ℝ,
      HasDerivAt (fun x' => isoStress x' y nu mu b_e b_s pi 0 0) d00 x
      ∧ HasDerivAt (fun y' => isoStress x y' nu mu b_e b_s pi 0 1) d01 y
      ∧ HasDerivAt (fun x' => isoStress x' y nu mu b_e b_s pi 1 0) d10 x
      ∧ HasDerivAt (fun y' => isoStress x y' nu mu b_e b_s pi 1 1) d11 y
      ∧ HasDerivAt (fun x' => isoStress x' y nu mu b_e b_s pi 2 0) d20 x
      ∧ HasDerivAt (fun y' => isoStress x y' nu mu b_e b_s pi 2 1) d21 y
      ∧ d00 + d01 = 0 ∧ d10 + d11 = 0 ∧ d20 + d21 = 0 := by
  set pe : ℝ := mu * b_e / (2 * pi * (1 - nu)) with hpe
  set ps : ℝ := mu * b_s / (2 * pi) with hps
  have e00 : ∀ x' y', isoStress x' y' nu mu b_e b_s pi 0 0
      = -pe * (y' * (3 * (x' * x') + y' * y')) / ((x' * x' + y' * y') * (x' * x' + y' * y')) := by
    intro x' y'; simp [isoStress, isoStress_0_0, hpe]
  have e01 : ∀ x' y', isoStress x' y' nu mu b_e b_s pi 0 1
      = pe * (x' * (x' * x' - y' * y')) / ((x' * x' + y' * y') * (x' * x' + y' * y')) := by
    intro x' y'; simp [isoStress, isoStress_0_1, hpe]
  have e10 : ∀ x' y', isoStress x' y' nu mu b_e b_s pi 1 0
      = pe * (x' * (x' * x' - y' * y')) / ((x' * x' + y' * y') * (x' * x' + y' * y')) := by
    intro x' y'; simp [isoStress, isoStress_1_0, hpe]
  have e11 : ∀ x' y', isoStress x' y' nu mu b_e b_s pi 1 1
      = pe * (y' * (x' * x' - y' * y')) / ((x' * x' + y' * y') * (x' * x' + y' * y')) := by
    intro x' y'; simp [isoStress, isoStress_1_1, hpe]
  have e20 : ∀ x' y', isoStress x' y' nu mu b_e b_s pi 2 0 = -ps * y' / (x' * x' + y' * y') := by
    intro x' y'; simp [isoStress, isoStress_2_0, hps]
  have e21 : ∀ x' y', isoStress x' y' nu mu b_e b_s pi 2 1 = ps * x' / (x' * x' + y' * y') := by
    intro x' y'; simp [isoStress, isoStress_2_1, hps]
  simp only [e00, e01, e10, e11, e20, e21]
  -- numerators
  have n00 : HasDerivAt (fun x' : ℝ => -pe * (y * (3 * (x' * x') + y * y))) (-pe * (y * (3 * (1 * x + x * 1)))) x :=
    (((((hasDerivAt_id' x).fun_mul (hasDerivAt_id' x)).const_mul 3).add_const (y * y)).const_mul y).const_mul (-pe)
  have n01 : HasDerivAt (fun y' : ℝ => pe * (x * (x * x - y' * y'))) (pe * (x * (-(1 * y + y * 1)))) y :=
    (((((hasDerivAt_id' y).fun_mul (hasDerivAt_id' y)).fun_neg).const_add (x * x)).const_mul x).const_mul pe
      |>.congr_of_eventuallyEq (Filter.Eventually.of_forall fun y' => by ring)
  have n10 : HasDerivAt (fun x' : ℝ => pe * (x' * (x' * x' - y * y)))
      (pe * (1 * (x * x - y * y) + x * (1 * x + x * 1))) x :=
    ((hasDerivAt_id' x).fun_mul ((((hasDerivAt_id' x).fun_mul (hasDerivAt_id' x))).sub_const (y * y))).const_mul pe
  have n11 : HasDerivAt (fun y' : ℝ => pe * (y' * (x * x - y' * y')))
      (pe * (1 * (x * x - y * y) + y * (-(1 * y + y * 1)))) y :=
    ((hasDerivAt_id' y).fun_mul ((((hasDerivAt_id' y).fun_mul (hasDerivAt_id' y)).fun_neg).const_add (x * x))).const_mul pe
      |>.congr_of_eventuallyEq (Filter.Eventually.of_forall fun y' => by ring)
  have h00 := hasDerivAt_over_r4_x x y _ _ n00 hr
  have h01 := hasDerivAt_over_r4_y x y _ _ n01 hr
  have h10 := hasDerivAt_over_r4_x x y _ _ n10 hr
  have h11 := hasDerivAt_over_r4_y x y _ _ n11 hr
  have h20 : HasDerivAt (fun x' : ℝ => -ps * y / (x' * x' + y * y)) _ x :=
    (hasDerivAt_const x (-ps * y)).fun_div (hasDerivAt_r2_x x y) hr
  have h21 : HasDerivAt (fun y' : ℝ => ps * x / (x * x + y' * y')) _ y :=
    (hasDerivAt_const y (ps * x)).fun_div (hasDerivAt_r2_y x y) hr
  refine ⟨_, _, _, _, _, _, h00, h01, h10, h11, h20, h21, ?_, ?_, ?_⟩
  · field_simp; ring
  · field_simp; ring
  · field_simp; ring
end isoDeriv

/-! ### non-vacuity: a concrete medium, frame and mode over `Cx ℚ` meeting the hypotheses -/

/-- isotropic test medium `C11 = 3, C12 = 1, C44 = 1`, frame `m = x, n = y`, screw Burgers vector. -/
def exC : Fin 6 → Fin 6 → Cx ℚ := fun a b =>
  if a = b then (if a.val < 3 then 3 else 1) else if a.val < 3 ∧ b.val < 3 then 1 else 0
def exSetup : Setup (Cx ℚ) :=
  ⟨cijkl exC, fun i => if i = 0 then 1 else 0, fun i => if i = 1 then 1 else 0, fun i => if i = 2 then 1 else 0⟩
def exInv : Mat (Cx ℚ) := fun i j => if i = j then (if i = 1 then ⟨1/3, 0⟩ else 1) else 0
/-- the screw mode `p = i, A = e_z, L = -i e_z` -/
def exMode : Mode (Cx ℚ) := ⟨Cx.I, fun i => if i = 2 then 1 else 0, fun i => if i = 2 then -Cx.I else 0⟩

example : ∀ i j, matMul exSetup.nn exInv i j = kron i j := by decide +kernel
example : ∀ i, eigResTop exSetup exInv exMode i = 0 := by decide +kernel
example : ∀ i, eigResBot exSetup exInv exMode i = 0 := by decide +kernel
example : ∀ i j k l, exSetup.C i j k l = exSetup.C i j l k ∧ exSetup.C i j k l = exSetup.C j i k l := by
  decide +kernel
example : ∀ i, matVec (sextic exSetup exMode.p) exMode.A i = 0 :=
  (stroh_sextic exSetup exInv exMode (by decide +kernel) (by decide +kernel) (by decide +kernel)).2
example : ConjPairs (K := ℚ) (fun a => if a.val % 2 = 0 then exMode else conjMode exMode) := by
  exact ⟨rfl, rfl, rfl⟩
example : isoStress (K := ℚ) 1 2 (1/4) 1 1 1 3 0 0 = -28 / 225 := by
  norm_num [isoStress, isoStress_0_0]
example : dot exMode.A exMode.L ≠ 0 := by decide +kernel
/-- the rotation by 90° about z used for the covariance examples satisfies `R Rᵀ = 1` as well. -/
example : ∀ i j, (sum3 fun g => (fun (i j : Fin 3) => if (i, j) = (0, 1) then (-1 : ℚ) else
    if (i, j) = (1, 0) ∨ (i, j) = (2, 2) then 1 else 0) i g * (fun (i j : Fin 3) => if (i, j) = (0, 1) then (-1 : ℚ) else
    if (i, j) = (1, 0) ∨ (i, j) = (2, 2) then 1 else 0) j g) = kron i j := by
  intro a b; fin_cases a <;> fin_cases b <;> simp [sum3, kron]
/-- an isotropic setup meeting the hypotheses of `iso_burgers_jump` and `iso_K_posdef`:
    `m = x`, `n = y`, mixed Burgers vector in the slip plane, `μ = 1`, `ν = 1/4`. -/
def exIso : IsoSetup ℚ :=
  ⟨fun i => if i = 0 then 1 else 0, fun i => if i = 1 then 1 else 0, fun i => if i = 1 then 0 else 1, 1, 1/4⟩
example : dot exIso.m exIso.m = 1 ∧ dot exIso.n exIso.n = 1 ∧ dot exIso.m exIso.n = 0 ∧ dot exIso.b exIso.n = 0
    ∧ 0 < exIso.mu ∧ exIso.nu < 1 := by
  decide +kernel
example : (2 : ℚ) ≠ 0 ∧ (1 : ℚ) * 1 + 2 * 2 ≠ 0 := by norm_num
example : isoInPlaneOk (1 / 100000000 : ℚ) exIso.b exIso.n = true := by decide +kernel
example : isoInPlaneOk (1 / 100000000 : ℚ) (fun i => if i = 1 then 3 / 10 else 1) (fun i => if i = 1 then 1 else 0) = false := by
  decide +kernel
example : dispatch false true (isoInPlaneOk (1 / 100000000 : ℚ) exIso.b exIso.n) = some Solver.iso := by decide +kernel


/-- six modes meeting the hypotheses of `burgers_jump_limit` (`pₐ = ±i`, `Aₐ = Lₐ = e_{⌊a/2⌋}`, `kₐ = ½`),
    with `m = x`, `n = y` of `exSetupC`. -/
noncomputable def exModesC : Fin 6 → Mode ℂ := fun a =>
  ⟨if a.val % 2 = 0 then Complex.I else -Complex.I, fun i => if i.val = a.val / 2 then 1 else 0,
    fun i => if i.val = a.val / 2 then 1 else 0⟩
example : ∀ i j, chkAL exModesC (fun _ => (1 / 2 : ℂ)) i j = kron i j := by
  intro i j; fin_cases i <;> fin_cases j <;> simp [chkAL, sum6, exModesC, kron] <;> norm_num
example : ∀ a : Fin 6, (a.val % 2 = 0 → 0 < ((exModesC a).p).im) ∧ (a.val % 2 = 1 → ((exModesC a).p).im < 0) := by
  intro a; fin_cases a <;> simp [exModesC]
example : dot (F := ℂ) (fun i => if i = 0 then 1 else 0) (fun i => if i = 0 then 1 else 0) = 1
    ∧ dot (F := ℂ) (fun i => if i = 1 then 1 else 0) (fun i => if i = 1 then 1 else 0) = 1
    ∧ dot (F := ℂ) (fun i => if i = 0 then 1 else 0) (fun i => if i = 1 then 1 else 0) = 0 := by
  simp [dot, sum3]
/-- a point off every cut for a mode with `p = i`: `η = 1 + i`. -/
example : (1 : ℂ) + Complex.I * 1 ∈ Complex.slitPlane := by
  rw [Complex.mem_slitPlane_iff]; left; simp
example : (1 : ℝ) ≠ 0 ∧ (3 : ℝ) ≠ 0 ∧ (1 : ℝ) - 1 / 4 ≠ 0 ∧ (1 : ℝ) + 1 / 4 ≠ 0 ∧ (1 : ℝ) * 1 + 2 * 2 ≠ 0 := by norm_num

/-! ### API level (round 5): option handling, refusals and the end-to-end statements for every accepted input -/
section entry

/-- **which option combinations `VolterraDislocation.solve` refuses** (all with `AssertionError`): Miller indices given
    by halves, Miller indices together with `transform` / `axes`, `transform` together with `axes` — and nothing else. -/
theorem routeOf_refuses_iff {M : Type} (ξ hkl : Bool) (t a : Option M) :
    (∃ e, routeOf ξ hkl t a = .error e)
      ↔ (ξ ≠ hkl) ∨ ((ξ = true ∨ hkl = true) ∧ (t.isSome = true ∨ a.isSome = true)) ∨ (t.isSome = true ∧ a.isSome = true) := by
  cases ξ <;> cases hkl <;> cases t <;> cases a <;> simp [routeOf]

/-- every refusal of the option handling is an `AssertionError`. -/
theorem routeOf_error_class {M : Type} (ξ hkl : Bool) (t a : Option M) (e : String)
    (h : routeOf ξ hkl t a = .error e) : e = "assert" := by
  cases ξ <;> cases hkl <;> cases t <;> cases a <;> simp [routeOf] at h <;> exact h.symm

/-- `axes=` is an alias of `transform=`; what is accepted is never left unchecked (`raw`). -/
theorem routeOf_axes_alias {M : Type} (x : M) :
    routeOf false false none (some x) = routeOf false false (some x) none
      ∧ routeOf false false (some x) none = .ok (.checked x) := ⟨rfl, rfl⟩

theorem routeOf_never_raw {M : Type} (ξ hkl : Bool) (t a : Option M) (x : M) :
    routeOf ξ hkl t a ≠ .ok (.raw x) := by
  cases ξ <;> cases hkl <;> cases t <;> cases a <;> simp [routeOf]

/-- the same statements about the option handling AS IT STANDS IN THE SOURCE (generated `route`). -/
theorem gen_route_refuses_iff {M : Type} (ξ hkl : Bool) (t a : Option M) :
    (∃ e, Gen.Stroh.route ξ hkl t a = .error e)
      ↔ (ξ ≠ hkl) ∨ ((ξ = true ∨ hkl = true) ∧ (t.isSome = true ∨ a.isSome = true)) ∨ (t.isSome = true ∧ a.isSome = true) := by
  rw [gen_route_eq_model]; exact routeOf_refuses_iff ξ hkl t a

/-- the Voigt getter `ElasticConstants.Cijkl` gives both minor symmetries for ANY 6x6 array. -/
theorem cijkl_minor {F : Type} (c : Fin 6 → Fin 6 → F) (i j k l : Fin 3) :
    cijkl c i j k l = cijkl c i j l k ∧ cijkl c i j k l = cijkl c j i k l := by
  have h : ∀ a b : Fin 3, voigt a b = voigt b a := by decide
  simp only [cijkl, h k l, h i j, and_self]

section ord
variable {K : Type} [Field K] [LinearOrder K] [IsStrictOrderedRing K]

theorem listMax3_ge (a x y : K) : a ≤ listMax a [x, y] ∧ x ≤ listMax a [x, y] ∧ y ≤ listMax a [x, y] := by
  simp only [listMax, List.foldl]
  split_ifs <;> refine ⟨?_, ?_, ?_⟩ <;> linarith

theorem maxAbs3_ge (b : Vec K) (i : Fin 3) : |b i| ≤ maxAbs3 b := by
  have h := listMax3_ge (absF (b 0)) (absF (b 1)) (absF (b 2))
  simp only [absF_eq_abs] at h
  unfold maxAbs3; simp only [absF_eq_abs]
  fin_cases i
  · exact h.1
  · exact h.2.1
  · exact h.2.2

/-- the relative clean-up moves an entry by at most `tol · big` (`big` any bound of `|v|`, e.g. the largest magnitude). -/
theorem chop_close (tol big v : K) (ht : 0 ≤ tol) (hb : |v| ≤ big) : |chop tol big v - v| ≤ tol * big := by
  have hb0 : 0 ≤ big := le_trans (abs_nonneg v) hb
  unfold chop
  split_ifs with h
  · simp only [Bool.and_eq_true, decide_eq_true_eq] at h
    rw [zero_sub, abs_neg]
    rcases hb0.lt_or_eq with hpos | h0
    · have : |v / big| ≤ tol := abs_le.2 h
      rw [abs_div, abs_of_pos hpos, div_le_iff₀ hpos] at this
      exact this
    · rw [← h0] at hb ⊢
      simpa using hb
  · simp only [sub_self, abs_zero]
    exact mul_nonneg ht hb0

/-- **what the stored Burgers vector is**: the requested crystal vector taken to Cartesian coordinates and rotated by
    the orientation matrix, each component within `tol · max|b|` of it (the round-off clean-up zeroes, never invents). -/
theorem orientB_within_tol (tol : K) (ht : 0 ≤ tol) (T vects : Mat K) (b : Vec K) (i : Fin 3) :
    |orientB tol T vects b i - matVec T (crystalToCart vects b) i|
      ≤ tol * maxAbs3 (matVec T (crystalToCart vects b)) :=
  chop_close tol _ _ ht (maxAbs3_ge _ i)

/-- ... and for the clean-up AS CODED (generated `orientB`). -/
theorem gen_orientB_within_tol (tol : K) (ht : 0 ≤ tol) (T vects : Mat K) (b : Vec K) (i : Fin 3) :
    |Gen.Stroh.orientB tol T vects b i - matVec T (crystalToCart vects b) i|
      ≤ tol * maxAbs3 (matVec T (crystalToCart vects b)) := by
  rw [gen_orientB_eq_model]; exact orientB_within_tol tol ht T vects b i

/-- **what an accepted call of `VolterraDislocation.solve` went through, in order** (and conversely: these conditions
    make it accept): both axes pass `axis_value`, `m ⊥ n`, the option handling yields a transform, `axes_check` inside
    `ElasticConstants.transform` accepts it; the outputs are the transform, the rotated cleaned stiffness, the rotated
    cleaned Burgers vector. -/
theorem baseSolve_ok_iff (a : BaseIn K) (out : BaseOut K) :
    baseSolve a = .ok out ↔
      axisOk a.tol a.cart a.mStr a.m = true ∧ axisOk a.tol a.cart a.nStr a.n = true
      ∧ (-a.tol ≤ dot a.m a.n ∧ dot a.m a.n ≤ a.tol)
      ∧ ∃ T T2, baseTransform a = .ok T ∧ axesCheck a.tolAx a.rtol T a.norms2 = .ok T2
          ∧ out = ⟨T, orientC a.tolAx T2 a.c, orientB a.tol T a.vects a.b⟩ := by
  unfold baseSolve
  cases hm : axisOk a.tol a.cart a.mStr a.m <;> cases hn : axisOk a.tol a.cart a.nStr a.n <;>
    by_cases hp1 : -a.tol ≤ dot a.m a.n <;> by_cases hp2 : dot a.m a.n ≤ a.tol <;>
    simp [hp1, hp2] <;>
    (cases hT : baseTransform a with
     | error e => simp
     | ok T =>
       cases hT2 : axesCheck a.tolAx a.rtol T a.norms2 with
       | error e => simp [hT2]
       | ok T2 => simp [hT2]; exact eq_comm)

/-- refusal classes, in the order of the source: axis checks and option handling are `AssertionError`s and come before
    everything else. -/
theorem baseSolve_assert_first (a : BaseIn K)
    (h : axisOk a.tol a.cart a.mStr a.m = false ∨ axisOk a.tol a.cart a.nStr a.n = false
          ∨ ¬ (-a.tol ≤ dot a.m a.n ∧ dot a.m a.n ≤ a.tol)) :
    baseSolve a = .error "assert" := by
  unfold baseSolve
  rcases h with h | h | h
  · simp [h]
  · cases hm : axisOk a.tol a.cart a.mStr a.m <;> simp [h]
  · cases hm : axisOk a.tol a.cart a.mStr a.m <;> cases hn : axisOk a.tol a.cart a.nStr a.n <;> simp
    intro h1 h2; exact absurd ⟨h1, h2⟩ h

/-- `axes=` and `transform=` are interchangeable for the whole call. -/
theorem baseSolve_axes_alias (a : BaseIn K) (x : Mat K) (ht : a.transform = none) (ha : a.axes = some x)
    (hξ : a.ξ = false) (hh : a.hkl = false) :
    baseSolve a = baseSolve { a with transform := some x, axes := none } := by
  unfold baseSolve baseTransform
  simp only [ht, ha, hξ, hh, routeOf]

end ord

variable {F : Type} [Field F] [CharZero F]

/-- the problem `Stroh.solve` works on after an accepted call of the base class. -/
def entrySetup {F : Type} (m n : Vec F) (out : BaseOut F) : Setup F := ⟨cijkl out.c, m, n, out.b⟩

/-- **end to end, stress = C : strain for every accepted input** — no symmetry hypothesis left: the medium a solved
    object holds is `cijkl` of a 6x6 array, which has the minor symmetry by construction. -/
theorem entry_stress_is_C_strain (pi I : F) (m n : Vec F) (out : BaseOut F) (μ : Fin 6 → Mode F) (k : Fin 6 → F)
    (x : Vec F) (i j : Fin 3) :
    stressAt pi I (entrySetup m n out) μ k x i j
      = sum3 fun k' => sum3 fun l => cijkl out.c i j k' l * strainAt pi I (entrySetup m n out) μ k x k' l :=
  stress_is_C_strain_at pi I (entrySetup m n out) μ k (fun i j k l => (cijkl_minor out.c i j k l).1) x i j

/-- **end to end, equilibrium for every accepted input**: each `1/η²` coefficient of `∂ⱼσᵢⱼ` vanishes for every mode that
    solves the eigenproblem of the coded `N` built from the stored medium. -/
theorem entry_stress_div_free (pi I : F) (m n : Vec F) (out : BaseOut F) (nnInv : Mat F) (μ : Fin 6 → Mode F)
    (k : Fin 6 → F) (hinv : ∀ i j, matMul (entrySetup m n out).nn nnInv i j = kron i j) (a : Fin 6)
    (htop : ∀ i, eigResTop (entrySetup m n out) nnInv (μ a) i = 0)
    (hbot : ∀ i, eigResBot (entrySetup m n out) nnInv (μ a) i = 0) (i : Fin 3) :
    (sum3 fun j => stressCoef pi I (entrySetup m n out) μ k a i j * mpn (entrySetup m n out) (μ a) j) = 0 :=
  stress_div_free_of_eigen pi I (entrySetup m n out) nnInv μ k (fun i j k l => (cijkl_minor out.c i j k l).2) hinv a htop hbot i

/-- **end to end, the jump is the stored Burgers vector** (closure relation = the solver's first self-check). -/
theorem entry_burgers_jump (pi I : F) (m n : Vec F) (out : BaseOut F) (μ : Fin 6 → Mode F) (k : Fin 6 → F)
    (hpi : pi ≠ 0) (hI : I ≠ 0) (hcomp : ∀ i j, chkAL μ k i j = kron i j) (i : Fin 3) :
    dispJump pi I (entrySetup m n out) μ k i = out.b i :=
  burgers_closure pi I (entrySetup m n out) μ k hpi hI hcomp i

/-! the same three clauses for the field methods AS CODED (generated from `Stroh.py` on every run) -/

/-- `Stroh.stress(x) = C : Stroh.strain(x)` for the generated methods. -/
theorem gen_stress_is_C_strain (pi I : F) (s : Setup F) (μ : Fin 6 → Mode F) (k : Fin 6 → F)
    (hC : ∀ i j k l, s.C i j k l = s.C i j l k) (x : Vec F) (i j : Fin 3) :
    Gen.Stroh.stress pi I s.m s.n s.b s.C (modeP μ) k (modeA μ) (modeL μ) x i j
      = sum3 fun k' => sum3 fun l => s.C i j k' l
          * Gen.Stroh.strain pi I s.m s.n s.b s.C (modeP μ) k (modeA μ) (modeL μ) x k' l := by
  rw [gen_stress_eq_model, gen_strain_eq_model]; exact stress_is_C_strain_at pi I s μ k hC x i j

/-- the generated `Stroh.displacement` jumps by exactly `b` when every `ln ηₐ` jumps by `updnₐ·2πi` and the generated
    first self-check holds exactly. -/
theorem gen_displacement_jump (pi I : F) (s : Setup F) (μ : Fin 6 → Mode F) (k sk : Fin 6 → F)
    (hpi : pi ≠ 0) (hI : I ≠ 0) (hcomp : ∀ i j, Gen.Stroh.chk1 k sk (modeA μ) (modeL μ) i j = kron i j) (i : Fin 3) :
    Gen.Stroh.displacement pi I s.m s.n s.b s.C (modeP μ) k (modeA μ) (modeL μ)
        (fun a => updn a * (((2 : Nat) : F) * pi * I)) i = s.b i := by
  rw [gen_displacement_eq_model]
  rw [(gen_checks_eq_model μ k sk).1] at hcomp
  exact burgers_closure pi I s μ k hpi hI hcomp i

/-- the generated strain and stress fall off as `1/r`. -/
theorem gen_falls_as_inv_r (pi I : F) (s : Setup F) (μ : Fin 6 → Mode F) (k : Fin 6 → F) (x : Vec F) (t : F)
    (ht : t ≠ 0) (hx : ∀ a, eta s (μ a) x ≠ 0) (i j : Fin 3) :
    Gen.Stroh.strain pi I s.m s.n s.b s.C (modeP μ) k (modeA μ) (modeL μ) (fun c => t * x c) i j
        = Gen.Stroh.strain pi I s.m s.n s.b s.C (modeP μ) k (modeA μ) (modeL μ) x i j / t
      ∧ Gen.Stroh.stress pi I s.m s.n s.b s.C (modeP μ) k (modeA μ) (modeL μ) (fun c => t * x c) i j
        = Gen.Stroh.stress pi I s.m s.n s.b s.C (modeP μ) k (modeA μ) (modeL μ) x i j / t := by
  simp only [gen_stress_eq_model, gen_strain_eq_model]; exact falls_as_inv_r pi I s μ k x t ht hx i j

/-- the generated `K_tensor` is symmetric. -/
theorem gen_K_symm (I : F) (μ : Fin 6 → Mode F) (k : Fin 6 → F) (i j : Fin 3) :
    Gen.Stroh.kTensor I k (modeL μ) i j = Gen.Stroh.kTensor I k (modeL μ) j i := by
  rw [gen_kTensor_eq_model]; exact K_symm I μ k i j

end entry

section defect
variable {F : Type} [Field F] [CharZero F]

/-- the jump of the coded displacement, without any hypothesis on the eigen-solution: `Σₐ kₐ Aₐ⊗Lₐ` applied to `b`. -/
theorem dispJump_eq_chkAL (pi I : F) (s : Setup F) (μ : Fin 6 → Mode F) (k : Fin 6 → F)
    (hpi : pi ≠ 0) (hI : I ≠ 0) (i : Fin 3) :
    dispJump pi I s μ k i = sum3 fun j => chkAL μ k i j * s.b j := by
  simp only [dispJump, dispAt, dispCoef, kLb, chkAL, sum6, sum3, dot, Nat.cast_ofNat, Nat.cast_one]
  have u0 := updn_sq (F := F) 0; have u1 := updn_sq (F := F) 1; have u2 := updn_sq (F := F) 2
  have u3 := updn_sq (F := F) 3; have u4 := updn_sq (F := F) 4; have u5 := updn_sq (F := F) 5
  field_simp
  linear_combination (k 0 * (μ 0).A i * ((μ 0).L 0 * s.b 0 + (μ 0).L 1 * s.b 1 + (μ 0).L 2 * s.b 2)) * u0 + (k 1 * (μ 1).A i * ((μ 1).L 0 * s.b 0 + (μ 1).L 1 * s.b 1 + (μ 1).L 2 * s.b 2)) * u1 + (k 2 * (μ 2).A i * ((μ 2).L 0 * s.b 0 + (μ 2).L 1 * s.b 1 + (μ 2).L 2 * s.b 2)) * u2 + (k 3 * (μ 3).A i * ((μ 3).L 0 * s.b 0 + (μ 3).L 1 * s.b 1 + (μ 3).L 2 * s.b 2)) * u3 + (k 4 * (μ 4).A i * ((μ 4).L 0 * s.b 0 + (μ 4).L 1 * s.b 1 + (μ 4).L 2 * s.b 2)) * u4 + (k 5 * (μ 5).A i * ((μ 5).L 0 * s.b 0 + (μ 5).L 1 * s.b 1 + (μ 5).L 2 * s.b 2)) * u5

/-- ... hence the defect of the jump is the defect of the completeness relation applied to `b`. -/
theorem dispJump_defect (pi I : F) (s : Setup F) (μ : Fin 6 → Mode F) (k : Fin 6 → F)
    (hpi : pi ≠ 0) (hI : I ≠ 0) (i : Fin 3) :
    dispJump pi I s μ k i - s.b i = sum3 fun j => (chkAL μ k i j - kron i j) * s.b j := by
  rw [dispJump_eq_chkAL pi I s μ k hpi hI i]
  fin_cases i <;> simp [sum3, kron] <;> ring
end defect

section accepted
variable {K : Type} [Field K] [LinearOrder K] [IsStrictOrderedRing K]

/-- what the first self-check of `Stroh.solve` guarantees when the solver accepts: every entry of `Σ k A⊗L − 1` is within
    `tol + rtol·δᵢⱼ` (squared modulus, no square root). -/
theorem accepted_closure_defect (tol rtol cmax : K) (μ : Fin 6 → Mode (Cx K)) (k sk : Fin 6 → Cx K)
    (h : strohChecksOk tol rtol cmax μ k sk = true) (i j : Fin 3) :
    Cx.normSq (chkAL μ k i j - ⟨kron i j, 0⟩) ≤ (tol + rtol * kron i j) * (tol + rtol * kron i j) := by
  simp only [strohChecksOk, Bool.and_eq_true] at h
  have h1 := h.1.1.1
  simp only [all3, Bool.and_eq_true, closeToReal, decide_eq_true_eq] at h1
  fin_cases i <;> fin_cases j <;> simp_all

/-- **for every problem `Stroh.solve` accepts the displacement jump is `b + E b` with `|Eᵢⱼ| ≤ tol + rtol·δᵢⱼ`**: the
    closure hypothesis of `burgers_closure` replaced by what the solver itself has checked. -/
theorem accepted_jump_defect (tol rtol cmax : K) (pi I : Cx K) (s : Setup (Cx K)) (μ : Fin 6 → Mode (Cx K))
    (k sk : Fin 6 → Cx K) (hpi : pi ≠ 0) (hI : I ≠ 0) (h : strohChecksOk tol rtol cmax μ k sk = true) (i : Fin 3) :
    dispJump pi I s μ k i - s.b i = (sum3 fun j => (chkAL μ k i j - kron i j) * s.b j)
      ∧ ∀ j, Cx.normSq (chkAL μ k i j - ⟨kron i j, 0⟩) ≤ (tol + rtol * kron i j) * (tol + rtol * kron i j) :=
  ⟨dispJump_defect pi I s μ k hpi hI i, fun j => accepted_closure_defect tol rtol cmax μ k sk h i j⟩

/-- accepted Miller route: the stored transform takes the unit plane normal to `n` and the unit line to `m × n`. -/
theorem baseSolve_miller_frame (a : BaseIn K) (out : BaseOut K) (h : baseSolve a = .ok out)
    (hξ : a.ξ = true) (hn : dot a.nAxis a.nAxis = 1) (hx : dot a.ξAxis a.ξAxis = 1) (hp : dot a.nAxis a.ξAxis = 0) (i : Fin 3) :
    matVec out.T a.nAxis i = a.n i ∧ matVec out.T a.ξAxis i = cross a.m a.n i := by
  obtain ⟨_, _, _, T, T2, hT, _, rfl⟩ := (baseSolve_ok_iff a out).1 h
  have : T = findTransform a.m a.n a.nAxis a.ξAxis := by
    unfold baseTransform at hT
    cases hh : a.hkl <;> cases ht : a.transform <;> cases ha : a.axes <;> simp [routeOf, hξ, hh, ht, ha] at hT
    exact hT.symm
  subst this
  exact ⟨find_transform_normal _ _ _ _ hn hp i, find_transform_line _ _ _ _ hx hp i⟩

/-- the generated `K_tensor` is real when the modes come as adjacent conjugate pairs. -/
theorem gen_K_real (μ : Fin 6 → Mode (Cx K)) (hp : ConjPairs μ) (i j : Fin 3) :
    (Gen.Stroh.kTensor Cx.I (fun a => kOf (μ a)) (modeL μ) i j).im = 0 := by
  rw [gen_kTensor_eq_model]; exact K_real_partial μ hp i j
end accepted

/-! non-vacuity for the API-level theorems -/
def exBaseIn : BaseIn ℚ where
  tol := 1 / 100000000
  tolAx := 1 / 100000000
  rtol := 1 / 100000
  cart := true
  mStr := false
  nStr := true
  m := fun i => if i = 2 then 1 else 0
  n := fun i => if i = 0 then 1 else 0
  ξ := false
  hkl := false
  transform := none
  axes := some fun i j => if (i, j) = (0, 1) then -2 else if (i, j) = (1, 0) then 3 else if (i, j) = (2, 2) then 5 else 0
  norms := fun i => if i = 0 then 2 else if i = 1 then 3 else 5
  norms2 := fun _ => 1
  nAxis := fun _ => 0
  ξAxis := fun _ => 0
  vects := fun i j => if i = j then 2 else 0
  c := fun a b => if a = b then (if a.val < 3 then 3 else 1) else if a.val < 3 ∧ b.val < 3 then 1 else 0
  b := fun i => if i = 0 then 1 / 2 else 0

example : (match baseSolve exBaseIn with | .ok out => out.b 1 == 1 && out.b 0 == 0 && out.T 0 1 == -1 | .error _ => false) = true := by
  decide +kernel
example : (match baseSolve { exBaseIn with transform := some fun i j => if i = j then 1 else 0 } with
    | .error e => e == "assert" | .ok _ => false) = true := by
  decide +kernel
example : routeOf (M := Unit) true false none none = .error "assert" ∧ routeOf (M := Unit) true true none none = .ok .miller :=
  ⟨rfl, rfl⟩
example : |chop (1 / 10 : ℚ) 4 (1 / 5) - 1 / 5| ≤ 1 / 10 * 4 ∧ chop (1 / 10 : ℚ) 4 (1 / 5) = 0 := by
  constructor <;> decide +kernel

/-- an eigen-solution over ℚ(i) that passes all four self-checks exactly (hypothesis of `accepted_closure_defect` /
    `accepted_jump_defect`): `Aₐ = (1 ± i) e`, `Lₐ = (1 ∓ i)/4 e` along the three axes, `k = √k = 1`. -/
def exAccModes : Fin 6 → Mode (Cx ℚ) := fun a =>
  ⟨if a.val % 2 = 0 then Cx.I else -Cx.I,
   fun i => if i.val = a.val / 2 then (if a.val % 2 = 0 then ⟨1, 1⟩ else ⟨1, -1⟩) else 0,
   fun i => if i.val = a.val / 2 then (if a.val % 2 = 0 then ⟨1 / 4, -1 / 4⟩ else ⟨1 / 4, 1 / 4⟩) else 0⟩
example : strohChecksOk (1 / 100000000 : ℚ) (1 / 100000) 1 exAccModes (fun _ => 1) (fun _ => 1) = true := by decide +kernel
example : ∀ a, kOf (exAccModes a) = 1 := by decide +kernel
/-- an accepted Miller-route call (hypotheses of `baseSolve_miller_frame`): plane normal `y`, line `z`, `m = 'x'`, `n = 'y'`. -/
def exMillerIn : BaseIn ℚ :=
  { exBaseIn with ξ := true, hkl := true, axes := none, mStr := true, nStr := true, cart := false,
                  m := fun i => if i = 0 then 1 else 0, n := fun i => if i = 1 then 1 else 0,
                  nAxis := fun i => if i = 1 then 1 else 0, ξAxis := fun i => if i = 2 then 1 else 0 }
example : (match baseSolve exMillerIn with | .ok out => out.T 0 0 == 1 && out.T 1 1 == 1 && out.b 0 == 1 | .error _ => false) = true
    ∧ dot exMillerIn.nAxis exMillerIn.nAxis = 1 ∧ dot exMillerIn.ξAxis exMillerIn.ξAxis = 1
    ∧ dot exMillerIn.nAxis exMillerIn.ξAxis = 0 := by decide +kernel

end Atomman.C12
