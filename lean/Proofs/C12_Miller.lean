/-
  C12 — orientation by Miller indices (hardening round 3).

  The slip-plane normal of `(hkl)` is the reciprocal-lattice vector `h a* + k b* + l c*`; the model carries it as
  `millerNormal V hkl = h b×c + k c×a + l a×b` (= cell volume times that vector).  Theorems:
  * `miller_normal_dot_line`  : `millerNormal V h · millerLine V u = det V · (h·u)` — the zone law: every lattice line with
    `hu + kv + lw = 0` lies in the plane, and the normal has the SIGN of `h` along `a`, of `k` along `b`, of `l` along `c`
    in a right-handed cell (`miller_normal_dot_edges`);
  * `find_transform_normal`, `find_transform_line`, `find_transform_inplane` : the matrix of `__find_transform` takes the
    unit plane normal to `n`, the unit line direction to `m × n` and their cross product to `m`;
  * `find_transform_miller_sign` : hence it takes `millerNormal V hkl` to a POSITIVE multiple of `n` whenever the unit normal
    handed to it is a positive multiple of `millerNormal V hkl` — the orientation of the frame is fixed by the signs of the
    indices, not only the line through the normal.
-/
import Atomman.C12
import Proofs.C12_Lemmas
import Mathlib.Tactic.Ring
import Mathlib.Tactic.LinearCombination
import Mathlib.Tactic.FinCases
import Mathlib.Tactic.Positivity
import Mathlib.Tactic.FieldSimp
import Mathlib.Algebra.Field.Basic
import Mathlib.Algebra.Order.Field.Basic

namespace Atomman.C12
set_option linter.unusedSimpArgs false
set_option linter.unusedVariables false

section miller
variable {K : Type} [Field K]

/-- zone law with the volume factor: `(h b×c + k c×a + l a×b) · (u a + v b + w c) = det V · (hu + kv + lw)`. -/
theorem miller_normal_dot_line (V : Mat K) (h u : Vec K) :
    dot (millerNormal V h) (millerLine V u) = det3 V * dot h u := by
  simp only [dot, millerNormal, millerLine, det3, cross, sum3]
  simp
  ring

/-- a lattice line with `hu + kv + lw = 0` is perpendicular to the plane normal. -/
theorem miller_zone (V : Mat K) (h u : Vec K) (hz : dot h u = 0) :
    dot (millerNormal V h) (millerLine V u) = 0 := by
  rw [miller_normal_dot_line, hz, mul_zero]

/-- along the three cell edges the normal has the components `h det V`, `k det V`, `l det V`: in a right-handed cell
    (`det V > 0`) the SIGNS of the indices decide to which side of the plane the normal points. -/
theorem miller_normal_dot_edges (V : Mat K) (h : Vec K) (i : Fin 3) :
    dot (millerNormal V h) (V i) = det3 V * h i := by
  fin_cases i <;>
  · simp only [dot, millerNormal, det3, cross, sum3]
    simp
    ring

/-- `__find_transform` takes the unit plane normal to `n`. -/
theorem find_transform_normal (m n na xa : Vec K) (hn : dot na na = 1) (hx : dot na xa = 0) (i : Fin 3) :
    matVec (findTransform m n na xa) na i = n i := by
  simp only [dot, sum3] at hn hx
  simp only [matVec, findTransform, sum3]
  generalize cross m n i = q
  simp only [cross]
  simp
  linear_combination (n i) * hn + q * hx

/-- `__find_transform` takes the unit line direction to `m × n`. -/
theorem find_transform_line (m n na xa : Vec K) (hxx : dot xa xa = 1) (hx : dot na xa = 0) (i : Fin 3) :
    matVec (findTransform m n na xa) xa i = cross m n i := by
  simp only [dot, sum3] at hxx hx
  simp only [matVec, findTransform, sum3]
  generalize cross m n i = q
  simp only [cross]
  simp
  linear_combination q * hxx + (n i) * hx

/-- `__find_transform` takes `n_axis × ξ_axis` (the in-plane direction perpendicular to the line) to `m`. -/
theorem find_transform_inplane (m n na xa : Vec K) (hn : dot na na = 1) (hxx : dot xa xa = 1) (hx : dot na xa = 0)
    (i : Fin 3) : matVec (findTransform m n na xa) (cross na xa) i = m i := by
  simp only [dot, sum3] at hn hxx hx
  simp only [matVec, findTransform, sum3]
  generalize cross m n i = q
  simp only [cross]
  simp
  linear_combination (m i) * ((xa 0 * xa 0 + xa 1 * xa 1 + xa 2 * xa 2) * hn + hxx
    - (na 0 * xa 0 + na 1 * xa 1 + na 2 * xa 2) * hx)

/-- the orientation is fixed by the signs of the Miller indices: if the unit normal handed to `__find_transform` is the
    positive multiple `s · millerNormal V hkl` (`s > 0`), the transform takes `millerNormal V hkl` to `(1/s) n`. -/
theorem find_transform_miller_sign (V : Mat K) (h m n xa : Vec K) (s : K) (hs : s ≠ 0)
    (hn : dot (fun c => s * millerNormal V h c) (fun c => s * millerNormal V h c) = 1)
    (hx : dot (fun c => s * millerNormal V h c) xa = 0) (i : Fin 3) :
    s * matVec (findTransform m n (fun c => s * millerNormal V h c) xa) (millerNormal V h) i = n i := by
  have := find_transform_normal m n (fun c => s * millerNormal V h c) xa hn hx i
  rw [← this]
  simp only [matVec, sum3]
  ring

/-- the normal of `(-h -k -l)` is the opposite vector (never the same one). -/
theorem miller_normal_neg (V : Mat K) (h : Vec K) (c : Fin 3) :
    millerNormal V (fun i => - h i) c = - millerNormal V h c := by
  simp only [millerNormal]
  ring

end miller

section order
variable {K : Type} [Field K] [LinearOrder K] [IsStrictOrderedRing K]

/-- in a right-handed cell the normal of `(hkl)` points to the side of the edge `i` on which the index `h i` is positive. -/
theorem miller_normal_side (V : Mat K) (h : Vec K) (i : Fin 3) (hV : 0 < det3 V) (hi : 0 < h i) :
    0 < dot (millerNormal V h) (V i) := by
  rw [miller_normal_dot_edges]
  exact mul_pos hV hi

end order

/-- non-vacuity: the cubic cell, the plane (1 0 -1) (zero pattern h0l with mixed signs) and the line [0 1 0]. -/
example : dot (millerNormal (fun i j => if i = j then (1 : ℚ) else 0) (fun i => if i = 0 then 1 else if i = 1 then 0 else -1))
    (millerLine (fun i j => if i = j then (1 : ℚ) else 0) (fun i => if i = 1 then 1 else 0)) = 0 := by
  rw [miller_normal_dot_line]; simp [dot, sum3]

end Atomman.C12
