/-
  C10 — helper lemmas on `ElasticConstants.normalized_as` (`normForm`, Atomman/C10.lean): a tensor that already is
  in the general normal form of a crystal system is a fixed point of the normalisation into that system, and
  whatever the normalisation hands to the `Cij` setter is in normal form.
-/
import Proofs.C10_Setters
import Mathlib.Tactic.FieldSimp
import Mathlib.Tactic.Ring
import Mathlib.Algebra.CharZero.Defs

namespace Atomman.C10
open Atomman
set_option linter.unusedSectionVars false
variable {K : Type} [Field K] [CharZero K]

/-- `InForm cs c`: the 6×6 array `c` (row-major) is in the general normal form of the crystal system `cs` — the
    array one of atomman's crystal-system constructors builds from independent constants: 3 cubic, 5 hexagonal
    (`C66 = (C11 - C12)/2`), 7 tetragonal (`C16 = -C26`), 7 rhombohedral (`C14`, `C15`), 9 orthorhombic, 13
    monoclinic (`C15`, `C25`, `C35`, `C46`); any 36 entries for triclinic. -/
inductive InForm : String → List K → Prop
  | triclinic (c : List K) (h : c.length = 36) : InForm "triclinic" c
  | cubic (c11 c12 c44 : K) : InForm "cubic" (cubicForm c11 c12 c44)
  | hexagonal (c11 c33 c12 c13 c44 : K) : InForm "hexagonal" (hexForm c11 c33 c12 c13 c44)
  | tetragonal (c11 c33 c12 c13 c44 c66 c16 : K) : InForm "tetragonal" (tetraForm c11 c33 c12 c13 c44 c66 c16)
  | rhombohedral (c11 c33 c12 c13 c14 c15 c44 : K) :
      InForm "rhombohedral" (rhomboForm c11 c33 c12 c13 c14 c15 c44)
  | orthorhombic (c11 c22 c33 c12 c13 c23 c44 c55 c66 : K) :
      InForm "orthorhombic" (orthoForm c11 c22 c33 c12 c13 c23 c44 c55 c66)
  | monoclinic (c11 c12 c13 c15 c22 c23 c25 c33 c35 c44 c46 c55 c66 : K) :
      InForm "monoclinic" (monoForm c11 c12 c13 c15 c22 c23 c25 c33 c35 c44 c46 c55 c66)

macro "form_tac" : tactic => `(tactic| (
  simp
  try (repeat' apply And.intro)
  all_goals first | (field_simp; ring) | field_simp | ring))

theorem normForm_cubic (muK : Option (K × K)) (c11 c12 c44 : K) :
    normForm muK "cubic" (cubicForm c11 c12 c44) = some (cubicForm c11 c12 c44) := by
  simp only [normForm, cubicForm]
  form_tac

theorem normForm_hex (muK : Option (K × K)) (c11 c33 c12 c13 c44 : K) :
    normForm muK "hexagonal" (hexForm c11 c33 c12 c13 c44) = some (hexForm c11 c33 c12 c13 c44) := by
  simp only [normForm, hexForm]
  form_tac

theorem normForm_tetra (muK : Option (K × K)) (c11 c33 c12 c13 c44 c66 c16 : K) :
    normForm muK "tetragonal" (tetraForm c11 c33 c12 c13 c44 c66 c16)
      = some (tetraForm c11 c33 c12 c13 c44 c66 c16) := by
  simp only [normForm, tetraForm]
  form_tac

theorem normForm_rhombo (muK : Option (K × K)) (c11 c33 c12 c13 c14 c15 c44 : K) :
    normForm muK "rhombohedral" (rhomboForm c11 c33 c12 c13 c14 c15 c44)
      = some (rhomboForm c11 c33 c12 c13 c14 c15 c44) := by
  simp only [normForm, rhomboForm]
  form_tac

theorem normForm_ortho (muK : Option (K × K)) (c11 c22 c33 c12 c13 c23 c44 c55 c66 : K) :
    normForm muK "orthorhombic" (orthoForm c11 c22 c33 c12 c13 c23 c44 c55 c66)
      = some (orthoForm c11 c22 c33 c12 c13 c23 c44 c55 c66) := by
  simp only [normForm, orthoForm]
  form_tac

theorem normForm_mono (muK : Option (K × K)) (c11 c12 c13 c15 c22 c23 c25 c33 c35 c44 c46 c55 c66 : K) :
    normForm muK "monoclinic" (monoForm c11 c12 c13 c15 c22 c23 c25 c33 c35 c44 c46 c55 c66)
      = some (monoForm c11 c12 c13 c15 c22 c23 c25 c33 c35 c44 c46 c55 c66) := by
  simp only [normForm, monoForm]
  form_tac

theorem normForm_tri (muK : Option (K × K)) (c : List K) (h : c.length = 36) :
    normForm muK "triclinic" c = some c := by
  iterate 36 (rcases c with _ | ⟨_, c⟩; · simp at h)
  rcases c with _ | ⟨_, c⟩
  · simp [normForm]
  · simp at h

/-- a tensor in the normal form of `cs` is a fixed point of the normalisation into `cs`. -/
theorem normForm_fix (muK : Option (K × K)) (cs : String) (c : List K) (h : InForm cs c) :
    normForm muK cs c = some c := by
  cases h with
  | triclinic c h => exact normForm_tri muK c h
  | cubic => exact normForm_cubic muK ..
  | hexagonal => exact normForm_hex muK ..
  | tetragonal => exact normForm_tetra muK ..
  | rhombohedral => exact normForm_rhombo muK ..
  | orthorhombic => exact normForm_ortho muK ..
  | monoclinic => exact normForm_mono muK ..

/-- whatever `normalized_as(cs)` hands to the `Cij` setter is in the normal form of `cs` (every system whose
    constants are averages of the entries; `'isotropic'` goes through the Hill estimates). -/
theorem normForm_inForm (muK : Option (K × K)) (cs : String) (c n : List K) (hcs : cs ≠ "isotropic")
    (h : normForm muK cs c = some n) : InForm cs n := by
  unfold normForm at h
  split at h
  · split_ifs at h <;>
      (cases h; subst_vars
       first | exact InForm.triclinic _ rfl | exact InForm.cubic .. | exact InForm.hexagonal ..
             | exact InForm.tetragonal .. | exact InForm.rhombohedral .. | exact InForm.orthorhombic ..
             | exact InForm.monoclinic ..)
  · cases h

/-- the `'isotropic'` branch: the two Hill estimates through the isotropic constructor. -/
theorem normForm_iso (mu k : K) (c : List K) (h : c.length = 36) :
    normForm (some (mu, k)) "isotropic" c = some (isoForm mu k) := by
  iterate 36 (rcases c with _ | ⟨_, c⟩; · simp at h)
  rcases c with _ | ⟨_, c⟩
  · simp [normForm]
  · simp at h

end Atomman.C10
