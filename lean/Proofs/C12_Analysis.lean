/-
  C12 helper lemmas for the analytic statements: derivative and limit building blocks (complex logarithm along a
  line through the cut, six-term sums, arctan(y/x), log(x²+y²), quotients by (x²+y²)²).
-/
import Atomman.C12
import Mathlib.Analysis.SpecialFunctions.Complex.LogDeriv
import Mathlib.Analysis.SpecialFunctions.Trigonometric.ArctanDeriv
import Mathlib.Analysis.SpecialFunctions.Log.Deriv
import Mathlib.Tactic.Ring
import Mathlib.Tactic.FieldSimp
import Mathlib.Tactic.Linarith
import Mathlib.Tactic.FinCases
set_option linter.unusedSectionVars false
set_option linter.unusedVariables false

namespace Atomman.C12
open Complex

theorem hasDerivAt_sum6 (c : Fin 6 → ℂ) (f : Fin 6 → ℂ → ℂ) (f' : Fin 6 → ℂ) (t : ℂ)
    (h : ∀ a, HasDerivAt (f a) (f' a) t) :
    HasDerivAt (fun t => sum6 fun a => c a * f a t) (sum6 fun a => c a * f' a) t := by
  simp only [sum6]
  exact ((((((h 0).const_mul (c 0)).add ((h 1).const_mul (c 1))).add ((h 2).const_mul (c 2))).add
    ((h 3).const_mul (c 3))).add ((h 4).const_mul (c 4))).add ((h 5).const_mul (c 5))

/-- `t ↦ ηₐ(x + t e)` has derivative `e·(m + pₐ n)`. -/
theorem hasDerivAt_eta (s : Setup ℂ) (μ : Mode ℂ) (x e : Vec ℂ) (t : ℂ) :
    HasDerivAt (fun t => eta s μ (fun i => x i + t * e i)) (dot e (mpn s μ)) t := by
  have : (fun t : ℂ => eta s μ (fun i => x i + t * e i)) = fun t => eta s μ x + t * dot e (mpn s μ) := by
    funext t; simp only [eta, dot, mpn, sum3]; ring
  rw [this]
  simpa using ((hasDerivAt_id t).mul_const (dot e (mpn s μ))).const_add (eta s μ x)


/-- unit vector along axis `j` -/
def basisVec (j : Fin 3) : Vec ℂ := fun i => if i = j then 1 else 0

theorem dot_basisVec (j : Fin 3) (v : Vec ℂ) : dot (basisVec j) v = v j := by
  fin_cases j <;> simp [dot, sum3, basisVec]

/-- the displacement as a function of the field point: `np.log` is the principal complex logarithm. -/
noncomputable def dispField (pi I : ℂ) (s : Setup ℂ) (μ : Fin 6 → Mode ℂ) (k : Fin 6 → ℂ) (x : Vec ℂ) : Vec ℂ :=
  dispAt pi I s μ k (fun a => Complex.log (eta s (μ a) x))

open Filter Topology in
/-- the path `y ↦ x₀ + p y` approaches the cut point `x₀ < 0` from the half-plane `sign(y · Im p)`. -/
theorem tendsto_log_line (x0 : ℝ) (hx : x0 < 0) (p : ℂ) :
    (0 < p.im → Tendsto (fun y : ℝ => Complex.log (x0 + p * y)) (𝓝[>] 0) (𝓝 (Real.log ‖(x0 : ℂ)‖ + Real.pi * I))
      ∧ Tendsto (fun y : ℝ => Complex.log (x0 + p * y)) (𝓝[<] 0) (𝓝 (Real.log ‖(x0 : ℂ)‖ - Real.pi * I)))
    ∧ (p.im < 0 → Tendsto (fun y : ℝ => Complex.log (x0 + p * y)) (𝓝[>] 0) (𝓝 (Real.log ‖(x0 : ℂ)‖ - Real.pi * I))
      ∧ Tendsto (fun y : ℝ => Complex.log (x0 + p * y)) (𝓝[<] 0) (𝓝 (Real.log ‖(x0 : ℂ)‖ + Real.pi * I))) := by
  have hre : ((x0 : ℂ)).re < 0 := by simpa using hx
  have him : ((x0 : ℂ)).im = 0 := by simp
  have hcont : Continuous fun y : ℝ => (x0 : ℂ) + p * y := by fun_prop
  have h0 : (fun y : ℝ => (x0 : ℂ) + p * y) 0 = x0 := by simp
  have hto : ∀ l : Filter ℝ, l ≤ 𝓝 0 → Tendsto (fun y : ℝ => (x0 : ℂ) + p * y) l (𝓝 (x0 : ℂ)) := by
    intro l hl
    have := hcont.tendsto 0
    simp only [ofReal_zero, mul_zero, add_zero] at this
    exact this.mono_left hl
  have imf : ∀ y : ℝ, ((x0 : ℂ) + p * y).im = p.im * y := by intro y; simp
  have up := tendsto_log_nhdsWithin_im_nonneg_of_re_neg_of_im_zero hre him
  have dn := tendsto_log_nhdsWithin_im_neg_of_re_neg_of_im_zero hre him
  refine ⟨fun hp => ⟨?_, ?_⟩, fun hp => ⟨?_, ?_⟩⟩
  · refine up.comp (tendsto_nhdsWithin_of_tendsto_nhds_of_eventually_within _ (hto _ nhdsWithin_le_nhds) ?_)
    filter_upwards [self_mem_nhdsWithin] with y hy
    show 0 ≤ ((x0 : ℂ) + p * y).im
    rw [imf]; exact (mul_pos hp hy).le
  · refine dn.comp (tendsto_nhdsWithin_of_tendsto_nhds_of_eventually_within _ (hto _ nhdsWithin_le_nhds) ?_)
    filter_upwards [self_mem_nhdsWithin] with y hy
    show ((x0 : ℂ) + p * y).im < 0
    rw [imf]; exact mul_neg_of_pos_of_neg hp hy
  · refine dn.comp (tendsto_nhdsWithin_of_tendsto_nhds_of_eventually_within _ (hto _ nhdsWithin_le_nhds) ?_)
    filter_upwards [self_mem_nhdsWithin] with y hy
    show ((x0 : ℂ) + p * y).im < 0
    rw [imf]; exact mul_neg_of_neg_of_pos hp hy
  · refine up.comp (tendsto_nhdsWithin_of_tendsto_nhds_of_eventually_within _ (hto _ nhdsWithin_le_nhds) ?_)
    filter_upwards [self_mem_nhdsWithin] with y hy
    show 0 ≤ ((x0 : ℂ) + p * y).im
    rw [imf]; exact (mul_pos_of_neg_of_neg hp hy).le

open Filter Topology in
theorem tendsto_sum6 {l : Filter ℝ} (c : Fin 6 → ℂ) (f : Fin 6 → ℝ → ℂ) (L : Fin 6 → ℂ)
    (h : ∀ a, Tendsto (f a) l (𝓝 (L a))) :
    Tendsto (fun y => sum6 fun a => c a * f a y) l (𝓝 (sum6 fun a => c a * L a)) := by
  simp only [sum6]
  exact ((((((h 0).const_mul (c 0)).add ((h 1).const_mul (c 1))).add ((h 2).const_mul (c 2))).add
    ((h 3).const_mul (c 3))).add ((h 4).const_mul (c 4))).add ((h 5).const_mul (c 5))


section blocks
variable (x y : ℝ)

theorem r2_ne_zero (hx : x ≠ 0) : x * x + y * y ≠ 0 := by
  have := mul_self_pos.2 hx
  have := mul_self_nonneg y
  intro h; linarith

theorem hasDerivAt_r2_x : HasDerivAt (fun x => x * x + y * y) (2 * x) x := by
  have h := ((hasDerivAt_id' x).mul (hasDerivAt_id' x)).add_const (y * y)
  refine h.congr_deriv ?_
  ring
theorem hasDerivAt_r2_y : HasDerivAt (fun y => x * x + y * y) (2 * y) y := by
  have h := ((hasDerivAt_id' y).mul (hasDerivAt_id' y)).const_add (x * x)
  refine h.congr_deriv ?_
  ring

theorem hasDerivAt_theta_x (c : ℝ) (hx : x ≠ 0) :
    HasDerivAt (fun x => Real.arctan (y / x) + c) (-y / (x * x + y * y)) x := by
  have hq : HasDerivAt (fun x : ℝ => y / x) (-y / x ^ 2) x := by
    have := (hasDerivAt_const x y).div (hasDerivAt_id' x) hx
    refine this.congr_deriv ?_
    simp
  have h := (hq.arctan).add_const c
  refine h.congr_deriv ?_
  have := r2_ne_zero x y hx
  field_simp
theorem hasDerivAt_theta_y (c : ℝ) (hx : x ≠ 0) :
    HasDerivAt (fun y => Real.arctan (y / x) + c) (x / (x * x + y * y)) y := by
  have hq : HasDerivAt (fun y : ℝ => y / x) (1 / x) y := (hasDerivAt_id' y).div_const x
  have h := (hq.arctan).add_const c
  refine h.congr_deriv ?_
  have := r2_ne_zero x y hx
  field_simp
end blocks


section quot
variable (x y : ℝ)
/-- `N/(r²)²` and `N/r²` quotient rules along x and y for a numerator with known derivative. -/
theorem hasDerivAt_over_r4_x (N : ℝ → ℝ) (N' : ℝ) (hN : HasDerivAt N N' x) (hr : x * x + y * y ≠ 0) :
    HasDerivAt (fun x' => N x' / ((x' * x' + y * y) * (x' * x' + y * y)))
      ((N' * ((x * x + y * y) * (x * x + y * y)) - N x * (2 * x * (x * x + y * y) + (x * x + y * y) * (2 * x)))
        / ((x * x + y * y) * (x * x + y * y)) ^ 2) x :=
  hN.fun_div ((hasDerivAt_r2_x x y).fun_mul (hasDerivAt_r2_x x y)) (mul_ne_zero hr hr)
theorem hasDerivAt_over_r4_y (N : ℝ → ℝ) (N' : ℝ) (hN : HasDerivAt N N' y) (hr : x * x + y * y ≠ 0) :
    HasDerivAt (fun y' => N y' / ((x * x + y' * y') * (x * x + y' * y')))
      ((N' * ((x * x + y * y) * (x * x + y * y)) - N y * (2 * y * (x * x + y * y) + (x * x + y * y) * (2 * y)))
        / ((x * x + y * y) * (x * x + y * y)) ^ 2) y :=
  hN.fun_div ((hasDerivAt_r2_y x y).fun_mul (hasDerivAt_r2_y x y)) (mul_ne_zero hr hr)

end quot

end Atomman.C12
