/-
  C16 — `fromstring`: every well-formed index string parses to the numbers it shows.
  Character-level lemmas about the model's reader (`fromChars`) and writer (`render`, `renderW`).
-/
import Atomman.C16
import Mathlib.Tactic.NormNum
import Mathlib.Tactic.IntervalCases

namespace Atomman.C16
set_option linter.unusedSectionVars false
set_option linter.unusedSimpArgs false
set_option linter.unusedVariables false

/-! ### characters -/

/-- the characters an index string is made of outside its two brackets: digits, `-`, `/`, blank. -/
def plainChar (c : Char) : Bool := ('0' ≤ c && c ≤ '9') || c = '-' || c = '/' || c = ' '

def digitChar (c : Char) : Bool := '0' ≤ c && c ≤ '9'

theorem digitOfNat (d : Nat) (hd : d < 10) :
    digitChar (Char.ofNat (d + '0'.toNat)) = true ∧ digitVal? (Char.ofNat (d + '0'.toNat)) = some d := by
  interval_cases d <;> exact ⟨by decide, by decide⟩

theorem digitChar_ne {c : Char} (h : digitChar c = true) :
    c ≠ '-' ∧ c ≠ '+' ∧ c ≠ ' ' ∧ c ≠ '/' ∧ plainChar c = true := by
  refine ⟨?_, ?_, ?_, ?_, ?_⟩
  · rintro rfl; revert h; decide
  · rintro rfl; revert h; decide
  · rintro rfl; revert h; decide
  · rintro rfl; revert h; decide
  · unfold digitChar at h; unfold plainChar; simp only [h, Bool.true_or]

/-! ### natural and integer numerals -/

theorem natDigits_lt (n : Nat) (h : n < 10) : natDigits n = [Char.ofNat (n + '0'.toNat)] := by
  rw [natDigits]; simp only [h, dite_true]

theorem natDigits_ge (n : Nat) (h : ¬ n < 10) :
    natDigits n = natDigits (n / 10) ++ [Char.ofNat (n % 10 + '0'.toNat)] := by
  rw [natDigits]; simp only [h, dite_false]

theorem natDigits_digits (n : Nat) : ∀ c ∈ natDigits n, digitChar c = true := by
  induction n using Nat.strong_induction_on with
  | _ n ih =>
    by_cases h : n < 10
    · rw [natDigits_lt n h]; intro c hc
      simp only [List.mem_singleton] at hc; subst hc; exact (digitOfNat n h).1
    · rw [natDigits_ge n h]; intro c hc
      rcases List.mem_append.1 hc with hc | hc
      · exact ih (n / 10) (by omega) c hc
      · simp only [List.mem_singleton] at hc; subst hc; exact (digitOfNat (n % 10) (by omega)).1

theorem natDigits_ne_nil (n : Nat) : natDigits n ≠ [] := by
  by_cases h : n < 10
  · rw [natDigits_lt n h]; exact List.cons_ne_nil _ _
  · rw [natDigits_ge n h]; simp

theorem parseNatAcc_append (xs ys : List Char) : ∀ acc : Nat,
    parseNatAcc acc (xs ++ ys) = (parseNatAcc acc xs).bind (fun m => parseNatAcc m ys) := by
  induction xs with
  | nil => intro acc; simp [parseNatAcc]
  | cons x xs ih =>
    intro acc
    simp only [List.cons_append, parseNatAcc]
    cases digitVal? x with
    | none => simp
    | some d => simpa using ih (acc * 10 + d)

theorem parseNatAcc_natDigits (n : Nat) : parseNatAcc 0 (natDigits n) = some n := by
  induction n using Nat.strong_induction_on with
  | _ n ih =>
    by_cases h : n < 10
    · rw [natDigits_lt n h]
      simp only [parseNatAcc, (digitOfNat n h).2]; simp
    · rw [natDigits_ge n h, parseNatAcc_append, ih (n / 10) (by omega)]
      simp only [Option.bind_some, parseNatAcc, (digitOfNat (n % 10) (by omega)).2]
      congr 1; omega

theorem parseNat_natDigits (n : Nat) : parseNat? (natDigits n) = some n := by
  have hne := natDigits_ne_nil n
  have := parseNatAcc_natDigits n
  cases hd : natDigits n with
  | nil => exact absurd hd hne
  | cons c cs => rw [hd] at this; simpa [parseNat?] using this

theorem renderInt_plain (i : Int) : ∀ c ∈ renderInt i, plainChar c = true ∧ c ≠ ' ' ∧ c ≠ '/' := by
  intro c hc
  unfold renderInt at hc
  split at hc
  · rcases List.mem_cons.1 hc with rfl | hc
    · exact ⟨by decide, by decide, by decide⟩
    · have := digitChar_ne (natDigits_digits _ c hc); exact ⟨this.2.2.2.2, this.2.2.1, this.2.2.2.1⟩
  · have := digitChar_ne (natDigits_digits _ c hc); exact ⟨this.2.2.2.2, this.2.2.1, this.2.2.2.1⟩

theorem renderInt_ne_nil (i : Int) : renderInt i ≠ [] := by
  unfold renderInt; split
  · exact List.cons_ne_nil _ _
  · exact natDigits_ne_nil _

theorem parseInt_renderInt (i : Int) : parseInt? (renderInt i) = some i := by
  unfold renderInt
  split
  · rename_i h
    simp only [parseInt?, parseNat_natDigits, Option.map_some]
    exact congrArg some (show -(i.natAbs : Int) = i by omega)
  · rename_i h
    have hne := natDigits_ne_nil i.natAbs
    have hp := parseNat_natDigits i.natAbs
    cases hd : natDigits i.natAbs with
    | nil => exact absurd hd hne
    | cons c cs =>
      have hc : digitChar c = true := natDigits_digits i.natAbs c (by rw [hd]; exact List.mem_cons_self)
      have hc' := digitChar_ne hc
      rw [hd] at hp
      have : parseInt? (c :: cs) = (parseNat? (c :: cs)).map (fun n => (n : Int)) := by
        unfold parseInt?
        split
        · rename_i heq; injection heq with h1 _; exact absurd h1 hc'.1
        · rename_i heq; injection heq with h1 _; exact absurd h1 hc'.2.1
        · rfl
      rw [this, hp]
      exact congrArg some (show (i.natAbs : Int) = i by omega)

/-! ### searching and splitting -/

theorem findIdx_none {c : Char} : ∀ {xs : List Char}, (∀ x ∈ xs, x ≠ c) → findIdx c xs = none
  | [], _ => rfl
  | x :: xs, h => by
    have hx : x ≠ c := h x List.mem_cons_self
    simp only [findIdx, hx, if_false]
    rw [findIdx_none (fun y hy => h y (List.mem_cons_of_mem _ hy))]; rfl

theorem findIdx_append_hit {c : Char} : ∀ (xs ys : List Char), (∀ x ∈ xs, x ≠ c) →
    findIdx c (xs ++ c :: ys) = some xs.length
  | [], ys, _ => by simp [findIdx]
  | x :: xs, ys, h => by
    have hx : x ≠ c := h x List.mem_cons_self
    simp only [List.cons_append, findIdx, hx, if_false]
    rw [findIdx_append_hit xs ys (fun y hy => h y (List.mem_cons_of_mem _ hy))]
    simp

theorem splitOnChar_ne_nil (c : Char) : ∀ xs : List Char, splitOnChar c xs ≠ []
  | [] => by simp [splitOnChar]
  | x :: xs => by
    unfold splitOnChar
    split
    · exact List.cons_ne_nil _ _
    · split <;> exact List.cons_ne_nil _ _

theorem splitOnChar_append_sep (c : Char) : ∀ xs ys : List Char,
    splitOnChar c (xs ++ c :: ys) = splitOnChar c xs ++ splitOnChar c ys
  | [], ys => by simp [splitOnChar]
  | x :: xs, ys => by
    have ih := splitOnChar_append_sep c xs ys
    by_cases hx : x = c
    · simp only [List.cons_append, splitOnChar, hx, if_true, ih, List.cons_append]
    · simp only [List.cons_append, splitOnChar, hx, if_false, ih]
      cases hs : splitOnChar c xs with
      | nil => exact absurd hs (splitOnChar_ne_nil c xs)
      | cons w ws => simp

theorem splitOnChar_free (c : Char) : ∀ xs : List Char, (∀ x ∈ xs, x ≠ c) → splitOnChar c xs = [xs]
  | [], _ => rfl
  | x :: xs, h => by
    have hx : x ≠ c := h x List.mem_cons_self
    simp only [splitOnChar, hx, if_false,
      splitOnChar_free c xs (fun y hy => h y (List.mem_cons_of_mem _ hy))]

theorem spaceTokens_nil : spaceTokens [] = [] := by simp [spaceTokens, splitOnChar]

theorem spaceTokens_append_space (xs ys : List Char) :
    spaceTokens (xs ++ ' ' :: ys) = spaceTokens xs ++ spaceTokens ys := by
  simp only [spaceTokens, splitOnChar_append_sep, List.filter_append]

theorem spaceTokens_word (w : List Char) (hne : w ≠ []) (hw : ∀ x ∈ w, x ≠ ' ') : spaceTokens w = [w] := by
  simp only [spaceTokens, splitOnChar_free ' ' w hw, List.filter_cons, List.filter_nil]
  cases w with
  | nil => exact absurd rfl hne
  | cons a as => simp

theorem spaceTokens_cons_space (ys : List Char) : spaceTokens (' ' :: ys) = spaceTokens ys := by
  have := spaceTokens_append_space [] ys
  simpa [spaceTokens_nil] using this

theorem spaces_succ (n : Nat) : spaces (n + 1) = ' ' :: spaces n := by simp [spaces, List.replicate_succ]

theorem spaceTokens_spaces_append (ys : List Char) : ∀ n : Nat, spaceTokens (spaces n ++ ys) = spaceTokens ys
  | 0 => by simp [spaces]
  | n + 1 => by
    rw [spaces_succ]
    have := spaceTokens_append_space [] (spaces n ++ ys)
    simp only [List.nil_append] at this
    rw [List.cons_append, this, spaceTokens_nil, List.nil_append, spaceTokens_spaces_append ys n]

theorem spaceTokens_spaces (n : Nat) : spaceTokens (spaces n) = [] := by
  have := spaceTokens_spaces_append [] n
  simpa [spaceTokens_nil] using this

/-- a word followed by a blank and more text: first token is the word. -/
theorem spaceTokens_word_space (w ys : List Char) (hne : w ≠ []) (hw : ∀ x ∈ w, x ≠ ' ') :
    spaceTokens (w ++ ' ' :: ys) = w :: spaceTokens ys := by
  rw [spaceTokens_append_space, spaceTokens_word w hne hw]; rfl

theorem spaces_mem {n : Nat} {c : Char} (h : c ∈ spaces n) : c = ' ' := by
  simp only [spaces, List.mem_replicate] at h; exact h.2

/-- the tokens of the further indices (`n+1` blanks, numeral)*, then trailing blanks. -/
theorem spaceTokens_rest (pad2 : Nat) : ∀ rest : List (Nat × Int),
    spaceTokens (rest.flatMap (fun ni => spaces (ni.1 + 1) ++ renderInt ni.2) ++ spaces pad2)
      = rest.map (fun ni => renderInt ni.2)
  | [] => by simp [spaceTokens_spaces]
  | (n, i) :: rest => by
    have ih := spaceTokens_rest pad2 rest
    simp only [List.flatMap_cons, List.append_assoc, List.map_cons]
    rw [spaceTokens_spaces_append]
    -- renderInt i ++ (tail): tail is either empty-token text or starts with a blank
    cases rest with
    | nil =>
      simp only [List.flatMap_nil, List.nil_append, List.map_nil]
      cases pad2 with
      | zero => simp only [spaces, List.replicate_zero, List.append_nil]
                exact spaceTokens_word _ (renderInt_ne_nil i) (fun x hx => (renderInt_plain i x hx).2.1)
      | succ m =>
        rw [spaces_succ, spaceTokens_word_space _ _ (renderInt_ne_nil i) (fun x hx => (renderInt_plain i x hx).2.1),
          spaceTokens_spaces]
    | cons nj rest' =>
      obtain ⟨m, j⟩ := nj
      simp only [List.flatMap_cons, List.append_assoc, List.map_cons] at ih ⊢
      rw [spaces_succ] at ih ⊢
      simp only [List.cons_append] at ih ⊢
      rw [spaceTokens_word_space _ _ (renderInt_ne_nil i) (fun x hx => (renderInt_plain i x hx).2.1)]
      rw [spaceTokens_cons_space] at ih
      rw [ih]

theorem spaceTokens_bodyW (pad1 : Nat) (first : Int) (rest : List (Nat × Int)) (pad2 : Nat) :
    spaceTokens (bodyW pad1 first rest pad2) = (first :: rest.map Prod.snd).map renderInt := by
  unfold bodyW
  simp only [List.append_assoc]
  rw [spaceTokens_spaces_append]
  have hr := spaceTokens_rest pad2 rest
  simp only [List.map_cons, List.map_map]
  cases rest with
  | nil =>
    simp only [List.flatMap_nil, List.nil_append, List.map_nil]
    cases pad2 with
    | zero => simp only [spaces, List.replicate_zero, List.append_nil]
              exact spaceTokens_word _ (renderInt_ne_nil first) (fun x hx => (renderInt_plain first x hx).2.1)
    | succ m =>
      rw [spaces_succ, spaceTokens_word_space _ _ (renderInt_ne_nil first)
        (fun x hx => (renderInt_plain first x hx).2.1), spaceTokens_spaces]
  | cons nj rest' =>
    obtain ⟨m, j⟩ := nj
    simp only [List.flatMap_cons, List.append_assoc, List.map_cons] at hr ⊢
    rw [spaces_succ] at hr ⊢
    simp only [List.cons_append] at hr ⊢
    rw [spaceTokens_word_space _ _ (renderInt_ne_nil first) (fun x hx => (renderInt_plain first x hx).2.1)]
    rw [spaceTokens_cons_space] at hr
    rw [hr]; simp [Function.comp_def]

theorem mapM_parseInt_render : ∀ idx : List Int, (idx.map renderInt).mapM parseInt? = some idx
  | [] => rfl
  | i :: idx => by
    simp only [List.map_cons, List.mapM_cons, parseInt_renderInt, mapM_parseInt_render idx]
    rfl

/-! ### trimming -/

theorem dropWhile_spaces_append (w : List Char) (hw : ∀ c, w.head? = some c → c ≠ ' ') : ∀ n : Nat,
    (spaces n ++ w).dropWhile (· = ' ') = w
  | 0 => by
    simp only [spaces, List.replicate_zero, List.nil_append]
    cases w with
    | nil => rfl
    | cons a as =>
      have := hw a rfl
      simp [List.dropWhile_cons, this]
  | n + 1 => by
    rw [spaces_succ, List.cons_append, List.dropWhile_cons]
    simp only [decide_true, if_true]
    exact dropWhile_spaces_append w hw n

theorem spaces_reverse (n : Nat) : (spaces n).reverse = spaces n := by simp [spaces]

/-- `trimSpaces` removes blanks on both sides of a blank-free non-empty word. -/
theorem trimSpaces_word (w : List Char) (hne : w ≠ []) (hw : ∀ x ∈ w, x ≠ ' ') (a b : Nat) :
    trimSpaces (spaces a ++ w ++ spaces b) = w := by
  unfold trimSpaces
  have h1 : ∀ c, (w ++ spaces b).head? = some c → c ≠ ' ' := by
    intro c hc
    cases w with
    | nil => exact absurd rfl hne
    | cons x xs => simp only [List.cons_append, List.head?_cons, Option.some.injEq] at hc
                   subst hc; exact hw _ List.mem_cons_self
  rw [List.append_assoc, dropWhile_spaces_append _ h1 a, List.reverse_append, spaces_reverse]
  have h2 : ∀ c, w.reverse.head? = some c → c ≠ ' ' := by
    intro c hc
    have : c ∈ w.reverse := List.mem_of_mem_head? hc
    exact hw c (List.mem_reverse.1 this)
  rw [dropWhile_spaces_append _ h2 b, List.reverse_reverse]

/-! ### the reader on a bracketed string -/

theorem plain_ne_bracket {c : Char} (h : plainChar c = true) :
    c ≠ '[' ∧ c ≠ ']' ∧ c ≠ '(' ∧ c ≠ ')' ∧ c ≠ '<' ∧ c ≠ '>' ∧ c ≠ '{' ∧ c ≠ '}' := by
  refine ⟨?_, ?_, ?_, ?_, ?_, ?_, ?_, ?_⟩ <;> (rintro rfl; revert h; decide)

theorem findIdx_cs_none (P B T : List Char) (o c b : Char)
    (hP : ∀ x ∈ P, x ≠ b) (hB : ∀ x ∈ B, x ≠ b) (hT : ∀ x ∈ T, x ≠ b) (ho : o ≠ b) (hc : c ≠ b) :
    findIdx b (P ++ o :: (B ++ c :: T)) = none := by
  apply findIdx_none
  intro x hx
  simp only [List.mem_append, List.mem_cons] at hx
  rcases hx with hx | rfl | hx | rfl | hx
  · exact hP x hx
  · exact ho
  · exact hB x hx
  · exact hc
  · exact hT x hx

theorem findIdx_cs_close (P B T : List Char) (o c : Char)
    (hP : ∀ x ∈ P, x ≠ c) (hB : ∀ x ∈ B, x ≠ c) (ho : o ≠ c) :
    findIdx c (P ++ o :: (B ++ c :: T)) = some (P.length + 1 + B.length) := by
  have : P ++ o :: (B ++ c :: T) = (P ++ o :: B) ++ c :: T := by simp
  rw [this, findIdx_append_hit]
  · simp; omega
  · intro x hx
    simp only [List.mem_append, List.mem_cons] at hx
    rcases hx with hx | rfl | hx
    · exact hP x hx
    · exact ho
    · exact hB x hx

theorem take_cs (P B T : List Char) (o c : Char) : (P ++ o :: (B ++ c :: T)).take P.length = P := by
  simp

theorem inner_cs (P B T : List Char) (o c : Char) :
    ((P ++ o :: (B ++ c :: T)).take (P.length + 1 + B.length)).drop (P.length + 1) = B := by
  have : P ++ o :: (B ++ c :: T) = (P ++ o :: B) ++ c :: T := by simp
  rw [this]
  have hl : P.length + 1 + B.length = (P ++ o :: B).length := by simp; omega
  rw [hl, List.take_left' rfl]
  have : P ++ o :: B = (P ++ [o]) ++ B := by simp
  rw [this]
  have hl2 : P.length + 1 = (P ++ [o]).length := by simp
  rw [hl2, List.drop_left' rfl]

theorem findBracket_cs (P B T : List Char) (k : Char × Char) (hk : k ∈ bracketPairs)
    (hP : ∀ x ∈ P, plainChar x = true) (hB : ∀ x ∈ B, plainChar x = true) (hT : ∀ x ∈ T, plainChar x = true) :
    findBracket (P ++ k.1 :: (B ++ k.2 :: T)) bracketPairs = some (P.length, k.2) := by
  have nP : ∀ b, (∀ x, plainChar x = true → x ≠ b) → ∀ x ∈ P, x ≠ b := fun b hb x hx => hb x (hP x hx)
  have nB : ∀ b, (∀ x, plainChar x = true → x ≠ b) → ∀ x ∈ B, x ≠ b := fun b hb x hx => hb x (hB x hx)
  have nT : ∀ b, (∀ x, plainChar x = true → x ≠ b) → ∀ x ∈ T, x ≠ b := fun b hb x hx => hb x (hT x hx)
  have b1 : ∀ x, plainChar x = true → x ≠ '[' := fun x h => (plain_ne_bracket h).1
  have b3 : ∀ x, plainChar x = true → x ≠ '(' := fun x h => (plain_ne_bracket h).2.2.1
  have b5 : ∀ x, plainChar x = true → x ≠ '<' := fun x h => (plain_ne_bracket h).2.2.2.2.1
  have b7 : ∀ x, plainChar x = true → x ≠ '{' := fun x h => (plain_ne_bracket h).2.2.2.2.2.2.1
  simp only [bracketPairs, List.mem_cons, List.mem_nil_iff, or_false] at hk
  rcases hk with rfl | rfl | rfl | rfl
  · simp only [bracketPairs, findBracket, findIdx_append_hit P _ (nP _ b1)]
  · simp only [bracketPairs, findBracket,
      findIdx_cs_none P B T '(' ')' '[' (nP _ b1) (nB _ b1) (nT _ b1) (by decide) (by decide),
      findIdx_append_hit P _ (nP _ b3)]
  · simp only [bracketPairs, findBracket,
      findIdx_cs_none P B T '<' '>' '[' (nP _ b1) (nB _ b1) (nT _ b1) (by decide) (by decide),
      findIdx_cs_none P B T '<' '>' '(' (nP _ b3) (nB _ b3) (nT _ b3) (by decide) (by decide),
      findIdx_append_hit P _ (nP _ b5)]
  · simp only [bracketPairs, findBracket,
      findIdx_cs_none P B T '{' '}' '[' (nP _ b1) (nB _ b1) (nT _ b1) (by decide) (by decide),
      findIdx_cs_none P B T '{' '}' '(' (nP _ b3) (nB _ b3) (nT _ b3) (by decide) (by decide),
      findIdx_cs_none P B T '{' '}' '<' (nP _ b5) (nB _ b5) (nT _ b5) (by decide) (by decide),
      findIdx_append_hit P _ (nP _ b7)]

theorem close_cs (P B T : List Char) (k : Char × Char) (hk : k ∈ bracketPairs)
    (hP : ∀ x ∈ P, plainChar x = true) (hB : ∀ x ∈ B, plainChar x = true) :
    findIdx k.2 (P ++ k.1 :: (B ++ k.2 :: T)) = some (P.length + 1 + B.length) := by
  simp only [bracketPairs, List.mem_cons, List.mem_nil_iff, or_false] at hk
  rcases hk with rfl | rfl | rfl | rfl
  · exact findIdx_cs_close P B T _ _ (fun x hx => (plain_ne_bracket (hP x hx)).2.1)
      (fun x hx => (plain_ne_bracket (hB x hx)).2.1) (by decide)
  · exact findIdx_cs_close P B T _ _ (fun x hx => (plain_ne_bracket (hP x hx)).2.2.2.1)
      (fun x hx => (plain_ne_bracket (hB x hx)).2.2.2.1) (by decide)
  · exact findIdx_cs_close P B T _ _ (fun x hx => (plain_ne_bracket (hP x hx)).2.2.2.2.2.1)
      (fun x hx => (plain_ne_bracket (hB x hx)).2.2.2.2.2.1) (by decide)
  · exact findIdx_cs_close P B T _ _ (fun x hx => (plain_ne_bracket (hP x hx)).2.2.2.2.2.2.2)
      (fun x hx => (plain_ne_bracket (hB x hx)).2.2.2.2.2.2.2) (by decide)

/-- `fromChars` on prefix, bracket, body, bracket, tail. -/
theorem fromChars_cs (P B T : List Char) (k : Char × Char) (hk : k ∈ bracketPairs)
    (hP : ∀ x ∈ P, plainChar x = true) (hB : ∀ x ∈ B, plainChar x = true) (hT : ∀ x ∈ T, plainChar x = true)
    (fr : Rat) (hfr : fracOf P = .ok fr) (idx : List Int) (htok : (spaceTokens B).mapM parseInt? = some idx)
    (hlen : idx.length = 3 ∨ idx.length = 4) :
    fromChars (P ++ k.1 :: (B ++ k.2 :: T)) = .ok (idx.map fun (i : Int) => fr * (i : Rat)) := by
  unfold fromChars
  rw [findBracket_cs P B T k hk hP hB hT]
  simp only [close_cs P B T k hk hP hB, take_cs, inner_cs, htok, hfr, hlen, if_true]

/-! ### the writer produces such strings -/

theorem spaces_plain (n : Nat) : ∀ x ∈ spaces n, plainChar x = true := by
  intro x hx; rw [spaces_mem hx]; decide

theorem natDigits_eq_renderInt (q : Nat) : natDigits q = renderInt (q : Int) := by
  unfold renderInt
  have : ¬ ((q : Int) < 0) := by omega
  simp only [this, if_false, Int.natAbs_natCast]

theorem natDigits_plain (q : Nat) : ∀ c ∈ natDigits q, plainChar c = true ∧ c ≠ ' ' ∧ c ≠ '/' := by
  rw [natDigits_eq_renderInt]; exact renderInt_plain _

theorem prefixW_plain (frac : Option (Int × Nat)) (lead gap : Nat) : ∀ x ∈ prefixW frac lead gap, plainChar x = true := by
  intro x hx
  unfold prefixW at hx
  split at hx
  · simp at hx
  · simp only [List.mem_append, List.mem_cons] at hx
    rcases hx with ((hx | hx) | rfl | hx) | hx
    · exact spaces_plain _ x hx
    · exact (renderInt_plain _ x hx).1
    · decide
    · exact (natDigits_plain _ x hx).1
    · exact spaces_plain _ x hx

theorem bodyW_plain (pad1 : Nat) (first : Int) (rest : List (Nat × Int)) (pad2 : Nat) :
    ∀ x ∈ bodyW pad1 first rest pad2, plainChar x = true := by
  intro x hx
  unfold bodyW at hx
  simp only [List.mem_append, List.mem_flatMap] at hx
  rcases hx with ((hx | hx) | ⟨ni, _, hx | hx⟩) | hx
  · exact spaces_plain _ x hx
  · exact (renderInt_plain _ x hx).1
  · exact spaces_plain _ x hx
  · exact (renderInt_plain _ x hx).1
  · exact spaces_plain _ x hx

theorem fracOf_prefixW (frac : Option (Int × Nat)) (lead gap : Nat) (hq : ∀ p q, frac = some (p, q) → q ≠ 0) :
    fracOf (prefixW frac lead gap) = .ok (fracVal frac) := by
  cases frac with
  | none => simp [prefixW, fracOf, fracVal]
  | some pq =>
    obtain ⟨p, q⟩ := pq
    have hq0 : q ≠ 0 := hq p q rfl
    have hsplit : splitOnChar '/' (prefixW (some (p, q)) lead gap)
        = [spaces lead ++ renderInt p, natDigits q ++ spaces gap] := by
      have : prefixW (some (p, q)) lead gap = (spaces lead ++ renderInt p) ++ '/' :: (natDigits q ++ spaces gap) := by
        simp [prefixW]
      rw [this, splitOnChar_append_sep, splitOnChar_free, splitOnChar_free]
      · rfl
      · intro x hx
        rcases List.mem_append.1 hx with hx | hx
        · exact (natDigits_plain _ x hx).2.2
        · rw [spaces_mem hx]; decide
      · intro x hx
        rcases List.mem_append.1 hx with hx | hx
        · rw [spaces_mem hx]; decide
        · exact (renderInt_plain _ x hx).2.2
    have hlen : (prefixW (some (p, q)) lead gap).length > 0 := by simp [prefixW]
    have hp : parseInt? (trimSpaces (spaces lead ++ renderInt p)) = some p := by
      have := trimSpaces_word (renderInt p) (renderInt_ne_nil p) (fun x hx => (renderInt_plain p x hx).2.1) lead 0
      simp only [spaces, List.replicate_zero, List.append_nil] at this ⊢
      rw [this, parseInt_renderInt]
    have hqq : parseInt? (trimSpaces (natDigits q ++ spaces gap)) = some (q : Int) := by
      have := trimSpaces_word (natDigits q) (natDigits_ne_nil q) (fun x hx => (natDigits_plain q x hx).2.1) 0 gap
      simp only [spaces, List.replicate_zero, List.nil_append] at this ⊢
      rw [this, natDigits_eq_renderInt, parseInt_renderInt]
    unfold fracOf
    simp only [hlen, if_true, hsplit, hp, hqq]
    have : ¬ ((q : Int) = 0) := by omega
    simp only [this, if_false, fracVal]

/-- **index strings parse to the numbers they show** (free spacing): for every optional fraction `p/q`
    (`q ≠ 0`), bracket kind, 3 or 4 integers of any size and sign, and any amount of blanks in the places
    where blanks may stand, the reader returns exactly `p/q` times the integers written. -/
theorem fromString_renderW (frac : Option (Int × Nat)) (lead gap : Nat) (k : Char × Char) (hk : k ∈ bracketPairs)
    (pad1 : Nat) (first : Int) (rest : List (Nat × Int)) (pad2 trail : Nat)
    (hlen : rest.length = 2 ∨ rest.length = 3) (hq : ∀ p q, frac = some (p, q) → q ≠ 0) :
    fromChars (renderW frac lead gap k pad1 first rest pad2 trail)
      = .ok ((first :: rest.map Prod.snd).map fun (i : Int) => fracVal frac * (i : Rat)) := by
  have hshape : renderW frac lead gap k pad1 first rest pad2 trail
      = prefixW frac lead gap ++ k.1 :: (bodyW pad1 first rest pad2 ++ k.2 :: spaces trail) := by
    simp [renderW]
  rw [hshape]
  apply fromChars_cs _ _ _ k hk (prefixW_plain _ _ _) (bodyW_plain _ _ _ _) (spaces_plain _) _
    (fracOf_prefixW frac lead gap hq)
  · rw [spaceTokens_bodyW]; exact mapM_parseInt_render _
  · simp only [List.length_cons, List.length_map]; omega

theorem intercalateSp_cons (w : List Char) : ∀ ws : List (List Char),
    intercalateSp (w :: ws) = w ++ ws.flatMap (fun v => ' ' :: v)
  | [] => by simp [intercalateSp]
  | v :: ws => by
    have ih := intercalateSp_cons v ws
    simp only [intercalateSp, ih, List.flatMap_cons, List.cons_append, List.append_assoc]

theorem render_eq_renderW (frac : Option (Int × Nat)) (k : Char × Char) (first : Int) (rest : List Int) :
    render frac k (first :: rest) = renderW frac 0 1 k 0 first (rest.map fun i => (0, i)) 0 0 := by
  unfold render renderW prefixW bodyW
  have hb : intercalateSp ((first :: rest).map renderInt)
      = renderInt first ++ (rest.map fun i => ((0 : Nat), i)).flatMap (fun ni => spaces (ni.1 + 1) ++ renderInt ni.2) := by
    rw [List.map_cons, intercalateSp_cons]
    congr 1
    induction rest with
    | nil => rfl
    | cons r rs ih => simp only [List.map_cons, List.flatMap_cons, ih]; rfl
  rw [hb]
  cases frac with
  | none => simp [spaces]
  | some pq => obtain ⟨p, q⟩ := pq; simp [spaces]

/-- `parse (render frac idx) = frac · idx`: the string written with single blanks (the documented form
    `1/3 [1 1 -2 0]`), any bracket kind, parses to the numbers it shows. -/
theorem fromString_render (frac : Option (Int × Nat)) (k : Char × Char) (hk : k ∈ bracketPairs) (idx : List Int)
    (hlen : idx.length = 3 ∨ idx.length = 4) (hq : ∀ p q, frac = some (p, q) → q ≠ 0) :
    fromChars (render frac k idx) = .ok (idx.map fun (i : Int) => fracVal frac * (i : Rat)) := by
  cases idx with
  | nil => simp at hlen
  | cons first rest =>
    rw [render_eq_renderW, fromString_renderW frac 0 1 k hk 0 first _ 0 0 _ hq]
    · simp [List.map_map, Function.comp_def]
    · simp only [List.length_cons, List.length_map] at hlen ⊢; omega

/-- multi-digit and signed indices are read whole (non-vacuity of the two theorems, by evaluation). -/
example : fromChars "[10 0 1]".toList = .ok [10, 0, 1] := by decide +kernel
example : fromChars "1/2 (1 -12 3)".toList = .ok [1 / 2, -6, 3 / 2] := by decide +kernel
example : render (some (1, 3)) ('[', ']') [11, -10, -1, 0] = "1/3 [11 -10 -1 0]".toList := by decide +kernel
example : renderW (some (-1, 12)) 1 0 ('{', '}') 2 10 [(1, -11), (0, 120)] 1 1 = " -1/12{  10  -11 120 } ".toList := by
  decide +kernel

end Atomman.C16
