/-
  C03 — the bin table `xyzbins` with fixed capacity (rows `[count, a_1, …]`, growth as coded) refines the bins as
  lists: `membersA (fillBins P es) b = members es b` for every growth block `P` that is `Sound`, and the block that
  stands in nlist.pyx now (`srcBinParams`, regenerated from the source on every run) is `Sound`.
-/
import Atomman.C03
import Mathlib.Tactic.Ring
import Mathlib.Tactic.Linarith
import Mathlib.Data.List.Basic

set_option linter.unusedSimpArgs false
set_option linter.unusedVariables false
set_option linter.unusedTactic false
set_option linter.unreachableTactic false

namespace Atomman.C03
open List

/-- what the growth block has to guarantee (`s` = number of spare slots the trigger leaves unused: the row
    `[count, a_1, …, a_m]` may hold `count ≤ m - 1 + s` atoms):
    * without growth the new count still fits and the write `row[c]` is inside the row;
    * with growth every column that can be in use (`< m + s`) is copied, no column outside the old array is read,
      the new array is one wider than the new `maxatomsperbin`, which does not shrink and leaves room for `c`. -/
structure BinParams.Sound (P : BinParams) (s : Nat) : Prop where
  init_room : 1 ≤ P.init + s
  init_width : P.initWidth P.init = P.init + 1
  no_grow : ∀ c m, c ≤ m + s → P.trigger c m = false → c + 1 ≤ m + s ∧ c ≤ m
  on_grow : ∀ c m, c ≤ m + s → P.trigger c m = true →
    m + s ≤ P.copyCols m ∧ P.copyCols m ≤ m + 1 ∧ P.newWidth m = P.grow m + 1 ∧
      c + 1 ≤ P.grow m + s ∧ c ≤ P.grow m ∧ m ≤ P.grow m

/-! ### table access -/

theorem BinTab.get_cons (m w : Nat) (b0 : Idx) (r : List Nat) (t : List (Idx × List Nat)) (b : Idx) :
    (BinTab.mk m w ((b0, r) :: t)).get b = if b = b0 then r else (BinTab.mk m w t).get b := by
  unfold BinTab.get
  simp only [List.lookup_cons]
  by_cases h : b = b0
  · subst h; simp
  · have : (b == b0) = false := by simpa using h
    simp [this, h]

theorem BinTab.get_map (m w m' w' : Nat) (f : List Nat → List Nat) (t : List (Idx × List Nat))
    (hf : f (List.replicate w 0) = List.replicate w' 0) (b : Idx) :
    (BinTab.mk m' w' (t.map fun kv => (kv.1, f kv.2))).get b = f ((BinTab.mk m w t).get b) := by
  induction t with
  | nil => simp [BinTab.get, hf]
  | cons kv t ih =>
    obtain ⟨k, v⟩ := kv
    rw [List.map_cons, BinTab.get_cons, BinTab.get_cons]
    by_cases h : b = k
    · simp [h]
    · simp only [h, if_false]; exact ih

/-! ### rows -/

/-- `row[1 .. k]`. -/
def rowItems (row : List Nat) (k : Nat) : List Nat := (row.drop 1).take k

theorem membersA_eq (st : BinTab) (b : Idx) : membersA st b = rowItems (st.get b) ((st.get b).getD 0 0) := rfl

theorem rowItems_getElem? (row : List Nat) (k i : Nat) :
    (rowItems row k)[i]? = if i < k then row[i + 1]? else none := by
  unfold rowItems
  rw [List.getElem?_take]
  by_cases h : i < k
  · simp [h, List.getElem?_drop, Nat.add_comm]
  · simp [h]

theorem growBinRow_length (P : BinParams) (m : Nat) (row : List Nat) :
    (growBinRow P m row).length = P.newWidth m := by
  simp [growBinRow]

theorem growBinRow_getElem? (P : BinParams) (m : Nat) (row : List Nat) (l : Nat) (h1 : l < P.copyCols m)
    (h2 : l < P.newWidth m) (h3 : l < row.length) : (growBinRow P m row)[l]? = row[l]? := by
  simp [growBinRow, h1, h2, List.getD_eq_getElem?_getD, List.getElem?_eq_getElem h3]

theorem growBinRow_zeros (P : BinParams) (m w : Nat) :
    growBinRow P m (List.replicate w 0) = List.replicate (P.newWidth m) 0 := by
  have hf : (fun l => if l < P.copyCols m then (List.replicate w 0).getD l 0 else 0) = fun _ => 0 := by
    funext l
    split
    · rw [List.getD_eq_getElem?_getD, List.getElem?_replicate]; split <;> rfl
    · rfl
  unfold growBinRow
  rw [hf, List.map_const', List.length_range]

theorem getD0_eq (row : List Nat) : row.getD 0 0 = row[0]?.getD 0 := by
  simp [List.getD_eq_getElem?_getD]

/-- growth keeps count and items of a row whose used columns are all copied. -/
theorem growBinRow_keeps (P : BinParams) (m : Nat) (row : List Nat) (k : Nat) (hk : row.getD 0 0 = k)
    (h1 : k + 1 ≤ P.copyCols m) (h2 : k + 1 ≤ P.newWidth m) (h3 : k + 1 ≤ row.length) :
    (growBinRow P m row).getD 0 0 = k ∧ rowItems (growBinRow P m row) k = rowItems row k := by
  constructor
  · rw [getD0_eq, growBinRow_getElem? P m row 0 (by omega) (by omega) (by omega), ← getD0_eq, hk]
  · apply List.ext_getElem?
    intro i
    rw [rowItems_getElem?, rowItems_getElem?]
    by_cases h : i < k
    · simp only [h, if_true]
      exact growBinRow_getElem? P m row (i + 1) (by omega) (by omega) (by omega)
    · simp [h]

/-- the two writes `row[0] = c; row[c] = a` append `a` to the items. -/
theorem row_write (row : List Nat) (k a : Nat) (hk : row.getD 0 0 = k) (hlen : k + 1 < row.length) :
    ((row.set 0 (k + 1)).set (k + 1) a).length = row.length ∧
    ((row.set 0 (k + 1)).set (k + 1) a).getD 0 0 = k + 1 ∧
    rowItems ((row.set 0 (k + 1)).set (k + 1) a) (k + 1) = rowItems row k ++ [a] := by
  refine ⟨by simp, ?_, ?_⟩
  · rw [getD0_eq, List.getElem?_set_ne (by omega), List.getElem?_set_self (by omega)]
    rfl
  · apply List.ext_getElem?
    intro i
    rw [rowItems_getElem?]
    by_cases h : i < k
    · have h' : i < k + 1 := by omega
      simp only [h', if_true]
      rw [List.getElem?_set_ne (by omega), List.getElem?_set_ne (by omega),
        List.getElem?_append_left (by simp [rowItems]; omega), rowItems_getElem?]
      simp only [h, if_true]
    · by_cases h2 : i = k
      · subst h2
        simp only [Nat.lt_succ_self, if_true]
        rw [List.getElem?_set_self (by simp; omega),
          List.getElem?_append_right (by simp [rowItems])]
        have : (rowItems row i).length = i := by simp [rowItems]; omega
        simp [this]
      · have h' : ¬ i < k + 1 := by omega
        simp only [h', if_false]
        rw [List.getElem?_eq_none]
        simp [rowItems]; omega

/-! ### the invariant -/

theorem members_append (es : List (Nat × Idx)) (e : Nat × Idx) (b : Idx) :
    members (es ++ [e]) b = members es b ++ (if e.2 = b then [e.1] else []) := by
  unfold members
  rw [List.filter_append, List.map_append]
  by_cases h : e.2 = b
  · simp [h]
  · have : (e.2 == b) = false := by simpa using h
    simp [List.filter_cons, this, h]

/-- every row has the array width, holds count and items of the list bin, and has room as granted by `s`. -/
def BinInv (s : Nat) (es : List (Nat × Idx)) (st : BinTab) : Prop :=
  st.width = st.maxapb + 1 ∧
  ∀ b, (st.get b).length = st.width ∧ (st.get b).getD 0 0 = (members es b).length ∧
    rowItems (st.get b) (members es b).length = members es b ∧ (members es b).length + 1 ≤ st.maxapb + s

theorem binInv_init (P : BinParams) (s : Nat) (h : P.Sound s) : BinInv s [] (initBins P) := by
  refine ⟨h.init_width, fun b => ?_⟩
  have : (initBins P).get b = List.replicate (P.initWidth P.init) 0 := by simp [initBins, BinTab.get]
  rw [this]
  have hw := h.init_width
  have hr := h.init_room
  refine ⟨by simp [initBins], ?_, ?_, ?_⟩
  · simp [members, hw]
  · simp [members, rowItems]
  · simp [members, initBins]; omega

theorem binFill_inv (P : BinParams) (s : Nat) (h : P.Sound s) (es : List (Nat × Idx)) (st : BinTab)
    (hinv : BinInv s es st) (e : Nat × Idx) : BinInv s (es ++ [e]) (binFill P st e) := by
  obtain ⟨hw, hrows⟩ := hinv
  obtain ⟨a, b0⟩ := e
  obtain ⟨hl0, hc0, hi0, hroom0⟩ := hrows b0
  obtain ⟨k, hk⟩ : ∃ k, (members es b0).length = k := ⟨_, rfl⟩
  rw [hk] at hc0 hi0 hroom0
  -- the table after the (possible) growth still satisfies the invariant for `es`, with room for `c`
  have key : ∃ st1 : BinTab, binFill P st (a, b0) =
        ⟨st1.maxapb, st1.width, (b0, ((st1.get b0).set 0 (k + 1)).set (k + 1) a) :: st1.tab⟩ ∧
      BinInv s es st1 ∧ k + 2 ≤ st1.maxapb + s ∧ k + 1 ≤ st1.maxapb := by
    by_cases ht : P.trigger (k + 1) st.maxapb = true
    · obtain ⟨g1, g2, g3, g4, g5, g6⟩ := h.on_grow (k + 1) st.maxapb (by omega) ht
      refine ⟨⟨P.grow st.maxapb, P.newWidth st.maxapb,
        st.tab.map fun kv => (kv.1, growBinRow P st.maxapb kv.2)⟩, ?_, ⟨g3, fun b => ?_⟩, by omega, g5⟩
      · simp only [binFill, hc0, ht, if_true]
      · obtain ⟨hl, hc, hi, hroom⟩ := hrows b
        have hg : (BinTab.mk (P.grow st.maxapb) (P.newWidth st.maxapb)
            (st.tab.map fun kv => (kv.1, growBinRow P st.maxapb kv.2))).get b =
            growBinRow P st.maxapb (st.get b) :=
          BinTab.get_map st.maxapb st.width _ _ (growBinRow P st.maxapb) st.tab (growBinRow_zeros P _ _) b
        rw [hg]
        obtain ⟨k1, k2⟩ := growBinRow_keeps P st.maxapb (st.get b) _ hc (by omega) (by omega) (by omega)
        exact ⟨growBinRow_length P _ _, k1, by rw [k2]; exact hi, by show _ ≤ P.grow st.maxapb + s; omega⟩
    · have ht' : P.trigger (k + 1) st.maxapb = false := by simpa using ht
      obtain ⟨g1, g2⟩ := h.no_grow (k + 1) st.maxapb (by omega) ht'
      refine ⟨st, ?_, ⟨hw, hrows⟩, by omega, g2⟩
      simp only [binFill, hc0, ht', Bool.false_eq_true, if_false]
  obtain ⟨st1, hfill, ⟨hw1, hrows1⟩, hroom1, hroom2⟩ := key
  rw [hfill]
  refine ⟨hw1, fun b => ?_⟩
  rw [BinTab.get_cons, members_append]
  obtain ⟨hl1, hc1, hi1, hr1⟩ := hrows1 b0
  rw [hk] at hc1 hi1 hr1
  obtain ⟨w1, w2, w3⟩ := row_write (st1.get b0) k a hc1 (by rw [hl1, hw1]; omega)
  by_cases hb : b = b0
  · subst hb
    simp only [if_true, List.length_append, List.length_singleton, hk]
    exact ⟨by rw [w1]; exact hl1, w2, by rw [w3, hi1], hroom1⟩
  · have hb' : ¬ b0 = b := fun h => hb h.symm
    simp only [hb, hb', if_false, List.append_nil]
    exact hrows1 b

theorem fillBins_inv (P : BinParams) (s : Nat) (h : P.Sound s) (es : List (Nat × Idx)) :
    BinInv s es (fillBins P es) := by
  unfold fillBins
  have gen : ∀ (rest done : List (Nat × Idx)) (st : BinTab), BinInv s done st →
      BinInv s (done ++ rest) (rest.foldl (binFill P) st) := by
    intro rest
    induction rest with
    | nil => intro done st hst; simpa using hst
    | cons e rest ih =>
      intro done st hst
      rw [List.foldl_cons]
      have := ih (done ++ [e]) _ (binFill_inv P s h done st hst e)
      simpa using this
  simpa using gen es [] _ (binInv_init P s h)

/-- the bins read from the capacity table are the bins as lists. -/
theorem membersA_fillBins (P : BinParams) (s : Nat) (h : P.Sound s) (es : List (Nat × Idx)) (b : Idx) :
    membersA (fillBins P es) b = members es b := by
  obtain ⟨_, hrows⟩ := fillBins_inv P s h es
  obtain ⟨_, hc, hi, _⟩ := hrows b
  rw [membersA_eq, hc, hi]

theorem candsOfA_eq (P : BinParams) (s : Nat) (h : P.Sound s) (G : Grid) (es : List (Nat × Idx)) :
    candsOfA P G es = candsOf G es := by
  have hb : binPairsA G (fillBins P es) = binPairs G es := by
    funext b
    unfold binPairsA binPairs stencilMembersA stencilMembers
    simp only [membersA_fillBins P s h]
  show (occupied es).flatMap (binPairsA G (fillBins P es)) = _
  rw [hb]; rfl

/-- decides `srcBinParams.Sound s` for a concrete `s` by unfolding the generated definitions. -/
macro "bin_sound" : tactic => `(tactic|
  (refine ⟨by decide, by decide, ?_, ?_⟩
   · intro c m hc ht
     simp only [srcBinParams, Gen.binTrigger, decide_eq_false_iff_not, decide_eq_true_eq, Bool.or_eq_false_iff,
       Bool.and_eq_false_iff, Bool.not_eq_false', Bool.not_eq_true'] at ht
     constructor <;> omega
   · intro c m hc ht
     simp only [srcBinParams, Gen.binTrigger, decide_eq_false_iff_not, decide_eq_true_eq, Bool.or_eq_true,
       Bool.and_eq_true, Bool.not_eq_false', Bool.not_eq_true'] at ht
     refine ⟨?_, ?_, ?_, ?_, ?_, ?_⟩ <;>
       simp only [srcBinParams, Gen.binCopyCols, Gen.binNewWidth, Gen.binGrow] <;> omega))

/-- the growth block that stands in nlist.pyx (regenerated from the source on every run) is sound: with the
    trigger `c == maxatomsperbin` and all `maxatomsperbin + 1` columns copied no slot is ever lost (`s = 0`: a row
    `[count, a_1, …, a_m]` never holds more than `m - 1` atoms; an equivalent block that uses the spare slot would
    be accepted with `s = 1`). -/
theorem srcBinParams_sound : ∃ s, srcBinParams.Sound s := by
  first
  | exact ⟨0, by bin_sound⟩
  | exact ⟨1, by bin_sound⟩

end Atomman.C03
