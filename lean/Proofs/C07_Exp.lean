/-
  C07 — helper lemmas: the `%.ne` format.  `expOf a = ⌊log₁₀ a⌋`, the mantissa has exactly `n+1` digits, an
  independent reader gets `expVal q n` back from `fmtExp q n`, and that value is within half a unit of the last
  printed digit of `q`.
-/
import Proofs.C07_Text
import Mathlib.Algebra.Order.Field.Power

namespace Atomman.C07
open Atomman
set_option linter.unusedSimpArgs false
set_option linter.unusedVariables false

/-! ### powers of ten -/

theorem pow10_eq (e : Int) : pow10 e = (10 : ℚ) ^ e := by
  unfold pow10
  split
  · rename_i h
    obtain ⟨k, rfl⟩ := Int.eq_ofNat_of_zero_le h
    simp
  · rename_i h
    have h' : 0 ≤ -e := by omega
    obtain ⟨k, hk⟩ := Int.eq_ofNat_of_zero_le h'
    have : e = -(k : Int) := by omega
    subst this
    simp

theorem pow10_pos (e : Int) : 0 < pow10 e := by rw [pow10_eq]; positivity

theorem pow10_add (a b : Int) : pow10 (a + b) = pow10 a * pow10 b := by
  simp only [pow10_eq]; exact zpow_add₀ (by norm_num) a b

theorem pow10_natCast (k : Nat) : pow10 (k : Int) = ((10 ^ k : Nat) : ℚ) := by
  rw [pow10_eq]; simp

theorem pow_width_le (m : Nat) (hm : 0 < m) : 10 ^ (width m - 1) ≤ m := by
  induction m using Nat.strong_induction_on with
  | _ m ih =>
    unfold width
    split
    · simp; omega
    · rename_i h
      have h10 : 0 < m / 10 := by omega
      have := ih (m / 10) (by omega) h10
      have hw := width_pos (m / 10)
      have e : width (m / 10) + 1 - 1 = (width (m / 10) - 1) + 1 := by omega
      rw [e, pow_succ]
      omega

/-! ### the decimal exponent -/

/-- `10^e ≤ a < 10^(e+1)` for `e = expOf a`. -/
theorem expOf_spec (a : ℚ) (ha : 0 < a) : pow10 (expOf a) ≤ a ∧ a < pow10 (expOf a + 1) := by
  have hnum : 0 < a.num := Rat.num_pos.mpr ha
  have hden : 0 < a.den := a.den_pos
  set N := a.num.natAbs with hN
  have hNpos : 0 < N := by omega
  have hNq : (a.num : ℚ) = (N : ℚ) := by
    have : a.num = (N : Int) := by omega
    rw [this]; simp
  have hq : a = (N : ℚ) / (a.den : ℚ) := by rw [← hNq]; exact (Rat.num_div_den a).symm
  have hd : (0 : ℚ) < a.den := by exact_mod_cast hden
  have hN1 : (N : ℚ) < pow10 (width N) := by rw [pow10_natCast]; exact_mod_cast lt_pow_width N
  have hN2 : pow10 ((width N : Int) - 1) ≤ (N : ℚ) := by
    have hw := width_pos N
    have : ((width N : Int) - 1) = ((width N - 1 : Nat) : Int) := by omega
    rw [this, pow10_natCast]; exact_mod_cast pow_width_le N hNpos
  have hD1 : (a.den : ℚ) < pow10 (width a.den) := by rw [pow10_natCast]; exact_mod_cast lt_pow_width a.den
  have hD2 : pow10 ((width a.den : Int) - 1) ≤ (a.den : ℚ) := by
    have hw := width_pos a.den
    have : ((width a.den : Int) - 1) = ((width a.den - 1 : Nat) : Int) := by omega
    rw [this, pow10_natCast]; exact_mod_cast pow_width_le a.den hden
  unfold expOf
  simp only [← hN]
  set e0 : Int := (width N : Int) - (width a.den : Int) with he0
  split
  · rename_i h
    refine ⟨h, ?_⟩
    -- a = N/den < 10^wN / 10^(wd-1)
    have e1 : pow10 (e0 + 1) * pow10 ((width a.den : Int) - 1) = pow10 (width N) := by
      rw [← pow10_add]; congr 1; omega
    rw [hq, div_lt_iff₀ hd]
    calc (N : ℚ) < pow10 (width N) := hN1
      _ = pow10 (e0 + 1) * pow10 ((width a.den : Int) - 1) := e1.symm
      _ ≤ pow10 (e0 + 1) * a.den := by
          apply mul_le_mul_of_nonneg_left hD2 (pow10_pos _).le
  · rename_i h
    push Not at h
    refine ⟨?_, by simpa using h⟩
    have e1 : pow10 (e0 - 1) * pow10 (width a.den) = pow10 ((width N : Int) - 1) := by
      rw [← pow10_add]; congr 1; omega
    rw [hq, le_div_iff₀ hd]
    calc pow10 (e0 - 1) * (a.den : ℚ) ≤ pow10 (e0 - 1) * pow10 (width a.den) :=
          mul_le_mul_of_nonneg_left hD1.le (pow10_pos _).le
      _ = pow10 ((width N : Int) - 1) := e1
      _ ≤ N := hN2

theorem roundDiv_rat (x : ℚ) : |((roundDiv x.num x.den : Int) : ℚ) - x| ≤ 1 / 2 := by
  have := roundDiv_error x.num x.den x.den_pos
  rwa [Rat.num_div_den] at this

/-- scaled magnitude `a·10^(n-e)` lies in `[10^n, 10^(n+1))`. -/
theorem scaled_range (a : ℚ) (ha : 0 < a) (n : Nat) :
    ((10 ^ n : Nat) : ℚ) ≤ a * pow10 ((n : Int) - expOf a) ∧
    a * pow10 ((n : Int) - expOf a) < ((10 ^ (n + 1) : Nat) : ℚ) := by
  obtain ⟨h1, h2⟩ := expOf_spec a ha
  have hp := pow10_pos ((n : Int) - expOf a)
  constructor
  · have : pow10 (expOf a) * pow10 ((n : Int) - expOf a) = ((10 ^ n : Nat) : ℚ) := by
      rw [← pow10_add, ← pow10_natCast]; congr 1; omega
    rw [← this]; exact mul_le_mul_of_nonneg_right h1 hp.le
  · have : pow10 (expOf a + 1) * pow10 ((n : Int) - expOf a) = ((10 ^ (n + 1) : Nat) : ℚ) := by
      rw [← pow10_add, ← pow10_natCast]; congr 1; push_cast; omega
    rw [← this]; exact mul_lt_mul_of_pos_right h2 hp

/-- the rounded scaled magnitude, as an integer in `[10^n, 10^(n+1)]`. -/
theorem rounded_range (a : ℚ) (ha : 0 < a) (n : Nat) :
    let x := a * pow10 ((n : Int) - expOf a)
    ((10 ^ n : Nat) : Int) ≤ roundDiv x.num x.den ∧ roundDiv x.num x.den ≤ ((10 ^ (n + 1) : Nat) : Int) := by
  intro x
  obtain ⟨h1, h2⟩ := scaled_range a ha n
  have hr := abs_le.mp (roundDiv_rat x)
  constructor
  · by_contra hc
    push Not at hc
    have : roundDiv x.num x.den + 1 ≤ ((10 ^ n : Nat) : Int) := by omega
    have hq : ((roundDiv x.num x.den : Int) : ℚ) + 1 ≤ ((10 ^ n : Nat) : ℚ) := by exact_mod_cast this
    change ((10 ^ n : Nat) : ℚ) ≤ x at h1
    linarith [hr.1]
  · by_contra hc
    push Not at hc
    have : ((10 ^ (n + 1) : Nat) : Int) + 1 ≤ roundDiv x.num x.den := by omega
    have hq : ((10 ^ (n + 1) : Nat) : ℚ) + 1 ≤ ((roundDiv x.num x.den : Int) : ℚ) := by exact_mod_cast this
    change x < ((10 ^ (n + 1) : Nat) : ℚ) at h2
    linarith [hr.2]

/-- the printed mantissa has exactly `n+1` digits and `mantissa·10^(e-n)` is the rounded scaled magnitude. -/
theorem expParts_spec (a : ℚ) (ha : 0 < a) (n : Nat) :
    10 ^ n ≤ (expParts a n).1 ∧ (expParts a n).1 < 10 ^ (n + 1) ∧
    (((expParts a n).1 : Nat) : ℚ) * pow10 ((expParts a n).2 - (n : Int)) =
      ((roundDiv (a * pow10 ((n : Int) - expOf a)).num (a * pow10 ((n : Int) - expOf a)).den : Int) : ℚ)
        * pow10 (expOf a - (n : Int)) := by
  obtain ⟨h1, h2⟩ := rounded_range a ha n
  set R := roundDiv (a * pow10 ((n : Int) - expOf a)).num (a * pow10 ((n : Int) - expOf a)).den with hR
  have hRnn : 0 ≤ R := le_trans (by positivity) h1
  have hcast : ((R.natAbs : Nat) : Int) = R := Int.natAbs_of_nonneg hRnn
  unfold expParts
  simp only [← hR]
  split
  · rename_i h
    refine ⟨le_refl _, Nat.pow_lt_pow_right (by norm_num) (by omega), ?_⟩
    have hRq : (R : ℚ) = ((10 ^ (n + 1) : Nat) : ℚ) := by
      have : R = ((10 ^ (n + 1) : Nat) : Int) := by rw [← hcast, h]
      rw [this]; simp
    rw [hRq, ← pow10_natCast, ← pow10_natCast, ← pow10_add, ← pow10_add]
    congr 1; push_cast; omega
  · rename_i h
    have hlt : R.natAbs < 10 ^ (n + 1) := by
      have : R.natAbs ≤ 10 ^ (n + 1) := by
        have : ((R.natAbs : Nat) : Int) ≤ ((10 ^ (n + 1) : Nat) : Int) := by rw [hcast]; exact h2
        exact_mod_cast this
      omega
    have hge : 10 ^ n ≤ R.natAbs := by
      have : ((10 ^ n : Nat) : Int) ≤ ((R.natAbs : Nat) : Int) := by rw [hcast]; exact h1
      exact_mod_cast this
    refine ⟨hge, hlt, ?_⟩
    have : ((R.natAbs : Nat) : ℚ) = (R : ℚ) := by
      have := congrArg (fun z : Int => (z : ℚ)) hcast
      simpa using this
    rw [this]

/-- `|expVal q n - q| ≤ ½·10^(e-n)` with `e = ⌊log₁₀|q|⌋`: half a unit of the last printed digit. -/
theorem expVal_error (q : ℚ) (n : Nat) (hq : q ≠ 0) :
    |expVal q n - q| ≤ 1 / 2 * pow10 (expOf |q| - (n : Int)) := by
  have key : ∀ a : ℚ, 0 < a →
      |(((expParts a n).1 : Nat) : ℚ) * pow10 ((expParts a n).2 - (n : Int)) - a|
        ≤ 1 / 2 * pow10 (expOf a - (n : Int)) := by
    intro a ha
    obtain ⟨_, _, e⟩ := expParts_spec a ha n
    rw [e]
    set x := a * pow10 ((n : Int) - expOf a) with hx
    have hp := pow10_pos (expOf a - (n : Int))
    have ha' : a = x * pow10 (expOf a - (n : Int)) := by
      rw [hx, mul_assoc, ← pow10_add]
      have : (n : Int) - expOf a + (expOf a - (n : Int)) = 0 := by omega
      rw [this, pow10_zero, mul_one]
    have hr := roundDiv_rat x
    have e3 : ((roundDiv x.num x.den : Int) : ℚ) * pow10 (expOf a - (n : Int)) - a
        = (((roundDiv x.num x.den : Int) : ℚ) - x) * pow10 (expOf a - (n : Int)) := by
      rw [sub_mul, ← ha']
    rw [e3, abs_mul, abs_of_pos hp]
    exact mul_le_mul_of_nonneg_right hr hp.le
  unfold expVal
  rw [if_neg hq]
  by_cases hneg : q < 0
  · have ha : 0 < -q := by linarith
    simp only [hneg, if_true]
    have := key (-q) ha
    rw [abs_of_neg hneg]
    have e : -(((expParts (-q) n).1 : Nat) : ℚ) * pow10 ((expParts (-q) n).2 - (n : Int)) - q
        = -((((expParts (-q) n).1 : Nat) : ℚ) * pow10 ((expParts (-q) n).2 - (n : Int)) - -q) := by ring
    have e2 : -((((expParts (-q) n).1 : Nat) : ℚ) * pow10 ((expParts (-q) n).2 - (n : Int))) - q
        = -((((expParts (-q) n).1 : Nat) : ℚ) * pow10 ((expParts (-q) n).2 - (n : Int)) - -q) := by ring
    rw [e2, abs_neg]; exact this
  · have ha : 0 < q := lt_of_le_of_ne (not_lt.mp hneg) (Ne.symm hq)
    simp only [hneg, if_false]
    rw [abs_of_pos ha]
    exact key q ha

/-! ### reading `fmtExp` back -/

theorem parseNat_zero_natTok (k : Nat) : parseNat? ('0' :: natTok k) = some k := by
  unfold parseNat?
  have h0 : isDigit '0' = true := by decide
  rw [if_pos ⟨by simp, by simp [List.all_cons, h0, all_isDigit_natTok]⟩]
  simp [digitsVal, digitsVal_natTok]

theorem parseNat_expDigits (k : Nat) :
    parseNat? (if k < 10 then '0' :: natTok k else natTok k) = some k := by
  split
  · exact parseNat_zero_natTok k
  · exact parseNat_natTok k

theorem parseExp_expTok (e : Int) : parseExp? ('e' :: expTok e) = some e := by
  unfold parseExp? expTok
  simp only [true_or, if_true]
  by_cases he : e < 0
  · simp only [he, if_true, splitSign_minus, parseNat_expDigits]
    congr 1; omega
  · have hs : ∀ r, splitSign ('+' :: r) = (false, r) := fun r => rfl
    simp only [he, if_false, hs, parseNat_expDigits]
    congr 1; simp; omega

/-- unsigned mantissa-and-exponent text: `d[.ddd]e±XX`. -/
theorem parseUnsigned_exp (m n : Nat) (e : Int) (hm : m < 10 ^ (n + 1)) :
    parseUnsigned? (padDigits 1 (m / 10 ^ n) ++ (if n = 0 then [] else '.' :: padDigits n (m % 10 ^ n))
        ++ 'e' :: expTok e)
      = some (((m : Nat) : ℚ) / ((10 ^ n : Nat) : ℚ) * pow10 e) := by
  have hd : m / 10 ^ n < 10 := by
    rw [Nat.div_lt_iff_lt_mul (by positivity)]; rw [pow_succ] at hm; omega
  have hfr : m % 10 ^ n < 10 ^ n := Nat.mod_lt _ (by positivity)
  have hne : padDigits 1 (m / 10 ^ n) ≠ [] := by
    intro h; have := congrArg List.length h; simp [length_padDigits] at this
  have hE : isDigit 'e' = false := by decide
  have hdot : isDigit '.' = false := by decide
  have hval : (m / 10 ^ n) % 10 ^ 1 * 10 ^ n + m % 10 ^ n = m := by
    rw [pow_one, Nat.mod_eq_of_lt hd]; exact Nat.div_add_mod' m (10 ^ n)
  have hfe : ∀ r, fracPart ('e' :: r) = ([], 'e' :: r) := fun r => rfl
  have hfd : ∀ r, fracPart ('.' :: r) = r.span isDigit := fun r => rfl
  by_cases hn : n = 0
  · subst hn
    simp only [pow_zero, Nat.div_one] at hne hd ⊢
    simp only [if_true, List.append_nil]
    unfold parseUnsigned?
    simp only [span_isDigit_append _ 'e' _ (all_isDigit_padDigits _ _) hE, hfe, parseExp_expTok,
      List.length_nil, List.append_nil, digitsVal_padDigits]
    rw [if_neg (by simp [hne])]
    have : m % 10 ^ 1 = m := by
      rw [pow_one]; exact Nat.mod_eq_of_lt hd
    simp only [zero_mul, zero_add, this, pow_zero]
  · rw [if_neg hn]
    unfold parseUnsigned?
    simp only [List.append_assoc, List.cons_append,
      span_isDigit_append _ '.' _ (all_isDigit_padDigits _ _) hdot, hfd,
      span_isDigit_append _ 'e' _ (all_isDigit_padDigits _ _) hE, parseExp_expTok, length_padDigits]
    rw [if_neg (by simp [hne])]
    simp only [digitsVal_append, digitsVal_padDigits, Nat.mod_eq_of_lt hfr, zero_mul, zero_add, hval]

theorem splitSign_padDigits1 (d : Nat) (r : List Char) : splitSign (padDigits 1 d ++ r) = (false, padDigits 1 d ++ r) := by
  have hm : d % 10 < 10 := Nat.mod_lt _ (by norm_num)
  simp only [padDigits, List.nil_append, List.cons_append]
  exact splitSign_cons_digit _ _ (isDigit_digitChar _ hm)

/-- the independent number parser reads the text of `'%.ne' % q` as exactly `expVal q n`. -/
theorem parseNum_fmtExp (q : ℚ) (n : Nat) : parseNum? (fmtExp q n) = some (expVal q n) := by
  by_cases hq : q = 0
  · subst hq
    have h := parseUnsigned_exp 0 n 0 (by positivity)
    simp only [Nat.zero_div, Nat.zero_mod] at h
    unfold parseNum? fmtExp expVal
    simp only [lt_self_iff_false, if_false, if_true, List.nil_append]
    have e : ('0' :: (if n = 0 then [] else '.' :: padDigits n 0) ++ 'e' :: expTok 0)
        = (padDigits 1 0 ++ (if n = 0 then [] else '.' :: padDigits n 0) ++ 'e' :: expTok 0) := by
      simp [padDigits, digitChar]
    rw [e, List.append_assoc, splitSign_padDigits1]
    simp only [List.append_assoc] at h
    simp only [h]; simp
  · unfold parseNum? fmtExp expVal
    simp only [hq, if_false]
    by_cases hneg : q < 0
    · have ha : 0 < -q := by linarith
      obtain ⟨_, hlt, _⟩ := expParts_spec (-q) ha n
      have h := parseUnsigned_exp (expParts (-q) n).1 n (expParts (-q) n).2 hlt
      simp only [hneg, if_true, List.cons_append, List.nil_append, List.append_assoc, splitSign_minus] at h ⊢
      rw [h]
      simp only [if_true, Option.some.injEq]
      have : pow10 ((expParts (-q) n).2 - (n : Int)) = pow10 (expParts (-q) n).2 / ((10 ^ n : Nat) : ℚ) := by
        rw [sub_eq_add_neg, pow10_add, ← pow10_natCast, pow10_eq (-(n : Int)), pow10_eq (n : Int), zpow_neg]; rfl
      rw [this]; ring
    · have ha : 0 < q := lt_of_le_of_ne (not_lt.mp hneg) (Ne.symm hq)
      obtain ⟨_, hlt, _⟩ := expParts_spec q ha n
      have h := parseUnsigned_exp (expParts q n).1 n (expParts q n).2 hlt
      simp only [hneg, if_false, List.nil_append, List.append_assoc] at h ⊢
      rw [splitSign_padDigits1, h]
      simp only [Bool.false_eq_true, if_false, Option.some.injEq]
      have : pow10 ((expParts q n).2 - (n : Int)) = pow10 (expParts q n).2 / ((10 ^ n : Nat) : ℚ) := by
        rw [sub_eq_add_neg, pow10_add, ← pow10_natCast, pow10_eq (-(n : Int)), pow10_eq (n : Int), zpow_neg]; rfl
      rw [this]; ring

end Atomman.C07
