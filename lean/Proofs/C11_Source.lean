/-
  C11 — source tie of `atomman/tools/axes_check.py`: the definitions regenerated from the source on every run
  (`Generated/AxesCheck.lean`: entries of the returned array, the `allclose` tests in program order) say what the
  hand-written reference `axesCheckRef` says.  A source edit that changes what `axes_check` computes (which norms
  divide which rows, a dropped transpose, exchanged cross-product operands, another tolerance or exception) either
  re-proves or breaks `gen_axesCheck_eq_model`.
-/
import Proofs.C11_Lemmas

namespace Atomman.C11
open Atomman.Gen
set_option linter.unusedSectionVars false
set_option linter.unusedSimpArgs false
set_option linter.unusedVariables false

variable {K : Type} [Field K] [LinearOrder K] [IsStrictOrderedRing K]

/-- the generated entries of the returned array are the rows divided by their lengths. -/
theorem gen_axesCheckU_eq_model (axes : M33 K) (norms : Fin 3 → K) :
    m33 (axesCheckU axes norms) = fun i j => axes i j / norms i := by
  funext i j
  fin_cases i <;> fin_cases j <;> rfl

/-- two tests in program order: the first that fails decides. -/
theorem find_two {α : Type} (p : α → Bool) (a b : α) :
    [a, b].find? p = if p a then some a else if p b then some b else none := by
  simp only [List.find?]
  cases p a <;> cases p b <;> rfl

/-- the generated `axes_check` (tests in program order, then the generated result) is the reference reading. -/
theorem gen_axesCheck_eq_model (tol : K) (axes : M33 K) (norms : Fin 3 → K) :
    axesCheckT tol axes norms = axesCheckRef tol axes norms := by
  unfold axesCheckT
  rw [gen_axesCheckU_eq_model]
  unfold axesCheckTests
  rw [find_two]
  have h1 : ∀ (f : K → K → Bool), (idx3.all fun p => f (sum3 fun k => (axes p.1 k / norms p.1) * (axes p.2 k / norms p.2))
      ((fun i j : Fin 3 => if i = j then ((1 : Nat) : K) else ((0 : Nat) : K)) p.1 p.2)) = 
      ([(0,0),(0,1),(0,2),(1,0),(1,1),(1,2),(2,0),(2,1),(2,2)] : List (Fin 3 × Fin 3)).all fun p => 
        f (sum3 fun k => (axes p.1 k / norms p.1) * (axes p.2 k / norms p.2)) (if p.1 = p.2 then ((1 : Nat) : K) else ((0 : Nat) : K)) := by
    intro f; rfl
  unfold axesCheckRef
  simp only [h1]
  simp only [List.all_cons, List.all_nil, sum3, Bool.and_true, errClass, if_true, List.finRange, List.ofFn, Fin.foldr, Fin.foldr.loop]
  simp only [Fin.isValue, Fin.reduceEq, reduceIte, Fin.val_zero, Fin.val_one, Fin.val_two, OfNat.ofNat_ne_zero,
    one_ne_zero, OfNat.ofNat_ne_one]
  generalize (isclose npRtol tol _ _ && (isclose npRtol tol _ _ && (isclose npRtol tol _ _ && (isclose npRtol tol _ _ &&
    (isclose npRtol tol _ _ && (isclose npRtol tol _ _ && (isclose npRtol tol _ _ && (isclose npRtol tol _ _ &&
    isclose npRtol tol _ _)))))))) = b1
  have e0 : ∀ h, (⟨0, h⟩ : Fin 3) = 0 := fun _ => rfl
  have e1 : ∀ h, (⟨1, h⟩ : Fin 3) = 1 := fun _ => rfl
  have e2 : ∀ h, (⟨2, h⟩ : Fin 3) = 2 := fun _ => rfl
  simp only [e0, e1, e2]
  generalize (isclose npRtol tol _ _ && (isclose npRtol tol _ _ && isclose npRtol tol _ _)) = b2
  cases b1 <;> cases b2 <;> rfl

end Atomman.C11
