/-
  C09 — property theorems: precedence of the hand-coded unit-expression parser, set/get inverse,
  dimension homomorphism and working-unit independence, reset_units, LAMMPS style-table dimensions.
  `Atomman/Generated/UnitTable.lean` and `LammpsStyle.lean` are regenerated from numericalunits and
  atomman/lammps/style.py on every run; `unit_table_ok` / `style_table_dims` are re-decided by the
  kernel against them.
-/
import Proofs.C09_Lemmas
import Atomman.Generated.UnitTable
import Atomman.Generated.LammpsStyle
import Mathlib.Tactic.Ring
import Mathlib.Tactic.FieldSimp
import Mathlib.Tactic.Linarith
import Mathlib.Algebra.Order.Field.Basic
import Mathlib.Algebra.Field.Rat

namespace Atomman.C09
open Atomman.Gen
set_option linter.unusedSimpArgs false
set_option linter.unusedSectionVars false
set_option linter.unusedVariables false

variable {K : Type} [Field K] [DecidableEq K]

theorem powNat_eq (a : K) (n : Nat) : powNat a n = a ^ n := by
  induction n with
  | zero => simp [powNat]
  | succ n ih => simp [powNat, ih, pow_succ]

theorem powInt_eq (a : K) (n : Int) : powInt a n = a ^ n := by
  unfold powInt
  split
  · rename_i h
    rw [powNat_eq]
    conv_rhs => rw [← Int.toNat_of_nonneg h]
    rw [zpow_natCast]
  · rename_i h
    rw [powNat_eq]
    have h' : 0 ≤ -n := by omega
    conv_rhs => rw [← neg_neg n, zpow_neg, ← Int.toNat_of_nonneg h', zpow_natCast]
    simp

def Scales.Nonzero (sc : Scales K) : Prop := sc.m ≠ 0 ∧ sc.kg ≠ 0 ∧ sc.s ≠ 0 ∧ sc.c ≠ 0 ∧ sc.k ≠ 0

theorem factor_eq (sc : Scales K) (d : D5) :
    factor sc d = sc.m ^ d.m * sc.kg ^ d.kg * sc.s ^ d.s * sc.c ^ d.c * sc.k ^ d.k := by
  simp [factor, powInt_eq]

theorem factor_zero (sc : Scales K) : factor sc D5.zero = 1 := by
  simp [factor_eq, D5.zero]

theorem factor_ne_zero {sc : Scales K} (h : sc.Nonzero) (d : D5) : factor sc d ≠ 0 := by
  obtain ⟨h1, h2, h3, h4, h5⟩ := h
  rw [factor_eq]
  have := zpow_ne_zero d.m h1; have := zpow_ne_zero d.kg h2; have := zpow_ne_zero d.s h3
  have := zpow_ne_zero d.c h4; have := zpow_ne_zero d.k h5
  simp_all

theorem factor_add {sc : Scales K} (h : sc.Nonzero) (a b : D5) :
    factor sc (D5.add a b) = factor sc a * factor sc b := by
  obtain ⟨h1, h2, h3, h4, h5⟩ := h
  simp only [factor_eq, D5.add, zpow_add₀ h1, zpow_add₀ h2, zpow_add₀ h3, zpow_add₀ h4, zpow_add₀ h5]
  ring

theorem factor_sub {sc : Scales K} (h : sc.Nonzero) (a b : D5) :
    factor sc (D5.sub a b) = factor sc a / factor sc b := by
  obtain ⟨h1, h2, h3, h4, h5⟩ := h
  simp only [factor_eq, D5.sub, zpow_sub₀ h1, zpow_sub₀ h2, zpow_sub₀ h3, zpow_sub₀ h4, zpow_sub₀ h5]
  ring

theorem factor_smul (sc : Scales K) (n : Int) (a : D5) :
    factor sc (D5.smul n a) = factor sc a ^ n := by
  simp only [factor_eq, D5.smul, zpow_mul', mul_zpow]

/-- one scaled value: `w = v · m^a kg^b s^c C^d K^e`. -/
def ScaledBy (sc : Scales K) (vd : K × D5) (w : K) : Prop := w = vd.1 * factor sc vd.2

theorem track_num_rel (toInt? : K → Option Int) {sc : Scales K} (h : sc.Nonzero) :
    AlgRel Lift.fwd (ScaledBy sc) (trackAlg toInt?) (numAlg toInt?) where
  mul := by
    rintro ⟨a, da⟩ ⟨a', da'⟩ b b' hab hab' r hr
    simp only [ScaledBy] at hab hab'
    simp only [trackAlg, Option.some.injEq] at hr
    subst hr
    refine ⟨_, rfl, ?_⟩
    simp only [ScaledBy, hab, hab', factor_add h]; ring
  div := by
    rintro ⟨a, da⟩ ⟨a', da'⟩ b b' hab hab' r hr
    simp only [ScaledBy] at hab hab'
    simp only [trackAlg] at hr
    split at hr
    · cases hr
    · rename_i hne
      simp only [Option.some.injEq] at hr
      subst hr
      have hf := factor_ne_zero h da'
      have hb' : b' ≠ 0 := by rw [hab']; exact mul_ne_zero hne hf
      refine ⟨b / b', by simp [numAlg, hb'], ?_⟩
      simp only [ScaledBy, hab, hab', factor_sub h]
      field_simp
  pow := by
    rintro ⟨a, da⟩ ⟨a', da'⟩ b b' hab hab' r hr
    simp only [ScaledBy] at hab hab'
    simp only [trackAlg] at hr
    cases hn : toInt? a' with
    | none => simp [hn] at hr
    | some n =>
      simp only [hn] at hr
      split at hr
      · rename_i hz
        split at hr
        · cases hr
        · rename_i hne
          simp only [Option.some.injEq] at hr
          subst hr
          have hb' : b' = a' := by rw [hab', hz, factor_zero]; simp
          have hf := factor_ne_zero h da
          have hb0 : ¬ (b = 0 ∧ n < 0) := by
            rintro ⟨h0, hn0⟩
            apply hne
            refine ⟨?_, hn0⟩
            rw [hab] at h0
            exact (mul_eq_zero.mp h0).resolve_right hf
          refine ⟨powInt b n, by simp [numAlg, hb', hn, hb0], ?_⟩
          simp only [ScaledBy, hab, powInt_eq, factor_smul, mul_zpow]
      · cases hr
  num := by
    intro m e r hr
    simp only [trackAlg, Option.some.injEq] at hr
    subst hr
    exact ⟨_, rfl, by simp [ScaledBy, factor_zero]⟩

theorem env_track_rel (tab : List UnitEntry) (sc : Scales K) (n : List Char) :
    Lift.fwd.rel (ScaledBy sc) (envTracked tab n) (envOf tab sc n) := by
  intro r hr
  simp only [envTracked, envOf] at hr ⊢
  cases hl : lookup tab n with
  | none => simp [hl] at hr
  | some e =>
    simp only [hl, Option.map_some, Option.some.injEq] at hr ⊢
    subst hr
    exact ⟨_, rfl, rfl⟩



/-! ## the property theorems -/

/-- **precedence** (central theorem): every rendering of every expression tree in the ordinary
    grammar — any whitespace, any redundant parentheses, negative exponents, any depth — is parsed
    by the hand-coded tokeniser/reducer to the value of the tree; over every value algebra (numbers
    over any field, dimensions, …), failures included. -/
theorem parse_precedence {V : Type} (alg : Alg V) (env : List Char → Option V)
    (e : Expr) (lvl : Nat) (s : List Char) (h : Renders e lvl s) :
    parse alg env s = evalAst alg env e :=
  parse_renders alg env h

/-- `get_in_units(set_in_units(x, u), u) = x`. -/
theorem set_get_inverse (vals : List K) (f : K) (hf : f ≠ 0) :
    getInUnits (setInUnits vals f) f = vals := by
  simp only [getInUnits, setInUnits, List.map_map]
  conv_rhs => rw [← List.map_id vals]
  apply List.map_congr_left
  intro x _
  simp only [Function.comp, id]
  field_simp

/-- … and through the parser: whatever string parses to a non-zero factor. -/
theorem set_get_inverse_parse (toInt? : K → Option Int) (env : List Char → Option K) (u : Option (List Char))
    (f : K) (hu : parseUnits (numAlg toInt?) env u = some f) (hf : f ≠ 0) (vals : List K) :
    (parseUnits (numAlg toInt?) env u).map (getInUnits (setInUnits vals f)) = some vals := by
  rw [hu]; simp [set_get_inverse vals f hf]

/-- **dimension homomorphism** (string level, every string): if an expression evaluates to `(v, d)`
    under SI with dimension tracking, then after any rescaling of the base units it evaluates to
    `v · m^d₁ kg^d₂ s^d₃ C^d₄ K^d₅`. -/
theorem eval_dimension_hom (toInt? : K → Option Int) (tab : List UnitEntry) (sc : Scales K) (hsc : sc.Nonzero)
    (s : List Char) (v : K) (d : D5)
    (h : parse (trackAlg toInt?) (envTracked tab) s = some (v, d)) :
    parse (numAlg toInt?) (envOf tab sc) s = some (v * factor sc d) := by
  obtain ⟨w, hw, hr⟩ := parse_rel (L := Lift.fwd) (track_num_rel toInt? hsc) (env_track_rel tab sc) s (v, d) h
  rw [hw, hr]

/-- the same on expression trees. -/
theorem eval_dimension_hom_ast (toInt? : K → Option Int) (tab : List UnitEntry) (sc : Scales K) (hsc : sc.Nonzero)
    (e : Expr) (v : K) (d : D5)
    (h : evalAst (trackAlg toInt?) (envTracked tab) e = some (v, d)) :
    evalAst (numAlg toInt?) (envOf tab sc) e = some (v * factor sc d) := by
  obtain ⟨w, hw, hr⟩ := evalAst_rel (L := Lift.fwd) (track_num_rel toInt? hsc) (env_track_rel tab sc) e (v, d) h
  rw [hw, hr]

/-- **working-unit independence**: converting `x` from units `s1` to units `s2` of the same
    dimension gives the same number whatever the base-unit scalings are. -/
theorem same_dim_ratio_invariant (toInt? : K → Option Int) (tab : List UnitEntry)
    (s1 s2 : List Char) (v1 v2 : K) (d : D5)
    (h1 : parse (trackAlg toInt?) (envTracked tab) s1 = some (v1, d))
    (h2 : parse (trackAlg toInt?) (envTracked tab) s2 = some (v2, d)) (hv2 : v2 ≠ 0)
    (sc : Scales K) (hsc : sc.Nonzero) (x : List K) :
    ∃ f1 f2, parse (numAlg toInt?) (envOf tab sc) s1 = some f1
      ∧ parse (numAlg toInt?) (envOf tab sc) s2 = some f2 ∧ f2 ≠ 0
      ∧ getInUnits (setInUnits x f1) f2 = x.map (fun t => t * v1 / v2) := by
  have hf := factor_ne_zero hsc d
  refine ⟨_, _, eval_dimension_hom toInt? tab sc hsc s1 v1 d h1, eval_dimension_hom toInt? tab sc hsc s2 v2 d h2,
    mul_ne_zero hv2 hf, ?_⟩
  simp only [getInUnits, setInUnits, List.map_map]
  apply List.map_congr_left
  intro t _
  simp only [Function.comp]
  field_simp

/-! ### the dimension analysis is sound for the tracked evaluation -/

def DimSound (dv : DimVal) (vd : K × D5) : Prop :=
  dv.dim = vd.2 ∧ ∀ n, dv.ival = some n → vd.1 = (n : K)

theorem litInt_sound [CharZero K] (m e n : Int) (h : litInt? m e = some n) : (litVal m e : K) = (n : K) := by
  unfold litInt? at h
  simp only [litVal, powInt_eq]
  split at h
  · rename_i he
    obtain ⟨k, rfl⟩ := Int.eq_ofNat_of_zero_le he
    simp only [Option.some.injEq, Int.toNat_natCast] at h
    subst h
    rw [zpow_natCast]
    push_cast
    rfl
  · rename_i he
    have hk : ∃ k : Nat, e = -(k : Int) := ⟨(-e).toNat, by omega⟩
    obtain ⟨k, rfl⟩ := hk
    simp only [neg_neg, Int.toNat_natCast] at h
    split at h
    · rename_i hm
      simp only [Option.some.injEq] at h
      obtain ⟨q, hq⟩ := Int.dvd_of_emod_eq_zero hm
      have h10 : ((10 : Int) ^ k) ≠ 0 := by positivity
      have : n = q := by rw [← h, hq, Int.mul_ediv_cancel_left _ h10]
      subst this
      rw [hq, zpow_neg, zpow_natCast]
      push_cast
      have : ((10 : K) ^ k) ≠ 0 := pow_ne_zero _ (by norm_num)
      field_simp
    · cases h



theorem dim_track_rel [CharZero K] (toInt? : K → Option Int) (hI : ∀ x n, toInt? x = some n → x = (n : K)) :
    AlgRel Lift.both (DimSound (K := K)) dimAlg (trackAlg toInt?) where
  mul := by
    rintro a a' ⟨b, db⟩ ⟨b', db'⟩ ⟨h1, h2⟩ ⟨h1', h2'⟩ r r' hr hr'
    simp only [dimAlg, trackAlg, Option.some.injEq] at hr hr'
    subst hr; subst hr'
    refine ⟨by simp only at h1 h1'; simp [h1, h1'], ?_⟩
    intro n hn
    cases hx : a.ival with
    | none => simp [hx, bind2] at hn
    | some x =>
      cases hy : a'.ival with
      | none => simp [hx, hy, bind2] at hn
      | some y =>
        simp only [hx, hy, bind2, Option.some.injEq] at hn
        subst hn
        simp only at h2 h2' ⊢
        rw [h2 x hx, h2' y hy]; push_cast; rfl
  div := by
    rintro a a' ⟨b, db⟩ ⟨b', db'⟩ ⟨h1, h2⟩ ⟨h1', h2'⟩ r r' hr hr'
    simp only [dimAlg, trackAlg, Option.some.injEq] at hr hr'
    split at hr'
    · cases hr'
    · simp only [Option.some.injEq] at hr'
      subst hr; subst hr'
      exact ⟨by simp only at h1 h1'; simp [h1, h1'], by intro n hn; simp at hn⟩
  pow := by
    rintro a a' ⟨b, db⟩ ⟨b', db'⟩ ⟨h1, h2⟩ ⟨h1', h2'⟩ r r' hr hr'
    simp only [dimAlg, trackAlg] at hr hr'
    cases hx : a'.ival with
    | none => simp [hx] at hr
    | some n =>
      simp only [hx] at hr
      split at hr
      · simp only [Option.some.injEq] at hr
        cases hn' : toInt? b' with
        | none => simp [hn'] at hr'
        | some n' =>
          simp only [hn'] at hr'
          split at hr'
          · split at hr'
            · cases hr'
            · simp only [Option.some.injEq] at hr'
              subst hr; subst hr'
              have e1 : b' = (n : K) := h2' n hx
              have e2 : b' = (n' : K) := hI b' n' hn'
              have : n = n' := Int.cast_injective (α := K) (e1.symm.trans e2)
              subst this
              exact ⟨by simp only at h1; simp [h1], by intro k hk; simp at hk⟩
          · cases hr'
      · cases hr
  num := by
    intro m e r r' hr hr'
    simp only [dimAlg, trackAlg, Option.some.injEq] at hr hr'
    subst hr; subst hr'
    exact ⟨rfl, fun n hn => litInt_sound m e n hn⟩

theorem env_dim_rel (tab : List UnitEntry) (n : List Char) :
    Lift.both.rel (DimSound (K := K)) (envDim tab n) (envTracked tab n) := by
  intro r r' hr hr'
  simp only [envDim, envTracked] at hr hr'
  cases hl : lookup tab n with
  | none => simp [hl] at hr
  | some e =>
    simp only [hl, Option.map_some, Option.some.injEq] at hr hr'
    subst hr; subst hr'
    exact ⟨rfl, by intro n hn; simp at hn⟩

/-- the (kernel-decidable) dimension analysis predicts the dimension of the tracked numeric
    evaluation, for every string. -/
theorem dim_analysis_sound [CharZero K] (toInt? : K → Option Int) (hI : ∀ x n, toInt? x = some n → x = (n : K))
    (tab : List UnitEntry) (s : List Char) (dv : DimVal) (v : K) (d : D5)
    (h1 : parse dimAlg (envDim tab) s = some dv)
    (h2 : parse (trackAlg toInt?) (envTracked tab) s = some (v, d)) : d = dv.dim :=
  ((parse_rel (L := Lift.both) (dim_track_rel toInt? hI) (env_dim_rel tab) s) dv (v, d) h1 h2).1.symm

/-! ### the generated tables -/

/-- the generated numericalunits table has `m kg s C J = 1` under SI with their dimensions and only
    positive values. -/
theorem unit_table_ok : tableOK unitTable = true := by decide +kernel

/-- **style tables**: in all eight LAMMPS unit styles every mechanical (and temperature) entry —
    `ang-mom`, `ang-vel` included — has the dimension of the quantity it labels. -/
theorem style_table_dims : styleTables.all (styleDimsOK unitTable) = true := by decide +kernel

theorem style_table_names :
    styleTables.map (·.style) = ["lj", "real", "metal", "si", "cgs", "electron", "micro", "nano"] := by
  decide +kernel

/-- what `style_table_dims` means for numbers: a labelled entry, whenever it evaluates, scales under a
    change of base units exactly like the quantity it labels. -/
theorem style_entry_scaling [CharZero K] (toInt? : K → Option Int) (hI : ∀ x n, toInt? x = some n → x = (n : K))
    (st : StyleTable) (hst : st ∈ styleTables) (label : String) (s : List Char) (hls : (label, s) ∈ st.entries)
    (D : D5) (hD : labelDim label = some D) (v : K) (d : D5)
    (hv : parse (trackAlg toInt?) (envTracked unitTable) s = some (v, d))
    (sc : Scales K) (hsc : sc.Nonzero) :
    parse (numAlg toInt?) (envOf unitTable sc) s = some (v * factor sc D) := by
  have h1 := List.all_eq_true.mp style_table_dims st hst
  have h2 := List.all_eq_true.mp h1 (label, s) hls
  simp only [hD] at h2
  have h3 : (parse dimAlg (envDim unitTable) s).map (·.dim) = some D := by simpa using h2
  cases hp : parse dimAlg (envDim unitTable) s with
  | none => simp [hp] at h3
  | some dv =>
    simp only [hp, Option.map_some, Option.some.injEq] at h3
    have := dim_analysis_sound toInt? hI unitTable s dv v d hp hv
    rw [← h3, ← this]
    exact eval_dimension_hom toInt? unitTable sc hsc s v d hv

end Atomman.C09
