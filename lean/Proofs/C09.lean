/-
  C09 — property theorems: precedence of the hand-coded unit-expression parser, set/get inverse,
  dimension homomorphism and working-unit independence, reset_units, LAMMPS style-table dimensions.
  `Atomman/Generated/UnitTable.lean` and `LammpsStyle.lean` are regenerated from numericalunits and
  atomman/lammps/style.py on every run; `unit_table_ok` / `style_table_dims` are re-decided by the
  kernel against them.
-/
import Proofs.C09_Lemmas
import Proofs.C09_Units
import Proofs.C09_Literal
import Proofs.C09_Rpow
import Proofs.C09_Source
import Atomman.Generated.UnitTable
import Atomman.Generated.LammpsStyle
import Mathlib.Tactic.Ring
import Mathlib.Tactic.FieldSimp
import Mathlib.Tactic.Linarith
import Mathlib.Algebra.Order.Field.Basic
import Mathlib.Algebra.Field.Rat
import Mathlib.Data.Rat.Cast.CharZero
import Mathlib.Analysis.SpecialFunctions.Pow.Real

namespace Atomman.C09
open Atomman.Gen
set_option linter.unusedSimpArgs false
set_option linter.unusedSectionVars false
set_option linter.unusedVariables false

variable {K : Type} [Field K] [DecidableEq K]

/-- one scaled value: `w = v · m^a kg^b s^c C^d K^e`. -/
def ScaledBy (sc : Scales K) (vd : K × D5) (w : K) : Prop := w = vd.1 * factor sc vd.2

theorem track_num_rel (toInt? : K → Option Int) {sc : Scales K} (h : sc.Nonzero) :
    AlgRel Lift.fwd (ScaledBy sc) (trackAlg toInt?) (numAlg toInt?) where
  mul := by
    rintro ⟨a, da⟩ ⟨a', da'⟩ b b' hab hab' r hr
    simp only [ScaledBy] at hab hab'
    simp only [trackAlg, Option.some.injEq] at hr
    subst hr
    refine ⟨_, rfl, ?_⟩
    simp only [ScaledBy, hab, hab', factor_add h]; ring
  div := by
    rintro ⟨a, da⟩ ⟨a', da'⟩ b b' hab hab' r hr
    simp only [ScaledBy] at hab hab'
    simp only [trackAlg] at hr
    split at hr
    · cases hr
    · rename_i hne
      simp only [Option.some.injEq] at hr
      subst hr
      have hf := factor_ne_zero h da'
      have hb' : b' ≠ 0 := by rw [hab']; exact mul_ne_zero hne hf
      refine ⟨b / b', by simp [numAlg, hb'], ?_⟩
      simp only [ScaledBy, hab, hab', factor_sub h]
      field_simp
  pow := by
    rintro ⟨a, da⟩ ⟨a', da'⟩ b b' hab hab' r hr
    simp only [ScaledBy] at hab hab'
    simp only [trackAlg] at hr
    cases hn : toInt? a' with
    | none => simp [hn] at hr
    | some n =>
      simp only [hn] at hr
      split at hr
      · rename_i hz
        split at hr
        · cases hr
        · rename_i hne
          simp only [Option.some.injEq] at hr
          subst hr
          have hb' : b' = a' := by rw [hab', hz, factor_zero]; simp
          have hf := factor_ne_zero h da
          have hb0 : ¬ (b = 0 ∧ n < 0) := by
            rintro ⟨h0, hn0⟩
            apply hne
            refine ⟨?_, hn0⟩
            rw [hab] at h0
            exact (mul_eq_zero.mp h0).resolve_right hf
          refine ⟨powInt b n, by simp [numAlg, hb', hn, hb0], ?_⟩
          simp only [ScaledBy, hab, powInt_eq, factor_smul, mul_zpow]
      · cases hr
  num := by
    intro m e r hr
    simp only [trackAlg, Option.some.injEq] at hr
    subst hr
    exact ⟨_, rfl, by simp [ScaledBy, factor_zero]⟩

theorem env_track_rel (tab : List UnitEntry) (sc : Scales K) (n : List Char) :
    Lift.fwd.rel (ScaledBy sc) (envTracked tab n) (envOf tab sc n) := by
  intro r hr
  simp only [envTracked, envOf] at hr ⊢
  cases hl : lookup tab n with
  | none => simp [hl] at hr
  | some e =>
    simp only [hl, Option.map_some, Option.some.injEq] at hr ⊢
    subst hr
    exact ⟨_, rfl, rfl⟩



/-! ## the property theorems -/

/-- **precedence** (central theorem): every rendering of every expression tree in the ordinary
    grammar — any whitespace, any redundant parentheses, negative exponents, any depth — is parsed
    by the hand-coded tokeniser/reducer to the value of the tree; over every value algebra (numbers
    over any field, dimensions, …), failures included. -/
theorem parse_precedence {V : Type} (alg : Alg V) (env : List Char → Option V)
    (e : Expr) (lvl : Nat) (s : List Char) (h : Renders e lvl s) :
    parse alg env s = evalAst alg env e :=
  parse_renders alg env h

/-- **precedence, concrete form**: tokenising and reducing the rendering of a tree gives the value of the tree —
    any blank string `w`, nested parentheses where the tree needs them, negative exponents, any depth. -/
theorem parse_render_precedence {V : Type} (alg : Alg V) (env : List Char → Option V) (w : List Char) (hw : allWs w)
    (e : Expr) (he : LeavesOK e) (lvl : Nat) :
    parse alg env (render w lvl e) = evalAst alg env e :=
  parse_precedence alg env e lvl _ (render_renders w hw e lvl he)


/-- `get_in_units(set_in_units(x, u), u) = x`. -/
theorem set_get_inverse (vals : List K) (f : K) (hf : f ≠ 0) :
    getInUnits (setInUnits vals f) f = vals := by
  simp only [getInUnits, setInUnits, List.map_map]
  conv_rhs => rw [← List.map_id vals]
  apply List.map_congr_left
  intro x _
  simp only [Function.comp, id]
  field_simp

/-- … and through the parser: whatever string parses to a non-zero factor. -/
theorem set_get_inverse_parse (toInt? : K → Option Int) (env : List Char → Option K) (u : Option (List Char))
    (f : K) (hu : parseUnits (numAlg toInt?) env u = some f) (hf : f ≠ 0) (vals : List K) :
    (parseUnits (numAlg toInt?) env u).map (getInUnits (setInUnits vals f)) = some vals := by
  rw [hu]; simp [set_get_inverse vals f hf]

/-! complex values: `(re, im)` pairs, the real factor promoted to `f + 0j` (numpy). -/

/-- `np.asarray(z) * f` acts on the real and on the imaginary part separately … -/
theorem set_in_units_complex_parts (vals : List (K × K)) (f : K) :
    setInUnitsC vals f = vals.map fun z => (z.1 * f, z.2 * f) := by
  simp only [setInUnitsC]
  apply List.map_congr_left
  intro z _
  simp only [cxMul, Prod.mk.injEq]
  constructor <;> ring

/-- … and so does `np.asarray(z) / f` for a non-zero factor. -/
theorem get_in_units_complex_parts (vals : List (K × K)) (f : K) (hf : f ≠ 0) :
    getInUnitsC vals f = vals.map fun z => (z.1 / f, z.2 / f) := by
  simp only [getInUnitsC]
  apply List.map_congr_left
  intro z _
  simp only [cxDiv, Prod.mk.injEq]
  constructor <;> field_simp <;> ring

/-- `get_in_units(set_in_units(z, u), u) = z` for complex `z`: neither part is lost or changed. -/
theorem set_get_inverse_complex (vals : List (K × K)) (f : K) (hf : f ≠ 0) :
    getInUnitsC (setInUnitsC vals f) f = vals := by
  rw [set_in_units_complex_parts, get_in_units_complex_parts _ _ hf, List.map_map]
  conv_rhs => rw [← List.map_id vals]
  apply List.map_congr_left
  intro z _
  simp only [Function.comp, id]
  ext <;> field_simp

/-- a real value handed over as complex (`x + 0j`) converts like the real value and stays real. -/
theorem set_in_units_complex_of_real (vals : List K) (f : K) :
    setInUnitsC (vals.map fun x => (x, 0)) f = (setInUnits vals f).map fun x => (x, 0) := by
  rw [set_in_units_complex_parts]
  simp [setInUnits, List.map_map, Function.comp]

/-- the wire form the driver answers `setc` / `getc` with: the parts, interleaved, each converted as a real value. -/
theorem set_in_units_complex_flat (vals : List (K × K)) (f : K) :
    cxFlat (setInUnitsC vals f) = setInUnits (cxFlat vals) f := by
  rw [set_in_units_complex_parts]
  induction vals with
  | nil => rfl
  | cons z rest ih =>
    simp only [cxFlat, setInUnits, List.map_cons, List.flatMap_cons, List.map_append, List.map_nil] at ih ⊢
    rw [ih]

example : getInUnitsC (setInUnitsC [((1 : Rat), 2), (0, -1 / 2), (3, 0)] (7 / 3)) (7 / 3) = [(1, 2), (0, -1 / 2), (3, 0)] := by
  decide +kernel
example : cxPairs (cxFlat [((1 : Rat), 2), (0, -1 / 2)]) = [(1, 2), (0, -1 / 2)] := by decide +kernel

/-- **dimension homomorphism** (string level, every string): if an expression evaluates to `(v, d)`
    under SI with dimension tracking, then after any rescaling of the base units it evaluates to
    `v · m^d₁ kg^d₂ s^d₃ C^d₄ K^d₅`. -/
theorem eval_dimension_hom (toInt? : K → Option Int) (tab : List UnitEntry) (sc : Scales K) (hsc : sc.Nonzero)
    (s : List Char) (v : K) (d : D5)
    (h : parse (trackAlg toInt?) (envTracked tab) s = some (v, d)) :
    parse (numAlg toInt?) (envOf tab sc) s = some (v * factor sc d) := by
  obtain ⟨w, hw, hr⟩ := parse_rel (L := Lift.fwd) (track_num_rel toInt? hsc) (env_track_rel tab sc) s (v, d) h
  rw [hw, hr]

/-- the same on expression trees. -/
theorem eval_dimension_hom_ast (toInt? : K → Option Int) (tab : List UnitEntry) (sc : Scales K) (hsc : sc.Nonzero)
    (e : Expr) (v : K) (d : D5)
    (h : evalAst (trackAlg toInt?) (envTracked tab) e = some (v, d)) :
    evalAst (numAlg toInt?) (envOf tab sc) e = some (v * factor sc d) := by
  obtain ⟨w, hw, hr⟩ := evalAst_rel (L := Lift.fwd) (track_num_rel toInt? hsc) (env_track_rel tab sc) e (v, d) h
  rw [hw, hr]

/-- **working-unit independence**: converting `x` from units `s1` to units `s2` of the same
    dimension gives the same number whatever the base-unit scalings are. -/
theorem same_dim_ratio_invariant (toInt? : K → Option Int) (tab : List UnitEntry)
    (s1 s2 : List Char) (v1 v2 : K) (d : D5)
    (h1 : parse (trackAlg toInt?) (envTracked tab) s1 = some (v1, d))
    (h2 : parse (trackAlg toInt?) (envTracked tab) s2 = some (v2, d)) (hv2 : v2 ≠ 0)
    (sc : Scales K) (hsc : sc.Nonzero) (x : List K) :
    ∃ f1 f2, parse (numAlg toInt?) (envOf tab sc) s1 = some f1
      ∧ parse (numAlg toInt?) (envOf tab sc) s2 = some f2 ∧ f2 ≠ 0
      ∧ getInUnits (setInUnits x f1) f2 = x.map (fun t => t * v1 / v2) := by
  have hf := factor_ne_zero hsc d
  refine ⟨_, _, eval_dimension_hom toInt? tab sc hsc s1 v1 d h1, eval_dimension_hom toInt? tab sc hsc s2 v2 d h2,
    mul_ne_zero hv2 hf, ?_⟩
  simp only [getInUnits, setInUnits, List.map_map]
  apply List.map_congr_left
  intro t _
  simp only [Function.comp]
  field_simp

/-! ### the dimension analysis is sound for the tracked evaluation -/

def DimSound (dv : DimVal) (vd : K × D5) : Prop :=
  dv.dim = vd.2 ∧ ∀ n, dv.ival = some n → vd.1 = (n : K)

theorem litInt_sound [CharZero K] (m e n : Int) (h : litInt? m e = some n) : (litVal m e : K) = (n : K) := by
  unfold litInt? at h
  simp only [litVal, powInt_eq]
  split at h
  · rename_i he
    obtain ⟨k, rfl⟩ := Int.eq_ofNat_of_zero_le he
    simp only [Option.some.injEq, Int.toNat_natCast] at h
    subst h
    rw [zpow_natCast]
    push_cast
    rfl
  · rename_i he
    have hk : ∃ k : Nat, e = -(k : Int) := ⟨(-e).toNat, by omega⟩
    obtain ⟨k, rfl⟩ := hk
    simp only [neg_neg, Int.toNat_natCast] at h
    split at h
    · rename_i hm
      simp only [Option.some.injEq] at h
      obtain ⟨q, hq⟩ := Int.dvd_of_emod_eq_zero hm
      have h10 : ((10 : Int) ^ k) ≠ 0 := by positivity
      have : n = q := by rw [← h, hq, Int.mul_ediv_cancel_left _ h10]
      subst this
      rw [hq, zpow_neg, zpow_natCast]
      push_cast
      have : ((10 : K) ^ k) ≠ 0 := pow_ne_zero _ (by norm_num)
      field_simp
    · cases h



theorem dim_track_rel [CharZero K] (toInt? : K → Option Int) (hI : ∀ x n, toInt? x = some n → x = (n : K)) :
    AlgRel Lift.both (DimSound (K := K)) dimAlg (trackAlg toInt?) where
  mul := by
    rintro a a' ⟨b, db⟩ ⟨b', db'⟩ ⟨h1, h2⟩ ⟨h1', h2'⟩ r r' hr hr'
    simp only [dimAlg, trackAlg, Option.some.injEq] at hr hr'
    subst hr; subst hr'
    refine ⟨by simp only at h1 h1'; simp [h1, h1'], ?_⟩
    intro n hn
    cases hx : a.ival with
    | none => simp [hx, bind2] at hn
    | some x =>
      cases hy : a'.ival with
      | none => simp [hx, hy, bind2] at hn
      | some y =>
        simp only [hx, hy, bind2, Option.some.injEq] at hn
        subst hn
        simp only at h2 h2' ⊢
        rw [h2 x hx, h2' y hy]; push_cast; rfl
  div := by
    rintro a a' ⟨b, db⟩ ⟨b', db'⟩ ⟨h1, h2⟩ ⟨h1', h2'⟩ r r' hr hr'
    simp only [dimAlg, trackAlg, Option.some.injEq] at hr hr'
    split at hr'
    · cases hr'
    · simp only [Option.some.injEq] at hr'
      subst hr; subst hr'
      exact ⟨by simp only at h1 h1'; simp [h1, h1'], by intro n hn; simp at hn⟩
  pow := by
    rintro a a' ⟨b, db⟩ ⟨b', db'⟩ ⟨h1, h2⟩ ⟨h1', h2'⟩ r r' hr hr'
    simp only [dimAlg, trackAlg] at hr hr'
    cases hx : a'.ival with
    | none => simp [hx] at hr
    | some n =>
      simp only [hx] at hr
      split at hr
      · simp only [Option.some.injEq] at hr
        cases hn' : toInt? b' with
        | none => simp [hn'] at hr'
        | some n' =>
          simp only [hn'] at hr'
          split at hr'
          · split at hr'
            · cases hr'
            · simp only [Option.some.injEq] at hr'
              subst hr; subst hr'
              have e1 : b' = (n : K) := h2' n hx
              have e2 : b' = (n' : K) := hI b' n' hn'
              have : n = n' := Int.cast_injective (α := K) (e1.symm.trans e2)
              subst this
              exact ⟨by simp only at h1; simp [h1], by intro k hk; simp at hk⟩
          · cases hr'
      · cases hr
  num := by
    intro m e r r' hr hr'
    simp only [dimAlg, trackAlg, Option.some.injEq] at hr hr'
    subst hr; subst hr'
    exact ⟨rfl, fun n hn => litInt_sound m e n hn⟩

theorem env_dim_rel (tab : List UnitEntry) (n : List Char) :
    Lift.both.rel (DimSound (K := K)) (envDim tab n) (envTracked tab n) := by
  intro r r' hr hr'
  simp only [envDim, envTracked] at hr hr'
  cases hl : lookup tab n with
  | none => simp [hl] at hr
  | some e =>
    simp only [hl, Option.map_some, Option.some.injEq] at hr hr'
    subst hr; subst hr'
    exact ⟨rfl, by intro n hn; simp at hn⟩

/-- the (kernel-decidable) dimension analysis predicts the dimension of the tracked numeric
    evaluation, for every string. -/
theorem dim_analysis_sound [CharZero K] (toInt? : K → Option Int) (hI : ∀ x n, toInt? x = some n → x = (n : K))
    (tab : List UnitEntry) (s : List Char) (dv : DimVal) (v : K) (d : D5)
    (h1 : parse dimAlg (envDim tab) s = some dv)
    (h2 : parse (trackAlg toInt?) (envTracked tab) s = some (v, d)) : d = dv.dim :=
  ((parse_rel (L := Lift.both) (dim_track_rel toInt? hI) (env_dim_rel tab) s) dv (v, d) h1 h2).1.symm

/-! ### the generated tables -/

/-- the generated numericalunits table has `m kg s C J = 1` under SI with their dimensions and only
    positive values. -/
theorem unit_table_ok : tableOK unitTable = true := by decide +kernel

/-- **style tables**: in all eight LAMMPS unit styles every mechanical (and temperature) entry —
    `ang-mom`, `ang-vel` included — has the dimension of the quantity it labels. -/
theorem style_table_dims : styleTables.all (styleDimsOK unitTable) = true := by decide +kernel

theorem style_table_names :
    styleTables.map (·.style) = ["lj", "real", "metal", "si", "cgs", "electron", "micro", "nano"] := by
  decide +kernel

/-- what `style_table_dims` means for numbers: a labelled entry, whenever it evaluates, scales under a
    change of base units exactly like the quantity it labels. -/
theorem style_entry_scaling [CharZero K] (toInt? : K → Option Int) (hI : ∀ x n, toInt? x = some n → x = (n : K))
    (st : StyleTable) (hst : st ∈ styleTables) (label : String) (s : List Char) (hls : (label, s) ∈ st.entries)
    (D : D5) (hD : labelDim label = some D) (v : K) (d : D5)
    (hv : parse (trackAlg toInt?) (envTracked unitTable) s = some (v, d))
    (sc : Scales K) (hsc : sc.Nonzero) :
    parse (numAlg toInt?) (envOf unitTable sc) s = some (v * factor sc D) := by
  have h1 := List.all_eq_true.mp style_table_dims st hst
  have h2 := List.all_eq_true.mp h1 (label, s) hls
  simp only [hD] at h2
  have h3 : (parse dimAlg (envDim unitTable) s).map (·.dim) = some D := by simpa using h2
  cases hp : parse dimAlg (envDim unitTable) s with
  | none => simp [hp] at h3
  | some dv =>
    simp only [hp, Option.map_some, Option.some.injEq] at h3
    have := dim_analysis_sound toInt? hI unitTable s dv v d hp hv
    rw [← h3, ← this]
    exact eval_dimension_hom toInt? unitTable sc hsc s v d hv


/-! ### reset_units with named working units -/

section reset
variable [CharZero K]

/-- every named working unit is a name of the table whose dimension is the keyword's. -/
def ChoiceOK (tab : List UnitEntry) (ch : Choice) : Prop :=
  ∀ k n, ch.get k = some n → ∃ e, lookup tab n = some e ∧ e.dim = k.dim

theorem reset_named_units_are_one (tab : List UnitEntry) (htab : tableOK tab = true)
    (ch : Choice) (hcount : ch.count ≤ 4) (hover : ch.overDetermined = false) (hch : ChoiceOK tab ch)
    (r : K) (hr : ∀ x, radicand (envSI (K := K) tab) ch = some x → r * r = x) :
    ∃ sc, resetScales (envSI (K := K) tab) ch r = some sc ∧ sc.Nonzero ∧
      ∀ k n, ch.get k = some n → envOf tab sc n = some 1 := by
  have hf := tableFacts htab
  obtain ⟨em, hm, hm1, hm2, -⟩ := hf.m
  obtain ⟨ekg, hkg, hkg1, hkg2, -⟩ := hf.kg
  obtain ⟨es, hs, hs1, hs2, -⟩ := hf.s
  obtain ⟨ec, hc, hc1, hc2, -⟩ := hf.c
  obtain ⟨ej, hj, hj1, hj2, -⟩ := hf.j
  obtain ⟨xm, hxm, hxm0, hxm1, hxmv⟩ := baseScale_spec (K := K) hf hm hm1 hm2 ch.length
    (fun n h => (hch .length n h).imp fun e he => he.1)
  obtain ⟨xkg, hxkg, hxkg0, hxkg1, hxkgv⟩ := baseScale_spec (K := K) hf hkg hkg1 hkg2 ch.mass
    (fun n h => (hch .mass n h).imp fun e he => he.1)
  obtain ⟨xs, hxs, hxs0, hxs1, hxsv⟩ := baseScale_spec (K := K) hf hs hs1 hs2 ch.time
    (fun n h => (hch .time n h).imp fun e he => he.1)
  obtain ⟨xc, hxc, hxc0, hxc1, hxcv⟩ := baseScale_spec (K := K) hf hc hc1 hc2 ch.charge
    (fun n h => (hch .charge n h).imp fun e he => he.1)
  obtain ⟨xj, hxj, hxj0, hxj1, hxjv⟩ := baseScale_spec (K := K) hf hj hj1 hj2 ch.energy
    (fun n h => (hch .energy n h).imp fun e he => he.1)
  -- the value of a chosen unit under scalings `sc`, kind by kind
  have key : ∀ sc : Scales K, sc.m = xm ∨ ch.length = none → sc.kg = xkg ∨ ch.mass = none → sc.s = xs ∨ ch.time = none → sc.c = xc →
      (ch.energy = none ∨ sc.m ^ 2 * sc.kg / sc.s ^ 2 = xj) →
      ∀ k n, ch.get k = some n → envOf tab sc n = some 1 := by
    intro sc e1 e2 e3 e4 e5 k n hk
    obtain ⟨e, he, hd⟩ := hch k n hk
    rw [envOf_lookup he, hd]
    congr 1
    cases k <;> simp only [Choice.get] at hk <;> simp only [Kind.dim]
    · rw [factor_length]
      rcases e1 with e1 | e1
      · rw [e1]; exact hxmv n e hk he
      · rw [e1] at hk; cases hk
    · rw [factor_mass]
      rcases e2 with e2 | e2
      · rw [e2]; exact hxkgv n e hk he
      · rw [e2] at hk; cases hk
    · rw [factor_time]
      rcases e3 with e3 | e3
      · rw [e3]; exact hxsv n e hk he
      · rw [e3] at hk; cases hk
    · rw [factor_energy]
      rcases e5 with e5 | e5
      · rw [e5] at hk; cases hk
      · rw [e5]; exact hxjv n e hk he
    · rw [factor_charge, e4]; exact hxcv n e hk he
  unfold resetScales
  rw [if_neg (by omega)]
  simp only [hxm, hxkg, hxs, hxc]
  cases hen : ch.energy with
  | none =>
    exact ⟨_, rfl, ⟨hxm0, hxkg0, hxs0, hxc0, one_ne_zero⟩,
      key _ (Or.inl rfl) (Or.inl rfl) (Or.inl rfl) rfl (Or.inl hen)⟩
  | some en =>
    rw [hen] at hxj
    simp only [hxj]
    by_cases hma : ch.mass = none
    · have hmm : xm * xm ≠ 0 := mul_ne_zero hxm0 hxm0
      simp only [hma, Option.isNone_none, if_true, hmm, if_false]
      refine ⟨_, rfl, ⟨hxm0, ?_, hxs0, hxc0, one_ne_zero⟩, key _ (Or.inl rfl) (Or.inr hma) (Or.inl rfl) rfl (Or.inr ?_)⟩
      · exact div_ne_zero (mul_ne_zero hxj0 (mul_ne_zero hxs0 hxs0)) hmm
      · simp only; field_simp
    · have hma' : ch.mass.isNone = false := by cases h : ch.mass <;> simp_all
      simp only [hma', Bool.false_eq_true, if_false]
      by_cases hti : ch.time = none
      · -- the time unit is fixed by the energy: s = r, r * r = kg m^2 / J
        have hrad : radicand (envSI (K := K) tab) ch = some (xkg * (xm * xm) / xj) := by
          simp only [radicand, hen, hxm, hxkg, hxs, hxj]
          simp [hma', hti]
        have hr2 := hr _ hrad
        have hr0 : r ≠ 0 := by
          intro h0
          rw [h0, mul_zero] at hr2
          exact div_ne_zero (mul_ne_zero hxkg0 (mul_ne_zero hxm0 hxm0)) hxj0 hr2.symm
        simp only [hti, Option.isNone_none, if_true, hxj0, if_false]
        refine ⟨_, rfl, ⟨hxm0, hxkg0, hr0, hxc0, one_ne_zero⟩, key _ (Or.inl rfl) (Or.inl rfl) (Or.inr hti) rfl (Or.inr ?_)⟩
        simp only
        rw [pow_two r, hr2]; field_simp
      · have hti' : ch.time.isNone = false := by cases h : ch.time <;> simp_all
        simp only [hti', Bool.false_eq_true, if_false]
        by_cases hle : ch.length = none
        · have hrad : radicand (envSI (K := K) tab) ch = some (xj * (xs * xs) / xkg) := by
            simp only [radicand, hen, hxm, hxkg, hxs, hxj]
            simp [hma', hti', hle]
          have hr2 := hr _ hrad
          have hr0 : r ≠ 0 := by
            intro h0
            rw [h0, mul_zero] at hr2
            exact div_ne_zero (mul_ne_zero hxj0 (mul_ne_zero hxs0 hxs0)) hxkg0 hr2.symm
          simp only [hle, Option.isNone_none, if_true, hxkg0, if_false]
          refine ⟨_, rfl, ⟨hr0, hxkg0, hxs0, hxc0, one_ne_zero⟩,
            key _ (Or.inr hle) (Or.inl rfl) (Or.inl rfl) rfl (Or.inr ?_)⟩
          simp only
          rw [pow_two r, hr2]; field_simp
        · exfalso
          have : ch.overDetermined = true := by
            simp only [Choice.overDetermined, hen]
            cases h1 : ch.length <;> cases h2 : ch.mass <;> cases h3 : ch.time <;> simp_all
          rw [this] at hover; cases hover

/-- no square root is taken when the mass is not named (the energy then fixes the mass unit). -/
theorem radicand_mass_none (si : List Char → Option K) (ch : Choice) (h : ch.mass = none) :
    radicand si ch = none := by
  unfold radicand
  split
  · rfl
  · split
    · simp [h]
    · rfl

/-- decidable form of `ChoiceOK`. -/
def choiceOKb (tab : List UnitEntry) (ch : Choice) : Bool :=
  [Kind.length, Kind.mass, Kind.time, Kind.energy, Kind.charge].all fun k =>
    match ch.get k with
    | none => true
    | some n =>
      match lookup tab n with
      | some e => e.dim == k.dim
      | none => false

theorem choiceOK_of_b {tab : List UnitEntry} {ch : Choice} (h : choiceOKb tab ch = true) : ChoiceOK tab ch := by
  intro k n hk
  simp only [choiceOKb, List.all_cons, List.all_nil, Bool.and_true, Bool.and_eq_true] at h
  have hk' : (match ch.get k with
      | none => true
      | some n => match lookup tab n with
        | some e => e.dim == k.dim
        | none => false) = true := by
    cases k
    · exact h.1
    · exact h.2.1
    · exact h.2.2.1
    · exact h.2.2.2.1
    · exact h.2.2.2.2
  rw [hk] at hk'
  cases hl : lookup tab n with
  | none => simp [hl] at hk'
  | some e =>
    simp only [hl, beq_iff_eq] at hk'
    exact ⟨e, rfl, hk'⟩

/-- `uc.parse(name)` is the table entry, for every name the tokeniser can read back. -/
theorem parse_name {V : Type} (alg : Alg V) (env : List Char → Option V) (n : List Char) (h : validName n) :
    parse alg env n = env n :=
  parse_precedence alg env (.name n) 0 n (Renders.name n h)

/-- … and therefore `uc.parse(chosen unit) = 1` after `reset_units(**kwargs)`. -/
theorem reset_named_units_parse_one (toInt? : K → Option Int) (tab : List UnitEntry) (htab : tableOK tab = true)
    (ch : Choice) (hcount : ch.count ≤ 4) (hover : ch.overDetermined = false) (hch : ChoiceOK tab ch)
    (r : K) (hr : ∀ x, radicand (envSI (K := K) tab) ch = some x → r * r = x) :
    ∃ sc, resetScales (envSI (K := K) tab) ch r = some sc ∧ sc.Nonzero ∧
      ∀ k n, ch.get k = some n → validName n → parse (numAlg toInt?) (envOf tab sc) n = some 1 := by
  obtain ⟨sc, h1, h2, h3⟩ := reset_named_units_are_one tab htab ch hcount hover hch r hr
  exact ⟨sc, h1, h2, fun k n hk hv => by rw [parse_name _ _ n hv]; exact h3 k n hk⟩

/-- more than four keywords are refused (`ValueError('Only four working units can be defined')`). -/
theorem reset_refuses_five (si : List Char → Option K) (ch : Choice) (r : K) (h : 4 < ch.count) :
    resetScales si ch r = none := by
  simp [resetScales, h]

/-- the over-determined choice (length, mass, time and energy all named): the energy keyword is looked up but
    otherwise ignored — the scalings are those of the choice without it.  (This is why the property quantifies
    over non-over-determined choices: the named energy unit is then in general not 1.) -/
theorem reset_over_determined_ignores_energy (si : List Char → Option K) (ch : Choice) (r : K)
    (hcount : ch.count ≤ 4) (hover : ch.overDetermined = true)
    (hj : (baseScale si ['J'] ch.energy).isSome = true) :
    resetScales si ch r = resetScales si { ch with energy := none } r := by
  obtain ⟨l, m, t, e, q⟩ := ch
  simp only [Choice.overDetermined, Bool.and_eq_true, Option.isSome_iff_exists] at hover
  obtain ⟨⟨⟨⟨l, rfl⟩, ⟨m, rfl⟩⟩, ⟨t, rfl⟩⟩, ⟨e, rfl⟩⟩ := hover
  have hq : q = none := by
    cases q with
    | none => rfl
    | some q => simp [Choice.count] at hcount
  subst hq
  obtain ⟨j, hj⟩ := Option.isSome_iff_exists.mp hj
  simp only [resetScales, Choice.count, hj]
  simp

end reset

/-! ### set_literal -/

/-- **set_literal**: "literal value, space, unit expression" — the value a number or a (nested) list / tuple of
    numbers as python writes them (blanks inside allowed, not ending in a top-level comma), blanks allowed inside
    and around the unit expression (which contains no comma), the splitting from the right included — is the array
    of the value (shape as numpy gives it) times the parsed factor of the unit expression. -/
theorem set_literal_value_unit (alg : Alg K) (env : List Char → Option K) (v u : List Char) (lit : Lit)
    (sh : List Nat) (f : K)
    (hv : readLitCore v = some (lit, true)) (hstrip : strip v = v) (hsh : lit.shape? = some sh) (hu : strip u ≠ [])
    (hcomma : ',' ∉ u) (hf : parseUnits alg env (some (strip u)) = some f) :
    setLiteralV alg env (v ++ ' ' :: u) = some (sh, lit.flat.map fun me => litVal me.1 me.2 * f) :=
  setLiteralV_value_unit alg env v u lit sh f hv hstrip hsh hu hcomma hf

/-- the scalar case: "numeral unit-expression" is the numeral's value times the factor. -/
theorem set_literal_scalar (alg : Alg K) (env : List Char → Option K) (v u : List Char) (m e : Int) (f : K)
    (hv : readLitCore v = some (.num m e, true)) (hstrip : strip v = v) (hu : strip u ≠ [])
    (hcomma : ',' ∉ u) (hf : parseUnits alg env (some (strip u)) = some f) :
    setLiteral alg env (v ++ ' ' :: u) = some (litVal m e * f) := by
  unfold setLiteral
  rw [set_literal_value_unit alg env v u (.num m e) [] f hv hstrip (by simp [Lit.shape?]) hu hcomma hf]
  simp [Lit.flat]

/-- … and with `set_in_units`: `set_literal("v u") = set_in_units(v, u)`, element by element. -/
theorem set_literal_eq_set_in_units (alg : Alg K) (env : List Char → Option K) (v u : List Char) (lit : Lit)
    (sh : List Nat) (f : K)
    (hv : readLitCore v = some (lit, true)) (hstrip : strip v = v) (hsh : lit.shape? = some sh) (hu : strip u ≠ [])
    (hcomma : ',' ∉ u) (hf : parseUnits alg env (some (strip u)) = some f) :
    (setLiteralV alg env (v ++ ' ' :: u)).map (·.2)
      = some (setInUnits (lit.flat.map fun me => litVal me.1 me.2) f) := by
  rw [set_literal_value_unit alg env v u lit sh f hv hstrip hsh hu hcomma hf]
  simp [setInUnits, List.map_map, Function.comp]

/-! ### sessions: nothing is remembered beyond the last state-changing call -/

section session

theorem finalScales_append (tab : List UnitEntry) (sc : Scales K) (h1 h2 : List (Call K)) :
    finalScales tab sc (h1 ++ h2) = finalScales tab (finalScales tab sc h1) h2 := by
  induction h1 generalizing sc with
  | nil => rfl
  | cons c cs ih => simp only [List.cons_append, finalScales]; exact ih _

theorem runCalls_append (alg : Alg K) (tab : List UnitEntry) (sc : Scales K) (h1 h2 : List (Call K)) :
    runCalls alg tab sc (h1 ++ h2) = runCalls alg tab sc h1 ++ runCalls alg tab (finalScales tab sc h1) h2 := by
  induction h1 generalizing sc with
  | nil => rfl
  | cons c cs ih => simp only [List.cons_append, runCalls, finalScales]; rw [ih]

theorem finalScales_reads (tab : List UnitEntry) (sc : Scales K) (reads : List (Call K))
    (hr : ∀ c ∈ reads, c.isRead = true) : finalScales tab sc reads = sc := by
  induction reads generalizing sc with
  | nil => rfl
  | cons c cs ih =>
    have hc := hr c (List.mem_cons_self ..)
    have hn : c.next tab sc = sc := by cases c <;> simp_all [Call.isRead, Call.next]
    simp only [finalScales, hn]
    exact ih sc (fun c' h' => hr c' (List.mem_cons_of_mem _ h'))

/-- **a call is answered from the scalings in force**: the reply to the last call of any session is the reply that
    call gets in the state the history left — and (next two theorems) that state is fixed by the most recent
    state-changing call alone. -/
theorem session_reply_last (alg : Alg K) (tab : List UnitEntry) (sc0 : Scales K) (h : List (Call K)) (c : Call K) :
    runCalls alg tab sc0 (h ++ [c]) = runCalls alg tab sc0 h ++ [c.reply alg tab (finalScales tab sc0 h)] := by
  rw [runCalls_append]; rfl

/-- **history independence after `reset_units(**kwargs)`**: whatever was evaluated before and whatever working
    units were in force (`h`, `sc0` arbitrary), after a named reset that succeeds — and any number of reads — the
    scalings are exactly those the reset computes from the SI baseline. -/
theorem session_state_after_reset (tab : List UnitEntry) (sc0 : Scales K) (h : List (Call K)) (ch : Choice) (r : K)
    (s : Scales K) (hcount : ch.count ≤ 4) (hs : resetScales (envSI (K := K) tab) ch r = some s)
    (reads : List (Call K)) (hr : ∀ c ∈ reads, c.isRead = true) :
    finalScales tab sc0 (h ++ Call.reset ch r :: reads) = s := by
  rw [finalScales_append]
  simp only [finalScales, Call.next, resetState, if_neg (by omega : ¬ 4 < ch.count), hs, Option.getD_some]
  exact finalScales_reads tab s reads hr

/-- the same after `reset_units(seed)` / `reset_units('SI')` / `build_unit()`. -/
theorem session_state_after_rebase (tab : List UnitEntry) (sc0 : Scales K) (h : List (Call K)) (s : Scales K)
    (reads : List (Call K)) (hr : ∀ c ∈ reads, c.isRead = true) :
    finalScales tab sc0 (h ++ Call.rebase s :: reads) = s := by
  rw [finalScales_append]
  simp only [finalScales, Call.next]
  exact finalScales_reads tab s reads hr

/-- a refused reset (more than four keywords) changes nothing; one that raises half-way leaves the SI table. -/
theorem session_state_after_failed_reset (tab : List UnitEntry) (sc0 : Scales K) (h : List (Call K)) (ch : Choice) (r : K)
    (hs : resetScales (envSI (K := K) tab) ch r = none) :
    finalScales tab sc0 (h ++ [Call.reset ch r])
      = if 4 < ch.count then finalScales tab sc0 h else siScales := by
  rw [finalScales_append]
  simp only [finalScales, Call.next, resetState, hs, Option.getD_none]

variable [CharZero K]

/-- **chosen units are one, in any session**: after an arbitrary history, a named reset (≤ 4 keywords, not
    over-determined, names of the right dimension) and any reads, `uc.unit[n]` and `uc.parse(n)` are exactly 1
    for every chosen name `n`. -/
theorem session_chosen_units_one (toInt? : K → Option Int) (tab : List UnitEntry) (htab : tableOK tab = true)
    (ch : Choice) (hcount : ch.count ≤ 4) (hover : ch.overDetermined = false) (hch : ChoiceOK tab ch)
    (r : K) (hr : ∀ x, radicand (envSI (K := K) tab) ch = some x → r * r = x)
    (sc0 : Scales K) (h reads : List (Call K)) (hreads : ∀ c ∈ reads, c.isRead = true)
    (k : Kind) (n : List Char) (hk : ch.get k = some n) (hv : validName n) :
    (Call.unit n).reply (numAlg toInt?) tab (finalScales tab sc0 (h ++ Call.reset ch r :: reads)) = some [1]
    ∧ (Call.parse (some n)).reply (numAlg toInt?) tab (finalScales tab sc0 (h ++ Call.reset ch r :: reads)) = some [1] := by
  obtain ⟨sc, h1, _, h3⟩ := reset_named_units_are_one tab htab ch hcount hover hch r hr
  rw [session_state_after_reset tab sc0 h ch r sc hcount h1 reads hreads]
  refine ⟨by simp only [Call.reply, h3 k n hk, Option.map_some], ?_⟩
  simp only [Call.reply, parseUnits]
  split
  · simp [numAlg, litVal, powInt, powNat]
  · rw [parse_name _ _ n hv, h3 k n hk]; rfl

/-- **working-unit independence across sessions**: the same conversion between two expressions of equal dimension,
    asked at the end of any two histories (non-zero scalings in force), gets the same answer `x · v1 / v2`. -/
theorem session_conversion_invariant (toInt? : K → Option Int) (tab : List UnitEntry)
    (s1 s2 : List Char) (v1 v2 : K) (d : D5)
    (h1 : parse (trackAlg toInt?) (envTracked tab) s1 = some (v1, d))
    (h2 : parse (trackAlg toInt?) (envTracked tab) s2 = some (v2, d)) (hv2 : v2 ≠ 0)
    (hs1 : s1 ≠ ['s', 'c', 'a', 'l', 'e', 'd']) (hs2 : s2 ≠ ['s', 'c', 'a', 'l', 'e', 'd'])
    (sc0 : Scales K) (h : List (Call K)) (hn : (finalScales tab sc0 h).Nonzero) (x : List K) :
    (Call.convert x (some s1) (some s2)).reply (numAlg toInt?) tab (finalScales tab sc0 h)
      = some (x.map fun t => t * v1 / v2) := by
  obtain ⟨f1, f2, e1, e2, hf2, hx⟩ := same_dim_ratio_invariant toInt? tab s1 s2 v1 v2 d h1 h2 hv2 _ hn x
  simp only [Call.reply, parseUnits, if_neg hs1, if_neg hs2, e1, e2, if_neg hf2, hx]

end session

/-! ### rational exponents (`Pa*m^0.5`, `MPa*m^(3/2)`, `s^-1.5`): the parameter `rpow` with the laws `RpowLaws` -/

section rpow
variable {F : Type} [Field F] [LinearOrder F] [IsStrictOrderedRing F]
variable {rpow : F → Rat → F}

/-- one scaled value with rational dimension: `w = v · m^a kg^b s^c C^d F^e`. -/
def ScaledByR (rpow : F → Rat → F) (sc : Scales F) (vd : F × Q5) (w : F) : Prop := w = vd.1 * factorR rpow sc vd.2

theorem rat_of_den_one {q : Rat} (h : q.den = 1) : q = (q.num : Rat) := (Rat.den_eq_one_iff q).mp h |>.symm

theorem powR_scale (L : RpowLaws rpow) {sc : Scales F} (h : sc.Pos) (v : F) (d : Q5) (q : Rat) (r : F)
    (hr : powR rpow v q = some r) :
    powR rpow (v * factorR rpow sc d) q = some (r * factorR rpow sc (Q5.smul q d)) := by
  have hf := factorR_pos L h d
  have hf0 : factorR rpow sc d ≠ 0 := ne_of_gt hf
  unfold powR at hr ⊢
  by_cases hden : q.den = 1
  · simp only [hden, if_true] at hr ⊢
    split at hr
    · cases hr
    · rename_i hne
      simp only [Option.some.injEq] at hr
      subst hr
      have : ¬ (v * factorR rpow sc d = 0 ∧ q.num < 0) := by
        rintro ⟨h0, hn⟩
        exact hne ⟨(mul_eq_zero.mp h0).resolve_right hf0, hn⟩
      rw [if_neg this]
      congr 1
      rw [powInt_eq, powInt_eq, mul_zpow, factorR_zpow L h]
      congr 2
      conv_rhs => rw [rat_of_den_one hden]
  · simp only [hden, if_false] at hr ⊢
    by_cases hv : 0 < v
    · simp only [hv, if_true, Option.some.injEq] at hr
      subst hr
      rw [if_pos (mul_pos hv hf), L.mul _ _ hv hf, factorR_rpow L h]
    · simp only [hv, if_false] at hr
      split at hr
      · rename_i hz
        simp only [Option.some.injEq] at hr
        subst hr
        have hvf : v * factorR rpow sc d = 0 := by rw [hz.1, zero_mul]
        rw [hvf, if_neg (lt_irrefl 0), if_pos ⟨rfl, hz.2⟩, zero_mul]
      · cases hr

theorem track_num_rel_r (toRat? : F → Option Rat) (L : RpowLaws rpow) {sc : Scales F} (h : sc.Pos) :
    AlgRel Lift.fwd (ScaledByR rpow sc) (trackAlgR toRat? rpow) (numAlgR toRat? rpow) where
  mul := by
    rintro ⟨a, da⟩ ⟨a', da'⟩ b b' hab hab' r hr
    simp only [ScaledByR] at hab hab'
    simp only [trackAlgR, Option.some.injEq] at hr
    subst hr
    refine ⟨_, rfl, ?_⟩
    simp only [ScaledByR, hab, hab', factorR_add L h]; ring
  div := by
    rintro ⟨a, da⟩ ⟨a', da'⟩ b b' hab hab' r hr
    simp only [ScaledByR] at hab hab'
    simp only [trackAlgR] at hr
    split at hr
    · cases hr
    · rename_i hne
      simp only [Option.some.injEq] at hr
      subst hr
      have hf : factorR rpow sc da' ≠ 0 := ne_of_gt (factorR_pos L h da')
      have hb' : b' ≠ 0 := by rw [hab']; exact mul_ne_zero hne hf
      refine ⟨b / b', by simp [numAlgR, hb'], ?_⟩
      simp only [ScaledByR, hab, hab', factorR_sub L h]
      field_simp
  pow := by
    rintro ⟨a, da⟩ ⟨a', da'⟩ b b' hab hab' r hr
    simp only [ScaledByR] at hab hab'
    simp only [trackAlgR] at hr
    cases hn : toRat? a' with
    | none => simp [hn] at hr
    | some q =>
      simp only [hn] at hr
      split at hr
      · rename_i hz
        have hb' : b' = a' := by rw [hab', hz, factorR_zero L h]; simp
        cases hp : powR rpow a q with
        | none => simp [hp] at hr
        | some v =>
          simp only [hp, Option.map_some, Option.some.injEq] at hr
          subst hr
          refine ⟨v * factorR rpow sc (Q5.smul q da), ?_, rfl⟩
          simp only [numAlgR, hb', hn, hab]
          exact powR_scale L h a da q v hp
      · cases hr
  num := by
    intro m e r hr
    simp only [trackAlgR, Option.some.injEq] at hr
    subst hr
    exact ⟨_, rfl, by simp [ScaledByR, factorR_zero L h]⟩

theorem env_track_rel_r (L : RpowLaws rpow) (tab : List UnitEntry) {sc : Scales F} (h : sc.Pos) (n : List Char) :
    Lift.fwd.rel (ScaledByR rpow sc) (envTrackedQ tab n) (envOf tab sc n) := by
  intro r hr
  simp only [envTrackedQ, envOf] at hr ⊢
  cases hl : lookup tab n with
  | none => simp [hl] at hr
  | some e =>
    simp only [hl, Option.map_some, Option.some.injEq] at hr ⊢
    subst hr
    exact ⟨_, rfl, by simp only [ScaledByR, factorR_toQ L h]⟩


/-- **dimension homomorphism with rational exponents** (every string — `Pa*m^0.5`, `MPa*m^(3/2)`, `s^-1.5`, nested):
    if an expression evaluates to `(v, d)` under SI with rational dimension tracking, then under any positive
    base-unit scalings it evaluates to `v · m^d₁ kg^d₂ s^d₃ C^d₄ K^d₅`; `rpow` any function with the three laws. -/
theorem eval_dimension_hom_rpow (toRat? : F → Option Rat) (L : RpowLaws rpow) (tab : List UnitEntry)
    (sc : Scales F) (hsc : sc.Pos) (s : List Char) (v : F) (d : Q5)
    (h : parse (trackAlgR toRat? rpow) (envTrackedQ tab) s = some (v, d)) :
    parse (numAlgR toRat? rpow) (envOf tab sc) s = some (v * factorR rpow sc d) := by
  obtain ⟨w, hw, hr⟩ := parse_rel (L := Lift.fwd) (track_num_rel_r toRat? L hsc) (env_track_rel_r L tab hsc) s (v, d) h
  rw [hw, hr]

/-- the same on expression trees. -/
theorem eval_dimension_hom_ast_rpow (toRat? : F → Option Rat) (L : RpowLaws rpow) (tab : List UnitEntry)
    (sc : Scales F) (hsc : sc.Pos) (e : Expr) (v : F) (d : Q5)
    (h : evalAst (trackAlgR toRat? rpow) (envTrackedQ tab) e = some (v, d)) :
    evalAst (numAlgR toRat? rpow) (envOf tab sc) e = some (v * factorR rpow sc d) := by
  obtain ⟨w, hw, hr⟩ := evalAst_rel (L := Lift.fwd) (track_num_rel_r toRat? L hsc) (env_track_rel_r L tab hsc) e (v, d) h
  rw [hw, hr]

/-- **working-unit independence with rational exponents**: `x [s1]` in `[s2]`, both of the same (rational)
    dimension, is `x · v1 / v2` whatever the positive base-unit scalings are (1 m^1.5 = 1000 cm^1.5 everywhere). -/
theorem same_dim_ratio_invariant_rpow (toRat? : F → Option Rat) (L : RpowLaws rpow) (tab : List UnitEntry)
    (s1 s2 : List Char) (v1 v2 : F) (d : Q5)
    (h1 : parse (trackAlgR toRat? rpow) (envTrackedQ tab) s1 = some (v1, d))
    (h2 : parse (trackAlgR toRat? rpow) (envTrackedQ tab) s2 = some (v2, d)) (hv2 : v2 ≠ 0)
    (sc : Scales F) (hsc : sc.Pos) (x : List F) :
    ∃ f1 f2, parse (numAlgR toRat? rpow) (envOf tab sc) s1 = some f1
      ∧ parse (numAlgR toRat? rpow) (envOf tab sc) s2 = some f2 ∧ f2 ≠ 0
      ∧ getInUnits (setInUnits x f1) f2 = x.map (fun t => t * v1 / v2) := by
  have hf : factorR rpow sc d ≠ 0 := ne_of_gt (factorR_pos L hsc d)
  refine ⟨_, _, eval_dimension_hom_rpow toRat? L tab sc hsc s1 v1 d h1,
    eval_dimension_hom_rpow toRat? L tab sc hsc s2 v2 d h2, mul_ne_zero hv2 hf, ?_⟩
  simp only [getInUnits, setInUnits, List.map_map]
  apply List.map_congr_left
  intro t _
  simp only [Function.comp]
  field_simp

/-- … and the round trip through a parsed expression with rational exponents. -/
theorem set_get_inverse_parse_rpow (toRat? : F → Option Rat) (env : List Char → Option F) (u : Option (List Char))
    (f : F) (hu : parseUnits (numAlgR toRat? rpow) env u = some f) (hf : f ≠ 0) (vals : List F) :
    (parseUnits (numAlgR toRat? rpow) env u).map (getInUnits (setInUnits vals f)) = some vals := by
  rw [hu]; simp [set_get_inverse vals f hf]

/-! #### the rational algebras extend the integer ones -/

theorem powR_intCast (a : F) (n : Int) :
    powR rpow a (n : Rat) = (if a = 0 ∧ n < 0 then none else some (powInt a n)) := by
  unfold powR
  rw [if_pos (Rat.den_intCast n)]
  by_cases h : a = 0 ∧ n < 0
  · rw [if_pos h, if_pos (by simpa using h)]
  · rw [if_neg h, if_neg (by simpa using h), Rat.num_intCast]

theorem numAlgR_extends (toInt? : F → Option Int) (toRat? : F → Option Rat)
    (hc : ∀ x n, toInt? x = some n → toRat? x = some (n : Rat)) :
    AlgRel Lift.fwd (fun a b : F => a = b) (numAlg toInt?) (numAlgR toRat? rpow) where
  mul := by
    rintro a a' _ _ rfl rfl r hr
    exact ⟨r, by simpa [numAlg, numAlgR] using hr, rfl⟩
  div := by
    rintro a a' _ _ rfl rfl r hr
    exact ⟨r, by simpa [numAlg, numAlgR] using hr, rfl⟩
  pow := by
    rintro a a' _ _ rfl rfl r hr
    simp only [numAlg] at hr
    cases hn : toInt? a' with
    | none => simp [hn] at hr
    | some n =>
      simp only [hn] at hr
      refine ⟨r, ?_, rfl⟩
      simp only [numAlgR, hc _ _ hn, powR_intCast]
      exact hr
  num := by
    intro m e r hr
    exact ⟨r, by simpa [numAlg, numAlgR] using hr, rfl⟩

/-- **conservative extension**: whatever the integer-exponent algebra evaluates, the rational-exponent algebra
    evaluates to the same number (no law of `rpow` is used: integer powers never reach it) — so every theorem about
    `numAlg` speaks about the algebra the driver runs. -/
theorem parse_rpow_extends (toInt? : F → Option Int) (toRat? : F → Option Rat)
    (hc : ∀ x n, toInt? x = some n → toRat? x = some (n : Rat)) (env : List Char → Option F) (s : List Char) (v : F)
    (h : parse (numAlg toInt?) env s = some v) : parse (numAlgR toRat? rpow) env s = some v := by
  obtain ⟨w, hw, hr⟩ := parse_rel (L := Lift.fwd) (numAlgR_extends (rpow := rpow) toInt? toRat? hc)
    (env1 := env) (env2 := env) (fun n r hr => ⟨r, hr, rfl⟩) s v h
  rw [hw, ← hr]

/-! #### the rational dimension analysis is sound for the tracked evaluation -/

def QDimSound (dv : QDimVal) (vd : F × Q5) : Prop :=
  dv.dim = vd.2 ∧ ∀ q, dv.qval = some q → vd.1 = (q : F)

theorem litVal_cast (m e : Int) : ((litVal m e : Rat) : F) = litVal m e := by
  simp only [litVal, powInt_eq]
  push_cast
  rfl

theorem qdim_track_rel (toRat? : F → Option Rat) (hR : ∀ x q, toRat? x = some q → x = (q : F)) :
    AlgRel Lift.both (QDimSound (F := F)) qdimAlg (trackAlgR toRat? rpow) where
  mul := by
    rintro a a' ⟨b, db⟩ ⟨b', db'⟩ ⟨h1, h2⟩ ⟨h1', h2'⟩ r r' hr hr'
    simp only [qdimAlg, trackAlgR, Option.some.injEq] at hr hr'
    subst hr; subst hr'
    refine ⟨by simp only at h1 h1'; simp [h1, h1'], ?_⟩
    intro n hn
    cases hx : a.qval with
    | none => simp [hx, bind2] at hn
    | some x =>
      cases hy : a'.qval with
      | none => simp [hx, hy, bind2] at hn
      | some y =>
        simp only [hx, hy, bind2, Option.some.injEq] at hn
        subst hn
        simp only at h2 h2' ⊢
        rw [h2 x hx, h2' y hy]; push_cast; rfl
  div := by
    rintro a a' ⟨b, db⟩ ⟨b', db'⟩ ⟨h1, h2⟩ ⟨h1', h2'⟩ r r' hr hr'
    simp only [qdimAlg, trackAlgR, Option.some.injEq] at hr hr'
    split at hr'
    · cases hr'
    · simp only [Option.some.injEq] at hr'
      subst hr; subst hr'
      refine ⟨by simp only at h1 h1'; simp [h1, h1'], ?_⟩
      intro n hn
      cases hx : a.qval with
      | none => simp [hx, bind2] at hn
      | some x =>
        cases hy : a'.qval with
        | none => simp [hx, hy, bind2] at hn
        | some y =>
          simp only [hx, hy, bind2] at hn
          split at hn
          · cases hn
          · simp only [Option.some.injEq] at hn
            subst hn
            simp only at h2 h2' ⊢
            rw [h2 x hx, h2' y hy]; push_cast; rfl
  pow := by
    rintro a a' ⟨b, db⟩ ⟨b', db'⟩ ⟨h1, h2⟩ ⟨h1', h2'⟩ r r' hr hr'
    simp only [qdimAlg, trackAlgR] at hr hr'
    cases hx : a'.qval with
    | none => simp [hx] at hr
    | some q =>
      simp only [hx] at hr
      split at hr
      · simp only [Option.some.injEq] at hr
        cases hn' : toRat? b' with
        | none => simp [hn'] at hr'
        | some q' =>
          simp only [hn'] at hr'
          split at hr'
          · have e1 : b' = (q : F) := h2' q hx
            have e2 : b' = (q' : F) := hR b' q' hn'
            have : q = q' := Rat.cast_injective (α := F) (e1.symm.trans e2)
            subst this
            cases hp : powR rpow b q with
            | none => simp [hp] at hr'
            | some v =>
              simp only [hp, Option.map_some, Option.some.injEq] at hr'
              subst hr; subst hr'
              refine ⟨by simp only at h1; simp [h1], ?_⟩
              intro k hk
              simp only at hk
              split at hk
              · rename_i hden
                cases hxa : a.qval with
                | none => simp [hxa] at hk
                | some x =>
                  simp only [hxa, Option.bind_some] at hk
                  split at hk
                  · cases hk
                  · simp only [Option.some.injEq] at hk
                    subst hk
                    have hb : b = (x : F) := h2 x hxa
                    simp only [powR, hden, if_true] at hp
                    split at hp
                    · cases hp
                    · simp only [Option.some.injEq] at hp
                      subst hp
                      simp only [hb, powInt_eq]
                      push_cast
                      rfl
              · cases hk
          · cases hr'
      · cases hr
  num := by
    intro m e r r' hr hr'
    simp only [qdimAlg, trackAlgR, Option.some.injEq] at hr hr'
    subst hr; subst hr'
    exact ⟨rfl, fun n hn => by simp only [Option.some.injEq] at hn; subst hn; exact (litVal_cast m e).symm⟩

theorem env_qdim_rel (tab : List UnitEntry) (n : List Char) :
    Lift.both.rel (QDimSound (F := F)) (envQDim tab n) (envTrackedQ tab n) := by
  intro r r' hr hr'
  simp only [envQDim, envTrackedQ] at hr hr'
  cases hl : lookup tab n with
  | none => simp [hl] at hr
  | some e =>
    simp only [hl, Option.map_some, Option.some.injEq] at hr hr'
    subst hr; subst hr'
    exact ⟨rfl, by intro n hn; simp at hn⟩

/-- the kernel-decidable dimension analysis with rational exponents (`m^(3/2)`, `m^0.5*m^0.5`) predicts the
    dimension of the tracked numeric evaluation, for every string. -/
theorem dim_analysis_sound_rpow (toRat? : F → Option Rat) (hR : ∀ x q, toRat? x = some q → x = (q : F))
    (tab : List UnitEntry) (s : List Char) (dv : QDimVal) (v : F) (d : Q5)
    (h1 : parse qdimAlg (envQDim tab) s = some dv)
    (h2 : parse (trackAlgR toRat? rpow) (envTrackedQ tab) s = some (v, d)) : d = dv.dim :=
  ((parse_rel (L := Lift.both) (qdim_track_rel (rpow := rpow) toRat? hR) (env_qdim_rel tab) s) dv (v, d) h1 h2).1.symm

/-- integer tracking is rational tracking: same value, the dimension cast. -/
theorem trackAlgR_extends (toInt? : F → Option Int) (toRat? : F → Option Rat)
    (hc : ∀ x n, toInt? x = some n → toRat? x = some (n : Rat)) :
    AlgRel Lift.fwd (fun (a : F × D5) (b : F × Q5) => b = (a.1, a.2.toQ)) (trackAlg toInt?) (trackAlgR toRat? rpow) where
  mul := by
    rintro ⟨a, da⟩ ⟨a', da'⟩ _ _ rfl rfl r hr
    simp only [trackAlg, Option.some.injEq] at hr
    subst hr
    exact ⟨_, rfl, by simp [Q5.add, D5.add, D5.toQ]⟩
  div := by
    rintro ⟨a, da⟩ ⟨a', da'⟩ _ _ rfl rfl r hr
    simp only [trackAlg] at hr
    split at hr
    · cases hr
    · rename_i hne
      simp only [Option.some.injEq] at hr
      subst hr
      refine ⟨(a / a', Q5.sub da.toQ da'.toQ), by simp only [trackAlgR, hne, if_false], ?_⟩
      simp [Q5.sub, D5.sub, D5.toQ]
  pow := by
    rintro ⟨a, da⟩ ⟨a', da'⟩ _ _ rfl rfl r hr
    simp only [trackAlg] at hr
    cases hn : toInt? a' with
    | none => simp [hn] at hr
    | some n =>
      simp only [hn] at hr
      split at hr
      · rename_i hz
        split at hr
        · cases hr
        · rename_i hne
          simp only [Option.some.injEq] at hr
          subst hr
          have hz' : da'.toQ = Q5.zero := by rw [hz]; simp [D5.toQ, D5.zero, Q5.zero]
          refine ⟨_, ?_, rfl⟩
          simp only [trackAlgR, hc _ _ hn, hz', if_true, powR_intCast, if_neg hne, Option.map_some]
          simp [Q5.smul, D5.smul, D5.toQ]
      · cases hr
  num := by
    intro m e r hr
    simp only [trackAlg, Option.some.injEq] at hr
    subst hr
    exact ⟨_, rfl, by simp [D5.toQ, D5.zero, Q5.zero]⟩

theorem track_rpow_extends (toInt? : F → Option Int) (toRat? : F → Option Rat)
    (hc : ∀ x n, toInt? x = some n → toRat? x = some (n : Rat)) (tab : List UnitEntry) (s : List Char) (v : F) (d : D5)
    (h : parse (trackAlg toInt?) (envTracked tab) s = some (v, d)) :
    parse (trackAlgR toRat? rpow) (envTrackedQ tab) s = some (v, d.toQ) := by
  obtain ⟨w, hw, hr⟩ := parse_rel (L := Lift.fwd) (trackAlgR_extends (rpow := rpow) toInt? toRat? hc)
    (env1 := envTracked tab) (env2 := envTrackedQ tab)
    (fun n r hr => by
      simp only [envTracked, envTrackedQ] at hr ⊢
      cases hl : lookup tab n with
      | none => simp [hl] at hr
      | some e =>
        simp only [hl, Option.map_some, Option.some.injEq] at hr ⊢
        subst hr
        exact ⟨_, rfl, rfl⟩) s (v, d) h
  rw [hw, hr]


/-! #### sessions with rational exponents -/

/-- **working-unit independence across sessions, rational exponents**: the same conversion between two expressions of
    equal (rational) dimension, asked at the end of any history that leaves positive scalings, is `x · v1 / v2`. -/
theorem session_conversion_invariant_rpow (toRat? : F → Option Rat) (L : RpowLaws rpow) (tab : List UnitEntry)
    (s1 s2 : List Char) (v1 v2 : F) (d : Q5)
    (h1 : parse (trackAlgR toRat? rpow) (envTrackedQ tab) s1 = some (v1, d))
    (h2 : parse (trackAlgR toRat? rpow) (envTrackedQ tab) s2 = some (v2, d)) (hv2 : v2 ≠ 0)
    (hs1 : s1 ≠ ['s', 'c', 'a', 'l', 'e', 'd']) (hs2 : s2 ≠ ['s', 'c', 'a', 'l', 'e', 'd'])
    (sc0 : Scales F) (h : List (Call F)) (hn : (finalScales tab sc0 h).Pos) (x : List F) :
    (Call.convert x (some s1) (some s2)).reply (numAlgR toRat? rpow) tab (finalScales tab sc0 h)
      = some (x.map fun t => t * v1 / v2) := by
  obtain ⟨f1, f2, e1, e2, hf2, hx⟩ := same_dim_ratio_invariant_rpow toRat? L tab s1 s2 v1 v2 d h1 h2 hv2 _ hn x
  simp only [Call.reply, parseUnits, if_neg hs1, if_neg hs2, e1, e2, if_neg hf2, hx]

/-- chosen units are one in any session, read through the rational-exponent algebra. -/
theorem session_chosen_units_one_rpow (toRat? : F → Option Rat) (tab : List UnitEntry) (htab : tableOK tab = true)
    (ch : Choice) (hcount : ch.count ≤ 4) (hover : ch.overDetermined = false) (hch : ChoiceOK tab ch)
    (r : F) (hr : ∀ x, radicand (envSI (K := F) tab) ch = some x → r * r = x)
    (sc0 : Scales F) (h reads : List (Call F)) (hreads : ∀ c ∈ reads, c.isRead = true)
    (k : Kind) (n : List Char) (hk : ch.get k = some n) (hv : validName n) :
    (Call.unit n).reply (numAlgR toRat? rpow) tab (finalScales tab sc0 (h ++ Call.reset ch r :: reads)) = some [1]
    ∧ (Call.parse (some n)).reply (numAlgR toRat? rpow) tab (finalScales tab sc0 (h ++ Call.reset ch r :: reads)) = some [1] := by
  obtain ⟨sc, h1, _, h3⟩ := reset_named_units_are_one tab htab ch hcount hover hch r hr
  rw [session_state_after_reset tab sc0 h ch r sc hcount h1 reads hreads]
  refine ⟨by simp only [Call.reply, h3 k n hk, Option.map_some], ?_⟩
  simp only [Call.reply, parseUnits]
  split
  · simp [numAlgR, litVal, powInt, powNat]
  · rw [parse_name _ _ n hv, h3 k n hk]; rfl

/-- **the driver's power is the power**: where the rational power the driver executes (`ratRpowE`) reports an exact
    result (`4^0.5 = 2`, `(1/8)^(2/3) = 1/4`, `(m^3)^(1/3)` for a rational `m` …), every `rpow` obeying the three laws,
    over every ordered field, has exactly that value. -/
theorem rpow_agrees_with_driver (L : RpowLaws rpow) (x q : Rat) (hx : 0 < x) (h : (ratRpowE x q).2 = true) :
    rpow (x : F) q = ((ratRpowE x q).1 : F) := by
  obtain ⟨hpos, hpow⟩ := ratRpowE_exact x q hx h
  apply rpow_unique L (Rat.cast_pos.mpr hx) (Rat.cast_pos.mpr hpos) q
  have := congrArg (fun t : Rat => (t : F)) hpow
  simpa using this

end rpow

/-! ### non-vacuity: the hypotheses of the theorems above are satisfiable on the generated tables -/

/-- decidable form of `validName`. -/
def validNameB : List Char → Bool
  | [] => false
  | c :: cs => isAlphaStart c && cs.all (fun x => !isStop x && x != '(' && x != ')')

theorem validName_of_b {n : List Char} (h : validNameB n = true) : validName n := by
  cases n with
  | nil => simp [validNameB] at h
  | cons c cs =>
    simp only [validNameB, Bool.and_eq_true, List.all_eq_true, Bool.not_eq_true', bne_iff_ne, ne_eq] at h
    exact ⟨c, cs, rfl, h.1, fun x hx => (h.2 x hx).1.1, fun x hx => ⟨(h.2 x hx).1.2, (h.2 x hx).2⟩⟩

/-- every name of the generated table can be read back by the tokeniser. -/
theorem table_names_valid : unitTable.all (fun e => validNameB e.name) = true := by decide +kernel

-- a rendering in the sense of `parse_precedence`: `kg*m/s^2` with blanks and redundant parentheses
example : Renders (.div (.mul (.name ['k', 'g']) (.name ['m'])) (.pow (.name ['s']) (.num ['-', '2'])))
    2 " kg*(m)/s^-2".toList := by
  have hk : validName ['k', 'g'] := validName_of_b (by decide)
  have hm : validName ['m'] := validName_of_b (by decide)
  have hs : validName ['s'] := validName_of_b (by decide)
  have h2 : validNum ['-', '2'] := ⟨'-', ['2'], rfl, by decide, by simp [noStop, isStop], by simp [noParen]⟩
  exact Renders.div
    (Renders.mul (Renders.wsL ' ' (by decide) (Renders.up (Renders.up (Renders.name _ hk))))
      (Renders.up (Renders.paren (Renders.name _ hm))))
    (Renders.pow (Renders.up (Renders.name _ hs)) (Renders.num _ h2))

-- hypotheses of `eval_dimension_hom` / `same_dim_ratio_invariant` / `dim_analysis_sound` on the generated table
example : parse (trackAlg ratToInt?) (envTracked (K := Rat) unitTable) "kg*m/s^2".toList
    = some (1, ⟨1, 1, -2, 0, 0⟩) := by decide +kernel
example : parse (trackAlg ratToInt?) (envTracked (K := Rat) unitTable) "N".toList
    = some (1, ⟨1, 1, -2, 0, 0⟩) := by decide +kernel
example : (parse dimAlg (envDim unitTable) "dyn".toList).map (·.dim) = some ⟨1, 1, -2, 0, 0⟩ := by decide +kernel
example : (parse dimAlg (envDim unitTable) "kg*m/s^2".toList).map (·.dim) = some ⟨1, 1, -2, 0, 0⟩ := by
  decide +kernel
example : (⟨3, 1 / 7, 11, 5 / 2, 1⟩ : Scales Rat).Nonzero := by
  refine ⟨?_, ?_, ?_, ?_, ?_⟩ <;> norm_num
-- precedence as numbers: `2^-2^3 = (2^-2)^3`, blanks ignored
example : parse (numAlg ratToInt?) (envSI (K := Rat) unitTable) " 2 ^ -2\t^ 3 ".toList = some (1 / 64) := by
  decide +kernel

-- hypotheses of `reset_named_units_are_one`: the atomman default (time fixed by the energy: a square root), a choice
-- without square root, and one whose square root is rational
example : choiceOKb unitTable ⟨some "angstrom".toList, some "amu".toList, none, some "eV".toList, some "e".toList⟩
    = true := by decide +kernel
example : ∃ sc : Scales Rat, resetScales (envSI (K := Rat) unitTable)
      ⟨some "angstrom".toList, none, some "ps".toList, some "eV".toList, none⟩ 0 = some sc
    ∧ envOf unitTable sc "eV".toList = some 1 ∧ envOf unitTable sc "angstrom".toList = some 1
    ∧ envOf unitTable sc "ps".toList = some 1 := by
  have hch : ChoiceOK unitTable ⟨some "angstrom".toList, none, some "ps".toList, some "eV".toList, none⟩ :=
    choiceOK_of_b (by decide +kernel)
  obtain ⟨sc, h1, _, h3⟩ := reset_named_units_are_one (K := Rat) unitTable unit_table_ok _ (by decide) (by decide) hch 0
    (by intro x hx; rw [radicand_mass_none _ _ rfl] at hx; cases hx)
  exact ⟨sc, h1, h3 .energy _ rfl, h3 .length _ rfl, h3 .time _ rfl⟩
example : radicand (envSI (K := Rat) unitTable) ⟨some "m".toList, some "kg".toList, none, some "J".toList, none⟩
    = some (1 * 1) := by decide +kernel

-- hypotheses of `set_literal_value_unit` / `set_literal_scalar`: "1.5e3  kg * m " (numeral, unit expression with
-- blanks), "[[1, 2], [3.5, -4]] nm" (nested list with blanks inside), a tuple; refused: leading-zero integer, ragged
example : (readLitCore "1.5e3".toList).map (fun l => (l.1.shape?, l.1.flat, l.2)) = some (some [], [(15, 2)], true) := by
  decide +kernel
example : strip "1.5e3".toList = "1.5e3".toList := by decide +kernel
example : (readLit "[[1, 2], [3.5, -4]]".toList).map (fun l => (l.shape?, l.flat))
    = some (some [2, 2], [(1, 0), (2, 0), (35, -1), (-4, 0)]) := by decide +kernel
example : strip "[[1, 2], [3.5, -4]]".toList = "[[1, 2], [3.5, -4]]".toList := by decide +kernel
example : (readLitCore "[[1, 2], [3.5, -4]]".toList).map (·.2) = some true := by decide +kernel
example : ',' ∉ " kg * m ".toList := by decide
-- `1, 2` is the tuple `(1, 2)`; `1,` ends on a top-level comma (flag false: `1, 2 m` would read on)
example : (readLitCore "1, 2".toList).map (fun l => (l.1.shape?, l.1.flat, l.2)) = some (some [2], [(1, 0), (2, 0)], true) := by
  decide +kernel
example : (readLitCore "1,".toList).map (fun l => (l.1.shape?, l.1.flat, l.2)) = some (some [1], [(1, 0)], false) := by
  decide +kernel
-- a line break is a blank inside brackets and the end of the expression outside
example : (readLit "[1,\n2]".toList).map (fun l => (l.shape?, l.flat)) = some (some [2], [(1, 0), (2, 0)]) := by decide +kernel
example : readLit "1,\n2".toList = none := by decide +kernel
example : (readLit "(0.5,)".toList).map (fun l => (l.shape?, l.flat)) = some (some [1], [(5, -1)]) := by decide +kernel
example : (readLit "(0.5)".toList).map (fun l => (l.shape?, l.flat)) = some (some [], [(5, -1)]) := by decide +kernel
example : readLit "010".toList = none := by decide +kernel
example : (readLit "[[1, 2], [3]]".toList).map (·.shape?) = some none := by decide +kernel
example : numLit "1.5e3".toList = some (15, 2) := by decide +kernel
example : strip " kg * m ".toList = "kg * m".toList := by decide +kernel
example : (parseUnits dimAlg (envDim unitTable) (some "kg * m".toList)).map (·.dim) = some ⟨1, 1, 0, 0, 0⟩ := by
  decide +kernel
-- the over-determined choice and the five-keyword choice exist
example : (⟨some ['m'], some ['k', 'g'], some ['s'], some ['J'], none⟩ : Choice).overDetermined = true := by decide
example : 4 < (⟨some ['m'], some ['k', 'g'], some ['s'], some ['J'], some ['C']⟩ : Choice).count := by decide

-- hypotheses of `parse_render_precedence`: a tree with valid leaves, a blank string
example : LeavesOK (.div (.name ['k', 'g']) (.pow (.name ['s']) (.num ['-', '2']))) :=
  ⟨validName_of_b (by decide), validName_of_b (by decide), ⟨'-', ['2'], rfl, by decide, by simp [noStop, isStop], by simp [noParen]⟩⟩
example : allWs [' ', '\t', '\n', '\r'] := by intro c hc; simp at hc; rcases hc with rfl | rfl | rfl | rfl <;> decide

-- a session in the sense of the `session_*` theorems: a charge-bearing expression is read, the charge unit alone is
-- changed by name, the same expression is read again (answered from the new scalings), the chosen unit is 1
example : (runCalls (numAlg ratToInt?) unitTable (siScales (K := Rat))
      [.parse (some "C".toList), .reset ⟨none, none, none, none, some "e".toList⟩ 0,
       .parse (some "C".toList), .parse (some "e".toList), .unit "e".toList])[0]? = some (some [1]) := by decide +kernel
example : (runCalls (numAlg ratToInt?) unitTable (siScales (K := Rat))
      [.parse (some "C".toList), .reset ⟨none, none, none, none, some "e".toList⟩ 0,
       .parse (some "C".toList), .parse (some "e".toList), .unit "e".toList])[2]? ≠ some (some [1]) := by decide +kernel
example : (runCalls (numAlg ratToInt?) unitTable (siScales (K := Rat))
      [.parse (some "C".toList), .reset ⟨none, none, none, none, some "e".toList⟩ 0,
       .parse (some "C".toList), .parse (some "e".toList), .unit "e".toList]).drop 3 = [some [1], some [1]] := by
  decide +kernel
-- a reset that raises half-way (unknown name) leaves the SI table, a five-keyword one leaves the state alone
example : finalScales unitTable (⟨3, 1 / 7, 11, 5 / 2, 1⟩ : Scales Rat) [.reset ⟨some "nounit".toList, none, none, none, none⟩ 0]
    = siScales := by decide +kernel
example : finalScales unitTable (⟨3, 1 / 7, 11, 5 / 2, 1⟩ : Scales Rat)
      [.reset ⟨some ['m'], some ['k', 'g'], some ['s'], some ['J'], some ['C']⟩ 0] = ⟨3, 1 / 7, 11, 5 / 2, 1⟩ := by
  decide +kernel

-- hypotheses of the `_rpow` theorems: the three laws hold for the real power function; positive scalings exist;
-- expressions with non-integer exponents have a tracked value and a rational dimension
noncomputable example : RpowLaws (fun (x : ℝ) (q : Rat) => x ^ (q : ℝ)) where
  add x hx a b := by simp only [Rat.cast_add]; exact Real.rpow_add hx _ _
  mul x y hx hy a := Real.mul_rpow hx.le hy.le
  one x hx := by simp
example : (⟨3, 1 / 7, 11, 5 / 2, 1⟩ : Scales Rat).Pos := by
  refine ⟨?_, ?_, ?_, ?_, ?_⟩ <;> norm_num
example : (parse qdimAlg (envQDim unitTable) "MPa*m^(3/2)".toList).map (·.dim) = some ⟨1 / 2, 1, -2, 0, 0⟩ := by
  decide +kernel
example : (parse qdimAlg (envQDim unitTable) " GPa * nm ^ 1.5 ".toList).map (·.dim) = some ⟨1 / 2, 1, -2, 0, 0⟩ := by
  decide +kernel
example : (parse qdimAlg (envQDim unitTable) "s^-1.5*s^(1/2)".toList).map (·.dim) = some ⟨0, 0, -1, 0, 0⟩ := by
  decide +kernel
example : (parse (trackAlgR (fun q : Rat => some q) (fun x _ => x)) (envTrackedQ unitTable) "m^0.5/m^-.5".toList).map (·.2)
    = some ⟨1, 0, 0, 0, 0⟩ := by decide +kernel
-- an integer-valued exponent never reaches `rpow`; a negative base with a non-integer exponent has no value
example : parse (numAlgR (fun q : Rat => some q) (fun _ _ => 0)) (envSI (K := Rat) unitTable) "2^(6/2)".toList = some 8 := by
  decide +kernel
example : parse (numAlgR (fun q : Rat => some q) (fun x _ => x)) (envSI (K := Rat) unitTable) "-2^0.5".toList = none := by
  decide +kernel
example : parse (numAlgR (fun q : Rat => some q) (fun x _ => x)) (envSI (K := Rat) unitTable) "0^0.5".toList = some 0 := by
  decide +kernel
example : parse (numAlgR (fun q : Rat => some q) (fun x _ => x)) (envSI (K := Rat) unitTable) "0^-0.5".toList = none := by
  decide +kernel
-- hypotheses of `rpow_agrees_with_driver`: the driver's power is exact on perfect powers, and says so
example : ratRpowE 4 (1 / 2) = (2, true) := by decide +kernel
example : ratRpowE (1 / 8) (2 / 3) = (1 / 4, true) := by decide +kernel
example : (ratRpowE 2 (1 / 2)).2 = false := by decide +kernel


/-! # round 6: source tie end to end, entry point of reset_units, data-model form -/

section source
variable {K : Type} [Field K] [DecidableEq K]

/-! ## the source tie, end to end: theorems about the definitions regenerated from unitconvert.py -/

/-- **precedence, about the generated parser**: the tokeniser and the two `while` loops as the current source writes
    them (`Generated/UnitconvertSource.lean`: branch order, character sets, parenthesis counter, `terms.index('^')`,
    list positions and slices, python operators) evaluate every rendering of every tree — any blanks, redundant
    parentheses, negative exponents, any depth — to the ordinary-precedence value of the tree. -/
theorem gen_parse_precedence {V : Type} (alg : Alg V) (env : List Char → Option V)
    (e : Expr) (lvl : Nat) (s : List Char) (h : Renders e lvl s) :
    UC.parse alg env s = evalAst alg env e := by
  rw [gen_parse_eq_model]; exact parse_precedence alg env e lvl s h

/-- **round trip, about the generated glue**: `get_in_units(set_in_units(x, u), u) = x` with the operators the source
    applies and the generated parser (any string that parses to a non-zero factor, `None` and `'scaled'` included). -/
theorem gen_set_get_inverse (toInt? : K → Option Int) (env : List Char → Option K) (u : Option (List Char))
    (f : K) (hu : UC.parseUnits (numAlg toInt?) env u = some f) (hf : f ≠ 0) (vals : List K) :
    (UC.parseUnits (numAlg toInt?) env u).map (fun g => UC.getInUnits (UC.setInUnits vals g) g) = some vals := by
  rw [hu, gen_setInUnits_eq_model, gen_getInUnits_eq_model]; simp [set_get_inverse vals f hf]

/-! ### `reset_units(seed, **kwargs)`: which calls are refused -/

/-- **refusals, exactly**: a call is refused iff keywords are given and (a seed is given too or there are more than
    four of them) — whatever the keywords are called and whatever names they carry. -/
theorem reset_path_refuses_iff (a : ResetArgs) :
    (resetPath a = .refuseCount ∨ resetPath a = .refuseSeed) ↔ (a.kw ≠ [] ∧ (a.seedGiven = true ∨ 4 < a.kw.length)) := by
  rcases a with ⟨sg, kw⟩
  unfold resetPath
  by_cases h0 : kw.length = 0
  · have : kw = [] := List.length_eq_zero_iff.mp h0
    simp [this]
  · have hne : kw ≠ [] := fun h => h0 (by simp [h])
    cases sg <;> by_cases h : 4 < kw.length <;> simp [h0, h, hne]

/-- which of the two refusals: the seed message iff a seed comes with keywords, the count message iff there is no
    seed and more than four keywords. -/
theorem reset_path_which_refusal (a : ResetArgs) :
    (resetPath a = .refuseSeed ↔ (a.kw ≠ [] ∧ a.seedGiven = true)) ∧
    (resetPath a = .refuseCount ↔ (a.seedGiven = false ∧ 4 < a.kw.length)) := by
  rcases a with ⟨sg, kw⟩
  unfold resetPath
  by_cases h0 : kw.length = 0
  · have : kw = [] := List.length_eq_zero_iff.mp h0
    simp [this]
  · have hne : kw ≠ [] := fun h => h0 (by simp [h])
    cases sg <;> by_cases h : 4 < kw.length <;> simp [h0, h, hne]

theorem choiceOf_count_cons (p : String × List Char) (rest : List (String × List Char)) :
    (choiceOf (p :: rest)).count ≤ (choiceOf rest).count + 1 := by
  rcases p with ⟨k, n⟩
  simp only [choiceOf, Choice.count, kwGet, List.find?_cons]
  by_cases h1 : k = "length" <;> by_cases h2 : k = "mass" <;> by_cases h3 : k = "time" <;>
    by_cases h4 : k = "energy" <;> by_cases h5 : k = "charge" <;>
    simp_all <;> omega

/-- the choice read from the keywords names at most as many working units as there are keywords (foreign keywords
    count for `len(kwargs)` but are never looked at). -/
theorem choiceOf_count_le (kw : List (String × List Char)) : (choiceOf kw).count ≤ kw.length := by
  induction kw with
  | nil => simp [choiceOf, Choice.count, kwGet]
  | cons p rest ih => have := choiceOf_count_cons p rest; simp only [List.length_cons]; omega

/-- a call that goes through by name: no seed, one to four keywords, the choice is the one read from the keywords,
    and the inner count check of `resetScales` cannot fire. -/
theorem reset_path_named (a : ResetArgs) (ch : Choice) (h : resetPath a = .named ch) :
    ch = choiceOf a.kw ∧ ch.count ≤ 4 ∧ a.seedGiven = false ∧ a.kw ≠ [] ∧ a.kw.length ≤ 4 := by
  rcases a with ⟨sg, kw⟩
  unfold resetPath at h
  by_cases h0 : kw.length = 0
  · simp [h0] at h
  · have hne : kw ≠ [] := fun h => h0 (by simp [h])
    cases sg <;> by_cases h4 : 4 < kw.length <;> simp [h0, h4] at h
    subst h
    have := choiceOf_count_le kw
    exact ⟨rfl, by show (choiceOf kw).count ≤ 4; omega, rfl, hne, by show kw.length ≤ 4; omega⟩

/-- **a refused call changes nothing** (entry-point level, any state, any seed the random generator would draw). -/
theorem reset_call_refused_keeps_state (tab : List UnitEntry) (sc seedSc : Scales K) (a : ResetArgs) (r : K)
    (h : a.kw ≠ [] ∧ (a.seedGiven = true ∨ 4 < a.kw.length)) : resetCall tab sc a seedSc r = sc := by
  rcases (reset_path_refuses_iff a).mpr h with h | h <;> simp [resetCall, h]

variable [CharZero K]

/-- **chosen units are one, from the call**: `reset_units(**kwargs)` without seed, with one to four keywords (any
    keyword strings: those that are not one of the five are ignored), the choice not over-determined and every named
    unit a table name of the keyword's dimension: whatever the state was, afterwards all base scalings are non-zero
    and every chosen unit is exactly 1 — through the generated decision chain and formulas. -/
theorem reset_call_chosen_units_one (tab : List UnitEntry) (htab : tableOK tab = true) (a : ResetArgs)
    (hseed : a.seedGiven = false) (hne : a.kw ≠ []) (h4 : a.kw.length ≤ 4)
    (hover : (UC.choiceOf a.kw).overDetermined = false) (hch : ChoiceOK tab (UC.choiceOf a.kw))
    (r : K) (hr : ∀ x, UC.radicand (envSI (K := K) tab) (UC.choiceOf a.kw) = some x → r * r = x)
    (sc0 seedSc : Scales K) :
    UC.resetPath a = .named (UC.choiceOf a.kw) ∧
    UC.resetScales (envSI (K := K) tab) (UC.choiceOf a.kw) r = some (resetCall tab sc0 a seedSc r) ∧
    (resetCall tab sc0 a seedSc r).Nonzero ∧
    ∀ k n, (UC.choiceOf a.kw).get k = some n → envOf tab (resetCall tab sc0 a seedSc r) n = some 1 := by
  rw [gen_choiceOf_eq_model] at *
  rw [gen_radicand_eq_model] at hr
  rw [gen_resetPath_eq_model, gen_resetScales_eq_model]
  have hp : resetPath a = .named (choiceOf a.kw) := by
    rcases a with ⟨sg, kw⟩
    simp only at hseed h4 hne ⊢
    subst hseed
    have h0 : kw.length ≠ 0 := fun h => hne (List.length_eq_zero_iff.mp h)
    have : ¬ 4 < kw.length := by omega
    simp [resetPath, this, h0]
  have hc : (choiceOf a.kw).count ≤ 4 := (reset_path_named a _ hp).2.1
  obtain ⟨sc, h1, h2, h3⟩ := reset_named_units_are_one tab htab (choiceOf a.kw) hc hover hch r hr
  have e : resetCall tab sc0 a seedSc r = sc := by simp [resetCall, hp, h1]
  rw [e]
  exact ⟨hp, h1, h2, h3⟩

end source

/-! ### `uc.model` / `uc.value_unit` -/

section datamodel
variable {K : Type} [Field K] [DecidableEq K]

theorem get_set_inverse (vals : List K) (f : K) (hf : f ≠ 0) : setInUnits (getInUnits vals f) f = vals := by
  simp only [getInUnits, setInUnits, List.map_map]
  conv_rhs => rw [← List.map_id vals]
  apply List.map_congr_left
  intro x _
  simp only [Function.comp, id]
  field_simp

theorem getInUnits_length (vals : List K) (f : K) : (getInUnits vals f).length = vals.length := by
  simp [getInUnits]

/-- **round trip through the data model**: `value_unit(model(x, u)) = x` — shape and entries — for every array
    (0-d, 1-d, any higher rank, empty ones) and every unit expression with a non-zero factor, or no unit at all. -/
theorem value_unit_model_inverse (alg : Alg K) (env : List Char → Option K) (a : Arr K) (hwf : a.wf)
    (u : Option (List Char)) (hu : ∀ s, u = some s → ∃ f, parseUnits alg env (some s) = some f ∧ f ≠ 0) :
    (ucModel alg env a u).bind (valueUnit alg env) = some a := by
  rcases a with ⟨sh, vals⟩
  simp only [Arr.wf] at hwf
  cases u with
  | none =>
    match sh with
    | [] => simp at hwf; simp [ucModel, valueUnit, hwf]
    | [n] => simp at hwf; simp [ucModel, valueUnit, hwf]
    | n :: m :: rest => simp [ucModel, valueUnit, hwf]
  | some s =>
    obtain ⟨f, hp, hf⟩ := hu s rfl
    match sh with
    | [] => simp at hwf; simp [ucModel, valueUnit, hp, hf, get_set_inverse, hwf, getInUnits_length]
    | [n] => simp at hwf; simp [ucModel, valueUnit, hp, hf, get_set_inverse, hwf, getInUnits_length]
    | n :: m :: rest => simp [ucModel, valueUnit, hp, hf, get_set_inverse, hwf, getInUnits_length]

/-- what `model` writes: the unit key is the units argument, the shape key exists exactly from two dimensions on, a
    single number exactly for a 0-d array, and as many entries as the array has. -/
theorem uc_model_keys (alg : Alg K) (env : List Char → Option K) (a : Arr K) (u : Option (List Char)) (t : UCModel K)
    (h : ucModel alg env a u = some t) :
    t.unit = u ∧ (t.shape.isSome ↔ 2 ≤ a.shape.length) ∧ (t.scalar = true ↔ a.shape = []) ∧
    t.vals.length = a.vals.length ∧ (∀ sh, t.shape = some sh → sh = a.shape) := by
  rcases a with ⟨sh, vals⟩
  simp only [ucModel, Option.map_eq_some_iff] at h
  obtain ⟨vs, hvs, rfl⟩ := h
  have hl : vs.length = vals.length := by
    cases u with
    | none => simp at hvs; subst hvs; rfl
    | some s =>
      simp only [Option.bind_eq_some_iff] at hvs
      obtain ⟨f, _, hf⟩ := hvs
      split at hf
      · cases hf
      · simp at hf; subst hf; simp [getInUnits]
  match sh with
  | [] => simp [hl]
  | [n] => simp [hl]
  | n :: m :: rest => simp [hl]

end datamodel

-- non-vacuity: the generated parser on a concrete rendering; calls of every path; a data-model round trip
example : UC.parse (numAlg ratToInt?) (envSI (K := Rat) unitTable) " 2 ^ -2\t^ 3 ".toList = some (1 / 64) := by
  decide +kernel
example : resetPath ⟨false, [("length", "nm".toList), ("lenght", "nm".toList)]⟩
    = .named ⟨some "nm".toList, none, none, none, none⟩ := by decide
example : resetPath ⟨true, [("length", "nm".toList)]⟩ = .refuseSeed := by decide
example : resetPath ⟨false, [("length", ['m']), ("mass", ['g']), ("time", ['s']), ("charge", ['C']), ("temperature", ['K'])]⟩
    = .refuseCount := by decide
example : resetPath ⟨true, []⟩ = .seeded := by decide
example : (ucModel (numAlg ratToInt?) (envSI (K := Rat) unitTable) ⟨[2, 2], [1, 2, 3, 4]⟩ (some "km".toList)).bind
    (valueUnit (numAlg ratToInt?) (envSI (K := Rat) unitTable)) = some ⟨[2, 2], [1, 2, 3, 4]⟩ := by decide +kernel
example : (⟨[2, 0, 3], []⟩ : Arr Rat).wf := by simp [Arr.wf]


/-! ## the default configuration; independence end to end -/

section
variable {K : Type} [Field K] [DecidableEq K] [CharZero K]
/-- **the configuration `import atomman` leaves** (`atomman/__init__.py` calls `unitconvert.reset_units` with the keywords
    regenerated into `UC.defaultKw`): the call goes through by name, all base scalings are non-zero and every unit it
    names — angstrom, amu, eV, e on the current tree — is exactly 1 over the regenerated unit table. -/
theorem default_units_are_one (r : K)
    (hr : ∀ x, UC.radicand (envSI (K := K) unitTable) (UC.choiceOf UC.defaultKw) = some x → r * r = x)
    (sc0 seedSc : Scales K) :
    UC.resetPath ⟨UC.defaultSeedGiven, UC.defaultKw⟩ = .named (UC.choiceOf UC.defaultKw) ∧
    (resetCall unitTable sc0 ⟨UC.defaultSeedGiven, UC.defaultKw⟩ seedSc r).Nonzero ∧
    ∀ k n, (UC.choiceOf UC.defaultKw).get k = some n →
      envOf unitTable (resetCall unitTable sc0 ⟨UC.defaultSeedGiven, UC.defaultKw⟩ seedSc r) n = some 1 := by
  have h := reset_call_chosen_units_one (K := K) unitTable unit_table_ok ⟨UC.defaultSeedGiven, UC.defaultKw⟩ rfl
    (by decide) (by decide) (by decide) (choiceOK_of_b (by decide +kernel)) r hr sc0 seedSc
  exact ⟨h.1, h.2.2.1, h.2.2.2⟩
end
example : UC.choiceOf UC.defaultKw = ⟨some "angstrom".toList, some "amu".toList, none, some "eV".toList, some "e".toList⟩ := by
  decide

section
variable {K : Type} [Field K] [DecidableEq K]

/-- **working-unit independence, over the generated definitions**: `x [s1]` in `[s2]` of equal dimension, computed by
    the generated parser and the generated `set_in_units` / `get_in_units`, is `x·v1/v2` under all non-zero scalings. -/
theorem gen_same_dim_ratio_invariant (toInt? : K → Option Int) (tab : List UnitEntry)
    (s1 s2 : List Char) (v1 v2 : K) (d : D5)
    (h1 : UC.parse (trackAlg toInt?) (envTracked tab) s1 = some (v1, d))
    (h2 : UC.parse (trackAlg toInt?) (envTracked tab) s2 = some (v2, d)) (hv2 : v2 ≠ 0)
    (sc : Scales K) (hsc : sc.Nonzero) (x : List K) :
    ∃ f1 f2, UC.parse (numAlg toInt?) (envOf tab sc) s1 = some f1
      ∧ UC.parse (numAlg toInt?) (envOf tab sc) s2 = some f2 ∧ f2 ≠ 0
      ∧ UC.getInUnits (UC.setInUnits x f1) f2 = x.map (fun t => t * v1 / v2) := by
  rw [gen_parse_eq_model] at h1 h2 ⊢
  rw [gen_setInUnits_eq_model, gen_getInUnits_eq_model]
  exact same_dim_ratio_invariant toInt? tab s1 s2 v1 v2 d h1 h2 hv2 sc hsc x

variable [CharZero K]

/-- **working-unit independence, from the call**: after ANY accepted named call of `reset_units` (no seed, one to
    four keywords, not over-determined, names of the right dimension — from any previous state) the conversion of `x`
    from `s1` to `s2` of equal dimension is `x·v1/v2`: entry point, decision chain, formulas, parser and glue composed. -/
theorem conversion_after_named_call (toInt? : K → Option Int) (tab : List UnitEntry) (htab : tableOK tab = true)
    (a : ResetArgs) (hseed : a.seedGiven = false) (hne : a.kw ≠ []) (h4 : a.kw.length ≤ 4)
    (hover : (UC.choiceOf a.kw).overDetermined = false) (hch : ChoiceOK tab (UC.choiceOf a.kw))
    (r : K) (hr : ∀ x, UC.radicand (envSI (K := K) tab) (UC.choiceOf a.kw) = some x → r * r = x)
    (sc0 seedSc : Scales K)
    (s1 s2 : List Char) (v1 v2 : K) (d : D5)
    (h1 : UC.parse (trackAlg toInt?) (envTracked tab) s1 = some (v1, d))
    (h2 : UC.parse (trackAlg toInt?) (envTracked tab) s2 = some (v2, d)) (hv2 : v2 ≠ 0) (x : List K) :
    ∃ f1 f2, UC.parse (numAlg toInt?) (envOf tab (resetCall tab sc0 a seedSc r)) s1 = some f1
      ∧ UC.parse (numAlg toInt?) (envOf tab (resetCall tab sc0 a seedSc r)) s2 = some f2 ∧ f2 ≠ 0
      ∧ UC.getInUnits (UC.setInUnits x f1) f2 = x.map (fun t => t * v1 / v2) :=
  gen_same_dim_ratio_invariant toInt? tab s1 s2 v1 v2 d h1 h2 hv2 _
    (reset_call_chosen_units_one tab htab a hseed hne h4 hover hch r hr sc0 seedSc).2.2.1 x
end

/-! # statement audit: direct instantiations

Every theorem above that has hypotheses is applied here to concrete, non-trivial arguments with every hypothesis
discharged (K = ℚ and the regenerated tables; ℝ where a square root or a lawful power function is needed), so that
no statement can hold because its hypotheses cannot be met. -/

section audit
open Atomman.Gen

theorem audit_renders : Renders (.div (.mul (.name ['k', 'g']) (.name ['m'])) (.pow (.name ['s']) (.num ['-', '2'])))
    2 " kg*(m)/s^-2".toList := by
  have hk : validName ['k', 'g'] := validName_of_b (by decide)
  have hm : validName ['m'] := validName_of_b (by decide)
  have hs : validName ['s'] := validName_of_b (by decide)
  have h2 : validNum ['-', '2'] := ⟨'-', ['2'], rfl, by decide, by simp [noStop, isStop], by simp [noParen]⟩
  exact Renders.div
    (Renders.mul (Renders.wsL ' ' (by decide) (Renders.up (Renders.up (Renders.name _ hk))))
      (Renders.up (Renders.paren (Renders.name _ hm))))
    (Renders.pow (Renders.up (Renders.name _ hs)) (Renders.num _ h2))

theorem audit_leaves : LeavesOK (.div (.name ['k', 'g']) (.pow (.name ['s']) (.num ['-', '2']))) :=
  ⟨validName_of_b (by decide), validName_of_b (by decide), ⟨'-', ['2'], rfl, by decide, by simp [noStop, isStop], by simp [noParen]⟩⟩

theorem audit_ws : allWs [' ', '\t', '\n', '\r'] := by
  intro c hc; simp at hc; rcases hc with rfl | rfl | rfl | rfl <;> decide

theorem ratToInt_sound (x : Rat) (n : Int) (h : ratToInt? x = some n) : x = (n : Rat) := by
  unfold ratToInt? at h
  split at h
  · rename_i hd
    cases h
    exact ((Rat.den_eq_one_iff x).mp hd).symm
  · cases h

def auditSc : Scales Rat := ⟨3, 1 / 7, 11, 5 / 2, 1⟩
theorem auditSc_nonzero : auditSc.Nonzero := by
  refine ⟨?_, ?_, ?_, ?_, ?_⟩ <;> norm_num [auditSc]

-- precedence: hand parser and regenerated parser on a rendering with blanks, a redundant parenthesis, a negative exponent
example : parse (numAlg ratToInt?) (envSI (K := Rat) unitTable) " kg*(m)/s^-2".toList
    = evalAst (numAlg ratToInt?) (envSI (K := Rat) unitTable)
        (.div (.mul (.name ['k', 'g']) (.name ['m'])) (.pow (.name ['s']) (.num ['-', '2']))) :=
  parse_precedence _ _ _ 2 _ audit_renders
example : UC.parse (numAlg ratToInt?) (envSI (K := Rat) unitTable) " kg*(m)/s^-2".toList
    = evalAst (numAlg ratToInt?) (envSI (K := Rat) unitTable)
        (.div (.mul (.name ['k', 'g']) (.name ['m'])) (.pow (.name ['s']) (.num ['-', '2']))) :=
  gen_parse_precedence _ _ _ 2 _ audit_renders
example : parse (numAlg ratToInt?) (envSI (K := Rat) unitTable)
      (render [' ', '\t', '\n', '\r'] 1 (.div (.name ['k', 'g']) (.pow (.name ['s']) (.num ['-', '2']))))
    = evalAst (numAlg ratToInt?) (envSI (K := Rat) unitTable) (.div (.name ['k', 'g']) (.pow (.name ['s']) (.num ['-', '2']))) :=
  parse_render_precedence _ _ _ audit_ws _ audit_leaves 1
example : parse (numAlg ratToInt?) (envSI (K := Rat) unitTable) "angstrom".toList
    = envSI (K := Rat) unitTable "angstrom".toList :=
  parse_name _ _ _ (validName_of_b (by decide))

-- round trips with a non-zero factor, real and complex, model and regenerated glue
example : getInUnits (setInUnits [(1 : Rat), -2, 1 / 3] (7 / 3)) (7 / 3) = [1, -2, 1 / 3] :=
  set_get_inverse _ _ (by norm_num)
example : setInUnits (getInUnits [(1 : Rat), -2, 1 / 3] (7 / 3)) (7 / 3) = [1, -2, 1 / 3] :=
  get_set_inverse _ _ (by norm_num)
example : (parseUnits (numAlg ratToInt?) (envSI (K := Rat) unitTable) (some "km".toList)).map
    (getInUnits (setInUnits [(1 : Rat), -2, 1 / 3] 1000)) = some [1, -2, 1 / 3] :=
  set_get_inverse_parse ratToInt? _ _ 1000 (by decide +kernel) (by norm_num) _
example : (UC.parseUnits (numAlg ratToInt?) (envSI (K := Rat) unitTable) (some "km".toList)).map
    (fun g => UC.getInUnits (UC.setInUnits [(1 : Rat), -2, 1 / 3] g) g) = some [1, -2, 1 / 3] :=
  gen_set_get_inverse ratToInt? _ _ 1000 (by decide +kernel) (by norm_num) _
example : getInUnitsC [((1 : Rat), 2), (0, -1 / 2)] (7 / 3) = [(1 / (7 / 3), 2 / (7 / 3)), (0 / (7 / 3), (-1 / 2) / (7 / 3))] :=
  get_in_units_complex_parts _ _ (by norm_num)
example : getInUnitsC (setInUnitsC [((1 : Rat), 2), (0, -1 / 2)] (7 / 3)) (7 / 3) = [(1, 2), (0, -1 / 2)] :=
  set_get_inverse_complex _ _ (by norm_num)

-- dimension homomorphism / working-unit independence on the regenerated table, scalings (3, 1/7, 11, 5/2, 1)
example : parse (numAlg ratToInt?) (envOf unitTable auditSc) "kg*m/s^2".toList
    = some (1 * factor auditSc ⟨1, 1, -2, 0, 0⟩) :=
  eval_dimension_hom ratToInt? unitTable auditSc auditSc_nonzero _ 1 _ (by decide +kernel)
example : evalAst (numAlg ratToInt?) (envOf unitTable auditSc)
      (.div (.mul (.name ['k', 'g']) (.name ['m'])) (.pow (.name ['s']) (.num ['2'])))
    = some (1 * factor auditSc ⟨1, 1, -2, 0, 0⟩) :=
  eval_dimension_hom_ast ratToInt? unitTable auditSc auditSc_nonzero _ 1 _ (by decide +kernel)
example : ∃ f1 f2, parse (numAlg ratToInt?) (envOf unitTable auditSc) "kg*km/s^2".toList = some f1
      ∧ parse (numAlg ratToInt?) (envOf unitTable auditSc) "N".toList = some f2 ∧ f2 ≠ 0
      ∧ getInUnits (setInUnits [(2 : Rat), -3] f1) f2 = [(2 : Rat), -3].map (fun t => t * 1000 / 1) :=
  same_dim_ratio_invariant ratToInt? unitTable _ _ 1000 1 ⟨1, 1, -2, 0, 0⟩ (by decide +kernel) (by decide +kernel)
    (by norm_num) auditSc auditSc_nonzero _
example : ∃ f1 f2, UC.parse (numAlg ratToInt?) (envOf unitTable auditSc) "kg*km/s^2".toList = some f1
      ∧ UC.parse (numAlg ratToInt?) (envOf unitTable auditSc) "N".toList = some f2 ∧ f2 ≠ 0
      ∧ UC.getInUnits (UC.setInUnits [(2 : Rat), -3] f1) f2 = [(2 : Rat), -3].map (fun t => t * 1000 / 1) :=
  gen_same_dim_ratio_invariant ratToInt? unitTable _ _ 1000 1 ⟨1, 1, -2, 0, 0⟩ (by decide +kernel) (by decide +kernel)
    (by norm_num) auditSc auditSc_nonzero _
example : (⟨1, 1, -2, 0, 0⟩ : D5) = (⟨none, ⟨1, 1, -2, 0, 0⟩⟩ : DimVal).dim :=
  dim_analysis_sound (K := Rat) ratToInt? ratToInt_sound unitTable "N".toList ⟨none, ⟨1, 1, -2, 0, 0⟩⟩ 1 _
    (by decide +kernel) (by decide +kernel)

-- a style-table entry (metal: force = eV/angstrom): it has a tracked value, and scales like a force
example : (parse (trackAlg ratToInt?) (envTracked (K := Rat) unitTable) "eV/angstrom".toList).isSome = true := by
  decide +kernel
example (v : Rat) (d : D5) (hv : parse (trackAlg ratToInt?) (envTracked (K := Rat) unitTable) "eV/angstrom".toList = some (v, d)) :
    parse (numAlg ratToInt?) (envOf unitTable auditSc) "eV/angstrom".toList = some (v * factor auditSc ⟨1, 1, -2, 0, 0⟩) :=
  style_entry_scaling ratToInt? ratToInt_sound styleTables[2] (List.getElem_mem (l := styleTables) (by decide)) "force" _ (by decide +kernel)
    ⟨1, 1, -2, 0, 0⟩ (by decide +kernel) v d hv auditSc auditSc_nonzero

-- reset_units by name with a square root that exists in ℚ: length m, mass kg, energy J (time = √(1·1²/1) = 1)
theorem audit_hr : ∀ x : Rat, radicand (envSI (K := Rat) unitTable) ⟨some "m".toList, some "kg".toList, none, some "J".toList, none⟩
    = some x → (1 : Rat) * 1 = x := by
  intro x hx
  rw [show radicand (envSI (K := Rat) unitTable) ⟨some "m".toList, some "kg".toList, none, some "J".toList, none⟩
    = some (1 * 1) from by decide +kernel] at hx
  cases hx; rfl
example : ∃ sc : Scales Rat, resetScales (envSI (K := Rat) unitTable)
      ⟨some "m".toList, some "kg".toList, none, some "J".toList, none⟩ 1 = some sc ∧ sc.Nonzero ∧
      ∀ k n, (⟨some "m".toList, some "kg".toList, none, some "J".toList, none⟩ : Choice).get k = some n →
        envOf unitTable sc n = some 1 :=
  reset_named_units_are_one (K := Rat) unitTable unit_table_ok _ (by decide) (by decide) (choiceOK_of_b (by decide +kernel)) 1
    audit_hr
example : ∃ sc : Scales Rat, resetScales (envSI (K := Rat) unitTable)
      ⟨some "m".toList, some "kg".toList, none, some "J".toList, none⟩ 1 = some sc ∧ sc.Nonzero ∧
      ∀ k n, (⟨some "m".toList, some "kg".toList, none, some "J".toList, none⟩ : Choice).get k = some n → validName n →
        parse (numAlg ratToInt?) (envOf unitTable sc) n = some 1 :=
  reset_named_units_parse_one (K := Rat) ratToInt? unitTable unit_table_ok _ (by decide) (by decide)
    (choiceOK_of_b (by decide +kernel)) 1 audit_hr
example : resetScales (envSI (K := Rat) unitTable) ⟨some ['m'], some ['k', 'g'], some ['s'], some ['J'], some ['C']⟩ 0 = none :=
  reset_refuses_five _ _ _ (by decide)
example : resetScales (envSI (K := Rat) unitTable) ⟨some "km".toList, some ['g'], some "ms".toList, some "eV".toList, none⟩ 0
    = resetScales (envSI (K := Rat) unitTable) ⟨some "km".toList, some ['g'], some "ms".toList, none, none⟩ 0 :=
  reset_over_determined_ignores_energy _ _ _ (by decide) (by decide) (by decide +kernel)

-- sessions: history [parse C, rebase] then reset_units(length='km'), then reads
def auditHist : List (Call Rat) := [.parse (some "C".toList), .rebase auditSc]
def auditReads : List (Call Rat) := [.parse (some "km".toList), .unit "km".toList, .convert [1, 2] (some ['m']) (some "km".toList)]
theorem auditReads_isRead : ∀ c ∈ auditReads, c.isRead = true := by decide
theorem audit_km : resetScales (envSI (K := Rat) unitTable) ⟨some "km".toList, none, none, none, none⟩ 0
    = some ⟨1 / 1000, 1, 1, 1, 1⟩ := by decide +kernel
example : finalScales unitTable siScales (auditHist ++ Call.reset ⟨some "km".toList, none, none, none, none⟩ 0 :: auditReads)
    = ⟨1 / 1000, 1, 1, 1, 1⟩ :=
  session_state_after_reset unitTable _ _ _ 0 _ (by decide) audit_km _ auditReads_isRead
example : finalScales unitTable siScales (auditHist ++ Call.rebase ⟨2, 3, 5, 7, 1⟩ :: auditReads) = ⟨2, 3, 5, 7, 1⟩ :=
  session_state_after_rebase unitTable _ _ _ _ auditReads_isRead
example : finalScales unitTable siScales (auditHist ++ [Call.reset ⟨some "nounit".toList, none, none, none, none⟩ 0])
    = if 4 < (⟨some "nounit".toList, none, none, none, none⟩ : Choice).count then finalScales unitTable siScales auditHist
      else siScales :=
  session_state_after_failed_reset unitTable _ _ _ 0 (by decide +kernel)
example :
    (Call.unit "km".toList).reply (numAlg ratToInt?) unitTable
      (finalScales unitTable siScales (auditHist ++ Call.reset ⟨some "km".toList, none, none, none, none⟩ 0 :: auditReads)) = some [1]
    ∧ (Call.parse (some "km".toList)).reply (numAlg ratToInt?) unitTable
      (finalScales unitTable siScales (auditHist ++ Call.reset ⟨some "km".toList, none, none, none, none⟩ 0 :: auditReads)) = some [1] :=
  session_chosen_units_one (K := Rat) ratToInt? unitTable unit_table_ok _ (by decide) (by decide)
    (choiceOK_of_b (by decide +kernel)) 0 (by intro x hx; rw [radicand_mass_none _ _ rfl] at hx; cases hx)
    siScales auditHist auditReads auditReads_isRead .length _ rfl (validName_of_b (by decide))
theorem auditHist_final : finalScales unitTable (siScales (K := Rat)) auditHist = auditSc := by decide +kernel
example : (Call.convert [(2 : Rat), -3] (some "kg*km/s^2".toList) (some "N".toList)).reply (numAlg ratToInt?) unitTable
      (finalScales unitTable siScales auditHist) = some ([(2 : Rat), -3].map fun t => t * 1000 / 1) :=
  session_conversion_invariant ratToInt? unitTable _ _ 1000 1 ⟨1, 1, -2, 0, 0⟩ (by decide +kernel) (by decide +kernel)
    (by norm_num) (by decide) (by decide) siScales auditHist (by rw [auditHist_final]; exact auditSc_nonzero) _

-- the rational-exponent algebras extend the integer ones (any stand-in for rpow: it is never reached)
example : parse (numAlgR (fun q : Rat => some q) (fun x _ => x)) (envSI (K := Rat) unitTable) "km*km".toList = some 1000000 :=
  parse_rpow_extends (rpow := fun x _ => x) ratToInt? (fun q => some q)
    (fun x n h => by rw [ratToInt_sound x n h]) _ _ _ (by decide +kernel)
example : parse (trackAlgR (fun q : Rat => some q) (fun x _ => x)) (envTrackedQ (K := Rat) unitTable) "kg*m/s^2".toList
    = some (1, (⟨1, 1, -2, 0, 0⟩ : D5).toQ) :=
  track_rpow_extends (rpow := fun x _ => x) ratToInt? (fun q => some q)
    (fun x n h => by rw [ratToInt_sound x n h]) unitTable _ _ _ (by decide +kernel)
example : (parseUnits (numAlgR (fun q : Rat => some q) (fun x _ => x)) (envSI (K := Rat) unitTable) (some "km".toList)).map
    (getInUnits (setInUnits [(1 : Rat), -2, 1 / 3] 1000)) = some [1, -2, 1 / 3] :=
  set_get_inverse_parse_rpow (rpow := fun x _ => x) (fun q => some q) _ _ 1000 (by decide +kernel) (by norm_num) _
example : (⟨-1 / 2, 1, -2, 0, 0⟩ : Q5) = (⟨none, ⟨-1 / 2, 1, -2, 0, 0⟩⟩ : QDimVal).dim :=
  dim_analysis_sound_rpow (F := Rat) (rpow := fun x _ => x) (fun q => some q) (fun x q h => by cases h; simp) unitTable
    "MPa*m^(1/2)".toList ⟨none, ⟨-1 / 2, 1, -2, 0, 0⟩⟩ 1000000 _ (by decide +kernel) (by decide +kernel)

-- the laws of rpow are those of the real power function; the driver's exact power agrees with it
theorem realRpowLaws : RpowLaws (fun (x : ℝ) (q : Rat) => x ^ (q : ℝ)) where
  add x hx a b := by simp only [Rat.cast_add]; exact Real.rpow_add hx _ _
  mul x y hx hy a := Real.mul_rpow hx.le hy.le
  one x hx := by simp
example : ((2 : ℝ) ^ (((1 / 2 : Rat)) : ℝ)) ^ (((2 : Rat)) : ℝ) = (2 : ℝ) ^ (((1 / 2 * 2 : Rat)) : ℝ) :=
  rpow_rpow realRpowLaws (x := (2 : ℝ)) (by norm_num) (1 / 2) 2
example : (0 : Rat) < (ratRpowE 4 (1 / 2)).1 ∧ (ratRpowE 4 (1 / 2)).1 ^ (1 / 2 : Rat).den = 4 ^ (1 / 2 : Rat).num :=
  ratRpowE_exact 4 (1 / 2) (by norm_num) (by decide +kernel)
example : (((4 : Rat) : ℝ)) ^ (((1 / 2 : Rat)) : ℝ) = (((ratRpowE 4 (1 / 2)).1 : Rat) : ℝ) :=
  rpow_agrees_with_driver (F := ℝ) realRpowLaws 4 (1 / 2) (by norm_num) (by decide +kernel)

-- the entry point: accepted and refused calls
example :=
  reset_path_named ⟨false, [("length", "nm".toList), ("lenght", "nm".toList)]⟩ ⟨some "nm".toList, none, none, none, none⟩ (by decide)
example : resetCall unitTable auditSc ⟨true, [("length", "nm".toList)]⟩ ⟨2, 3, 5, 7, 1⟩ 0 = auditSc :=
  reset_call_refused_keeps_state _ _ _ _ _ ⟨by decide, Or.inl rfl⟩
def auditArgs : ResetArgs := ⟨false, [("length", "m".toList), ("mass", "kg".toList), ("energy", "J".toList), ("lenght", "nm".toList)]⟩
theorem audit_hr_call : ∀ x : Rat, UC.radicand (envSI (K := Rat) unitTable) (UC.choiceOf auditArgs.kw) = some x → (1 : Rat) * 1 = x := by
  intro x hx
  rw [show UC.radicand (envSI (K := Rat) unitTable) (UC.choiceOf auditArgs.kw) = some (1 * 1) from by decide +kernel] at hx
  cases hx; rfl
example := reset_call_chosen_units_one (K := Rat) unitTable unit_table_ok auditArgs rfl (by decide) (by decide) (by decide)
  (choiceOK_of_b (by decide +kernel)) 1 audit_hr_call auditSc ⟨2, 3, 5, 7, 1⟩
example := conversion_after_named_call (K := Rat) ratToInt? unitTable unit_table_ok auditArgs rfl (by decide) (by decide) (by decide)
  (choiceOK_of_b (by decide +kernel)) 1 audit_hr_call auditSc ⟨2, 3, 5, 7, 1⟩ "kg*km/s^2".toList "N".toList 1000 1
  ⟨1, 1, -2, 0, 0⟩ (by decide +kernel) (by decide +kernel) (by norm_num) [2, -3]

-- the data model: a 2 x 2 array in km
example : (ucModel (numAlg ratToInt?) (envSI (K := Rat) unitTable) ⟨[2, 2], [1, 2, 3, 4]⟩ (some "km".toList)).bind
    (valueUnit (numAlg ratToInt?) (envSI (K := Rat) unitTable)) = some ⟨[2, 2], [1, 2, 3, 4]⟩ :=
  value_unit_model_inverse _ _ _ (by simp [Arr.wf]) _ (fun s hs => by cases hs; exact ⟨1000, by decide +kernel, by norm_num⟩)
example : (ucModel (numAlg ratToInt?) (envSI (K := Rat) unitTable) ⟨[2, 2], [1, 2, 3, 4]⟩ (some "km".toList)).isSome = true := by
  decide +kernel
example (t : UCModel Rat) (h : ucModel (numAlg ratToInt?) (envSI (K := Rat) unitTable) ⟨[2, 2], [1, 2, 3, 4]⟩ (some "km".toList) = some t) :=
  uc_model_keys _ _ ⟨[2, 2], [1, 2, 3, 4]⟩ _ t h

/-! the default configuration needs a square root that ℚ does not have (time = √(amu·Å²/eV)): the hypothesis of
    `default_units_are_one` is met over ℝ, where the quantity under the root is positive. -/
section realroot
variable {F : Type} [Field F] [LinearOrder F] [IsStrictOrderedRing F] [DecidableEq F]

theorem baseScale_pos (si : List Char → Option F) (hsi : ∀ n v, si n = some v → 0 < v) (b : List Char)
    (o : Option (List Char)) (y : F) (h : baseScale si b o = some y) : 0 < y := by
  cases o with
  | none => simp [baseScale] at h; rw [← h]; exact one_pos
  | some n =>
    simp only [baseScale] at h
    cases hb : si b with
    | none => simp [hb] at h
    | some bv =>
      cases hn : si n with
      | none => simp [hb, hn] at h
      | some v =>
        simp only [hb, hn] at h
        split at h
        · cases h
        · cases h; exact div_pos (hsi _ _ hb) (hsi _ _ hn)

/-- the quantity under the square root of `reset_units` is positive whenever the table values are. -/
theorem radicand_pos (si : List Char → Option F) (hsi : ∀ n v, si n = some v → 0 < v) (ch : Choice) (x : F)
    (h : radicand si ch = some x) : 0 < x := by
  unfold radicand at h
  split at h
  · cases h
  · split at h
    · rename_i m kg s j hm hkg hs hj
      have pm := baseScale_pos si hsi _ _ _ hm
      have pkg := baseScale_pos si hsi _ _ _ hkg
      have ps := baseScale_pos si hsi _ _ _ hs
      have pj := baseScale_pos si hsi _ _ _ hj
      split at h
      · cases h
      · split at h
        · cases h; positivity
        · split at h
          · cases h; positivity
          · cases h
    · cases h

theorem envSI_pos {tab : List UnitEntry} (htab : tableOK tab = true) (n : List Char) (v : F)
    (h : envSI (K := F) tab n = some v) : 0 < v := by
  simp only [envSI, Option.map_eq_some_iff] at h
  obtain ⟨e, he, rfl⟩ := h
  obtain ⟨h1, h2⟩ := (tableFacts htab).pos e (lookup_mem he)
  simp only [UnitEntry.si]
  exact div_pos (Int.cast_pos.mpr (by omega)) (Nat.cast_pos.mpr (by omega))
end realroot

/-- the square-root hypothesis of `reset_named_units_are_one` / `default_units_are_one` can be met over ℝ for every
    choice. -/
theorem real_root_exists (ch : Choice) :
    ∃ r : ℝ, ∀ x, radicand (envSI (K := ℝ) unitTable) ch = some x → r * r = x := by
  cases h : radicand (envSI (K := ℝ) unitTable) ch with
  | none => exact ⟨0, by intro x hx; cases hx⟩
  | some x0 =>
    have hp := radicand_pos _ (envSI_pos unit_table_ok) ch x0 h
    exact ⟨Real.sqrt x0, by intro x hx; cases hx; exact Real.mul_self_sqrt hp.le⟩

noncomputable example : ∃ r : ℝ, ∀ (sc0 seedSc : Scales ℝ),
    UC.resetPath ⟨UC.defaultSeedGiven, UC.defaultKw⟩ = .named (UC.choiceOf UC.defaultKw) ∧
    (resetCall unitTable sc0 ⟨UC.defaultSeedGiven, UC.defaultKw⟩ seedSc r).Nonzero ∧
    ∀ k n, (UC.choiceOf UC.defaultKw).get k = some n →
      envOf unitTable (resetCall unitTable sc0 ⟨UC.defaultSeedGiven, UC.defaultKw⟩ seedSc r) n = some 1 := by
  obtain ⟨r, hr⟩ := real_root_exists (UC.choiceOf UC.defaultKw)
  exact ⟨r, fun sc0 seedSc => default_units_are_one (K := ℝ) r (by rw [gen_radicand_eq_model]; exact hr) sc0 seedSc⟩

end audit

/-! ### statement audit, second part: `set_literal` and the `_rpow` theorems over ℝ with the real power function -/
section audit2

-- `set_literal('1.5e3   km ')` and `set_literal('[[1, 2], [3.5, -4]]  km')`: every hypothesis discharged
example : setLiteral (numAlg ratToInt?) (envSI (K := Rat) unitTable) ("1.5e3".toList ++ ' ' :: "  km ".toList)
    = some (litVal 15 2 * 1000) :=
  set_literal_scalar _ _ "1.5e3".toList "  km ".toList 15 2 1000 (by rfl) (by decide +kernel) (by decide +kernel)
    (by decide) (by decide +kernel)
example : setLiteralV (numAlg ratToInt?) (envSI (K := Rat) unitTable) ("[[1, 2], [3.5, -4]]".toList ++ ' ' :: " km".toList)
    = some ([2, 2], (Lit.seq [.seq [.num 1 0, .num 2 0], .seq [.num 35 (-1), .num (-4) 0]]).flat.map
        fun me => litVal me.1 me.2 * 1000) :=
  set_literal_value_unit _ _ "[[1, 2], [3.5, -4]]".toList " km".toList _ [2, 2] 1000 (by rfl) (by decide +kernel)
    (by decide +kernel) (by decide +kernel) (by decide) (by decide +kernel)
example := set_literal_eq_set_in_units (numAlg ratToInt?) (envSI (K := Rat) unitTable) "[[1, 2], [3.5, -4]]".toList " km".toList
    (Lit.seq [.seq [.num 1 0, .num 2 0], .seq [.num 35 (-1), .num (-4) 0]]) [2, 2] 1000 (by rfl) (by decide +kernel)
    (by decide +kernel) (by decide +kernel) (by decide) (by decide +kernel)

-- laws and parse hypotheses over the SAME field: ℝ, the real power function, the table names km and mm
def kmE : UnitEntry := ⟨"km".toList, 1000, 1, ⟨1, 0, 0, 0, 0⟩⟩
def mmE : UnitEntry := ⟨"mm".toList, 1152921504606847, 1152921504606846976, ⟨1, 0, 0, 0, 0⟩⟩
theorem lookup_km : lookup unitTable "km".toList = some kmE := by rfl
theorem lookup_mm : lookup unitTable "mm".toList = some mmE := by rfl
noncomputable def scR : Scales ℝ := ⟨3, 1 / 7, 11, 5 / 2, 1⟩
theorem scR_pos : scR.Pos := by refine ⟨?_, ?_, ?_, ?_, ?_⟩ <;> norm_num [scR]
theorem track_km (toRat? : ℝ → Option Rat) (rp : ℝ → Rat → ℝ) :
    parse (trackAlgR toRat? rp) (envTrackedQ (K := ℝ) unitTable) "km".toList = some (kmE.si, kmE.dim.toQ) := by
  rw [parse_name _ _ _ (validName_of_b (by decide))]
  simp only [envTrackedQ, lookup_km, Option.map_some]
theorem track_mm (toRat? : ℝ → Option Rat) (rp : ℝ → Rat → ℝ) :
    parse (trackAlgR toRat? rp) (envTrackedQ (K := ℝ) unitTable) "mm".toList = some (mmE.si, kmE.dim.toQ) := by
  rw [parse_name _ _ _ (validName_of_b (by decide))]
  simp only [envTrackedQ, lookup_mm, Option.map_some]; rfl
theorem mm_ne_zero : (mmE.si : ℝ) ≠ 0 := by norm_num [mmE, UnitEntry.si]

noncomputable example := eval_dimension_hom_rpow (F := ℝ) (fun _ => none) realRpowLaws unitTable scR scR_pos "km".toList _ _
  (track_km _ _)
noncomputable example := eval_dimension_hom_ast_rpow (F := ℝ) (fun _ => none) realRpowLaws unitTable scR scR_pos
  (.name "km".toList) kmE.si kmE.dim.toQ (by simp only [evalAst, envTrackedQ, lookup_km, Option.map_some])
noncomputable example := same_dim_ratio_invariant_rpow (F := ℝ) (fun _ => none) realRpowLaws unitTable "km".toList "mm".toList
  kmE.si mmE.si kmE.dim.toQ (track_km _ _) (track_mm _ _) mm_ne_zero scR scR_pos [2, -3]
noncomputable example := session_conversion_invariant_rpow (F := ℝ) (fun _ => none) realRpowLaws unitTable "km".toList "mm".toList
  kmE.si mmE.si kmE.dim.toQ (track_km _ _) (track_mm _ _) mm_ne_zero (by decide) (by decide) scR
  [Call.parse (some "C".toList)] (by simpa [finalScales, Call.next] using scR_pos) [2, -3]
example : ((4 : ℝ)) ^ (((1 / 2 : Rat)) : ℝ) = 2 :=
  rpow_unique realRpowLaws (x := (4 : ℝ)) (y := 2) (by norm_num) (by norm_num) (1 / 2)
    (by rw [show (1 / 2 : ℚ).den = 2 from by decide +kernel, show (1 / 2 : ℚ).num = 1 from by decide +kernel]; norm_num)
example := session_chosen_units_one_rpow (F := Rat) (rpow := fun x _ => x) (fun q => some q) unitTable unit_table_ok
    ⟨some "km".toList, none, none, none, none⟩ (by decide) (by decide)
    (choiceOK_of_b (by decide +kernel)) 0 (by intro x hx; rw [radicand_mass_none _ _ rfl] at hx; cases hx)
    siScales auditHist auditReads auditReads_isRead .length _ rfl (validName_of_b (by decide))
end audit2

end Atomman.C09
