/-
  C04 — the sublattice-index theorem, via Mathlib's Smith-normal-form result
  `Submodule.natAbs_det_equiv`: for an integer 3x3 matrix `U` with `det U ≠ 0` the quotient
  `ℤ³ / ℤ³·U` has `|det U|` elements, and for every offset `s` the lattice shifts `n` whose image
  `s + n` lies in the half-open cell of the new lattice are a complete, irredundant system of coset
  representatives (existence: `reduce_rep`, uniqueness: `rep_unique`).  Hence there are exactly
  `|det U|` of them (`rep_card`).
-/
import Proofs.C04_Reps
import Mathlib.LinearAlgebra.FreeModule.Finite.CardQuotient
import Mathlib.LinearAlgebra.Matrix.ToLin
import Mathlib.SetTheory.Cardinal.Finite

namespace Atomman.C04
open Atomman

/-- the integer matrix as a Mathlib matrix -/
def toMat (U : M3 Int) : Matrix (Fin 3) (Fin 3) ℤ :=
  !![U.r0.x, U.r0.y, U.r0.z; U.r1.x, U.r1.y, U.r1.z; U.r2.x, U.r2.y, U.r2.z]

def toFun (n : V3 Int) : Fin 3 → ℤ := ![n.x, n.y, n.z]
def ofFun (v : Fin 3 → ℤ) : V3 Int := ⟨v 0, v 1, v 2⟩

theorem ofFun_toFun (n : V3 Int) : ofFun (toFun n) = n := rfl
theorem toFun_ofFun (v : Fin 3 → ℤ) : toFun (ofFun v) = v := by
  ext i; fin_cases i <;> rfl

theorem toMat_det (U : M3 Int) : (toMat U).det = M3.det U := by
  obtain ⟨⟨a, b, c⟩, ⟨d, e, f⟩, ⟨g, h, i⟩⟩ := U
  rw [Matrix.det_fin_three]; simp [toMat, M3.det, V3.dot, V3.cross]; ring

/-- `m ↦ m·U` (row vector times matrix) as a ℤ-linear map. -/
def rowMul (U : M3 Int) : (Fin 3 → ℤ) →ₗ[ℤ] (Fin 3 → ℤ) := Matrix.toLin' (toMat U).transpose

theorem rowMul_apply (U : M3 Int) (m : V3 Int) : rowMul U (toFun m) = toFun (mulU m U) := by
  obtain ⟨⟨a, b, c⟩, ⟨d, e, f⟩, ⟨g, h, i⟩⟩ := U
  obtain ⟨x, y, z⟩ := m
  ext j
  fin_cases j <;>
    simp [rowMul, toMat, toFun, mulU, M3.vecMul, Matrix.toLin'_apply, Matrix.mulVec, dotProduct, Fin.sum_univ_three] <;> ring

theorem rowMul_det (U : M3 Int) : LinearMap.det (rowMul U) = M3.det U := by
  rw [rowMul, LinearMap.det_toLin', Matrix.det_transpose, toMat_det]

theorem rowMul_injective (U : M3 Int) (h : M3.det U ≠ 0) : Function.Injective (rowMul U) := by
  rw [← LinearMap.ker_eq_bot, LinearMap.ker_eq_bot']
  intro v hv
  apply Matrix.eq_zero_of_mulVec_eq_zero (M := (toMat U).transpose)
  · rw [Matrix.det_transpose, toMat_det]; exact h
  · simpa [rowMul, Matrix.toLin'_apply] using hv

/-- the sublattice `ℤ³·U` has index `|det U|` in `ℤ³`. -/
theorem card_quotient (U : M3 Int) (h : M3.det U ≠ 0) :
    Nat.card ((Fin 3 → ℤ) ⧸ LinearMap.range (rowMul U)) = (M3.det U).natAbs := by
  have := Submodule.natAbs_det_equiv (LinearMap.range (rowMul U))
    (LinearEquiv.ofInjective (rowMul U) (rowMul_injective U h))
  rw [← this]
  congr 1
  rw [← rowMul_det]
  congr 1


variable {K : Type} [Field K] [LinearOrder K] [IsStrictOrderedRing K] [FloorRing K]

theorem toFun_sub (a b : V3 Int) : toFun (a - b) = toFun a - toFun b := by
  ext j; fin_cases j <;> rfl

theorem toFun_injective : Function.Injective toFun := by
  intro a b h
  have := congrArg ofFun h
  simpa [ofFun_toFun] using this

/-- the representatives of an offset `s` are a complete irredundant system of coset representatives
    of `ℤ³ / ℤ³·U`. -/
theorem rep_bijective (U : M3 Int) (h : M3.det U ≠ 0) (s : V3 K) :
    Function.Bijective (fun n : {n : V3 Int // Rep U s n} =>
      (Submodule.Quotient.mk (toFun n.1) : (Fin 3 → ℤ) ⧸ LinearMap.range (rowMul U))) := by
  constructor
  · rintro ⟨n, hn⟩ ⟨n', hn'⟩ e
    simp only at e
    rw [Submodule.Quotient.eq, LinearMap.mem_range] at e
    obtain ⟨v, hv⟩ := e
    have hv' : toFun (mulU (ofFun v) U) = toFun (n - n') := by
      rw [← rowMul_apply, toFun_ofFun, hv, toFun_sub]
    have e2 := toFun_injective hv'
    apply Subtype.ext
    show n = n'
    apply rep_unique U h s n n' (⟨0,0,0⟩ - ofFun v) hn hn'
    rw [show mulU (⟨0,0,0⟩ - ofFun v) U = ⟨0,0,0⟩ - mulU (ofFun v) U from by
      ext <;> simp only [mulU, M3.vecMul, V3.sub_x', V3.sub_y', V3.sub_z'] <;> ring, e2]
    ext <;> simp only [V3.sub_x', V3.sub_y', V3.sub_z'] <;> ring
  · intro q
    obtain ⟨v, rfl⟩ := Submodule.Quotient.mk_surjective _ q
    refine ⟨⟨reduce U s (ofFun v), reduce_rep U h s _⟩, ?_⟩
    obtain ⟨m, hm⟩ := reduce_congr U s (ofFun v)
    simp only
    rw [Submodule.Quotient.eq, hm, toFun_sub, toFun_ofFun, ← rowMul_apply]
    have : v - rowMul U (toFun m) - v = rowMul U (- toFun m) := by
      rw [map_neg]; abel
    rw [this]
    exact LinearMap.mem_range_self _ _

/-- **Index theorem.** For every offset `s` exactly `|det U|` lattice shifts put the image inside the new half-open cell. -/
theorem rep_card (U : M3 Int) (h : M3.det U ≠ 0) (s : V3 K) :
    Nat.card {n : V3 Int // Rep U s n} = (M3.det U).natAbs := by
  rw [← card_quotient U h]
  exact Nat.card_congr (Equiv.ofBijective _ (rep_bijective U h s))

end Atomman.C04
