/-
  C03 — helper lemmas (E): the specification does not depend on the unit of length nor on where the cell sits:
  `dmag2` of a system whose cell, origin and positions are all multiplied by `s ≠ 0` is `s²` times the original one;
  `dmag2` of a rigidly translated system is unchanged; atoms stay inside the cell under both transformations.
-/
import Proofs.C03_Geometry

set_option linter.unusedSimpArgs false
set_option linter.unusedVariables false

namespace Atomman.C03
open List

/-- `s * p`, componentwise. -/
def smulV (s : ℚ) (p : V3 ℚ) : V3 ℚ := ⟨s * p.x, s * p.y, s * p.z⟩

/-- every length of the system multiplied by `s`: cell vectors, origin, positions (the cutoff is scaled by the
    caller). -/
def scaleSys (s : ℚ) (S : Sys) : Sys :=
  { S with vects := ⟨smulV s S.vects.r0, smulV s S.vects.r1, smulV s S.vects.r2⟩,
           origin := smulV s S.origin, pos := S.pos.map (smulV s) }

/-- the whole system (origin and atoms) moved by `t`. -/
def translateSys (t : V3 ℚ) (S : Sys) : Sys :=
  { S with origin := S.origin + t, pos := S.pos.map (· + t) }

theorem scaleSys_natoms (s : ℚ) (S : Sys) : (scaleSys s S).natoms = S.natoms := by
  simp [scaleSys, Sys.natoms]

theorem translateSys_natoms (t : V3 ℚ) (S : Sys) : (translateSys t S).natoms = S.natoms := by
  simp [translateSys, Sys.natoms]

theorem scaleSys_posOf (s : ℚ) (S : Sys) (i : Nat) : (scaleSys s S).posOf i = smulV s (S.posOf i) := by
  unfold scaleSys Sys.posOf
  simp only [List.getD_eq_getElem?_getD, List.getElem?_map]
  cases S.pos[i]? <;> simp [smulV]

theorem translateSys_posOf (t : V3 ℚ) (S : Sys) (i : Nat) (hi : i < S.natoms) :
    (translateSys t S).posOf i = S.posOf i + t := by
  unfold translateSys Sys.posOf
  have hi' : i < S.pos.length := hi
  simp only [List.getD_eq_getElem?_getD, List.getElem?_map, List.getElem?_eq_getElem hi']
  simp

/-- the running minimum of `dmag2_c` commutes with a positive factor. -/
theorem foldl_min_scale {α : Type} (k : ℚ) (hk : 0 < k) (f g : α → ℚ) (h : ∀ a, g a = k * f a) (l : List α) (m : ℚ) :
    l.foldl (fun m a => if g a < m then g a else m) (k * m)
      = k * l.foldl (fun m a => if f a < m then f a else m) m := by
  induction l generalizing m with
  | nil => rfl
  | cons a l ih =>
    simp only [List.foldl_cons]
    by_cases hlt : f a < m
    · have : g a < k * m := by rw [h a]; exact mul_lt_mul_of_pos_left hlt hk
      rw [if_pos this, if_pos hlt, h a]
      exact ih (f a)
    · have : ¬ g a < k * m := by
        rw [h a]; intro hh
        exact hlt (lt_of_mul_lt_mul_left hh hk.le)
      rw [if_neg this, if_neg hlt]
      exact ih m

theorem normSq_shift_scale (s : ℚ) (V : M3 ℚ) (p0 p1 : V3 ℚ) (sh : Int × Int × Int) :
    V3.normSq (shiftBy (⟨smulV s V.r0, smulV s V.r1, smulV s V.r2⟩ : M3 ℚ) (smulV s p1 - smulV s p0) sh)
      = (s * s) * V3.normSq (shiftBy V (p1 - p0) sh) := by
  show V3.normSq (shiftBy _ (V3.sub _ _) sh) = _ * V3.normSq (shiftBy V (V3.sub _ _) sh)
  simp only [shiftBy, V3.normSq, V3.dot, V3.sub, smulV]
  ring

theorem normSq_scale (s : ℚ) (p0 p1 : V3 ℚ) :
    V3.normSq (smulV s p1 - smulV s p0) = (s * s) * V3.normSq (p1 - p0) := by
  show V3.normSq (V3.sub _ _) = _ * V3.normSq (V3.sub _ _)
  simp only [V3.normSq, V3.dot, V3.sub, smulV]
  ring

/-- `dmag2` of the scaled system is `s²` times `dmag2` of the original one. -/
theorem dmag2_scale (s : ℚ) (hs : s ≠ 0) (V : M3 ℚ) (px py pz : Bool) (p0 p1 : V3 ℚ) :
    dmag2 (⟨smulV s V.r0, smulV s V.r1, smulV s V.r2⟩ : M3 ℚ) px py pz (smulV s p0) (smulV s p1)
      = (s * s) * dmag2 V px py pz p0 p1 := by
  have hk : (0 : ℚ) < s * s := mul_self_pos.2 hs
  unfold dmag2
  simp only []
  rw [normSq_scale]
  exact foldl_min_scale (s * s) hk
    (fun sh => V3.normSq (shiftBy V (p1 - p0) sh))
    (fun sh => V3.normSq (shiftBy (⟨smulV s V.r0, smulV s V.r1, smulV s V.r2⟩ : M3 ℚ) (smulV s p1 - smulV s p0) sh))
    (fun sh => normSq_shift_scale s V p0 p1 sh) _ _

theorem dist2_scale (s : ℚ) (hs : s ≠ 0) (S : Sys) (u v : Nat) :
    dist2 (scaleSys s S) u v = (s * s) * dist2 S u v := by
  unfold dist2
  rw [scaleSys_posOf, scaleSys_posOf]
  exact dmag2_scale s hs S.vects S.px S.py S.pz _ _

/-- `dmag2` only sees the difference of the two points. -/
theorem dmag2_translate (V : M3 ℚ) (px py pz : Bool) (p0 p1 t : V3 ℚ) :
    dmag2 V px py pz (p0 + t) (p1 + t) = dmag2 V px py pz p0 p1 := by
  have hd : (p1 + t) - (p0 + t) = p1 - p0 := by
    show V3.sub (V3.add _ _) (V3.add _ _) = V3.sub _ _
    simp only [V3.sub, V3.add, V3.mk.injEq]
    refine ⟨by ring, by ring, by ring⟩
  unfold dmag2
  simp only []
  rw [hd]

theorem dist2_translate (t : V3 ℚ) (S : Sys) (u v : Nat) (hu : u < S.natoms) (hv : v < S.natoms) :
    dist2 (translateSys t S) u v = dist2 S u v := by
  unfold dist2
  rw [translateSys_posOf t S u hu, translateSys_posOf t S v hv]
  exact dmag2_translate S.vects S.px S.py S.pz _ _ t

theorem insideCell_scale (s : ℚ) (S : Sys) (p : V3 ℚ) (h : InsideCell S p) :
    InsideCell (scaleSys s S) (smulV s p) := by
  obtain ⟨r, h0, h1, h2, h3, h4, h5, hp⟩ := h
  refine ⟨r, h0, h1, h2, h3, h4, h5, ?_⟩
  rw [hp]
  simp only [scaleSys, smulV, V3.mk.injEq]
  refine ⟨by ring, by ring, by ring⟩

theorem insideCell_translate (t : V3 ℚ) (S : Sys) (p : V3 ℚ) (h : InsideCell S p) :
    InsideCell (translateSys t S) (p + t) := by
  obtain ⟨r, h0, h1, h2, h3, h4, h5, hp⟩ := h
  refine ⟨r, h0, h1, h2, h3, h4, h5, ?_⟩
  rw [hp]
  show V3.add _ _ = _
  simp only [translateSys, V3.add, V3.mk.injEq]
  have hx : (S.origin + t).x = S.origin.x + t.x := rfl
  have hy : (S.origin + t).y = S.origin.y + t.y := rfl
  have hz : (S.origin + t).z = S.origin.z + t.z := rfl
  rw [hx, hy, hz]
  refine ⟨by ring, by ring, by ring⟩

end Atomman.C03
