/-
  C07 — helper lemmas for `data_wellformed`: this model's `wrap` is C05's `wrap`, every written atom is inside
  the written bounds (C05 `wrap_inside`), `lo < hi`, the tilt line is there iff a tilt is non-zero.
-/
import Proofs.C07_DataFile
import Proofs.C05_Lemmas
import Mathlib.Data.Rat.Floor

namespace Atomman.C07
open Atomman
set_option linter.unusedSimpArgs false
set_option linter.unusedVariables false

/-! ### `wrap` of this model is the `wrap` of C05 -/

theorem wrapBounds_eq (periodic : Bool) (x : ℚ) (xs : List ℚ) :
    wrapBounds periodic (x :: xs) = C05.axisBounds (1 / 1000) periodic (x :: xs) := by
  unfold wrapBounds C05.axisBounds
  cases periodic with
  | true => rfl
  | false =>
    simp only [Bool.false_eq_true, if_false, listMin, listMax, C05.minOf, C05.maxOf, wrapMargin]
    rfl

theorem wrap_eq_c05 (box : Box ℚ) (pbc : V3 Bool) (p : V3 ℚ) (ps : List (V3 ℚ)) :
    (wrap box pbc (p :: ps)).box = (C05.wrap Rat.floor (1 / 1000) box pbc (p :: ps)).box ∧
    (wrap box pbc (p :: ps)).pos = (C05.wrap Rat.floor (1 / 1000) box pbc (p :: ps)).pos ∧
    (wrap box pbc (p :: ps)).flags = (C05.wrap Rat.floor (1 / 1000) box pbc (p :: ps)).flags := by
  refine ⟨?_, ?_, ?_⟩
  · simp only [wrap, C05.wrap, C05.paddedBox, C05.bounds, List.map_cons, wrapBounds_eq]
  · simp only [wrap, C05.wrap, C05.atomPos, C05.atomFlags, C05.flagsOf, C05.flagOf, C05.subFlags, wrapFlag]
    rw [List.zipWith_map_right, List.zipWith_self, List.map_map, List.map_map]
    rfl
  · simp only [wrap, C05.wrap, C05.atomFlags, C05.flagsOf, C05.flagOf, wrapFlag, List.map_map]
    rfl

/-- `Rat.floor` is a floor. -/
theorem isFloor_ratFloor : C05.IsFloor (K := ℚ) Rat.floor :=
  fun s => ⟨Int.floor_le s, Int.lt_floor_add_one s⟩

/-- C05's `wrap_inside` (re-derived here from the C05 helper lemmas `wrap_cartToRel` and `axis_unit`, so that this
    file does not depend on the C05 property file): after `wrap` every atom is inside the new box. -/
theorem c05_wrap_inside (b : Box ℚ) (hdet : M3.det b.vects ≠ 0) (pbc : V3 Bool) (pos : List (V3 ℚ)) :
    ∀ p' ∈ (C05.wrap Rat.floor (1 / 1000) b pbc pos).pos,
      C05.insideRel ((C05.wrap Rat.floor (1 / 1000) b pbc pos).box.cartToRel p') := by
  have hpad : (0 : ℚ) < 1 / 1000 := by norm_num
  intro p' hp'
  simp only [C05.wrap, List.mem_map] at hp'
  obtain ⟨p, hp, rfl⟩ := hp'
  have e := C05.wrap_cartToRel Rat.floor (1 / 1000) hpad b hdet pbc pos p
  rw [e]
  have mx : (b.cartToRel p).x ∈ (pos.map b.cartToRel).map (·.x) :=
    List.mem_map.mpr ⟨_, List.mem_map.mpr ⟨p, hp, rfl⟩, rfl⟩
  have my : (b.cartToRel p).y ∈ (pos.map b.cartToRel).map (·.y) :=
    List.mem_map.mpr ⟨_, List.mem_map.mpr ⟨p, hp, rfl⟩, rfl⟩
  have mz : (b.cartToRel p).z ∈ (pos.map b.cartToRel).map (·.z) :=
    List.mem_map.mpr ⟨_, List.mem_map.mpr ⟨p, hp, rfl⟩, rfl⟩
  obtain ⟨_, x0, x1, _⟩ := C05.axis_unit Rat.floor isFloor_ratFloor _ hpad pbc.x _ _ mx
  obtain ⟨_, y0, y1, _⟩ := C05.axis_unit Rat.floor isFloor_ratFloor _ hpad pbc.y _ _ my
  obtain ⟨_, z0, z1, _⟩ := C05.axis_unit Rat.floor isFloor_ratFloor _ hpad pbc.z _ _ mz
  exact ⟨x0, x1.le, y0, y1.le, z0, z1.le⟩

/-! ### the LAMMPS box of the header and positions inside it -/

theorem norm_facts (b : Box ℚ) (h : b.isLammpsNorm = true) :
    b.vects.r0.y = 0 ∧ b.vects.r0.z = 0 ∧ b.vects.r1.z = 0 ∧ 0 < b.vects.r0.x ∧ 0 < b.vects.r1.y ∧ 0 < b.vects.r2.z := by
  simpa [Box.isLammpsNorm, and_assoc] using h

theorem v3_sub_def (a b : V3 ℚ) : a - b = ⟨a.x - b.x, a.y - b.y, a.z - b.z⟩ := rfl

/-- dividing the header numbers and a position by the length unit does not change relative coordinates. -/
theorem cartToRel_header (b : Box ℚ) (hn : b.isLammpsNorm = true) (lf : Option ℚ) (hlf : ∀ c, lf = some c → c ≠ 0)
    (p : V3 ℚ) :
    (boxOfHiLo ((hiLoOf b).map (divBy lf))).cartToRel (v3map (divBy lf) p) = b.cartToRel p := by
  obtain ⟨h1, h2, h3, h4, h5, h6⟩ := norm_facts b hn
  obtain ⟨⟨⟨ax, ay, az⟩, ⟨bx, by', bz⟩, ⟨cx, cy, cz⟩⟩, ⟨ox, oy, oz⟩⟩ := b
  obtain ⟨px, py, pz⟩ := p
  simp only at h1 h2 h3 h4 h5 h6
  subst h1 h2 h3
  cases lf with
  | none =>
    simp only [boxOfHiLo, hiLoOf, HiLo.map, divBy, v3map, add_sub_cancel_left]
  | some c =>
    have hc := hlf c rfl
    simp only [boxOfHiLo, hiLoOf, HiLo.map, divBy, v3map, Box.cartToRel, Box.recip, M3.inv, M3.det, M3.transpose,
      M3.mulVec, V3.dot, V3.cross, v3_sub_def, V3.mk.injEq]
    have hax : ax ≠ 0 := ne_of_gt h4
    have hby : by' ≠ 0 := ne_of_gt h5
    have hcz : cz ≠ 0 := ne_of_gt h6
    refine ⟨?_, ?_, ?_⟩ <;> (field_simp; ring)

theorem det_ne_zero_of_wrap_norm (box : Box ℚ) (pbc : V3 Bool) (pos : List (V3 ℚ))
    (h : (wrap box pbc pos).box.isLammpsNorm = true) : M3.det box.vects ≠ 0 := by
  obtain ⟨h1, h2, h3, h4, h5, h6⟩ := norm_facts _ h
  simp only [wrap, V3.smul] at h1 h2 h3 h4 h5 h6
  set e0 := (wrapBounds pbc.x (List.map (fun x => x.x) (List.map box.cartToRel pos))).2 -
    (wrapBounds pbc.x (List.map (fun x => x.x) (List.map box.cartToRel pos))).1
  set e1 := (wrapBounds pbc.y (List.map (fun x => x.y) (List.map box.cartToRel pos))).2 -
    (wrapBounds pbc.y (List.map (fun x => x.y) (List.map box.cartToRel pos))).1
  set e2 := (wrapBounds pbc.z (List.map (fun x => x.z) (List.map box.cartToRel pos))).2 -
    (wrapBounds pbc.z (List.map (fun x => x.z) (List.map box.cartToRel pos))).1
  have he0 : e0 ≠ 0 := by intro e; rw [e] at h4; simp at h4
  have he1 : e1 ≠ 0 := by intro e; rw [e] at h5; simp at h5
  have he2 : e2 ≠ 0 := by intro e; rw [e] at h6; simp at h6
  have a1 : box.vects.r0.y = 0 := by rcases mul_eq_zero.mp h1 with h | h; exact absurd h he0; exact h
  have a2 : box.vects.r0.z = 0 := by rcases mul_eq_zero.mp h2 with h | h; exact absurd h he0; exact h
  have a3 : box.vects.r1.z = 0 := by rcases mul_eq_zero.mp h3 with h | h; exact absurd h he1; exact h
  have b1 : box.vects.r0.x ≠ 0 := by intro e; rw [e] at h4; simp at h4
  have b2 : box.vects.r1.y ≠ 0 := by intro e; rw [e] at h5; simp at h5
  have b3 : box.vects.r2.z ≠ 0 := by intro e; rw [e] at h6; simp at h6
  simp only [M3.det, V3.dot, V3.cross, a1, a2, a3]
  ring_nf
  exact mul_ne_zero (mul_ne_zero b1 b2) b3

/-- **every atom of a data file lies inside the written bounds** (the numbers the file prints, before rounding):
    relative to the box a LAMMPS run builds from the header, every written position has coordinates in `[0, 1]`. -/
theorem data_atoms_inside (s : Sys) (lf : Option ℚ) (hlf : ∀ c, lf = some c → c ≠ 0)
    (hn : (wrap s.box s.pbc s.pos).box.isLammpsNorm = true) :
    ∀ p ∈ (wrap s.box s.pbc s.pos).pos,
      C05.insideRel ((boxOfHiLo ((hiLoOf (wrap s.box s.pbc s.pos).box).map (divBy lf))).cartToRel (v3map (divBy lf) p)) := by
  intro p hp
  rw [cartToRel_header _ hn lf hlf]
  generalize s.pos = pos at hp hn ⊢
  cases pos with
  | nil => simp [wrap] at hp
  | cons q qs =>
    obtain ⟨e1, e2, _⟩ := wrap_eq_c05 s.box s.pbc q qs
    rw [e1]
    rw [e2] at hp
    exact c05_wrap_inside s.box (det_ne_zero_of_wrap_norm s.box s.pbc (q :: qs) hn) s.pbc (q :: qs) p hp

/-! ### `lo < hi` -/

theorem hilo_lo_lt_hi (b : Box ℚ) (hn : b.isLammpsNorm = true) (lf : Option ℚ) (hlf : ∀ c, lf = some c → 0 < c) :
    let h := (hiLoOf b).map (divBy lf)
    h.xlo < h.xhi ∧ h.ylo < h.yhi ∧ h.zlo < h.zhi := by
  obtain ⟨_, _, _, h4, h5, h6⟩ := norm_facts b hn
  cases lf with
  | none => simp only [hiLoOf, HiLo.map, divBy]; exact ⟨by linarith, by linarith, by linarith⟩
  | some c =>
    have hc := hlf c rfl
    simp only [hiLoOf, HiLo.map, divBy]
    refine ⟨?_, ?_, ?_⟩ <;> (apply div_lt_div_of_pos_right _ hc; linarith)

/-- rounding to `n` decimals keeps `lo < hi` whenever the extent exceeds one unit of the last printed place. -/
theorem fixedVal_lt (a b : ℚ) (n : Nat) (h : 1 / 10 ^ n < b - a) : fixedVal a n < fixedVal b n := by
  have ha := abs_le.mp (fixedVal_error a n)
  have hb := abs_le.mp (fixedVal_error b n)
  have e : (1 : ℚ) / (2 * 10 ^ n) + 1 / (2 * 10 ^ n) = 1 / 10 ^ n := by
    have : (0 : ℚ) < 10 ^ n := by positivity
    field_simp; ring
  linarith [ha.2, hb.1]

/-! ### the tilt line -/

theorem cellTok_head (f : Fmt) (c : Cell) : ∃ ch rest, c.tok f = ch :: rest ∧ (isDigit ch = true ∨ ch = '-') := by
  have hnat : ∀ m : Nat, ∃ ch rest, natTok m = ch :: rest ∧ isDigit ch = true := by
    intro m
    cases h : natTok m with
    | nil => exact absurd h (natTok_ne_nil m)
    | cons ch rest =>
      have := all_isDigit_natTok m
      rw [h] at this
      simp only [List.all_cons, Bool.and_eq_true] at this
      exact ⟨ch, rest, rfl, this.1⟩
  have hpad : ∀ d : Nat, ∃ ch, padDigits 1 d = [ch] ∧ isDigit ch = true := by
    intro d
    exact ⟨digitChar (d % 10), by simp [padDigits], isDigit_digitChar _ (Nat.mod_lt _ (by norm_num))⟩
  cases c with
  | int i =>
    simp only [Cell.tok, intTok]
    split
    · exact ⟨'-', _, rfl, Or.inr rfl⟩
    · obtain ⟨ch, rest, h, hd⟩ := hnat i.natAbs
      exact ⟨ch, rest, h, Or.inl hd⟩
  | num q =>
    cases f with
    | fixed n =>
      simp only [Cell.tok, fmtNum, fmtFixed]
      split
      · exact ⟨'-', _, rfl, Or.inr rfl⟩
      · obtain ⟨ch, rest, h, hd⟩ := hnat ((fixedScaled q n).natAbs / 10 ^ n)
        rw [h]
        exact ⟨ch, _, rfl, Or.inl hd⟩
    | exp n =>
      simp only [Cell.tok, fmtNum, fmtExp]
      split
      · split
        · exact ⟨'-', _, rfl, Or.inr rfl⟩
        · exact ⟨'0', _, rfl, Or.inl (by decide)⟩
      · split
        · exact ⟨'-', _, rfl, Or.inr rfl⟩
        · rename_i hq
          obtain ⟨ch, h, hd⟩ := hpad ((expParts (if q < 0 then -q else q) n).1 / 10 ^ n)
          simp only [hq, if_false] at h ⊢
          rw [h]
          exact ⟨ch, _, rfl, Or.inl hd⟩

theorem cellTok_ne_yz (f : Fmt) (c : Cell) : c.tok f ≠ cs!"yz" := by
  obtain ⟨ch, rest, h, hd⟩ := cellTok_head f c
  rw [h]
  intro e
  injection e with e1 _
  subst e1
  rcases hd with hd | hd
  · exact absurd hd (by decide)
  · exact absurd hd (by decide)

theorem rows_last_ne_yz (f : Fmt) (rows : List (List Cell)) : ∀ l ∈ rowsDoc f rows, l.getLast? ≠ some (cs!"yz") := by
  intro l hl hlast
  simp only [rowsDoc, List.mem_map] at hl
  obtain ⟨r, _, rfl⟩ := hl
  have := List.mem_of_getLast? hlast
  obtain ⟨c, _, hc⟩ := List.mem_map.mp this
  exact cellTok_ne_yz f c hc

theorem atom_style_keys_ne_yz : ∀ e ∈ Gen.AtomStyles.atomStyles, e.1 ≠ "yz" := by decide +kernel

/-- the words of an accepted style: `hybrid` or names of base styles. -/
theorem styleWords_known (style : String) (cols : List ColSpec) (h : atomCols style = some cols) :
    ∀ w ∈ styleWords style, w = "hybrid" ∨ ∃ e ∈ Gen.AtomStyles.atomStyles, e.1 = w := by
  unfold atomCols styleCols at h
  generalize styleWords style = ws at h ⊢
  match ws with
  | [] => simp at h
  | w :: rest =>
    by_cases hw : w = "hybrid"
    · subst hw
      simp only [hybridCols] at h
      cases hb : lookupStyle Gen.AtomStyles.atomStyles "atomic" with
      | none => rw [hb] at h; simp at h
      | some base =>
        rw [hb] at h
        simp only [Option.bind_eq_bind, Option.bind_some] at h
        have := fold_subs_known rest base cols h
        intro x hx
        rcases List.mem_cons.mp hx with rfl | hx
        · exact Or.inl rfl
        · exact Or.inr (this x hx)
    · cases rest with
      | nil =>
        have h : lookupStyle Gen.AtomStyles.atomStyles w = some cols := by
          split at h
          · rename_i heq; injection heq with h1 _; exact absurd h1 hw
          · rename_i heq; injection heq with h1 _; rw [h1]; exact h
          · rename_i h1 h2; exact absurd rfl (h2 w)
        obtain ⟨e, he, rfl, _, _⟩ := lookupStyle_some h
        intro x hx
        simp at hx; subst hx
        exact Or.inr ⟨e, he, rfl⟩
      | cons w2 r2 =>
        exfalso
        split at h
        · rename_i heq; injection heq with h1 _; exact hw h1
        · rename_i heq; injection heq with _ h2; cases h2
        · cases h

/-- **the tilt line is present iff a tilt is non-zero**: a line of the written data file ends with the keyword
    `yz` exactly when `xy`, `xz`, `yz` are not all zero. -/
theorem tilt_line_iff (f : Fmt) (style : String) (cols : List ColSpec) (hcols : atomCols style = some cols)
    (p : DataParts) :
    (∃ l ∈ dataDocOf f style p, l.getLast? = some (cs!"yz")) ↔ tilted p.hilo := by
  constructor
  · rintro ⟨l, hl, hlast⟩
    by_contra hnt
    have hbox : boxLines f p.hilo = [[fmtNum f p.hilo.xlo, fmtNum f p.hilo.xhi, cs!"xlo", cs!"xhi"],
        [fmtNum f p.hilo.ylo, fmtNum f p.hilo.yhi, cs!"ylo", cs!"yhi"],
        [fmtNum f p.hilo.zlo, fmtNum f p.hilo.zhi, cs!"zlo", cs!"zhi"]] := by
      unfold tilted at hnt; simp [boxLines, hnt]
    simp only [dataDocOf, hbox, List.cons_append, List.nil_append, List.mem_cons, List.mem_append,
      List.append_assoc] at hl
    rcases hl with rfl | rfl | rfl | rfl | rfl | rfl | rfl | rfl | rfl | hl | hl
    · simp at hlast
    · simp at hlast
    · simp at hlast
    · simp at hlast
    · simp at hlast
    · simp at hlast
    · simp at hlast
    · -- the `Atoms # style` line
      have hm := List.mem_of_getLast? hlast
      simp only [List.mem_cons, List.mem_map] at hm
      rcases hm with hm | hm | ⟨w, hw, hm⟩
      · exact absurd hm (by decide)
      · exact absurd hm (by decide)
      · rcases styleWords_known style cols hcols w hw with rfl | ⟨e, he, rfl⟩
        · exact absurd hm (by decide)
        · have : e.1 = "yz" := by
            have := congrArg String.ofList hm
            simpa [strTok] using this
          exact atom_style_keys_ne_yz e he this
    · simp at hlast
    · exact rows_last_ne_yz f _ l hl hlast
    · cases hv : p.vel with
      | none => rw [hv] at hl; simp at hl
      | some vr =>
        rw [hv] at hl
        simp only [List.cons_append, List.nil_append, List.mem_cons] at hl
        rcases hl with rfl | rfl | rfl | hl
        · simp at hlast
        · simp at hlast
        · simp at hlast
        · exact rows_last_ne_yz f _ l hl hlast
  · intro ht
    refine ⟨[fmtNum f p.hilo.xy, fmtNum f p.hilo.xz, fmtNum f p.hilo.yz, cs!"xy", cs!"xz", cs!"yz"], ?_, by simp⟩
    have hbox : [fmtNum f p.hilo.xy, fmtNum f p.hilo.xz, fmtNum f p.hilo.yz, cs!"xy", cs!"xz", cs!"yz"]
        ∈ boxLines f p.hilo := by
      unfold tilted at ht; simp [boxLines, ht]
    simp only [dataDocOf, List.mem_append]
    exact Or.inl (Or.inl (Or.inl (Or.inr hbox)))

/-! ### positions after applying the image flags -/

theorem v3_add_def (a b : V3 ℚ) : a + b = ⟨a.x + b.x, a.y + b.y, a.z + b.z⟩ := rfl

/-- the lattice shift the image flags stand for is the same with the padded cell vectors as with the original ones:
    periodic vectors are untouched and flags along non-periodic directions are zero. -/
theorem flags_shift_padded (b : Box ℚ) (pbc : V3 Bool) (pos : List (V3 ℚ)) (p : V3 ℚ) :
    M3.vecMul ⟨((C05.atomFlags Rat.floor b pbc p).x : ℚ), ((C05.atomFlags Rat.floor b pbc p).y : ℚ),
        ((C05.atomFlags Rat.floor b pbc p).z : ℚ)⟩ (C05.wrap Rat.floor (1 / 1000) b pbc pos).box.vects
      = C05.latticeVec b.vects (C05.atomFlags Rat.floor b pbc p) := by
  obtain ⟨px, py, pz⟩ := pbc
  simp only [C05.wrap, C05.paddedBox, C05.bounds, C05.latticeVec, M3.vecMul, V3.smul, C05.atomFlags, C05.flagsOf,
    C05.flagOf, V3.mk.injEq]
  cases px <;> cases py <;> cases pz <;>
    simp [C05.axisBounds]

/-- **positions after applying the image flags** (exact numbers the file prints): `x + ix·a + iy·b + iz·c` with the cell
    vectors a LAMMPS run builds from the written header is the atom's original position in the length unit. -/
theorem data_unwrap (s : Sys) (lf : Option ℚ) (hlf : ∀ c, lf = some c → c ≠ 0)
    (hn : (wrap s.box s.pbc s.pos).box.isLammpsNorm = true) (k : Nat) (hk : k < s.pos.length) :
    ∃ q fl, (wrap s.box s.pbc s.pos).pos[k]? = some q ∧ (wrap s.box s.pbc s.pos).flags[k]? = some fl ∧
      unwrapPos ((hiLoOf (wrap s.box s.pbc s.pos).box).map (divBy lf)) (v3map (divBy lf) q) fl
        = v3map (divBy lf) s.pos[k] := by
  have hdet := det_ne_zero_of_wrap_norm s.box s.pbc s.pos hn
  generalize s.pos = pos at hk hn hdet ⊢
  cases pos with
  | nil => simp at hk
  | cons p0 ps =>
    obtain ⟨e1, e2, e3⟩ := wrap_eq_c05 s.box s.pbc p0 ps
    rw [e1] at hn ⊢
    rw [e2, e3]
    refine ⟨C05.atomPos Rat.floor s.box s.pbc (p0 :: ps)[k], C05.atomFlags Rat.floor s.box s.pbc (p0 :: ps)[k],
      ?_, ?_, ?_⟩
    · show ((p0 :: ps).map (C05.atomPos Rat.floor s.box s.pbc))[k]? = _
      rw [List.getElem?_map, List.getElem?_eq_getElem hk]; rfl
    · show ((p0 :: ps).map (C05.atomFlags Rat.floor s.box s.pbc))[k]? = _
      rw [List.getElem?_map, List.getElem?_eq_getElem hk]; rfl
    set p := (p0 :: ps)[k] with hp
    have hrec := C05.atom_reconstruct Rat.floor s.box hdet s.pbc p
    have hsh := flags_shift_padded s.box s.pbc (p0 :: ps) p
    set B := (C05.wrap Rat.floor (1 / 1000) s.box s.pbc (p0 :: ps)).box with hB
    set q := C05.atomPos Rat.floor s.box s.pbc p with hq
    set fl := C05.atomFlags Rat.floor s.box s.pbc p with hfl
    obtain ⟨h1, h2, h3, _, _, _⟩ := norm_facts B hn
    -- componentwise
    rw [← hsh] at hrec
    obtain ⟨⟨⟨ax, ay, az⟩, ⟨bx, by', bz⟩, ⟨cx, cy, cz⟩⟩, ⟨ox, oy, oz⟩⟩ := B
    simp only at h1 h2 h3
    subst h1 h2 h3
    obtain ⟨qx, qy, qz⟩ := q
    obtain ⟨fx, fy, fz⟩ := fl
    obtain ⟨ppx, ppy, ppz⟩ := p
    simp only [M3.vecMul, v3_add_def, V3.mk.injEq] at hrec
    obtain ⟨r1, r2, r3⟩ := hrec
    cases lf with
    | none =>
      simp only [unwrapPos, boxOfHiLo, hiLoOf, HiLo.map, divBy, v3map, M3.vecMul, v3_add_def, V3.mk.injEq]
      refine ⟨by linarith, by linarith, by linarith⟩
    | some c =>
      have hc := hlf c rfl
      simp only [unwrapPos, boxOfHiLo, hiLoOf, HiLo.map, divBy, v3map, M3.vecMul, v3_add_def, V3.mk.injEq]
      refine ⟨?_, ?_, ?_⟩
      · rw [← r1]; field_simp; ring
      · rw [← r2]; field_simp; ring
      · rw [← r3]; field_simp; ring

end Atomman.C07
