/-
  C13 — the source tie.  `lean/Atomman/Generated/DislocationSource.lean` is regenerated on every check by
  `translate()` (harness/props/c13.py) from the CURRENT source of atomman/defect/Dislocation/, atomman/region/ and
  atomman/defect/disregistry.py: every definition there is assembled from the operators, constants, indices, branch
  order and argument order read from the source with `ast`.  Here each generated definition is proved equal to the
  hand model of lean/Atomman/C13.lean (`gen_…_eq_model`), so an edit of the source that changes one of them breaks a
  named obligation; code that is not a Lean definition (calls into System / the solver / numpy) is held by
  normalised statement pins (`gen_…_pinned`: the generated text must equal the text written here).
-/
import Proofs.C13_Params
import Atomman.Generated.DislocationSource
import Mathlib.Tactic.IntervalCases
import Mathlib.Tactic.Tauto

namespace Atomman.C13
open Atomman
set_option linter.unusedSectionVars false
set_option linter.unusedVariables false

variable {K : Type} [Field K] [LinearOrder K] [IsStrictOrderedRing K]

/-! ## `set_shift` -/

/-- Python indexing of `self.shifts` as the generated decision tree takes it. -/
def pyIdx (l : List (V3 K)) (i : Int) : Except String (V3 K) :=
  match pyGet? l i with
  | some s => .ok s
  | none => .error "index"

/-- the decision tree of `Dislocation.set_shift` as it stands in the source is the model's `setShift`. -/
theorem gen_setShift_eq_model (vects : M3 K) (shifts : List (V3 K)) (a : ShiftArgs K) :
    Gen.Disl.setShift pyIdx vects shifts a.shift a.index a.scale = setShift vects shifts a := by
  obtain ⟨s, i, sc⟩ := a
  cases s with
  | none =>
    cases i with
    | none => cases shifts <;> simp [Gen.Disl.setShift, setShift, pyIdx, pyGet?]
    | some i => rfl
  | some s =>
    cases i with
    | none => cases sc <;> simp [Gen.Disl.setShift, setShift]
    | some i => simp only [Gen.Disl.setShift, setShift]

/-! ## size multipliers -/

theorem gen_defaultMults_eq_model (line : Nat) :
    Gen.Disl.monoDefaultMults line = defaultMults line ∧ Gen.Disl.arrDefaultMults line = defaultMults line :=
  ⟨rfl, rfl⟩

/-- the six asserts of the `try:` block, on a sequence of any length and content, accept exactly what the model's
    `checkMultsRaw` accepts (both generators). -/
theorem gen_checkMults_eq_model (line : Nat) (hl : line < 3) (l : List MultEntry) :
    Gen.Disl.monoCheckMults line l.length (fun i => MultEntry.isInt l[i]?) (fun i => MultEntry.val l[i]?)
      = (checkMultsRaw line l).isSome ∧
    Gen.Disl.arrCheckMults line l.length (fun i => MultEntry.isInt l[i]?) (fun i => MultEntry.val l[i]?)
      = (checkMultsRaw line l).isSome := by
  rcases l with _ | ⟨a, _ | ⟨b, _ | ⟨c, _ | ⟨d, r⟩⟩⟩⟩
  · simp [Gen.Disl.monoCheckMults, Gen.Disl.arrCheckMults, checkMultsRaw]
  · simp [Gen.Disl.monoCheckMults, Gen.Disl.arrCheckMults, checkMultsRaw]
  · simp [Gen.Disl.monoCheckMults, Gen.Disl.arrCheckMults, checkMultsRaw]
  · cases a <;> cases b <;> cases c <;>
      simp [Gen.Disl.monoCheckMults, Gen.Disl.arrCheckMults, checkMultsRaw, MultEntry.isInt, MultEntry.val, checkMults] <;>
      interval_cases line <;> simp [V3.get] <;> (split <;> simp_all)
  · simp [Gen.Disl.monoCheckMults, Gen.Disl.arrCheckMults, checkMultsRaw]

/-- each `amin / bmin / cmin` block (guard `> 0.0`, `int(ceil(min / length))`, the odd → even bump across the line,
    the larger of the two multipliers) is the model's `minMult` on `minQ`. -/
theorem gen_minMult_eq_model (ceil : K → Int) (line : Nat) (vmin len : K) (cur : Int) :
    (Gen.Disl.monoMin0 ceil line vmin len cur = minMult line 0 (minQ ceil vmin len) cur ∧
     Gen.Disl.monoMin1 ceil line vmin len cur = minMult line 1 (minQ ceil vmin len) cur ∧
     Gen.Disl.monoMin2 ceil line vmin len cur = minMult line 2 (minQ ceil vmin len) cur) ∧
    (Gen.Disl.arrMin0 ceil line vmin len cur = minMult line 0 (minQ ceil vmin len) cur ∧
     Gen.Disl.arrMin1 ceil line vmin len cur = minMult line 1 (minQ ceil vmin len) cur ∧
     Gen.Disl.arrMin2 ceil line vmin len cur = minMult line 2 (minQ ceil vmin len) cur) := by
  by_cases h : 0 < vmin
  · simp only [Gen.Disl.monoMin0, Gen.Disl.monoMin1, Gen.Disl.monoMin2, Gen.Disl.arrMin0, Gen.Disl.arrMin1,
      Gen.Disl.arrMin2, minMult, minQ, h, gt_iff_lt, decide_true, if_true, ne_eq, Bool.and_eq_true, decide_eq_true_eq,
      decide_not, Bool.not_eq_true', decide_eq_false_iff_not]
    refine ⟨⟨?_, ?_, ?_⟩, ?_, ?_, ?_⟩ <;> (congr 1 <;> simp [eq_comm])
  · simp [Gen.Disl.monoMin0, Gen.Disl.monoMin1, Gen.Disl.monoMin2, Gen.Disl.arrMin0, Gen.Disl.arrMin1,
      Gen.Disl.arrMin2, minMult, minQ, h]

/-- the three `(lo, hi)` assignments: `(0, s)` at `lineindex`, `(-s // 2, s // 2)` at `lineindex - 1` and
    `lineindex - 2` (Python negative indexing into the three entries) are the model's `sizeOf`. -/
theorem gen_sizeOf_eq_model (line : Nat) (hl : line < 3) (s : Int) :
    (Gen.Disl.monoSize0 s = ((sizeOf line line s).lo, (sizeOf line line s).hi) ∧
     Gen.Disl.monoSize1 s = ((sizeOf line ((line + 2) % 3) s).lo, (sizeOf line ((line + 2) % 3) s).hi) ∧
     Gen.Disl.monoSize2 s = ((sizeOf line ((line + 1) % 3) s).lo, (sizeOf line ((line + 1) % 3) s).hi)) ∧
    (Gen.Disl.arrSize0 s = ((sizeOf line line s).lo, (sizeOf line line s).hi) ∧
     Gen.Disl.arrSize1 s = ((sizeOf line ((line + 2) % 3) s).lo, (sizeOf line ((line + 2) % 3) s).hi) ∧
     Gen.Disl.arrSize2 s = ((sizeOf line ((line + 1) % 3) s).lo, (sizeOf line ((line + 1) % 3) s).hi)) := by
  interval_cases line <;> simp [Gen.Disl.monoSize0, Gen.Disl.monoSize1, Gen.Disl.monoSize2, Gen.Disl.arrSize0,
    Gen.Disl.arrSize1, Gen.Disl.arrSize2, sizeOf]

/-! ## shift, centre, width, shape -/

theorem gen_shiftGiven_eq_model (a : ShiftArgs K) :
    Gen.Disl.monoShiftGiven a.shift a.index = a.given ∧ Gen.Disl.arrShiftGiven a.shift a.index = a.given := ⟨rfl, rfl⟩

theorem gen_center_eq_model (vects : M3 K) (c : Option (V3 K)) (sc : Bool) :
    Gen.Disl.monoCenter vects c sc = resolveCenter vects c sc ∧ Gen.Disl.arrCenter vects c sc = resolveCenter vects c sc := by
  cases c <;> exact ⟨rfl, rfl⟩

theorem gen_width_eq_model (ua w : K) (sc : Bool) :
    Gen.Disl.monoWidth ua w sc = resolveWidth ua w sc ∧ Gen.Disl.arrWidth ua w sc = resolveWidth ua w sc := ⟨rfl, rfl⟩

/-- the shapes `monopole` does not refuse are exactly those the model knows. -/
theorem gen_shapes_eq_model (s : String) : (Shape.ofString? s).isSome = Gen.Disl.monoShapes.contains s := by
  unfold Shape.ofString? Gen.Disl.monoShapes
  split <;> simp_all

/-- the boundary step is taken exactly when the model takes it, the `radius > 0` assertion is the model's. -/
theorem gen_boundaryGuard_eq_model (w : K) :
    Gen.Disl.monoBoundaryGuard w = decide (0 < w) ∧ Gen.Disl.arrBoundaryGuard w = decide (0 < w) ∧
    Gen.Disl.cylRadiusOk w = decide (0 < w) := ⟨rfl, rfl, rfl⟩

theorem gen_pbc_eq_model (i : Nat) : Gen.Disl.monoPbc i = pbcOnly i ∧ Gen.Disl.arrPbc i = pbcExcept i := by
  constructor <;> simp [Gen.Disl.monoPbc, Gen.Disl.arrPbc, pbcOnly, pbcExcept] <;>
    (refine ⟨?_, ?_, ?_⟩ <;> split <;> simp_all)

/-! ## regions -/

/-- `box_boundary` takes the faces `i`, `i + 3` of the two directions that are not the line, in this order;
    `array_boundary` the faces `cut`, `cut + 3`. -/
theorem gen_boundaryPlanes_eq_model (line cut : Nat) (b : Box K) :
    boxBoundaryPlanes line b = (Gen.Disl.boxBoundaryIdx line).map (fun i => (boxPlanes b).getD i (b.origin, b.origin)) ∧
    arrayBoundaryPlanes cut b = (Gen.Disl.arrayBoundaryIdx cut).map (fun i => (boxPlanes b).getD i (b.origin, b.origin)) := by
  refine ⟨?_, rfl⟩
  simp only [boxBoundaryPlanes, Gen.Disl.boxBoundaryIdx, List.map_flatMap]
  congr 1
  apply List.filter_congr; intro x _; simp
/-- `plane.point -= width * plane.normal`: the point of the coded plane (`belowCoded`) component by component. -/
theorem gen_planeShift_eq_model (s w : K) (pl : V3 K × V3 K) :
    pl.2 - V3.smul w (V3.smul (1 / s) pl.1) =
      ⟨Gen.Disl.boxBoundaryShift w pl.2.x (V3.smul (1 / s) pl.1).x, Gen.Disl.boxBoundaryShift w pl.2.y (V3.smul (1 / s) pl.1).y,
       Gen.Disl.boxBoundaryShift w pl.2.z (V3.smul (1 / s) pl.1).z⟩ ∧
    ∀ pt nrm : K, Gen.Disl.arrayBoundaryShift w pt nrm = Gen.Disl.boxBoundaryShift w pt nrm := by
  refine ⟨?_, fun _ _ => rfl⟩
  simp [Gen.Disl.boxBoundaryShift, V3.smul, C05.V3.sub_def]

/-- `Plane.below(inclusive=True)` on the coded plane is `belowCoded` (the definition `boundary_iff_outside_box` is
    stated with). -/
theorem gen_planeBelow_eq_model (s w : K) (pl : V3 K × V3 K) (p : V3 K) :
    Gen.Disl.planeBelow true (V3.dot (V3.smul (1 / s) pl.1) p)
      (V3.dot (V3.smul (1 / s) pl.1) (pl.2 - V3.smul w (V3.smul (1 / s) pl.1))) = true ↔ belowCoded s w pl p := by
  simp [Gen.Disl.planeBelow, belowCoded]

theorem foldl_and_eq_all {α : Type} (f : α → Bool) (l : List α) (acc : Bool) :
    l.foldl (fun a b => a && f b) acc = (acc && l.all f) := by
  induction l generalizing acc with
  | nil => simp
  | cons x r ih => simp [ih, Bool.and_assoc]

/-- `cylinder_boundary`: `vect1`, `vect2` are the rows `lineindex - 2`, `lineindex - 1` of the reference box and
    `radius = smallest - width`. -/
theorem gen_cylRadius_eq_model (sqrt : K → K) (mi ni line : Nat) (b : Box K) (w : K) :
    cylRadius sqrt mi ni line b w = Gen.Disl.cylRadius (sqrt (cylSmallest2 mi ni line b)) w ∧
    cylSmallest2 mi ni line b =
      (let v1 := proj2 mi ni (b.vects.row (Gen.Disl.cylRows line).1)
       let v2 := proj2 mi ni (b.vects.row (Gen.Disl.cylRows line).2)
       let o := proj2 mi ni b.origin
       min4 (lineDist2 o v1) (lineDist2 o v2) (lineDist2 (o.1 + v2.1, o.2 + v2.2) v1)
         (lineDist2 (o.1 + v1.1, o.2 + v1.2) v2)) := ⟨rfl, rfl⟩

/-- the `line` / `intersection` helpers of `cylinder_boundary`: the normal line through (0, 0) with direction
    `c · (-v₂, v₁)` (or the opposite sense) meets the boundary line through `p` and `p + v` at a point whose squared
    distance from (0, 0) is the model's `lineDist2 p v`. -/
theorem gen_cylIntersection_eq_model (p v : K × K) (c : K) (hc : c ≠ 0) (hv : v.1 * v.1 + v.2 * v.2 ≠ 0) :
    ∃ x y : K, Gen.Disl.cylIntersection (Gen.Disl.cylLine (0, 0) (c * -v.2, c * v.1))
        (Gen.Disl.cylLine p (p.1 + v.1, p.2 + v.2)) = some (x, y) ∧ x * x + y * y = lineDist2 p v := by
  obtain ⟨p1, p2⟩ := p
  obtain ⟨v1, v2⟩ := v
  simp only at hv
  have hD : -(c * v1) * v1 - c * -v2 * -v2 ≠ 0 := by
    have : -(c * v1) * v1 - c * -v2 * -v2 = -c * (v1 * v1 + v2 * v2) := by ring
    rw [this]; exact mul_ne_zero (neg_ne_zero.mpr hc) hv
  have h1 : p2 - (p2 + v2) = -v2 := by ring
  have h2 : p1 * (p2 + v2) - (p1 + v1) * p2 = p1 * v2 - p2 * v1 := by ring
  have hN : v1 ^ 2 + v2 ^ 2 ≠ 0 := by rwa [sq, sq]
  have hN' : v2 ^ 2 + v1 ^ 2 ≠ 0 := by rwa [add_comm]
  refine ⟨v2 * (p1 * v2 - p2 * v1) / (v1 * v1 + v2 * v2), -v1 * (p1 * v2 - p2 * v1) / (v1 * v1 + v2 * v2), ?_, ?_⟩
  · simp only [Gen.Disl.cylIntersection, Gen.Disl.cylLine]
    simp only [zero_sub, sub_zero, zero_mul, mul_zero, sub_self, neg_zero, add_sub_cancel_left]
    rw [h1, h2, if_pos hD]
    have hD2 : -(c * v1) * v1 - c * -v2 * -v2 = -c * (v1 ^ 2 + v2 ^ 2) := by ring
    have hvv : v1 * v1 + v2 * v2 = v1 ^ 2 + v2 ^ 2 := by ring
    rw [hD2, hvv]
    simp only [Option.some.injEq, Prod.mk.injEq]
    constructor <;> field_simp
  · simp only [lineDist2, cross2]
    have hvv : v1 * v1 + v2 * v2 = v1 ^ 2 + v2 ^ 2 := by ring
    rw [hvv]
    field_simp
    ring

/-! ## periodic array -/

theorem gen_tilt_eq_model (o : Orient) (vects : M3 K) (b : V3 K) :
    tiltedVects o vects b = setRow vects o.motion
      (Gen.Disl.arrTilt (b.get o.motion) (vects.row o.motion) (V3.smul half b)) := by
  simp [tiltedVects, Gen.Disl.arrTilt]

theorem gen_linearDisp_eq_model (mi ni : Nat) (b : V3 K) (L : K) (p : V3 K) :
    linearDisp mi ni b L p = V3.smul (Gen.Disl.linearFactor sgn (p.get ni) (p.get mi) L) b := rfl

/-- the strip of boundary atoms, the expected count, the mismatch test, the surface layers as they stand in
    `build_disl_array`. -/
theorem gen_array_formulas_eq_model (sb s : K) (n : Nat) (vects newvects : M3 K) (found er : Int) (bmot length : K) :
    (decide (s < sb) || decide (1 - sb < s)) = Gen.Disl.arrInStrip sb s ∧
    expectedDel n vects newvects = Gen.Disl.arrExpected (((n : Int) : K)) (volume newvects) (volume vects) ∧
    decide (found ≠ er) = Gen.Disl.arrMismatch found er ∧
    absK (((2 : Int) : K) * bmot / length) = absK (Gen.Disl.arrSburgersArg bmot length) :=
  ⟨rfl, rfl, rfl, rfl⟩

theorem gen_inLayer_eq_model (cut : Nat) (box : Box K) (bw : K) (p : V3 K) :
    inSurfaceLayer cut box bw p =
      (let y0 := box.origin.get cut
       let y1 := y0 + (box.vects.row cut).get cut
       let sw := Gen.Disl.arrSwap y0 y1
       Gen.Disl.arrInLayer (if sw then y1 else y0) (if sw then y0 else y1) bw (p.get cut)) := by
  simp [inSurfaceLayer, Gen.Disl.arrSwap, Gen.Disl.arrInLayer]

/-- `mindistance < cutoff` on the distance is the model's squared test (the model also demands `0 < cutoff`, which a
    non-negative distance below the cutoff implies). -/
theorem gen_isDup_eq_model (cutoff d d2 : K) (hd : 0 ≤ d) (hd2 : d * d = d2) :
    Gen.Disl.arrIsDup cutoff d = true ↔ (0 < cutoff ∧ d2 < cutoff * cutoff) := by
  simp only [Gen.Disl.arrIsDup, decide_eq_true_eq, ← hd2]
  constructor
  · intro h; exact ⟨lt_of_le_of_lt hd h, mul_self_lt_mul_self hd h⟩
  · rintro ⟨hc, h⟩; by_contra hn
    exact absurd (mul_self_le_mul_self hc.le (not_lt.mp hn)) (not_le.mpr h)

/-- `uniquey[uniquey > midy]` / `uniquey[uniquey < midy]`: the selections of the two adjoining planes. -/
theorem gen_disregSel_eq_model (mid y : K) :
    Gen.Disl.disregAboveySel mid y = decide (mid < y) ∧ Gen.Disl.disregBelowySel mid y = decide (y < mid) := ⟨rfl, rfl⟩

/-! ## statement pins -/

/-- statement pin: the parameter names, their order and their defaults of `__init__`, `set_shift`, `monopole`, `periodicarray`, `build_disl_array`, `disregistry`; the order cells → offered shifts → `set_shift` in `__init__`; the positional arguments handed to `set_shift` by the generators. -/
theorem gen_signatures_pinned :
  Gen.Disl.sigInit =
  ([("ucell", ""), ("C", ""), ("burgers", ""), ("ξ_uvw", ""), ("slip_hkl", ""), ("conventional_setting", "'p'"), ("ucell_setting", "None"), ("m", "'y'"), ("n", "'z'"), ("shift", "None"), ("shiftindex", "None"), ("shiftscale", "False"), ("tol", "1e-08")] : List (String × String)) ∧
  Gen.Disl.sigSetShift =
  ([("shift", "None"), ("shiftindex", "None"), ("shiftscale", "False")] : List (String × String)) ∧
  Gen.Disl.sigMonopole =
  ([("sizemults", "None"), ("amin", "0.0"), ("bmin", "0.0"), ("cmin", "0.0"), ("shift", "None"), ("shiftindex", "None"), ("shiftscale", "False"), ("center", "None"), ("centerscale", "False"), ("boundaryshape", "'cylinder'"), ("boundarywidth", "0.0"), ("boundaryscale", "False"), ("return_base_system", "False")] : List (String × String)) ∧
  Gen.Disl.sigPeriodicarray =
  ([("sizemults", "None"), ("amin", "0.0"), ("bmin", "0.0"), ("cmin", "0.0"), ("shift", "None"), ("shiftindex", "None"), ("shiftscale", "False"), ("center", "None"), ("centerscale", "False"), ("boundarywidth", "0.0"), ("boundaryscale", "False"), ("linear", "False"), ("cutoff", "None"), ("return_base_system", "False")] : List (String × String)) ∧
  Gen.Disl.sigBuildDislArray =
  ([("base_system", ""), ("center", ""), ("linear", "False"), ("bwidth", "None"), ("cutoff", "None")] : List (String × String)) ∧
  Gen.Disl.sigDisregistry =
  ([("basesystem", ""), ("dislsystem", ""), ("m", "[1.0, 0.0, 0.0]"), ("n", "[0.0, 1.0, 0.0]"), ("planepos", "[0.0, 0.0, 0.0]")] : List (String × String)) ∧
  Gen.Disl.initCalls =
  (["self.__set_cells(ucell, ξ_uvw, setting=conventional_setting, maxindex=5, tol=tol)", "self.__identify_shifts(tol)", "self.set_shift(shift, shiftindex, shiftscale)"] : List String) ∧
  Gen.Disl.monoSetShiftArgs =
  (["shift", "shiftindex", "shiftscale"] : List String) ∧
  Gen.Disl.arrSetShiftArgs =
  (["shift", "shiftindex", "shiftscale"] : List String) :=
  ⟨rfl, rfl, rfl, rfl, rfl, rfl, rfl, rfl, rfl⟩

/-- statement pin: `monopole`: supersize → shift → wrap → deepcopy → displacement at (reference position − centre) → pbc → wrap → set_systems; the region is built from `base_system.box`, tested on `disl_system.atoms.pos`, the types raised by `base_system.natypes`. -/
theorem gen_monopole_statements_pinned :
  Gen.Disl.monoShapes =
  (["cylinder", "box"] : List String) ∧
  Gen.Disl.monoCore =
  (["base_system = self.rcell.supersize(*sizemults)",
   "base_system.atoms.pos += shift",
   "base_system.wrap()",
   "disl_system = deepcopy(base_system)",
   "disl_system.atoms.pos += self.dislsol.displacement(disl_system.atoms.pos - center)",
   "disl_system.pbc = [False, False, False]",
   "disl_system.pbc[self.lineindex] = True",
   "disl_system.wrap()",
   "self.set_systems(base_system, disl_system)"] : List String) ∧
  Gen.Disl.monoDispatch =
  ([("box", "self.box_boundary", ["base_system.box", "boundarywidth"]), ("cylinder", "self.cylinder_boundary", ["base_system.box", "boundarywidth"])] : List (String × String × List String)) ∧
  Gen.Disl.monoRetype =
  (["disl_system.atoms.atype", "shape.outside", "disl_system.atoms.pos", "base_system.natypes"] : List String) ∧
  Gen.Disl.monoRetypeSymbols =
  ("disl_system.symbols = 2 * base_system.symbols" : String) ∧
  Gen.Disl.monoAfter =
  (["if return_base_system:\n    return (base_system, disl_system)\nelse:\n    return disl_system"] : List String) :=
  ⟨rfl, rfl, rfl, rfl, rfl, rfl⟩

/-- statement pin: `periodicarray`: supersize → shift → wrap → build_disl_array(base_system, center, linear, bwidth = boundarywidth, cutoff) → reference trimmed by `old_id`; region / re-typing as in `monopole`. -/
theorem gen_periodicarray_statements_pinned :
  Gen.Disl.arrCore =
  (["base_system = self.rcell.supersize(*sizemults)",
   "base_system.atoms.pos += shift",
   "base_system.wrap()",
   "disl_system = self.build_disl_array(base_system, center, linear=linear, bwidth=boundarywidth, cutoff=cutoff)",
   "base_system = base_system.atoms_ix[disl_system.atoms.old_id]"] : List String) ∧
  Gen.Disl.arrDispatch =
  ([("", "self.array_boundary", ["base_system.box", "boundarywidth"])] : List (String × String × List String)) ∧
  Gen.Disl.arrRetype =
  (["disl_system.atoms.atype", "shape.outside", "disl_system.atoms.pos", "base_system.natypes"] : List String) ∧
  Gen.Disl.arrRetypeSymbols =
  ("disl_system.symbols = 2 * base_system.symbols" : String) ∧
  Gen.Disl.arrAfter =
  (["self.set_systems(base_system, disl_system)", "if return_base_system:\n    return (base_system, disl_system)\nelse:\n    return disl_system"] : List String) :=
  ⟨rfl, rfl, rfl, rfl, rfl⟩

/-- statement pin: `cylinder_boundary`: the four boundary lines, which normal line meets which, the un-normalised normals, the axis of the returned Cylinder (through the Cartesian origin along the line vector, no end caps). -/
theorem gen_cylinder_boundary_pinned :
  Gen.Disl.cylBoundLines =
  ([["origin", "origin + vect1"], ["origin", "origin + vect2"], ["origin + vect2", "origin + vect2 + vect1"], ["origin + vect1", "origin + vect1 + vect2"]] : List (List String)) ∧
  Gen.Disl.cylIntersections =
  ([["normal_line_1", "bound_bot1"], ["normal_line_2", "bound_bot2"], ["normal_line_1", "bound_top1"], ["normal_line_2", "bound_top2"]] : List (List String)) ∧
  Gen.Disl.cylNormals =
  (["line([0, 0], normal_vect1)", "line([0, 0], normal_vect2)", "np.array([-vect1[1], vect1[0]])", "np.array([vect2[1], -vect2[0]])"] : List String) ∧
  Gen.Disl.cylReturn =
  (["np.zeros(3)", "box.vects[self.lineindex]", "return Cylinder(center1, center2, radius, endcaps=False)"] : List String) :=
  ⟨rfl, rfl, rfl, rfl⟩

/-- statement pin: `build_disl_array` statement by statement (everything that is not one of the translated formulas): defaults, the `isclose` tolerances, test system, duplicate bookkeeping, refusals, `old_id`, the linear / elastic branches. -/
theorem gen_build_disl_array_pinned :
  Gen.Disl.arrDefaults =
  ([("bwidth", "10", "angstrom"), ("cutoff", "0.5", "angstrom")] : List (String × String × String)) ∧
  Gen.Disl.arrIscloseCalls =
  ([["spos[:, motionindex]", "1.0", "rtol=0.0", "atol=1e-08"],
   ["expected", "round(expected)"],
   ["spos[:, cutindex]", "0.5", "rtol=0"]] : List (List String)) ∧
  Gen.Disl.arrElastic =
  (["miny = base_system.box.origin.dot(n)",
   "maxy = miny + vects[cutindex].dot(n)",
   "if maxy < miny:\n    miny, maxy = (maxy, miny)",
   "y = disl_system.atoms.pos.dot(n)",
   "ii = np.where((y <= miny + bwidth) | (y >= maxy - bwidth))",
   "disp = self.dislsol.displacement(disl_system.atoms.pos - center)",
   "disp[:, cutindex] -= disp[:, cutindex].mean()",
   "disp[ii] = linear_displacement(disl_system.atoms.pos[ii] - center, burgers, length, m, n)"] : List String) ∧
  Gen.Disl.arrLinear =
  (["disp = linear_displacement(disl_system.atoms.pos - center, burgers, length, m, n)"] : List String) ∧
  Gen.Disl.arrHead =
  (["m = self.dislsol.m",
   "n = self.dislsol.n",
   "burgers = self.dislsol.burgers",
   "pos = base_system.atoms.pos",
   "vects = base_system.box.vects",
   "spos = base_system.atoms_prop(key='pos', scale=True)",
   "lineindex = self.lineindex",
   "cutindex = self.cutindex",
   "motionindex = self.motionindex",
   "onface = np.isclose(spos[:, motionindex], 1.0, rtol=0.0, atol=1e-08)",
   "if np.any(onface):\n    pos[onface] -= vects[motionindex]\n    spos = base_system.atoms_prop(key='pos', scale=True)",
   "if np.isclose(spos[:, cutindex], 0.5, rtol=0).sum() > 0:\n    raise ValueError('atom positions found on slip plane: apply a coordinate shift')",
   "newvects = deepcopy(vects)",
   "if burgers.dot(m) > 0:\n    newvects[motionindex] -= burgers / 2\nelse:\n    newvects[motionindex] += burgers / 2",
   "newbox = Box(vects=newvects, origin=base_system.box.origin)",
   "newpbc = [True, True, True]",
   "newpbc[cutindex] = False",
   "length = np.abs(vects[motionindex].dot(m))",
   "testsystem = System(atoms=deepcopy(base_system.atoms), box=newbox, pbc=newpbc, symbols=base_system.symbols)",
   "testsystem.atoms.pos += linear_displacement(pos - center, burgers, length, m, n)",
   "testsystem.atoms.old_id = range(testsystem.natoms)",
   "spos = testsystem.atoms_prop(key='pos', scale=True)",
   "sburgers = np.abs(2 * burgers[motionindex] / length)",
   "boundaryatoms = testsystem.atoms[(spos[:, motionindex] < sburgers) | (spos[:, motionindex] > 1.0 - sburgers)]",
   "dup_atom_ids = []",
   "ii = np.ones(base_system.natoms, dtype=bool)",
   "ii[dup_atom_ids] = False",
   "found = base_system.natoms - ii.sum()",
   "expected = base_system.natoms - base_system.natoms * newbox.volume / base_system.box.volume",
   "if np.isclose(expected, round(expected)):\n    expected = int(round(expected))\nelse:\n    raise ValueError('expected number of atoms to delete not an integer: check burgers vector')",
   "if found != expected:\n    raise ValueError('Deleted atom mismatch: expected %i, found %i. Adjust system dimensions and/or cutoff' % (expected, found))",
   "disl_system = System(atoms=base_system.atoms[ii], box=newbox, pbc=newpbc, symbols=base_system.symbols)",
   "disl_system.atoms.old_id = np.where(ii)[0]"] : List String) ∧
  Gen.Disl.arrTail =
  (["disl_system.atoms.pos += disp", "disl_system.wrap()", "return disl_system"] : List String) :=
  ⟨rfl, rfl, rfl, rfl, rfl, rfl⟩

/-- statement pin: `disregistry`: which array is selected / reduced by which numpy routine. -/
theorem gen_disregistry_pinned :
  Gen.Disl.disregAssign =
  ([("allx", "np.dot(basepos, m)"),
   ("ally", "np.dot(basepos, n)"),
   ("midy", "np.dot(planepos, n)"),
   ("uniquey", "np.unique(ally)"),
   ("abovex", "allx[np.isclose(ally, abovey)]"),
   ("belowx", "allx[np.isclose(ally, belowy)]"),
   ("uabovex", "np.unique(abovex)"),
   ("ubelowx", "np.unique(belowx)"),
   ("coord", "np.union1d(uabovex, ubelowx)"),
   ("abovedisp", "disp[np.isclose(ally, abovey)]"),
   ("belowdisp", "disp[np.isclose(ally, belowy)]"),
   ("disregistry", "abovedispinterp - belowdispinterp")] : List (String × String)) :=
  rfl

end Atomman.C13
