/-
  C03 — source tie, part 2: the definitions regenerated from the syntax tree of nlist.pyx / NeighborList.py
  (`Atomman/Generated/NlistSource.lean`, namespace `Atomman.C03.Src`) are the ones the model (`Atomman/C03.lean`)
  is built from.  A source edit that changes one of these expressions / loop bounds / tests either still proves the
  obligation (an equivalent way of writing it) or breaks it by name.
-/
import Atomman.C03
import Mathlib.Tactic.Ring
import Mathlib.Tactic.Linarith

namespace Atomman.C03
open List

/-! ### superbox -/

/-- the corner expression of the source is `cornerAt`, component by component. -/
theorem gen_corner_eq_model (S : Sys) (c : ℚ × ℚ × ℚ) :
    cornerAt S c =
      ⟨Src.cornerOf S.origin.x S.vects.r0.x S.vects.r1.x S.vects.r2.x c.1 c.2.1 c.2.2,
       Src.cornerOf S.origin.y S.vects.r0.y S.vects.r1.y S.vects.r2.y c.1 c.2.1 c.2.2,
       Src.cornerOf S.origin.z S.vects.r0.z S.vects.r1.z S.vects.r2.z c.1 c.2.1 c.2.2⟩ := by
  refine V3.ext ?_ ?_ ?_ <;> simp only [cornerAt, Src.cornerOf] <;> ring

/-- the three coefficient loops of the source visit the 8 corners the model visits, in the same order. -/
theorem gen_cornerLoop_eq_model : Src.cornerLoop = cornerCoeffs := by decide +kernel

/-- `if corner < supermin[j]` / `if corner > supermax[j]` are `minStep` / `maxStep`. -/
theorem gen_superTests_eq_model (m c : ℚ) :
    minStep m c = (if Src.superMinTest c m then c else m) ∧ maxStep m c = (if Src.superMaxTest c m then c else m) := by
  constructor
  · simp only [minStep, Src.superMinTest, decide_eq_true_eq, gt_iff_lt]
  · simp only [maxStep, Src.superMaxTest, decide_eq_true_eq, gt_iff_lt]

/-- the padding of the superbox standing in the source is the one of `mkGrid`. -/
theorem gen_superbox_eq_model (S : Sys) (cutoff : ℚ) :
    (mkGrid S cutoff).lo = ⟨Src.superLo (cornerMin S (·.x)) cutoff, Src.superLo (cornerMin S (·.y)) cutoff,
                             Src.superLo (cornerMin S (·.z)) cutoff⟩ ∧
    (mkGrid S cutoff).hi = ⟨Src.superHi (cornerMax S (·.x)) cutoff, Src.superHi (cornerMax S (·.y)) cutoff,
                             Src.superHi (cornerMax S (·.z)) cutoff⟩ := by
  constructor <;> simp only [mkGrid, pad, Src.superLo, Src.superHi, V3.mk.injEq] <;> refine ⟨?_, ?_, ?_⟩ <;> ring

/-! ### bins -/

/-- `len(np.arange(supermin[k], <stop>, binsize))` with the stop expression of the source is `numBins`, and
    `np.digitize(…) - <offset>` with the offset of the source is `binIdx`. -/
theorem gen_bins_eq_model (lo hi c x : ℚ) (n : Nat) :
    numBins lo hi c = ((Src.arangeStop hi c - lo) / c).ceil.toNat ∧
    binIdx lo c n x = (digitize x (edges lo c n) : Int) - Src.digitizeOffset := by
  constructor
  · have : Src.arangeStop hi c = hi + c := by simp only [Src.arangeStop] <;> ring
    rw [this]; rfl
  · simp only [binIdx, Src.digitizeOffset]

/-! ### ghost images -/

/-- the shift loops of the ghost construction (ranges per periodic flag, nesting order, skipped shift) visit the
    shifts of `imageShifts` — the ones `dmag2_c` compares — in the same order. -/
theorem gen_ghostShifts_eq_model (pa pb pc : Bool) : Src.ghostShifts pa pb pc = imageShifts pa pb pc := by
  cases pa <;> cases pb <;> cases pc <;> decide +kernel

/-- the image coordinate of the source is `ghostPos`. -/
theorem gen_ghostPos_eq_model (S : Sys) (s : Int × Int × Int) (i : Nat) :
    ghostPos S s i =
      ⟨Src.ghostCoord s.1 s.2.1 s.2.2 S.vects.r0.x S.vects.r1.x S.vects.r2.x (S.posOf i).x,
       Src.ghostCoord s.1 s.2.1 s.2.2 S.vects.r0.y S.vects.r1.y S.vects.r2.y (S.posOf i).y,
       Src.ghostCoord s.1 s.2.1 s.2.2 S.vects.r0.z S.vects.r1.z S.vects.r2.z (S.posOf i).z⟩ := by
  refine V3.ext ?_ ?_ ?_ <;> simp only [ghostPos, Src.ghostCoord] <;> ring

/-- the test that keeps an image is the strict superbox test `inSuper`. -/
theorem gen_inSuper_eq_model (G : Grid) (q : V3 ℚ) :
    inSuper G q = Src.inSuperTest q.x q.y q.z G.lo.x G.lo.y G.lo.z G.hi.x G.hi.y G.hi.z := by
  rw [Bool.eq_iff_iff]
  simp only [inSuper, Src.inSuperTest, Bool.and_eq_true, decide_eq_true_eq, gt_iff_lt] <;> tauto

/-! ### stencil of the sweep -/

/-- the three offset loops of the source, cut at the centre test, are `halfStencil` (13 offsets, same order). -/
theorem gen_stencil_eq_model :
    Src.stencilLoop = stencilAll ∧
    halfStencil = Src.stencilLoop.takeWhile (fun d => !(Src.centreTest d.1 d.2.1 d.2.2)) := by
  constructor <;> decide +kernel

/-- "Skip non-existant neighbor bins": the test of the source is `skipBin` of the shifted bin. -/
theorem gen_skipBin_eq_model (G : Grid) (b d : Idx) :
    skipBin G (addIdx b d) = Src.skipTest b.1 b.2.1 b.2.2 d.1 d.2.1 d.2.2 G.nx G.ny G.nz := by
  have e : ∀ a b : Int, (a == b) = decide (a = b) := fun a b => rfl
  simp only [skipBin, addIdx, Src.skipTest, e]
  by_cases h1 : b.1 + d.1 < 0 <;> by_cases h2 : b.2.1 + d.2.1 < 0 <;> by_cases h3 : b.2.2 + d.2.2 < 0 <;>
    simp [h1, h2, h3]

/-- the pair loops of the sweep written with the indices of the source (`for u in range(len(shortlist)): for v in
    range(<vStart u>, len(longlist))`, pairs `(shortlist[u], longlist[v])`) give `pairsOf`, for lists of any length. -/
theorem pairsOf_eq_loops (short rest : List Nat) : pairLoops short rest = pairsOf short rest := by
  unfold pairLoops
  induction short with
  | nil => simp [pairsOf]
  | cons a s ih =>
    have h0 : Src.vStart 0 = 1 := by simp only [Src.vStart] <;> omega
    have hS : ∀ u, Src.vStart (u + 1) = Src.vStart u + 1 := by intro u; simp only [Src.vStart] <;> omega
    rw [pairsOf, List.length_cons, List.range_succ_eq_map, List.flatMap_cons, List.flatMap_map]
    refine congrArg₂ (· ++ ·) ?_ ?_
    · simp [h0]
    · rw [← ih]
      refine congrArg (fun f => List.flatMap f (List.range s.length)) ?_
      funext u
      simp only [Nat.succ_eq_add_one, hS]
      simp

/-! ### sorted insertion -/

/-- the scan of row `uindex` (`for j in range(1, count + 1)`: found → not new; first larger entry → `uj = j`; otherwise
    `uj = count + 1`) and of row `vindex` as they stand in the source are `scanLoopA` / `posLoopA` as `insertPairA` calls
    them. -/
theorem gen_scans_eq_model (row : List Nat) (w count f j : Nat) :
    Src.uScanStart = 1 ∧ Src.uScanStop count - Src.uScanStart = count ∧ Src.ujDefault count = Src.uScanStart + count ∧
    Src.vScanStart = 1 ∧ Src.vScanStop count - Src.vScanStart = count ∧ Src.vjDefault count = Src.vScanStart + count ∧
    scanLoopA row w (f + 1) j =
      (if Src.uFound (row.getD j 0) w then (false, j) else if Src.uPast (row.getD j 0) w then (true, j)
       else scanLoopA row w f (j + 1)) ∧
    posLoopA row w (f + 1) j = (if Src.vPast (row.getD j 0) w then j else posLoopA row w f (j + 1)) := by
  refine ⟨?_, ?_, ?_, ?_, ?_, ?_, ?_, ?_⟩
  · simp only [Src.uScanStart]
  · simp only [Src.uScanStop, Src.uScanStart] <;> omega
  · simp only [Src.ujDefault, Src.uScanStart] <;> omega
  · simp only [Src.vScanStart]
  · simp only [Src.vScanStop, Src.vScanStart] <;> omega
  · simp only [Src.vjDefault, Src.vScanStart] <;> omega
  · simp only [scanLoopA, Src.uFound, Src.uPast, decide_eq_true_eq, gt_iff_lt]
  · simp only [posLoopA, Src.vPast, decide_eq_true_eq, gt_iff_lt]

/-- an exhausted scan ends at `start + count` — the `uj == -1` / `vj == -1` default of the source. -/
theorem scan_exhausted (row : List Nat) (w : Nat) :
    ∀ f j, (∀ k, j ≤ k → k < j + f → row.getD k 0 ≠ w ∧ ¬ w < row.getD k 0) → scanLoopA row w f j = (true, j + f) := by
  intro f
  induction f with
  | zero => intro j _; simp [scanLoopA]
  | succ f ih =>
    intro j h
    have h0 := h j (le_refl j) (by omega)
    rw [scanLoopA]
    simp only [h0.1, h0.2, if_false]
    rw [ih (j + 1) (fun k hk hk' => h k (by omega) (by omega))]
    congr 1; omega

end Atomman.C03
