/-
  C06 — the source tie.  `Atomman/Generated/AtomsSource.lean` is regenerated from atomman/core/Atoms.py and
  atomman/core/System.py on every check; here every generated definition is proved equal to the hand-written
  decision of `Atomman/C06.lean` (`gen_…_eq_model`), and the functions of the model are proved to factor through
  those decisions (`…_by_decision`), so that an edit of a branch condition, of the order of the branches, of a default
  or of a signature either re-proves or breaks one of the named obligations below.
-/
import Atomman.Generated.AtomsSource
import Mathlib.Tactic.SplitIfs

namespace Atomman.C06
open Atomman Atomman.Generated

/-! ## generated = model -/

theorem gen_sigs_eq_model :
    AtomsSource.sigAtomsInit = sigAtomsInit ∧ AtomsSource.sigProp = sigProp ∧ AtomsSource.sigPropAtype = sigPropAtype ∧
    AtomsSource.sigExtend = sigExtend ∧ AtomsSource.sigSystemInit = sigSystemInit ∧
    AtomsSource.sigAtomsProp = sigAtomsProp ∧ AtomsSource.sigAtomsDf = sigAtomsDf ∧
    AtomsSource.sigAtomsExtend = sigAtomsExtend := by decide

theorem gen_defaults_eq_model :
    AtomsSource.reservedKeys = reservedKeys ∧ AtomsSource.defaultAtypeShape = defaultAtypeShape ∧
    AtomsSource.defaultAtypeValue = defaultAtypeValue ∧ AtomsSource.defaultPosShape = defaultPosShape ∧
    AtomsSource.pbcShape = pbcShape ∧ AtomsSource.systemInitOrder = systemInitOrder := by decide

/-- the dtype decision for the constructor's `pos` (`posLit` of the model casts exactly these kinds). -/
theorem gen_posCastKinds_eq_model : AtomsSource.posCastKinds = posCastKinds := by decide

/-- which properties `atoms_df(scale)` converts. -/
theorem gen_dfScaleKeys_eq_model : AtomsSource.dfScaleKeys = dfScaleKeys := by
  funext scale
  rcases scale with ((_ | _) | t) | k | l <;> simp [AtomsSource.dfScaleKeys, dfScaleKeys, DfScale.isList, DfScale.single, DfScale.toKeys]

theorem gen_intslice_eq_model : AtomsSource.intslice = intslice := by
  funext i; simp only [AtomsSource.intslice, intslice]

theorem gen_bcastDecision_eq_model : AtomsSource.bcastDecision = bcastDecision := by
  funext shape n
  cases shape <;> simp [AtomsSource.bcastDecision, bcastDecision]

theorem gen_guards_eq_model :
    AtomsSource.viewGuardRefuses = guardRefuses ∧ AtomsSource.propGuardRefuses = guardRefuses ∧
    AtomsSource.patypeGuardRefuses = guardRefuses := ⟨rfl, rfl, rfl⟩

theorem gen_storeDecision_eq_model : AtomsSource.storeDecision = storeDecision := by
  funext has; cases has <;> rfl

theorem gen_countAtype_eq_model : AtomsSource.countAtype = countAtype := by
  funext a
  rcases a with _ | (_ | ⟨n, _ | ⟨m, t⟩⟩) <;> simp [AtomsSource.countAtype, countAtype]

theorem gen_countPos_eq_model : AtomsSource.countPos = countPos := by
  funext a
  rcases a with _ | (_ | ⟨n, _ | ⟨m, _ | ⟨k, t⟩⟩⟩) <;> simp [AtomsSource.countPos, countPos]

theorem gen_countNatoms_eq_model : AtomsSource.countNatoms = countNatoms := by
  funext natoms na np
  cases natoms <;> simp [AtomsSource.countNatoms, countNatoms]

theorem gen_propDispatch_eq_model : AtomsSource.propDispatch = propDispatch := by
  funext key index value a_id
  rcases a_id with _ | a <;> rcases index with _ | ix <;> rcases value with _ | (v | o) <;> rcases key with _ | k <;>
    simp [AtomsSource.propDispatch, propDispatch, CallVal.isAtoms]

theorem gen_atomsPropDispatch_eq_model : AtomsSource.atomsPropDispatch = atomsPropDispatch := by
  funext key index value a_id scale
  rcases scale with (_ | _) | t <;> rcases a_id with _ | a <;> rcases index with _ | ix <;>
    rcases value with _ | (v | o) <;> rcases key with _ | k <;>
    simp [AtomsSource.atomsPropDispatch, atomsPropDispatch, CallVal.isAtoms, Flag.isBool]

theorem gen_patypeTableOk_eq_model : AtomsSource.patypeTableOk = patypeTableOk := rfl

theorem gen_extendDispatch_eq_model : AtomsSource.extendDispatch = extendDispatch := by
  funext kind; cases kind <;> rfl

theorem gen_sysNatypesOf_eq_model : AtomsSource.sysNatypesOf = sysNatypesOf := rfl

theorem gen_padTests_eq_model :
    AtomsSource.symbolsGetPads = symbolsGetPads ∧ AtomsSource.symbolsSetPads = symbolsSetPads ∧
    AtomsSource.massesGetPads = massesGetPads := ⟨rfl, rfl, rfl⟩

theorem gen_massesSetDecision_eq_model : AtomsSource.massesSetDecision = massesSetDecision := rfl

theorem gen_systemInit_eq_model :
    AtomsSource.systemInitRefuses = systemInitRefuses ∧ AtomsSource.systemInitConverts = systemInitConverts := by
  refine ⟨?_, rfl⟩
  funext scale; cases scale <;> simp [AtomsSource.systemInitRefuses, systemInitRefuses, Flag.isBool]

theorem gen_atomsExtend_eq_model :
    AtomsSource.atomsExtendRefuses = atomsExtendRefuses ∧ AtomsSource.atomsExtendConverts = atomsExtendConverts ∧
    AtomsSource.atomsExtendOffsetDonor = atomsExtendOffsetDonor := ⟨rfl, rfl, rfl⟩

/-- the step function of the theorems is the one with the offset the source has now. -/
theorem gen_step_eq_model (s : State) (op : Op) :
    step s op = (stepWith AtomsSource.atomsExtendOffsetDonor s op).2 ∧
    output s op = (stepWith AtomsSource.atomsExtendOffsetDonor s op).1 := ⟨rfl, rfl⟩

/-! ## the model factors through the decisions -/

/-- `PropertyDict.__setitem__`'s broadcast step is the decision of the source applied to the value's shape. -/
theorem viewBcast_by_decision (s : State) (n : Nat) (src : Src) :
    viewBcast s n src =
      (match bcastDecision (srcVal s src).shape n with
       | .scalar => (match bcast (srcVal s src) [n] with
          | some flat => M.pure (Src.lit ⟨(srcVal s src).dt, [n], flat⟩)
          | none => fail .value)
       | .row => (match bcast (srcVal s src) (n :: (srcVal s src).shape.tail) with
          | some flat => M.pure (Src.lit ⟨(srcVal s src).dt, n :: (srcVal s src).shape.tail, flat⟩)
          | none => fail .value)
       | .refuse => fail .value
       | .keep => M.pure src) := by
  unfold viewBcast bcastDecision
  generalize srcVal s src = v
  rcases v with ⟨dt, shape, data⟩
  cases shape with
  | nil => rfl
  | cons d t =>
    by_cases h1 : d = 1
    · subst h1
      simp only [List.tail_cons, ↓reduceIte]
      generalize bcast ⟨dt, 1 :: t, data⟩ (n :: t) = r
      cases r <;> rfl
    · by_cases h2 : d = n
      · subst h2; simp [h1]
      · simp [h1, h2]

/-- the refusal of `view[key] = value` by the decision: exactly `refuse`, or a value that cannot be broadcast. -/
theorem viewBcast_refuse (s : State) (n : Nat) (src : Src) (h : bcastDecision (srcVal s src).shape n = .refuse) (s0 : State) :
    viewBcast s n src s0 = (.error .value, s0) := by
  rw [viewBcast_by_decision, h]; rfl

/-- the guard of `view[key] = value` raises exactly under the condition of the source. -/
theorem viewGuard_refuses_iff (key : String) (n : Nat) (v : Val) (nums : List Rat) (s : State)
    (hn : v.data.mapM Cell.num? = some nums) (m : Rat) (hm : listMin nums = some m) :
    (viewGuard key n v s).1 = .error .value ↔ guardRefuses (key = "atype") n (m < 1) := by
  unfold viewGuard guardRefuses
  by_cases hk : key = "atype" ∧ 0 < n
  · rw [if_pos hk]; simp only [hn, hm]
    by_cases h1 : m < 1
    · simp [h1, hk.1, hk.2, fail]
    · simp [h1, M.pure]
  · rw [if_neg hk]
    constructor
    · intro h; simp [M.pure] at h
    · intro h; exact absurd ⟨h.1, h.2.1⟩ hk

/-- the guard of the indexed write `prop(key, index, value)` and of `prop_atype(key, value, atype=t)`. -/
theorem atypeGuard_refuses_iff (key : String) (v : Val) (nums : List Rat) (s : State)
    (hn : v.data.mapM Cell.num? = some nums) :
    (atypeGuard key v s).1 = .error .value ↔
      guardRefuses (key = "atype") v.data.length (∃ m, listMin nums = some m ∧ m < 1) := by
  unfold atypeGuard guardRefuses
  by_cases hk : key = "atype" ∧ v.data ≠ []
  · rw [if_pos hk]; simp only [hn]
    have hl : v.data.length > 0 := List.length_pos_iff.mpr hk.2
    cases hm : listMin nums with
    | none => simp [pure, M.pure]
    | some m =>
      by_cases h1 : m < 1
      · simp [h1, hk.1, hl, fail]
      · simp [h1, pure, M.pure]
  · rw [if_neg hk]
    constructor
    · intro h; simp [pure, M.pure] at h
    · intro h
      exact absurd ⟨h.1, List.length_pos_iff.mp h.2.1⟩ hk

/-- the constructor's default `atype` / `pos` are the ones of the source. -/
theorem mkAtoms_defaults (natoms : Option Int) (extra : List (String × Src)) :
    mkAtoms natoms none none extra =
      mkAtoms natoms (some (.lit ⟨.int, defaultAtypeShape, [.int defaultAtypeValue]⟩))
        (some (.lit ⟨.flt, defaultPosShape, [.flt 0, .flt 0, .flt 0]⟩)) extra := rfl

/-- `System.natypes` is the decision of the source on `len(self.symbols)` and the atoms' natypes. -/
theorem sysNatypes_by_decision (i : Nat) :
    sysNatypes i = (do
      let syms ← symbolsGet i
      let s ← getS
      let nt ← natypes (s.sys i).atoms
      pure (sysNatypesOf syms.length nt)) := rfl

/-- the `symbols` getter pads (re-assigns through the setter) exactly under the test of the source. -/
theorem symbolsGet_by_decision (i : Nat) (s : State) (nt : Nat) (s1 : State)
    (h : natypes (s.sys i).atoms s = (.ok nt, s1)) :
    (symbolsGetPads (s.sys i).symbols.length nt →
      symbolsGet i s = (do symbolsSet i (s.sys i).symbols; let s' ← getS; pure (s'.sys i).symbols : M _) s1) ∧
    (¬ symbolsGetPads (s.sys i).symbols.length nt → symbolsGet i s = (.ok (s1.sys i).symbols, s1)) := by
  unfold symbolsGet symbolsGetPads
  constructor
  · intro hp
    simp only [bind, M.bind, getS, h, if_pos hp]
  · intro hp
    simp only [bind, M.bind, getS, h, if_neg hp]
    rfl

/-- the `masses` setter: pad / refuse / keep as the source decides. -/
theorem massesSet_by_decision (i : Nat) (value : List (Option Rat)) (s : State) (nt : Nat) (s1 : State)
    (h : sysNatypes i s = (.ok nt, s1)) :
    massesSet i value s =
      (match massesSetDecision value.length nt with
       | .pad => modifySys i (fun y => { y with masses := value ++ List.replicate (nt - value.length) none }) s1
       | .refuse => (.error .value, s1)
       | .keep => modifySys i (fun y => { y with masses := value }) s1) := by
  show M.bind (sysNatypes i) _ s = _
  simp only [M.bind, h, massesSetDecision, padTo]
  by_cases h1 : value.length < nt
  · have h2 : ¬ value.length > nt := by omega
    simp [h1, h2]
  · by_cases h2 : value.length > nt
    · simp [h1, h2, fail]
    · simp [h1, h2]

/-- the `pbc` setter asserts the shape of the source. -/
theorem pbcSet_by_decision (i : Nat) (value : List Bool) :
    pbcSet i value = (if [value.length] ≠ pbcShape then fail .assert else modifySys i (fun y => { y with pbc := value })) := by
  unfold pbcSet pbcShape
  by_cases h : value.length = 3 <;> simp [h]

/-- what follows the count blocks: a negative `natoms` is refused (by `np.broadcast_to` in the source). -/
def countFinish (k : Int) : Except Err Nat := if k < 0 then .error .value else .ok k.toNat

theorem countNatoms_core_none (na np : Nat) :
    (if na = np then Except.ok na
      else if na = 1 then Except.ok np else if np = 1 then Except.ok na else Except.error Err.value) =
    (countNatoms none (na : Int) (np : Int)).bind countFinish := by
  unfold countNatoms countFinish
  have c1 : ((na : Int) = 1) ↔ na = 1 := by omega
  have c2 : ((np : Int) = 1) ↔ np = 1 := by omega
  simp only [Int.natCast_inj, c1, c2]
  split_ifs <;> simp_all [Except.bind]

theorem countNatoms_core_some (k : Int) (na np : Nat) :
    (if k < 0 then Except.error Err.value
      else if (na = 1 ∨ na = k.toNat) ∧ (np = 1 ∨ np = k.toNat) then Except.ok k.toNat else Except.error Err.value) =
    (countNatoms (some k) (na : Int) (np : Int)).bind countFinish := by
  unfold countNatoms countFinish
  have c1 : ((na : Int) = 1) ↔ na = 1 := by omega
  have c2 : ((np : Int) = 1) ↔ np = 1 := by omega
  by_cases hk : k < 0
  · simp only [hk, if_true]
    split_ifs <;> simp_all [Except.bind]
  · have e1 : ((na : Int) = k) ↔ na = k.toNat := by omega
    have e2 : ((np : Int) = k) ↔ np = k.toNat := by omega
    simp only [hk, if_false, e1, e2, c1, c2]
    split_ifs <;> simp_all [Except.bind]

/-- `Atoms.__init__`: the number of atoms is the three count blocks of the source, one after the other, followed by the
    refusal of a negative count (which the source leaves to `np.broadcast_to`). -/
theorem atomsCount_by_blocks (natoms : Option Int) (sa sp : List Nat) :
    atomsCount natoms sa sp =
      (countAtype (some sa)).bind (fun na => (countPos (some sp)).bind (fun np =>
        (countNatoms natoms na np).bind countFinish)) := by
  cases natoms with
  | none =>
    rcases sa with _ | ⟨a, _ | ⟨a', ta⟩⟩ <;> rcases sp with _ | ⟨p, _ | ⟨p', _ | ⟨p'', tp⟩⟩⟩ <;>
      simp only [atomsCount, countAtype, countPos, Except.bind] <;> try rfl
    · by_cases h : p = 3
      · simp only [h, if_true]; simpa [Except.bind] using countNatoms_core_none 1 1
      · simp only [h, if_false]
    · by_cases h : p' = 3
      · simp only [h, if_true]; simpa [Except.bind] using countNatoms_core_none 1 p
      · simp only [h, if_false]
    · by_cases h : p = 3
      · simp only [h, if_true]; simpa [Except.bind] using countNatoms_core_none a 1
      · simp only [h, if_false]
    · by_cases h : p' = 3
      · simp only [h, if_true]; simpa [Except.bind] using countNatoms_core_none a p
      · simp only [h, if_false]
  | some k =>
    rcases sa with _ | ⟨a, _ | ⟨a', ta⟩⟩ <;> rcases sp with _ | ⟨p, _ | ⟨p', _ | ⟨p'', tp⟩⟩⟩ <;>
      simp only [atomsCount, countAtype, countPos, Except.bind] <;> try rfl
    · by_cases h : p = 3
      · simp only [h, if_true]; simpa [Except.bind] using countNatoms_core_some k 1 1
      · simp only [h, if_false]
    · by_cases h : p' = 3
      · simp only [h, if_true]; simpa [Except.bind] using countNatoms_core_some k 1 p
      · simp only [h, if_false]
    · by_cases h : p = 3
      · simp only [h, if_true]; simpa [Except.bind] using countNatoms_core_some k a 1
      · simp only [h, if_false]
    · by_cases h : p' = 3
      · simp only [h, if_true]; simpa [Except.bind] using countNatoms_core_some k a p
      · simp only [h, if_false]

end Atomman.C06
